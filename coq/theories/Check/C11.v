(* C11 correspondence: histories written by harness/cmd/c11 are evaluated here by vm_compute. *)
From Coq Require Import String Ascii.
From PF Require Export Base.Bytes Graph.Nodes Graph.NodesLazy Check.Common.
Local Open Scope nat_scope.

(* harness processor: order- and shape-sensitive polynomial hash of the inputs (mirrors meta.run in Go) *)
Definition hmod : Z := 1000003%Z.
Definition hproc (salt : Z) : procfn := fun ins =>
  fold_left (fun acc xs =>
               fold_left (fun a x => ((a * 31 + x) mod hmod)%Z) xs
                         ((acc * 37 + 11 + Z.of_nat (length xs)) mod hmod)%Z) ins salt.

(* what the implementation showed after one operation *)
Record obs := Obs {
  o_rejected : bool;                          (* the call panicked with a declared (non-runtime) error *)
  o_panic : bool;                             (* a read during which a harness processor panicked (recovered by the harness) *)
  o_value : option Z;                         (* Value() of a read *)
  o_scratch : option Z;                       (* harness: from-scratch evaluation on its own mirror of the wiring *)
  o_changes : list (nat * (nat * bool * nat)) (* id, (Version(), State()==Stale, execution counter): entries that changed *)
}.
Definition row := (nat * bool * nat)%type.
(* pans: per node, Some salt = its processor panics when its hash (hproc salt) is divisible by 5 *)
(* CLazy: histories over processors that SKIP inputs (Graph/NodesLazy.v); kinds: per node 0 = reads every port,
   1 = gate discipline, 2 = repeat.LineNodeData (Times, then Start / End only when Times > 0) *)
Inductive case :=
| CHist (decls : list decl) (pans : list (option N)) (table0 : list row) (ops : list (op * obs))
| CLazy (decls : list decl) (kinds : list N) (table0 : list row) (ops : list (op * obs)).

(* constructors used by the generated case files (all numerals are N literals there) *)
Definition opS (n v : N) : op := SetParam (N.to_nat n) (Z.of_N v).
Definition opC (n : N) (input : string) (src : N) : op := Connect (N.to_nat n) input (N.to_nat src).
Definition opD (n : N) (input : string) : op := Disconnect (N.to_nat n) input.
Definition opR (n : N) : op := Read (N.to_nat n).
(* an update message the parameter rejects (ApplyMessage returns the decoding error): the model has no such
   operation — parameters reject everything but a successful set — so it is rendered as an operation every
   parameter rejects; the state must not change and Version() must not move *)
Definition opX (n : N) : op := Disconnect (N.to_nat n) ""%string.
Definition mkrow (v : N) (s : bool) (e : N) : row := (N.to_nat v, s, N.to_nat e).
Definition chg (n v : N) (s : bool) (e : N) : nat * row := (N.to_nat n, mkrow v s e).
Definition dP (v : N) : decl := DParam (Z.of_N v).
Definition dS (fs : list (string * bool)) (salt : N) : decl := DStruct fs (hproc (Z.of_N salt)).
(* a processor that may FAIL: Process() returns (hmod + hash, err) when the hash is divisible by 3 — a value no
   successful run produces.  nodes.Struct stores that value next to the error (sn.value, sn.err = Process()) and
   Value() serves it; the error itself is never read back by Value/State/Version/Outdated *)
Definition hprocF (salt : Z) : procfn := fun ins =>
  let h := hproc salt ins in if (h mod 3 =? 0)%Z then (hmod + h)%Z else h.
Definition dSF (fs : list (string * bool)) (salt : N) : decl := DStruct fs (hprocF (Z.of_N salt)).

Definition pan_of (pans : list (option N)) : pantab := fun n ins =>
  match nth_error pans n with
  | Some (Some salt) => (hproc (Z.of_N salt) ins mod 5 =? 0)%Z
  | _ => false
  end.

Definition row_eqb (a b : row) : bool :=
  let '(v, s, e) := a in let '(v', s', e') := b in (v =? v') && Bool.eqb s s' && (e =? e').
Fixpoint rows_eqb (a b : list row) : bool :=
  match a, b with
  | [], [] => true
  | x :: a', y :: b' => row_eqb x y && rows_eqb a' b'
  | _, _ => false
  end.
Definition apply_changes (t : list row) (ch : list (nat * row)) : list row :=
  fold_left (fun t c => set_nth (fst c) (snd c) t) ch t.

Definition optZ_eqb (a b : option Z) : bool :=
  match a, b with Some x, Some y => Z.eqb x y | None, None => true | _, _ => false end.

(* ---------- model vs implementation ---------- *)
Definition model_row (st : store) (n : id) : option row :=
  do v <- ver_of st n; do s <- state_of sorted_order st n; Some (v, s, execs_of st n).
Definition model_table (st : store) : option (list row) := map_opt (model_row st) (seq 0 (length st)).
Definition table_ok (st : store) (t : list row) : bool :=
  match model_table st with Some m => rows_eqb m t | None => false end.

(* one operation of the model; reads go through pvalue (processors may panic) *)
Definition mstep (pan : pantab) (s : state) (o : op) : option (state * option pres) :=
  match o with
  | Read n =>
      do '(st', r) <- pvalue sorted_order pan (fuel_of (nodes s)) (nodes s) n;
      Some ({| nodes := st'; clock := S (clock s) |}, Some r)
  | _ => do '(s', _) <- step sorted_oracle s o; Some (s', None)
  end.

Fixpoint corr_run (pan : pantab) (s : state) (t : list row) (ops : list (op * obs)) : bool :=
  match ops with
  | [] => true
  | (o, ob) :: r =>
      let t' := apply_changes t (o_changes ob) in
      match mstep pan s o with
      | None => o_rejected ob && negb (o_panic ob) && rows_eqb t t' && optZ_eqb (o_value ob) None && corr_run pan
                  {| nodes := nodes s; clock := S (clock s) |} t' r
      | Some (s', res) =>
          negb (o_rejected ob)
          && (match res with
              | Some (POk v) => negb (o_panic ob) && optZ_eqb (o_value ob) (Some v)
              | Some PPanic => o_panic ob && optZ_eqb (o_value ob) None
              | None => negb (o_panic ob) && optZ_eqb (o_value ob) None
              end)
          && table_ok (nodes s') t' && corr_run pan s' t' r
      end
  end.
Definition corr_ok_hist (ds : list decl) (pans : list (option N)) (t0 : list row) (ops : list (op * obs)) : bool :=
  table_ok (nodes (init ds)) t0 && corr_run (pan_of pans) (init ds) t0 ops.

(* ---------- processors that skip inputs: model = lrun / lvalue / lstale of Graph/NodesLazy.v ---------- *)
(* gate discipline (harness type GateData): ports Gate, A, B read in this order; stop after Gate when its value is
   0 mod 3, after A when it is 1 mod 3; the value is the hash of the ports that were read *)
Definition gate_val (acc : list (list val)) : Z := match acc with (g :: _) :: _ => g | _ => 0%Z end.
Definition stop_gate : stopfn := fun acc =>
  match length acc with
  | 1 => (gate_val acc mod 3 =? 0)%Z
  | 2 => (gate_val acc mod 3 =? 1)%Z
  | _ => false
  end.
Definition dG (fs : list (string * bool)) (salt : N) : decl := DStruct fs (lazy_proc stop_gate (hproc (Z.of_N salt))).
(* repeat.LineNodeData, ports in READING order Times, Start, End; value abstraction of the []trs.TRS it returns:
   0 for the empty result, else (len * 10007 + x(start) * 101 + x(end)) mod hmod  (Line(s, e, t-2) = t-2 points, s, e) *)
Definition stop_line : stopfn := fun acc => match acc with [t :: _] => (t <=? 0)%Z | [[]] => true | _ => false end.
Definition line_proc : procfn := fun ins =>
  match ins with
  | [t :: _; s :: _; e :: _] => if (t <=? 0)%Z then 0%Z else ((t * 10007 + s * 101 + e) mod hmod)%Z
  | _ => 0%Z
  end.
Definition dL : decl :=
  DStruct [("Times"%string, false); ("Start"%string, false); ("End"%string, false)] (lazy_proc stop_line line_proc).
(* float -> vector3 helper node: abstraction = the x coordinate; 1 when the input is not connected *)
Definition vec_proc : procfn := fun ins => match ins with [x :: _] => x | _ => 1%Z end.
Definition dV : decl := DStruct [("X"%string, false)] vec_proc.
Definition stops_of (kinds : list N) : id -> stopfn := fun n =>
  match nth n kinds 0%N with 1%N => stop_gate | 2%N => stop_line | _ => fun _ => false end.

Definition lmodel_row (s : lstate) (n : id) : option row :=
  do v <- ver_of (fst s) n; do b <- lstale sorted_order (fuel_of (fst s)) (fst s) (snd s) n; Some (v, b, execs_of (fst s) n).
Definition ltable_ok (s : lstate) (t : list row) : bool :=
  match map_opt (lmodel_row s) (seq 0 (length (fst s))) with Some m => rows_eqb m t | None => false end.
Definition lmstep (stops : id -> stopfn) (s : lstate) (o : op) : option (lstate * option val) :=
  match o with
  | Read n => do '(s', v) <- lvalue sorted_order stops (fuel_of (fst s)) s n; Some (s', Some v)
  | _ => do s' <- lstep sorted_order stops s o; Some (s', None)
  end.
Fixpoint lcorr_run (stops : id -> stopfn) (s : lstate) (t : list row) (ops : list (op * obs)) : bool :=
  match ops with
  | [] => true
  | (o, ob) :: r =>
      let t' := apply_changes t (o_changes ob) in
      match lmstep stops s o with
      | None => o_rejected ob && negb (o_panic ob) && rows_eqb t t' && optZ_eqb (o_value ob) None && lcorr_run stops s t' r
      | Some (s', res) =>
          negb (o_rejected ob) && negb (o_panic ob) && optZ_eqb (o_value ob) res && ltable_ok s' t' && lcorr_run stops s' t' r
      end
  end.

(* ---------- the property, on what the implementation returned ---------- *)
(* reachability in the tracked wiring (fuel = number of nodes + 1) *)
Fixpoint reach_b (fuel : nat) (g : graph) (n m : id) : bool :=
  match fuel with
  | O => false
  | S f => match nth_error g n with
           | Some (GStruct ins _) => existsb (fun d => (d =? m) || reach_b f g d m) (concat ins)
           | _ => false
           end
  end.
Definition in_cone (g : graph) (n m : id) : bool := (n =? m) || reach_b (S (length g)) g n m.

(* tracked by the oracle: the wiring/parameter values (edited with the port functions only, never with
   the model's Value/Outdated), and per node "its cone changed since it last executed (or it never did)" *)
Definition g_edit (g : list (list (string * port) * procfn + val)) (o : op) : option (list (list (string * port) * procfn + val)) :=
  match o with
  | SetParam n v => match nth_error g n with Some (inr _) => Some (set_nth n (inr v) g) | _ => None end
  | Connect n input src =>
      match nth_error g n with
      | Some (inl (ps, f)) => do ps' <- set_input ps input (Some src); Some (set_nth n (inl (ps', f)) g)
      | _ => None end
  | Disconnect n input =>
      match nth_error g n with
      | Some (inl (ps, f)) => do ps' <- set_input ps input None; Some (set_nth n (inl (ps', f)) g)
      | _ => None end
  | Read _ => Some g
  end.
Definition g_graph (g : list (list (string * port) * procfn + val)) : graph :=
  map (fun x => match x with inl (ps, f) => GStruct (map (fun p => port_ids (snd p)) ps) f | inr v => GParam v end) g.
Definition g_init (ds : list decl) : list (list (string * port) * procfn + val) :=
  map (fun d => match d with
                | DParam v => inr v
                | DStruct fs f => inl (map (fun x : string * bool => (fst x, if snd x then Array [] else Scalar None)) fs, f)
                end) ds.
Definition is_param (g : list (list (string * port) * procfn + val)) (n : id) : bool :=
  match nth_error g n with Some (inr _) => true | _ => false end.

Definition target (o : op) : id :=
  match o with SetParam n _ | Connect n _ _ | Disconnect n _ | Read n => n end.

(* per node checks between two consecutive observations *)
Fixpoint rows_step (g : list (list (string * port) * procfn + val)) (o : op) (completed accepted : bool) (n : id) (t t' : list row) (touched : list bool)
  : bool :=
  match t, t', touched with
  | [], [], [] => true
  | (v, _, e) :: tr, (v', s', e') :: tr', tc :: tcr =>
      (* the node just read reports State() = Processed (neither Stale nor Error); a node whose read
         panicked does not claim to be Processed (its Value() would then serve a cache without executing) *)
      (match o with
       | Read r => if r =? n then (if completed then negb s' else if accepted then s' else true) else true
       | _ => true end) &&
      (if is_param g n then
         (* update counter: +1 exactly when this parameter was set, never executes *)
         (e' =? 0) && (e =? 0) &&
         (v' =? (match o with SetParam p _ => if accepted && (p =? n) then S v else v | _ => v end))
       else
         (* version grows by exactly the number of executions; a node executes at most once per read,
            only during a read, and only if its cone changed since its last execution *)
         (e <=? e') && (v' - v =? e' - e) && (v <=? v') &&
         (match o with
          | Read _ => if accepted then (e' =? e) || ((e' =? S e) && tc) else (e' =? e)
          | _ => e' =? e end))
      && rows_step g o completed accepted (S n) tr tr' tcr
  | _, _, _ => false
  end.

(* State() after an accepted operation, every struct node: Stale exactly when its cone was touched since its last
   completed execution (or it never executed); parameters always report Processed *)
Fixpoint states_ok (g : list (list (string * port) * procfn + val)) (n : id) (t : list row) (touched : list bool) : bool :=
  match t, touched with
  | [], [] => true
  | (_, s, _) :: tr, tc :: tcr => (if is_param g n then negb s else Bool.eqb s tc) && states_ok g (S n) tr tcr
  | _, _ => false
  end.

(* one-sided version for processors that skip inputs: a node whose cone is untouched since its last completed execution
   reports Processed (a touched one may report either: an input that was not read does not make it Stale) *)
Fixpoint states_le (g : list (list (string * port) * procfn + val)) (n : id) (t : list row) (touched : list bool) : bool :=
  match t, touched with
  | [], [] => true
  | (_, s, _) :: tr, tc :: tcr => (if is_param g n then negb s else (negb s || tc)) && states_le g (S n) tr tcr
  | _, _ => false
  end.

Fixpoint prop_run (exact : bool) (pan : pantab) (g : list (list (string * port) * procfn + val)) (t : list row) (touched : list bool) (ops : list (op * obs)) : bool :=
  match ops with
  | [] => true
  | (o, ob) :: r =>
      let t' := apply_changes t (o_changes ob) in
      let accepted := negb (o_rejected ob) in
      (* only a read can be reported as panicked, and never together with a rejection *)
      (if o_panic ob then negb (o_rejected ob) && (match o with Read _ => true | _ => false end) else true) &&
      rows_step g o (accepted && negb (o_panic ob)) accepted 0 t t' touched &&
      (if accepted then
         match g_edit g o with
         | None => false        (* accepted an operation that cannot be applied to the wiring *)
         | Some g' =>
             let gr := g_graph g' in
             (match o with
              | Read n =>
                  (* freshness: the value read = from-scratch evaluation (Coq, on the tracked wiring)
                     = from-scratch evaluation (harness, on its own mirror) *)
                  (* ... INCLUDING the outcome: the read panics exactly when the from-scratch evaluation does *)
                  match eval_p pan (S (length gr)) gr n, o_value ob with
                  | Some (POk y), Some x => negb (o_panic ob) && Z.eqb x y && optZ_eqb (o_scratch ob) (Some x)
                  | Some PPanic, None => o_panic ob && optZ_eqb (o_scratch ob) None
                  | _, _ => false end
              | _ => optZ_eqb (o_value ob) None end) &&
             let touched' :=
               match o with
               | Read _ => map (fun k => nth k touched true && (snd (nth k t' (0, false, 0)) =? snd (nth k t (0, false, 0))))
                               (seq 0 (length touched))
               | _ => map (fun k => nth k touched true || in_cone gr k (target o)) (seq 0 (length touched))
               end in
             (if exact then states_ok g' 0 t' touched' else states_le g' 0 t' touched') && prop_run exact pan g' t' touched' r
         end
       else rows_eqb t t' && optZ_eqb (o_value ob) None && prop_run exact pan g t' touched r)
  end.

Definition prop_ok_hist (exact : bool) (ds : list decl) (pans : list (option N)) (t0 : list row) (ops : list (op * obs)) : bool :=
  (length t0 =? length ds) &&
  forallb (fun r : row => let '(v, _, e) := r in (v =? 0) && (e =? 0)) t0 &&
  states_ok (g_init ds) 0 t0 (map (fun _ => true) ds) &&
  prop_run exact (pan_of pans) (g_init ds) t0 (map (fun _ => true) ds) ops.

Definition corr_ok (c : case) : bool :=
  match c with
  | CHist ds pans t0 ops => corr_ok_hist ds pans t0 ops
  | CLazy ds kinds t0 ops => ltable_ok (linit ds) t0 && lcorr_run (stops_of kinds) (linit ds) t0 ops
  end.

(* CLazy: freshness (value read = from-scratch evaluation of the tracked wiring; the processors are functions of all
   inputs that look only at the prefix they read), executions only during reads, at most one per read, only when the
   cone was touched since the last one, version delta = execution delta, the node read reports Processed *)
Definition prop_ok (c : case) : bool :=
  match c with
  | CHist ds pans t0 ops => prop_ok_hist true ds pans t0 ops
  | CLazy ds kinds t0 ops => prop_ok_hist false ds (map (fun _ => None) ds) t0 ops
  end.
