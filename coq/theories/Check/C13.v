(* C13 correspondence: history windows recorded by harness/cmd/c13 on the real graph.Instance are judged here
   (vm_compute) by the verified linearizability checker [linb] of Graph/Lock.v.

   A window is a set of completed calls issued by 1-8 client goroutines between two quiescent points:
   every call carries the invocation / response stamps drawn from one shared atomic counter
   (renumbered per window), the operation and what the implementation returned, decoded to numbers:
     UpdateParameter(p, json v)      -> Update p v     / RUpd ok
     UpdateParameter(p, malformed)   -> BadUpdate p    / RUpd ok
     ParameterData(p)                -> Get p          / RGet v
     Artifact(name)                  -> Artifact f     / RArt vs   (f = the parameters the producer's text lists,
                                                                    vs = the values the text shows, in order)
     Artifact(name), panicking nodes -> ArtifactP f bad / RArt vs or RPanic (the call panicked and the client
                                                                    recovered, as the edit server does)
   a panic / unparsable output is RFail (never a sequential response).

   Round 4: in every third epoch the calls are HTTP requests against the repository's edit server (POST / GET
   /parameter/value/<id>, GET /producer/value/<name>, GET /zip = one artifact call per producer inside one interval);
   the stamps then bracket the whole request (justified by LockExtProofs.http_plain_linearizable).  Sequential
   scripts of one client with long update bursts are emitted compactly as [CSweep] (Graph/LockExt.v [seg]) and
   judged by the linear replay [legalb] (LockExtProofs.sweep_oracle_iff: it decides linearizability there). *)
From PF Require Export Graph.Lock Graph.LockExt Check.Common.
From Coq Require Import List NArith Arith Bool.
Import ListNotations.

(* constructors with [nat]-typed arguments so that the harness can write plain numerals *)
Definition K (t : nat) (o : op) (r : resp) (i j : nat) : call := mkcall t o r i j.
Definition U (p : nat) (v : N) : op := Update p v.
Definition B (p : nat) : op := BadUpdate p.
Definition G (p : nat) : op := Get p.
Definition A (f : list nat) : op := Artifact f.
(* a producer with panicking nodes: [bad] = the (parameter, value) pairs for which its evaluation panics *)
Definition PB (p : nat) (v : N) : param * value := (p, v).
Definition AP (f : list nat) (bad : list (param * value)) : op := ArtifactP f bad.
(* one unlocked ModelVersion() read by a client: (invocation stamp, response stamp, value) *)
Definition V (i j : nat) (v : N) : nat * nat * N := (i, j, v).
(* a retained response: (what it decoded to at response time, what the SAME retained object -- the artifact value,
   the byte slice returned by ParameterData -- decodes to when it is read again later: at the end of the window,
   after the updates of later windows, or by a slow consumer while updates are running) *)
Definition L (at_response later : resp) : resp * resp := (at_response, later).

Inductive case :=
(* concurrent window: [init]/[ver] = parameter values / model version at the quiescent point before the window,
   [final]/[ver_after] = the same read by the harness (single-threaded) at the quiescent point after it,
   [vreads] = ModelVersion() reads issued by the clients during the window *)
| CHist (nthreads : nat) (init : list N) (ver : N) (calls : list call)
        (final : list N) (ver_after : N) (vreads : list (nat * nat * N))
        (late : list (resp * resp))      (* retained responses read again later *)
        (overlaps : N)                   (* times a second client entered a node's Process while another was inside *)
        (fresh : list (resp * resp))     (* at the quiescent point after the window: (artifact of the live instance,
                                            artifact of a FRESH instance given the same parameter values) *)
(* single-threaded script: [calls] in program order *)
| CSeq (init : list N) (ver : N) (calls : list call) (final : list N) (ver_after : N) (late : list (resp * resp))
       (fresh : list (resp * resp))
(* sequential script of ONE client written compactly (Graph/LockExt.v [seg]: [SU p vs] = one successful update of
   p per value, [SC o r] = any other call and its response); used for long bursts of updates between two reads *)
| CSweep (init : list N) (ver : N) (segs : list seg) (final : list N) (ver_after : N) (fresh : list (resp * resp)).

Definition is_update (o : op) : bool := match o with Update _ _ | BadUpdate _ => true | _ => false end.
Definition count_if (f : call -> bool) (l : list call) : N := N.of_nat (List.length (filter f l)).

Definition stamps_ok (calls : list call) : bool := forallb (fun x => c_inv x <? c_res x) calls.

(* the reads of every parameter the harness performs after the window, as calls later than everything else *)
Definition max_res (calls : list call) : nat := fold_left (fun m x => Nat.max m (c_res x)) calls 0.
Definition final_reads (calls : list call) (final : list N) : list call :=
  let m := S (max_res calls) in
  map (fun p => mkcall 0 (Get p) (RGet (nth p final 0%N)) (m + 2 * p) (m + 2 * p + 1)) (seq 0 (List.length final)).

(* an unlocked version read returns a value between "all updates that had responded before it was invoked" and
   "all updates invoked before it responded" *)
Definition vread_ok (ver : N) (calls : list call) (r : nat * nat * N) : bool :=
  match r with
  | (i, j, v) =>
      let lo := (ver + count_if (fun x => is_update (c_op x) && Nat.ltb (c_res x) i) calls)%N in
      let hi := (ver + count_if (fun x => is_update (c_op x) && Nat.ltb (c_inv x) j) calls)%N in
      (lo <=? v)%N && (v <=? hi)%N
  end.

(* sequential replay in the given order: [legalb] of Graph/LockExt.v *)

(* responses are VALUES: in the model a response is a Coq value fixed at the call's linearization point
   (LockSemProofs.responses_are_values); the implementation must return objects that keep showing that value *)
Definition values_ok (late : list (resp * resp)) : bool := forallb (fun p => resp_eqb (fst p) (snd p)) late.

(* the property on the implementation's output: the window is linearizable (which is exactly "every artifact is
   one snapshot, not older than any update completed before its invocation"), the model version counts every
   update exactly once, version reads are plausible, retained responses never change, node evaluation is exclusive *)
Definition prop_ok (c : case) : bool :=
  match c with
  | CHist _ init ver calls _ ver_after vreads late overlaps fresh =>
      stamps_ok calls && linb (state_of init ver) calls
      && N.eqb ver_after (ver + count_if (fun x => is_update (c_op x)) calls)
      && forallb (vread_ok ver calls) vreads
      && values_ok late
      && N.eqb overlaps 0          (* mutex_invariant observed on the implementation: node evaluation is exclusive *)
      && values_ok fresh           (* what the caches serve = what a from-scratch evaluation of the same state yields,
                                      also for producers with failing nodes *)
  | CSeq init ver calls _ ver_after late fresh =>
      stamps_ok calls && linb (state_of init ver) calls
      && N.eqb ver_after (ver + count_if (fun x => is_update (c_op x)) calls)
      && values_ok late && values_ok fresh
  | CSweep init ver segs _ ver_after fresh =>
      (* one client: the only order compatible with real time is the program order (LockExtProofs.sweep_oracle_iff) *)
      legalb (state_of init ver) (expand segs)
      && N.eqb ver_after (ver + count_if (fun x => is_update (c_op x)) (expand segs))
      && values_ok fresh
  end.

(* model vs implementation: the model predicts the responses AND the state the window leaves behind *)
Definition corr_ok (c : case) : bool :=
  match c with
  | CHist _ init ver calls final _ _ _ _ _ =>
      linb (state_of init ver) (calls ++ final_reads calls final)
  | CSeq init ver calls final ver_after _ _ =>
      legalb (state_of init ver) (calls ++ final_reads calls final)
      && N.eqb ver_after (st_ver (run_calls (state_of init ver) calls))
  | CSweep init ver segs final ver_after _ =>
      legalb (state_of init ver) (expand segs ++ final_reads (expand segs) final)
      && N.eqb ver_after (st_ver (run_calls (state_of init ver) (expand segs)))
  end.
