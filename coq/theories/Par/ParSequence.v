(* C10: AddFieldParallel refines AddField on the real bookkeeping (chunk table + cells), sequences of add / march
   operations on one canvas, and what a block march reads (why a per-block cache is unsound).
   Definitions and proofs (nothing here is used by the evaluator Check/C10.v). *)
From Coq Require Import List Arith ZArith Bool Lia Permutation.
From PF Require Import Par.Partition Par.Interleave Par.ParProofs Par.ParExtra.
Import ListNotations.

(* ================================================================ the chunk table as an observer sees it *)
Section TableFacts.
  Context {K V : Type} (keqb : K -> K -> bool) (add : V -> V -> V) (zero : V).
  Hypothesis keqb_spec : forall a b, keqb a b = true <-> a = b.

  Definition tstep_key (a : @tstep K V) : K := match a with Fetch k => k | AccT k _ _ => k end.
  (* the (attribute, chunk) keys for which a chunk array exists: section.positions *)
  Definition keys (t : @table K V) : list K := map fst (positions t).
  (* Two canvases are the same for every reader (and for the harness, which compares chunk tables by key and cell
     arrays bitwise): the same chunks exist and every cell holds the same value.  Slot numbers in float1Data are
     not observable. *)
  Definition table_eq (t1 t2 : @table K V) : Prop :=
    (forall k, In k (keys t1) <-> In k (keys t2)) /\ canvas_eq (view keqb zero t1) (view keqb zero t2).
  Definition tinv (t : @table K V) : Prop := twf keqb t /\ NoDup (keys t).

  Lemma lookup_in : forall k (ps : list (K * nat)), (exists i, lookup keqb k ps = Some i) <-> In k (map fst ps).
  Proof.
    intros k ps. induction ps as [|[k' i'] ps IH]; cbn [lookup map fst In].
    - split; [intros [i H]; discriminate | intros []].
    - destruct (keqb k k') eqn:E.
      + apply keqb_spec in E. subst k'. split; [left; reflexivity | eexists; reflexivity].
      + rewrite IH. split; [right; assumption | intros [H|H]; [|assumption]].
        subst k'. rewrite (proj2 (keqb_spec k k) eq_refl) in E. discriminate.
  Qed.

  Lemma lookup_none : forall k (ps : list (K * nat)), lookup keqb k ps = None <-> ~ In k (map fst ps).
  Proof.
    intros k ps. rewrite <- lookup_in. destruct (lookup keqb k ps) as [i|].
    - split; [discriminate | intros H; exfalso; apply H; eexists; reflexivity].
    - split; [intros _ [i H]; discriminate | reflexivity].
  Qed.

  Lemma fetch_keys : forall k t,
    (forall k', In k' (keys (fetch keqb zero k t)) <-> In k' (keys t) \/ k' = k)
    /\ (NoDup (keys t) -> NoDup (keys (fetch keqb zero k t))).
  Proof.
    intros k t. unfold fetch. destruct (lookup keqb k (positions t)) as [i|] eqn:E.
    - split; [|trivial]. intros k'. split; [left; assumption|]. intros [H| ->]; [assumption|].
      apply lookup_in. eexists. exact E.
    - unfold keys. cbn [positions map fst]. split.
      + intros k'. cbn [In]. split; intros [H|H]; auto.
      + intros H. constructor; [|exact H]. apply lookup_none. exact E.
  Qed.

  Lemma table_step_keys : forall t a,
    (forall k, In k (keys (table_step keqb add zero t a)) <-> In k (keys t) \/ k = tstep_key a)
    /\ (NoDup (keys t) -> NoDup (keys (table_step keqb add zero t a))).
  Proof.
    intros t [k0|k0 c v]; cbn [table_step tstep_key]; [apply fetch_keys|].
    destruct (lookup keqb k0 (positions (fetch keqb zero k0 t))); [|apply fetch_keys].
    unfold keys. cbn [positions]. apply fetch_keys.
  Qed.

  Lemma run_table_keys : forall e t,
    (forall k, In k (keys (run_table keqb add zero e t)) <-> In k (keys t) \/ In k (map tstep_key e))
    /\ (NoDup (keys t) -> NoDup (keys (run_table keqb add zero e t))).
  Proof.
    induction e as [|a e IH]; intros t.
    - cbn. split; [intros k; tauto | trivial].
    - cbn [run_table fold_left map In].
      change (fold_left (table_step keqb add zero) e ?s) with (run_table keqb add zero e s).
      destruct (IH (table_step keqb add zero t a)) as [IHk IHn]. destruct (table_step_keys t a) as [Sk Sn].
      split.
      + intros k. rewrite IHk, Sk. split; intros H; intuition congruence.
      + intros H. apply IHn, Sn, H.
  Qed.

  Lemma tinv_run : forall e t, tinv t -> tinv (run_table keqb add zero e t).
  Proof.
    intros e t [Hw Hn]. split.
    - apply (run_table_sim keqb add keqb_spec zero e t Hw).
    - apply run_table_keys. exact Hn.
  Qed.

  Lemma tinv_empty : tinv {| positions := []; chunks := [] |}.
  Proof. split; [apply twf_empty | constructor]. Qed.

  Lemma table_eq_refl : forall t, table_eq t t.
  Proof. intros t. split; [tauto | intros k c; reflexivity]. Qed.

  (* Two executions of the same jobs (distinct keys) from two equal canvases end in equal canvases. *)
  Lemma jobs_table_eq : forall (jobs : list (K * list (Z * V))) e1 e2 t1 t2,
    tinv t1 -> tinv t2 -> table_eq t1 t2 -> NoDup (map fst jobs) ->
    interleaving e1 (map job_tsteps jobs) -> interleaving e2 (map job_tsteps jobs) ->
    table_eq (run_table keqb add zero e1 t1) (run_table keqb add zero e2 t2).
  Proof.
    intros jobs e1 e2 t1 t2 [Hw1 _] [Hw2 _] [Hk Hv] Hnd H1 H2. split.
    - intros k. rewrite (proj1 (run_table_keys e1 t1) k), (proj1 (run_table_keys e2 t2) k), Hk.
      pose proof (interleaving_perm _ _ H1) as P1. pose proof (interleaving_perm _ _ H2) as P2.
      assert (P : Permutation (map tstep_key e1) (map tstep_key e2)).
      { apply Permutation_map. eapply Permutation_trans; [exact P1 | apply Permutation_sym; exact P2]. }
      split; (intros [H|H]; [left; exact H | right]).
      + eapply Permutation_in; [exact P | exact H].
      + eapply Permutation_in; [apply Permutation_sym; exact P | exact H].
    - intros k c.
      destruct (run_table_sim keqb add keqb_spec zero e1 t1 Hw1) as [_ S1].
      destruct (run_table_sim keqb add keqb_spec zero e2 t2 Hw2) as [_ S2].
      rewrite (S1 k c), (S2 k c).
      assert (E : forall e, interleaving e (map job_tsteps jobs) ->
                            interleaving (flat_map erase e) (map job_steps jobs)).
      { intros e He. pose proof (interleaving_flat_map erase _ _ He) as Hi. rewrite map_map in Hi.
        rewrite (map_ext _ _ (@job_tsteps_erase K V)) in Hi. exact Hi. }
      rewrite (addfield_any_schedule keqb add keqb_spec jobs _ (view keqb zero t1) Hnd (E _ H1) k c).
      rewrite (addfield_any_schedule keqb add keqb_spec jobs _ (view keqb zero t2) Hnd (E _ H2) k c).
      apply run_canvas_ext. exact Hv.
  Qed.
End TableFacts.

(* ================================================================ (1) AddFieldParallel refines AddField *)
Section Refinement.
  Context {A V : Type} (aeqb : A -> A -> bool) (add : V -> V -> V) (zero : V).
  Hypothesis aeqb_spec : forall a b, aeqb a b = true <-> a = b.
  Notation keqb := (fkeqb aeqb).
  Notation kspec := (fkeqb_spec aeqb aeqb_spec).

  (* the sequential AddField: for attribute, for chunk: fetch the chunk under the mutex, add the cells *)
  Definition addfield_seq_steps (val : A -> vec -> V) (mn mx : vec) (attrs : list A) : list (@tstep (A * vec) V) :=
    concat (map job_tsteps (field_jobs val mn mx attrs)).

  (* For every field (distinct attribute names, arbitrary functions, arbitrary box), every well-formed canvas and
     EVERY interleaving of the per-chunk jobs -- including the order in which the jobs reach chunkIndex_atomic and
     grow the chunk table -- AddFieldParallel leaves exactly the canvas of the sequential AddField: the same chunks
     exist and every cell of every chunk holds the same value (this is what the harness' chunk-table comparison
     tests); and that value is the old one plus the field's own value, once, for the cells of the box, the old one
     everywhere else. *)
  Theorem addfield_parallel_refines_sequential : forall val mn mx attrs e (t : @table (A * vec) V),
    tinv keqb t -> NoDup attrs -> interleaving e (map job_tsteps (field_jobs val mn mx attrs)) ->
    let tp := run_table keqb add zero e t in
    let ts := run_table keqb add zero (addfield_seq_steps val mn mx attrs) t in
    tinv keqb tp /\ tinv keqb ts /\ table_eq keqb zero tp ts
    /\ (forall k, In k (keys tp) <-> In k (keys t) \/ In k (map fst (field_jobs val mn mx attrs)))
    /\ forall a p,
         let k := (a, chunk_pos p) in
         let cell := cell_index (chunk_pos p) p in
         (In a attrs -> in_box p mn mx -> view keqb zero tp k cell = add (view keqb zero t k cell) (val a p))
         /\ (~ (In a attrs /\ in_box p mn mx) -> view keqb zero tp k cell = view keqb zero t k cell).
  Proof.
    intros val mn mx attrs e t Hinv Hnd He tp ts.
    pose proof (field_jobs_keys_nodup val mn mx attrs Hnd) as Hkeys.
    pose proof (sched_seq_interleaving (map job_tsteps (field_jobs val mn mx attrs))) as Hs.
    split; [apply (tinv_run keqb add zero kspec); assumption|]. split; [apply (tinv_run keqb add zero kspec); assumption|].
    split; [apply (jobs_table_eq keqb add zero kspec _ e _ t t Hinv Hinv (table_eq_refl keqb add zero t) Hkeys He Hs)|].
    split.
    - intros k. unfold tp. rewrite (proj1 (run_table_keys keqb add zero kspec e t) k).
      assert (P : Permutation (map tstep_key e) (map tstep_key (addfield_seq_steps val mn mx attrs)))
        by (apply Permutation_map, interleaving_perm, He).
      assert (Ek : forall k, In k (map tstep_key (addfield_seq_steps val mn mx attrs))
                             <-> In k (map fst (field_jobs val mn mx attrs))).
      { intros k0. unfold addfield_seq_steps. generalize (field_jobs val mn mx attrs) as jobs.
        induction jobs as [|[kj cvs] jobs IH]; [cbn; tauto|].
        cbn [map concat fst]. rewrite map_app, in_app_iff, IH. cbn [In].
        unfold job_tsteps. cbn [fst snd map tstep_key In]. rewrite map_map. cbn [tstep_key].
        split.
        - intros [[H|H]|H]; auto. apply in_map_iff in H. destruct H as (? & H & _). auto.
        - intros [H|H]; auto. }
      rewrite <- Ek. split; (intros [H|H]; [left; exact H | right]).
      + eapply Permutation_in; [exact P | exact H].
      + eapply Permutation_in; [apply Permutation_sym; exact P | exact H].
    - intros a p k cell. destruct Hinv as [Hw _].
      destruct (run_table_sim keqb add kspec zero e t Hw) as [_ S]. unfold tp. rewrite (S k cell).
      assert (Hi : interleaving (flat_map erase e) (map job_steps (field_jobs val mn mx attrs))).
      { pose proof (interleaving_flat_map erase _ _ He) as Hi. rewrite map_map in Hi.
        rewrite (map_ext _ _ (@job_tsteps_erase (A * vec) V)) in Hi. exact Hi. }
      exact (addfield_parallel_exact aeqb add aeqb_spec val mn mx attrs _ (view keqb zero t) Hnd Hi a p).
  Qed.
End Refinement.

(* ================================================================ (2) sequences of operations on one canvas *)
Lemma Permutation_filter_ : forall {T} (p : T -> bool) (l l' : list T),
  Permutation l l' -> Permutation (filter p l) (filter p l').
Proof.
  intros T p l l' H. induction H as [|x l l' _ IH|x y l|l l' l'' _ IH1 _ IH2]; cbn [filter].
  - constructor.
  - destruct (p x); [constructor|]; exact IH.
  - destruct (p x), (p y); try apply Permutation_refl. apply perm_swap.
  - eapply Permutation_trans; eassumption.
Qed.

Section Sequences.
  Context {A V P C : Type} (aeqb : A -> A -> bool) (add : V -> V -> V) (zero : V) (dP : P).
  Hypothesis aeqb_spec : forall a b, aeqb a b = true <-> a = b.
  Notation K := (A * vec)%type.
  Notation keqb := (fkeqb aeqb).
  Notation kspec := (fkeqb_spec aeqb aeqb_spec).

  (* The per-block marcher (marchFloat1BlockPosition) is a black box: a function of what the canvas holds, the
     cutoff and the block, returning a well-formed block mesh.  `sel` selects the blocks of the marched attribute. *)
  Variable sel : K -> bool.
  Variable march_block : @canvas K V -> C -> K -> @bmesh P.
  Hypothesis march_block_ext : forall v1 v2 c k, canvas_eq v1 v2 -> march_block v1 c k = march_block v2 c k.
  Hypothesis march_block_wf : forall v c k, bwf (march_block v c k).

  Record field := { f_attrs : list A; f_val : A -> vec -> V; f_min : vec; f_max : vec }.
  Definition fjobs (f : field) := field_jobs (f_val f) (f_min f) (f_max f) (f_attrs f).
  Definition fwf (f : field) : Prop := NoDup (f_attrs f).       (* Float1Functions is a map: names are distinct *)

  (* par = true: AddFieldParallel / MarchParallel; par = false: AddField / March *)
  Inductive op := OAdd (par : bool) (f : field) | OMarch (par : bool) (c : C).
  Definition same_shape (o1 o2 : op) : Prop :=
    match o1, o2 with
    | OAdd _ f, OAdd _ g => f = g
    | OMarch _ c, OMarch _ c' => c = c'
    | _, _ => False
    end.
  Definition obs := option (list (P * P * P)).                   (* triangles returned by a march *)
  Definition obs_eq (a b : obs) : Prop :=
    match a, b with
    | Some x, Some y => Permutation x y
    | None, None => True
    | _, _ => False
    end.

  (* One operation.  An add runs ANY interleaving of the field's per-chunk jobs (the sequential variant is the
     job-after-job one); a march appends the block meshes in ANY order of the selected blocks (map iteration order
     for March, channel arrival order for MarchParallel) and leaves the canvas untouched. *)
  Inductive step : @table K V -> op -> @table K V -> obs -> Prop :=
  | st_add : forall t par f e,
      interleaving e (map job_tsteps (fjobs f)) ->
      (par = false -> e = concat (map job_tsteps (fjobs f))) ->
      step t (OAdd par f) (run_table keqb add zero e t) None
  | st_march : forall t par c order,
      Permutation order (filter sel (keys t)) ->
      step t (OMarch par c) t
           (Some (resolve dP (march_fold (map (march_block (view keqb zero t) c) order)))).

  Inductive run : @table K V -> list op -> list (@table K V * obs) -> Prop :=
  | run_nil : forall t, run t [] []
  | run_cons : forall t o t' ob os tr, step t o t' ob -> run t' os tr -> run t (o :: os) ((t', ob) :: tr).

  Definition ops_wf (os : list op) : Prop :=
    Forall (fun o => match o with OAdd _ f => fwf f | OMarch _ _ => True end) os.

  (* marching does not modify the canvas *)
  Theorem march_leaves_canvas : forall t par c t' ob, step t (OMarch par c) t' ob -> t' = t.
  Proof. intros t par c t' ob H. inversion H; reflexivity. Qed.

  Lemma step_sim : forall t1 t2 o1 o2 t1' t2' ob1 ob2,
    tinv keqb t1 -> tinv keqb t2 -> table_eq keqb zero t1 t2 -> same_shape o1 o2 ->
    match o1 with OAdd _ f => fwf f | OMarch _ _ => True end ->
    step t1 o1 t1' ob1 -> step t2 o2 t2' ob2 ->
    tinv keqb t1' /\ tinv keqb t2' /\ table_eq keqb zero t1' t2' /\ obs_eq ob1 ob2.
  Proof.
    intros t1 t2 o1 o2 t1' t2' ob1 ob2 I1 I2 Heq Hs Hwf S1 S2.
    destruct S1 as [t1 par1 f e1 He1 _ | t1 par1 c order1 Ho1];
      destruct S2 as [t2 par2 g e2 He2 _ | t2 par2 c2 order2 Ho2]; cbn [same_shape] in Hs; try contradiction.
    - subst g. split; [apply (tinv_run keqb add zero kspec); assumption|]. split; [apply (tinv_run keqb add zero kspec); assumption|].
      split; [|exact I].
      apply (jobs_table_eq keqb add zero kspec (fjobs f)); try assumption.
      apply field_jobs_keys_nodup. exact Hwf.
    - subst c2. split; [assumption|]. split; [assumption|]. split; [assumption|].
      cbn [obs_eq]. destruct Heq as [Hk Hv]. destruct I1 as [_ N1]. destruct I2 as [_ N2].
      assert (Pk : Permutation (filter sel (keys t1)) (filter sel (keys t2))).
      { apply Permutation_filter_. apply NoDup_Permutation; assumption. }
      rewrite (map_ext _ (march_block (view keqb zero t2) c)) by (intros k; apply march_block_ext; exact Hv).
      apply march_parallel_multiset.
      + apply Forall_forall. intros m Hm. apply in_map_iff in Hm. destruct Hm as (k & <- & _). apply march_block_wf.
      + apply Permutation_map.
        eapply Permutation_trans; [exact Ho1|]. eapply Permutation_trans; [exact Pk|]. apply Permutation_sym. exact Ho2.
  Qed.

  (* For every list of add / march operations: run it twice from equal canvases, choosing for every add whether it
     is AddField or AddFieldParallel (and, if parallel, any schedule of its jobs) and for every march whether it is
     March or MarchParallel (any block order) -- independently in the two runs.  Then after EVERY step the two
     canvases are equal (same chunks, same cell values), and at every march the two meshes have the same triangle
     multiset.  In particular the all-parallel run equals the all-sequential one. *)
  Theorem sequence_parallel_eq_sequential : forall os1 os2 t1 t2 tr1 tr2,
    tinv keqb t1 -> tinv keqb t2 -> table_eq keqb zero t1 t2 ->
    Forall2 same_shape os1 os2 -> ops_wf os1 ->
    run t1 os1 tr1 -> run t2 os2 tr2 ->
    Forall2 (fun x y => table_eq keqb zero (fst x) (fst y) /\ obs_eq (snd x) (snd y)) tr1 tr2.
  Proof.
    intros os1 os2 t1 t2 tr1 tr2 I1 I2 Heq Hs Hwf R1. revert os2 t2 tr2 I2 Heq Hs.
    induction R1 as [t1 | t1 o1 t1' ob1 os1 tr1 S1 R1 IH]; intros os2 t2 tr2 I2 Heq Hs R2.
    - inversion Hs; subst. inversion R2; subst. constructor.
    - inversion Hs as [|? o2 ? os2' Hso Hss]; subst. inversion R2 as [|? ? t2' ob2 ? tr2' S2 R2']; subst.
      inversion Hwf as [|? ? Hw1 Hwf']; subst.
      destruct (step_sim _ _ _ _ _ _ _ _ I1 I2 Heq Hso Hw1 S1 S2) as (I1' & I2' & Heq' & Hob).
      constructor; [split; assumption|]. apply (IH I1' Hwf' os2' t2' tr2' I2' Heq' Hss R2').
  Qed.

  (* every operation list can be run, sequentially and in parallel (the theorem above is not vacuous) *)
  Theorem run_exists : forall os (par : bool) t, exists tr,
    run t (map (fun o => match o with OAdd _ f => OAdd par f | OMarch _ c => OMarch par c end) os) tr.
  Proof.
    induction os as [|o os IH]; intros par t; [exists []; constructor|].
    destruct o as [p f|p c]; cbn [map].
    - destruct (IH par (run_table keqb add zero (concat (map job_tsteps (fjobs f))) t)) as [tr Htr].
      eexists. econstructor; [|exact Htr]. apply st_add; [apply sched_seq_interleaving | reflexivity].
    - destruct (IH par t) as [tr Htr]. eexists. econstructor; [|exact Htr].
      apply st_march. apply Permutation_refl.
  Qed.
End Sequences.

(* ================================================================ what a block march reads *)
(* marchFloat1BlockPosition visits the cubes whose lowest corner p lies in the block and reads the samples at the
   eight corners p + cubeDataIndexIncrements[i]; the cube's case (lookupIndex) is the list of `sample < cutoff`. *)
Open Scope Z_scope.
Definition corner_offsets : list vec :=
  [(0,0,0); (1,0,0); (1,0,1); (0,0,1); (0,1,0); (1,1,0); (1,1,1); (0,1,1)].
Definition vadd (p q : vec) : vec :=
  let '(x, y, z) := p in let '(a, b, c) := q in (x + a, y + b, z + c).
Definition cube_corners (p : vec) : list vec := map (vadd p) corner_offsets.
Definition cube_case (s : vec -> Z) (cutoff : Z) (p : vec) : list bool :=
  map (fun q => s q <? cutoff) (cube_corners p).
(* block c is b or one of its seven +x/+y/+z neighbours *)
Definition upper_neighbourhood (b c : vec) : Prop :=
  let '(bx, by_, bz) := b in let '(cx, cy, cz) := c in
  (cx = bx \/ cx = bx + 1) /\ (cy = by_ \/ cy = by_ + 1) /\ (cz = bz \/ cz = bz + 1).

Ltac Zify.zify_post_hook ::= Z.div_mod_to_equations.

(* a cube of block b reads only samples stored in b and its +x/+y/+z neighbours ... *)
Theorem march_footprint : forall p q, In q (cube_corners p) -> upper_neighbourhood (chunk_pos p) (chunk_pos q).
Proof.
  intros [[x y] z] q H. unfold cube_corners, corner_offsets in H. cbn [map vadd In] in H.
  unfold upper_neighbourhood, chunk_pos, chunk_of, section_size.
  repeat (destruct H as [<-|H]; [cbn [chunk_pos]; unfold chunk_of, section_size; lia|]). contradiction.
Qed.

(* ... and it does read each of the three face neighbours: the last layer of cubes (local index 99) takes its
   +x / +y / +z corners from the first samples of the neighbouring block. *)
Theorem march_reads_neighbours : forall bx by_ bz,
  let b := (bx, by_, bz) in
  (exists p q, chunk_pos p = b /\ In q (cube_corners p) /\ chunk_pos q = (bx + 1, by_, bz)) /\
  (exists p q, chunk_pos p = b /\ In q (cube_corners p) /\ chunk_pos q = (bx, by_ + 1, bz)) /\
  (exists p q, chunk_pos p = b /\ In q (cube_corners p) /\ chunk_pos q = (bx, by_, bz + 1)).
Proof.
  intros bx by_ bz b. unfold b.
  assert (C : forall x y z u v w, x / 100 = u -> y / 100 = v -> z / 100 = w -> chunk_pos (x, y, z) = (u, v, w)).
  { intros x y z u v w <- <- <-. reflexivity. }
  split; [|split].
  - exists (100 * bx + 99, 100 * by_, 100 * bz), (100 * bx + 99 + 1, 100 * by_ + 0, 100 * bz + 0).
    split; [apply C; lia|]. split; [|apply C; lia].
    unfold cube_corners, corner_offsets. cbn [map vadd In]. right. left. reflexivity.
  - exists (100 * bx, 100 * by_ + 99, 100 * bz), (100 * bx + 0, 100 * by_ + 99 + 1, 100 * bz + 0).
    split; [apply C; lia|]. split; [|apply C; lia].
    unfold cube_corners, corner_offsets. cbn [map vadd In]. do 4 right. left. reflexivity.
  - exists (100 * bx, 100 * by_, 100 * bz + 99), (100 * bx + 0, 100 * by_ + 0, 100 * bz + 99 + 1).
    split; [apply C; lia|]. split; [|apply C; lia].
    unfold cube_corners, corner_offsets. cbn [map vadd In]. do 3 right. left. reflexivity.
Qed.

(* A cached block result may be reused when neither the block NOR any of its +x/+y/+z neighbours was written:
   then every cube of the block sees the same samples. *)
Theorem cache_sound_with_neighbours : forall (s s' : vec -> Z) cutoff b,
  (forall q, upper_neighbourhood b (chunk_pos q) -> s q = s' q) ->
  forall p, chunk_pos p = b -> cube_case s cutoff p = cube_case s' cutoff p.
Proof.
  intros s s' cutoff b H p Hp. unfold cube_case. apply map_ext_in. intros q Hq.
  rewrite (H q); [reflexivity|]. rewrite <- Hp. apply march_footprint. exact Hq.
Qed.

(* The rule "re-march a block only when the block itself was written" (seeded change C10-H) is unsound: a write
   stored entirely in the +x neighbour changes a cube of the block. *)
Theorem per_block_cache_refuted : exists (s s' : vec -> Z) cutoff b p,
  (forall q, chunk_pos q = b -> s q = s' q) /\ chunk_pos p = b /\ cube_case s cutoff p <> cube_case s' cutoff p.
Proof.
  exists (fun _ => 1), (fun q => if vec_eqb q (100, 0, 0) then -1 else 1), 0, (0, 0, 0), (99, 0, 0).
  split; [|split; [reflexivity | vm_compute; discriminate]].
  intros [[x y] z] Hq. destruct (vec_eqb (x, y, z) (100, 0, 0)) eqn:E; [|reflexivity].
  apply vec_eqb_spec in E. inversion E; subst. vm_compute in Hq. discriminate.
Qed.
Close Scope Z_scope.
