(* C10 model, part 2: workers as lists of atomic steps, executions as interleavings of the workers'
   step lists, and the effect of an execution.  Definitions only (proofs: Par/ParProofs.v).

   mesh.go:   worker over [a,b) of a scan   = [Call a x_a; ...; Call (b-1) x_(b-1)]
              worker over [a,b) of a modify = [Write a (f a x_a); ...]      (modified[i] = f(i, old[i]))
   canvas.go: AddFieldParallel   = one job per (attribute, chunk); a job is the list of its
                                   `data[cell] += function(pos)` steps on its own chunk array;
                                   the chunk table (positions map + slice of chunk arrays) is
                                   only touched under chunkMutex (steps Fetch)
              marchFloat1Parallel = one job per block; the main goroutine appends the block meshes
                                   in the order in which they arrive on the result channel.
   A real pool worker runs several jobs one after the other; that is one of the interleavings of
   the jobs, so quantifying over all interleavings of the *jobs* covers every job-to-worker
   assignment as well. *)
From Coq Require Import List Arith ZArith Bool Permutation.
From PF Require Import Par.Partition.
Import ListNotations.

(* ---------------------------------------------------------------- executions *)
Section Interleaving.
  Context {A : Type}.

  (* e is a merge of the lists ws: every step of e is the next pending step of some worker *)
  Inductive interleaving : list A -> list (list A) -> Prop :=
  | il_done : forall ws, Forall (fun w => w = []) ws -> interleaving [] ws
  | il_step : forall x e pre w post,
      interleaving e (pre ++ w :: post) -> interleaving (x :: e) (pre ++ (x :: w) :: post).

  (* two canonical schedules: worker after worker, and last worker first *)
  Definition sched_seq (ws : list (list A)) : list A := concat ws.
  Definition sched_rev (ws : list (list A)) : list A := concat (rev ws).

  (* round robin: one step of every non-empty worker per round *)
  Definition heads (ws : list (list A)) : list A :=
    flat_map (fun w => match w with [] => [] | x :: _ => [x] end) ws.
  Definition tails (ws : list (list A)) : list (list A) := map (@tl A) ws.
  Fixpoint sched_rr (fuel : nat) (ws : list (list A)) : list A :=
    match fuel with
    | O => []
    | S k => heads ws ++ sched_rr k (tails ws)
    end.
  Definition longest (ws : list (list A)) : nat := fold_right (fun w m => Nat.max (length w) m) 0 ws.
  Definition sched_round_robin (ws : list (list A)) : list A := sched_rr (longest ws) ws.
End Interleaving.

(* ---------------------------------------------------------------- scans *)
Section Scan.
  Context {V : Type} (d : V).

  (* the event f(i, v) *)
  Definition scan_worker (xs : list V) (r : nat * nat) : list (nat * V) :=
    map (fun i => (i, nth i xs d)) (span r).
  Definition scan_workers (xs : list V) (s : nat) : list (list (nat * V)) :=
    map (scan_worker xs) (ranges (length xs) s).
  (* sequential entry point:  for i, v := range data { f(i, v) } *)
  Definition scan_seq (xs : list V) : list (nat * V) := combine (seq 0 (length xs)) xs.
End Scan.

(* ---------------------------------------------------------------- modifications *)
Section Modify.
  Context {V : Type} (d : V) (f : nat -> V -> V).

  Inductive wstep := Write (i : nat) (v : V).

  Definition modify_worker (xs : list V) (r : nat * nat) : list wstep :=
    map (fun i => Write i (f i (nth i xs d))) (span r).
  Definition modify_workers (xs : list V) (s : nat) : list (list wstep) :=
    map (modify_worker xs) (ranges (length xs) s).

  (* modified[i] = v; out of range = the Go code would panic, the model leaves the array alone *)
  Fixpoint upd (l : list V) (i : nat) (v : V) : list V :=
    match l, i with
    | [], _ => []
    | _ :: t, O => v :: t
    | h :: t, S k => h :: upd t k v
    end.
  Definition do_step (out : list V) (st : wstep) : list V := match st with Write i v => upd out i v end.
  Definition run_exec (e : list wstep) (out : list V) : list V := fold_left do_step e out.

  (* sequential entry point: modified[i] = f(i, v) for i, v := range old *)
  Definition modify_seq (xs : list V) : list V := map (fun p => f (fst p) (snd p)) (scan_seq xs).
  (* parallel entry point under execution e: modified := make([]T, n) (zero values z), run, return *)
  Definition modify_par (z : V) (xs : list V) (e : list wstep) : list V := run_exec e (repeat z (length xs)).
End Modify.
Arguments Write {V} i v.

(* memory locations of the attribute entry points and the accesses of a step *)
Inductive loc := InCell (i : nat) | OutCell (i : nat).
Definition access := (loc * bool)%type.                        (* (location, is a write) *)
Definition scan_accesses {V} (ev : nat * V) : list access := [(InCell (fst ev), false)].
Definition write_accesses {V} (st : @wstep V) : list access :=
  match st with Write i _ => [(InCell i, false); (OutCell i, true)] end.
Definition conflict (a b : access) : Prop := fst a = fst b /\ (snd a = true \/ snd b = true).

(* ---------------------------------------------------------------- AddField / AddFieldParallel *)
Section Canvas.
  (* K: (attribute, chunk position); V: cell values with the float addition `add` -- nothing is
     assumed about add (not associative, not commutative) *)
  Context {K V : Type} (keqb : K -> K -> bool) (add : V -> V -> V).

  (* data_k[cell] += v *)
  Inductive astep := Acc (k : K) (cell : Z) (v : V).
  Definition canvas := K -> Z -> V.
  Definition acc_step (st : canvas) (a : astep) : canvas :=
    match a with
    | Acc k c v => fun k' c' => if keqb k k' && (c =? c')%Z then add (st k' c') v else st k' c'
    end.
  Definition run_canvas (e : list astep) (st : canvas) : canvas := fold_left acc_step e st.

  (* a job: its chunk key and the (cell, value) pairs in loop order *)
  Definition job_steps (j : K * list (Z * V)) : list astep :=
    map (fun cv => Acc (fst j) (fst cv) (snd cv)) (snd j).
  Definition step_key (a : astep) : K := match a with Acc k _ _ => k end.

  (* -- the chunk table as the code keeps it: positions map (assoc list) + slice of chunk arrays.
     chunkIndex_atomic / float1Chunk_atomic run under chunkMutex, so a lookup-or-allocate is one
     atomic step; the worker then adds into the chunk array it fetched. *)
  Record table := { positions : list (K * nat); chunks : list (Z -> V) }.
  Fixpoint lookup (k : K) (ps : list (K * nat)) : option nat :=
    match ps with
    | [] => None
    | (k', i) :: t => if keqb k k' then Some i else lookup k t
    end.
  Inductive tstep := Fetch (k : K) | AccT (k : K) (cell : Z) (v : V).
  (* chunkIndex_atomic: allocate a zeroed chunk at index len(data) when the key is new *)
  Definition fetch (zero : V) (k : K) (t : table) : table :=
    match lookup k (positions t) with
    | Some _ => t
    | None => {| positions := (k, length (chunks t)) :: positions t;
                 chunks := chunks t ++ [fun _ => zero] |}
    end.
  Fixpoint upd_chunk (cs : list (Z -> V)) (i : nat) (c : Z) (v : V) : list (Z -> V) :=
    match cs, i with
    | [], _ => []
    | h :: t, O => (fun c' => if (c =? c')%Z then add (h c') v else h c') :: t
    | h :: t, S j => h :: upd_chunk t j c v
    end.
  Definition table_step (zero : V) (t : table) (a : tstep) : table :=
    match a with
    | Fetch k => fetch zero k t
    | AccT k c v =>
        let t' := fetch zero k t in     (* the worker fetched its chunk before (a no-op then) *)
        match lookup k (positions t') with
        | Some i => {| positions := positions t'; chunks := upd_chunk (chunks t') i c v |}
        | None => t'
        end
    end.
  Definition run_table (zero : V) (e : list tstep) (t : table) : table := fold_left (table_step zero) e t.
  (* what a reader of the canvas sees: the content of the chunk stored for key k (zero if absent) *)
  Definition view (zero : V) (t : table) : canvas :=
    fun k c => match lookup k (positions t) with
               | Some i => nth i (chunks t) (fun _ => zero) c
               | None => zero
               end.
  Definition job_tsteps (j : K * list (Z * V)) : list tstep :=
    Fetch (fst j) :: map (fun cv => AccT (fst j) (fst cv) (snd cv)) (snd j).
  Definition erase (a : tstep) : list astep := match a with Fetch _ => [] | AccT k c v => [Acc k c v] end.
End Canvas.
Arguments Acc {K V} k cell v.
Arguments Fetch {K V} k.
Arguments AccT {K V} k cell v.

(* ---------------------------------------------------------------- March / MarchParallel *)
Section March.
  Context {P : Type} (d : P).

  (* a block mesh: vertex positions + index triples (NewTriangleMesh(tris).SetFloat3Data(verts)) *)
  Record bmesh := { verts : list P; tris : list (nat * nat * nat) }.
  Definition bempty : bmesh := {| verts := []; tris := [] |}.
  Definition shift3 (k : nat) (t : nat * nat * nat) : nat * nat * nat :=
    let '(a, b, c) := t in (a + k, b + k, c + k).
  (* Mesh.Append: attribute data concatenated, the other mesh's indices shifted by AttributeLength *)
  Definition bappend (m o : bmesh) : bmesh :=
    {| verts := verts m ++ verts o; tris := tris m ++ map (shift3 (length (verts m))) (tris o) |}.
  Definition bwf (m : bmesh) : Prop :=
    Forall (fun t => let '(a, b, c) := t in a < length (verts m) /\ b < length (verts m) /\ c < length (verts m))
           (tris m).
  (* the triangles as position triples *)
  Definition resolve (m : bmesh) : list (P * P * P) :=
    map (fun t => let '(a, b, c) := t in (nth a (verts m) d, nth b (verts m) d, nth c (verts m) d)) (tris m).
  (* finalMesh = finalMesh.Append(block) for the blocks in the given order *)
  Definition march_fold (blocks : list bmesh) : bmesh := fold_left bappend blocks bempty.
End March.
Arguments verts {P} b.
Arguments tris {P} b.
