(* C10, translator binding: the partition theorem proved about the terms tools/par2coq extracted from
   modeling/mesh.go (coq/gen/ParSites.v, regenerated from $VERIF_REPO on every run).

   Part 1 (generic): whatever loop satisfies par_loop_ok -- its bounds are, for every element count, pool size >= 2
   and worker, provably equal to ws*w and ws*w+ws / the total for the last worker -- visits 0 .. a-1 exactly, worker
   after worker; a loop satisfying seq_loop_ok visits the same list.
   Part 2 (about the generated file): every generated site satisfies these obligations.  The tactics only
   normalise (case split on the conditionals and comparisons the source contains, linear arithmetic with a/s as an
   atom), so a restructured but equivalent source still passes, and a source that computes another range (one call
   site passing (start, start+size) to a helper that takes a count) does not. *)
From Coq Require Import List Arith ZArith Bool Lia String.
From Coq Require Import ZifyNat ZifyBool.
From PF Require Import Par.Partition Par.ParProofs Par.Sites.
From PFGen Require Import ParSites.
Import ListNotations.
Open Scope Z_scope.

(* ---------------------------------------------------------------- part 1 *)
Lemma flat_map_map_in : forall (A B C : Type) (g : A -> B) (f f' : B -> list C) (l : list A),
  (forall x, In x l -> f (g x) = f' (g x)) -> flat_map f (map g l) = flat_map f' (map g l).
Proof.
  induction l as [|x l IH]; intros H; [reflexivity|]. cbn. rewrite (H x (or_introl eq_refl)).
  rewrite IH; [reflexivity|]. intros y Hy. apply H. right. exact Hy.
Qed.

Lemma flat_map_map : forall (A B C : Type) (g : A -> B) (f : B -> list C) (l : list A),
  flat_map f (map g l) = flat_map (fun x => f (g x)) l.
Proof. induction l as [|x l IH]; [reflexivity|]. cbn. rewrite IH. reflexivity. Qed.

Lemma zspan_empty : forall a b, b <= a -> zspan a b = [].
Proof. intros a b H. unfold zspan. replace (Z.to_nat (b - a)) with 0%nat by lia. reflexivity. Qed.

Lemma visitedZ_total : forall t s, 0 <= t -> (1 <= s)%nat -> visitedZ t s = zrange 0 (Z.to_nat t).
Proof.
  intros t s Ht Hs. rewrite <- (Z2Nat.id t Ht) at 1. rewrite visitedZ_nat by exact Hs.
  rewrite visited_eq_seq by exact Hs. unfold zrange. apply map_ext. intros k. lia.
Qed.

Theorem par_loop_visits : forall atom m l, par_loop_ok atom m l ->
  forall a s, atom_dom atom a -> 2 <= s -> par_visited l a s = zrange 0 (Z.to_nat a).
Proof.
  intros atom m l (_ & Hr & _) a s Ha Hs.
  assert (Ht : 0 <= total a) by (unfold total; lia).
  replace (Z.to_nat a) with (Z.to_nat (total a)) by (unfold total; lia).
  rewrite <- (visitedZ_total (total a) (Z.to_nat s) Ht) by lia.
  unfold par_visited, visitedZ, zrange.
  rewrite flat_map_map.
  assert (E : forall (f g : nat -> list Z) n, (forall i, (i < n)%nat -> f i = g i) -> flat_map f (seq 0 n) = flat_map g (seq 0 n)).
  { intros f g n H. assert (G : forall k, (forall i, (k <= i < k + n)%nat -> f i = g i) -> flat_map f (seq k n) = flat_map g (seq k n)).
    { clear H. induction n as [|n IH]; intros k H; [reflexivity|]. cbn. rewrite (H k) by lia. rewrite (IH (S k)); [reflexivity|].
      intros i Hi. apply H. lia. }
    apply G. intros i Hi. apply H. lia. }
  apply E. intros i Hi.
  destruct (Hr a s (0 + Z.of_nat i) Ha Hs ltac:(lia)) as [Ht1 Hf1].
  replace (Z.of_nat (Z.to_nat s)) with s by lia.
  assert (Hhi : canon_hi a s (0 + Z.of_nat i)
                = total a / s * Z.of_nat i + (if (i =? Z.to_nat s - 1)%nat then total a - total a / s * Z.of_nat i else total a / s)).
  { unfold canon_hi. destruct (0 + Z.of_nat i =? s - 1) eqn:E1; destruct (i =? Z.to_nat s - 1)%nat eqn:E2; lia. }
  assert (Hlo : canon_lo a s (0 + Z.of_nat i) = total a / s * Z.of_nat i) by (unfold canon_lo; f_equal; lia).
  destruct (wl_guard l a s (0 + Z.of_nat i)) eqn:G.
  - destruct (Ht1 eq_refl) as [-> ->]. rewrite Hhi, Hlo. reflexivity.
  - specialize (Hf1 eq_refl). rewrite Hhi, Hlo in Hf1. symmetry. apply zspan_empty. exact Hf1.
Qed.

Theorem seq_loop_visits : forall atom m l, seq_loop_ok atom m l ->
  forall a, atom_dom atom a -> seq_visited l a = zrange 0 (Z.to_nat a).
Proof.
  intros atom m l (_ & Hr & _) a Ha. unfold seq_visited. destruct (Hr a 0 0 Ha) as (-> & -> & ->).
  unfold zspan, zrange. replace (a - 0) with a by lia. reflexivity.
Qed.

(* every worker stays inside the array: its indices are within [0, a) *)
Theorem par_loop_in_bounds : forall atom m l, par_loop_ok atom m l ->
  forall a s x, atom_dom atom a -> 2 <= s -> In x (par_visited l a s) -> 0 <= x < a.
Proof.
  intros atom m l H a s x Ha Hs Hin. rewrite (par_loop_visits atom m l H a s Ha Hs) in Hin.
  unfold zrange in Hin. apply in_map_iff in Hin. destruct Hin as (k & <- & Hk). apply in_seq in Hk. lia.
Qed.

(* ---------------------------------------------------------------- part 2: the generated sites *)
Ltac split_max :=
  repeat match goal with
         | |- context [Z.max 0 ?a] =>
             first [ rewrite (Z.max_r 0 a) by lia | rewrite (Z.max_l 0 a) by lia
                   | let H := fresh in destruct (Z.ltb_spec a 0) as [H|H];
                     [rewrite (Z.max_l 0 a) by lia | rewrite (Z.max_r 0 a) by lia] ]
         end.
Ltac split_ifs :=
  repeat match goal with
         | |- context [if ?c then _ else _] => let E := fresh "E" in destruct c eqn:E
         end.
Ltac arith :=
  intros; unfold canon_lo, canon_hi, total, atom_dom, len_atom in *; cbn in *;
  split_max; split_ifs; rewrite ?Z.div_0_l by lia; try lia; try (split; lia).

Ltac forall_list := repeat first [apply Forall_nil | apply Forall_cons].

Ltac body :=
  unfold body_ok; cbn;
  repeat match goal with |- _ /\ _ => split end;
  try discriminate; try (intros; discriminate); try (intros _; discriminate);
  forall_list; try reflexivity; try (intros; reflexivity).

Ltac par_loop :=
  split; [reflexivity|]; split;
  [ intros a s w Ha Hs Hw; split; [intros Hg; split; arith | intros Hg; arith] | body ].

Ltac seq_loop :=
  split; [reflexivity|]; split; [ intros a s w Ha; repeat split; arith | body ].

Ltac par_site :=
  split; [ intros a s Ha; repeat split; arith |];
  split; [reflexivity|]; split; [reflexivity|]; split; [discriminate|];
  forall_list; par_loop.

Ltac seq_site := split; [discriminate|]; forall_list; seq_loop.

Theorem par_sites_ok : Forall psite_ok par_sites.
Proof. unfold par_sites. forall_list; par_site. Qed.

Theorem seq_sites_ok : Forall ssite_ok seq_sites.
Proof. unfold seq_sites. forall_list; seq_site. Qed.

Theorem pairs_ok : Forall2 pair_ok par_sites seq_sites.
Proof. unfold par_sites, seq_sites. repeat first [apply Forall2_nil | apply Forall2_cons]; repeat split; reflexivity. Qed.

Theorem wrappers_ok : Forall wrapper_ok wrappers.
Proof. unfold wrappers. forall_list; split; reflexivity. Qed.

(* the seven entry points of mesh.go are all there, under their names *)
Theorem sites_named :
  map ps_name par_sites =
  ["ModifyFloat1AttributeParallelWithPoolSize"; "ModifyFloat2AttributeParallelWithPoolSize";
   "ModifyFloat3AttributeParallelWithPoolSize"; "ScanFloat1AttributeParallelWithPoolSize";
   "ScanFloat2AttributeParallelWithPoolSize"; "ScanFloat3AttributeParallelWithPoolSize";
   "ScanPrimitivesParallelWithPoolSize"]%string
  /\ map wr_name wrappers =
  ["ModifyFloat1AttributeParallel"; "ModifyFloat2AttributeParallel"; "ModifyFloat3AttributeParallel";
   "ScanFloat1AttributeParallel"; "ScanFloat2AttributeParallel"; "ScanFloat3AttributeParallel";
   "ScanPrimitivesParallel"]%string.
Proof. split; reflexivity. Qed.

(* ---------------------------------------------------------------- the statement about the source *)
(* For every <X>ParallelWithPoolSize method P of Mesh that the translator found, its sequential counterpart S, every
   element count a the source can produce and every pool size s:
   s < 1: P panics; s = 1: P returns S(...); s >= 2: one goroutine per w in [0, s), and in every branch (topology) the
   indices visited by the workers, worker after worker, are exactly those of the sequential loop of the same branch,
   0 .. a-1 in order (nothing for a <= 0); every index handed to the callback is the loop index, every element read
   or written is the one at the loop index, and nothing that is read is written. *)
Theorem generated_sites_partition_exact :
  Forall2 (fun P S =>
    ps_delegate_to P = ss_name S /\ ps_name P = (ss_name S ++ "ParallelWithPoolSize")%string /\
    forall a s, atom_dom (ps_atom P) a ->
      (ps_panics P a s = true <-> s < 1) /\ (ps_delegates P a s = true <-> s = 1) /\
      (2 <= s ->
         ps_guard P a s = true /\ ps_disp_lo P a s = 0 /\ ps_disp_hi P a s = s /\
         Forall2 (fun lp ls =>
                    wl_label lp = wl_label ls /\ wl_in_worker lp = true /\
                    par_visited lp a s = seq_visited ls a /\ seq_visited ls a = zrange 0 (Z.to_nat a) /\
                    (forall x, In x (par_visited lp a s) -> 0 <= x < a) /\
                    Forall (fun f => forall k, f k = k) (wl_cb lp) /\
                    Forall (fun r => forall k, snd r k = k) (wl_rd lp) /\
                    Forall (fun r => forall k, snd r k = k) (wl_wr lp))
                 (ps_loops P) (ss_loops S)))
    par_sites seq_sites.
Proof.
  assert (G : forall Ps Ss, Forall psite_ok Ps -> Forall ssite_ok Ss -> Forall2 pair_ok Ps Ss ->
    Forall2 (fun P S =>
    ps_delegate_to P = ss_name S /\ ps_name P = (ss_name S ++ "ParallelWithPoolSize")%string /\
    forall a s, atom_dom (ps_atom P) a ->
      (ps_panics P a s = true <-> s < 1) /\ (ps_delegates P a s = true <-> s = 1) /\
      (2 <= s ->
         ps_guard P a s = true /\ ps_disp_lo P a s = 0 /\ ps_disp_hi P a s = s /\
         Forall2 (fun lp ls =>
                    wl_label lp = wl_label ls /\ wl_in_worker lp = true /\
                    par_visited lp a s = seq_visited ls a /\ seq_visited ls a = zrange 0 (Z.to_nat a) /\
                    (forall x, In x (par_visited lp a s) -> 0 <= x < a) /\
                    Forall (fun f => forall k, f k = k) (wl_cb lp) /\
                    Forall (fun r => forall k, snd r k = k) (wl_rd lp) /\
                    Forall (fun r => forall k, snd r k = k) (wl_wr lp))
                 (ps_loops P) (ss_loops S))) Ps Ss).
  { intros Ps Ss HP HS HF. induction HF as [|P S Ps Ss Hpair HF IH]; [constructor|].
    inversion HP as [|? ? HP1 HP2]; subst. inversion HS as [|? ? HS1 HS2]; subst.
    constructor; [|apply IH; assumption].
    destruct Hpair as (Hd & Hat & Hlab & _).
    destruct HP1 as (Hctl & Hname & _ & _ & Hloops). destruct HS1 as (_ & Hsl).
    split; [exact Hd|]. split; [rewrite Hname, Hd; reflexivity|].
    intros a s Ha. destruct (Hctl a s Ha) as (Hp & Hdg & Hg & Hl0 & Hh0).
    split; [exact Hp|]. split; [exact Hdg|]. intros Hs.
    split; [exact (Hg Hs)|]. split; [exact Hl0|]. split; [exact Hh0|].
    rewrite Hat in Hloops, Ha. clear Hctl Hp Hdg Hg Hl0 Hh0 Hname Hd.
    revert Hlab Hloops Hsl. generalize (ss_loops S) as ls. generalize (ps_loops P) as lp.
    induction lp as [|p lp IHl]; intros [|q ls] Hlab HPl HSl; try discriminate; constructor.
    - inversion HPl as [|? ? Hp1 Hp2]; subst. inversion HSl as [|? ? Hq1 Hq2]; subst.
      cbn in Hlab. injection Hlab as Hl1 Hl2.
      split; [exact Hl1|]. split; [exact (proj1 Hp1)|].
      rewrite (par_loop_visits _ _ _ Hp1 a s Ha Hs), (seq_loop_visits _ _ _ Hq1 a Ha).
      split; [reflexivity|]. split; [reflexivity|].
      split.
      + intros x Hx. unfold zrange in Hx. apply in_map_iff in Hx. destruct Hx as (k & <- & Hk). apply in_seq in Hk. lia.
      + destruct Hp1 as (_ & _ & Hb). destruct Hb as (_ & Hcb & _ & Hrd & Hwr & _). repeat split; assumption.
    - inversion HPl; subst. inversion HSl; subst. cbn in Hlab. injection Hlab as _ Hl2. apply IHl; assumption. }
  apply G; [exact par_sites_ok | exact seq_sites_ok | exact pairs_ok].
Qed.
