(* C10, round 4: (1) what goes wrong when a call site hands (start, start+size) to a helper that takes a count
   (seeded change C10-I); (2) marching a block once more or once less changes the triangle multiset unless the
   block is empty (seeded change C10-J: the block list sized by the canvas-wide block store); (3) a pool of workers
   that take jobs from a queue is covered by the interleavings of the jobs: a worker that runs its jobs one after
   the other is a special interleaving of those jobs, and the order of the workers does not matter. *)
From Coq Require Import List Arith ZArith Bool Lia Permutation String.
From PF Require Import Par.Partition Par.Interleave Par.ParProofs Par.Sites.
Import ListNotations.

(* ---------------------------------------------------------------- (1) *)
Open Scope Z_scope.
(* the line-strip loop of C10-I: scanLinePrimitives(start, count) loops over [start, start+count) and is called
   with (start, start+size) *)
Definition count_callsite_loop : wloop :=
  {| wl_label := "m.topology==LineStripTopology"; wl_in_worker := true;
     wl_guard := fun a s w => true;
     wl_lo := fun a s w => (a / s) * w;
     wl_hi := fun a s w => (a / s) * w + ((a / s) * w + (if w =? s - 1 then a - (a / s) * w else a / s));
     wl_cb := [fun k => k]; wl_rd := [("Line.startingIndex"%string, fun k => k)]; wl_wr := [] |}.

(* 4 segments, 2 workers: the second worker visits 2..5, i.e. two indices past the last segment; with fewer
   segments than workers (every worker but the last starts at 0 with an empty range, the last one at 0) it is right *)
Theorem count_callsite_refuted :
  par_visited count_callsite_loop 4 2 = [0; 1; 2; 3; 4; 5]
  /\ par_visited count_callsite_loop 4 2 <> zrange 0 4
  /\ par_visited count_callsite_loop 2 3 = zrange 0 2
  /\ ~ par_loop_ok "m.PrimitiveCount()" false count_callsite_loop.
Proof.
  split; [vm_compute; reflexivity|]. split; [vm_compute; discriminate|]. split; [vm_compute; reflexivity|].
  intros (_ & H & _). destruct (H 4 2 1 ltac:(cbn; lia) ltac:(lia) ltac:(lia)) as [Ht _].
  destruct (Ht eq_refl) as [_ E]. vm_compute in E. discriminate.
Qed.
Close Scope Z_scope.

(* ---------------------------------------------------------------- (2) *)
Section Blocks.
  Context {P : Type} (d : P).

  Lemma resolve_length : forall m : @bmesh P, List.length (resolve d m) = List.length (tris m).
  Proof. intros m. unfold resolve. apply map_length. Qed.

  (* the block list decides the result: a block marched once more (or once less) changes the number of triangles *)
  Theorem march_extra_block_changes_result : forall (blocks : list (@bmesh P)) (b : @bmesh P),
    Forall (@bwf P) blocks -> bwf b -> tris b <> [] ->
    ~ Permutation (resolve d (march_fold (b :: blocks))) (resolve d (march_fold blocks))
    /\ List.length (resolve d (march_fold (b :: blocks))) = List.length (tris b) + List.length (resolve d (march_fold blocks)).
  Proof.
    intros blocks b Hb Hw Hne.
    assert (L : List.length (resolve d (march_fold (b :: blocks))) = List.length (tris b) + List.length (resolve d (march_fold blocks))).
    { rewrite (march_fold_triangles d (b :: blocks)) by (constructor; assumption).
      rewrite (march_fold_triangles d blocks) by assumption. cbn [flat_map]. rewrite app_length, resolve_length. reflexivity. }
    split; [|exact L]. intros Hp. apply Permutation_length in Hp. rewrite L in Hp.
    destruct (tris b); [congruence|]. cbn in Hp. lia.
  Qed.
End Blocks.

(* ---------------------------------------------------------------- (3) *)
Section Pool.
  Context {A : Type}.

  Lemma all_nil_perm : forall ws ws' : list (list A), Permutation ws ws' ->
    Forall (fun w => w = []) ws -> Forall (fun w => w = []) ws'.
  Proof. intros ws ws' Hp H. rewrite Forall_forall in *. intros x Hx. apply H. eapply Permutation_in; [symmetry; exact Hp | exact Hx]. Qed.

  (* where x :: w sits in a permuted worker list *)
  Lemma perm_find : forall (u : list A) (pre post ws' : list (list A)),
    Permutation (pre ++ u :: post) ws' ->
    exists pre' post', ws' = pre' ++ u :: post' /\ Permutation (pre ++ post) (pre' ++ post').
  Proof.
    intros u pre post ws' Hp.
    assert (Hin : In u ws') by (eapply Permutation_in; [exact Hp | apply in_elt]).
    apply in_split in Hin. destruct Hin as (pre' & post' & ->).
    exists pre', post'. split; [reflexivity|]. eapply Permutation_app_inv. exact Hp.
  Qed.

  (* the order of the workers does not matter *)
  Theorem interleaving_perm_workers : forall (e : list A) (ws : list (list A)),
    interleaving e ws -> forall ws', Permutation ws ws' -> interleaving e ws'.
  Proof.
    induction 1 as [ws Hn | x e pre w post _ IH]; intros ws' Hp.
    - constructor. eapply all_nil_perm; eassumption.
    - destruct (perm_find (x :: w) pre post ws' Hp) as (pre' & post' & -> & Hp').
      constructor. apply IH. apply Permutation_elt. exact Hp'.
  Qed.

  Lemma perm_to_head : forall (pre post : list (list A)) (w : list A),
    Permutation (pre ++ w :: post) (w :: pre ++ post).
  Proof. intros. symmetry. apply Permutation_middle. Qed.

  (* a worker that runs u and then v is a special interleaving of the two jobs u and v *)
  Lemma interleaving_split_head : forall (e : list A) (ws : list (list A)),
    interleaving e ws -> forall u v rest, Permutation ws ((u ++ v) :: rest) -> interleaving e (u :: v :: rest).
  Proof.
    induction 1 as [ws Hn | x e pre w post _ IH]; intros u v rest Hp.
    - assert (Hall := all_nil_perm _ _ Hp Hn). inversion Hall as [|? ? Huv Hr]; subst.
      apply app_eq_nil in Huv. destruct Huv as [-> ->]. constructor. repeat constructor; assumption.
    - (* the worker that steps is either u ++ v itself or one of rest *)
      destruct (perm_find (x :: w) pre post _ Hp) as (pre' & post' & Heq & Hp').
      destruct pre' as [|h pre'].
      + cbn in Heq. injection Heq as Huv Hrest. subst post'. cbn in Hp'.
        destruct u as [|y u].
        * cbn in Huv. subst v.
          apply (il_step x e [[]] w rest). apply (IH [] w rest). cbn.
          etransitivity; [apply perm_to_head|]. apply perm_skip. exact Hp'.
        * cbn in Huv. injection Huv as Hy Hw. subst y w.
          apply (il_step x e [] u (v :: rest)). cbn. apply IH.
          etransitivity; [apply perm_to_head|]. apply perm_skip. exact Hp'.
      + cbn in Heq. injection Heq as Hh Hrest. subst h rest. cbn in Hp'.
        apply (il_step x e (u :: v :: pre') w post'). cbn. apply IH.
        etransitivity; [apply perm_to_head|].
        etransitivity; [apply perm_skip; exact Hp'|].
        etransitivity; [apply perm_swap|]. apply perm_skip. apply Permutation_middle.
  Qed.

  (* a worker without steps can be left out *)
  Lemma interleaving_drop_nil : forall (e : list A) (ws : list (list A)),
    interleaving e ws -> forall rest, Permutation ws ([] :: rest) -> interleaving e rest.
  Proof.
    induction 1 as [ws Hn | x e pre w post _ IH]; intros rest Hp.
    - assert (Hall := all_nil_perm _ _ Hp Hn). inversion Hall; subst. constructor. assumption.
    - destruct (perm_find (x :: w) pre post _ Hp) as (pre' & post' & Heq & Hp').
      destruct pre' as [|h pre']; [cbn in Heq; discriminate|].
      cbn in Heq. injection Heq as Hh Hrest. subst h rest. cbn in Hp'.
      constructor. apply IH.
      etransitivity; [apply perm_to_head|].
      etransitivity; [apply perm_skip; exact Hp'|].
      etransitivity; [apply perm_swap|]. apply perm_skip. apply Permutation_middle.
  Qed.

  (* AddFieldParallel and marchFloat1Parallel start a fixed number of workers that take jobs from a channel.  Let
     groups[k] be the jobs worker k happened to take, in the order it took them: the worker's steps are the
     concatenation of those jobs.  Every interleaving of such workers is an interleaving of the jobs themselves, so
     the theorems that quantify over all interleavings of the JOBS cover every job-to-worker assignment, every pool
     size and every order in which the queue is drained. *)
  Lemma pool_flatten : forall (groups : list (list (list A))) (singles : list (list A)) (e : list A),
    interleaving e (singles ++ map (@List.concat A) groups) -> interleaving e (singles ++ List.concat groups).
  Proof.
    induction groups as [|g gs IHo]; intros singles e H; [exact H|].
    revert singles e H. induction g as [|j g IHg]; intros singles e H.
    - cbn in H. cbn. apply IHo. eapply interleaving_drop_nil; [exact H|]. apply perm_to_head.
    - cbn [map List.concat] in H. cbn [List.concat app].
      assert (H1 : interleaving e (j :: List.concat g :: singles ++ map (@List.concat A) gs)).
      { eapply interleaving_split_head; [exact H|]. apply perm_to_head. }
      assert (H2 : interleaving e ((singles ++ [j]) ++ map (@List.concat A) (g :: gs))).
      { eapply interleaving_perm_workers; [exact H1|]. cbn [map]. rewrite <- app_assoc. cbn [app].
        etransitivity; [apply perm_skip; apply Permutation_middle|]. apply Permutation_middle. }
      specialize (IHg _ _ H2). rewrite <- app_assoc in IHg. exact IHg.
  Qed.

  Theorem pool_schedule_is_job_interleaving : forall (groups : list (list (list A))) (jobs : list (list A)) (e : list A),
    Permutation (List.concat groups) jobs -> interleaving e (map (@List.concat A) groups) -> interleaving e jobs.
  Proof.
    intros groups jobs e Hp H. eapply interleaving_perm_workers; [|exact Hp]. exact (pool_flatten groups [] e H).
  Qed.
End Pool.

(* ---------------------------------------------------------------- (4) AddFieldParallel2 *)
(* AddFieldParallel2: the workers only COMPUTE (one array of values per (attribute, chunk) job); the calling goroutine
   adds the arrays into the canvas one after the other, in the order in which they arrive on the result channel.
   Whatever that order is -- any permutation of the dispatched jobs -- every cell ends as after the sequential
   AddField.  (Job after job in a permuted order is a special interleaving of the jobs.) *)
Section Collector.
  Context {K V : Type} (keqb : K -> K -> bool) (add : V -> V -> V).
  Hypothesis keqb_spec : forall a b, keqb a b = true <-> a = b.

  Theorem addfield_collector_any_arrival_order :
    forall (jobs arrival : list (K * list (Z * V))) st,
      NoDup (map fst jobs) -> Permutation arrival jobs ->
      forall k c, run_canvas keqb add (List.concat (map job_steps arrival)) st k c
                  = run_canvas keqb add (List.concat (map job_steps jobs)) st k c.
  Proof.
    intros jobs arrival st Hn Hp.
    apply (addfield_any_schedule keqb add keqb_spec jobs (List.concat (map job_steps arrival)) st Hn).
    apply (interleaving_perm_workers _ (map job_steps arrival)).
    - apply sched_seq_interleaving.
    - apply Permutation_map. exact Hp.
  Qed.
End Collector.
