(* C10, translator binding: the vocabulary in which tools/par2coq describes the parallel entry points of
   modeling/mesh.go (coq/gen/ParSites.v is written in these records on every run; Par/SitesProofs.v proves the
   partition theorem about whatever that file says).  Definitions only.

   Integer variables of the generated terms:  a = the element count the entry point works on (len(<attribute data>)
   or m.PrimitiveCount(): one opaque integer of the source), s = the pool size argument, w = the variable of the
   dispatch loop (the loop whose body starts the goroutine), k = the variable of an element loop. *)
From Coq Require Import ZArith List String Bool.
From PF Require Import Par.Partition.
Import ListNotations.
Open Scope Z_scope.

(* one element loop  for k := lo; k < hi; k++ { ... }  found while executing an entry point symbolically *)
Record wloop := {
  wl_label : string;                       (* branch of a switch on a non-integer tag, e.g. the topology *)
  wl_in_worker : bool;                     (* executed by a goroutine started in the dispatch loop *)
  wl_guard : Z -> Z -> Z -> bool;          (* a s w: integer conditions under which the loop is reached *)
  wl_lo : Z -> Z -> Z -> Z;                (* a s w *)
  wl_hi : Z -> Z -> Z -> Z;
  wl_cb : list (Z -> Z);                   (* index handed to the user callback, per call in the body, of k *)
  wl_rd : list (string * (Z -> Z));        (* what is read and handed to the callback: (array / constructor, index of k) *)
  wl_wr : list (string * (Z -> Z))         (* array elements assigned in the body *)
}.

(* a <X>ParallelWithPoolSize method *)
Record psite := {
  ps_name : string;
  ps_atom : string;                        (* source text of a *)
  ps_panics : Z -> Z -> bool;              (* a s: the entry point panics (outside the workers) *)
  ps_delegates : Z -> Z -> bool;           (* a s: it returns <ps_delegate_to>(..., callback) *)
  ps_delegate_to : string;
  ps_guard : Z -> Z -> bool;               (* a s: the dispatch loop is reached *)
  ps_disp_lo : Z -> Z -> Z;                (* for w := lo; w < hi; w++ { ... go ... } *)
  ps_disp_hi : Z -> Z -> Z;
  ps_gos : nat;                            (* go statements executed per iteration *)
  ps_result : string;                      (* what it returns where it does not delegate (informational) *)
  ps_loops : list wloop
}.

(* the sequential method <X> *)
Record ssite := { ss_name : string; ss_atom : string; ss_result : string; ss_loops : list wloop }.

(* <X>Parallel: returns <wr_target>(..., <wr_pool>, callback) *)
Record wrapper := { wr_name : string; wr_target : string; wr_pool : string }.

(* ---------------------------------------------------------------- what the source must say *)

(* the element count the loops may assume: a slice length is never negative; PrimitiveCount() is -1 for a line strip
   without indices *)
Definition len_atom (atom : string) : bool := String.prefix "len(" atom.
Definition atom_dom (atom : string) (a : Z) : Prop := if len_atom atom then 0 <= a else -1 <= a.
Definition total (a : Z) : Z := Z.max 0 a.

(* worker w of s gets [ws*w, ws*w + ws), the last one [ws*w, total) with ws = total / s *)
Definition canon_lo (a s w : Z) : Z := (total a / s) * w.
Definition canon_hi (a s w : Z) : Z := if w =? s - 1 then total a else (total a / s) * w + total a / s.

Definition body_ok (modifies : bool) (l : wloop) : Prop :=
  wl_cb l <> [] /\ Forall (fun f => forall k, f k = k) (wl_cb l)
  /\ wl_rd l <> [] /\ Forall (fun r => forall k, snd r k = k) (wl_rd l)
  /\ Forall (fun r => forall k, snd r k = k) (wl_wr l)
  /\ (modifies = true -> wl_wr l <> [])
  (* nothing that is read is written: a modification fills a fresh array *)
  /\ Forall (fun wr => Forall (fun rd => String.eqb (fst wr) (fst rd) = false) (wl_rd l)) (wl_wr l).

Definition par_loop_ok (atom : string) (modifies : bool) (l : wloop) : Prop :=
  wl_in_worker l = true
  /\ (forall a s w, atom_dom atom a -> 2 <= s -> 0 <= w < s ->
        (wl_guard l a s w = true -> wl_lo l a s w = canon_lo a s w /\ wl_hi l a s w = canon_hi a s w)
        /\ (wl_guard l a s w = false -> canon_hi a s w <= canon_lo a s w))
  /\ body_ok modifies l.

Definition seq_loop_ok (atom : string) (modifies : bool) (l : wloop) : Prop :=
  wl_in_worker l = false
  /\ (forall a s w, atom_dom atom a -> wl_guard l a s w = true /\ wl_lo l a s w = 0 /\ wl_hi l a s w = a)
  /\ body_ok modifies l.

Definition modifies_of (name : string) : bool := String.prefix "Modify" name.

Definition psite_ok (P : psite) : Prop :=
  (forall a s, atom_dom (ps_atom P) a ->
     (ps_panics P a s = true <-> s < 1) /\ (ps_delegates P a s = true <-> s = 1) /\ (2 <= s -> ps_guard P a s = true)
     /\ ps_disp_lo P a s = 0 /\ ps_disp_hi P a s = s)
  /\ ps_name P = (ps_delegate_to P ++ "ParallelWithPoolSize")%string
  /\ ps_gos P = 1%nat
  /\ ps_loops P <> []
  /\ Forall (par_loop_ok (ps_atom P) (modifies_of (ps_name P))) (ps_loops P).

Definition ssite_ok (S : ssite) : Prop :=
  ss_loops S <> [] /\ Forall (seq_loop_ok (ss_atom S) (modifies_of (ss_name S))) (ss_loops S).

(* a parallel entry point and its sequential counterpart: same element count, same branches (every topology the
   sequential scan supports is handled by the parallel one and vice versa), same things read and written *)
Definition pair_ok (P : psite) (S : ssite) : Prop :=
  ps_delegate_to P = ss_name S /\ ps_atom P = ss_atom S
  /\ map wl_label (ps_loops P) = map wl_label (ss_loops S)
  /\ map (fun l => map fst (wl_rd l)) (ps_loops P) = map (fun l => map fst (wl_rd l)) (ss_loops S).

Definition wrapper_ok (W : wrapper) : Prop :=
  wr_target W = (wr_name W ++ "WithPoolSize")%string /\ wr_pool W = "runtime.NumCPU()"%string.

(* ---------------------------------------------------------------- what the loops visit *)
(* indices visited by the workers 0 .. s-1, worker after worker, and by the sequential loop *)
Definition par_visited (l : wloop) (a s : Z) : list Z :=
  flat_map (fun w => if wl_guard l a s w then zspan (wl_lo l a s w) (wl_hi l a s w) else [])
           (zrange 0 (Z.to_nat s)).
Definition seq_visited (l : wloop) (a : Z) : list Z :=
  if wl_guard l a 0 0 then zspan (wl_lo l a 0 0) (wl_hi l a 0 0) else [].
