(* C10 model, part 1: the work partition of the *ParallelWithPoolSize entry points of
   /repo/modeling/mesh.go and the chunk arithmetic of /repo/modeling/marching/canvas.go.
   Definitions only (proofs: Par/ParProofs.v).

   Every parallel entry point of mesh.go (ScanPrimitives / ScanFloat{1,2,3}Attribute /
   ModifyFloat{1,2,3}Attribute ...ParallelWithPoolSize) computes, for n elements and pool size s >= 2,

       workSize := int(math.Floor(float64(n) / float64(s)))
       for i := 0; i < s; i++ {
           jobSize := workSize
           if i == s-1 { jobSize = n - workSize*i }
           go worker(workSize*i, jobSize)          // (start, size)
       }

   and the worker runs  end := start+size; for i := start; i < end; i++ { ... i ... }.
   Pool size 1 delegates to the sequential entry point, pool size < 1 panics with an error.
   (float64 division followed by Floor equals integer division for all n, s < 2^53/s; slice lengths
   are far below that -- this identification is part of the trusted base and is exercised by the
   harness with large n.) *)
From Coq Require Import List Arith ZArith Bool.
Import ListNotations.

(* ---------------------------------------------------------------- mesh.go: range partition *)
Definition work_size (n s : nat) : nat := n / s.

(* (start, jobSize) handed to worker i *)
Definition job (n s i : nat) : nat * nat :=
  (work_size n s * i, if i =? s - 1 then n - work_size n s * i else work_size n s).
Definition jobs (n s : nat) : list (nat * nat) := map (job n s) (seq 0 s).

(* the half-open index range [a, b) a worker iterates over *)
Definition range_of (j : nat * nat) : nat * nat := (fst j, fst j + snd j).
Definition ranges (n s : nat) : list (nat * nat) := map range_of (jobs n s).

(* for i := a; i < b; i++ *)
Definition span (r : nat * nat) : list nat := seq (fst r) (snd r - fst r).

(* indices touched, worker after worker *)
Definition visited (n s : nat) : list nat := flat_map span (ranges n s).

(* Pinned tree (before fix 6ab50c7): ScanPrimitivesParallelWithPoolSize handed (start, size) to
   scanTrisPrimitives(start, size, f), whose loop is  for i := start; i < size; i++ . *)
Definition range_pinned (j : nat * nat) : nat * nat := (fst j, snd j).
Definition visited_pinned (n s : nat) : list nat := flat_map span (map range_pinned (jobs n s)).

(* What an entry point does for a pool size: None = declared panic (size < 1). *)
Definition par_indices (n s : nat) : option (list nat) :=
  if s =? 0 then None else if s =? 1 then Some (seq 0 n) else Some (visited n s).

(* ---------------------------------------------------------------- primitive counts *)
Inductive topology := Triangle | Point | LineStrip.

(* Mesh.PrimitiveCount as a function of len(indices); a line strip without indices reports -1 *)
Definition prim_count (t : topology) (nidx : nat) : Z :=
  match t with
  | Triangle => Z.of_nat (nidx / 3)
  | Point => Z.of_nat nidx
  | LineStrip => Z.of_nat nidx - 1
  end.

(* amount of work of ScanPrimitivesParallelWithPoolSize (repaired code clamps at 0; the sequential
   loop  for i := 0; i < count  visits nothing for a negative count) *)
Definition prim_work (t : topology) (nidx : nat) : nat := Z.to_nat (prim_count t nidx).

(* The same partition over Go ints (Z, floor division), without the clamp: this is what the code
   before fixes/C10-scan-prims-empty-linestrip does with PrimitiveCount() = -1. *)
Definition zspan (a b : Z) : list Z := map (fun k => (a + Z.of_nat k)%Z) (seq 0 (Z.to_nat (b - a))).
Definition visitedZ (n : Z) (s : nat) : list Z :=
  let ws := (n / Z.of_nat s)%Z in
  flat_map (fun i =>
              let start := (ws * Z.of_nat i)%Z in
              let size := if i =? s - 1 then (n - ws * Z.of_nat i)%Z else ws in
              zspan start (start + size)) (seq 0 s).

(* ---------------------------------------------------------------- marching canvas: chunk arithmetic *)
Open Scope Z_scope.
Definition vec := (Z * Z * Z)%type.
Definition vec_eqb (a b : vec) : bool :=
  let '(ax, ay, az) := a in let '(bx, by_, bz) := b in (ax =? bx) && (ay =? by_) && (az =? bz).

Definition section_size : Z := 100.                      (* marchingSectionSize *)
(* canvasPosToChunkPos: int(math.Floor(float64(x) / 100)) = floor division, also for negative x *)
Definition chunk_of (x : Z) : Z := x / section_size.
Definition chunk_pos (p : vec) : vec := let '(x, y, z) := p in (chunk_of x, chunk_of y, chunk_of z).

Definition zrange (lo : Z) (n : nat) : list Z := map (fun k => lo + Z.of_nat k) (seq 0 n).

(* chunkSectionsInRange(min, max): loops x, y, z (in that nesting order) over
   minChunk .. maxChunk inclusive; one chunk when both corners fall into the same chunk *)
Definition chunk_sections (mn mx : vec) : list vec :=
  let '(x0, y0, z0) := chunk_pos mn in
  let '(x1, y1, z1) := chunk_pos mx in
  if vec_eqb (x0, y0, z0) (x1, y1, z1) then [(x0, y0, z0)]
  else flat_map (fun x => flat_map (fun y => map (fun z => (x, y, z))
                                                (zrange z0 (Z.to_nat (z1 - z0 + 1))))
                                   (zrange y0 (Z.to_nat (y1 - y0 + 1))))
                (zrange x0 (Z.to_nat (x1 - x0 + 1))).

(* the part of [lo, hi) that lies in chunk c along one axis:
   startPos = maxInt(c*100, lo), endPos = minInt(c*100 + 100, hi) *)
Definition axis_lo (c lo : Z) : Z := Z.max (c * section_size) lo.
Definition axis_hi (c hi : Z) : Z := Z.min (c * section_size + section_size) hi.
Definition axis_cells (c lo hi : Z) : list Z := zspan (axis_lo c lo) (axis_hi c hi).

(* MarchingCanvas.index on the position shifted into the chunk *)
Definition cell_index (c p : vec) : Z :=
  let '(cx, cy, cz) := c in let '(x, y, z) := p in
  (z - cz * section_size) * (section_size * section_size) + (y - cy * section_size) * section_size
  + (x - cx * section_size).

(* addFloat1Range: canvas positions written by the job of chunk c, in loop order z, y, x *)
Definition job_positions (c mn mx : vec) : list vec :=
  let '(cx, cy, cz) := c in let '(x0, y0, z0) := mn in let '(x1, y1, z1) := mx in
  flat_map (fun z => flat_map (fun y => map (fun x => (x, y, z)) (axis_cells cx x0 x1))
                              (axis_cells cy y0 y1))
           (axis_cells cz z0 z1).

(* number of cells the job of chunk c writes *)
Definition job_volume (c mn mx : vec) : Z :=
  let '(cx, cy, cz) := c in let '(x0, y0, z0) := mn in let '(x1, y1, z1) := mx in
  Z.max 0 (axis_hi cx x1 - axis_lo cx x0) * Z.max 0 (axis_hi cy y1 - axis_lo cy y0)
  * Z.max 0 (axis_hi cz z1 - axis_lo cz z0).
Close Scope Z_scope.
