(* C10 proofs: partition exactness, schedule independence of scans / modifications / field
   accumulation / block-mesh appends, absence of conflicting accesses in the model. *)
From Coq Require Import List Arith ZArith Bool Lia Permutation.
From Coq Require Import ZifyNat ZifyBool.
From PF Require Import Par.Partition Par.Interleave.
Import ListNotations.

(* ================================================================ partition *)
Lemma span_seq : forall a b, span (a, b) = seq a (b - a).
Proof. reflexivity. Qed.

Lemma blocks_seq : forall ws k, flat_map (fun i => seq (ws * i) ws) (seq 0 k) = seq 0 (ws * k).
Proof.
  intros ws k. induction k as [|k IH].
  - rewrite Nat.mul_0_r. reflexivity.
  - rewrite seq_S, flat_map_app, IH. cbn [flat_map]. rewrite app_nil_r.
    replace (ws * S k) with (ws * k + ws) by lia. rewrite seq_app. reflexivity.
Qed.

Lemma visited_unfold : forall n s,
  visited n s = flat_map (fun i => span (range_of (job n s i))) (seq 0 s).
Proof.
  intros. unfold visited, ranges, jobs. rewrite !flat_map_concat_map, !map_map. reflexivity.
Qed.

Lemma work_size_le : forall n s, work_size n s * (s - 1) <= n.
Proof.
  intros n s. unfold work_size. destruct s as [|s]; [cbn; lia|].
  pose proof (Nat.mul_div_le n (S s) ltac:(lia)). nia.
Qed.

(* the strongest statement: worker after worker, the indices are exactly 0, 1, ..., n-1 in order *)
Theorem visited_eq_seq : forall n s, 1 <= s -> visited n s = seq 0 n.
Proof.
  intros n s Hs. rewrite visited_unfold.
  destruct s as [|k]; [lia|]. rewrite seq_S, flat_map_app. cbn [flat_map]. rewrite app_nil_r.
  set (ws := work_size n (S k)).
  assert (E1 : flat_map (fun i => span (range_of (job n (S k) i))) (seq 0 k)
               = flat_map (fun i => seq (ws * i) ws) (seq 0 k)).
  { rewrite !flat_map_concat_map. f_equal. apply map_ext_in. intros i Hi. apply in_seq in Hi.
    unfold job, range_of, span. fold ws. cbn [fst snd].
    replace (i =? S k - 1) with false by (symmetry; apply Nat.eqb_neq; lia).
    f_equal. lia. }
  rewrite E1, blocks_seq. cbn [plus].
  unfold job, range_of, span. fold ws. cbn [fst snd].
  replace (k =? S k - 1) with true by (symmetry; apply Nat.eqb_eq; lia).
  pose proof (work_size_le n (S k)) as Hle. fold ws in Hle. replace (S k - 1) with k in Hle by lia.
  replace (ws * k + (n - ws * k) - ws * k) with (n - ws * k) by lia.
  rewrite <- seq_app. f_equal. lia.
Qed.

Theorem partition_exact : forall n s, 1 <= s -> Permutation (visited n s) (seq 0 n).
Proof. intros. rewrite visited_eq_seq by assumption. apply Permutation_refl. Qed.

Lemma visited_nodup : forall n s, 1 <= s -> NoDup (visited n s).
Proof. intros. rewrite visited_eq_seq by assumption. apply seq_NoDup. Qed.

(* closed form of worker i's range *)
Lemma ranges_nth : forall n s i, i < s ->
  nth_error (ranges n s) i
  = Some (work_size n s * i, if i =? s - 1 then n else work_size n s * i + work_size n s).
Proof.
  intros n s i Hi. unfold ranges, jobs. rewrite map_map.
  rewrite (map_nth_error _ i (seq 0 s) (d := i)).
  - unfold range_of, job. cbn [fst snd]. f_equal. f_equal.
    destruct (i =? s - 1) eqn:E; [|reflexivity].
    apply Nat.eqb_eq in E. subst i. pose proof (work_size_le n s). lia.
  - rewrite nth_error_nth' with (d := 0) by (rewrite seq_length; lia).
    rewrite seq_nth by lia. reflexivity.
Qed.

Lemma ranges_length : forall n s, length (ranges n s) = s.
Proof. intros. unfold ranges, jobs. rewrite !map_length, seq_length. reflexivity. Qed.

(* every range is well formed and inside [0, n] *)
Theorem ranges_bounds : forall n s i a b,
  nth_error (ranges n s) i = Some (a, b) -> a <= b /\ b <= n.
Proof.
  intros n s i a b H.
  assert (Hi : i < s). { rewrite <- (ranges_length n s). apply nth_error_Some. congruence. }
  rewrite ranges_nth in H by assumption. inversion H; subst; clear H.
  pose proof (work_size_le n s) as Hle.
  destruct (i =? s - 1) eqn:E.
  - apply Nat.eqb_eq in E. subst i. lia.
  - apply Nat.eqb_neq in E. split; [lia|].
    assert (work_size n s * (i + 1) <= work_size n s * (s - 1)) by (apply Nat.mul_le_mono_l; lia). lia.
Qed.

(* ranges of different workers do not overlap: the earlier one ends before the later one starts *)
Theorem ranges_disjoint : forall n s i j a b c e,
  i < j -> nth_error (ranges n s) i = Some (a, b) -> nth_error (ranges n s) j = Some (c, e) -> b <= c.
Proof.
  intros n s i j a b c e Hij Hi Hj.
  assert (Hjs : j < s). { rewrite <- (ranges_length n s). apply nth_error_Some. congruence. }
  rewrite ranges_nth in Hi by lia. rewrite ranges_nth in Hj by lia.
  inversion Hi; subst; clear Hi. inversion Hj; subst; clear Hj.
  replace (i =? s - 1) with false by (symmetry; apply Nat.eqb_neq; lia).
  assert (work_size n s * (i + 1) <= work_size n s * j) by (apply Nat.mul_le_mono_l; lia). lia.
Qed.

Lemma in_span : forall a b x, In x (span (a, b)) <-> a <= x < b.
Proof. intros. unfold span. cbn [fst snd]. rewrite in_seq. lia. Qed.

(* no index belongs to two workers *)
Corollary ranges_no_shared_index : forall n s i j ri rj x,
  i <> j -> nth_error (ranges n s) i = Some ri -> nth_error (ranges n s) j = Some rj ->
  In x (span ri) -> In x (span rj) -> False.
Proof.
  intros n s i j [a b] [c e] x Hne Hi Hj Hx Hy. apply in_span in Hx. apply in_span in Hy.
  destruct (Nat.lt_total i j) as [L|[L|L]]; [|contradiction|].
  - pose proof (ranges_disjoint _ _ _ _ _ _ _ _ L Hi Hj). lia.
  - pose proof (ranges_disjoint _ _ _ _ _ _ _ _ L Hj Hi). lia.
Qed.

(* pool size 1 and the general case agree; pool size 0 is the declared panic *)
Theorem par_indices_spec : forall n s, par_indices n s = if s =? 0 then None else Some (seq 0 n).
Proof.
  intros n s. unfold par_indices. destruct (s =? 0) eqn:E0; [reflexivity|].
  destruct (s =? 1); [reflexivity|]. rewrite visited_eq_seq; [reflexivity|].
  apply Nat.eqb_neq in E0. lia.
Qed.

(* the pinned ScanPrimitivesParallelWithPoolSize (before 6ab50c7) loses primitives *)
Theorem scan_prims_refuted : exists n s, 1 <= s /\ visited_pinned n s <> seq 0 n.
Proof. exists 10, 3. split; [lia|]. vm_compute. discriminate. Qed.

Lemma visited_pinned_10_3 : visited_pinned 10 3 = [0; 1; 2].
Proof. vm_compute. reflexivity. Qed.

(* Go-int version of the partition: agrees with the nat model on non-negative counts ... *)
Lemma seq_add : forall n a, seq a n = map (fun k => a + k) (seq 0 n).
Proof.
  induction n as [|n IH]; intros a; [reflexivity|].
  cbn [seq map]. rewrite Nat.add_0_r. f_equal. rewrite IH, <- seq_shift, map_map.
  apply map_ext. intros. lia.
Qed.

Lemma zspan_nat : forall a b, zspan (Z.of_nat a) (Z.of_nat b) = map Z.of_nat (seq a (b - a)).
Proof.
  intros a b. unfold zspan. replace (Z.to_nat (Z.of_nat b - Z.of_nat a)) with (b - a) by lia.
  rewrite (seq_add (b - a) a), map_map. apply map_ext. intros. lia.
Qed.

Theorem visitedZ_nat : forall n s, 1 <= s -> visitedZ (Z.of_nat n) s = map Z.of_nat (visited n s).
Proof.
  intros n s Hs. rewrite visited_unfold. unfold visitedZ.
  rewrite !flat_map_concat_map, concat_map, map_map. f_equal. apply map_ext_in.
  intros i Hi. apply in_seq in Hi.
  assert (Ews : (Z.of_nat n / Z.of_nat s)%Z = Z.of_nat (work_size n s)).
  { unfold work_size. rewrite Nat2Z.inj_div. reflexivity. }
  rewrite Ews. unfold job, range_of, span. cbn [fst snd].
  pose proof (work_size_le n s) as Hle.
  destruct (i =? s - 1) eqn:E.
  - apply Nat.eqb_eq in E. subst i.
    replace (Z.of_nat (work_size n s) * Z.of_nat (s - 1)
             + (Z.of_nat n - Z.of_nat (work_size n s) * Z.of_nat (s - 1)))%Z with (Z.of_nat n) by lia.
    replace (Z.of_nat (work_size n s) * Z.of_nat (s - 1))%Z with (Z.of_nat (work_size n s * (s - 1))) by lia.
    rewrite zspan_nat. f_equal. f_equal. lia.
  - replace (Z.of_nat (work_size n s) * Z.of_nat i + Z.of_nat (work_size n s))%Z
      with (Z.of_nat (work_size n s * i + work_size n s)) by lia.
    replace (Z.of_nat (work_size n s) * Z.of_nat i)%Z with (Z.of_nat (work_size n s * i)) by lia.
    rewrite zspan_nat. reflexivity.
Qed.

(* ... and, without the clamp of fixes/C10-scan-prims-empty-linestrip (commit 08b2ef6), calls the
   callback with negative indices on a line strip without indices (PrimitiveCount() = -1) *)
Theorem scan_prims_negative_count_refuted :
  exists s, 1 <= s /\ visitedZ (prim_count LineStrip 0) s <> [] /\ prim_work LineStrip 0 = 0.
Proof. exists 3. split; [lia|]. split; [vm_compute; discriminate | reflexivity]. Qed.

(* ================================================================ interleavings *)
Section InterleavingFacts.
  Context {A : Type}.
  Implicit Types (e w : list A) (ws : list (list A)).

  Lemma concat_all_nil : forall ws, Forall (fun w => w = []) ws -> concat ws = [].
  Proof. induction 1 as [|w ws Hw _ IH]; [reflexivity|]. cbn. rewrite Hw, IH. reflexivity. Qed.

  (* an execution performs exactly the steps of the workers, each once *)
  Lemma interleaving_perm : forall e ws, interleaving e ws -> Permutation e (concat ws).
  Proof.
    induction 1 as [ws H | x e pre w post _ IH].
    - rewrite concat_all_nil by assumption. constructor.
    - rewrite concat_app in *. cbn [concat] in *. cbn [app].
      apply Permutation_cons_app. exact IH.
  Qed.

  Lemma interleaving_prepend : forall l e pre w post,
    interleaving e (pre ++ w :: post) -> interleaving (l ++ e) (pre ++ (l ++ w) :: post).
  Proof.
    induction l as [|x l IH]; intros; [assumption|]. cbn [app]. constructor. apply IH. assumption.
  Qed.

  Lemma interleaving_nil_l : forall ws, interleaving [] ws -> Forall (fun w => w = []) ws.
  Proof. intros ws H. inversion H; subst; assumption. Qed.

  Lemma interleaving_one : forall w, interleaving w [w].
  Proof.
    induction w as [|x w IH].
    - constructor. constructor; [reflexivity|constructor].
    - apply (il_step x w [] w []). exact IH.
  Qed.

  (* idle workers can be added on either side *)
  Lemma interleaving_idle_r : forall e ws idle,
    interleaving e ws -> Forall (fun w => w = []) idle -> interleaving e (ws ++ idle).
  Proof.
    intros e ws idle H Hi. induction H as [ws Hall | x e pre w post _ IH].
    - constructor. apply Forall_app. split; assumption.
    - rewrite <- app_assoc. cbn [app]. constructor.
      rewrite <- app_assoc in IH. exact IH.
  Qed.

  Lemma interleaving_idle_l : forall e ws idle,
    interleaving e ws -> Forall (fun w => w = []) idle -> interleaving e (idle ++ ws).
  Proof.
    intros e ws idle H Hi. induction H as [ws Hall | x e pre w post _ IH].
    - constructor. apply Forall_app. split; assumption.
    - rewrite app_assoc. constructor. rewrite <- app_assoc. exact IH.
  Qed.

  (* run one group of workers to completion, then another group: both orders are executions *)
  Lemma interleaving_app : forall e1 ws1 e2 ws2,
    interleaving e1 ws1 -> interleaving e2 ws2 -> interleaving (e1 ++ e2) (ws1 ++ ws2).
  Proof.
    intros e1 ws1 e2 ws2 H1 H2. induction H1 as [ws Hall | x e pre w post _ IH].
    - cbn [app]. apply interleaving_idle_l; assumption.
    - rewrite <- app_assoc. cbn [app]. constructor.
      rewrite <- app_assoc in IH. exact IH.
  Qed.

  Lemma interleaving_app_swap : forall e1 ws1 e2 ws2,
    interleaving e1 ws1 -> interleaving e2 ws2 -> interleaving (e2 ++ e1) (ws1 ++ ws2).
  Proof.
    intros e1 ws1 e2 ws2 H1 H2. induction H2 as [ws Hall | x e pre w post _ IH].
    - cbn [app]. apply interleaving_idle_r; assumption.
    - rewrite app_assoc. cbn [app]. constructor. rewrite <- app_assoc. exact IH.
  Qed.

  (* the sequential schedule (worker after worker) is an execution *)
  Lemma sched_seq_interleaving : forall ws, interleaving (sched_seq ws) ws.
  Proof.
    unfold sched_seq. induction ws as [|w ws IH].
    - constructor. constructor.
    - cbn [concat]. apply (interleaving_app w [w] (concat ws) ws); [apply interleaving_one | exact IH].
  Qed.

  (* so is "last worker first" *)
  Lemma sched_rev_interleaving : forall ws, interleaving (sched_rev ws) ws.
  Proof.
    unfold sched_rev. induction ws as [|w ws IH].
    - constructor. constructor.
    - cbn [rev]. rewrite concat_app. cbn [concat]. rewrite app_nil_r.
      apply (interleaving_app_swap w [w] (concat (rev ws)) ws); [apply interleaving_one | exact IH].
  Qed.

  (* projection of an execution onto the steps satisfying p *)
  Lemma interleaving_filter : forall p e ws,
    interleaving e ws -> interleaving (filter p e) (map (filter p) ws).
  Proof.
    intros p e ws H. induction H as [ws Hall | x e pre w post _ IH].
    - cbn. constructor. apply Forall_forall. intros w Hw. apply in_map_iff in Hw.
      destruct Hw as (w0 & <- & Hin). rewrite Forall_forall in Hall. rewrite (Hall _ Hin). reflexivity.
    - rewrite map_app in *. cbn [map filter] in *. destruct (p x).
      + constructor. exact IH.
      + exact IH.
  Qed.

  (* when at most one worker has steps, the execution is that worker's list *)
  Definition at_most_one_busy ws : Prop :=
    forall i j wi wj, nth_error ws i = Some wi -> nth_error ws j = Some wj ->
                      wi <> [] -> wj <> [] -> i = j.

  Lemma busy_split : forall pre (w : list A) post x,
    at_most_one_busy (pre ++ (x :: w) :: post) ->
    Forall (fun w => w = []) pre /\ Forall (fun w => w = []) post.
  Proof.
    intros pre w post x H.
    assert (Hmid : nth_error (pre ++ (x :: w) :: post) (length pre) = Some (x :: w)).
    { rewrite nth_error_app2 by lia. rewrite Nat.sub_diag. reflexivity. }
    split; apply Forall_forall; intros u Hu; destruct u as [|y u]; try reflexivity; exfalso.
    - destruct (In_nth_error _ _ Hu) as [i Hi].
      assert (Hlt : i < length pre) by (apply nth_error_Some; congruence).
      assert (Hi' : nth_error (pre ++ (x :: w) :: post) i = Some (y :: u))
        by (rewrite nth_error_app1 by assumption; exact Hi).
      pose proof (H _ _ _ _ Hi' Hmid ltac:(discriminate) ltac:(discriminate)). lia.
    - destruct (In_nth_error _ _ Hu) as [i Hi].
      assert (Hi' : nth_error (pre ++ (x :: w) :: post) (length pre + S i) = Some (y :: u)).
      { rewrite nth_error_app2 by lia. replace (length pre + S i - length pre) with (S i) by lia. exact Hi. }
      pose proof (H _ _ _ _ Hi' Hmid ltac:(discriminate) ltac:(discriminate)). lia.
  Qed.

  Lemma interleaving_one_busy : forall e ws,
    interleaving e ws -> at_most_one_busy ws -> e = concat ws.
  Proof.
    intros e ws H. induction H as [ws Hall | x e pre w post _ IH]; intros Hb.
    - rewrite concat_all_nil by assumption. reflexivity.
    - destruct (busy_split _ _ _ _ Hb) as [Hpre Hpost].
      rewrite concat_app. cbn [concat]. rewrite (concat_all_nil pre), (concat_all_nil post) by assumption.
      cbn [app]. rewrite app_nil_r. f_equal.
      rewrite IH.
      + rewrite concat_app. cbn [concat].
        rewrite (concat_all_nil pre), (concat_all_nil post) by assumption. cbn [app]. apply app_nil_r.
      + intros i j wi wj Hi Hj Hni Hnj.
        assert (G : forall k u, nth_error (pre ++ w :: post) k = Some u -> u <> [] -> k = length pre).
        { intros k u Hk Hu. destruct (Nat.lt_total k (length pre)) as [L|[L|L]]; [|assumption|]; exfalso.
          - rewrite nth_error_app1 in Hk by assumption. apply nth_error_In in Hk.
            rewrite Forall_forall in Hpre. apply Hu, Hpre, Hk.
          - rewrite nth_error_app2 in Hk by lia. destruct (k - length pre) as [|m] eqn:Em; [lia|].
            cbn in Hk. apply nth_error_In in Hk. rewrite Forall_forall in Hpost. apply Hu, Hpost, Hk. }
        rewrite (G _ _ Hi Hni), (G _ _ Hj Hnj). reflexivity.
  Qed.
End InterleavingFacts.

  (* image of an execution under a step translation that may drop or expand steps *)
  Lemma interleaving_flat_map : forall {A B} (g : A -> list B) e ws,
    interleaving e ws -> interleaving (flat_map g e) (map (flat_map g) ws).
  Proof.
    intros A B g e ws H. induction H as [ws Hall | x e pre w post _ IH].
    - cbn. constructor. apply Forall_forall. intros w Hw. apply in_map_iff in Hw.
      destruct Hw as (w0 & <- & Hin). rewrite Forall_forall in Hall. rewrite (Hall _ Hin). reflexivity.
    - rewrite map_app in *. cbn [map flat_map] in *. apply interleaving_prepend. exact IH.
  Qed.


(* ================================================================ scans *)
Section ScanFacts.
  Context {V : Type} (d : V).

  Lemma scan_seq_map_from : forall (xs : list V) a,
    combine (seq a (length xs)) xs = map (fun i => (i, nth (i - a) xs d)) (seq a (length xs)).
  Proof.
    induction xs as [|x xs IH]; intros a; [reflexivity|].
    cbn [length seq combine map]. rewrite Nat.sub_diag. cbn [nth]. f_equal.
    rewrite IH. apply map_ext_in. intros i Hi. apply in_seq in Hi.
    replace (i - a) with (S (i - S a)) by lia. reflexivity.
  Qed.

  Lemma scan_seq_map : forall xs : list V,
    scan_seq xs = map (fun i => (i, nth i xs d)) (seq 0 (length xs)).
  Proof.
    intros xs. unfold scan_seq. rewrite scan_seq_map_from. apply map_ext. intros i.
    rewrite Nat.sub_0_r. reflexivity.
  Qed.

  (* worker after worker, the parallel scan performs the calls of the sequential scan, in order *)
  Lemma scan_workers_concat : forall xs s, 1 <= s -> concat (scan_workers d xs s) = scan_seq xs.
  Proof.
    intros xs s Hs. unfold scan_workers, scan_worker.
    rewrite <- (map_map span (map (fun i => (i, nth i xs d)))), <- concat_map, <- flat_map_concat_map.
    fold (visited (length xs) s). rewrite visited_eq_seq by assumption. symmetry. apply scan_seq_map.
  Qed.

  Lemma scan_seq_fst : forall xs : list V, map fst (scan_seq xs) = seq 0 (length xs).
  Proof.
    intros. rewrite scan_seq_map, map_map. cbn [fst]. apply map_id.
  Qed.

  Lemma scan_seq_in : forall (xs : list V) i v, In (i, v) (scan_seq xs) <-> nth_error xs i = Some v.
  Proof.
    intros xs i v. rewrite scan_seq_map, in_map_iff. split.
    - intros (k & E & Hk). inversion E; subst. apply in_seq in Hk. apply nth_error_nth'. lia.
    - intros H. exists i. split.
      + f_equal. apply nth_error_nth. exact H.
      + apply in_seq. assert (i < length xs) by (apply nth_error_Some; congruence). lia.
  Qed.

  (* For every schedule: the calls made are exactly those of the sequential scan (as a multiset);
     no index is called twice; every call carries the value stored at its own index. *)
  Theorem scan_any_schedule : forall xs s e,
    1 <= s -> interleaving e (scan_workers d xs s) ->
    Permutation e (scan_seq xs)
    /\ Permutation (map fst e) (seq 0 (length xs))
    /\ NoDup (map fst e)
    /\ (forall i v, In (i, v) e -> nth_error xs i = Some v).
  Proof.
    intros xs s e Hs H. apply interleaving_perm in H. rewrite scan_workers_concat in H by assumption.
    assert (Hf : Permutation (map fst e) (seq 0 (length xs))).
    { rewrite <- scan_seq_fst. apply Permutation_map. exact H. }
    repeat split; try assumption.
    - apply (Permutation_NoDup (Permutation_sym Hf)). apply seq_NoDup.
    - intros i v Hin. apply scan_seq_in. eapply Permutation_in; eassumption.
  Qed.

  (* a scan only reads: steps of different workers never conflict *)
  Theorem scan_no_model_race : forall (ev1 ev2 : nat * V) a1 a2,
    In a1 (scan_accesses ev1) -> In a2 (scan_accesses ev2) -> ~ conflict a1 a2.
  Proof.
    intros ev1 ev2 a1 a2 [<-|[]] [<-|[]] [_ [H|H]]; discriminate.
  Qed.
End ScanFacts.

(* ================================================================ modifications *)
Section ModifyFacts.
  Context {V : Type} (d : V) (f : nat -> V -> V).

  Definition widx (st : @wstep V) : nat := match st with Write i _ => i end.

  Lemma upd_length : forall (l : list V) i v, length (upd l i v) = length l.
  Proof. induction l as [|h t IH]; intros [|i] v; cbn; auto. Qed.

  Lemma upd_same : forall (l : list V) i v, i < length l -> nth_error (upd l i v) i = Some v.
  Proof. induction l as [|h t IH]; intros [|i] v H; cbn in *; try lia; auto. apply IH. lia. Qed.

  Lemma upd_other : forall (l : list V) i j v, i <> j -> nth_error (upd l i v) j = nth_error l j.
  Proof.
    induction l as [|h t IH]; intros [|i] [|j] v H; cbn; try reflexivity; try lia.
    apply IH. lia.
  Qed.

  Lemma run_exec_length : forall e (out : list V), length (run_exec e out) = length out.
  Proof.
    induction e as [|[i v] e IH]; intros out; [reflexivity|].
    cbn [run_exec fold_left do_step]. change (fold_left do_step e ?o) with (run_exec e o).
    rewrite IH. apply upd_length.
  Qed.

  Lemma run_exec_untouched : forall e (out : list V) j,
    ~ In j (map widx e) -> nth_error (run_exec e out) j = nth_error out j.
  Proof.
    induction e as [|[i v] e IH]; intros out j Hj; [reflexivity|].
    cbn [run_exec fold_left do_step]. change (fold_left do_step e ?o) with (run_exec e o).
    cbn [map widx] in Hj. rewrite IH by (intros C; apply Hj; right; exact C).
    apply upd_other. intros ->. apply Hj. left. reflexivity.
  Qed.

  (* writes to pairwise distinct cells: every written cell ends up with the value written to it *)
  Lemma run_exec_written : forall e (out : list V) i v,
    NoDup (map widx e) -> In (Write i v) e -> i < length out ->
    nth_error (run_exec e out) i = Some v.
  Proof.
    induction e as [|[j w] e IH]; intros out i v Hnd Hin Hi; [contradiction|].
    cbn [run_exec fold_left do_step]. change (fold_left do_step e ?o) with (run_exec e o).
    cbn [map widx] in Hnd. inversion Hnd as [|? ? Hnotin Hnd']; subst.
    destruct Hin as [E|Hin].
    - inversion E; subst. rewrite run_exec_untouched by assumption. apply upd_same. exact Hi.
    - apply IH; try assumption. rewrite upd_length. exact Hi.
  Qed.

  Lemma modify_workers_concat : forall xs s, 1 <= s ->
    concat (modify_workers d f xs s) = map (fun i => Write i (f i (nth i xs d))) (seq 0 (length xs)).
  Proof.
    intros xs s Hs. unfold modify_workers, modify_worker.
    rewrite <- (map_map span (map (fun i => Write i (f i (nth i xs d))))), <- concat_map,
      <- flat_map_concat_map.
    fold (visited (length xs) s). rewrite visited_eq_seq by assumption. reflexivity.
  Qed.

  Lemma modify_seq_map : forall xs, modify_seq f xs = map (fun i => f i (nth i xs d)) (seq 0 (length xs)).
  Proof. intros. unfold modify_seq. rewrite (scan_seq_map d), map_map. reflexivity. Qed.

  (* For every schedule the parallel modification returns the array of the sequential one. *)
  Theorem modify_any_schedule : forall z xs s e,
    1 <= s -> interleaving e (modify_workers d f xs s) -> modify_par z xs e = modify_seq f xs.
  Proof.
    intros z xs s e Hs H. apply interleaving_perm in H. rewrite modify_workers_concat in H by assumption.
    set (n := length xs) in *.
    assert (Hidx : Permutation (map widx e) (seq 0 n)).
    { replace (seq 0 n) with (map widx (map (fun i => Write i (f i (nth i xs d))) (seq 0 n))).
      - apply Permutation_map. exact H.
      - rewrite map_map. cbn [widx]. apply map_id. }
    assert (Hnd : NoDup (map widx e)).
    { apply (Permutation_NoDup (Permutation_sym Hidx)). apply seq_NoDup. }
    unfold modify_par. fold n.
    apply (nth_ext _ _ z z).
    - rewrite run_exec_length, repeat_length, modify_seq_map, map_length, seq_length. reflexivity.
    - intros i Hi. rewrite run_exec_length, repeat_length in Hi.
      assert (Hin : In (Write i (f i (nth i xs d))) e).
      { apply (Permutation_in _ (Permutation_sym H)). apply in_map_iff. exists i. split; [reflexivity|].
        apply in_seq. lia. }
      apply nth_error_nth.
      rewrite (run_exec_written e (repeat z n) i _ Hnd Hin) by (rewrite repeat_length; exact Hi).
      f_equal. rewrite modify_seq_map. fold n.
      rewrite (nth_indep _ z ((fun k => f k (nth k xs d)) 0)) by (rewrite map_length, seq_length; exact Hi).
      rewrite (map_nth (fun k => f k (nth k xs d))). rewrite seq_nth by exact Hi. reflexivity.
  Qed.

  (* writes commute: any two executions of the same workers give the same array *)
  Theorem writes_commute : forall z xs s e e',
    1 <= s -> interleaving e (modify_workers d f xs s) -> interleaving e' (modify_workers d f xs s) ->
    modify_par z xs e = modify_par z xs e' /\ modify_par z xs e = modify_seq f xs.
  Proof.
    intros z xs s e e' Hs H H'. rewrite (modify_any_schedule z xs s e), (modify_any_schedule z xs s e') by assumption.
    split; reflexivity.
  Qed.

  (* steps of different workers never touch the same cell with one of them writing:
     worker i reads old[k] and writes modified[k] only for k in its own range *)
  Theorem no_model_race : forall xs s i j wi wj st1 st2 a1 a2,
    i <> j ->
    nth_error (modify_workers d f xs s) i = Some wi -> nth_error (modify_workers d f xs s) j = Some wj ->
    In st1 wi -> In st2 wj -> In a1 (write_accesses st1) -> In a2 (write_accesses st2) ->
    ~ conflict a1 a2.
  Proof.
    intros xs s i j wi wj st1 st2 a1 a2 Hne Hi Hj H1 H2 Ha1 Ha2 [Hloc Hw].
    unfold modify_workers in Hi, Hj.
    destruct (nth_error (ranges (length xs) s) i) as [ri|] eqn:Ei;
      [|rewrite nth_error_map, Ei in Hi; discriminate].
    destruct (nth_error (ranges (length xs) s) j) as [rj|] eqn:Ej;
      [|rewrite nth_error_map, Ej in Hj; discriminate].
    rewrite nth_error_map, Ei in Hi. rewrite nth_error_map, Ej in Hj. cbn in Hi, Hj.
    inversion Hi; subst wi. inversion Hj; subst wj. clear Hi Hj.
    unfold modify_worker in H1, H2. apply in_map_iff in H1. apply in_map_iff in H2.
    destruct H1 as (p & <- & Hp). destruct H2 as (q & <- & Hq).
    assert (Hpq : p <> q).
    { intros ->. exact (ranges_no_shared_index _ _ _ _ _ _ _ Hne Ei Ej Hp Hq). }
    cbn [write_accesses] in Ha1, Ha2.
    destruct Ha1 as [<-|[<-|[]]]; destruct Ha2 as [<-|[<-|[]]]; cbn [fst snd] in *;
      try discriminate; try (inversion Hloc; contradiction).
  Qed.
End ModifyFacts.

(* ================================================================ AddField / AddFieldParallel *)
Lemma flat_map_concat : forall {A B} (g : A -> list B) (l : list (list A)),
  flat_map g (concat l) = concat (map (flat_map g) l).
Proof.
  intros A B g l. induction l as [|w l IH]; [reflexivity|]. cbn [map concat]. rewrite flat_map_app, IH. reflexivity.
Qed.

Lemma filter_concat : forall {A} (p : A -> bool) (l : list (list A)),
  concat (map (filter p) l) = filter p (concat l).
Proof.
  intros A p l. induction l as [|w l IH]; [reflexivity|]. cbn [map concat]. rewrite filter_app, IH. reflexivity.
Qed.

Section CanvasFacts.
  Context {K V : Type} (keqb : K -> K -> bool) (add : V -> V -> V).
  Hypothesis keqb_spec : forall a b, keqb a b = true <-> a = b.

  Lemma keqb_refl : forall a, keqb a a = true.
  Proof. intros. apply keqb_spec. reflexivity. Qed.
  Lemma keqb_neq : forall a b, a <> b -> keqb a b = false.
  Proof. intros a b H. destruct (keqb a b) eqn:E; [|reflexivity]. apply keqb_spec in E. contradiction. Qed.

  (* the content of one cell after an execution: only the steps on that cell's chunk matter *)
  Definition cell_fold (c : Z) (v : V) (a : @astep K V) : V :=
    match a with Acc _ c' x => if (c' =? c)%Z then add v x else v end.

  Lemma run_canvas_cell : forall e (st : canvas) k c,
    run_canvas keqb add e st k c
    = fold_left (cell_fold c) (filter (fun a => keqb (step_key a) k) e) (st k c).
  Proof.
    induction e as [|[k0 c0 v0] e IH]; intros st k c; [reflexivity|].
    cbn [run_canvas fold_left]. change (fold_left (acc_step keqb add) e ?s) with (run_canvas keqb add e s).
    rewrite IH. cbn [filter step_key acc_step].
    destruct (keqb k0 k) eqn:E; cbn [andb fold_left cell_fold]; reflexivity.
  Qed.

  Lemma job_steps_filter : forall (j : K * list (Z * V)) k,
    filter (fun a => keqb (step_key a) k) (job_steps j) = if keqb (fst j) k then job_steps j else [].
  Proof.
    intros [k0 cvs] k. unfold job_steps. cbn [fst snd].
    induction cvs as [|cv cvs IH]; cbn [map filter step_key].
    - destruct (keqb k0 k); reflexivity.
    - rewrite IH. destruct (keqb k0 k); reflexivity.
  Qed.

  Lemma jobs_one_busy : forall (jobs : list (K * list (Z * V))) k,
    NoDup (map fst jobs) ->
    at_most_one_busy (map (filter (fun a => keqb (step_key a) k)) (map job_steps jobs)).
  Proof.
    intros jobs k Hnd i j wi wj Hi Hj Hni Hnj.
    rewrite map_map in Hi, Hj. rewrite nth_error_map in Hi, Hj.
    destruct (nth_error jobs i) as [ji|] eqn:Ei; [|discriminate].
    destruct (nth_error jobs j) as [jj|] eqn:Ej; [|discriminate].
    cbn in Hi, Hj. rewrite job_steps_filter in Hi, Hj.
    destruct (keqb (fst ji) k) eqn:Ki; [|inversion Hi; subst; contradiction].
    destruct (keqb (fst jj) k) eqn:Kj; [|inversion Hj; subst; contradiction].
    apply keqb_spec in Ki. apply keqb_spec in Kj.
    apply (proj1 (NoDup_nth_error (map fst jobs)) Hnd).
    - rewrite map_length. apply nth_error_Some. congruence.
    - rewrite !nth_error_map, Ei, Ej. cbn. congruence.
  Qed.

  (* For every schedule of the per-chunk jobs (distinct (attribute, chunk) keys, as dispatched by
     AddFieldParallel) every cell of every chunk ends with exactly the value the sequential
     AddField computes (jobs one after the other, in dispatch order).  `add` is arbitrary. *)
  Theorem addfield_any_schedule : forall (jobs : list (K * list (Z * V))) e st,
    NoDup (map fst jobs) -> interleaving e (map job_steps jobs) ->
    forall k c, run_canvas keqb add e st k c
                = run_canvas keqb add (concat (map job_steps jobs)) st k c.
  Proof.
    intros jobs e st Hnd H k c. rewrite !run_canvas_cell. f_equal.
    pose proof (interleaving_filter (fun a => keqb (step_key a) k) _ _ H) as Hf.
    rewrite (interleaving_one_busy _ _ Hf (jobs_one_busy jobs k Hnd)).
    apply filter_concat.
  Qed.

  (* jobs of different chunks never touch a common cell *)
  Theorem addfield_no_model_race : forall (jobs : list (K * list (Z * V))) i j ji jj a b,
    NoDup (map fst jobs) -> i <> j -> nth_error jobs i = Some ji -> nth_error jobs j = Some jj ->
    In a (job_steps ji) -> In b (job_steps jj) -> step_key a <> step_key b.
  Proof.
    intros jobs i j ji jj a b Hnd Hne Hi Hj Ha Hb.
    unfold job_steps in Ha, Hb. apply in_map_iff in Ha. apply in_map_iff in Hb.
    destruct Ha as (? & <- & _). destruct Hb as (? & <- & _). cbn [step_key].
    intros E. apply Hne. apply (proj1 (NoDup_nth_error (map fst jobs)) Hnd).
    - rewrite map_length. apply nth_error_Some. congruence.
    - rewrite !nth_error_map, Hi, Hj. cbn. congruence.
  Qed.

  (* ---------------- the chunk table kept under chunkMutex refines the keyed canvas *)
  Variable zero : V.
  Notation lookup := (lookup keqb).
  Notation view := (view keqb zero).

  Definition twf (t : @table K V) : Prop :=
    (forall k i, lookup k (positions t) = Some i -> i < length (chunks t))
    /\ (forall k k' i, lookup k (positions t) = Some i -> lookup k' (positions t) = Some i -> k = k').

  Definition canvas_eq (a b : @canvas K V) : Prop := forall k c, a k c = b k c.

  Lemma fetch_lookup_same : forall k t, exists i, lookup k (positions (fetch keqb zero k t)) = Some i.
  Proof.
    intros k t. unfold fetch. destruct (lookup k (positions t)) as [i|] eqn:E.
    - exists i. exact E.
    - cbn [positions Interleave.lookup]. rewrite keqb_refl. eexists. reflexivity.
  Qed.

  Lemma fetch_twf : forall k t, twf t -> twf (fetch keqb zero k t).
  Proof.
    intros k t [Hb Hi]. unfold fetch. destruct (lookup k (positions t)) as [i|] eqn:E; [split; assumption|].
    split; cbn [positions chunks Interleave.lookup].
    - intros k1 i1. rewrite app_length. cbn [length]. destruct (keqb k1 k).
      + intros [= <-]. lia.
      + intros H. apply Hb in H. lia.
    - intros k1 k2 i1. destruct (keqb k1 k) eqn:E1; destruct (keqb k2 k) eqn:E2.
      + apply keqb_spec in E1. apply keqb_spec in E2. congruence.
      + intros [= <-] H. apply Hb in H. lia.
      + intros H [= <-]. apply Hb in H. lia.
      + apply Hi.
  Qed.

  Lemma fetch_view : forall k t, twf t -> canvas_eq (view (fetch keqb zero k t)) (view t).
  Proof.
    intros k t [Hb Hi] k1 c. unfold fetch. destruct (lookup k (positions t)) as [i|] eqn:E; [reflexivity|].
    unfold Interleave.view. cbn [positions chunks Interleave.lookup].
    destruct (keqb k1 k) eqn:E1.
    - apply keqb_spec in E1. subst k1. rewrite E. rewrite app_nth2 by lia. rewrite Nat.sub_diag. reflexivity.
    - destruct (lookup k1 (positions t)) as [i1|] eqn:E2; [|reflexivity].
      rewrite app_nth1 by (eapply Hb; eassumption). reflexivity.
  Qed.

  Lemma upd_chunk_length : forall cs i c v, length (upd_chunk add cs i c v) = length cs.
  Proof. induction cs as [|h t IH]; intros [|i] c v; cbn; auto. Qed.

  Lemma upd_chunk_same : forall cs i c v dflt c', i < length cs ->
    nth i (upd_chunk add cs i c v) dflt c'
    = if (c =? c')%Z then add (nth i cs dflt c') v else nth i cs dflt c'.
  Proof.
    induction cs as [|h t IH]; intros [|i] c v dflt c' H; cbn in *; try lia; [reflexivity|].
    apply IH. lia.
  Qed.

  Lemma upd_chunk_other : forall cs i j c v dflt, i <> j ->
    nth j (upd_chunk add cs i c v) dflt = nth j cs dflt.
  Proof.
    induction cs as [|h t IH]; intros [|i] [|j] c v dflt H; cbn; try reflexivity; try lia.
    apply IH. lia.
  Qed.

  Lemma table_step_sim : forall t a, twf t ->
    twf (table_step keqb add zero t a)
    /\ canvas_eq (view (table_step keqb add zero t a))
                 (run_canvas keqb add (erase a) (view t)).
  Proof.
    intros t [k|k c v] Hwf; cbn [table_step erase run_canvas fold_left].
    - split; [apply fetch_twf; assumption | apply fetch_view; assumption].
    - pose proof (fetch_twf k t Hwf) as Hwf'. pose proof (fetch_view k t Hwf) as Hv.
      destruct (fetch_lookup_same k t) as [i Ei]. rewrite Ei.
      set (t' := fetch keqb zero k t) in *. destruct Hwf' as [Hb Hinj].
      split.
      + split; cbn [positions chunks]; [|exact Hinj].
        intros k1 i1 H. rewrite upd_chunk_length. eapply Hb; eassumption.
      + intros k1 c1. cbn [acc_step]. rewrite <- (Hv k1 c1).
        unfold Interleave.view. cbn [positions chunks].
        destruct (keqb k k1) eqn:E.
        * apply keqb_spec in E. subst k1. rewrite Ei. cbn [andb].
          apply upd_chunk_same. eapply Hb; eassumption.
        * cbn [andb]. destruct (lookup k1 (positions t')) as [i1|] eqn:E1; [|reflexivity].
          rewrite upd_chunk_other; [reflexivity|].
          intros ->. rewrite (Hinj _ _ _ Ei E1), keqb_refl in E. discriminate.
  Qed.

  Lemma run_canvas_ext : forall e (a b : @canvas K V),
    canvas_eq a b -> canvas_eq (run_canvas keqb add e a) (run_canvas keqb add e b).
  Proof.
    intros e a b H k c. rewrite !run_canvas_cell. rewrite (H k c). reflexivity.
  Qed.

  Lemma run_canvas_app : forall e1 e2 (st : @canvas K V),
    run_canvas keqb add (e1 ++ e2) st = run_canvas keqb add e2 (run_canvas keqb add e1 st).
  Proof. intros. unfold run_canvas. apply fold_left_app. Qed.

  (* any sequence of table steps, read through the table, is the keyed canvas run on the same adds *)
  Lemma run_table_sim : forall e t, twf t ->
    twf (run_table keqb add zero e t)
    /\ canvas_eq (view (run_table keqb add zero e t))
                 (run_canvas keqb add (flat_map erase e) (view t)).
  Proof.
    induction e as [|a e IH]; intros t Hwf.
    - split; [assumption|]. intros k c. reflexivity.
    - cbn [run_table fold_left flat_map].
      change (fold_left (table_step keqb add zero) e ?s) with (run_table keqb add zero e s).
      destruct (table_step_sim t a Hwf) as [Hwf1 Hv1]. destruct (IH _ Hwf1) as [Hwf2 Hv2].
      split; [assumption|]. intros k c. rewrite (Hv2 k c). rewrite run_canvas_app.
      apply run_canvas_ext. exact Hv1.
  Qed.

  Lemma job_tsteps_erase : forall j : K * list (Z * V), flat_map erase (job_tsteps j) = job_steps j.
  Proof.
    intros [k cvs]. unfold job_tsteps, job_steps. cbn [fst snd flat_map erase app].
    induction cvs as [|cv cvs IH]; [reflexivity|]. cbn [map flat_map erase app]. rewrite IH. reflexivity.
  Qed.

  (* AddFieldParallel with the real bookkeeping: chunks are allocated in whatever order the jobs
     reach chunkIndex_atomic (so their slots in float1Data differ from run to run), yet what the
     canvas holds for every (attribute, chunk, cell) is what the sequential AddField leaves there *)
  Theorem addfield_table_any_schedule : forall (jobs : list (K * list (Z * V))) e t,
    twf t -> NoDup (map fst jobs) -> interleaving e (map job_tsteps jobs) ->
    canvas_eq (view (run_table keqb add zero e t))
              (view (run_table keqb add zero (concat (map job_tsteps jobs)) t)).
  Proof.
    intros jobs e t Hwf Hnd H k c.
    destruct (run_table_sim e t Hwf) as [_ H1].
    destruct (run_table_sim (concat (map job_tsteps jobs)) t Hwf) as [_ H2].
    rewrite (H1 k c), (H2 k c).
    pose proof (interleaving_flat_map erase _ _ H) as Hi. rewrite map_map in Hi.
    rewrite (map_ext _ _ job_tsteps_erase) in Hi.
    rewrite (addfield_any_schedule jobs _ (view t) Hnd Hi k c).
    f_equal. rewrite flat_map_concat, map_map. rewrite (map_ext _ _ job_tsteps_erase). reflexivity.
  Qed.

  Lemma twf_empty : twf {| positions := []; chunks := [] |}.
  Proof. split; cbn; intros; discriminate. Qed.
End CanvasFacts.

(* ================================================================ March / MarchParallel *)
Section MarchFacts.
  Context {P : Type} (d : P).
  Notation bmesh := (@bmesh P).

  Lemma bappend_wf : forall m o : bmesh, bwf m -> bwf o -> bwf (bappend m o).
  Proof.
    intros m o Hm Ho. unfold bwf, bappend in *. cbn [verts tris]. rewrite app_length.
    apply Forall_app. split.
    - eapply Forall_impl; [|exact Hm]. intros [[a b] c]. lia.
    - apply Forall_forall. intros t Ht. apply in_map_iff in Ht. destruct Ht as ([[a b] c] & <- & Hin).
      rewrite Forall_forall in Ho. specialize (Ho _ Hin). cbn in *. lia.
  Qed.

  (* appending keeps the triangles of both meshes, as position triples *)
  Lemma resolve_bappend : forall m o : bmesh, bwf m -> resolve d (bappend m o) = resolve d m ++ resolve d o.
  Proof.
    intros m o Hm. unfold resolve, bappend. cbn [verts tris]. rewrite map_app, map_map. f_equal.
    - apply map_ext_in. intros [[a b] c] Hin. unfold bwf in Hm. rewrite Forall_forall in Hm.
      specialize (Hm _ Hin). cbn in Hm. rewrite !app_nth1 by lia. reflexivity.
    - apply map_ext. intros [[a b] c]. cbn [shift3].
      rewrite !app_nth2 by lia. replace (a + length (verts m) - length (verts m)) with a by lia.
      replace (b + length (verts m) - length (verts m)) with b by lia.
      replace (c + length (verts m) - length (verts m)) with c by lia. reflexivity.
  Qed.

  Lemma resolve_fold : forall (l : list bmesh) (m : bmesh), bwf m -> Forall (@bwf P) l ->
    bwf (fold_left bappend l m) /\ resolve d (fold_left bappend l m) = resolve d m ++ flat_map (resolve d) l.
  Proof.
    induction l as [|o l IH]; intros m Hm Hl.
    - cbn. rewrite app_nil_r. split; [assumption|reflexivity].
    - inversion Hl; subst. cbn [fold_left flat_map].
      destruct (IH (bappend m o) (bappend_wf _ _ Hm H1) H2) as [Hw He].
      split; [assumption|]. rewrite He, resolve_bappend by assumption. rewrite app_assoc. reflexivity.
  Qed.

  Lemma bempty_wf : bwf (@bempty P).
  Proof. constructor. Qed.

  (* the merged mesh consists of the triangles of the blocks, block after block *)
  Theorem march_fold_triangles : forall blocks : list bmesh, Forall (@bwf P) blocks ->
    resolve d (march_fold blocks) = flat_map (resolve d) blocks.
  Proof.
    intros blocks H. unfold march_fold. destruct (resolve_fold blocks bempty bempty_wf H) as [_ E].
    rewrite E. reflexivity.
  Qed.

  (* whatever order the block meshes arrive in on the result channel (and whatever order the map
     iteration of the sequential variant produces), the merged mesh has the same triangle multiset *)
  Theorem march_parallel_multiset : forall blocks arrival : list bmesh,
    Forall (@bwf P) blocks -> Permutation arrival blocks ->
    Permutation (resolve d (march_fold arrival)) (resolve d (march_fold blocks)).
  Proof.
    intros blocks arrival Hw Hp.
    assert (Hw' : Forall (@bwf P) arrival).
    { apply Forall_forall. intros m Hm. rewrite Forall_forall in Hw. apply Hw.
      eapply Permutation_in; eassumption. }
    rewrite !march_fold_triangles by assumption. apply Permutation_flat_map. exact Hp.
  Qed.

  (* the arrival order of an execution in which every block job is one `results <- mesh` step *)
  Corollary march_any_schedule : forall (blocks e : list bmesh),
    Forall (@bwf P) blocks -> interleaving e (map (fun m => [m]) blocks) ->
    Permutation (resolve d (march_fold e)) (resolve d (march_fold blocks)).
  Proof.
    intros blocks e Hw H. apply march_parallel_multiset; [assumption|].
    apply interleaving_perm in H. rewrite <- flat_map_concat_map in H.
    replace (flat_map (fun m => [m]) blocks) with blocks in H; [exact H|].
    clear. induction blocks as [|m l IH]; [reflexivity|]. cbn. rewrite <- IH. reflexivity.
  Qed.
End MarchFacts.

(* ================================================================ chunk arithmetic of the canvas *)
Lemma nodup_app : forall {A} (l1 l2 : list A),
  NoDup l1 -> NoDup l2 -> (forall x, In x l1 -> In x l2 -> False) -> NoDup (l1 ++ l2).
Proof.
  intros A l1 l2 H1 H2 Hd. induction H1 as [|a l1 Hn _ IH]; [exact H2|].
  cbn [app]. constructor.
  - intros Hin. apply in_app_or in Hin. destruct Hin as [Hin|Hin]; [contradiction|].
    apply (Hd a); [left; reflexivity|exact Hin].
  - apply IH. intros x Hx. apply Hd. right. exact Hx.
Qed.

Section ChunkFacts.
  Open Scope Z_scope.
  Ltac Zify.zify_post_hook ::= Z.div_mod_to_equations.

  Lemma in_zspan : forall a b x, In x (zspan a b) <-> a <= x < b.
  Proof.
    intros a b x. unfold zspan. rewrite in_map_iff. split.
    - intros (k & <- & Hk). apply in_seq in Hk. lia.
    - intros H. exists (Z.to_nat (x - a)). split; [lia|]. apply in_seq. lia.
  Qed.

  Lemma in_zrange : forall lo n x, In x (zrange lo n) <-> lo <= x < lo + Z.of_nat n.
  Proof.
    intros lo n x. unfold zrange. rewrite in_map_iff. split.
    - intros (k & <- & Hk). apply in_seq in Hk. lia.
    - intros H. exists (Z.to_nat (x - lo)). split; [lia|]. apply in_seq. lia.
  Qed.

  Lemma zrange_nodup : forall lo n, NoDup (zrange lo n).
  Proof.
    intros lo n. unfold zrange. apply FinFun.Injective_map_NoDup; [|apply seq_NoDup].
    intros a b H. lia.
  Qed.

  (* one axis: a coordinate of the field's box is written by the job of its own chunk only *)
  Lemma axis_cells_spec : forall c lo hi x,
    In x (axis_cells c lo hi) <-> (lo <= x < hi /\ chunk_of x = c).
  Proof.
    intros c lo hi x. unfold axis_cells, axis_lo, axis_hi, chunk_of, section_size.
    rewrite in_zspan. split; intros H; lia.
  Qed.

  Lemma chunk_of_mono : forall a b, a <= b -> chunk_of a <= chunk_of b.
  Proof. intros. unfold chunk_of, section_size. lia. Qed.

  Definition in_box (p mn mx : vec) : Prop :=
    let '(x, y, z) := p in let '(x0, y0, z0) := mn in let '(x1, y1, z1) := mx in
    x0 <= x < x1 /\ y0 <= y < y1 /\ z0 <= z < z1.

  (* addFloat1Range of chunk c writes exactly the positions of the box that lie in chunk c *)
  Theorem job_positions_spec : forall c mn mx p,
    In p (job_positions c mn mx) <-> (in_box p mn mx /\ chunk_pos p = c).
  Proof.
    intros [[cx cy] cz] [[x0 y0] z0] [[x1 y1] z1] [[x y] z]. unfold job_positions, in_box, chunk_pos.
    rewrite in_flat_map. split.
    - intros (z' & Hz & H). apply in_flat_map in H. destruct H as (y' & Hy & H).
      apply in_map_iff in H. destruct H as (x' & E & Hx). inversion E; subst.
      apply axis_cells_spec in Hx, Hy, Hz. intuition congruence.
    - intros ((Hx & Hy & Hz) & E). inversion E; subst. exists z. split; [apply axis_cells_spec; tauto|].
      apply in_flat_map. exists y. split; [apply axis_cells_spec; tauto|].
      apply in_map_iff. exists x. split; [reflexivity|apply axis_cells_spec; tauto].
  Qed.

  Lemma vec_eqb_spec : forall a b, vec_eqb a b = true <-> a = b.
  Proof.
    intros [[ax ay] az] [[bx by_] bz]. unfold vec_eqb. rewrite !andb_true_iff, !Z.eqb_eq.
    split; [intros [[-> ->] ->]; reflexivity | intros [= -> -> ->]; auto].
  Qed.

  Lemma in_chunk_sections : forall mn mx c,
    (let '(x0, y0, z0) := chunk_pos mn in let '(x1, y1, z1) := chunk_pos mx in
     x0 <= x1 /\ y0 <= y1 /\ z0 <= z1) ->
    (In c (chunk_sections mn mx) <->
     let '(cx, cy, cz) := c in let '(x0, y0, z0) := chunk_pos mn in let '(x1, y1, z1) := chunk_pos mx in
     (x0 <= cx <= x1 /\ y0 <= cy <= y1 /\ z0 <= cz <= z1)).
  Proof.
    intros mn mx [[cx cy] cz]. unfold chunk_sections.
    destruct (chunk_pos mn) as [[x0 y0] z0]. destruct (chunk_pos mx) as [[x1 y1] z1].
    intros (Lx & Ly & Lz).
    destruct (vec_eqb (x0, y0, z0) (x1, y1, z1)) eqn:E.
    - apply vec_eqb_spec in E. inversion E; subst. cbn [In]. split.
      + intros [H|[]]. inversion H; subst. lia.
      + intros H. left. f_equal; [f_equal|]; lia.
    - rewrite in_flat_map. split.
      + intros (x & Hx & H). apply in_flat_map in H. destruct H as (y & Hy & H).
        apply in_map_iff in H. destruct H as (z & Ez & Hz). inversion Ez; subst.
        apply in_zrange in Hx, Hy, Hz. lia.
      + intros (Hx & Hy & Hz). exists cx. split; [apply in_zrange; lia|].
        apply in_flat_map. exists cy. split; [apply in_zrange; lia|].
        apply in_map_iff. exists cz. split; [reflexivity|apply in_zrange; lia].
  Qed.

  (* every position of a non-empty box belongs to a chunk that gets a job *)
  Theorem chunk_sections_complete : forall mn mx p,
    in_box p mn mx -> In (chunk_pos p) (chunk_sections mn mx).
  Proof.
    intros [[x0 y0] z0] [[x1 y1] z1] [[x y] z] (Hx & Hy & Hz).
    pose proof (chunk_of_mono x0 x ltac:(lia)). pose proof (chunk_of_mono x x1 ltac:(lia)).
    pose proof (chunk_of_mono y0 y ltac:(lia)). pose proof (chunk_of_mono y y1 ltac:(lia)).
    pose proof (chunk_of_mono z0 z ltac:(lia)). pose proof (chunk_of_mono z z1 ltac:(lia)).
    apply in_chunk_sections; cbn [chunk_pos]; lia.
  Qed.

  (* no chunk gets two jobs for the same attribute *)
  Theorem chunk_sections_nodup : forall mn mx, NoDup (chunk_sections mn mx).
  Proof.
    intros mn mx. unfold chunk_sections.
    destruct (chunk_pos mn) as [[x0 y0] z0]. destruct (chunk_pos mx) as [[x1 y1] z1].
    destruct (vec_eqb (x0, y0, z0) (x1, y1, z1)); [constructor; [intros []|constructor]|].
    generalize (zrange_nodup x0 (Z.to_nat (x1 - x0 + 1))).
    generalize (zrange x0 (Z.to_nat (x1 - x0 + 1))) as xs.
    pose proof (zrange_nodup y0 (Z.to_nat (y1 - y0 + 1))) as Hys. revert Hys.
    generalize (zrange y0 (Z.to_nat (y1 - y0 + 1))) as ys.
    pose proof (zrange_nodup z0 (Z.to_nat (z1 - z0 + 1))) as Hzs. revert Hzs.
    generalize (zrange z0 (Z.to_nat (z1 - z0 + 1))) as zs.
    intros zs Hzs ys Hys xs Hxs.
    assert (Hyz : forall x : Z, NoDup (flat_map (fun y => map (fun z => (x, y, z)) zs) ys)).
    { intros x. clear Hxs. induction Hys as [|y ys Hn _ IH]; [constructor|].
      cbn [flat_map]. apply nodup_app; [| exact IH |].
      - apply FinFun.Injective_map_NoDup; [|exact Hzs]. intros a b [= ->]. reflexivity.
      - intros p Hp Hq. apply in_map_iff in Hp. destruct Hp as (z & <- & _).
        apply in_flat_map in Hq. destruct Hq as (y' & Hy' & Hq). apply in_map_iff in Hq.
        destruct Hq as (z' & [= -> ->] & _). contradiction. }
    induction Hxs as [|x xs Hn _ IH]; [constructor|].
    cbn [flat_map]. apply nodup_app; [apply Hyz | exact IH |].
    intros p Hp Hq. apply in_flat_map in Hp. destruct Hp as (y & _ & Hp). apply in_map_iff in Hp.
    destruct Hp as (z & <- & _). apply in_flat_map in Hq. destruct Hq as (x' & Hx' & Hq).
    apply in_flat_map in Hq. destruct Hq as (y' & _ & Hq). apply in_map_iff in Hq.
    destruct Hq as (z' & [= -> -> ->] & _). contradiction.
  Qed.

  (* inside its chunk a position has a cell index in [0, 100^3), and different positions of the
     same chunk have different cells: a job never adds twice into one cell *)
  Theorem cell_index_range : forall p, 0 <= cell_index (chunk_pos p) p < 1000000.
  Proof.
    intros [[x y] z]. unfold cell_index, chunk_pos, chunk_of, section_size. lia.
  Qed.

  Theorem cell_index_inj : forall c p q,
    chunk_pos p = c -> chunk_pos q = c -> cell_index c p = cell_index c q -> p = q.
  Proof.
    intros [[cx cy] cz] [[x y] z] [[x' y'] z']. unfold cell_index, chunk_pos, chunk_of, section_size.
    intros [= <- <- <-] [= E1 E2 E3] H.
    assert (x = x' /\ y = y' /\ z = z') as (-> & -> & ->) by lia. reflexivity.
  Qed.
End ChunkFacts.

(* ================================================================ round robin is an execution too *)
Section RoundRobin.
  Context {A : Type}.

  Lemma heads_round : forall (ws pre : list (list A)) e,
    interleaving e (pre ++ tails ws) -> interleaving (heads ws ++ e) (pre ++ ws).
  Proof.
    induction ws as [|w ws IH]; intros pre e H; [exact H|].
    destruct w as [|x t]; cbn [tails map tl heads flat_map app] in *.
    - replace (pre ++ [] :: ws) with ((pre ++ [[]]) ++ ws) by (rewrite <- app_assoc; reflexivity).
      apply IH. rewrite <- app_assoc. exact H.
    - constructor.
      replace (pre ++ t :: ws) with ((pre ++ [t]) ++ ws) by (rewrite <- app_assoc; reflexivity).
      apply IH. rewrite <- app_assoc. exact H.
  Qed.

  Lemma longest_zero : forall ws : list (list A), longest ws = 0 -> Forall (fun w => w = []) ws.
  Proof.
    induction ws as [|w ws IH]; intros H; [constructor|].
    change (longest (w :: ws)) with (Nat.max (length w) (longest ws)) in H. constructor.
    - destruct w; [reflexivity|]. cbn [length] in H.
      destruct (Nat.max_spec (S (length w)) (longest ws)) as [[? E]|[? E]]; rewrite E in H; lia.
    - apply IH. destruct (Nat.max_spec (length w) (longest ws)) as [[? E]|[? E]]; rewrite E in H; lia.
  Qed.

  Lemma longest_tails : forall ws : list (list A), longest (tails ws) = longest ws - 1.
  Proof.
    induction ws as [|w ws IH]; [reflexivity|].
    change (longest (tails (w :: ws))) with (Nat.max (length (tl w)) (longest (tails ws))).
    change (longest (w :: ws)) with (Nat.max (length w) (longest ws)). rewrite IH.
    destruct w as [|x t]; cbn [tl length].
    - rewrite !Nat.max_0_l. reflexivity.
    - destruct (Nat.max_spec (length t) (longest ws - 1)) as [[? ->]|[? ->]];
        destruct (Nat.max_spec (S (length t)) (longest ws)) as [[? ->]|[? ->]]; lia.
  Qed.

  Lemma sched_rr_interleaving : forall fuel (ws : list (list A)),
    longest ws <= fuel -> interleaving (sched_rr fuel ws) ws.
  Proof.
    induction fuel as [|k IH]; intros ws H.
    - cbn. constructor. apply longest_zero. lia.
    - cbn [sched_rr]. apply (heads_round ws []). cbn [app]. apply IH. rewrite longest_tails. lia.
  Qed.

  Lemma sched_round_robin_interleaving : forall ws : list (list A), interleaving (sched_round_robin ws) ws.
  Proof. intros. apply sched_rr_interleaving. constructor. Qed.
End RoundRobin.
