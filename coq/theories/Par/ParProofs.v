(* C10 proofs: partition exactness, schedule independence of scans / modifications / field
   accumulation / block-mesh appends, absence of conflicting accesses in the model. *)
From Coq Require Import List Arith ZArith Bool Lia Permutation.
From Coq Require Import ZifyNat ZifyBool.
From PF Require Import Par.Partition Par.Interleave.
Import ListNotations.

(* ================================================================ partition *)
Lemma span_seq : forall a b, span (a, b) = seq a (b - a).
Proof. reflexivity. Qed.

Lemma blocks_seq : forall ws k, flat_map (fun i => seq (ws * i) ws) (seq 0 k) = seq 0 (ws * k).
Proof.
  intros ws k. induction k as [|k IH].
  - rewrite Nat.mul_0_r. reflexivity.
  - rewrite seq_S, flat_map_app, IH. cbn [flat_map]. rewrite app_nil_r.
    replace (ws * S k) with (ws * k + ws) by lia. rewrite seq_app. reflexivity.
Qed.

Lemma visited_unfold : forall n s,
  visited n s = flat_map (fun i => span (range_of (job n s i))) (seq 0 s).
Proof.
  intros. unfold visited, ranges, jobs. rewrite !flat_map_concat_map, !map_map. reflexivity.
Qed.

Lemma work_size_le : forall n s, work_size n s * (s - 1) <= n.
Proof.
  intros n s. unfold work_size. destruct s as [|s]; [cbn; lia|].
  pose proof (Nat.mul_div_le n (S s) ltac:(lia)). nia.
Qed.

(* the strongest statement: worker after worker, the indices are exactly 0, 1, ..., n-1 in order *)
Theorem visited_eq_seq : forall n s, 1 <= s -> visited n s = seq 0 n.
Proof.
  intros n s Hs. rewrite visited_unfold.
  destruct s as [|k]; [lia|]. rewrite seq_S, flat_map_app. cbn [flat_map]. rewrite app_nil_r.
  set (ws := work_size n (S k)).
  assert (E1 : flat_map (fun i => span (range_of (job n (S k) i))) (seq 0 k)
               = flat_map (fun i => seq (ws * i) ws) (seq 0 k)).
  { rewrite !flat_map_concat_map. f_equal. apply map_ext_in. intros i Hi. apply in_seq in Hi.
    unfold job, range_of, span. fold ws. cbn [fst snd].
    replace (i =? S k - 1) with false by (symmetry; apply Nat.eqb_neq; lia).
    f_equal. lia. }
  rewrite E1, blocks_seq. cbn [plus].
  unfold job, range_of, span. fold ws. cbn [fst snd].
  replace (k =? S k - 1) with true by (symmetry; apply Nat.eqb_eq; lia).
  pose proof (work_size_le n (S k)) as Hle. fold ws in Hle. replace (S k - 1) with k in Hle by lia.
  replace (ws * k + (n - ws * k) - ws * k) with (n - ws * k) by lia.
  rewrite <- seq_app. f_equal. lia.
Qed.

Theorem partition_exact : forall n s, 1 <= s -> Permutation (visited n s) (seq 0 n).
Proof. intros. rewrite visited_eq_seq by assumption. apply Permutation_refl. Qed.

Lemma visited_nodup : forall n s, 1 <= s -> NoDup (visited n s).
Proof. intros. rewrite visited_eq_seq by assumption. apply seq_NoDup. Qed.

(* closed form of worker i's range *)
Lemma ranges_nth : forall n s i, i < s ->
  nth_error (ranges n s) i
  = Some (work_size n s * i, if i =? s - 1 then n else work_size n s * i + work_size n s).
Proof.
  intros n s i Hi. unfold ranges, jobs. rewrite map_map.
  rewrite (map_nth_error _ i (seq 0 s) (d := i)).
  - unfold range_of, job. cbn [fst snd]. f_equal. f_equal.
    destruct (i =? s - 1) eqn:E; [|reflexivity].
    apply Nat.eqb_eq in E. subst i. pose proof (work_size_le n s). lia.
  - rewrite nth_error_nth' with (d := 0) by (rewrite seq_length; lia).
    rewrite seq_nth by lia. reflexivity.
Qed.

Lemma ranges_length : forall n s, length (ranges n s) = s.
Proof. intros. unfold ranges, jobs. rewrite !map_length, seq_length. reflexivity. Qed.

(* every range is well formed and inside [0, n] *)
Theorem ranges_bounds : forall n s i a b,
  nth_error (ranges n s) i = Some (a, b) -> a <= b /\ b <= n.
Proof.
  intros n s i a b H.
  assert (Hi : i < s). { rewrite <- (ranges_length n s). apply nth_error_Some. congruence. }
  rewrite ranges_nth in H by assumption. inversion H; subst; clear H.
  pose proof (work_size_le n s) as Hle.
  destruct (i =? s - 1) eqn:E.
  - apply Nat.eqb_eq in E. subst i. lia.
  - apply Nat.eqb_neq in E. split; [lia|].
    assert (work_size n s * (i + 1) <= work_size n s * (s - 1)) by (apply Nat.mul_le_mono_l; lia). lia.
Qed.

(* ranges of different workers do not overlap: the earlier one ends before the later one starts *)
Theorem ranges_disjoint : forall n s i j a b c e,
  i < j -> nth_error (ranges n s) i = Some (a, b) -> nth_error (ranges n s) j = Some (c, e) -> b <= c.
Proof.
  intros n s i j a b c e Hij Hi Hj.
  assert (Hjs : j < s). { rewrite <- (ranges_length n s). apply nth_error_Some. congruence. }
  rewrite ranges_nth in Hi by lia. rewrite ranges_nth in Hj by lia.
  inversion Hi; subst; clear Hi. inversion Hj; subst; clear Hj.
  replace (i =? s - 1) with false by (symmetry; apply Nat.eqb_neq; lia).
  assert (work_size n s * (i + 1) <= work_size n s * j) by (apply Nat.mul_le_mono_l; lia). lia.
Qed.

Lemma in_span : forall a b x, In x (span (a, b)) <-> a <= x < b.
Proof. intros. unfold span. cbn [fst snd]. rewrite in_seq. lia. Qed.

(* no index belongs to two workers *)
Corollary ranges_no_shared_index : forall n s i j ri rj x,
  i <> j -> nth_error (ranges n s) i = Some ri -> nth_error (ranges n s) j = Some rj ->
  In x (span ri) -> In x (span rj) -> False.
Proof.
  intros n s i j [a b] [c e] x Hne Hi Hj Hx Hy. apply in_span in Hx. apply in_span in Hy.
  destruct (Nat.lt_total i j) as [L|[L|L]]; [|contradiction|].
  - pose proof (ranges_disjoint _ _ _ _ _ _ _ _ L Hi Hj). lia.
  - pose proof (ranges_disjoint _ _ _ _ _ _ _ _ L Hj Hi). lia.
Qed.

(* pool size 1 and the general case agree; pool size 0 is the declared panic *)
Theorem par_indices_spec : forall n s, par_indices n s = if s =? 0 then None else Some (seq 0 n).
Proof.
  intros n s. unfold par_indices. destruct (s =? 0) eqn:E0; [reflexivity|].
  destruct (s =? 1); [reflexivity|]. rewrite visited_eq_seq; [reflexivity|].
  apply Nat.eqb_neq in E0. lia.
Qed.

(* the pinned ScanPrimitivesParallelWithPoolSize (before 6ab50c7) loses primitives *)
Theorem scan_prims_refuted : exists n s, 1 <= s /\ visited_pinned n s <> seq 0 n.
Proof. exists 10, 3. split; [lia|]. vm_compute. discriminate. Qed.

Lemma visited_pinned_10_3 : visited_pinned 10 3 = [0; 1; 2].
Proof. vm_compute. reflexivity. Qed.

(* Go-int version of the partition: agrees with the nat model on non-negative counts ... *)
Lemma seq_add : forall n a, seq a n = map (fun k => a + k) (seq 0 n).
Proof.
  induction n as [|n IH]; intros a; [reflexivity|].
  cbn [seq map]. rewrite Nat.add_0_r. f_equal. rewrite IH, <- seq_shift, map_map.
  apply map_ext. intros. lia.
Qed.

Lemma zspan_nat : forall a b, zspan (Z.of_nat a) (Z.of_nat b) = map Z.of_nat (seq a (b - a)).
Proof.
  intros a b. unfold zspan. replace (Z.to_nat (Z.of_nat b - Z.of_nat a)) with (b - a) by lia.
  rewrite (seq_add (b - a) a), map_map. apply map_ext. intros. lia.
Qed.

Theorem visitedZ_nat : forall n s, 1 <= s -> visitedZ (Z.of_nat n) s = map Z.of_nat (visited n s).
Proof.
  intros n s Hs. rewrite visited_unfold. unfold visitedZ.
  rewrite !flat_map_concat_map, concat_map, map_map. f_equal. apply map_ext_in.
  intros i Hi. apply in_seq in Hi.
  assert (Ews : (Z.of_nat n / Z.of_nat s)%Z = Z.of_nat (work_size n s)).
  { unfold work_size. rewrite Nat2Z.inj_div. reflexivity. }
  rewrite Ews. unfold job, range_of, span. cbn [fst snd].
  pose proof (work_size_le n s) as Hle.
  destruct (i =? s - 1) eqn:E.
  - apply Nat.eqb_eq in E. subst i.
    replace (Z.of_nat (work_size n s) * Z.of_nat (s - 1)
             + (Z.of_nat n - Z.of_nat (work_size n s) * Z.of_nat (s - 1)))%Z with (Z.of_nat n) by lia.
    replace (Z.of_nat (work_size n s) * Z.of_nat (s - 1))%Z with (Z.of_nat (work_size n s * (s - 1))) by lia.
    rewrite zspan_nat. f_equal. f_equal. lia.
  - replace (Z.of_nat (work_size n s) * Z.of_nat i + Z.of_nat (work_size n s))%Z
      with (Z.of_nat (work_size n s * i + work_size n s)) by lia.
    replace (Z.of_nat (work_size n s) * Z.of_nat i)%Z with (Z.of_nat (work_size n s * i)) by lia.
    rewrite zspan_nat. reflexivity.
Qed.

(* ... and, without the clamp of fixes/C10-scan-prims-empty-linestrip (commit 08b2ef6), calls the
   callback with negative indices on a line strip without indices (PrimitiveCount() = -1) *)
Theorem scan_prims_negative_count_refuted :
  exists s, 1 <= s /\ visitedZ (prim_count LineStrip 0) s <> [] /\ prim_work LineStrip 0 = 0.
Proof. exists 3. split; [lia|]. split; [vm_compute; discriminate | reflexivity]. Qed.

(* ================================================================ interleavings *)
Section InterleavingFacts.
  Context {A : Type}.
  Implicit Types (e w : list A) (ws : list (list A)).

  Lemma concat_all_nil : forall ws, Forall (fun w => w = []) ws -> concat ws = [].
  Proof. induction 1 as [|w ws Hw _ IH]; [reflexivity|]. cbn. rewrite Hw, IH. reflexivity. Qed.

  (* an execution performs exactly the steps of the workers, each once *)
  Lemma interleaving_perm : forall e ws, interleaving e ws -> Permutation e (concat ws).
  Proof.
    induction 1 as [ws H | x e pre w post _ IH].
    - rewrite concat_all_nil by assumption. constructor.
    - rewrite concat_app in *. cbn [concat] in *. cbn [app].
      apply Permutation_cons_app. exact IH.
  Qed.

  Lemma interleaving_prepend : forall l e pre w post,
    interleaving e (pre ++ w :: post) -> interleaving (l ++ e) (pre ++ (l ++ w) :: post).
  Proof.
    induction l as [|x l IH]; intros; [assumption|]. cbn [app]. constructor. apply IH. assumption.
  Qed.

  Lemma interleaving_nil_l : forall ws, interleaving [] ws -> Forall (fun w => w = []) ws.
  Proof. intros ws H. inversion H; subst; assumption. Qed.

  Lemma interleaving_one : forall w, interleaving w [w].
  Proof.
    induction w as [|x w IH].
    - constructor. constructor; [reflexivity|constructor].
    - apply (il_step x w [] w []). exact IH.
  Qed.

  (* idle workers can be added on either side *)
  Lemma interleaving_idle_r : forall e ws idle,
    interleaving e ws -> Forall (fun w => w = []) idle -> interleaving e (ws ++ idle).
  Proof.
    intros e ws idle H Hi. induction H as [ws Hall | x e pre w post _ IH].
    - constructor. apply Forall_app. split; assumption.
    - rewrite <- app_assoc. cbn [app]. constructor.
      rewrite <- app_assoc in IH. exact IH.
  Qed.

  Lemma interleaving_idle_l : forall e ws idle,
    interleaving e ws -> Forall (fun w => w = []) idle -> interleaving e (idle ++ ws).
  Proof.
    intros e ws idle H Hi. induction H as [ws Hall | x e pre w post _ IH].
    - constructor. apply Forall_app. split; assumption.
    - rewrite app_assoc. constructor. rewrite <- app_assoc. exact IH.
  Qed.

  (* run one group of workers to completion, then another group: both orders are executions *)
  Lemma interleaving_app : forall e1 ws1 e2 ws2,
    interleaving e1 ws1 -> interleaving e2 ws2 -> interleaving (e1 ++ e2) (ws1 ++ ws2).
  Proof.
    intros e1 ws1 e2 ws2 H1 H2. induction H1 as [ws Hall | x e pre w post _ IH].
    - cbn [app]. apply interleaving_idle_l; assumption.
    - rewrite <- app_assoc. cbn [app]. constructor.
      rewrite <- app_assoc in IH. exact IH.
  Qed.

  Lemma interleaving_app_swap : forall e1 ws1 e2 ws2,
    interleaving e1 ws1 -> interleaving e2 ws2 -> interleaving (e2 ++ e1) (ws1 ++ ws2).
  Proof.
    intros e1 ws1 e2 ws2 H1 H2. induction H2 as [ws Hall | x e pre w post _ IH].
    - cbn [app]. apply interleaving_idle_r; assumption.
    - rewrite app_assoc. cbn [app]. constructor. rewrite <- app_assoc. exact IH.
  Qed.

  (* the sequential schedule (worker after worker) is an execution *)
  Lemma sched_seq_interleaving : forall ws, interleaving (sched_seq ws) ws.
  Proof.
    unfold sched_seq. induction ws as [|w ws IH].
    - constructor. constructor.
    - cbn [concat]. apply (interleaving_app w [w] (concat ws) ws); [apply interleaving_one | exact IH].
  Qed.

  (* so is "last worker first" *)
  Lemma sched_rev_interleaving : forall ws, interleaving (sched_rev ws) ws.
  Proof.
    unfold sched_rev. induction ws as [|w ws IH].
    - constructor. constructor.
    - cbn [rev]. rewrite concat_app. cbn [concat]. rewrite app_nil_r.
      apply (interleaving_app_swap w [w] (concat (rev ws)) ws); [apply interleaving_one | exact IH].
  Qed.

  (* projection of an execution onto the steps satisfying p *)
  Lemma interleaving_filter : forall p e ws,
    interleaving e ws -> interleaving (filter p e) (map (filter p) ws).
  Proof.
    intros p e ws H. induction H as [ws Hall | x e pre w post _ IH].
    - cbn. constructor. apply Forall_forall. intros w Hw. apply in_map_iff in Hw.
      destruct Hw as (w0 & <- & Hin). rewrite Forall_forall in Hall. rewrite (Hall _ Hin). reflexivity.
    - rewrite map_app in *. cbn [map filter] in *. destruct (p x).
      + constructor. exact IH.
      + exact IH.
  Qed.

  (* when at most one worker has steps, the execution is that worker's list *)
  Definition at_most_one_busy ws : Prop :=
    forall i j wi wj, nth_error ws i = Some wi -> nth_error ws j = Some wj ->
                      wi <> [] -> wj <> [] -> i = j.

  Lemma busy_split : forall pre (w : list A) post x,
    at_most_one_busy (pre ++ (x :: w) :: post) ->
    Forall (fun w => w = []) pre /\ Forall (fun w => w = []) post.
  Proof.
    intros pre w post x H.
    assert (Hmid : nth_error (pre ++ (x :: w) :: post) (length pre) = Some (x :: w)).
    { rewrite nth_error_app2 by lia. rewrite Nat.sub_diag. reflexivity. }
    split; apply Forall_forall; intros u Hu; destruct u as [|y u]; try reflexivity; exfalso.
    - destruct (In_nth_error _ _ Hu) as [i Hi].
      assert (Hlt : i < length pre) by (apply nth_error_Some; congruence).
      assert (Hi' : nth_error (pre ++ (x :: w) :: post) i = Some (y :: u))
        by (rewrite nth_error_app1 by assumption; exact Hi).
      pose proof (H _ _ _ _ Hi' Hmid ltac:(discriminate) ltac:(discriminate)). lia.
    - destruct (In_nth_error _ _ Hu) as [i Hi].
      assert (Hi' : nth_error (pre ++ (x :: w) :: post) (length pre + S i) = Some (y :: u)).
      { rewrite nth_error_app2 by lia. replace (length pre + S i - length pre) with (S i) by lia. exact Hi. }
      pose proof (H _ _ _ _ Hi' Hmid ltac:(discriminate) ltac:(discriminate)). lia.
  Qed.

  Lemma interleaving_one_busy : forall e ws,
    interleaving e ws -> at_most_one_busy ws -> e = concat ws.
  Proof.
    intros e ws H. induction H as [ws Hall | x e pre w post _ IH]; intros Hb.
    - rewrite concat_all_nil by assumption. reflexivity.
    - destruct (busy_split _ _ _ _ Hb) as [Hpre Hpost].
      rewrite concat_app. cbn [concat]. rewrite (concat_all_nil pre), (concat_all_nil post) by assumption.
      cbn [app]. rewrite app_nil_r. f_equal.
      rewrite IH.
      + rewrite concat_app. cbn [concat].
        rewrite (concat_all_nil pre), (concat_all_nil post) by assumption. cbn [app]. apply app_nil_r.
      + intros i j wi wj Hi Hj Hni Hnj.
        assert (G : forall k u, nth_error (pre ++ w :: post) k = Some u -> u <> [] -> k = length pre).
        { intros k u Hk Hu. destruct (Nat.lt_total k (length pre)) as [L|[L|L]]; [|assumption|]; exfalso.
          - rewrite nth_error_app1 in Hk by assumption. apply nth_error_In in Hk.
            rewrite Forall_forall in Hpre. apply Hu, Hpre, Hk.
          - rewrite nth_error_app2 in Hk by lia. destruct (k - length pre) as [|m] eqn:Em; [lia|].
            cbn in Hk. apply nth_error_In in Hk. rewrite Forall_forall in Hpost. apply Hu, Hpost, Hk. }
        rewrite (G _ _ Hi Hni), (G _ _ Hj Hnj). reflexivity.
  Qed.
End InterleavingFacts.

  (* image of an execution under a step translation that may drop or expand steps *)
  Lemma interleaving_flat_map : forall {A B} (g : A -> list B) e ws,
    interleaving e ws -> interleaving (flat_map g e) (map (flat_map g) ws).
  Proof.
    intros A B g e ws H. induction H as [ws Hall | x e pre w post _ IH].
    - cbn. constructor. apply Forall_forall. intros w Hw. apply in_map_iff in Hw.
      destruct Hw as (w0 & <- & Hin). rewrite Forall_forall in Hall. rewrite (Hall _ Hin). reflexivity.
    - rewrite map_app in *. cbn [map flat_map] in *. apply interleaving_prepend. exact IH.
  Qed.


(* ================================================================ scans *)
Section ScanFacts.
  Context {V : Type} (d : V).

  Lemma scan_seq_map_from : forall (xs : list V) a,
    combine (seq a (length xs)) xs = map (fun i => (i, nth (i - a) xs d)) (seq a (length xs)).
  Proof.
    induction xs as [|x xs IH]; intros a; [reflexivity|].
    cbn [length seq combine map]. rewrite Nat.sub_diag. cbn [nth]. f_equal.
    rewrite IH. apply map_ext_in. intros i Hi. apply in_seq in Hi.
    replace (i - a) with (S (i - S a)) by lia. reflexivity.
  Qed.

  Lemma scan_seq_map : forall xs : list V,
    scan_seq xs = map (fun i => (i, nth i xs d)) (seq 0 (length xs)).
  Proof.
    intros xs. unfold scan_seq. rewrite scan_seq_map_from. apply map_ext. intros i.
    rewrite Nat.sub_0_r. reflexivity.
  Qed.

  (* worker after worker, the parallel scan performs the calls of the sequential scan, in order *)
  Lemma scan_workers_concat : forall xs s, 1 <= s -> concat (scan_workers d xs s) = scan_seq xs.
  Proof.
    intros xs s Hs. unfold scan_workers, scan_worker.
    rewrite <- (map_map span (map (fun i => (i, nth i xs d)))), <- concat_map, <- flat_map_concat_map.
    fold (visited (length xs) s). rewrite visited_eq_seq by assumption. symmetry. apply scan_seq_map.
  Qed.

  Lemma scan_seq_fst : forall xs : list V, map fst (scan_seq xs) = seq 0 (length xs).
  Proof.
    intros. rewrite scan_seq_map, map_map. cbn [fst]. apply map_id.
  Qed.

  Lemma scan_seq_in : forall (xs : list V) i v, In (i, v) (scan_seq xs) <-> nth_error xs i = Some v.
  Proof.
    intros xs i v. rewrite scan_seq_map, in_map_iff. split.
    - intros (k & E & Hk). inversion E; subst. apply in_seq in Hk. apply nth_error_nth'. lia.
    - intros H. exists i. split.
      + f_equal. apply nth_error_nth. exact H.
      + apply in_seq. assert (i < length xs) by (apply nth_error_Some; congruence). lia.
  Qed.

  (* For every schedule: the calls made are exactly those of the sequential scan (as a multiset);
     no index is called twice; every call carries the value stored at its own index. *)
  Theorem scan_any_schedule : forall xs s e,
    1 <= s -> interleaving e (scan_workers d xs s) ->
    Permutation e (scan_seq xs)
    /\ Permutation (map fst e) (seq 0 (length xs))
    /\ NoDup (map fst e)
    /\ (forall i v, In (i, v) e -> nth_error xs i = Some v).
  Proof.
    intros xs s e Hs H. apply interleaving_perm in H. rewrite scan_workers_concat in H by assumption.
    assert (Hf : Permutation (map fst e) (seq 0 (length xs))).
    { rewrite <- scan_seq_fst. apply Permutation_map. exact H. }
    repeat split; try assumption.
    - apply (Permutation_NoDup (Permutation_sym Hf)). apply seq_NoDup.
    - intros i v Hin. apply scan_seq_in. eapply Permutation_in; eassumption.
  Qed.

  (* a scan only reads: steps of different workers never conflict *)
  Theorem scan_no_model_race : forall (ev1 ev2 : nat * V) a1 a2,
    In a1 (scan_accesses ev1) -> In a2 (scan_accesses ev2) -> ~ conflict a1 a2.
  Proof.
    intros ev1 ev2 a1 a2 [<-|[]] [<-|[]] [_ [H|H]]; discriminate.
  Qed.
End ScanFacts.

(* ================================================================ modifications *)
Section ModifyFacts.
  Context {V : Type} (d : V) (f : nat -> V -> V).

  Definition widx (st : @wstep V) : nat := match st with Write i _ => i end.

  Lemma upd_length : forall (l : list V) i v, length (upd l i v) = length l.
  Proof. induction l as [|h t IH]; intros [|i] v; cbn; auto. Qed.

  Lemma upd_same : forall (l : list V) i v, i < length l -> nth_error (upd l i v) i = Some v.
  Proof. induction l as [|h t IH]; intros [|i] v H; cbn in *; try lia; auto. apply IH. lia. Qed.

  Lemma upd_other : forall (l : list V) i j v, i <> j -> nth_error (upd l i v) j = nth_error l j.
  Proof.
    induction l as [|h t IH]; intros [|i] [|j] v H; cbn; try reflexivity; try lia.
    apply IH. lia.
  Qed.

  Lemma run_exec_length : forall e (out : list V), length (run_exec e out) = length out.
  Proof.
    induction e as [|[i v] e IH]; intros out; [reflexivity|].
    cbn [run_exec fold_left do_step]. change (fold_left do_step e ?o) with (run_exec e o).
    rewrite IH. apply upd_length.
  Qed.

  Lemma run_exec_untouched : forall e (out : list V) j,
    ~ In j (map widx e) -> nth_error (run_exec e out) j = nth_error out j.
  Proof.
    induction e as [|[i v] e IH]; intros out j Hj; [reflexivity|].
    cbn [run_exec fold_left do_step]. change (fold_left do_step e ?o) with (run_exec e o).
    cbn [map widx] in Hj. rewrite IH by (intros C; apply Hj; right; exact C).
    apply upd_other. intros ->. apply Hj. left. reflexivity.
  Qed.

  (* writes to pairwise distinct cells: every written cell ends up with the value written to it *)
  Lemma run_exec_written : forall e (out : list V) i v,
    NoDup (map widx e) -> In (Write i v) e -> i < length out ->
    nth_error (run_exec e out) i = Some v.
  Proof.
    induction e as [|[j w] e IH]; intros out i v Hnd Hin Hi; [contradiction|].
    cbn [run_exec fold_left do_step]. change (fold_left do_step e ?o) with (run_exec e o).
    cbn [map widx] in Hnd. inversion Hnd as [|? ? Hnotin Hnd']; subst.
    destruct Hin as [E|Hin].
    - inversion E; subst. rewrite run_exec_untouched by assumption. apply upd_same. exact Hi.
    - apply IH; try assumption. rewrite upd_length. exact Hi.
  Qed.

  Lemma modify_workers_concat : forall xs s, 1 <= s ->
    concat (modify_workers d f xs s) = map (fun i => Write i (f i (nth i xs d))) (seq 0 (length xs)).
  Proof.
    intros xs s Hs. unfold modify_workers, modify_worker.
    rewrite <- (map_map span (map (fun i => Write i (f i (nth i xs d))))), <- concat_map,
      <- flat_map_concat_map.
    fold (visited (length xs) s). rewrite visited_eq_seq by assumption. reflexivity.
  Qed.

  Lemma modify_seq_map : forall xs, modify_seq f xs = map (fun i => f i (nth i xs d)) (seq 0 (length xs)).
  Proof. intros. unfold modify_seq. rewrite (scan_seq_map d), map_map. reflexivity. Qed.

  (* For every schedule the parallel modification returns the array of the sequential one. *)
  Theorem modify_any_schedule : forall z xs s e,
    1 <= s -> interleaving e (modify_workers d f xs s) -> modify_par z xs e = modify_seq f xs.
  Proof.
    intros z xs s e Hs H. apply interleaving_perm in H. rewrite modify_workers_concat in H by assumption.
    set (n := length xs) in *.
    assert (Hidx : Permutation (map widx e) (seq 0 n)).
    { replace (seq 0 n) with (map widx (map (fun i => Write i (f i (nth i xs d))) (seq 0 n))).
      - apply Permutation_map. exact H.
      - rewrite map_map. cbn [widx]. apply map_id. }
    assert (Hnd : NoDup (map widx e)).
    { apply (Permutation_NoDup (Permutation_sym Hidx)). apply seq_NoDup. }
    unfold modify_par. fold n.
    apply (nth_ext _ _ z z).
    - rewrite run_exec_length, repeat_length, modify_seq_map, map_length, seq_length. reflexivity.
    - intros i Hi. rewrite run_exec_length, repeat_length in Hi.
      assert (Hin : In (Write i (f i (nth i xs d))) e).
      { apply (Permutation_in _ (Permutation_sym H)). apply in_map_iff. exists i. split; [reflexivity|].
        apply in_seq. lia. }
      apply nth_error_nth.
      rewrite (run_exec_written e (repeat z n) i _ Hnd Hin) by (rewrite repeat_length; exact Hi).
      f_equal. rewrite modify_seq_map. fold n.
      rewrite (nth_indep _ z ((fun k => f k (nth k xs d)) 0)) by (rewrite map_length, seq_length; exact Hi).
      rewrite (map_nth (fun k => f k (nth k xs d))). rewrite seq_nth by exact Hi. reflexivity.
  Qed.

  (* writes commute: any two executions of the same workers give the same array *)
  Theorem writes_commute : forall z xs s e e',
    1 <= s -> interleaving e (modify_workers d f xs s) -> interleaving e' (modify_workers d f xs s) ->
    modify_par z xs e = modify_par z xs e' /\ modify_par z xs e = modify_seq f xs.
  Proof.
    intros z xs s e e' Hs H H'. rewrite (modify_any_schedule z xs s e), (modify_any_schedule z xs s e') by assumption.
    split; reflexivity.
  Qed.

  (* steps of different workers never touch the same cell with one of them writing:
     worker i reads old[k] and writes modified[k] only for k in its own range *)
  Theorem no_model_race : forall xs s i j wi wj st1 st2 a1 a2,
    i <> j ->
    nth_error (modify_workers d f xs s) i = Some wi -> nth_error (modify_workers d f xs s) j = Some wj ->
    In st1 wi -> In st2 wj -> In a1 (write_accesses st1) -> In a2 (write_accesses st2) ->
    ~ conflict a1 a2.
  Proof.
    intros xs s i j wi wj st1 st2 a1 a2 Hne Hi Hj H1 H2 Ha1 Ha2 [Hloc Hw].
    unfold modify_workers in Hi, Hj.
    destruct (nth_error (ranges (length xs) s) i) as [ri|] eqn:Ei;
      [|rewrite nth_error_map, Ei in Hi; discriminate].
    destruct (nth_error (ranges (length xs) s) j) as [rj|] eqn:Ej;
      [|rewrite nth_error_map, Ej in Hj; discriminate].
    rewrite nth_error_map, Ei in Hi. rewrite nth_error_map, Ej in Hj. cbn in Hi, Hj.
    inversion Hi; subst wi. inversion Hj; subst wj. clear Hi Hj.
    unfold modify_worker in H1, H2. apply in_map_iff in H1. apply in_map_iff in H2.
    destruct H1 as (p & <- & Hp). destruct H2 as (q & <- & Hq).
    assert (Hpq : p <> q).
    { intros ->. exact (ranges_no_shared_index _ _ _ _ _ _ _ Hne Ei Ej Hp Hq). }
    cbn [write_accesses] in Ha1, Ha2.
    destruct Ha1 as [<-|[<-|[]]]; destruct Ha2 as [<-|[<-|[]]]; cbn [fst snd] in *;
      try discriminate; try (inversion Hloc; contradiction).
  Qed.
End ModifyFacts.
