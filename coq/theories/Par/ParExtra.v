(* C10, additional proofs: the binary-number partition used by the evaluator for large element counts is
   the model's partition, and it chains from 0 to n. *)
From Coq Require Import List Arith NArith ZArith Bool Lia.
From Coq Require Import ZifyN ZifyNat ZifyBool.
From PF Require Import Par.Partition Par.Interleave Par.ParProofs Check.C10.
Import ListNotations.

Ltac Zify.zify_post_hook ::= Z.div_mod_to_equations.

Definition rangeN_of_nat (r : nat * nat) : N * N := (N.of_nat (fst r), N.of_nat (snd r)).

(* Check.C10.rangesN on N is Par.Partition.ranges on nat *)
Theorem rangesN_spec : forall n s,
  rangesN (N.of_nat n) (N.of_nat s) = map rangeN_of_nat (ranges n s).
Proof.
  intros n s. unfold rangesN, ranges, jobs. rewrite Nat2N.id, !map_map. apply map_ext_in.
  intros k Hk. apply in_seq in Hk. unfold rangeN_of_nat, range_of, job, work_size. cbn [fst snd].
  assert (Ed : (N.of_nat n / N.of_nat s)%N = N.of_nat (n / s)).
  { destruct s as [|s']; [lia|]. pose proof (Nat.div_mod_eq n (S s')). pose proof (Nat.mod_upper_bound n (S s')).
    nia. }
  rewrite Ed.
  assert (E : (N.of_nat k =? N.of_nat s - 1)%N = (k =? s - 1)).
  { destruct (k =? s - 1) eqn:E1;
      [apply N.eqb_eq; apply Nat.eqb_eq in E1 | apply N.eqb_neq; apply Nat.eqb_neq in E1]; lia. }
  rewrite E. f_equal; [lia|]. destruct (k =? s - 1); lia.
Qed.

(* a list of nat ranges chains from cur to n *)
Fixpoint chain (cur : nat) (rs : list (nat * nat)) (n : nat) : Prop :=
  match rs with
  | [] => cur = n
  | (a, b) :: t => a = cur /\ a <= b /\ chain b t n
  end.

Lemma chainN_of_chain : forall rs cur n,
  chain cur rs n -> chainN (N.of_nat cur) (map rangeN_of_nat rs) (N.of_nat n) = true.
Proof.
  induction rs as [|[a b] t IH]; intros cur n H; cbn [chain map chainN rangeN_of_nat fst snd] in *.
  - apply N.eqb_eq. lia.
  - destruct H as (-> & Hab & Ht). rewrite (IH _ _ Ht), N.eqb_refl. cbn [andb].
    rewrite andb_true_r. apply N.leb_le. lia.
Qed.

Lemma chain_blocks : forall ws k j n (f : nat -> nat * nat),
  (forall i, j <= i < j + k -> f i = (ws * i, ws * i + ws)) ->
  forall tl, chain (ws * (j + k)) tl n -> chain (ws * j) (map f (seq j k) ++ tl) n.
Proof.
  intros ws k. induction k as [|k IH]; intros j n f Hf tl Ht.
  - rewrite Nat.add_0_r in Ht. exact Ht.
  - cbn [seq map app chain]. rewrite (Hf j) by lia. split; [reflexivity|]. split; [lia|].
    replace (ws * j + ws) with (ws * S j) by lia. apply IH.
    + intros i Hi. apply Hf. lia.
    + replace (S j + k) with (j + S k) by lia. exact Ht.
Qed.

(* the model's ranges follow each other from 0 to n, for every n and every pool size >= 1 *)
Theorem ranges_chain : forall n s, 1 <= s -> chain 0 (ranges n s) n.
Proof.
  intros n s Hs. unfold ranges, jobs. rewrite map_map.
  destruct s as [|k]; [lia|]. rewrite seq_S, map_app. cbn [plus map].
  replace 0 with (work_size n (S k) * 0) at 1 by lia.
  apply chain_blocks.
  - intros i Hi. unfold range_of, job. cbn [fst snd].
    replace (i =? S k - 1) with false by (symmetry; apply Nat.eqb_neq; lia). reflexivity.
  - cbn [plus chain]. unfold range_of, job. cbn [fst snd].
    replace (k =? S k - 1) with true by (symmetry; apply Nat.eqb_eq; lia).
    pose proof (work_size_le n (S k)) as Hle. replace (S k - 1) with k in Hle by lia.
    split; [reflexivity|]. split; lia.
Qed.

(* so the evaluator's test on a CLarge case always succeeds on the model's side *)
Theorem chainN_ranges : forall n s, 1 <= s ->
  chainN 0%N (rangesN (N.of_nat n) (N.of_nat s)) (N.of_nat n) = true.
Proof.
  intros n s Hs. rewrite rangesN_spec. apply (chainN_of_chain (ranges n s) 0 n). apply ranges_chain. exact Hs.
Qed.

(* ================================================================ AddFieldParallel, end to end *)
(* The jobs AddFieldParallel dispatches for a field with Float1 functions `val a` (a in attrs) over the
   canvas box [mn, mx): one job per (attribute, chunk of chunkSectionsInRange), each adding val a p into
   cell_index c p for the box positions p of chunk c.  For EVERY interleaving of these jobs every cell that
   belongs to the box gets exactly one addition of its own value, every other cell is left alone. *)
Lemma job_positions_nodup : forall c mn mx, NoDup (job_positions c mn mx).
Proof.
  intros [[cx cy] cz] [[x0 y0] z0] [[x1 y1] z1]. unfold job_positions, axis_cells, zspan.
  change (fun k => (?a + Z.of_nat k)%Z) with (fun k => (a + Z.of_nat k)%Z).
  pose proof (zrange_nodup (axis_lo cx x0) (Z.to_nat (axis_hi cx x1 - axis_lo cx x0))) as Hxs.
  pose proof (zrange_nodup (axis_lo cy y0) (Z.to_nat (axis_hi cy y1 - axis_lo cy y0))) as Hys.
  pose proof (zrange_nodup (axis_lo cz z0) (Z.to_nat (axis_hi cz z1 - axis_lo cz z0))) as Hzs.
  unfold zrange in Hxs, Hys, Hzs.
  revert Hxs Hys Hzs.
  generalize (map (fun k : nat => (axis_lo cx x0 + Z.of_nat k)%Z) (seq 0 (Z.to_nat (axis_hi cx x1 - axis_lo cx x0)))) as xs.
  generalize (map (fun k : nat => (axis_lo cy y0 + Z.of_nat k)%Z) (seq 0 (Z.to_nat (axis_hi cy y1 - axis_lo cy y0)))) as ys.
  generalize (map (fun k : nat => (axis_lo cz z0 + Z.of_nat k)%Z) (seq 0 (Z.to_nat (axis_hi cz z1 - axis_lo cz z0)))) as zs.
  intros zs ys xs Hxs Hys Hzs.
  assert (Hyx : forall z : Z, NoDup (flat_map (fun y => map (fun x => (x, y, z)) xs) ys)).
  { intros z. clear Hzs. induction Hys as [|y ys Hn _ IH]; [constructor|].
    cbn [flat_map]. apply nodup_app; [| exact IH |].
    - apply FinFun.Injective_map_NoDup; [|exact Hxs]. intros a b [= ->]. reflexivity.
    - intros p Hp Hq. apply in_map_iff in Hp. destruct Hp as (x & <- & _).
      apply in_flat_map in Hq. destruct Hq as (y' & Hy' & Hq). apply in_map_iff in Hq.
      destruct Hq as (x' & [= -> ->] & _). contradiction. }
  induction Hzs as [|z zs Hn _ IH]; [constructor|].
  cbn [flat_map]. apply nodup_app; [apply Hyx | exact IH |].
  intros p Hp Hq. apply in_flat_map in Hp. destruct Hp as (y & _ & Hp). apply in_map_iff in Hp.
  destruct Hp as (x & <- & _). apply in_flat_map in Hq. destruct Hq as (z' & Hz' & Hq).
  apply in_flat_map in Hq. destruct Hq as (y' & _ & Hq). apply in_map_iff in Hq.
  destruct Hq as (x' & [= -> -> ->] & _). contradiction.
Qed.

Section FieldJobs.
  Context {A V : Type} (aeqb : A -> A -> bool) (add : V -> V -> V).
  Hypothesis aeqb_spec : forall a b, aeqb a b = true <-> a = b.

  Definition fkey : Type := (A * vec)%type.
  Definition fkeqb (k k' : fkey) : bool := aeqb (fst k) (fst k') && vec_eqb (snd k) (snd k').

  Lemma fkeqb_spec : forall a b, fkeqb a b = true <-> a = b.
  Proof.
    intros [a c] [a' c']. unfold fkeqb. cbn [fst snd]. rewrite andb_true_iff, aeqb_spec, vec_eqb_spec.
    split; [intros [-> ->]; reflexivity | intros [= -> ->]; auto].
  Qed.

  Variable val : A -> vec -> V.
  Variables mn mx : vec.

  Definition chunk_job (a : A) (c : vec) : fkey * list (Z * V) :=
    ((a, c), map (fun p => (cell_index c p, val a p)) (job_positions c mn mx)).
  Definition field_jobs (attrs : list A) : list (fkey * list (Z * V)) :=
    flat_map (fun a => map (chunk_job a) (chunk_sections mn mx)) attrs.

  Lemma in_field_jobs : forall attrs j,
    In j (field_jobs attrs) <-> exists a c, In a attrs /\ In c (chunk_sections mn mx) /\ j = chunk_job a c.
  Proof.
    intros attrs j. unfold field_jobs. rewrite in_flat_map. split.
    - intros (a & Ha & Hj). apply in_map_iff in Hj. destruct Hj as (c & <- & Hc). eauto.
    - intros (a & c & Ha & Hc & ->). exists a. split; [assumption|]. apply in_map. exact Hc.
  Qed.

  (* AddFieldParallel never dispatches two jobs for the same (attribute, chunk) *)
  Lemma field_jobs_keys_nodup : forall attrs, NoDup attrs -> NoDup (map fst (field_jobs attrs)).
  Proof.
    intros attrs H. unfold field_jobs. induction H as [|a attrs Hn _ IH]; [constructor|].
    cbn [flat_map]. rewrite map_app. apply nodup_app; [| exact IH |].
    - rewrite map_map. cbn [chunk_job fst]. apply FinFun.Injective_map_NoDup; [|apply chunk_sections_nodup].
      intros c c' [= ->]. reflexivity.
    - intros k Hk Hk'. rewrite map_map in Hk. apply in_map_iff in Hk. destruct Hk as (c & <- & _).
      apply in_map_iff in Hk'. destruct Hk' as (j & Hj & Hin). apply in_flat_map in Hin.
      destruct Hin as (a' & Ha' & Hin). apply in_map_iff in Hin. destruct Hin as (c' & <- & _).
      cbn [chunk_job fst] in Hj. inversion Hj; subst. contradiction.
  Qed.

  Notation cfold := (cell_fold add).

  (* steps of a job whose cells all differ from `cell` leave it alone *)
  Lemma fold_other_cells : forall (k : fkey) c0 a cell (ps : list vec) v,
    (forall q, In q ps -> cell_index c0 q <> cell) ->
    fold_left (cfold cell) (map (fun q => Acc k (cell_index c0 q) (val a q)) ps) v = v.
  Proof.
    intros k c0 a cell ps. induction ps as [|q ps IH]; intros v H; [reflexivity|].
    cbn [map fold_left cell_fold]. destruct (Z.eqb_spec (cell_index c0 q) cell) as [E|_].
    - exfalso. exact (H q (or_introl eq_refl) E).
    - apply IH. intros r Hr. apply H. right. exact Hr.
  Qed.

  Lemma chunk_job_steps : forall a c,
    job_steps (chunk_job a c) = map (fun q => Acc (a, c) (cell_index c q) (val a q)) (job_positions c mn mx).
  Proof. intros. unfold job_steps, chunk_job. cbn [fst snd]. rewrite map_map. reflexivity. Qed.

  (* if every job with key k leaves `cell` alone, so does the whole sequential run *)
  Lemma fold_jobs_unchanged : forall (jobs : list (fkey * list (Z * V))) k cell,
    (forall j, In j jobs -> fst j = k -> forall v, fold_left (cfold cell) (job_steps j) v = v) ->
    forall v, fold_left (cfold cell) (filter (fun s => fkeqb (step_key s) k) (concat (map job_steps jobs))) v = v.
  Proof.
    induction jobs as [|j jobs IH]; intros k cell H v; [reflexivity|].
    cbn [map concat]. rewrite filter_app, fold_left_app, job_steps_filter.
    destruct (fkeqb (fst j) k) eqn:E.
    - apply fkeqb_spec in E. rewrite (H j (or_introl eq_refl) E). apply IH. intros j' Hj'. apply H. right. exact Hj'.
    - cbn [fold_left]. apply IH. intros j' Hj'. apply H. right. exact Hj'.
  Qed.

  Lemma filter_other_jobs : forall (jobs : list (fkey * list (Z * V))) k,
    (forall j, In j jobs -> fst j <> k) ->
    filter (fun s => fkeqb (step_key s) k) (concat (map job_steps jobs)) = [].
  Proof.
    induction jobs as [|j jobs IH]; intros k H; [reflexivity|].
    cbn [map concat]. rewrite filter_app, job_steps_filter.
    rewrite (keqb_neq fkeqb fkeqb_spec) by (apply H; left; reflexivity).
    apply IH. intros j' Hj'. apply H. right. exact Hj'.
  Qed.

  Theorem addfield_parallel_exact : forall attrs e (st : @canvas fkey V),
    NoDup attrs -> interleaving e (map job_steps (field_jobs attrs)) ->
    forall a p,
      let k := (a, chunk_pos p) in
      let cell := cell_index (chunk_pos p) p in
      (In a attrs -> in_box p mn mx -> run_canvas fkeqb add e st k cell = add (st k cell) (val a p))
      /\ (~ (In a attrs /\ in_box p mn mx) -> run_canvas fkeqb add e st k cell = st k cell).
  Proof.
    intros attrs e st Hnd He a p k cell. subst k cell.
    set (k := (a, chunk_pos p)). set (cell := cell_index (chunk_pos p) p).
    pose proof (field_jobs_keys_nodup attrs Hnd) as Hkeys.
    rewrite (addfield_any_schedule fkeqb add fkeqb_spec _ e st Hkeys He k cell).
    rewrite run_canvas_cell. split.
    - intros Ha Hp.
      assert (Hj : In (chunk_job a (chunk_pos p)) (field_jobs attrs)).
      { apply in_field_jobs. exists a, (chunk_pos p). repeat split; try assumption.
        apply chunk_sections_complete. exact Hp. }
      destruct (in_split _ _ Hj) as (l1 & l2 & El). rewrite El in Hkeys |- *.
      rewrite map_app in Hkeys. cbn [map chunk_job fst] in Hkeys. apply NoDup_remove_2 in Hkeys.
      rewrite map_app, concat_app. cbn [map concat]. rewrite !filter_app.
      rewrite (filter_other_jobs l1), (filter_other_jobs l2).
      2:{ intros j Hjn E. apply Hkeys. apply in_or_app. right. apply (in_map fst) in Hjn. rewrite E in Hjn. exact Hjn. }
      2:{ intros j Hjn E. apply Hkeys. apply in_or_app. left. apply (in_map fst) in Hjn. rewrite E in Hjn. exact Hjn. }
      rewrite job_steps_filter. cbn [chunk_job fst]. fold k. rewrite (keqb_refl fkeqb fkeqb_spec k).
      cbn [app]. rewrite app_nil_r. fold (chunk_job a (chunk_pos p)). rewrite chunk_job_steps.
      assert (Hin : In p (job_positions (chunk_pos p) mn mx)) by (apply job_positions_spec; split; [assumption|reflexivity]).
      pose proof (job_positions_nodup (chunk_pos p) mn mx) as Hpn.
      destruct (in_split _ _ Hin) as (ps1 & ps2 & Ep). rewrite Ep in Hpn |- *.
      apply NoDup_remove_2 in Hpn.
      assert (Hother : forall q, In q (ps1 ++ ps2) -> cell_index (chunk_pos p) q <> cell).
      { intros q Hq E.
        assert (Hq' : In q (job_positions (chunk_pos p) mn mx)).
        { rewrite Ep. apply in_app_or in Hq. apply in_or_app. destruct Hq; [left|right; right]; assumption. }
        apply job_positions_spec in Hq'. destruct Hq' as [_ Hc].
        assert (q = p) by (apply (cell_index_inj (chunk_pos p)); [assumption|reflexivity|exact E]).
        subst q. contradiction. }
      rewrite map_app, fold_left_app. cbn [map fold_left cell_fold]. fold cell. rewrite Z.eqb_refl.
      rewrite (fold_other_cells k (chunk_pos p) a cell ps1) by (intros q Hq; apply Hother, in_or_app; left; exact Hq).
      apply (fold_other_cells k (chunk_pos p) a cell ps2). intros q Hq. apply Hother, in_or_app. right. exact Hq.
    - intros Hnot. apply fold_jobs_unchanged. intros j Hj Ek v.
      apply in_field_jobs in Hj. destruct Hj as (a' & c' & Ha' & Hc' & ->).
      cbn [chunk_job fst] in Ek. inversion Ek; subst a' c'. rewrite chunk_job_steps.
      apply fold_other_cells. intros q Hq E. apply job_positions_spec in Hq. destruct Hq as [Hbox Hc].
      assert (q = p) by (apply (cell_index_inj (chunk_pos p)); [assumption|reflexivity|exact E]).
      subst q. apply Hnot. split; assumption.
  Qed.
End FieldJobs.
