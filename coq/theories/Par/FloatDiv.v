(* C10: the work size  int(math.Floor(float64(n) / float64(s)))  of modeling/mesh.go equals the integer quotient
   n / s of the model (Par/Partition.v work_size) for every 0 <= n < 2^53 and s >= 1.
   Part 1 states the IEEE facts used as explicit hypotheses about an abstract rounding function on the reals;
   part 2 discharges them for binary64 round-to-nearest-even with Flocq. *)
From Coq Require Import ZArith Reals Lra Lia.
From Flocq Require Import Core.
Open Scope R_scope.

Section FloorDiv.
  (* rn x: the float64 nearest to the real x *)
  Variable rn : R -> R.
  Hypothesis rn_mono : forall x y, x <= y -> rn x <= rn y.                      (* rounding is monotone *)
  Hypothesis rn_int : forall z : Z, (Z.abs z < 2 ^ 53)%Z -> rn (IZR z) = IZR z. (* integers below 2^53 are floats *)
  (* relative error at most 2^-53 (for x in the normal range; x >= 2^-53 is all that is needed here) *)
  Hypothesis rn_err : forall x, / IZR (2 ^ 53) <= x -> rn x <= x + x * / IZR (2 ^ 53).

  (* float64(n) and float64(s) are exact (rn_int), the quotient is rounded once, math.Floor is exact *)
  Theorem floor_float_div : forall n s : Z,
    (0 <= n < 2 ^ 53)%Z -> (1 <= s < 2 ^ 53)%Z ->
    Zfloor (rn (rn (IZR n) / rn (IZR s))) = (n / s)%Z.
  Proof.
    intros n s Hn Hs. rewrite !rn_int by lia.
    set (k := (n / s)%Z).
    assert (Hk : (s * k <= n < s * (k + 1))%Z).
    { unfold k. pose proof (Z.mul_div_le n s ltac:(lia)). pose proof (Z.mul_succ_div_gt n s ltac:(lia)). lia. }
    assert (Hk0 : (0 <= k < 2 ^ 53)%Z).
    { unfold k. split; [apply Z.div_pos; lia|]. apply Z.le_lt_trans with n; [apply Z.div_le_upper_bound; nia | lia]. }
    assert (HS : 0 < IZR s) by (apply IZR_lt; lia).
    set (x := IZR n / IZR s).
    assert (Hx : x * IZR s = IZR n) by (unfold x; field; lra).
    assert (Hlo : IZR k <= x).
    { apply Rmult_le_reg_r with (IZR s); [exact HS|]. rewrite Hx, <- mult_IZR. apply IZR_le. lia. }
    apply Zfloor_imp. split.
    - rewrite <- (rn_int k) by lia. apply rn_mono. exact Hlo.
    - destruct (Z.eq_dec n 0) as [->|Hn0].
      + assert (x = 0) by (unfold x; field; lra). replace x with (IZR 0) by (symmetry; assumption).
        rewrite rn_int by lia. apply IZR_lt. lia.
      + assert (Hxpos : 0 < x).
        { apply Rmult_lt_reg_r with (IZR s); [exact HS|]. rewrite Hx, Rmult_0_l. apply IZR_lt. lia. }
        assert (HM : 0 < IZR (2 ^ 53)) by (apply IZR_lt; lia).
        assert (Hxlow : / IZR (2 ^ 53) <= x).
        { apply Rmult_le_reg_r with (IZR (2 ^ 53)); [exact HM|]. rewrite Rinv_l by lra.
          apply Rle_trans with (x * IZR s).
          - rewrite Hx. apply IZR_le. lia.
          - apply Rmult_le_compat_l; [lra|]. apply IZR_le. lia. }
        apply Rle_lt_trans with (x + x * / IZR (2 ^ 53)); [apply rn_err; exact Hxlow|].
        apply Rmult_lt_reg_r with (IZR s * IZR (2 ^ 53)); [apply Rmult_lt_0_compat; assumption|].
        replace ((x + x * / IZR (2 ^ 53)) * (IZR s * IZR (2 ^ 53)))
          with (x * IZR s * IZR (2 ^ 53) + x * IZR s) by (field; lra).
        rewrite Hx. rewrite <- !mult_IZR, <- plus_IZR. apply IZR_lt. nia.
  Qed.
End FloorDiv.

(* ---------------------------------------------------------------- binary64, round to nearest even (Flocq) *)
From Flocq Require Import Relative.

Definition b64_exp := FLT_exp (-1074) 53.
Definition rn64 (x : R) : R := round radix2 b64_exp ZnearestE x.

Local Instance prec53 : Prec_gt_0 53 := eq_refl.
Local Instance b64_valid : Valid_exp b64_exp := FLT_exp_valid (-1074) 53.

Lemma rn64_mono : forall x y, x <= y -> rn64 x <= rn64 y.
Proof. intros x y H. unfold rn64. apply round_le; [exact b64_valid | apply valid_rnd_N | exact H]. Qed.

Lemma rn64_int : forall z : Z, (Z.abs z < 2 ^ 53)%Z -> rn64 (IZR z) = IZR z.
Proof.
  intros z Hz. unfold rn64. apply round_generic; [apply valid_rnd_N|].
  apply generic_format_FLT. apply (FLT_spec radix2 (-1074) 53 (IZR z) (Float radix2 z 0)).
  - unfold F2R. cbn [Fnum Fexp bpow]. ring.
  - cbn [Fnum]. exact Hz.
  - cbn [Fexp]. lia.
Qed.

Lemma rn64_err : forall x, / IZR (2 ^ 53) <= x -> rn64 x <= x + x * / IZR (2 ^ 53).
Proof.
  intros x Hx.
  assert (HM : 0 < / IZR (2 ^ 53)) by (apply Rinv_0_lt_compat, IZR_lt; lia).
  assert (Hpos : 0 < x) by lra.
  assert (Hn : bpow radix2 (-1074 + 53 - 1) <= Rabs x).
  { rewrite Rabs_pos_eq by lra. apply Rle_trans with (/ IZR (2 ^ 53)); [|exact Hx].
    change (2 ^ 53)%Z with (radix2 ^ 53)%Z. rewrite IZR_Zpower by lia. rewrite <- bpow_opp.
    apply bpow_le. lia. }
  pose proof (relative_error_N_FLT radix2 (-1074) 53 ltac:(lia) (fun t => negb (Z.even t)) x Hn) as He.
  fold b64_exp in He. change (round radix2 b64_exp (Znearest (fun t => negb (Z.even t))) x) with (rn64 x) in He.
  rewrite (Rabs_pos_eq x) in He by lra.
  assert (Eb : / 2 * bpow radix2 (- (53) + 1) = / IZR (2 ^ 53)).
  { change (- (53) + 1)%Z with (- (52))%Z. rewrite bpow_opp.
    replace (bpow radix2 52) with (IZR (radix2 ^ 52)) by (apply IZR_Zpower; lia).
    change (radix2 ^ 52)%Z with 4503599627370496%Z. change (2 ^ 53)%Z with 9007199254740992%Z. lra. }
  rewrite Eb in He. apply Rabs_le_inv in He. lra.
Qed.

(* the trusted identification of mesh.go's work size with the model's, now a theorem about binary64 *)
Theorem work_size_binary64 : forall n s : Z,
  (0 <= n < 2 ^ 53)%Z -> (1 <= s < 2 ^ 53)%Z ->
  Zfloor (rn64 (rn64 (IZR n) / rn64 (IZR s))) = (n / s)%Z.
Proof. exact (floor_float_div rn64 rn64_mono rn64_int rn64_err). Qed.

(* ... in the vocabulary of the model: Par.Partition.work_size n s is what the Go expression computes *)
From PF Require Import Par.Partition.
Theorem work_size_float64 : forall n s : nat,
  (Z.of_nat n < 2 ^ 53)%Z -> (1 <= s)%nat -> (Z.of_nat s < 2 ^ 53)%Z ->
  Z.to_nat (Zfloor (rn64 (rn64 (IZR (Z.of_nat n)) / rn64 (IZR (Z.of_nat s))))) = work_size n s.
Proof.
  intros n s Hn Hs Hs'. rewrite work_size_binary64 by lia. unfold work_size.
  rewrite <- Nat2Z.inj_div. apply Nat2Z.id.
Qed.
