(* C08: carriage returns never reach the header parser. *)
From PF Require Import Base.Bytes Formats.PlyText.
From Coq Require Import String Ascii.
Open Scope list_scope.
Open Scope N_scope.

Lemma split_nl_nonempty l : split_nl l <> [].
Proof. destruct l as [|c r]; cbn [split_nl]; [discriminate|]. destruct (c =? 10); [discriminate|]. destruct (split_nl r); discriminate. Qed.

Lemma strip_cr_cons c l : strip_cr (c :: l) = if c =? 13 then strip_cr l else c :: strip_cr l.
Proof. unfold strip_cr. cbn [filter]. destruct (c =? 13); reflexivity. Qed.

(* dropping '\r' line by line = dropping it from the whole text and then splitting *)
Lemma split_strip l : map strip_cr (split_nl l) = split_nl (strip_cr l).
Proof.
  induction l as [|c r IH]; [reflexivity|]. cbn [split_nl]. rewrite strip_cr_cons.
  destruct (c =? 10) eqn:E10.
  - apply N.eqb_eq in E10. subst c. change (10 =? 13) with false. cbv iota. cbn [map split_nl].
    change (10 =? 10) with true. cbv iota. rewrite IH. reflexivity.
  - pose proof (split_nl_nonempty r) as NE. destruct (split_nl r) as [|x xs] eqn:S; [congruence|].
    cbn [map]. rewrite strip_cr_cons. cbn [map] in IH.
    destruct (c =? 13) eqn:E13.
    + exact IH.
    + cbn [split_nl]. rewrite E10, <- IH. reflexivity.
Qed.

Lemma header_lines_strip text : header_lines text = map (fun l => map string_of_bytes (fields l)) (split_nl (strip_cr text)).
Proof. unfold header_lines. rewrite <- split_strip, map_map. reflexivity. Qed.

(* two texts that differ only in carriage returns — anywhere — are the same header for the parser *)
Theorem cr_ignored_proof : forall t1 t2, strip_cr t1 = strip_cr t2 -> header_lines t1 = header_lines t2.
Proof. intros t1 t2 H. rewrite !header_lines_strip, H. reflexivity. Qed.

Lemma strip_crlf text : strip_cr (crlf text) = strip_cr text.
Proof.
  induction text as [|c r IH]; [reflexivity|]. unfold crlf in *. cbn [flat_map].
  destruct (c =? 10) eqn:E.
  - apply N.eqb_eq in E. subst c. cbn [app]. rewrite !strip_cr_cons. change (13 =? 13) with true. change (10 =? 13) with false.
    cbv iota. rewrite IH. reflexivity.
  - cbn [app]. rewrite !strip_cr_cons, IH. reflexivity.
Qed.

(* CRLF line ends *)
Theorem crlf_ignored_proof : forall text, header_lines (crlf text) = header_lines text.
Proof. intros. apply cr_ignored_proof, strip_crlf. Qed.
