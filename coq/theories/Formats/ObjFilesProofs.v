(* C05, round 4: proofs about the file level (Formats/ObjFiles.v): Save/SaveAll then Load, and Load then SaveAll then
   Load, composed from the line-record theorems of Formats/ObjProofs.v. *)
From Coq Require Import String Lia.
From PF Require Import Base.Bytes Formats.Obj Formats.ObjProofs Formats.ObjFiles.
Open Scope nat_scope.

Lemma name_eqb_refl (n : name) : name_eqb n n = true.
Proof. unfold name_eqb. induction n as [|s r IH]; [reflexivity|]. cbn [list_eqb]. now rewrite String.eqb_refl, IH. Qed.
Lemma res_tag_in defs n : In n defs -> res_tag defs (Some n) = Some n.
Proof.
  intros H. unfold res_tag. replace (existsb (name_eqb n) defs) with true; [reflexivity|].
  symmetry. apply existsb_exists. exists n. split; [exact H|apply name_eqb_refl].
Qed.
Lemma tri_mats_map (f : option name -> option name) mats :
  tri_mats (map (fun cm => (fst cm, f (snd cm))) mats) = map f (tri_mats mats).
Proof.
  unfold tri_mats. induction mats as [|[c a] r IH]; [reflexivity|]. cbn [map flat_map fst snd].
  rewrite map_app, IH, map_repeat. reflexivity.
Qed.
Lemma in_tri_mats mt mats : In mt (tri_mats mats) -> exists cm, In cm mats /\ snd cm = mt.
Proof.
  unfold tri_mats. intros H. apply in_flat_map in H. destruct H as (cm & Hc & Hr).
  apply repeat_spec in Hr. exists cm. auto.
Qed.
Lemma obs_resolve defs m : obs (resolve defs m) = gobs_resolved defs (obs m).
Proof. unfold obs, gobs_resolved, resolve. cbn [m_name m_mats]. rewrite tri_mats_map. reflexivity. Qed.
Lemma map_obs_resolve defs gs : map obs (map (resolve defs) gs) = map (gobs_resolved defs) (map obs gs).
Proof. rewrite !map_map. apply map_ext. intros m. apply obs_resolve. Qed.

(* Load keeps a list writable: resolving only replaces names by nil *)
Lemma sum_counts_map (f : option name -> option name) mats :
  sum_counts (map (fun cm => (fst cm, f (snd cm))) mats) = sum_counts mats.
Proof. unfold sum_counts. induction mats as [|[c a] r IH]; [reflexivity|]. cbn [map fold_right fst]. now rewrite IH. Qed.
Lemma wf_mesh_resolve defs m : wf_mesh m = true -> wf_mesh (resolve defs m) = true.
Proof.
  unfold wf_mesh, resolve. cbn [m_idx m_pos m_uv m_nrm m_mats]. rewrite !andb_true_iff.
  intros (((((H1 & H2) & H3) & H4) & H5) & H6). repeat split; auto.
  - rewrite sum_counts_map. destruct (m_mats m); [reflexivity|exact H5].
  - rewrite forallb_forall in *. intros cm Hc. apply in_map_iff in Hc. destruct Hc as ([c a] & <- & Hc).
    specialize (H6 _ Hc). unfold mat_ok in *. cbn [fst snd] in *. unfold res_tag.
    destruct a as [[|s r]|]; try discriminate; [destruct (existsb _ _); reflexivity|reflexivity].
Qed.
Lemma nonempty_but_last_resolve defs ms : nonempty_but_last (map (resolve defs) ms) = nonempty_but_last ms.
Proof.
  induction ms as [|m r IH]; [reflexivity|]. destruct r as [|m' r']; [reflexivity|].
  change (nonempty_but_last (resolve defs m :: map (resolve defs) (m' :: r')) = nonempty_but_last (m :: m' :: r')).
  cbn [nonempty_but_last map] in *. rewrite IH. reflexivity.
Qed.
Lemma wf_list_resolve defs ms : wf_list ms = true -> wf_list (map (resolve defs) ms) = true.
Proof.
  unfold wf_list. rewrite !andb_true_iff. intros ((H1 & H2) & H3). repeat split.
  - destruct ms; [discriminate|reflexivity].
  - rewrite forallb_forall in *. intros m Hm. apply in_map_iff in Hm. destruct Hm as (m0 & <- & Hm). apply wf_mesh_resolve; auto.
  - now rewrite nonempty_but_last_resolve.
Qed.

(* a written observation only carries names the .mtl written next to it defines *)
Lemma written_resolved ms m : In m ms -> gobs_resolved (mtl_defs ms ++ []) (obs_written m) = obs_written m.
Proof.
  intros Hm. unfold gobs_resolved, obs_written. f_equal. rewrite map_map. apply map_ext_in. intros mt Hmt.
  apply res_tag_in. rewrite app_nil_r. unfold mtl_defs. apply in_flat_map. exists m. split; [exact Hm|].
  apply in_tri_mats in Hmt. destruct Hmt as (cm & Hc & <-). apply in_map_iff. exists cm. auto.
Qed.

(* Clause 1 through the file system: SaveAll (or Save, for one unnamed mesh) followed by Load *)
Theorem save_load ms : wf_list ms = true ->
  exists ls gs, fst (save_all ms) = Ok ls /\ load (snd (save_all ms)) ls = Ok gs /\ map obs gs = map obs_written ms.
Proof.
  intros W. unfold save_all. destruct (existsb (fun m => nonnil (m_mats m)) ms) eqn:H; cbn [fst snd].
  - destruct (roundtrip (Some [mtl_file]) ms W ltac:(discriminate)) as (ls & gs & E & R & O).
    exists ls, (map (resolve (mtl_defs ms ++ [])) gs). split; [exact E|]. split.
    + unfold load, load_gen. change (read_gen cfg_full ls) with (read ls). rewrite R. cbn [rbind libs_of load_defs fs_find].
      rewrite String.eqb_refl. reflexivity.
    + rewrite map_obs_resolve, O, map_map. apply map_ext_in. intros m Hm. now apply written_resolved.
  - destruct (roundtrip None ms W ltac:(discriminate)) as (ls & gs & E & R & O).
    exists ls, (map (resolve []) gs). split; [exact E|]. split.
    + unfold load, load_gen. change (read_gen cfg_full ls) with (read ls). rewrite R. reflexivity.
    + rewrite map_obs_resolve, O, map_map. apply map_ext_in. intros m Hm.
      assert (Em : m_mats m = []).
      { destruct (m_mats m) eqn:Em; [reflexivity|]. exfalso.
        assert (X : existsb (fun m => nonnil (m_mats m)) ms = true) by (apply existsb_exists; exists m; split; [exact Hm|now rewrite Em]).
        congruence. }
      unfold gobs_resolved, obs_written. rewrite Em. reflexivity.
Qed.

(* what Load returns for a valid OBJ whose material libraries are all present *)
Theorem load_meaning file fs defs : valid file = true -> load_defs fs (lib_names file) = Ok defs ->
  exists gs, load fs file = Ok gs /\ map obs gs = map (gobs_resolved defs) (file_groups file) /\ wf_list gs = true.
Proof.
  intros V D. destruct (read_valid file V) as (gs & R & O & W). exists (map (resolve defs) gs).
  split; [|split].
  - unfold load, load_gen. change (read_gen cfg_full file) with (read file). rewrite R. cbn [rbind]. rewrite D. reflexivity.
  - now rewrite map_obs_resolve, O.
  - now apply wf_list_resolve.
Qed.
Theorem load_missing_library file fs : valid file = true -> load_defs fs (lib_names file) = Declared -> load fs file = Declared.
Proof.
  intros V D. destruct (read_valid file V) as (gs & R & _). unfold load, load_gen.
  change (read_gen cfg_full file) with (read file). rewrite R. cbn [rbind]. rewrite D. reflexivity.
Qed.

(* Clause 2 through the file system: Load, SaveAll, Load again *)
Theorem load_save_load file fs defs : valid file = true -> load_defs fs (lib_names file) = Ok defs ->
  exists gs1 ls gs2,
    load fs file = Ok gs1 /\ map obs gs1 = map (gobs_resolved defs) (file_groups file) /\
    fst (save_all gs1) = Ok ls /\ load (snd (save_all gs1)) ls = Ok gs2 /\
    map obs gs2 = map gobs_written (map (gobs_resolved defs) (file_groups file)).
Proof.
  intros V D. destruct (load_meaning file fs defs V D) as (gs1 & L1 & O1 & W1).
  destruct (save_load gs1 W1) as (ls & gs2 & S & L2 & O2). exists gs1, ls, gs2. repeat split; auto.
  rewrite O2, <- O1, map_map. apply map_ext. intros m. apply obs_written_obs.
Qed.

(* faces do not depend on the material libraries at all *)
Definition gfaces (g : gobs) : name * list content := fst g.
Lemma gfaces_resolved defs g : gfaces (gobs_resolved defs g) = gfaces g.
Proof. destruct g as [[nm cs] tg]. reflexivity. Qed.
Lemma gfaces_written g : gfaces (gobs_written g) = gfaces g.
Proof. destruct g as [[nm cs] tg]. reflexivity. Qed.
Theorem load_save_load_faces file fs defs : valid file = true -> load_defs fs (lib_names file) = Ok defs ->
  exists gs1 ls gs2,
    load fs file = Ok gs1 /\ fst (save_all gs1) = Ok ls /\ load (snd (save_all gs1)) ls = Ok gs2 /\
    map gfaces (map obs gs1) = map gfaces (file_groups file) /\
    map gfaces (map obs gs2) = map gfaces (file_groups file).
Proof.
  intros V D. destruct (load_save_load file fs defs V D) as (gs1 & ls & gs2 & L1 & O1 & S & L2 & O2).
  exists gs1, ls, gs2. repeat split; auto.
  - rewrite O1, map_map. apply map_ext. intros g. apply gfaces_resolved.
  - rewrite O2, !map_map. apply map_ext. intros g. now rewrite gfaces_written, gfaces_resolved.
Qed.

(* both in one statement (Properties/C05.v obj_load_save_load_files) *)
Theorem load_save_load_full file fs defs : valid file = true -> load_defs fs (lib_names file) = Ok defs ->
  exists gs1 ls gs2,
    load fs file = Ok gs1 /\ fst (save_all gs1) = Ok ls /\ load (snd (save_all gs1)) ls = Ok gs2 /\
    map gfaces (map obs gs1) = map gfaces (file_groups file) /\
    map gfaces (map obs gs2) = map gfaces (file_groups file) /\
    map obs gs2 = map gobs_written (map (gobs_resolved defs) (file_groups file)).
Proof.
  intros V D. destruct (load_save_load file fs defs V D) as (gs1 & ls & gs2 & L1 & O1 & S & L2 & O2).
  exists gs1, ls, gs2. repeat split; auto.
  - rewrite O1, map_map. apply map_ext. intros g. apply gfaces_resolved.
  - rewrite O2, !map_map. apply map_ext. intros g. now rewrite gfaces_written, gfaces_resolved.
Qed.

(* recorded behaviour (not excluded by the property: no face is lost): a usemtl name that no library defines is
   loaded as the nil material and therefore saved as DefaultDiffuse *)
Definition file_undefined_material : list line :=
  [V (0, 0, 0); V (1, 0, 0); V (0, 1, 0); MtlLib ["a.mtl"%string]; UseMtl ["red"%string]; F (c1 1) (c1 2) (c1 3);
   UseMtl ["blue"%string]; F (c1 3) (c1 2) (c1 1)]%N.
Lemma undefined_material_becomes_default :
  valid file_undefined_material = true /\
  (exists gs, load [("a.mtl"%string, [["blue"%string]])] file_undefined_material = Ok gs /\
     map (fun g => tri_mats (m_mats g)) gs = [[None; Some ["blue"%string]]] /\
     exists ls gs2, fst (save_all gs) = Ok ls /\ load (snd (save_all gs)) ls = Ok gs2 /\
       map (fun g => tri_mats (m_mats g)) gs2 = [[Some ["DefaultDiffuse"%string]; Some ["blue"%string]]]) /\
  load [] file_undefined_material = Declared.
Proof. vm_compute. repeat split. eexists. repeat split. eexists. eexists. repeat split. Qed.
