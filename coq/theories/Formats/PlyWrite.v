(* C04: executable model of the PLY writer, formats/ply/{writer,writer_vector1-4,write,header,element,
   property}.go, on top of the reader model Formats/PlyRead.v (imported read-only).  NO PROOFS in this file.

   Value domains
   * a mesh value is a float32 word (N < 2^32): the harness applies Go's float32() / math.Float32bits to every
     input value and only uses float32-exact float64s, so "up to float32 precision" is exact equality of words;
   * what the writer stores: float -> the word, double -> its float64 widening, uchar -> the byte
     round(x*255) computed exactly (x*255 is exact in float64 for a float32-exact x), int -> two's complement;
   * ASCII bodies are token lines (PlyRead.tok); the text of a number is outside the model (strconv);
   * the header is a list of lines split into fields, exactly what PlyRead.parse_header consumes. *)
From PF Require Import Base.Bytes Formats.PlyRead.
From Coq Require Import String Ascii.
Open Scope list_scope.
Open Scope N_scope.

(* ---------- input mesh ---------- *)
(* one attribute: dimension 1..4, name, one row of [dim] float32 words per vertex.  Attributes are listed
   in the order Mesh.Float{4,3,2,1}Attributes() report them (sorted by name within a dimension). *)
Record wattr := { wa_dim : nat; wa_name : string; wa_rows : list (list N) }.
Record wmesh := { w_topo : topo; w_idx : list nat; w_n : nat (* AttributeLength *); w_attrs : list wattr }.

Definition is_attr (d : nat) (a : string) (x : wattr) : bool := Nat.eqb (wa_dim x) d && seqb (wa_name x) a.
Definition has_attr (m : wmesh) (d : nat) (a : string) : bool := existsb (is_attr d a) (w_attrs m).
Definition attr_rows (m : wmesh) (d : nat) (a : string) : list (list N) :=
  match find (is_attr d a) (w_attrs m) with Some x => wa_rows x | None => [] end.

(* ---------- property writers (Vector{1,2,3,4}PropertyWriter) ---------- *)
Record pw := { pw_dim : nat; pw_attr : string; pw_names : list string; pw_ty : sty }.
Definition PW d a ns t := {| pw_dim := d; pw_attr := a; pw_names := ns; pw_ty := t |}.
(* write.go: defaultWriter.Properties *)
Definition default_writers : list pw :=
  [ PW 3 "Position" ["x"; "y"; "z"] Float; PW 3 "Normal" ["nx"; "ny"; "nz"] Float;
    PW 3 "Color" ["red"; "green"; "blue"] UChar;
    PW 3 "FDC" ["f_dc_0"; "f_dc_1"; "f_dc_2"] Float; PW 1 "Opacity" ["opacity"] Float;
    PW 3 "Scale" ["scale_0"; "scale_1"; "scale_2"] Float;
    PW 4 "Rotation" ["rot_0"; "rot_1"; "rot_2"; "rot_3"] Float ]%string.
Record wopts := { o_writers : list pw; o_unspec : bool (* WriteUnspecifiedProperties *) }.
Definition default_opts : wopts := {| o_writers := default_writers; o_unspec := true |}.

Definition qualifies (m : wmesh) (w : pw) : bool := has_attr m (pw_dim w) (pw_attr w).
Definition claimed (ws : list pw) (d : nat) (a : string) : bool :=
  existsb (fun w => Nat.eqb (pw_dim w) d && seqb (pw_attr w) a) ws.
(* fmt.Sprintf("%s_%d", p, k) *)
Definition digit (k : nat) : string := match k with O => "0" | 1%nat => "1" | 2%nat => "2" | _ => "3" end%string.
Definition suffixed (a : string) (k : nat) : string := String.append a (String.append "_" (digit k)).
Definition unspec_names (d : nat) (a : string) : list string :=
  match d with 1%nat => [a] | _ => map (suffixed a) (seq 0 d) end.
(* the WriteUnspecifiedProperties loops: dimensions 4,3,2,1.  TexCoord (after fix ad4b3e5): a triangle mesh
   carries it per corner in the face element, any other topology writes it per vertex as float s, t *)
Definition unspec_of_dim (m : wmesh) (cl : list pw) (d : nat) : list pw :=
  flat_map (fun x => if Nat.eqb (wa_dim x) d && negb (claimed cl d (wa_name x))
                     then if Nat.eqb d 2 && seqb (wa_name x) "TexCoord"
                          then match w_topo m with
                               | TTriangle => []
                               | TPoint => [PW 2 "TexCoord" ["s"; "t"]%string Float]
                               end
                          else [PW d (wa_name x) (unspec_names d (wa_name x)) Float]
                     else []) (w_attrs m).
Definition effective_writers (o : wopts) (m : wmesh) : list pw :=
  let q := filter (qualifies m) (o_writers o) in
  if o_unspec o then q ++ flat_map (unspec_of_dim m q) [4; 3; 2; 1]%nat else q.

(* ---------- float32 words ---------- *)
(* the integer a float32 word denotes, when it is one in the int32 range: exactly the numbers whose
   AppendFloat(v,'f',-1,64) text ParseInt(s,10,32) accepts ("-0" parses as 0) *)
Definition int_of_f32 (w : N) : option Z :=
  let s := w / 2 ^ 31 in let e := (w / 2 ^ 23) mod 256 in let m := w mod 2 ^ 23 in
  let sg (v : N) := if s =? 0 then Z.of_N v else (- Z.of_N v)%Z in
  let inr (z : Z) := if ((-2147483648 <=? z) && (z <=? 2147483647))%Z then Some z else None in
  if e =? 0 then (if m =? 0 then Some 0%Z else None)
  else if (e <? 127) || (158 <? e) then None
  else if 150 <=? e then inr (sg ((2 ^ 23 + m) * 2 ^ (e - 150)))
  else if (2 ^ 23 + m) mod 2 ^ (150 - e) =? 0 then inr (sg ((2 ^ 23 + m) / 2 ^ (150 - e))) else None.
(* byte(math.Round(x*255)) for 0 <= x <= 1 (the ASCII writers clamp, the binary ones wrap: outside [0,1]
   they differ and the model gives up) *)
Definition q255 (w : N) : result N :=
  let s := w / 2 ^ 31 in let e := (w / 2 ^ 23) mod 256 in let m := w mod 2 ^ 23 in
  if w mod 2 ^ 31 =? 0 then Ok 0
  else if negb (s =? 0) then Err EUnsupported
  else if e =? 0 then Ok 0
  else if (127 <? e) || ((e =? 127) && negb (m =? 0)) then Err EUnsupported
  else let num := (2 ^ 23 + m) * 255 in let sh := 150 - e in Ok (N.min 255 ((2 * num + 2 ^ sh) / 2 ^ (sh + 1))).
Definition twos32 (z : Z) : N := if (z <? 0)%Z then Z.to_N (z + 4294967296) else Z.to_N z.

(* Values outside float32 (custom int / double writers): a mesh value v is
     v < 2^32                a float32 word (the only domain the theorems speak about);
     2^32 <= v < 2^33        the integer (v - 2^32) - 2^31 of the int32 range (float64 holds it exactly);
     2^64 <= v               the float64 with bit pattern v - 2^64. *)
Definition int_of_f64 (v : N) : option Z :=
  let s := v / 2 ^ 63 in let e := (v / 2 ^ 52) mod 2048 in let m := v mod 2 ^ 52 in
  let sg (x : N) := if s =? 0 then Z.of_N x else (- Z.of_N x)%Z in
  let inr (z : Z) := if ((-2147483648 <=? z) && (z <=? 2147483647))%Z then Some z else None in
  if e =? 0 then (if m =? 0 then Some 0%Z else None)
  else if (e <? 1023) || (1054 <? e) then None
  else if (2 ^ 52 + m) mod 2 ^ (1075 - e) =? 0 then inr (sg ((2 ^ 52 + m) / 2 ^ (1075 - e))) else None.
Definition wide_int (w : N) : Z := (Z.of_N (w - 2 ^ 32) - 2147483648)%Z.
Definition as_int (w : N) : option Z :=
  if w <? 2 ^ 32 then int_of_f32 w else if w <? 2 ^ 33 then Some (wide_int w)
  else if 2 ^ 64 <=? w then int_of_f64 (w - 2 ^ 64) else None.
Definition as_f64 (w : N) : option N :=
  if w <? 2 ^ 32 then Some (cvF w) else if w <? 2 ^ 33 then Some (cvI (wide_int w))
  else if 2 ^ 64 <=? w then Some (w - 2 ^ 64) else None.

(* the word a binary property writer stores for value w (builtVector*PropertyWriter.Write) *)
Definition bword (t : sty) (w : N) : result N :=
  match t with
  | Float => Ok w                                                          (* float32-exact values only *)
  | Double => of_opt EUnsupported (as_f64 w)
  | UChar => q255 w
  | Int => dor z <- of_opt EUnsupported (as_int w); Ok (twos32 z)          (* uint32(v), integral v only *)
  | _ => Err EDeclared                                                     (* panic("unimplemented ...") *)
  end.
(* the token an ASCII property writer prints *)
Definition ftok (w : N) : tok := match int_of_f32 w with Some z => TI z (cvF w) | None => TF (cvF w) end.
Definition itok (z : Z) : tok := TI z (cvI z).
Definition dtok (w : N) : result tok :=
  dor f <- of_opt EUnsupported (as_f64 w); Ok (match as_int w with Some z => TI z f | None => TF f end).
Definition atok (t : sty) (w : N) : result tok :=
  match t with
  | Float => Ok (ftok w)
  | Double => dtok w
  | UChar => dor b <- q255 w; Ok (itok (Z.of_N b))
  | Int | UInt | Short | UShort => dor z <- of_opt EUnsupported (as_int w); Ok (itok z)
  | Char => Err EDeclared
  end.

(* ---------- vertex element ---------- *)
(* what one property writer contributes: property names, their common type, one row of float32 words per
   vertex ([rg_attr] is only used on the reading side) *)
Record rgroup := { rg_attr : string; rg_names : list string; rg_ty : sty; rg_rows : list (list N) }.
Definition group_of (m : wmesh) (w : pw) : rgroup :=
  {| rg_attr := pw_attr w; rg_names := pw_names w; rg_ty := pw_ty w; rg_rows := attr_rows m (pw_dim w) (pw_attr w) |}.
Definition grow (g : rgroup) (i : nat) : result (list N) := of_opt ECrash (nth_error (rg_rows g) i).   (* arr.At(i) *)
(* one vertex: the words / tokens of every writer in order *)
Definition vertex_words (gs : list rgroup) (i : nat) : result (list (sty * N)) :=
  dor l <- mapR (fun g => dor r <- grow g i; mapR (fun x => dor s <- bword (rg_ty g) x; Ok (rg_ty g, s)) r) gs;
  Ok (List.concat l).
Definition vertex_toks (gs : list rgroup) (i : nat) : result (list tok) :=
  dor l <- mapR (fun g => dor r <- grow g i; mapR (atok (rg_ty g)) r) gs; Ok (List.concat l).
Definition enc_of (f : fmt) : endian := match f with BinBE => BEnd | _ => LEnd end.
Definition enc_words (e : endian) (l : list (sty * N)) : list N := flat_map (fun '(t, w) => enc_word e t w) l.

(* ---------- face element (writeBinaryTriTopo / writeAsciiTriTopo) ---------- *)
Fixpoint tris (idx : list nat) : list (nat * nat * nat) :=
  match idx with a :: b :: c :: r => (a, b, c) :: tris r | _ => [] end.
Definition has_tex (m : wmesh) : bool := has_attr m 2 "TexCoord".
Definition uv_at (m : wmesh) (i : nat) : result (list N) := of_opt ECrash (nth_error (attr_rows m 2 "TexCoord") i).
(* the six texture-coordinate words of a face, gathered per corner through the index *)
Definition face_uvs (m : wmesh) (t : nat * nat * nat) : result (list N) :=
  let '(a, b, c) := t in dor x <- uv_at m a; dor y <- uv_at m b; dor z <- uv_at m c; Ok (firstn 2 x ++ firstn 2 y ++ firstn 2 z).
Definition face_bin_rec (e : endian) (m : wmesh) (t : nat * nat * nat) : result (list N) :=
  let '(a, b, c) := t in
  let ix := [3] ++ enc_word e Int (N.of_nat a) ++ enc_word e Int (N.of_nat b) ++ enc_word e Int (N.of_nat c) in
  if has_tex m then dor uv <- face_uvs m t; Ok (ix ++ [6] ++ flat_map (enc_word e Float) uv) else Ok ix.
Definition ntok (k : nat) : tok := itok (Z.of_nat k).
Definition face_ascii_line (m : wmesh) (t : nat * nat * nat) : result (list tok) :=
  let '(a, b, c) := t in
  let ix := [ntok 3; ntok a; ntok b; ntok c] in
  if has_tex m then dor uv <- face_uvs m t; Ok (ix ++ [ntok 6] ++ map ftok uv) else Ok ix.

(* ---------- header (Header.Write, Element.Write, ScalarProperty.Write, ListProperty.Write) ---------- *)
Definition group_props (g : rgroup) : list prop := map (PScalar (rg_ty g)) (rg_names g).
Definition vertex_props (gs : list rgroup) : list prop := flat_map group_props gs.
Definition face_props (m : wmesh) : list prop :=
  PList UChar Int "vertex_indices" :: (if has_tex m then [PList UChar Float "texcoord"] else []).
Definition nprims (m : wmesh) : nat := match w_topo m with TTriangle => (List.length (w_idx m) / 3)%nat | TPoint => List.length (w_idx m) end.
Definition header_elems (gs : list rgroup) (m : wmesh) : list element :=
  {| e_name := "vertex"; e_count := Z.of_nat (w_n m); e_props := vertex_props gs |} ::
  match w_topo m with
  | TTriangle => [{| e_name := "face"; e_count := Z.of_nat (nprims m); e_props := face_props m |}]
  | TPoint => []
  end.
Definition comment_line : list string := ["comment"; "Created"; "with"; "github.com/EliCDavis/polyform"]%string.
Definition header_lines (f : fmt) (es : list element) : list (list string) :=
  (["ply"] :: ["format"; fmt_name f; "1.0"] :: comment_line :: flat_map elem_lines es ++ [["end_header"]])%string.

(* ---------- MeshWriter.Write ---------- *)
Definition write_body (f : fmt) (gs : list rgroup) (m : wmesh) : result body :=
  let vs := seq 0 (w_n m) in
  let ts := match w_topo m with TTriangle => tris (w_idx m) | TPoint => [] end in
  match f with
  | ASCII =>
      dor vl <- mapR (vertex_toks gs) vs;
      dor fl <- mapR (face_ascii_line m) ts;
      (* no property writer at all: the inner loop never runs and no line is written *)
      Ok (BodyAscii ((match gs with [] => [] | _ => vl end) ++ fl))
  | _ =>
      dor vl <- mapR (vertex_words gs) vs;
      (* indices.Len() not a multiple of 3: indices.At(i+1) out of range *)
      if (match w_topo m with TTriangle => negb (Nat.eqb (List.length (w_idx m) mod 3) 0) | TPoint => false end) then Err ECrash else
      dor fl <- mapR (face_bin_rec (enc_of f) m) ts;
      Ok (BodyBin (flat_map (enc_words (enc_of f)) vl ++ List.concat fl))
  end.
Definition write (o : wopts) (f : fmt) (m : wmesh) : result plyfile :=
  let gs := map (group_of m) (effective_writers o m) in
  dor b <- write_body f gs m;
  Ok {| pf_header := header_lines f (header_elems gs m); pf_body := b |}.

(* ---------- what ply.ReadMesh returns for a file written by ply.Write (default table) ---------- *)
(* the float64 polyform stores when it reads back the stored image of value w *)
Definition val (t : sty) (w : N) : result N :=
  match t with
  | Float => Ok (cvF w)
  | Double => of_opt EUnsupported (as_f64 w)
  | UChar => dor b <- q255 w; div255_byte b
  | _ => Err EUnsupported
  end.
(* reader's view of the vertex properties: recognised groups stay groups, every other property is a scalar *)
Definition is_default_writer (w : pw) : bool :=
  existsb (fun d => Nat.eqb (pw_dim d) (pw_dim w) && seqb (pw_attr d) (pw_attr w)) default_writers
  || (Nat.eqb (pw_dim w) 2 && seqb (pw_attr w) "TexCoord").     (* written as s, t: the reader's TexCoord group *)
Definition split_group (g : rgroup) : list rgroup :=
  map (fun '(j, n) => {| rg_attr := n; rg_names := [n]; rg_ty := rg_ty g; rg_rows := map (fun r => [nth j r 0]) (rg_rows g) |})
      (combine (seq 0 (List.length (rg_names g))) (rg_names g)).
Definition rview_of (m : wmesh) (w : pw) : list rgroup :=
  if is_default_writer w then [group_of m w] else split_group (group_of m w).
Definition rview (o : wopts) (m : wmesh) : list rgroup := flat_map (rview_of m) (effective_writers o m).
Definition rgroup_attr (g : rgroup) : result attr :=
  dor data <- mapR (mapR (val (rg_ty g))) (rg_rows g); Ok (List.length (rg_names g), rg_attr g, data).
Definition zidx (l : list nat) : list Z := map Z.of_nat l.
(* [o] must use the default writer table ([default_writers], WriteUnspecifiedProperties on or off) *)
Definition expected (o : wopts) (m : wmesh) : result mesh :=
  dor attrs <- mapR rgroup_attr (rview o m);
  match w_topo m with
  | TPoint => Ok {| m_topo := TPoint; m_idx := iota (w_n m); m_attrs := attrs |}
  | TTriangle =>
      let idx := zidx (w_idx m) in
      if has_tex m && negb (Nat.eqb (nprims m) 0) then
        (* per-corner texture coordinates: the reader unwelds *)
        dor uvw <- mapR (face_uvs m) (tris (w_idx m));
        dor ua <- unweld_attrs attrs idx;
        Ok {| m_topo := TTriangle; m_idx := iota (List.length idx);
              m_attrs := set_attr 2 "TexCoord" (pairs (map cvF (List.concat uvw))) ua |}
      else Ok {| m_topo := TTriangle; m_idx := idx; m_attrs := attrs |}
  end.

(* ---------- well-formed input of ply.Write ---------- *)
Definition reserved_names : list string := flat_map g_members default_groups.
(* the property writers the unspecified loops add for user-named attributes, and the property names they use *)
Definition user_writers (m : wmesh) : list pw :=
  filter (fun w => negb (is_default_writer w))
         (flat_map (unspec_of_dim m (filter (qualifies m) default_writers)) [4; 3; 2; 1]%nat).
Definition user_names (m : wmesh) : list string := flat_map pw_names (user_writers m).
(* The reader turns properties into a vector attribute only when a whole group of its table is in the file.  A user
   name may be a member of such a group ("t", "alpha", "px", "scale_0" ...) as long as the user names do not COMPLETE
   it: either no user name is a member, or some member is in the file under no name at all (for the colour groups, whose
   alpha is optional, the same for the first three members). *)
Definition default_prop_names (m : wmesh) : list string := flat_map pw_names (filter (qualifies m) default_writers).
Definition absentb (l : list string) (n : string) : bool := negb (existsb (seqb n) l).
Definition grp_openb (ms all user : list string) : bool := forallb (absentb ms) user || existsb (absentb all) ms.
Definition group_openb (g : group) (all user : list string) : bool :=
  match g_members g with
  | [m0] => forallb (absentb [m0]) user
  | ms => grp_openb ms all user && (negb (g_ignorable_w g) || grp_openb (firstn 3 ms) all user)
  end.
Definition no_group_completedb (m : wmesh) : bool :=
  forallb (fun g => group_openb g (default_prop_names m ++ user_names m) (user_names m)) default_groups.
Definition row_okb (d : nat) (r : list N) : bool := Nat.eqb (List.length r) d && forallb word32b r.
Definition unit_okb (w : N) : bool := match q255 w with Ok _ => true | Err _ => false end.
Fixpoint nodupb (l : list string) : bool :=
  match l with [] => true | x :: r => negb (existsb (seqb x) r) && nodupb r end.
Fixpoint keys_nodupb (l : list wattr) : bool :=
  match l with [] => true | x :: r => negb (existsb (is_attr (wa_dim x) (wa_name x)) r) && keys_nodupb r end.
Definition wf_attr (n : nat) (x : wattr) : bool :=
  (1 <=? wa_dim x)%nat && (wa_dim x <=? 4)%nat && Nat.eqb (List.length (wa_rows x)) n && forallb (row_okb (wa_dim x)) (wa_rows x)
  && (if is_attr 3 "Color" x then forallb (forallb unit_okb) (wa_rows x) else true).
Definition wf_mesh (m : wmesh) : bool :=
  forallb (wf_attr (w_n m)) (w_attrs m)
  && keys_nodupb (w_attrs m)                                                   (* one attribute per (dimension, name) *)
  && (match w_attrs m with [] => Nat.eqb (w_n m) 0 | _ => negb (Nat.eqb (w_n m) 0) end)
  && nodupb (default_prop_names m ++ user_names m)                              (* no property name twice *)
  && no_group_completedb m                                                      (* user names complete no reader group *)
  && negb (existsb (seqb "Opacity") (user_names m))      (* a scalar property `Opacity` would collide with the attribute *)
  && match w_topo m with
     | TPoint => list_eqb Nat.eqb (w_idx m) (seq 0 (w_n m))                   (* NewPointCloud: identity indices *)
     | TTriangle => Nat.eqb (List.length (w_idx m) mod 3) 0 && forallb (fun i => (i <? w_n m)%nat) (w_idx m)
                    && (N.of_nat (w_n m) <? 2147483648)
     end.
