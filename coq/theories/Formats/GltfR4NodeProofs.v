(* C06 proofs, round 4: the node-by-node geometry clauses of the checker ([node_geom_check]: node-name,
   node-trs, node-kind, primitive-mode, attribute-set, attribute-image, position-bounds, index-image,
   index-width, view-target, instances) in the checker's own boolean form, on the model's document. *)
From PF Require Import Base.Bytes Base.BytesProofs Formats.Gltf Formats.GltfProofs Formats.GltfDedupProofs
  Formats.GltfNodeProofs Formats.GltfFinalProofs Formats.GltfGeomProofs.
From Coq Require Import ZifyN ZifyNat ZifyBool.
From Coq Require String.
Import String.StringSyntax.
Ltac Zify.zify_post_hook ::= Z.div_mod_to_equations.
Open Scope list_scope.
Open Scope N_scope.

(* ------------------------------------------------------------------ small facts about the checker's helpers *)
Lemma str_in_In s l : In s l -> str_in s l = true.
Proof. intros H. unfold str_in. apply existsb_exists. exists s. split; [exact H|apply String.eqb_refl]. Qed.
Lemma subset_str_refl l : subset_str l l = true.
Proof. unfold subset_str. apply forallb_forall. intros s Hs. apply str_in_In, Hs. Qed.
Lemma set_eqb_refl l : set_eqb l l = true.
Proof. unfold set_eqb. rewrite subset_str_refl, Nat.eqb_refl. reflexivity. Qed.

Lemma app_nil2 {A} (a b : list A) : a = [] -> b = [] -> a ++ b = [].
Proof. intros -> ->. reflexivity. Qed.

Lemma want_attrs_keys m : map fst (want_attrs m) = map (fun nv => gltf_name (fst nv)) (all_attrs m).
Proof. unfold want_attrs, all_attrs. rewrite !map_app, !map_map. reflexivity. Qed.

Lemma want_attrs_In m w : In w (want_attrs m) ->
  exists k nv, attr_of m k nv /\ w = (gltf_name (fst nv), (comp_code (attr_comp (fst nv)), k, snd nv)).
Proof.
  unfold want_attrs, attr_of. rewrite !in_app_iff, !in_map_iff.
  intros [(nv & <- & H)|[(nv & <- & H)|(nv & <- & H)]]; [exists 4, nv|exists 3, nv|exists 2, nv]; (split; [|reflexivity]).
  - left. auto.
  - right. left. auto.
  - right. right. auto.
Qed.

Lemma amap_get_Some_In k a v : amap_get k a = Some v -> In (k, v) a.
Proof.
  induction a as [|[k' v'] a IH]; cbn [amap_get In]; [discriminate|].
  destruct (String.eqb k k') eqn:E.
  - apply String.eqb_eq in E. subst k'. intros H. apply some_inj in H. subst v'. left. reflexivity.
  - intros H. right. apply IH, H.
Qed.

Lemma minmax_len c k d : len (fst (minmax c k d)) = k /\ len (snd (minmax c k d)) = k.
Proof. unfold minmax, minmax_of, len. cbn [fst snd]. rewrite !map_length, !seq_length, N2Nat.id. auto. Qed.

Lemma index_comp_code n : is_index_comp (comp_code (index_comp n)) = true.
Proof. unfold index_comp. destruct (65535 <? n); reflexivity. Qed.

(* ------------------------------------------------------------------ accessor n of a canonical document *)
Section Canonical.
Variable s : summary.
Variable cks : list chunk.
Hypothesis Ha : s_accs s = accs_of 0 cks.
Hypothesis Hv : s_views s = views_of 0 cks.

Lemma nthN_acc ai ck : nth_error cks (N.to_nat ai) = Some ck -> nthN (s_accs s) ai = Some (acc_of ai ck).
Proof.
  intros H. unfold nthN. rewrite Ha. destruct (acc_view_of cks _ ck H) as (E & _). rewrite E, N2Nat.id. reflexivity.
Qed.

Lemma acc_target_of ai ck : nth_error cks (N.to_nat ai) = Some ck ->
  acc_target s ai = Some (if is_idx_comp (ck_comp ck) then 34963 else 34962).
Proof.
  intros H. unfold acc_target. rewrite (nthN_acc _ _ H). cbn [bind a_view acc_of]. unfold nthN. rewrite Hv.
  destruct (acc_view_of cks _ ck H) as (_ & E). rewrite E. reflexivity.
Qed.

Lemma has_bounds_of ai ck : nth_error cks (N.to_nat ai) = Some ck -> is_idx_comp (ck_comp ck) = false ->
  has_bounds s ai = true.
Proof.
  intros H Hc. unfold has_bounds. rewrite (nthN_acc _ _ H). cbn [a_min a_max a_k acc_of]. rewrite Hc.
  destruct (minmax_len (ck_comp ck) (ck_k ck) (ck_data ck)) as (-> & ->). rewrite N.eqb_refl. reflexivity.
Qed.
End Canonical.

Lemma inst_keys (t s r : N) :
  set_eqb (map fst [("TRANSLATION"%string, t); ("SCALE"%string, s); ("ROTATION"%string, r)])
          ["TRANSLATION"; "SCALE"; "ROTATION"]%string = true.
Proof. reflexivity. Qed.
Lemma inst_get (t s r : N) :
  amap_get "TRANSLATION" [("TRANSLATION"%string, t); ("SCALE"%string, s); ("ROTATION"%string, r)] = Some t /\
  amap_get "SCALE" [("TRANSLATION"%string, t); ("SCALE"%string, s); ("ROTATION"%string, r)] = Some s /\
  amap_get "ROTATION" [("TRANSLATION"%string, t); ("SCALE"%string, s); ("ROTATION"%string, r)] = Some r.
Proof. repeat split. Qed.

(* ------------------------------------------------------------------ the clauses, node by node *)
Theorem node_geom_check_run : forall sc, scene_ok sc -> scene_ptr_ok sc ->
  (forall mo, In mo (sc_models sc) -> names_ok (mo_mesh mo)) ->
  forall mo nd, In (mo, nd) (combine (filter live (sc_models sc)) (model_nodes sc)) ->
  node_geom_check (to_summary (run sc)) (Some (buf (run sc))) mo nd = [].
Proof.
  intros sc Hok Hp Hnames mo nd Hin.
  destruct (model_nodes_spec sc Hp) as (_ & H).
  destruct (Forall2_combine_In _ _ _ _ _ H Hin) as (mi & p & ii & D). clear H.
  assert (Hmo : In mo (sc_models sc)).
  { apply in_combine_l in Hin. apply filter_In in Hin. tauto. }
  assert (Hmok : model_ok mo) by (unfold scene_ok in Hok; rewrite Forall_forall in Hok; auto).
  destruct Hmok as (Hmesh & Hinst).
  pose proof (Hnames mo Hmo) as Hnm.
  destruct (run_chunks_ok sc Hok) as (cks & Hk & E).
  pose proof (acc_is_run sc Hok) as AccIs. cbv zeta in AccIs.
  destruct D as [D1 (D2 & D3 & D4) (D5 & D6) (gm & D7 & D8) (D9 & D10 & D11) _ _ D12].
  set (st := run sc) in *. set (s := to_summary st) in *. set (m := mo_mesh mo) in *.
  assert (Ecks : b_chunks (st_b st) = cks) by (rewrite E; reflexivity).
  rewrite Ecks in *.
  assert (Ha : s_accs s = accs_of 0 cks) by (unfold s, to_summary; cbn [s_accs]; rewrite E; reflexivity).
  assert (Hv : s_views s = views_of 0 cks) by (unfold s, to_summary; cbn [s_views]; rewrite E; reflexivity).
  (* the chunks behind the primitive *)
  pose proof (entry_idx _ _ _ _ D11) as Hidx.
  destruct (entry_complete _ _ _ _ Hnm D11) as (Hlen & Hcomp).
  destruct Hmesh as (_ & _ & _ & Hi & Hn32).
  destruct (index_values_kept (me_idx m) (attr_len m) Hi Hn32) as (Edata & Hwidth & _).
  unfold node_geom_check.
  apply app_nil2; [apply key_if_true; rewrite D1; apply String.eqb_refl|].
  apply app_nil2; [apply key_if_true; rewrite D2, D3, D4, !opt_listN_eqb_refl; reflexivity|].
  apply app_nil2; [apply key_if_true; rewrite D5; reflexivity|].
  apply app_nil2.
  - rewrite D6. unfold nthN at 1. change (s_meshes s) with (st_meshes st). cbv beta iota. rewrite D7, D8. cbv beta iota zeta.
    fold m.
    apply app_nil2; [apply key_if_true; rewrite D10; unfold mode_of; apply optN_eqb_refl|].
    apply app_nil2.
    { (* attribute-set *)
      apply key_if_true. rewrite want_attrs_keys.
      destruct D11 as (pre & post & _ & E11). inversion E11 as [[E1 E2]]. rewrite E1, (mesh_attrs_indexed _ _ Hnm), indexed_keys.
      apply set_eqb_refl. }
    apply app_nil2.
    { (* attribute-image *)
      apply key_if_true. apply forallb_forall. intros w Hw. destruct (want_attrs_In _ _ Hw) as (k & nv & Hat & ->).
      cbn [fst snd]. destruct (Hcomp k nv Hat) as (ai & -> & Hck).
      pose proof (AccIs (N.to_nat ai) _ Hck) as A. rewrite N2Nat.id in A. exact A. }
    apply app_nil2.
    { (* position-bounds *)
      apply key_if_true. destruct (amap_get "POSITION" (gp_attrs p)) as [ai|] eqn:Eg; [|reflexivity].
      apply amap_get_Some_In in Eg. destruct (entry_attr _ _ _ _ _ _ D11 Eg) as (k & nv & _ & _ & Hck).
      apply (has_bounds_of s cks Ha ai _ Hck). apply attr_comp_not_idx. }
    apply app_nil2.
    { (* index-image *)
      apply key_if_true. rewrite D9. rewrite (nthN_acc s cks Ha ii _ Hidx). cbn [a_comp acc_of ck_comp idx_chunk].
      rewrite index_comp_code. cbn [andb].
      pose proof (AccIs (N.to_nat ii) _ Hidx) as A. rewrite N2Nat.id, Edata in A. exact A. }
    apply app_nil2.
    { (* index-width *)
      apply key_if_true. rewrite D9. rewrite (nthN_acc s cks Ha ii _ Hidx). cbn [a_comp acc_of ck_comp idx_chunk].
      rewrite code_size_comp. apply forallb_forall. intros i Hi'. rewrite Forall_forall in Hwidth. specialize (Hwidth i Hi').
      rewrite N.pow_mul_r. change (2 ^ 8) with 256. lia. }
    (* view-target *)
    apply key_if_true. unfold targets_ok. apply andb_true_iff. split.
    + apply forallb_forall. intros [name ai] Hkv. cbn [snd].
      destruct (entry_attr _ _ _ _ _ _ D11 Hkv) as (k & nv & _ & _ & Hck).
      rewrite (acc_target_of s cks Ha Hv ai _ Hck). cbn [ck_comp attr_chunk vec_chunk]. rewrite attr_comp_not_idx. reflexivity.
    + rewrite D9, (acc_target_of s cks Ha Hv ii _ Hidx). cbn [ck_comp idx_chunk]. rewrite index_comp_idx. reflexivity.
  - (* instances *)
    apply key_if_true. unfold inst_for in D12. destruct (mo_inst mo) as [|i0 ins] eqn:Ei.
    + destruct D12 as (-> & _). reflexivity.
    + destruct D12 as (pre & post & Ec & -> & ->). set (l := i0 :: ins) in *.
      assert (N0 : nth_error cks (N.to_nat (len pre)) = Some (vec_chunk 3 CFloat (plain (map in_t l)))).
      { rewrite Ec. unfold len. rewrite Nat2N.id, nth_error_app2, Nat.sub_diag by lia. reflexivity. }
      assert (N1 : nth_error cks (N.to_nat (len pre + 1)) = Some (vec_chunk 3 CFloat (plain (map in_s l)))).
      { rewrite Ec. unfold len. replace (N.to_nat (N.of_nat (length pre) + 1)) with (length pre + 1)%nat by lia.
        rewrite nth_error_app2 by lia. replace (length pre + 1 - length pre)%nat with 1%nat by lia. reflexivity. }
      assert (N2 : nth_error cks (N.to_nat (len pre + 2)) = Some (vec_chunk 4 CFloat (plain (map in_r l)))).
      { rewrite Ec. unfold len. replace (N.to_nat (N.of_nat (length pre) + 2)) with (length pre + 2)%nat by lia.
        rewrite nth_error_app2 by lia. replace (length pre + 2 - length pre)%nat with 2%nat by lia. reflexivity. }
      rewrite inst_keys. destruct (inst_get (len pre) (len pre + 1) (len pre + 2)) as (-> & -> & ->).
      pose proof (AccIs _ _ N0) as A0. pose proof (AccIs _ _ N1) as A1. pose proof (AccIs _ _ N2) as A2.
      rewrite N2Nat.id in A0, A1, A2. cbn [ck_comp ck_k ck_data vec_chunk comp_code] in A0, A1, A2.
      rewrite A0, A1, A2. reflexivity.
Qed.
