(* C06 proofs: invariants of the writer state machine of Formats/Gltf.v. *)
From PF Require Import Base.Bytes Base.BytesProofs Formats.Gltf.
