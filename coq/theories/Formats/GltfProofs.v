(* C06 proofs: invariants of the writer state machine of Formats/Gltf.v.
   Part A: the buffer side of the state (views, accessors, bytes written) is a function of the list of
   chunks written so far ([canon]); tiling, fitting and decoding are then facts about that function. *)
From PF Require Import Base.Bytes Base.BytesProofs Formats.Gltf.
From Coq Require Import ZifyN ZifyNat ZifyBool.
From Coq Require String.
Import String.StringSyntax.
Delimit Scope string_scope with string.
Ltac Zify.zify_post_hook ::= Z.div_mod_to_equations.
Open Scope list_scope.
Open Scope N_scope.

(* ------------------------------------------------------------------ canonical form *)
Definition is_idx_comp (c : comp) : bool := match c with CUShort | CUInt => true | _ => false end.
Definition ck_count (ck : chunk) : N := vcount (ck_data ck).
Definition ck_size (ck : chunk) : N := ck_count ck * ck_k ck * comp_size (ck_comp ck).
Fixpoint total (cks : list chunk) : N := match cks with [] => 0 | ck :: r => ck_size ck + total r end.

Definition view_of (off : N) (ck : chunk) : view :=
  {| v_buf := 0; v_off := off; v_len := ck_size ck;
     v_target := if is_idx_comp (ck_comp ck) then 34963 else 34962 |}.
Definition acc_of (i : N) (ck : chunk) : accessor :=
  {| a_view := Some i; a_off := 0; a_comp := comp_code (ck_comp ck); a_k := ck_k ck; a_count := ck_count ck;
     a_min := if is_idx_comp (ck_comp ck) then [] else fst (minmax (ck_comp ck) (ck_k ck) (ck_data ck));
     a_max := if is_idx_comp (ck_comp ck) then [] else snd (minmax (ck_comp ck) (ck_k ck) (ck_data ck)) |}.
Fixpoint views_of (off : N) (cks : list chunk) : list view :=
  match cks with [] => [] | ck :: r => view_of off ck :: views_of (off + ck_size ck) r end.
Fixpoint accs_of (i : N) (cks : list chunk) : list accessor :=
  match cks with [] => [] | ck :: r => acc_of i ck :: accs_of (i + 1) r end.

Definition canon (b : bufst) : Prop :=
  b_views b = views_of 0 (b_chunks b) /\ b_accs b = accs_of 0 (b_chunks b) /\ b_written b = total (b_chunks b).

Lemma total_app a b : total (a ++ b) = total a + total b.
Proof. induction a; cbn [total app]; lia. Qed.
Lemma views_of_app off a b : views_of off (a ++ b) = views_of off a ++ views_of (off + total a) b.
Proof.
  revert off; induction a as [|x a IH]; intros off; cbn [views_of app total].
  - f_equal. lia.
  - rewrite IH. do 3 f_equal. lia.
Qed.
Lemma accs_of_app i a b : accs_of i (a ++ b) = accs_of i a ++ accs_of (i + len a) b.
Proof.
  revert i; induction a as [|x a IH]; intros i; cbn [accs_of app].
  - f_equal. unfold len. cbn. lia.
  - rewrite IH. do 3 f_equal. unfold len. cbn [length]. lia.
Qed.
Lemma views_of_length off cks : length (views_of off cks) = length cks.
Proof. revert off; induction cks; intros; cbn [views_of length]; auto. Qed.
Lemma accs_of_length i cks : length (accs_of i cks) = length cks.
Proof. revert i; induction cks; intros; cbn [accs_of length]; auto. Qed.

Lemma vcount_plain (l : list elem) : vcount (plain l) = len l.
Proof.
  unfold vcount, plain, len. induction l; cbn [map fold_right length fst]; [reflexivity|].
  rewrite IHl. lia.
Qed.

Lemma canon_init : canon init_b.
Proof. repeat split. Qed.

Lemma canon_write_vec k c d b : is_idx_comp c = false -> canon b -> canon (write_vec k c d b).
Proof.
  intros Hc (Hv & Ha & Hw). unfold canon, write_vec. cbn [b_views b_accs b_written b_chunks].
  rewrite views_of_app, accs_of_app, total_app. cbn [views_of accs_of total].
  rewrite Hv, Ha, Hw. unfold view_of, acc_of, ck_size, ck_count. cbn [ck_comp ck_k ck_data]. rewrite Hc.
  unfold len. rewrite ?views_of_length, ?accs_of_length, !N.add_0_l, ?N.add_0_r.
  repeat split; reflexivity.
Qed.

Lemma index_comp_idx n : is_idx_comp (index_comp n) = true.
Proof. unfold index_comp. destruct (65535 <? n); reflexivity. Qed.

Lemma canon_write_indices idx n b : canon b -> canon (write_indices idx n b).
Proof.
  intros (Hv & Ha & Hw). unfold canon, write_indices. cbn [b_views b_accs b_written b_chunks].
  rewrite views_of_app, accs_of_app, total_app. cbn [views_of accs_of total].
  rewrite Hv, Ha, Hw. unfold view_of, acc_of, ck_size, ck_count. cbn [ck_comp ck_k ck_data].
  rewrite index_comp_idx, vcount_plain. unfold len. rewrite ?views_of_length, ?accs_of_length, ?map_length, !N.add_0_l, ?N.add_0_r, !N.mul_1_r.
  repeat split; reflexivity.
Qed.

(* a canonical buffer state is determined by its chunk list *)
Definition of_chunks (cks : list chunk) : bufst :=
  {| b_written := total cks; b_chunks := cks; b_accs := accs_of 0 cks; b_views := views_of 0 cks |}.
Lemma canon_of_chunks b : canon b -> b = of_chunks (b_chunks b).
Proof. destruct b as [w c a v]. unfold canon, of_chunks. cbn. intros (-> & -> & ->). reflexivity. Qed.
Lemma of_chunks_canon cks : canon (of_chunks cks).
Proof. repeat split. Qed.

Definition vec_chunk (k : N) (c : comp) (d : vdata) : chunk := {| ck_comp := c; ck_k := k; ck_data := d |}.
Definition idx_chunk (idx : list N) (attr_len : N) : chunk :=
  let c := index_comp attr_len in {| ck_comp := c; ck_k := 1; ck_data := plain (map (fun i => [index_word c i]) idx) |}.

Lemma write_vec_of k c d cks : is_idx_comp c = false ->
  write_vec k c d (of_chunks cks) = of_chunks (cks ++ [vec_chunk k c d]).
Proof.
  intros Hc. pose proof (canon_write_vec k c d _ Hc (of_chunks_canon cks)) as H.
  apply canon_of_chunks in H. exact H.
Qed.
Lemma write_indices_of idx n cks :
  write_indices idx n (of_chunks cks) = of_chunks (cks ++ [idx_chunk idx n]).
Proof.
  pose proof (canon_write_indices idx n _ (of_chunks_canon cks)) as H.
  apply canon_of_chunks in H. exact H.
Qed.

Lemma attr_comp_not_idx name : is_idx_comp (attr_comp name) = false.
Proof. unfold attr_comp. destruct (String.eqb name "Joint"%string); reflexivity. Qed.

Lemma len_accs_of_chunks cks : len (b_accs (of_chunks cks)) = len cks.
Proof. unfold len. cbn [b_accs of_chunks]. rewrite accs_of_length. reflexivity. Qed.

(* attribute table built by the three WriteVector loops of AddMesh *)
Fixpoint attrs_from (i : N) (attrs : list (string * vdata)) (a : list (string * N)) : list (string * N) :=
  match attrs with [] => a | nv :: r => attrs_from (i + 1) r (amap_set (gltf_name (fst nv)) i a) end.
Definition attr_chunk (k : N) (nv : string * vdata) : chunk := vec_chunk k (attr_comp (fst nv)) (snd nv).

Lemma len_snoc {A} (l : list A) x : len (l ++ [x]) = len l + 1.
Proof. unfold len. rewrite app_length. cbn [length]. lia. Qed.

Lemma write_attrs_of k attrs a cks :
  write_attrs k attrs (a, of_chunks cks)
  = (attrs_from (len cks) attrs a, of_chunks (cks ++ map (attr_chunk k) attrs)).
Proof.
  unfold write_attrs. revert a cks. induction attrs as [|nv r IH]; intros a cks; cbn [fold_left attrs_from map].
  - rewrite app_nil_r. reflexivity.
  - cbn [fst snd]. rewrite len_accs_of_chunks, write_vec_of by apply attr_comp_not_idx.
    rewrite IH. rewrite len_snoc, <- app_assoc. reflexivity.
Qed.

Definition mesh_chunks (m : pmesh) : list chunk :=
  map (attr_chunk 4) (me_v4 m) ++ map (attr_chunk 3) (me_v3 m) ++ map (attr_chunk 2) (me_v2 m)
  ++ [idx_chunk (me_idx m) (attr_len m)].
Definition mesh_attrs (i : N) (m : pmesh) : list (string * N) :=
  attrs_from (i + len (me_v4 m) + len (me_v3 m)) (me_v2 m)
    (attrs_from (i + len (me_v4 m)) (me_v3 m) (attrs_from i (me_v4 m) [])).
Definition mesh_idx_pos (i : N) (m : pmesh) : N := i + len (me_v4 m) + len (me_v3 m) + len (me_v2 m).

Lemma len_app' {A} (a b : list A) : len (a ++ b) = len a + len b.
Proof. unfold len. rewrite app_length. lia. Qed.
Lemma len_map {A B} (f : A -> B) l : len (map f l) = len l.
Proof. unfold len. rewrite map_length. reflexivity. Qed.

Lemma write_mesh_data_of m cks :
  write_mesh_data m (of_chunks cks)
  = ((mesh_attrs (len cks) m, mesh_idx_pos (len cks) m), of_chunks (cks ++ mesh_chunks m)).
Proof.
  unfold write_mesh_data. rewrite !write_attrs_of. cbn [fst snd].
  rewrite len_accs_of_chunks, write_indices_of.
  unfold mesh_attrs, mesh_idx_pos, mesh_chunks. rewrite !len_app', !len_map, <- !app_assoc. reflexivity.
Qed.

Definition inst_chunks (ins : list pinst) : list chunk :=
  [vec_chunk 3 CFloat (plain (map in_t ins)); vec_chunk 3 CFloat (plain (map in_s ins));
   vec_chunk 4 CFloat (plain (map in_r ins))].
Lemma write_instances_of ins cks :
  write_instances ins (of_chunks cks)
  = ([("TRANSLATION"%string, len cks); ("SCALE"%string, len cks + 1); ("ROTATION"%string, len cks + 2)],
     of_chunks (cks ++ inst_chunks ins)).
Proof.
  unfold write_instances. cbv zeta.
  rewrite !write_vec_of by reflexivity. rewrite !len_accs_of_chunks, !len_snoc.
  unfold inst_chunks. rewrite <- !app_assoc. cbn [app].
  replace (len cks + 1 + 1) with (len cks + 2) by lia. reflexivity.
Qed.

(* ------------------------------------------------------------------ the whole writer keeps the buffer canonical *)
Lemma add_material_b m s : st_b (snd (add_material m s)) = st_b s.
Proof.
  unfold add_material. destruct (find_mat m (st_mat_tab s)); [reflexivity|].
  destruct (build_material m (st_x s)). reflexivity.
Qed.

Lemma mesh_data_b m s : canon (st_b s) ->
  snd (fst (mesh_data m s)) = st_b s \/
  (lookupN (me_ptr m) (st_wr_tab s) = None /\
   mesh_data m s = ((mesh_attrs (len (b_chunks (st_b s))) m, mesh_idx_pos (len (b_chunks (st_b s))) m),
                    of_chunks (b_chunks (st_b s) ++ mesh_chunks m),
                    (me_ptr m, (mesh_attrs (len (b_chunks (st_b s))) m, mesh_idx_pos (len (b_chunks (st_b s))) m))
                      :: st_wr_tab s)).
Proof.
  intros Hc. unfold mesh_data. destruct (lookupN _ _) as [ai|]; [left; reflexivity|].
  right. split; [reflexivity|]. rewrite (canon_of_chunks _ Hc) at 1. rewrite write_mesh_data_of. reflexivity.
Qed.

Lemma resolve_material_b mo s : st_b (snd (resolve_material mo s)) = st_b s.
Proof.
  unfold resolve_material. destruct (mo_mat mo) as [pm|]; [|reflexivity].
  pose proof (add_material_b pm s) as E. destruct (add_material pm s). exact E.
Qed.

(* every step of the writer appends chunks to a canonical buffer state; the appended chunks satisfy [P]
   whenever the models satisfy [Q] *)
Section Extends.
Variable P : chunk -> Prop.
Variable Q : pmodel -> Prop.
(* only models with a primitive write their mesh, only non-empty instance lists are written *)
Hypothesis Q_mesh : forall mo, Q mo -> (prim_count (mo_mesh mo) =? 0) = false -> Forall P (mesh_chunks (mo_mesh mo)).
Hypothesis Q_inst : forall mo, Q mo -> mo_inst mo <> [] -> Forall P (inst_chunks (mo_inst mo)).

Definition extends (b b' : bufst) : Prop := exists ext, Forall P ext /\ b' = of_chunks (b_chunks b ++ ext).
Lemma extends_refl b : canon b -> extends b b.
Proof. intros H. exists []. split; [constructor|]. rewrite app_nil_r. apply canon_of_chunks, H. Qed.
Lemma extends_canon b b' : extends b b' -> canon b'.
Proof. intros (e & _ & ->). apply of_chunks_canon. Qed.
Lemma extends_trans a b c : extends a b -> extends b c -> extends a c.
Proof.
  intros (e1 & H1 & ->) (e2 & H2 & ->). exists (e1 ++ e2). split; [apply Forall_app; auto|].
  cbn [b_chunks of_chunks]. rewrite app_assoc. reflexivity.
Qed.

Lemma place_mesh_b mo mati s : Q mo -> (prim_count (mo_mesh mo) =? 0) = false -> canon (st_b s) ->
  extends (st_b s) (st_b (snd (place_mesh mo mati s))).
Proof.
  intros HQ Hlive Hc. unfold place_mesh. destruct (find_mesh _ _); [apply extends_refl, Hc|].
  destruct (mesh_data_b (mo_mesh mo) s Hc) as [E|(_ & E)].
  - destruct (mesh_data (mo_mesh mo) s) as [[ai b] wr]. cbn [fst snd st_b] in *. subst b. apply extends_refl, Hc.
  - rewrite E. cbn [snd st_b]. eexists. split; [apply Q_mesh; [exact HQ|exact Hlive]|reflexivity].
Qed.

Lemma add_mesh_b mo s : Q mo -> canon (st_b s) -> extends (st_b s) (st_b (snd (add_mesh mo s))).
Proof.
  intros HQ Hc. unfold add_mesh. destruct (prim_count (mo_mesh mo) =? 0) eqn:Hlive; [apply extends_refl, Hc|].
  pose proof (resolve_material_b mo s) as E. destruct (resolve_material mo s) as [mati s1]. cbn [snd] in E.
  rewrite <- E. apply place_mesh_b; [exact HQ|exact Hlive|]. rewrite E. exact Hc.
Qed.

Lemma add_node_b mo mi s : Q mo -> canon (st_b s) -> extends (st_b s) (st_b (add_node mo mi s)).
Proof.
  intros HQ Hc. unfold add_node, node_inst. pose proof (Q_inst mo HQ) as HI. destruct (mo_inst mo) as [|i0 ins].
  - apply extends_refl, Hc.
  - rewrite (canon_of_chunks _ Hc). rewrite write_instances_of. cbn [st_b]. eexists. split; [apply HI; discriminate|reflexivity].
Qed.

Lemma add_model_b s mo : Q mo -> canon (st_b s) -> extends (st_b s) (st_b (add_model s mo)).
Proof.
  intros HQ Hc. unfold add_model. pose proof (add_mesh_b mo s HQ Hc) as E.
  destruct (add_mesh mo s) as [[mi|] s1]; cbn [snd] in E; [|exact E].
  eapply extends_trans; [exact E|]. apply add_node_b; [exact HQ|]. eapply extends_canon, E.
Qed.

Lemma fold_models_b ms s : Forall Q ms -> canon (st_b s) -> extends (st_b s) (st_b (fold_left add_model ms s)).
Proof.
  revert s. induction ms as [|mo r IH]; intros s HQ Hc; cbn [fold_left]; [apply extends_refl, Hc|].
  inversion HQ as [|? ? HQ1 HQ2]; subst.
  pose proof (add_model_b s mo HQ1 Hc) as E. eapply extends_trans; [exact E|]. apply IH; [exact HQ2|]. eapply extends_canon, E.
Qed.
End Extends.

Lemma add_light_b s l : st_b (add_light s l) = st_b s.
Proof. reflexivity. Qed.
Lemma fold_lights_b ls s : st_b (fold_left add_light ls s) = st_b s.
Proof. revert s. induction ls as [|l r IH]; intros s; cbn [fold_left]; [reflexivity|]. rewrite IH. reflexivity. Qed.

Theorem run_chunks (P : chunk -> Prop) (Q : pmodel -> Prop) :
  (forall mo, Q mo -> (prim_count (mo_mesh mo) =? 0) = false -> Forall P (mesh_chunks (mo_mesh mo))) ->
  (forall mo, Q mo -> mo_inst mo <> [] -> Forall P (inst_chunks (mo_inst mo))) ->
  forall sc, Forall Q (sc_models sc) ->
  exists cks, Forall P cks /\ st_b (run sc) = of_chunks cks.
Proof.
  intros H1 H2 sc HQ. unfold run, add_scene. rewrite fold_lights_b.
  destruct (fold_models_b P Q H1 H2 (sc_models sc) init HQ canon_init) as (ext & HP & E).
  exists ext. split; [exact HP|]. rewrite E. reflexivity.
Qed.

Theorem canon_run sc : canon (st_b (run sc)).
Proof.
  destruct (run_chunks (fun _ => True) (fun _ => True)) with (sc := sc) as (cks & _ & E).
  - intros. apply Forall_forall. auto.
  - intros. apply Forall_forall. auto.
  - apply Forall_forall. auto.
  - rewrite E. apply of_chunks_canon.
Qed.

(* ------------------------------------------------------------------ facts about canonical views / accessors *)
(* consecutive views: each starts where the previous one ends *)
Inductive tiles : N -> list view -> N -> Prop :=
| tiles_nil off : tiles off [] off
| tiles_cons off v r e : v_buf v = 0 -> v_off v = off -> tiles (off + v_len v) r e -> tiles off (v :: r) e.

Lemma tiles_views_of off cks : tiles off (views_of off cks) (off + total cks).
Proof.
  revert off. induction cks as [|ck r IH]; intros off; cbn [views_of total].
  - rewrite N.add_0_r. constructor.
  - constructor; [reflexivity|reflexivity|]. cbn [v_len view_of]. rewrite N.add_assoc. apply IH.
Qed.

Lemma views_of_range off cks v : In v (views_of off cks) ->
  v_buf v = 0 /\ off <= v_off v /\ v_off v + v_len v <= off + total cks.
Proof.
  revert off. induction cks as [|ck r IH]; intros off; cbn [views_of total In]; [tauto|].
  intros [<-|H].
  - cbn [view_of v_buf v_off v_len]. lia.
  - apply IH in H. lia.
Qed.

Lemma views_disjoint_of off cks : views_disjoint (views_of off cks) = true.
Proof.
  revert off. induction cks as [|ck r IH]; intros off; cbn [views_of views_disjoint]; [reflexivity|].
  rewrite IH, andb_true_r. apply forallb_forall. intros w Hw. apply views_of_range in Hw.
  cbn [view_of v_buf v_off v_len]. destruct Hw as (Hb & Ho & _).
  apply orb_true_iff. left. apply orb_true_iff. right. apply N.leb_le. lia.
Qed.

Lemma views_in_buffer cks : forallb (view_ok [total cks]) (views_of 0 cks) = true.
Proof.
  apply forallb_forall. intros v Hv. apply views_of_range in Hv. destruct Hv as (Hb & _ & He).
  unfold view_ok, nthN. rewrite Hb. cbn [N.to_nat nth_error]. apply N.leb_le. lia.
Qed.

Lemma nth_views_of off l1 ck l2 :
  nth_error (views_of off (l1 ++ ck :: l2)) (length l1) = Some (view_of (off + total l1) ck).
Proof.
  rewrite views_of_app. rewrite nth_error_app2 by (rewrite views_of_length; lia).
  rewrite views_of_length, Nat.sub_diag. reflexivity.
Qed.
Lemma nth_accs_of i l1 ck l2 :
  nth_error (accs_of i (l1 ++ ck :: l2)) (length l1) = Some (acc_of (i + len l1) ck).
Proof.
  rewrite accs_of_app. rewrite nth_error_app2 by (rewrite accs_of_length; lia).
  rewrite accs_of_length, Nat.sub_diag. reflexivity.
Qed.

Lemma code_size_comp c : code_size (comp_code c) = comp_size c.
Proof. destruct c; reflexivity. Qed.
Lemma comp_size_pos c : 0 < comp_size c.
Proof. destruct c; cbn; lia. Qed.

(* accessor n of a canonical document: it is [acc_of n ck], its view is view n, and it fills it exactly *)
Lemma acc_view_of cks n ck : nth_error cks n = Some ck ->
  nth_error (accs_of 0 cks) n = Some (acc_of (N.of_nat n) ck) /\
  nth_error (views_of 0 cks) n = Some (view_of (total (firstn n cks)) ck).
Proof.
  intros H. apply nth_error_split in H. destruct H as (l1 & l2 & -> & <-). split.
  - rewrite nth_accs_of. reflexivity.
  - rewrite nth_views_of. rewrite firstn_app, Nat.sub_diag, firstn_all. cbn [firstn]. rewrite app_nil_r. reflexivity.
Qed.

Lemma acc_ok_of cks : Forall (fun ck => 0 < ck_k ck) cks ->
  forallb (acc_ok (views_of 0 cks)) (accs_of 0 cks) = true.
Proof.
  intros Hk. apply forallb_forall. intros a Ha. apply In_nth_error in Ha. destruct Ha as (n & Ha).
  assert (Hn : (n < length cks)%nat).
  { rewrite <- (accs_of_length 0 cks). apply nth_error_Some. congruence. }
  destruct (nth_error cks n) as [ck|] eqn:E; [|apply nth_error_None in E; lia].
  destruct (acc_view_of cks n ck E) as (E1 & E2). rewrite Ha in E1. apply some_inj in E1. subst a.
  unfold acc_ok. cbn [a_view acc_of]. unfold nthN. rewrite Nat2N.id, E2.
  cbn [a_comp a_k a_off a_count acc_of v_len view_of]. rewrite code_size_comp.
  pose proof (comp_size_pos (ck_comp ck)). rewrite Forall_forall in Hk. pose proof (Hk ck (nth_error_In _ _ E)).
  unfold ck_size. apply andb_true_iff; split; [apply andb_true_iff; split|].
  - apply negb_true_iff. apply N.eqb_neq. lia.
  - apply negb_true_iff. apply N.eqb_neq. lia.
  - apply N.leb_le. lia.
Qed.

(* ------------------------------------------------------------------ bytes and decoding *)
Definition elem_ok (c : comp) (k : N) (e : elem) : Prop :=
  length e = N.to_nat k /\ Forall (fun w => w < 256 ^ comp_size c) e.
Definition vdata_ok (c : comp) (k : N) (d : vdata) : Prop := Forall (fun r => elem_ok c k (snd r)) d.
Definition chunk_ok (ck : chunk) : Prop := 0 < ck_k ck /\ vdata_ok (ck_comp ck) (ck_k ck) (ck_data ck).

Lemma enc_length c w : length (enc c w) = N.to_nat (comp_size c).
Proof. destruct c; reflexivity. Qed.
Lemma enc_elem_length c e : length (enc_elem c e) = (length e * N.to_nat (comp_size c))%nat.
Proof.
  unfold enc_elem. induction e as [|w e IH]; cbn [flat_map length]; [reflexivity|].
  rewrite app_length, enc_length, IH. lia.
Qed.
Lemma expand_ok c k d : vdata_ok c k d -> Forall (elem_ok c k) (expand d).
Proof.
  unfold vdata_ok, expand. induction d as [|[n e] d IH]; intros H; cbn [flat_map]; [constructor|].
  inversion H; subst. apply Forall_app. split; [|auto].
  apply Forall_forall. intros x Hx. apply repeat_spec in Hx. subst. assumption.
Qed.
Lemma length_expand d : length (expand d) = N.to_nat (vcount d).
Proof.
  unfold expand, vcount. induction d as [|[n e] d IH]; cbn [flat_map fold_right fst snd]; [reflexivity|].
  rewrite app_length, repeat_length, IH. lia.
Qed.
Lemma elems_bytes_length c k es : Forall (elem_ok c k) es ->
  length (flat_map (enc_elem c) es) = (length es * (N.to_nat k * N.to_nat (comp_size c)))%nat.
Proof.
  induction 1 as [|e es (Hl & _) _ IH]; cbn [flat_map length]; [reflexivity|].
  rewrite app_length, enc_elem_length, IH, Hl. lia.
Qed.
Lemma chunk_bytes_len ck : chunk_ok ck -> len (chunk_bytes ck) = ck_size ck.
Proof.
  intros (_ & H). unfold chunk_bytes, len, ck_size, ck_count.
  rewrite (elems_bytes_length _ _ _ (expand_ok _ _ _ H)), length_expand. lia.
Qed.
Lemma bytes_total cks : Forall chunk_ok cks -> len (flat_map chunk_bytes cks) = total cks.
Proof.
  induction 1 as [|ck r H _ IH]; cbn [flat_map total]; [reflexivity|].
  rewrite len_app', IH, (chunk_bytes_len _ H). reflexivity.
Qed.

Lemma le_value_enc c w : w < 256 ^ comp_size c -> le_value (enc c w) = w.
Proof.
  destruct c; cbn [comp_size enc]; intros H.
  - change (256 ^ 4) with 4294967296 in H. unfold le32, le_value. cbn [fold_right]. lia.
  - change (256 ^ 1) with 256 in H. unfold le_value. cbn [fold_right]. lia.
  - change (256 ^ 2) with 65536 in H. unfold le16, le_value. cbn [fold_right]. lia.
  - change (256 ^ 4) with 4294967296 in H. unfold le32, le_value. cbn [fold_right]. lia.
Qed.
Lemma get_words_enc c e r : Forall (fun w => w < 256 ^ comp_size c) e ->
  get_words (N.to_nat (comp_size c)) (length e) (enc_elem c e ++ r) = Some (e, r).
Proof.
  induction 1 as [|w e Hw _ IH]; cbn [length get_words enc_elem flat_map]; [reflexivity|].
  rewrite <- app_assoc. rewrite <- (enc_length c w), take_app. cbn [bind].
  fold (enc_elem c e). rewrite enc_length, IH. cbn [bind]. rewrite (le_value_enc _ _ Hw). reflexivity.
Qed.
Lemma get_elems_enc c k es r : Forall (elem_ok c k) es ->
  get_elems (N.to_nat (comp_size c)) (N.to_nat k) (length es) (flat_map (enc_elem c) es ++ r) = Some es.
Proof.
  induction 1 as [|e es (Hl & Hw) _ IH]; cbn [length get_elems flat_map]; [reflexivity|].
  rewrite <- app_assoc, <- Hl, (get_words_enc _ _ _ Hw). cbn [bind]. rewrite Hl, IH. reflexivity.
Qed.

Lemma skipn_app_exact {A} (a b : list A) n : n = length a -> skipn n (a ++ b) = b.
Proof. intros ->. rewrite skipn_app, skipn_all, Nat.sub_diag. reflexivity. Qed.

(* decoding accessor n of a canonical document from its buffer returns the elements of chunk n in order *)
Theorem decode_canonical cks n ck : Forall chunk_ok cks -> nth_error cks n = Some ck ->
  decode_acc (views_of 0 cks) (flat_map chunk_bytes cks) (acc_of (N.of_nat n) ck) = Some (expand (ck_data ck)).
Proof.
  intros Hok Hn. destruct (acc_view_of cks n ck Hn) as (_ & Hv).
  pose proof Hn as Hs. apply nth_error_split in Hs. destruct Hs as (l1 & l2 & Hc & Hl).
  assert (Hck : chunk_ok ck) by (rewrite Forall_forall in Hok; apply Hok; eapply nth_error_In; eauto).
  assert (H1 : Forall chunk_ok l1) by (rewrite Hc in Hok; apply Forall_app in Hok; tauto).
  unfold decode_acc. cbn [a_view acc_of bind]. rewrite Nat2N.id, Hv. cbn [bind].
  cbn [a_comp a_k a_off a_count acc_of v_len v_off view_of]. rewrite code_size_comp.
  destruct Hck as (Hk & Hd). pose proof (comp_size_pos (ck_comp ck)) as Hp.
  replace ((comp_size (ck_comp ck) =? 0) || (ck_k ck =? 0)) with false by lia.
  unfold ck_size. replace (_ <? _) with false by lia.
  assert (Hf : firstn n cks = l1) by (subst cks n; rewrite firstn_app, Nat.sub_diag, firstn_all; cbn; apply app_nil_r).
  rewrite Hf. subst cks. rewrite flat_map_app. cbn [flat_map]. rewrite skipn_app_exact.
  - unfold chunk_bytes at 1. unfold ck_count. rewrite <- length_expand.
    apply get_elems_enc. apply expand_ok, Hd.
  - pose proof (bytes_total _ H1) as E. unfold len in E. lia.
Qed.

(* ------------------------------------------------------------------ declared bounds *)
Lemma fold_fmin_spec r w :
  In (fold_left fmin r w) (w :: r) /\ forall x, In x (w :: r) -> (fkey (fold_left fmin r w) <= fkey x)%Z.
Proof.
  revert w. induction r as [|y r IH]; intros w; cbn [fold_left].
  - split; [left; reflexivity|]. intros x [<-|[]]. lia.
  - destruct (IH (fmin w y)) as (Hin & Hle). split.
    + destruct Hin as [E|Hin]; [|right; right; exact Hin]. rewrite <- E. unfold fmin.
      destruct (fkey y <? fkey w)%Z; [right; left; reflexivity|left; reflexivity].
    + intros x Hx. assert (Hm : (fkey (fmin w y) <= fkey w /\ fkey (fmin w y) <= fkey y)%Z).
      { unfold fmin. destruct (fkey y <? fkey w)%Z eqn:E; lia. }
      pose proof (Hle (fmin w y) (or_introl eq_refl)).
      destruct Hx as [<-|[<-|Hx]]; [lia|lia|]. apply Hle. right. exact Hx.
Qed.
Lemma fold_fmax_spec r w :
  In (fold_left fmax r w) (w :: r) /\ forall x, In x (w :: r) -> (fkey x <= fkey (fold_left fmax r w))%Z.
Proof.
  revert w. induction r as [|y r IH]; intros w; cbn [fold_left].
  - split; [left; reflexivity|]. intros x [<-|[]]. lia.
  - destruct (IH (fmax w y)) as (Hin & Hle). split.
    + destruct Hin as [E|Hin]; [|right; right; exact Hin]. rewrite <- E. unfold fmax.
      destruct (fkey w <? fkey y)%Z; [right; left; reflexivity|left; reflexivity].
    + intros x Hx. assert (Hm : (fkey w <= fkey (fmax w y) /\ fkey y <= fkey (fmax w y))%Z).
      { unfold fmax. destruct (fkey w <? fkey y)%Z eqn:E; lia. }
      pose proof (Hle (fmax w y) (or_introl eq_refl)).
      destruct Hx as [<-|[<-|Hx]]; [lia|lia|]. apply Hle. right. exact Hx.
Qed.

(* component j of the declared min / max: attained by a stored, NaN-free element and bounding all of
   them in float order ([fkey] is the order-embedding of non-NaN float32 patterns into Z, -0 < +0);
   when no element is usable the writer's start values +-MaxFloat64 are left *)
Theorem minmax_of_sound c k es j : (j < N.to_nat k)%nat ->
  let u := col j (mm_elems c es) in
  match u with
  | [] => nth_error (fst (minmax_of c k es)) j = Some MHi /\ nth_error (snd (minmax_of c k es)) j = Some MLo
  | _ => exists lo hi,
      nth_error (fst (minmax_of c k es)) j = Some (MF lo) /\ nth_error (snd (minmax_of c k es)) j = Some (MF hi) /\
      In lo u /\ In hi u /\ forall x, In x u -> (fkey lo <= fkey x <= fkey hi)%Z
  end.
Proof.
  intros Hj. unfold minmax_of. cbn [fst snd].
  assert (Hs : nth_error (seq 0 (N.to_nat k)) j = Some j).
  { rewrite nth_error_nth' with (d := O) by (rewrite seq_length; exact Hj). rewrite seq_nth by exact Hj. reflexivity. }
  rewrite !nth_error_map, Hs. cbn [option_map]. unfold col_min, col_max, fold_mm.
  destruct (col j (mm_elems c es)) as [|w r] eqn:E; cbv zeta; [split; reflexivity|].
  exists (fold_left fmin r w), (fold_left fmax r w).
  destruct (fold_fmin_spec r w) as (I1 & L1). destruct (fold_fmax_spec r w) as (I2 & L2).
  repeat split; auto.
Qed.

(* ------------------------------------------------------------------ index width and values *)
Theorem index_width_rule idx n i :
  a_comp (acc_of i (idx_chunk idx n)) = (if n <=? 65535 then 5123 else 5125).
Proof.
  unfold idx_chunk, acc_of, index_comp. cbn [a_comp ck_comp].
  destruct (65535 <? n) eqn:E; destruct (n <=? 65535) eqn:E'; try reflexivity; lia.
Qed.

Theorem index_values_kept idx n : Forall (fun i => i < n) idx -> n < 4294967296 ->
  ck_data (idx_chunk idx n) = plain (map (fun i => [i]) idx) /\
  Forall (fun i => i + 1 < 256 ^ comp_size (index_comp n)) idx /\
  chunk_ok (idx_chunk idx n).
Proof.
  intros Hi Hn. unfold idx_chunk, index_comp. cbn [ck_data ck_comp ck_k].
  assert (Hw : Forall (fun i => index_word (if 65535 <? n then CUInt else CUShort) i = i
                               /\ i + 1 < 256 ^ comp_size (if 65535 <? n then CUInt else CUShort)) idx).
  { eapply Forall_impl; [|exact Hi]. cbv beta. intros i Hlt.
    destruct (65535 <? n) eqn:E; cbn [index_word comp_size].
    - change (256 ^ 4) with 4294967296. rewrite N.mod_small by lia. lia.
    - change (256 ^ 2) with 65536. rewrite N.mod_small by lia. lia. }
  split; [|split].
  - f_equal. apply map_ext_in. intros i Hin. rewrite Forall_forall in Hw. destruct (Hw i Hin) as (-> & _). reflexivity.
  - eapply Forall_impl; [|exact Hw]. cbv beta. tauto.
  - split; [cbn; lia|]. unfold vdata_ok. cbn [ck_data ck_comp ck_k]. unfold plain. rewrite !Forall_map. cbn [snd].
    eapply Forall_impl; [|exact Hw]. cbv beta. intros i (E & Hlt). split; [reflexivity|]. constructor; [|constructor].
    rewrite E. lia.
Qed.

(* ------------------------------------------------------------------ scene well-formedness and the headline facts *)
Definition attrs_ok (k : N) (n : N) (l : list (string * vdata)) : Prop :=
  Forall (fun nv => vdata_ok (attr_comp (fst nv)) k (snd nv) /\ vcount (snd nv) = n) l.
(* what a modeling.Mesh guarantees structurally: K components per vector of a K-attribute, float32 / byte
   words, all attributes of one length, indices below it *)
Definition mesh_ok (m : pmesh) : Prop :=
  attrs_ok 4 (attr_len m) (me_v4 m) /\ attrs_ok 3 (attr_len m) (me_v3 m) /\ attrs_ok 2 (attr_len m) (me_v2 m)
  /\ Forall (fun i => i < attr_len m) (me_idx m) /\ attr_len m < 4294967296.
Definition inst_ok (i : pinst) : Prop :=
  elem_ok CFloat 3 (in_t i) /\ elem_ok CFloat 3 (in_s i) /\ elem_ok CFloat 4 (in_r i).
Definition model_ok (mo : pmodel) : Prop := mesh_ok (mo_mesh mo) /\ Forall inst_ok (mo_inst mo).
Definition scene_ok (sc : scene) : Prop := Forall model_ok (sc_models sc).

Lemma attr_chunks_ok k n l : 0 < k -> attrs_ok k n l -> Forall chunk_ok (map (attr_chunk k) l).
Proof.
  intros Hk H. rewrite Forall_map. eapply Forall_impl; [|exact H]. cbv beta. intros nv (Hd & _).
  split; [exact Hk|exact Hd].
Qed.
Lemma mesh_chunks_ok m : mesh_ok m -> Forall chunk_ok (mesh_chunks m).
Proof.
  intros (H4 & H3 & H2 & Hi & Hn). unfold mesh_chunks. repeat (apply Forall_app; split).
  - eapply attr_chunks_ok; [|exact H4]. lia.
  - eapply attr_chunks_ok; [|exact H3]. lia.
  - eapply attr_chunks_ok; [|exact H2]. lia.
  - constructor; [|constructor]. apply index_values_kept; assumption.
Qed.
Lemma plain_ok c k (f : pinst -> elem) ins : Forall (fun i => elem_ok c k (f i)) ins -> vdata_ok c k (plain (map f ins)).
Proof. intros H. unfold vdata_ok, plain. rewrite !Forall_map. exact H. Qed.
Lemma inst_chunks_ok ins : Forall inst_ok ins -> Forall chunk_ok (inst_chunks ins).
Proof.
  intros H. unfold inst_chunks. repeat constructor; cbn [ck_k vec_chunk]; try lia; cbn [ck_comp ck_data];
    apply plain_ok; (eapply Forall_impl; [|exact H]); cbv beta; unfold inst_ok; tauto.
Qed.

Theorem run_chunks_ok sc : scene_ok sc -> exists cks, Forall chunk_ok cks /\ st_b (run sc) = of_chunks cks.
Proof.
  apply (run_chunks chunk_ok model_ok).
  - intros mo (H & _) _. apply mesh_chunks_ok, H.
  - intros mo (_ & H) _. apply inst_chunks_ok, H.
Qed.

(* views: consecutive from 0, pairwise disjoint, inside the first [b_written] bytes (the declared
   length of the one buffer); for well-formed scenes that is the actual length of the buffer *)
Theorem views_tile sc :
  let st := run sc in let s := to_summary st in
  tiles 0 (s_views s) (b_written (st_b st)) /\ views_disjoint (s_views s) = true /\
  forallb (view_ok [b_written (st_b st)]) (s_views s) = true /\
  s_buffers s = (if 0 <? b_written (st_b st) then [b_written (st_b st)] else []) /\
  (scene_ok sc -> len (buf st) = b_written (st_b st)).
Proof.
  cbv zeta. pose proof (canon_run sc) as Hc. apply canon_of_chunks in Hc.
  set (cks := b_chunks (st_b (run sc))) in *.
  unfold to_summary. cbn [s_views s_buffers]. rewrite Hc. cbn [b_views b_written of_chunks].
  split; [|split; [|split; [|split]]].
  - apply (tiles_views_of 0 cks).
  - apply views_disjoint_of.
  - apply views_in_buffer.
  - reflexivity.
  - intros Hok. destruct (run_chunks_ok sc Hok) as (cks' & Hk & E). unfold buf, buf_b. fold cks.
    assert (Hq : cks = cks') by (unfold cks; rewrite E; reflexivity). rewrite Hq. apply bytes_total, Hk.
Qed.

(* accessors: accessor i uses view i, starts at its beginning and fills it exactly *)
Theorem accessors_fit sc : scene_ok sc ->
  let s := to_summary (run sc) in
  forallb (acc_ok (s_views s)) (s_accs s) = true /\
  forall i a, nth_error (s_accs s) i = Some a ->
    exists v, a_view a = Some (N.of_nat i) /\ nth_error (s_views s) i = Some v /\ a_off a = 0 /\
              a_count a * a_k a * code_size (a_comp a) = v_len v.
Proof.
  intros Hok. cbv zeta. destruct (run_chunks_ok sc Hok) as (cks & Hk & E).
  unfold to_summary. cbn [s_views s_accs]. rewrite E. cbn [b_views b_accs of_chunks]. split.
  - apply acc_ok_of. eapply Forall_impl; [|exact Hk]. intros ck (H & _). exact H.
  - intros i a Ha. assert (Hn : (i < length cks)%nat).
    { rewrite <- (accs_of_length 0 cks). apply nth_error_Some. congruence. }
    destruct (nth_error cks i) as [ck|] eqn:En; [|apply nth_error_None in En; lia].
    destruct (acc_view_of cks i ck En) as (E1 & E2). rewrite Ha in E1. apply some_inj in E1. subst a.
    eexists. split; [reflexivity|]. split; [exact E2|]. split; [reflexivity|].
    cbn [a_count a_k a_comp acc_of v_len view_of]. rewrite code_size_comp. reflexivity.
Qed.

(* payload: decoding accessor i from the buffer returns, in order, the elements of the i-th chunk the
   writer was handed (attribute vectors as float32 words / bytes, indices, instance transforms) *)
Theorem payload_decodes sc : scene_ok sc ->
  let st := run sc in let s := to_summary st in
  forall i a, nth_error (s_accs s) i = Some a ->
    exists ck, nth_error (b_chunks (st_b st)) i = Some ck /\ a = acc_of (N.of_nat i) ck /\
               decode_acc (s_views s) (buf st) a = Some (expand (ck_data ck)).
Proof.
  intros Hok. cbv zeta. destruct (run_chunks_ok sc Hok) as (cks & Hk & E).
  unfold to_summary, buf, buf_b. cbn [s_views s_accs]. rewrite E. cbn [b_views b_accs b_chunks of_chunks].
  intros i a Ha. assert (Hn : (i < length cks)%nat).
  { rewrite <- (accs_of_length 0 cks). apply nth_error_Some. congruence. }
  destruct (nth_error cks i) as [ck|] eqn:En; [|apply nth_error_None in En; lia].
  destruct (acc_view_of cks i ck En) as (E1 & _). rewrite Ha in E1. apply some_inj in E1. subst a.
  exists ck. split; [reflexivity|]. split; [reflexivity|]. apply decode_canonical; assumption.
Qed.

(* the declared bounds of every vector accessor are those of the stored data *)
Theorem minmax_declared sc : forall i a, nth_error (s_accs (to_summary (run sc))) i = Some a ->
  exists ck, nth_error (b_chunks (st_b (run sc))) i = Some ck /\
    (is_idx_comp (ck_comp ck) = true /\ a_min a = [] /\ a_max a = [] \/
     is_idx_comp (ck_comp ck) = false /\
     (a_min a, a_max a) = minmax_of (ck_comp ck) (ck_k ck) (run_elems (ck_data ck))).
Proof.
  intros i a Ha. pose proof (canon_run sc) as Hc. apply canon_of_chunks in Hc.
  unfold to_summary in Ha. cbn [s_accs] in Ha. rewrite Hc in Ha. cbn [b_accs of_chunks] in Ha.
  set (cks := b_chunks (st_b (run sc))) in *.
  assert (Hn : (i < length cks)%nat).
  { rewrite <- (accs_of_length 0 cks). apply nth_error_Some. congruence. }
  destruct (nth_error cks i) as [ck|] eqn:En; [|apply nth_error_None in En; lia].
  destruct (acc_view_of cks i ck En) as (E1 & _). rewrite Ha in E1. apply some_inj in E1. subst a.
  exists ck. split; [reflexivity|]. cbn [a_min a_max acc_of].
  destruct (is_idx_comp (ck_comp ck)); [left; auto|right]. split; [reflexivity|].
  unfold minmax. destruct (minmax_of _ _ _). reflexivity.
Qed.

(* component alignment does NOT hold for the faithful model: one triangle (three UNSIGNED_SHORT indices,
   6 bytes) followed by a second mesh puts a FLOAT view at offset 42 *)
Definition tri_mesh (ptr : N) : pmesh :=
  {| me_ptr := ptr; me_point := false; me_v4 := [];
     me_v3 := [("Position"%string, [(1, [0; 0; 0]); (1, [1065353216; 0; 0]); (1, [0; 1065353216; 0])])];
     me_v2 := []; me_idx := [0; 1; 2]; me_v1len := 0 |}.
Definition tri_model (ptr : N) : pmodel :=
  {| mo_name := "t"%string; mo_mesh := tri_mesh ptr; mo_mat := None; mo_t := None; mo_r := None; mo_s := None; mo_inst := [] |}.
Definition two_triangles : scene := {| sc_models := [tri_model 0; tri_model 1]; sc_lights := [] |}.

Theorem alignment_refuted_witness :
  exists sc a v, scene_ok sc /\ In a (s_accs (to_summary (run sc))) /\
    (exists vi, a_view a = Some vi /\ nth_error (s_views (to_summary (run sc))) (N.to_nat vi) = Some v) /\
    (v_off v + a_off a) mod code_size (a_comp a) <> 0.
Proof.
  exists two_triangles.
  exists {| a_view := Some 2; a_off := 0; a_comp := 5126; a_k := 3; a_count := 3;
            a_min := [MF 0; MF 0; MF 0]; a_max := [MF 1065353216; MF 1065353216; MF 0] |}.
  exists {| v_buf := 0; v_off := 42; v_len := 36; v_target := 34962 |}.
  split; [|split; [|split]].
  - unfold scene_ok, two_triangles. cbn [sc_models].
    repeat constructor; cbn; try lia; try (vm_compute; reflexivity).
  - vm_compute. right. right. left. reflexivity.
  - exists 2. split; vm_compute; reflexivity.
  - vm_compute. discriminate.
Qed.

(* ------------------------------------------------------------------ primitives are blocks of chunks *)
(* Part B: every primitive of the document refers to one contiguous block of chunks that is exactly
   [mesh_chunks m] for the mesh [m] of one of the scene's models — also when the block was written for an
   earlier model with the same mesh pointer. *)
Definition entry (cks : list chunk) (m : pmesh) (ai : list (string * N) * N) : Prop :=
  exists pre post, cks = pre ++ mesh_chunks m ++ post /\
                   ai = (mesh_attrs (len pre) m, mesh_idx_pos (len pre) m).
Lemma entry_ext cks ext m ai : entry cks m ai -> entry (cks ++ ext) m ai.
Proof.
  intros (pre & post & -> & ->). exists pre, (post ++ ext). split; [|reflexivity].
  rewrite <- !app_assoc. reflexivity.
Qed.
Lemma lookupN_In {B} k (l : list (N * B)) v : lookupN k l = Some v -> In (k, v) l.
Proof.
  induction l as [|[k' v'] l IH]; cbn [lookupN]; [discriminate|].
  destruct (k =? k') eqn:E; [|right; auto]. intros H. apply some_inj in H. subst. left. f_equal. lia.
Qed.

Section Prims.
Variable M : pmesh -> Prop.
Definition prim_entry (cks : list chunk) (gm : gmesh) : Prop :=
  exists p m ii, gm_prims gm = [p] /\ M m /\ gp_idx p = Some ii /\ entry cks m (gp_attrs p, ii).
Definition sinv (s : state) : Prop :=
  canon (st_b s) /\
  (forall ptr ai, In (ptr, ai) (st_wr_tab s) -> exists m, M m /\ entry (b_chunks (st_b s)) m ai) /\
  (forall gm, In gm (st_meshes s) -> prim_entry (b_chunks (st_b s)) gm).

Lemma sinv_frame s s' ext : sinv s -> st_b s' = of_chunks (b_chunks (st_b s) ++ ext) ->
  st_wr_tab s' = st_wr_tab s -> st_meshes s' = st_meshes s -> sinv s'.
Proof.
  intros (Hc & Hw & Hm) Eb Ew Em. unfold sinv. rewrite Eb, Ew, Em. cbn [b_chunks of_chunks].
  split; [apply of_chunks_canon|]. split.
  - intros ptr ai Hin. destruct (Hw ptr ai Hin) as (m & HM & He). exists m. split; [exact HM|]. apply entry_ext, He.
  - intros gm Hin. destruct (Hm gm Hin) as (p & m & ii & E1 & HM & E2 & He).
    exists p, m, ii. repeat split; auto. apply entry_ext, He.
Qed.
Lemma sinv_same s s' : sinv s -> st_b s' = st_b s -> st_wr_tab s' = st_wr_tab s -> st_meshes s' = st_meshes s -> sinv s'.
Proof.
  intros H Eb Ew Em. apply (sinv_frame s s' []); auto. rewrite app_nil_r, Eb. apply canon_of_chunks, H.
Qed.

Lemma add_material_frame m s :
  st_b (snd (add_material m s)) = st_b s /\ st_wr_tab (snd (add_material m s)) = st_wr_tab s /\
  st_meshes (snd (add_material m s)) = st_meshes s.
Proof.
  unfold add_material. destruct (find_mat m (st_mat_tab s)); [repeat split|].
  destruct (build_material m (st_x s)). repeat split.
Qed.
Lemma resolve_material_inv mo s : sinv s -> sinv (snd (resolve_material mo s)).
Proof.
  intros H. unfold resolve_material. destruct (mo_mat mo) as [pm|]; [|exact H].
  pose proof (add_material_frame pm s) as (E1 & E2 & E3). destruct (add_material pm s) as [i s1]. cbn [snd] in *.
  apply (sinv_same s); assumption.
Qed.

Lemma place_mesh_inv mo mati s : M (mo_mesh mo) -> sinv s -> sinv (snd (place_mesh mo mati s)).
Proof.
  intros HM Hs. unfold place_mesh. destruct (find_mesh _ _); [exact Hs|].
  destruct Hs as (Hc & Hw & Hm). unfold mesh_data.
  destruct (lookupN (me_ptr (mo_mesh mo)) (st_wr_tab s)) as [ai|] eqn:El.
  - (* geometry already written: same accessors *)
    cbn [snd]. unfold sinv. cbn [st_b st_wr_tab st_meshes]. split; [exact Hc|]. split; [exact Hw|].
    intros gm Hin. apply in_app_or in Hin. destruct Hin as [Hin|[<-|[]]]; [apply Hm, Hin|].
    apply lookupN_In in El. destruct (Hw _ _ El) as (m & HMm & He).
    eexists _, m, (snd ai). cbn [gm_prims gp_idx gp_attrs]. repeat split; auto.
    destruct ai; exact He.
  - rewrite (canon_of_chunks _ Hc) at 1. rewrite write_mesh_data_of. cbn [snd fst].
    unfold sinv. cbn [st_b st_wr_tab st_meshes b_chunks of_chunks].
    set (cks := b_chunks (st_b s)) in *.
    assert (He : entry (cks ++ mesh_chunks (mo_mesh mo)) (mo_mesh mo)
                   (mesh_attrs (len cks) (mo_mesh mo), mesh_idx_pos (len cks) (mo_mesh mo))).
    { exists cks, []. rewrite app_nil_r. split; reflexivity. }
    split; [apply of_chunks_canon|]. split.
    + intros ptr ai [E|Hin].
      * inversion E; subst. exists (mo_mesh mo). split; [exact HM|exact He].
      * destruct (Hw ptr ai Hin) as (m & HMm & Hem). exists m. split; [exact HMm|]. apply entry_ext, Hem.
    + intros gm Hin. apply in_app_or in Hin. destruct Hin as [Hin|[<-|[]]].
      * destruct (Hm gm Hin) as (p & m & ii & E1 & HMm & E2 & Hem).
        exists p, m, ii. repeat split; auto. apply entry_ext, Hem.
      * eexists _, (mo_mesh mo), _. cbn [gm_prims gp_idx gp_attrs]. repeat split; auto.
Qed.

Lemma add_mesh_inv mo s : M (mo_mesh mo) -> sinv s -> sinv (snd (add_mesh mo s)).
Proof.
  intros HM Hs. unfold add_mesh. destruct (prim_count (mo_mesh mo) =? 0); [exact Hs|].
  pose proof (resolve_material_inv mo s Hs) as H1. destruct (resolve_material mo s) as [mati s1]. cbn [snd] in H1.
  apply place_mesh_inv; assumption.
Qed.

Lemma add_node_inv mo mi s : sinv s -> sinv (add_node mo mi s).
Proof.
  intros Hs. pose proof Hs as (Hc & _). unfold add_node, node_inst. destruct (mo_inst mo) as [|i0 ins].
  - apply (sinv_same s); auto.
  - rewrite (canon_of_chunks _ Hc). rewrite write_instances_of.
    eapply (sinv_frame s _ (inst_chunks (i0 :: ins))); [exact Hs|reflexivity|reflexivity|reflexivity].
Qed.

Lemma add_model_inv s mo : M (mo_mesh mo) -> sinv s -> sinv (add_model s mo).
Proof.
  intros HM Hs. unfold add_model. pose proof (add_mesh_inv mo s HM Hs) as H1.
  destruct (add_mesh mo s) as [[mi|] s1]; cbn [snd] in H1; [|exact H1]. apply add_node_inv, H1.
Qed.
Lemma fold_models_inv ms s : Forall (fun mo => M (mo_mesh mo)) ms -> sinv s -> sinv (fold_left add_model ms s).
Proof.
  revert s. induction ms as [|mo r IH]; intros s HM Hs; cbn [fold_left]; [exact Hs|].
  inversion HM; subst. apply IH; [assumption|]. apply add_model_inv; assumption.
Qed.
Lemma fold_lights_inv ls s : sinv s -> sinv (fold_left add_light ls s).
Proof.
  revert s. induction ls as [|l r IH]; intros s Hs; cbn [fold_left]; [exact Hs|].
  apply IH. apply (sinv_same s); auto.
Qed.
End Prims.

Lemma sinv_init M : sinv M init.
Proof. split; [apply canon_init|]. split; intros ? ; cbn; tauto. Qed.

Theorem run_sinv sc : sinv (fun m => exists mo, In mo (sc_models sc) /\ m = mo_mesh mo) (run sc).
Proof.
  unfold run, add_scene. apply fold_lights_inv. apply fold_models_inv; [|apply sinv_init].
  apply Forall_forall. intros mo Hin. exists mo. split; [exact Hin|reflexivity].
Qed.

(* ---- what an [entry] says about single accessors *)
Lemma amap_set_In key v l x : In x (amap_set key v l) -> x = (key, v) \/ In x l.
Proof.
  induction l as [|[k' v'] l IH]; cbn [amap_set].
  - intros [<-|[]]. left. reflexivity.
  - destruct (String.eqb key k').
    + intros [<-|H]; [left; reflexivity|right; right; exact H].
    + intros [<-|H]; [right; left; reflexivity|]. destruct (IH H); [left|right; right]; assumption.
Qed.
Lemma attrs_from_In i attrs a name ai : In (name, ai) (attrs_from i attrs a) ->
  In (name, ai) a \/ exists j nv, nth_error attrs j = Some nv /\ ai = i + N.of_nat j /\ name = gltf_name (fst nv).
Proof.
  revert i a. induction attrs as [|nv r IH]; intros i a; cbn [attrs_from]; [left; assumption|].
  intros H. destruct (IH _ _ H) as [H1|(j & nv' & E1 & E2 & E3)].
  - apply amap_set_In in H1. destruct H1 as [E|H1]; [|left; exact H1].
    right. exists O, nv. inversion E; subst. repeat split. lia.
  - right. exists (S j), nv'. repeat split; auto. lia.
Qed.

Lemma nth_in_block {A B} (f : A -> B) (a : list B) l b j x : nth_error l j = Some x ->
  nth_error (a ++ map f l ++ b) (length a + j) = Some (f x).
Proof.
  intros H. rewrite nth_error_app2 by lia. replace (length a + j - length a)%nat with j by lia.
  rewrite nth_error_app1 by (rewrite map_length; apply nth_error_Some; congruence).
  apply map_nth_error, H.
Qed.

Definition attr_of (m : pmesh) (k : N) (nv : string * vdata) : Prop :=
  k = 4 /\ In nv (me_v4 m) \/ k = 3 /\ In nv (me_v3 m) \/ k = 2 /\ In nv (me_v2 m).

Lemma entry_attr cks m attrs ii name ai : entry cks m (attrs, ii) -> In (name, ai) attrs ->
  exists k nv, attr_of m k nv /\ name = gltf_name (fst nv) /\ nth_error cks (N.to_nat ai) = Some (attr_chunk k nv).
Proof.
  intros (pre & post & -> & E) Hin. inversion E; subst attrs ii. clear E. unfold mesh_attrs in Hin.
  unfold mesh_chunks. unfold len in *. rewrite <- !app_assoc.
  apply attrs_from_In in Hin. destruct Hin as [Hin|(j & nv & E1 & -> & ->)].
  - apply attrs_from_In in Hin. destruct Hin as [Hin|(j & nv & E1 & -> & ->)].
    + apply attrs_from_In in Hin. destruct Hin as [[]|(j & nv & E1 & -> & ->)].
      exists 4, nv. split; [left; split; [reflexivity|eapply nth_error_In, E1]|]. split; [reflexivity|].
      replace (N.to_nat (N.of_nat (length pre) + N.of_nat j)) with (length pre + j)%nat by lia.
      apply (nth_in_block (attr_chunk 4)), E1.
    + exists 3, nv. split; [right; left; split; [reflexivity|eapply nth_error_In, E1]|]. split; [reflexivity|].
      replace (N.to_nat (N.of_nat (length pre) + N.of_nat (length (me_v4 m)) + N.of_nat j))
        with (length (pre ++ map (attr_chunk 4) (me_v4 m)) + j)%nat by (rewrite app_length, map_length; lia).
      rewrite (app_assoc pre).
      apply (nth_in_block (attr_chunk 3)), E1.
  - exists 2, nv. split; [right; right; split; [reflexivity|eapply nth_error_In, E1]|]. split; [reflexivity|].
    replace (N.to_nat (N.of_nat (length pre) + N.of_nat (length (me_v4 m)) + N.of_nat (length (me_v3 m)) + N.of_nat j))
      with (length ((pre ++ map (attr_chunk 4) (me_v4 m)) ++ map (attr_chunk 3) (me_v3 m)) + j)%nat
      by (rewrite !app_length, !map_length; lia).
    rewrite (app_assoc pre), (app_assoc (pre ++ _)).
    apply (nth_in_block (attr_chunk 2)), E1.
Qed.

Lemma entry_idx cks m attrs ii : entry cks m (attrs, ii) ->
  nth_error cks (N.to_nat ii) = Some (idx_chunk (me_idx m) (attr_len m)).
Proof.
  intros (pre & post & -> & E). inversion E; subst attrs ii. clear E. unfold mesh_idx_pos, mesh_chunks, len.
  replace (N.to_nat (N.of_nat (length pre) + N.of_nat (length (me_v4 m)) + N.of_nat (length (me_v3 m)) + N.of_nat (length (me_v2 m))))
    with (length (pre ++ map (attr_chunk 4) (me_v4 m) ++ map (attr_chunk 3) (me_v3 m) ++ map (attr_chunk 2) (me_v2 m)) + 0)%nat
    by (rewrite !app_length, !map_length; lia).
  rewrite <- !app_assoc.
  replace (pre ++ map (attr_chunk 4) (me_v4 m) ++ map (attr_chunk 3) (me_v3 m) ++ map (attr_chunk 2) (me_v2 m)
           ++ [idx_chunk (me_idx m) (attr_len m)] ++ post)
    with ((pre ++ map (attr_chunk 4) (me_v4 m) ++ map (attr_chunk 3) (me_v3 m) ++ map (attr_chunk 2) (me_v2 m))
          ++ map (fun x => x) [idx_chunk (me_idx m) (attr_len m)] ++ post)
    by (rewrite map_id, <- !app_assoc; reflexivity).
  apply (nth_in_block (fun x => x)). reflexivity.
Qed.

Lemma expand_plain (l : list elem) : expand (plain l) = l.
Proof. unfold expand, plain. induction l; cbn [map flat_map fst snd]; [reflexivity|]. rewrite IHl. reflexivity. Qed.

(* The scene-level statement: every mesh of the document has exactly one primitive; it belongs to the
   mesh [m] of one of the scene's models; its index accessor has the width the attribute length calls for,
   as many elements as [m] has indices, and decodes to exactly those indices; every attribute it lists is
   an attribute of [m] under its glTF name, with [attr_len m] elements of the right type, and decodes to
   exactly the attribute's float32 / byte image. *)
Theorem prims_carry sc : scene_ok sc ->
  let st := run sc in let s := to_summary st in
  forall gm, In gm (s_meshes s) ->
  exists p mo ii, In mo (sc_models sc) /\ gm_prims gm = [p] /\ gp_idx p = Some ii /\
    let m := mo_mesh mo in
    (exists a, nth_error (s_accs s) (N.to_nat ii) = Some a /\
               a_comp a = (if attr_len m <=? 65535 then 5123 else 5125) /\ a_k a = 1 /\ a_count a = len (me_idx m) /\
               decode_acc (s_views s) (buf st) a = Some (map (fun i => [i]) (me_idx m))) /\
    forall name ai, In (name, ai) (gp_attrs p) ->
      exists k nv a, attr_of m k nv /\ name = gltf_name (fst nv) /\
        nth_error (s_accs s) (N.to_nat ai) = Some a /\
        a_comp a = comp_code (attr_comp (fst nv)) /\ a_k a = k /\ a_count a = attr_len m /\
        decode_acc (s_views s) (buf st) a = Some (expand (snd nv)).
Proof.
  intros Hok. cbv zeta. destruct (run_chunks_ok sc Hok) as (cks & Hk & E).
  pose proof (run_sinv sc) as (_ & _ & Hm).
  unfold to_summary, buf, buf_b. cbn [s_meshes s_accs s_views]. rewrite E in *. cbn [b_chunks b_accs b_views of_chunks] in *.
  intros gm Hin. destruct (Hm gm Hin) as (p & m & ii & E1 & (mo & Hmo & ->) & E2 & He).
  exists p, mo, ii. split; [exact Hmo|]. split; [exact E1|]. split; [exact E2|].
  assert (Hmok : mesh_ok (mo_mesh mo)).
  { unfold scene_ok in Hok. rewrite Forall_forall in Hok. apply Hok, Hmo. }
  split.
  - pose proof (entry_idx _ _ _ _ He) as Hn. destruct (acc_view_of cks _ _ Hn) as (Ha & _).
    eexists. split; [exact Ha|]. rewrite N2Nat.id.
    destruct Hmok as (_ & _ & _ & Hi & Hl). destruct (index_values_kept _ _ Hi Hl) as (Ed & _ & _).
    split; [apply index_width_rule|]. split; [reflexivity|]. split.
    + cbn [a_count acc_of]. unfold ck_count. rewrite Ed, vcount_plain, len_map. reflexivity.
    + rewrite <- (N2Nat.id ii). rewrite (decode_canonical cks _ _ Hk Hn), Ed, expand_plain. reflexivity.
  - intros name ai Hai. destruct (entry_attr _ _ _ _ _ _ He Hai) as (k & nv & Hof & -> & Hn).
    destruct (acc_view_of cks _ _ Hn) as (Ha & _).
    exists k, nv. eexists. split; [exact Hof|]. split; [reflexivity|]. split; [exact Ha|].
    split; [reflexivity|]. split; [reflexivity|]. split.
    + cbn [a_count acc_of]. unfold ck_count, attr_chunk, vec_chunk. cbn [ck_data].
      destruct Hmok as (H4 & H3 & H2 & _). unfold attrs_ok in *. rewrite Forall_forall in H4, H3, H2.
      destruct Hof as [(_ & Hi)|[(_ & Hi)|(_ & Hi)]]; [apply H4 in Hi|apply H3 in Hi|apply H2 in Hi]; tauto.
    + rewrite (decode_canonical cks _ _ Hk Hn). reflexivity.
Qed.
