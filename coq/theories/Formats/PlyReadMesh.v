(* C08: composition — the reader's construction against [describe] (Formats/PlyRead.v), up to whole files. *)
From PF Require Import Base.Bytes Base.BytesProofs Base.BytesMore Formats.PlyRead Formats.PlyReadSpec Formats.PlyReadProofs.
From Coq Require Import String Ascii DecimalString DecimalN DecimalPos ZifyN ZifyNat ZifyBool.
Open Scope list_scope.
Open Scope N_scope.
Local Notation length := List.length.
Local Notation concat := List.concat.

(* ================= columns and offsets ================= *)
Lemma col_index_ge name : forall (ps : vprops) k0 k t, col_index name ps k0 = Some (k, t) -> (k0 <= k)%nat.
Proof.
  induction ps as [|[t0 n0] ps IH]; intros k0 k t H; [discriminate|]. cbn [col_index] in H.
  destruct (seqb n0 name); [injection H as <- _; lia|]. apply IH in H. lia.
Qed.

Lemma col_index_S name : forall (ps : vprops) k0,
  col_index name ps (S k0) = option_map (fun '(k, t) => (S k, t)) (col_index name ps k0).
Proof.
  induction ps as [|[t0 n0] ps IH]; intros k0; [reflexivity|]. cbn [col_index].
  destruct (seqb n0 name); [reflexivity|]. apply (IH (S k0)).
Qed.

(* presence: the layout function and the column function find the same properties with the same type *)
Lemma offsets_col_type bin name : forall (ps : vprops) cur k0,
  option_map snd (offsets_from bin ps name cur) = option_map snd (col_index name ps k0).
Proof.
  induction ps as [|[t0 n0] ps IH]; intros cur k0; [reflexivity|]. cbn [offsets_from col_index].
  destruct (seqb n0 name); [reflexivity|]. apply IH.
Qed.

(* the word of a property = the word in its column *)
Lemma field_word_col name : forall (ps : vprops) vals, length vals = length ps ->
  field_word ps vals name =
  match col_index name ps 0 with
  | Some (k, t) => option_map (fun w => (t, w)) (nth_error vals k)
  | None => None
  end.
Proof.
  induction ps as [|[t0 n0] ps IH]; intros vals L.
  - destruct vals; reflexivity.
  - destruct vals as [|w ws]; [discriminate|]. cbn [field_word col_index].
    destruct (seqb n0 name); [reflexivity|].
    rewrite IH by (simpl in L; lia).
    rewrite (col_index_S name ps 0). destruct (col_index name ps 0) as [[k t]|]; cbn [option_map]; reflexivity.
Qed.

Lemma col_index_in name : forall (ps : vprops) k0 k t, col_index name ps k0 = Some (k, t) -> In (t, name) ps.
Proof.
  induction ps as [|[t0 n0] ps IH]; intros k0 k t H; [discriminate|]. cbn [col_index] in H.
  destruct (seqb n0 name) eqn:E.
  - apply String.eqb_eq in E. injection H as _ <-. subst. left. reflexivity.
  - right. eapply IH, H.
Qed.

Lemma in_col_index name t : forall (ps : vprops) k0, NoDup (names ps) -> In (t, name) ps ->
  exists k, col_index name ps k0 = Some (k, t).
Proof.
  induction ps as [|[t0 n0] ps IH]; intros k0 ND I; [destruct I|]. cbn [col_index].
  inversion ND as [|? ? NI ND']; subst.
  destruct I as [I|I].
  - injection I as -> ->. unfold seqb. rewrite String.eqb_refl. eauto.
  - destruct (seqb n0 name) eqn:E; [|apply IH; assumption].
    apply String.eqb_eq in E. subst. exfalso. apply NI. unfold names. apply in_map_iff. exists (t, name). split; [reflexivity|exact I].
Qed.

Lemma first_ty_member ms : forall (ps : vprops) t, first_ty ms ps = Some t -> exists n, In n ms /\ In (t, n) ps.
Proof.
  induction ps as [|[t0 n0] ps IH]; intros t H; [discriminate|]. cbn [first_ty] in H.
  destruct (existsb (seqb n0) ms) eqn:E.
  - injection H as <-. apply existsb_exists in E. destruct E as [m [Im Em]]. apply String.eqb_eq in Em. subst.
    exists m. split; [exact Im|left; reflexivity].
  - destruct (IH t H) as [n [A B]]. exists n. split; [exact A|right; exact B].
Qed.

Lemma first_ty_some ms m : forall (ps : vprops) k0 k t, In m ms -> col_index m ps k0 = Some (k, t) -> first_ty ms ps <> None.
Proof.
  induction ps as [|[t0 n0] ps IH]; intros k0 k t I H; [discriminate|]. cbn [first_ty col_index] in *.
  destruct (existsb (seqb n0) ms) eqn:E; [discriminate|].
  destruct (seqb n0 m) eqn:E2.
  - apply String.eqb_eq in E2. subst. exfalso.
    assert (existsb (seqb m) ms = true) by (apply existsb_exists; exists m; split; [exact I|apply String.eqb_refl]). congruence.
  - eapply IH; eauto.
Qed.

(* ================= task 3: the reader's group construction = describe's formulation ================= *)
(* [group_cols]: every member present, all of the type of the FIRST MEMBER; [vec_reader]: every member present, all of the
   type of the FIRST DECLARED member.  Under distinct names they accept the same groups, with the same type. *)
Lemma all_some_Forall2_map {A B} (f : A -> option B) : forall l os,
  Forall2 (fun a o => f a = Some o) l os -> all_some (map f l) = Some os.
Proof. induction 1 as [|a o l os H F IH]; [reflexivity|]. cbn [map all_some]. rewrite H, IH. reflexivity. Qed.

Lemma sty_eqb_refl t : sty_eqb t t = true.
Proof. destruct t; reflexivity. Qed.

Definition cols_of (ms : list string) (ps : vprops) (cols : list nat) (t : sty) : Prop :=
  Forall2 (fun m k => col_index m ps 0 = Some (k, t)) ms cols.

Lemma group_cols_spec ms (ps : vprops) cols t :
  group_cols ms ps = Some (cols, t) <-> (ms <> [] /\ cols_of ms ps cols t).
Proof.
  unfold group_cols, cols_of. split.
  - destruct (all_some (map (fun m => col_index m ps 0) ms)) as [l|] eqn:E; [|discriminate].
    apply all_some_map_Forall2 in E. destruct l as [|[k0 t0] r]; [discriminate|].
    destruct (forallb (fun c => sty_eqb (snd c) t0) r) eqn:Fb; [|discriminate].
    intros H. injection H as <- <-. split; [intros ->; inversion E|].
    rewrite forallb_forall in Fb.
    assert (G : Forall2 (fun m c => col_index m ps 0 = Some c /\ snd c = t0) ms ((k0, t0) :: r)).
    { clear - E Fb. inversion E as [|m c ms' r' Hc E']; subst. constructor; [split; [exact Hc|reflexivity]|].
      clear Hc E. induction E' as [|m' c' ms'' r'' Hc' E'' IH]; [constructor|].
      constructor; [split; [exact Hc'|apply sty_eqb_eq, Fb; left; reflexivity]|]. apply IH. intros x Ix. apply Fb. right. exact Ix. }
    clear - G. change (k0 :: map fst r) with (map fst ((k0, t0) :: r)).
    induction G as [|m [k t] ms l [Hc Ht] G IH]; [constructor|]. cbn [map fst snd] in *. subst. constructor; assumption.
  - intros [NE F]. 
    assert (E : all_some (map (fun m => col_index m ps 0) ms) = Some (map (fun k => (k, t)) cols)).
    { apply all_some_Forall2_map. clear NE. induction F; constructor; assumption. }
    rewrite E. destruct F as [|m k ms cols Hm F]; [congruence|]. cbn [map].
    replace (forallb (fun c : nat * sty => sty_eqb (snd c) t) (map (fun k0 => (k0, t)) cols)) with true.
    + rewrite map_map. cbn [fst]. rewrite map_id. reflexivity.
    + symmetry. apply forallb_forall. intros x Ix. apply in_map_iff in Ix. destruct Ix as [k' [<- _]]. apply sty_eqb_refl.
Qed.

Lemma member_off_col bin (ps : vprops) t m : 
  (exists o, member_off bin ps t m = Some o) <-> (exists k, col_index m ps 0 = Some (k, t)).
Proof.
  unfold member_off, offsets. pose proof (offsets_col_type bin m ps 0 0) as H.
  destruct (offsets_from bin ps m 0) as [[c t']|], (col_index m ps 0) as [[k t'']|]; cbn [option_map snd] in H; try discriminate.
  - injection H as <-. destruct (sty_eqb t t') eqn:E.
    + apply sty_eqb_eq in E. subst. split; eauto.
    + split; intros [x Hx]; [discriminate|]. injection Hx as _ ->. rewrite sty_eqb_refl in E. discriminate.
  - split; intros [x Hx]; discriminate.
Qed.

Theorem vec_reader_iff_group_cols : forall bin attr ms (ps : vprops), NoDup (names ps) -> ms <> [] ->
  (forall b, vec_reader bin attr ms ps = Some b -> exists cols, group_cols ms ps = Some (cols, b_ty b)) /\
  (forall cols t, group_cols ms ps = Some (cols, t) -> exists b, vec_reader bin attr ms ps = Some b /\ b_ty b = t).
Proof.
  intros bin attr ms ps ND NE. split.
  - intros b V. destruct (vec_reader_inv _ _ _ _ _ V) as [_ [_ [_ F2]]].
    assert (exists cols, cols_of ms ps cols (b_ty b)).
    { clear - F2. induction F2 as [|m o ms os Hm F2 [cols IH]]; [exists []; constructor|].
      destruct (proj1 (member_off_col bin ps (b_ty b) m) (ex_intro _ o Hm)) as [k Hk].
      exists (k :: cols). constructor; assumption. }
    destruct H as [cols C]. exists cols. apply group_cols_spec. split; assumption.
  - intros cols t G. apply group_cols_spec in G. destruct G as [_ C].
    unfold vec_reader.
    assert (Ft : first_ty ms ps = Some t).
    { destruct C as [|m k ms' cols' Hm C']; [congruence|].
      destruct (first_ty (m :: ms') ps) as [t1|] eqn:E.
      - destruct (first_ty_member _ _ _ E) as [n [In1 In2]].
        destruct (in_col_index n t1 ps 0 ND In2) as [k1 Hk1].
        assert (col_index n ps 0 = Some (k1, t1) -> t1 = t).
        { clear - Hm C' In1. intros Hn. destruct In1 as [<-|In1]; [congruence|].
          induction C' as [|m' k' ms'' cols'' Hm' C'' IH]; [destruct In1|].
          destruct In1 as [<-|In1]; [congruence|]. apply IH, In1. }
        rewrite (H Hk1). reflexivity.
      - exfalso. eapply (first_ty_some (m :: ms') m ps 0 k t); [left; reflexivity|exact Hm|exact E]. }
    rewrite Ft.
    assert (exists os, Forall2 (fun m o => member_off bin ps t m = Some o) ms os).
    { clear - C. induction C as [|m k ms cols Hm C [os IH]]; [exists []; constructor|].
      destruct (proj2 (member_off_col bin ps t m) (ex_intro _ k Hm)) as [o Ho]. exists (o :: os). constructor; assumption. }
    destruct H as [os F]. rewrite (all_some_Forall2_map _ _ _ F). cbn [option_map]. eexists. split; reflexivity.
Qed.

(* ================= a built reader against an entry of describe's list ================= *)
(* describe's list of attributes to set, in order: accepted groups, then unclaimed scalars *)
Definition spec_entry := (string * (list string * list nat * sty))%type.
Definition spec_groups (gs : list group) (ps : vprops) : list spec_entry :=
  flat_map (fun g => match accepted g ps with Some x => [(g_attr g, x)] | None => [] end) gs.
Definition spec_claimed (acc : list spec_entry) : list string := flat_map (fun '(_, (ms, _, _)) => ms) acc.
Definition spec_scalars (claimed : list string) (ps todo : vprops) : list spec_entry :=
  flat_map (fun '(t, n) => if existsb (seqb n) claimed then [] else
              match col_index n ps 0 with Some (k, t') => [(n, ([n], [k], t'))] | None => [] end) todo.
Definition spec_entries (gs : list group) (ps : vprops) : list spec_entry :=
  spec_groups gs ps ++ spec_scalars (spec_claimed (spec_groups gs ps)) ps ps.
Definition spec_step (verts : list (list N)) (r : result (list attr)) (x : spec_entry) : result (list attr) :=
  let '(name, (_, cols, t)) := x in
  dor l <- r; dor data <- mapR (value_row true t cols) verts; Ok (set_attr (length cols) name data l).
Lemma describe_attrs_entries gs ps verts :
  describe_attrs gs ps verts = fold_left (spec_step verts) (spec_entries gs ps) (Ok []).
Proof. reflexivity. Qed.

(* what a built reader returns on the encoding of a record, per format *)
Definition row_of (f : fmt) (ps : vprops) (b : built) (rec : list N) : result (list N) :=
  match f with
  | ASCII => read_ascii_row b (enc_record_ascii (map fst ps) rec)
  | _ => read_bin_row (endian_of f) b (enc_record_bin (endian_of f) (map fst ps) rec)
  end.
Definition agrees (f : fmt) (ps : vprops) (b : built) (x : spec_entry) : Prop :=
  let '(name, (ms, cols, t)) := x in
  b_attr b = name /\ b_names b = ms /\ length (b_offs b) = length cols /\
  forall rec, record_ok ps rec -> exists v, row_of f ps b rec = Ok v /\ value_row true t cols rec = Ok v.
(* the known finding: in ascii files a uchar read through a Vector1 reader stays raw *)
Definition raw_free (f : fmt) (x : spec_entry) : Prop :=
  f = ASCII -> match x with (_, ([_], _, t)) => t <> UChar | _ => True end.

Lemma col_index_lt name : forall (ps : vprops) k0 k t, col_index name ps k0 = Some (k, t) -> (k < k0 + length ps)%nat.
Proof.
  induction ps as [|[t0 n0] ps IH]; intros k0 k t H; [discriminate|]. cbn [col_index] in H.
  destruct (seqb n0 name); [injection H as <- _; simpl; lia|]. apply IH in H. simpl. lia.
Qed.

Lemma div255_tab_length : length div255_tab = 256%nat.
Proof. reflexivity. Qed.
Lemma conv_ok t w : vertex_ty_ok t = true -> word_fits t w -> exists v, conv t w = Ok v.
Proof.
  intros S F. destruct t; try discriminate S; cbn [conv]; eauto.
  unfold div255_byte. pose proof (fits1 UChar w eq_refl F) as H.
  destruct (nth_error div255_tab (N.to_nat w)) as [v|] eqn:E; [exists v; reflexivity|].
  apply nth_error_None in E. rewrite div255_tab_length in E. lia.
Qed.

Lemma record_ok_nth (ps : vprops) rec : record_ok ps rec -> forall k t n w,
  nth_error ps k = Some (t, n) -> nth_error rec k = Some w -> word_fits t w.
Proof.
  induction 1 as [|p w0 ps ws Hw R IH]; intros k t n w Hp Hr; [destruct k; discriminate|].
  destruct k; cbn [nth_error] in *; [injection Hp as ->; injection Hr as <-; exact Hw|eapply IH; eauto].
Qed.
Lemma col_index_nth name : forall (ps : vprops) k0 k t, col_index name ps k0 = Some (k, t) ->
  nth_error ps (k - k0) = Some (t, name).
Proof.
  induction ps as [|[t0 n0] ps IH]; intros k0 k t H; [discriminate|]. cbn [col_index] in H.
  destruct (seqb n0 name) eqn:E.
  - apply String.eqb_eq in E. injection H as <- <-. subst. rewrite Nat.sub_diag. reflexivity.
  - pose proof (col_index_ge _ _ _ _ _ H). replace (k - k0)%nat with (S (k - S k0)) by lia. apply IH, H.
Qed.

(* the members' values, via names (reader side) and via columns (describe side) *)
Lemma members_value_row (ps : vprops) rec t : record_ok ps rec -> vertex_ty_ok t = true ->
  forall ms cols, cols_of ms ps cols t ->
  exists v, mapR (member_value ps rec t) ms = Ok v /\ value_row true t cols rec = Ok v.
Proof.
  intros R S. pose proof (record_ok_length _ _ R) as L.
  induction 1 as [|m k ms cols Hm C [v [IH1 IH2]]]; [exists []; split; reflexivity|].
  unfold value_row in *. rewrite !mapR_cons, IH1, IH2.
  unfold member_value. rewrite (field_word_col m ps rec L), Hm.
  pose proof (col_index_lt _ _ _ _ _ Hm) as Lt. simpl in Lt.
  destruct (nth_error rec k) as [w|] eqn:E; [|apply nth_error_None in E; lia].
  cbn [option_map of_opt rbind]. unfold mesh_value.
  pose proof (col_index_nth _ _ _ _ _ Hm) as Hn. rewrite Nat.sub_0_r in Hn.
  destruct (conv_ok t w S (record_ok_nth ps rec R k t m w Hn E)) as [y Hy]. rewrite Hy. cbn [rbind].
  exists (y :: v). split; reflexivity.
Qed.

Lemma cols_of_length ms ps cols t : cols_of ms ps cols t -> length cols = length ms.
Proof. induction 1; simpl; congruence. Qed.
Lemma Forall2_length'' {A B} (R : A -> B -> Prop) l1 l2 : Forall2 R l1 l2 -> length l1 = length l2.
Proof. induction 1; simpl; congruence. Qed.

Lemma supported_in (ps : vprops) t n : supported ps -> In (t, n) ps -> vertex_ty_ok t = true.
Proof. unfold supported. rewrite Forall_forall. intros H I. apply (H (t, n) I). Qed.

(* a vector group reader agrees with describe's entry for the group *)
Lemma group_agrees f attr ms (ps : vprops) b cols :
  supported ps -> ms <> [] ->
  vec_reader (is_bin f) attr ms ps = Some b -> cols_of ms ps cols (b_ty b) ->
  agrees f ps b (attr, (ms, cols, b_ty b)).
Proof.
  intros S NE V C. destruct (vec_reader_inv _ _ _ _ _ V) as [_ [A [Nm F2]]].
  assert (St : vertex_ty_ok (b_ty b) = true).
  { destruct C as [|m k ms' cols' Hm _]; [congruence|]. eapply supported_in; [exact S|]. eapply col_index_in, Hm. }
  cbv beta iota delta [agrees]. repeat split; [exact A|exact Nm| |].
  - rewrite <- (Forall2_length'' _ _ _ F2). symmetry. eapply cols_of_length, C.
  - intros rec R. destruct (members_value_row ps rec (b_ty b) R St ms cols C) as [v [M1 M2]].
    exists v. split; [|exact M2]. unfold row_of. destruct f; cbn [is_bin] in V.
    + rewrite (group_reads_members_ascii_proof attr ms ps rec b V R St). exact M1.
    + rewrite (group_reads_members_bin_proof _ attr ms ps rec b V R), St. exact M1.
    + rewrite (group_reads_members_bin_proof _ attr ms ps rec b V R), St. exact M1.
Qed.

(* a Vector1 reader (single-member group or unclaimed scalar) agrees with describe's entry *)
Definition v1_reader (bin : bool) (attr n : string) (ps : vprops) : option built :=
  option_map (fun '(off, t) => {| b_attr := attr; b_names := [n]; b_offs := [off]; b_ty := t; b_v1 := true |})
             (offsets bin ps n).
Lemma build_v1_reader bin attr n (ps : vprops) : build_v1 bin attr n (scalars ps) = Ok (v1_reader bin attr n ps).
Proof. apply build_v1_spec. Qed.

Lemma v1_agrees f attr n (ps : vprops) b k t :
  supported ps -> v1_reader (is_bin f) attr n ps = Some b -> col_index n ps 0 = Some (k, t) ->
  raw_free f (attr, ([n], [k], t)) ->
  agrees f ps b (attr, ([n], [k], t)).
Proof.
  intros S V C Raw. unfold v1_reader in V.
  destruct (offsets (is_bin f) ps n) as [[off t']|] eqn:O; [|discriminate]. cbn [option_map] in V. injection V as <-.
  assert (t' = t).
  { pose proof (offsets_col_type (is_bin f) n ps 0 0) as H. unfold offsets in O. rewrite O, C in H. cbn in H. congruence. }
  subst t'. assert (St : vertex_ty_ok t = true) by (eapply supported_in; [exact S|eapply col_index_in, C]).
  cbv beta iota delta [agrees]. cbn [b_attr b_names b_offs b_ty]. repeat split.
  intros rec R. pose proof (record_ok_length _ _ R) as L.
  destruct (members_value_row ps rec t R St [n] [k]) as [v [M1 M2]]; [constructor; [exact C|constructor]|].
  exists v. split; [|exact M2]. rewrite mapR_cons in M1. cbn [mapR] in M1.
  unfold member_value in M1. unfold offsets in O. unfold row_of. destruct f; cbn [is_bin] in O.
  - destruct (layout_ascii_aux n ps rec [] off t L O) as [w [Fw G]]. cbn [app] in G. rewrite Fw in M1.
    unfold read_ascii_row. cbn [b_offs b_v1 b_ty negb andb]. rewrite mapR_cons, G. cbn [of_opt rbind mapR].
    assert (t <> UChar) by (apply (Raw eq_refl)).
    rewrite <- M1. unfold mesh_value. destruct t; try discriminate St; try congruence; reflexivity.
  - destruct (layout_bin_aux LEnd n ps rec [] off t R O) as [w [Fw G]]. cbn [app] in G. rewrite Fw in M1.
    unfold read_bin_row. cbn [b_offs b_ty endian_of]. rewrite St, mapR_cons, G. cbn [of_opt rbind mapR]. exact M1.
  - destruct (layout_bin_aux BEnd n ps rec [] off t R O) as [w [Fw G]]. cbn [app] in G. rewrite Fw in M1.
    unfold read_bin_row. cbn [b_offs b_ty endian_of]. rewrite St, mapR_cons, G. cbn [of_opt rbind mapR]. exact M1.
Qed.

(* ================= all readers against all entries ================= *)
Definition group_wf (g : group) : Prop :=
  g_members g <> [] /\ (g_ignorable_w g = true -> length (g_members g) = 4%nat).

Lemma vec_step f attr ms (ps : vprops) : NoDup (names ps) -> supported ps -> ms <> [] ->
  match vec_reader (is_bin f) attr ms ps, group_cols ms ps with
  | Some b, Some (cols, t) => agrees f ps b (attr, (ms, cols, t))
  | None, None => True
  | _, _ => False
  end.
Proof.
  intros ND S NE. destruct (vec_reader_iff_group_cols (is_bin f) attr ms ps ND NE) as [I1 I2].
  destruct (vec_reader (is_bin f) attr ms ps) as [b|] eqn:V.
  - destruct (I1 b eq_refl) as [cols G]. rewrite G. apply group_agrees; try assumption.
    apply group_cols_spec in G. apply G.
  - destruct (group_cols ms ps) as [[cols t]|] eqn:G; [|exact I].
    destruct (I2 cols t eq_refl) as [b [Hb _]]. discriminate.
Qed.

Lemma build_vec_reader bin attr ms (ps : vprops) : NoDup (names ps) ->
  build_vec bin attr ms (scalars ps) = Ok (vec_reader bin attr ms ps).
Proof. exact (groups_become_attributes_proof bin attr ms ps). Qed.

Lemma group_step f g (ps : vprops) : NoDup (names ps) -> supported ps -> group_wf g ->
  (forall x, accepted g ps = Some x -> raw_free f (g_attr g, x)) ->
  exists ob, build_group (is_bin f) g (scalars ps) = Ok ob /\
    match ob, accepted g ps with
    | Some b, Some x => agrees f ps b (g_attr g, x)
    | None, None => True
    | _, _ => False
    end.
Proof.
  intros ND S [NE W] Raw. destruct g as [attr ms w]. unfold build_group, accepted in *. cbn [g_members g_attr g_ignorable_w] in *.
  destruct ms as [|m1 [|m2 r]]; [congruence| |].
  - (* single member: Vector1PropertyReader *)
    rewrite build_v1_reader. eexists. split; [reflexivity|].
    pose proof (offsets_col_type (is_bin f) m1 ps 0 0) as H.
    unfold group_cols in *. cbn [map all_some] in *.
    unfold v1_reader. unfold offsets.
    destruct (col_index m1 ps 0) as [[k t]|] eqn:C; cbn [option_map forallb map fst] in *.
    + destruct (offsets_from (is_bin f) ps m1 0) as [[off t']|] eqn:O; [|discriminate H].
      cbn [option_map]. apply v1_agrees; try assumption.
      * unfold v1_reader, offsets. rewrite O. cbn in H. injection H as ->. reflexivity.
      * apply Raw. reflexivity.
    + destruct (offsets_from (is_bin f) ps m1 0) as [[off t']|]; [discriminate H|]. exact I.
  - (* vector group *)
    set (ms := m1 :: m2 :: r) in *.
    rewrite (build_vec_reader (is_bin f) attr ms ps ND). cbn [rbind].
    pose proof (vec_step f attr ms ps ND S NE) as V.
    destruct (vec_reader (is_bin f) attr ms ps) as [b|].
    + eexists. split; [reflexivity|]. destruct (group_cols ms ps) as [[cols t]|]; [exact V|contradiction].
    + destruct (group_cols ms ps) as [[cols t]|]; [contradiction|].
      destruct w.
      * specialize (W eq_refl). subst ms. destruct r as [|c [|d [|? ?]]]; try discriminate W.
        cbn [firstn]. rewrite (build_vec_reader (is_bin f) attr [m1; m2; c] ps ND).
        eexists. split; [reflexivity|].
        pose proof (vec_step f attr [m1; m2; c] ps ND S) as V3. 
        destruct (vec_reader (is_bin f) attr [m1; m2; c] ps), (group_cols [m1; m2; c] ps) as [[cols t]|];
          try (apply V3; discriminate); exact (V3 ltac:(discriminate)).
      * eexists. split; [reflexivity|]. subst ms. destruct r as [|c [|d [|? ?]]]; exact I.
Qed.

Lemma build_groups_agree f (ps : vprops) : NoDup (names ps) -> supported ps -> forall gs,
  Forall group_wf gs -> Forall (raw_free f) (spec_groups gs ps) ->
  exists bs, build_groups (is_bin f) gs (scalars ps) = Ok bs /\ Forall2 (agrees f ps) bs (spec_groups gs ps).
Proof.
  intros ND S. induction gs as [|g gs IH]; intros W Raw.
  - exists []. split; [reflexivity|constructor].
  - inversion W as [|? ? Wg W']; subst. unfold spec_groups in Raw. cbn [flat_map] in Raw.
    apply Forall_app in Raw. destruct Raw as [Rg Rr].
    destruct (IH W' Rr) as [bs [B F]].
    destruct (group_step f g ps ND S Wg) as [ob [Bg M]].
    { intros x Hx. rewrite Hx in Rg. inversion Rg; assumption. }
    cbn [build_groups]. rewrite Bg. cbn [rbind]. rewrite B. cbn [rbind].
    unfold spec_groups. cbn [flat_map]. fold (spec_groups gs ps).
    destruct ob as [b|], (accepted g ps) as [x|]; try contradiction.
    + exists (b :: bs). split; [reflexivity|]. constructor; assumption.
    + exists bs. split; [reflexivity|exact F].
Qed.

Lemma existsb_app2 {A} (f : A -> bool) l1 l2 : existsb f (l1 ++ l2) = existsb f l1 || existsb f l2.
Proof. induction l1; simpl; [reflexivity|]. rewrite IHl1. apply orb_assoc. Qed.

Lemma claims_claimed f (ps : vprops) bs acc : Forall2 (agrees f ps) bs acc ->
  forall n, existsb (fun b => claims b n) bs = existsb (seqb n) (spec_claimed acc).
Proof.
  induction 1 as [|b [name [[ms cols] t]] bs acc [_ [Nm _]] F IH]; intros n; [reflexivity|].
  cbn [existsb spec_claimed flat_map]. fold (spec_claimed acc). rewrite existsb_app2, IH. unfold claims. rewrite Nm. reflexivity.
Qed.

Lemma unclaimed_agree f (ps : vprops) bs acc : NoDup (names ps) -> supported ps ->
  Forall2 (agrees f ps) bs acc ->
  forall todo, (forall p, In p todo -> In p ps) ->
  Forall (raw_free f) (spec_scalars (spec_claimed acc) ps todo) ->
  Forall2 (agrees f ps) (unclaimed_readers (is_bin f) ps bs todo) (spec_scalars (spec_claimed acc) ps todo).
Proof.
  intros ND S F. induction todo as [|[t n] todo IH]; intros Sub Raw; [constructor|].
  unfold unclaimed_readers, spec_scalars in *. cbn [flat_map snd] in *.
  apply Forall_app in Raw. destruct Raw as [R1 R2].
  apply Forall2_app; [|apply IH; [intros p Ip; apply Sub; right; exact Ip|exact R2]].
  rewrite (claims_claimed f ps bs acc F n).
  destruct (existsb (seqb n) (spec_claimed acc)); [constructor|].
  destruct (in_col_index n t ps 0 ND (Sub (t, n) (or_introl eq_refl))) as [k C]. rewrite C in *.
  pose proof (offsets_col_type (is_bin f) n ps 0 0) as H. rewrite C in H.
  change (scalar_reader (is_bin f) ps n) with (v1_reader (is_bin f) n n ps).
  destruct (v1_reader (is_bin f) n n ps) as [b|] eqn:V.
  - constructor; [|constructor]. apply v1_agrees; try assumption. inversion R1; assumption.
  - unfold v1_reader, offsets in V. destruct (offsets_from (is_bin f) ps n 0); discriminate.
Qed.

Definition wf_groups (gs : list group) : Prop := Forall group_wf gs.

Theorem build_readers_agree : forall f gs (ps : vprops),
  NoDup (names ps) -> supported ps -> wf_groups gs -> Forall (raw_free f) (spec_entries gs ps) ->
  exists bs, build_readers (is_bin f) gs true (scalars ps) = Ok bs /\ Forall2 (agrees f ps) bs (spec_entries gs ps).
Proof.
  intros f gs ps ND S W Raw. unfold spec_entries in *. apply Forall_app in Raw. destruct Raw as [Rg Rs].
  destruct (build_groups_agree f ps ND S gs W Rg) as [bs [B F]].
  unfold build_readers. rewrite B. cbn [rbind]. rewrite (add_unclaimed_spec (is_bin f) ps ps bs ND).
  eexists. split; [reflexivity|]. apply Forall2_app; [exact F|].
  apply unclaimed_agree; auto.
Qed.

Lemma default_groups_wf : wf_groups default_groups.
Proof. unfold wf_groups, default_groups, group_wf. repeat constructor; cbn; try discriminate; intros; try discriminate; reflexivity. Qed.
(* ================= from readers and rows to mesh attributes ================= *)
Lemma mapR_ext_in {A B} (f g : A -> result B) l : (forall x, In x l -> f x = g x) -> mapR f l = mapR g l.
Proof.
  induction l as [|a l IH]; intros H; [reflexivity|]. rewrite !mapR_cons, (H a (or_introl eq_refl)), IH; [reflexivity|].
  intros x Ix. apply H. right. exact Ix.
Qed.
Lemma mapR_ok_all {A B} (f : A -> result B) l : (forall x, In x l -> exists y, f x = Ok y) -> exists ys, mapR f l = Ok ys.
Proof.
  induction l as [|a l IH]; intros H; [exists []; reflexivity|].
  destruct (H a (or_introl eq_refl)) as [y Hy]. destruct IH as [ys Hys]; [intros x Ix; apply H; right; exact Ix|].
  exists (y :: ys). rewrite mapR_cons, Hy, Hys. reflexivity.
Qed.

Lemma column_spec (F : built -> list N -> result (list N)) bs : forall recs rows,
  mapR (fun rec => mapR (fun b => F b rec) bs) recs = Ok rows ->
  forall j b, nth_error bs j = Some b -> mapR (F b) recs = Ok (column rows j).
Proof.
  induction recs as [|rec recs IH]; intros rows M j b Nb.
  - injection M as <-. reflexivity.
  - rewrite mapR_cons in M. destruct (mapR (fun b0 => F b0 rec) bs) as [row|] eqn:Mr; [|discriminate].
    cbn [rbind] in M. destruct (mapR (fun rec0 => mapR (fun b0 => F b0 rec0) bs) recs) as [rows'|] eqn:Mrs; [|discriminate].
    cbn [rbind] in M. injection M as <-.
    destruct (mapR_nth _ _ _ _ _ Mr Nb) as [y [Ny Fy]].
    rewrite mapR_cons, Fy, (IH rows' eq_refl j b Nb). cbn [rbind]. unfold column. cbn [map]. 
    rewrite (nth_error_nth row j [] Ny). reflexivity.
Qed.

Lemma attrs_agree f (ps : vprops) bsfull recs rows :
  mapR (fun rec => mapR (fun b => row_of f ps b rec) bsfull) recs = Ok rows ->
  Forall (record_ok ps) recs ->
  forall suffix sp, Forall2 (agrees f ps) suffix sp ->
  forall j l, (forall i b, nth_error suffix i = Some b -> nth_error bsfull (j + i) = Some b) ->
  fold_left (spec_step recs) sp (Ok l) = Ok (update_mesh suffix j rows l).
Proof.
  intros M R. induction 1 as [|b [name [[ms cols] t]] suffix sp [A [_ [Ln V]]] F IH]; intros j l Sub; [reflexivity|].
  cbn [fold_left update_mesh]. unfold spec_step at 2. cbn [rbind].
  assert (D : mapR (value_row true t cols) recs = Ok (column rows j)).
  { rewrite <- (column_spec (row_of f ps) bsfull recs rows M j b).
    - apply mapR_ext_in. intros rec Ir. rewrite Forall_forall in R. destruct (V rec (R rec Ir)) as [v [V1 V2]]. congruence.
    - specialize (Sub 0%nat b eq_refl). rewrite Nat.add_0_r in Sub. exact Sub. }
  rewrite D. cbn [rbind]. rewrite Ln, A. apply IH.
  intros i b' Hi. specialize (Sub (S i) b' Hi). replace (S j + i)%nat with (j + S i)%nat by lia. exact Sub.
Qed.

Lemma rows_exist f (ps : vprops) bs sp recs : Forall2 (agrees f ps) bs sp -> Forall (record_ok ps) recs ->
  exists rows, mapR (fun rec => mapR (fun b => row_of f ps b rec) bs) recs = Ok rows.
Proof.
  intros F R. apply mapR_ok_all. intros rec Ir. rewrite Forall_forall in R. specialize (R rec Ir).
  apply mapR_ok_all. intros b Ib. clear - F Ib R.
  induction F as [|b0 [name [[ms cols] t]] bs sp [_ [_ [_ V]]] F IH]; [destruct Ib|].
  destruct Ib as [<-|Ib]; [|apply IH, Ib]. destruct (V rec R) as [v [V1 _]]. eauto.
Qed.

(* ================= point clouds, after the header ================= *)
Lemma all_scalar_scalars (ps : vprops) : all_scalar (scalars ps) = true.
Proof. induction ps as [|[t n] ps IH]; [reflexivity|exact IH]. Qed.

Definition pointcloud_ok (a : absfile) : Prop :=
  a_fprops a = None /\ a_faces a = [] /\ a_vprops a <> [] /\ NoDup (names (a_vprops a)) /\ supported (a_vprops a) /\
  Forall (record_ok (a_vprops a)) (a_verts a) /\
  Forall (raw_free (a_fmt a)) (spec_entries default_groups (a_vprops a)).

Theorem read_body_points_proof : forall a, pointcloud_ok a ->
  read_body default_groups true (header_of a) (enc_body a) = describe a /\ exists m, describe a = Ok m.
Proof.
  intros [fm ps verts fp faces] [Hfp [Hfa [NE [ND [S [R Raw]]]]]]. cbn [a_fprops a_faces a_vprops a_verts a_fmt] in *. subst fp faces.
  destruct (build_readers_agree fm default_groups ps ND S default_groups_wf Raw) as [bs [B F]].
  destruct (rows_exist fm ps bs _ verts F R) as [rows M].
  pose proof (attrs_agree fm ps bs verts rows M R bs _ F 0%nat [] (fun i b H => H)) as D.
  rewrite <- describe_attrs_entries in D.
  assert (Hd : describe {| a_fmt := fm; a_vprops := ps; a_verts := verts; a_fprops := None; a_faces := [] |} =
               Ok {| m_topo := TPoint; m_idx := iota (length verts); m_attrs := update_mesh bs 0 rows [] |}).
  { unfold describe. cbn [a_vprops a_verts a_fprops]. rewrite D. reflexivity. }
  split; [|eexists; exact Hd]. rewrite Hd.
  unfold read_body, header_of. cbn [a_fmt a_vprops a_verts a_fprops a_faces h_elems h_fmt].
  simpl (find_last_elem "vertex" _ None). simpl (find_last_elem "face" _ None).
  cbn [of_opt rbind e_props e_count]. fold (scalars ps). rewrite all_scalar_scalars. cbn [negb].
  replace (Z.of_nat (length verts) <? 0)%Z with false by (symmetry; apply Z.ltb_ge; lia).
  rewrite Nat2Z.id. unfold enc_body. cbn [a_fmt a_vprops a_verts a_faces map fprops_of a_fprops flat_map].
  destruct fm; cbn [is_bin] in B; rewrite B; cbn [rbind].
  - (* ascii *)
    destruct (vertex_i_is_record_i_ascii_proof ps verts bs [] rows NE) as [Rd _].
    { apply Forall_forall. intros rec Ir. rewrite Forall_forall in R. apply record_ok_length, R, Ir. }
    { exact M. }
    unfold encode_vertices_ascii in Rd. unfold scalars at 1. rewrite map_length. rewrite Rd. cbn [rbind].
    reflexivity.
  - destruct (vertex_i_is_record_i_bin_proof LEnd ps verts bs [] rows R M) as [Rd _].
    unfold encode_vertices_bin in Rd. rewrite Rd. cbn [rbind]. reflexivity.
  - destruct (vertex_i_is_record_i_bin_proof BEnd ps verts bs [] rows R M) as [Rd _].
    unfold encode_vertices_bin in Rd. rewrite Rd. cbn [rbind]. reflexivity.
Qed.

(* ================= the header parser on the canonical header text ================= *)
Lemma parse_dec_show c : (0 <= c)%Z -> parse_dec (show_udec (Z.to_N c)) = Some c.
Proof.
  intros H. unfold show_udec. set (n := Z.to_N c).
  assert (NN : N.to_uint n <> Decimal.Nil).
  { destruct n; [discriminate|]. apply DecimalPos.Unsigned.to_uint_nonnil. }
  assert (E : parse_dec (NilZero.string_of_uint (N.to_uint n)) =
              option_map Z.of_N (parse_udec (NilZero.string_of_uint (N.to_uint n)))).
  { unfold NilZero.string_of_uint. destruct (N.to_uint n); try congruence; reflexivity. }
  rewrite E. unfold parse_udec. rewrite (NilZero.usu _ NN). cbn [option_map].
  rewrite DecimalN.Unsigned.of_to. unfold n. rewrite Z2N.id by exact H. reflexivity.
Qed.

Definition prop_good (p : prop) : Prop := match p with PList _ _ n => lower n = n | PScalar _ _ => True end.
Definition elem_good (e : element) : Prop :=
  lower (e_name e) = e_name e /\ (0 <= e_count e)%Z /\ Forall prop_good (e_props e).

Lemma parse_sty_name t : parse_sty (sty_name t) = Ok t.
Proof. destruct t; reflexivity. Qed.
Lemma sty_name_not_list t : seqb (lower (sty_name t)) "list" = false.
Proof. destruct t; reflexivity. Qed.

Lemma hstep_prop_line p e es cm : prop_good p ->
  is_end (prop_line p) = false /\
  hstep (prop_line p) {| hs_elems := e :: es; hs_comments := cm |} =
  Ok {| hs_elems := {| e_name := e_name e; e_count := e_count e; e_props := p :: e_props e |} :: es; hs_comments := cm |}.
Proof.
  intros G. destruct p as [t n|ct lt n]; cbn [prop_line].
  - split; [reflexivity|]. unfold hstep. 
    change (seqb "property" "comment") with false. change (seqb "property" "element") with false.
    change (seqb "property" "property") with true. cbv iota.
    unfold parse_property. rewrite sty_name_not_list, parse_sty_name. reflexivity.
  - split; [reflexivity|]. unfold hstep.
    change (seqb "property" "comment") with false. change (seqb "property" "element") with false.
    change (seqb "property" "property") with true. cbv iota.
    unfold parse_property. change (seqb (lower "list") "list") with true. cbv iota.
    rewrite !parse_sty_name. cbn [rbind]. cbn [prop_good] in G. rewrite G. reflexivity.
Qed.

Lemma hloop_props : forall props rest e es cm, Forall prop_good props ->
  hloop (map prop_line props ++ rest) {| hs_elems := e :: es; hs_comments := cm |} =
  hloop rest {| hs_elems := {| e_name := e_name e; e_count := e_count e; e_props := rev props ++ e_props e |} :: es;
               hs_comments := cm |}.
Proof.
  induction props as [|p props IH]; intros rest e es cm G.
  - cbn [map app rev]. destruct e; reflexivity.
  - inversion G as [|? ? Gp G']; subst. cbn [map app hloop].
    destruct (hstep_prop_line p e es cm Gp) as [E1 E2]. rewrite E1, E2. cbn [rbind].
    rewrite IH by exact G'. cbn [e_name e_count e_props rev]. rewrite <- app_assoc. reflexivity.
Qed.

Definition rev_props (e : element) : element := {| e_name := e_name e; e_count := e_count e; e_props := rev (e_props e) |}.

Lemma hloop_elems : forall elems rest es cm, Forall elem_good elems ->
  hloop (flat_map elem_lines elems ++ rest) {| hs_elems := es; hs_comments := cm |} =
  hloop rest {| hs_elems := rev (map rev_props elems) ++ es; hs_comments := cm |}.
Proof.
  induction elems as [|e elems IH]; intros rest es cm G; [reflexivity|].
  inversion G as [|? ? [Gn [Gc Gp]] G']; subst.
  cbn [flat_map]. rewrite <- app_assoc. unfold elem_lines at 1. cbn [app hloop is_end].
  unfold hstep. change (seqb "element" "comment") with false. change (seqb "element" "element") with true. cbv iota.
  rewrite (parse_dec_show _ Gc). cbn [of_opt rbind hs_elems hs_comments]. rewrite Gn.
  rewrite hloop_props by exact Gp. cbn [e_name e_count e_props]. rewrite app_nil_r.
  rewrite IH by exact G'. cbn [map rev]. rewrite <- app_assoc. reflexivity.
Qed.

Lemma finish_rev_props e : finish_elem (rev_props e) = e.
Proof. destruct e. unfold finish_elem, rev_props. cbn. rewrite rev_involutive. reflexivity. Qed.

(* the parser recovers exactly the declared format, elements and properties from the canonical header text *)
Theorem parse_render_header_proof : forall h, Forall elem_good (h_elems h) -> h_comments h = [] ->
  parse_header (render_header h) = Ok h.
Proof.
  intros [f elems cms] G C. cbn [h_elems h_comments] in *. subst cms.
  unfold render_header. cbn [h_fmt h_elems]. unfold parse_header.
  change (seqb "ply" "ply") with true. cbn [negb]. cbn [app skip_blank].
  assert (Pf : parse_format ["format"%string; fmt_name f; "1.0"%string] = Ok f) by (destruct f; reflexivity).
  rewrite Pf. cbn [rbind]. rewrite (hloop_elems elems [["end_header"%string]] [] [] G).
  cbn [hloop is_end]. change (seqb "end_header" "end_header") with true. cbv iota. cbn [rbind hs_elems hs_comments rev].
  rewrite app_nil_r, map_rev, rev_involutive, map_map.
  rewrite (map_ext _ (fun e => e) finish_rev_props), map_id. reflexivity.
Qed.

(* ================= whole point-cloud files ================= *)
Lemma header_of_points_good a : a_fprops a = None -> Forall elem_good (h_elems (header_of a)).
Proof.
  intros H. unfold header_of. rewrite H. cbn [h_elems]. constructor; [|constructor].
  unfold elem_good. cbn [e_name e_count e_props]. repeat split; [lia|].
  apply Forall_forall. intros p Ip. apply in_map_iff in Ip. destruct Ip as [[t n] [<- _]]. exact I.
Qed.

Theorem read_mesh_points_proof : forall a, pointcloud_ok a ->
  read_mesh (encode a) = describe a /\ exists m, describe a = Ok m.
Proof.
  intros a P. unfold read_mesh, encode. cbn [pf_header pf_body].
  rewrite parse_render_header_proof; [|apply header_of_points_good, P|reflexivity].
  cbn [rbind]. apply read_body_points_proof, P.
Qed.

(* ... and with comment / obj_info / blank lines anywhere in the header *)
Lemma read_body_ext gs u h1 h2 b : h_fmt h1 = h_fmt h2 -> h_elems h1 = h_elems h2 -> read_body gs u h1 b = read_body gs u h2 b.
Proof. destruct h1 as [f1 e1 c1], h2 as [f2 e2 c2]. cbn [h_fmt h_elems]. intros -> ->. reflexivity. Qed.

Lemma read_mesh_ext l1 l2 b : strip_comments (parse_header l1) = strip_comments (parse_header l2) ->
  read_mesh {| pf_header := l1; pf_body := b |} = read_mesh {| pf_header := l2; pf_body := b |}.
Proof.
  unfold read_mesh. cbn [pf_header pf_body]. destruct (parse_header l1) as [h1|e1], (parse_header l2) as [h2|e2];
    cbn [strip_comments rbind]; intros H; try discriminate H.
  - injection H as Hf He. apply read_body_ext; assumption.
  - congruence.
Qed.

Definition header_body (h : header) : list (list string) := flat_map elem_lines (h_elems h) ++ [["end_header"%string]].

Theorem read_mesh_points_noisy_proof : forall a noisy, pointcloud_ok a ->
  with_noise (header_body (header_of a)) noisy ->
  read_mesh {| pf_header := ["ply"%string] :: ["format"%string; fmt_name (a_fmt a); "1.0"%string] :: noisy; pf_body := enc_body a |}
  = describe a.
Proof.
  intros a noisy P W.
  rewrite (read_mesh_ext _ (render_header (header_of a)) (enc_body a)).
  - apply (read_mesh_points_proof a P).
  - unfold render_header. apply header_noise_ignored_proof; [discriminate|exact W].
Qed.

(* ================= triangle meshes without a texcoord list ================= *)
Definition fprops := list (sty * sty * string).
Definition lists_of (fps : fprops) : list prop := map (fun '(ct, lt, n) => PList ct lt n) fps.
Definition rs_of (fps : fprops) : list (sty * sty) := map (fun '(ct, lt, _) => (ct, lt)) fps.

Lemma list_props_lists fps : list_props (lists_of fps) = Ok (rs_of fps).
Proof. induction fps as [|[[ct lt] n] fps IH]; [reflexivity|]. unfold lists_of, rs_of in *. cbn [map list_props]. rewrite IH. reflexivity. Qed.

Lemma last_index_spec (f : prop -> bool) : forall ps k acc i, last_index f ps k acc = Some i ->
  acc = Some i \/ ((k <= i)%nat /\ exists p, nth_error ps (i - k) = Some p /\ f p = true).
Proof.
  induction ps as [|p ps IH]; intros k acc i H; [left; exact H|]. cbn [last_index] in H.
  destruct (IH _ _ _ H) as [E|[Hk [q [Nq Fq]]]].
  - destruct (f p) eqn:Fp; [|left; exact E]. injection E as <-. right. split; [lia|]. exists p. rewrite Nat.sub_diag. split; [reflexivity|exact Fp].
  - right. split; [lia|]. exists q. replace (i - k)%nat with (S (i - S k)) by lia. split; assumption.
Qed.

Lemma enc_face_bin_fps e (fps : fprops) f :
  flat_map (fun '((ct, lt, _), ws) => enc_list_bin e ct lt ws) (combine fps f) = enc_face_bin e (rs_of fps) f.
Proof.
  revert f. induction fps as [|[[ct lt] n] fps IH]; intros [|ws f]; try reflexivity.
  unfold enc_face_bin, rs_of in *. cbn [map combine flat_map]. rewrite IH. reflexivity.
Qed.
Lemma enc_face_ascii_fps (fps : fprops) f :
  flat_map (fun '((_, lt, _), ws) => enc_list_ascii lt ws) (combine fps f) = enc_face_ascii (rs_of fps) f.
Proof.
  revert f. induction fps as [|[[ct lt] n] fps IH]; intros [|ws f]; try reflexivity.
  unfold enc_face_ascii, rs_of in *. cbn [map combine flat_map]. rewrite IH. reflexivity.
Qed.

Definition trimesh_ok (a : absfile) (fps : fprops) (ip : nat) (ct lt : sty) : Prop :=
  a_fprops a = Some fps /\ a_vprops a <> [] /\ NoDup (names (a_vprops a)) /\ supported (a_vprops a) /\
  Forall (record_ok (a_vprops a)) (a_verts a) /\
  Forall (raw_free (a_fmt a)) (spec_entries default_groups (a_vprops a)) /\
  (* the face element: list properties with lower-case names, an index property, no texcoord property *)
  Forall (fun p => lower (snd p) = snd p) fps /\
  last_index is_indices (lists_of fps) 0 None = Some ip /\
  last_index is_texcoord (lists_of fps) 0 None = None /\
  nth_error (rs_of fps) ip = Some (ct, lt) /\ index_ty_ok lt = true /\
  Forall (face_ok (rs_of fps) ip) (a_faces a) /\
  (* index values are vertex numbers: below 2^31 (an ascii uint token is read unsigned) *)
  Forall (fun f => Forall (fun w => w < 2 ^ 31) (nth ip f [])) (a_faces a).

Lemma signed32_small w : w < 2 ^ 31 -> signed32 w = Z.of_N w.
Proof. intros H. unfold signed32. replace (w <? 2 ^ 31) with true by (symmetry; apply N.ltb_lt; exact H). reflexivity. Qed.
Lemma idx_ascii_small lt ws : Forall (fun w => w < 2 ^ 31) ws -> map (idx_ascii lt) ws = map signed32 ws.
Proof.
  intros F. apply map_ext_in. intros w Iw. rewrite Forall_forall in F. unfold idx_ascii.
  destruct lt; try reflexivity; symmetry; apply signed32_small, F, Iw.
Qed.

Theorem read_body_tris_proof : forall a fps ip ct lt, trimesh_ok a fps ip ct lt ->
  read_body default_groups true (header_of a) (enc_body a) = describe a /\ exists m, describe a = Ok m.
Proof.
  intros [fm ps verts fp faces] fps ip ct lt [Hfp [NE [ND [S [R [Raw [Low [Hip [Htp [Nip [Ity [Fok Small]]]]]]]]]]]].
  cbn [a_fprops a_faces a_vprops a_verts a_fmt] in *. subst fp.
  destruct (build_readers_agree fm default_groups ps ND S default_groups_wf Raw) as [bs [B F]].
  destruct (rows_exist fm ps bs _ verts F R) as [rows M].
  pose proof (attrs_agree fm ps bs verts rows M R bs _ F 0%nat [] (fun i b H => H)) as D.
  rewrite <- describe_attrs_entries in D.
  set (idx := flat_map (fun f => fan_tris (map signed32 (nth ip f []))) faces).
  assert (Hlt : match nth_error fps ip with Some (_, l, _) => l | None => Int end = lt).
  { unfold rs_of in Nip. rewrite nth_error_map in Nip. destruct (nth_error fps ip) as [[[c l] n]|]; [|discriminate].
    cbn in Nip. congruence. }
  assert (Hd : describe {| a_fmt := fm; a_vprops := ps; a_verts := verts; a_fprops := Some fps; a_faces := faces |} =
               Ok {| m_topo := TTriangle; m_idx := idx; m_attrs := update_mesh bs 0 rows [] |}).
  { unfold describe. cbn [a_vprops a_verts a_fprops a_faces]. rewrite D. cbn [rbind].
    fold (lists_of fps). rewrite Hip, Htp. cbn [of_opt rbind]. reflexivity. }
  split; [|eexists; exact Hd]. rewrite Hd.
  unfold read_body, header_of. cbn [a_fmt a_vprops a_verts a_fprops a_faces h_elems h_fmt].
  simpl (find_last_elem "vertex" _ None). simpl (find_last_elem "face" _ None).
  cbn [of_opt rbind e_props e_count]. fold (scalars ps). rewrite all_scalar_scalars. cbn [negb].
  replace (Z.of_nat (length verts) <? 0)%Z with false by (symmetry; apply Z.ltb_ge; lia).
  rewrite !Nat2Z.id. unfold enc_body. cbn [a_fmt a_vprops a_verts a_faces fprops_of a_fprops].
  assert (Fs : face_setup {| e_name := "face"; e_count := Z.of_nat (length faces); e_props := lists_of fps |} = Ok (rs_of fps, ip, None)).
  { unfold face_setup. cbn [e_props]. rewrite list_props_lists. cbn [rbind]. rewrite Hip, Htp. reflexivity. }
  fold (lists_of fps). 
  destruct fm; cbn [is_bin] in B; rewrite B; cbn [rbind].
  - (* ascii *)
    destruct (vertex_i_is_record_i_ascii_proof ps verts bs
                (map (fun f => flat_map (fun '((_, lt0, _), ws) => enc_list_ascii lt0 ws) (combine fps f)) faces) rows NE) as [Rd _].
    { apply Forall_forall. intros rec Ir. rewrite Forall_forall in R. apply record_ok_length, R, Ir. }
    { exact M. }
    unfold encode_vertices_ascii in Rd. unfold scalars at 1. rewrite map_length. rewrite Rd. cbn [rbind].
    rewrite Fs. cbn [rbind].
    rewrite (map_ext _ (enc_face_ascii (rs_of fps)) (enc_face_ascii_fps fps)).
    rewrite (quad_fan_ascii_proof (rs_of fps) ip ct lt faces fstate0).
    + cbn [rbind length Nat.eqb negb andb]. f_equal. f_equal. unfold idx.
      apply flat_map_ext_in'. intros f If. rewrite Forall_forall in Small. rewrite (idx_ascii_small lt _ (Small f If)). reflexivity.
    + intros E. rewrite E in Nip. destruct ip; discriminate.
    + exact Nip.
    + exact Ity.
    + apply Forall_forall. intros f If. rewrite Forall_forall in Fok. destruct (Fok f If) as [F2 L34].
      split; [eapply Forall2_length'; exact F2|exact L34].
  - destruct (vertex_i_is_record_i_bin_proof LEnd ps verts bs
                (flat_map (fun f => flat_map (fun '((ct0, lt0, _), ws) => enc_list_bin LEnd ct0 lt0 ws) (combine fps f)) faces) rows R M) as [Rd _].
    unfold encode_vertices_bin in Rd. rewrite Rd. cbn [rbind]. rewrite Fs. cbn [rbind].
    rewrite (flat_map_ext_in' _ (enc_face_bin LEnd (rs_of fps)) faces (fun f _ => enc_face_bin_fps LEnd fps f)).
    rewrite <- (app_nil_r (flat_map (enc_face_bin LEnd (rs_of fps)) faces)).
    rewrite (quad_fan_bin_proof LEnd (rs_of fps) ip ct lt faces [] fstate0 Nip Ity Fok).
    reflexivity.
  - destruct (vertex_i_is_record_i_bin_proof BEnd ps verts bs
                (flat_map (fun f => flat_map (fun '((ct0, lt0, _), ws) => enc_list_bin BEnd ct0 lt0 ws) (combine fps f)) faces) rows R M) as [Rd _].
    unfold encode_vertices_bin in Rd. rewrite Rd. cbn [rbind]. rewrite Fs. cbn [rbind].
    rewrite (flat_map_ext_in' _ (enc_face_bin BEnd (rs_of fps)) faces (fun f _ => enc_face_bin_fps BEnd fps f)).
    rewrite <- (app_nil_r (flat_map (enc_face_bin BEnd (rs_of fps)) faces)).
    rewrite (quad_fan_bin_proof BEnd (rs_of fps) ip ct lt faces [] fstate0 Nip Ity Fok).
    reflexivity.
Qed.

Lemma header_of_tris_good a fps : a_fprops a = Some fps -> Forall (fun p => lower (snd p) = snd p) fps ->
  Forall elem_good (h_elems (header_of a)).
Proof.
  intros H Low. unfold header_of. rewrite H. cbn [h_elems]. constructor; [|constructor; [|constructor]].
  - unfold elem_good. cbn [e_name e_count e_props]. repeat split; [lia|].
    apply Forall_forall. intros p Ip. apply in_map_iff in Ip. destruct Ip as [[t n] [<- _]]. exact I.
  - unfold elem_good. cbn [e_name e_count e_props]. repeat split; [lia|].
    apply Forall_forall. intros p Ip. apply in_map_iff in Ip. destruct Ip as [[[c l] n] [<- In']].
    rewrite Forall_forall in Low. apply (Low _ In').
Qed.

Theorem read_mesh_tris_proof : forall a fps ip ct lt, trimesh_ok a fps ip ct lt ->
  read_mesh (encode a) = describe a /\ exists m, describe a = Ok m.
Proof.
  intros a fps ip ct lt T. unfold read_mesh, encode. cbn [pf_header pf_body].
  rewrite parse_render_header_proof; [|eapply header_of_tris_good; apply T|reflexivity].
  cbn [rbind]. eapply read_body_tris_proof, T.
Qed.

Theorem read_mesh_tris_noisy_proof : forall a fps ip ct lt noisy, trimesh_ok a fps ip ct lt ->
  with_noise (header_body (header_of a)) noisy ->
  read_mesh {| pf_header := ["ply"%string] :: ["format"%string; fmt_name (a_fmt a); "1.0"%string] :: noisy; pf_body := enc_body a |}
  = describe a.
Proof.
  intros a fps ip ct lt noisy T W.
  rewrite (read_mesh_ext _ (render_header (header_of a)) (enc_body a)).
  - apply (read_mesh_tris_proof a fps ip ct lt T).
  - unfold render_header. apply header_noise_ignored_proof; [discriminate|exact W].
Qed.

(* ================= triangle meshes with per-corner texture coordinates ================= *)
Definition texmesh_ok (a : absfile) (fps : fprops) (ip tk : nat) (ct lt ctt ltt : sty) : Prop :=
  a_fprops a = Some fps /\ a_vprops a <> [] /\ NoDup (names (a_vprops a)) /\ supported (a_vprops a) /\
  Forall (record_ok (a_vprops a)) (a_verts a) /\
  Forall (raw_free (a_fmt a)) (spec_entries default_groups (a_vprops a)) /\
  Forall (fun p => lower (snd p) = snd p) fps /\
  last_index is_indices (lists_of fps) 0 None = Some ip /\
  last_index is_texcoord (lists_of fps) 0 None = Some tk /\
  nth_error (rs_of fps) ip = Some (ct, lt) /\ index_ty_ok lt = true /\
  nth_error (rs_of fps) tk = Some (ctt, ltt) /\ (ltt = Float \/ ltt = Double) /\
  Forall (tex_face_ok (rs_of fps) ip tk) (a_faces a) /\
  Forall (fun f => Forall (fun w => w < 2 ^ 31) (nth ip f [])) (a_faces a).

Lemma fan_lengths (ws : list Z) (ts : list N) :
  (length ws = 3%nat /\ length ts = 6%nat) \/ (length ws = 4%nat /\ length ts = 8%nat) ->
  length (fan (pairs ts) []) = length (fan_tris ws).
Proof.
  intros [[L1 L2]|[L1 L2]].
  - destruct ws as [|a [|b [|c [|? ?]]]]; try discriminate L1.
    destruct ts as [|t0 [|t1 [|t2 [|t3 [|t4 [|t5 [|? ?]]]]]]]; try discriminate L2. reflexivity.
  - destruct ws as [|a [|b [|c [|d [|? ?]]]]]; try discriminate L1.
    destruct ts as [|t0 [|t1 [|t2 [|t3 [|t4 [|t5 [|t6 [|t7 [|? ?]]]]]]]]]; try discriminate L2. reflexivity.
Qed.

Theorem read_body_tex_proof : forall a fps ip tk ct lt ctt ltt, texmesh_ok a fps ip tk ct lt ctt ltt ->
  read_body default_groups true (header_of a) (enc_body a) = describe a.
Proof.
  intros [fm ps verts fp faces] fps ip tk ct lt ctt ltt
         [Hfp [NE [ND [S [R [Raw [Low [Hip [Htp [Nip [Ity [Ntk [Flt [Fok Small]]]]]]]]]]]]]].
  cbn [a_fprops a_faces a_vprops a_verts a_fmt] in *. subst fp.
  destruct (build_readers_agree fm default_groups ps ND S default_groups_wf Raw) as [bs [B F]].
  destruct (rows_exist fm ps bs _ verts F R) as [rows M].
  pose proof (attrs_agree fm ps bs verts rows M R bs _ F 0%nat [] (fun i b H => H)) as D.
  rewrite <- describe_attrs_entries in D.
  set (idx := flat_map (fun f => fan_tris (map signed32 (nth ip f []))) faces).
  set (uvs := flat_map (fun f => fan (pairs (map (tex_value ltt) (nth tk f []))) []) faces).
  assert (Hlt : forall j c l, nth_error (rs_of fps) j = Some (c, l) ->
                match nth_error fps j with Some (_, l0, _) => l0 | None => Int end = l).
  { intros j c l Hj. unfold rs_of in Hj. rewrite nth_error_map in Hj. destruct (nth_error fps j) as [[[c0 l0] n]|]; [|discriminate].
    cbn in Hj. congruence. }
  assert (Len : length uvs = length idx).
  { unfold uvs, idx. clear - Fok. induction Fok as [|f fs [_ L34] Fok IH]; [reflexivity|].
    cbn [flat_map]. rewrite !app_length, IH. f_equal. apply fan_lengths. rewrite !map_length. exact L34. }
  set (final := if negb (Nat.eqb (length uvs) 0)
                then dor ua <- unweld_attrs (update_mesh bs 0 rows []) idx;
                     Ok {| m_topo := TTriangle; m_idx := iota (length idx); m_attrs := set_attr 2 "TexCoord" uvs ua |}
                else Ok {| m_topo := TTriangle; m_idx := idx; m_attrs := update_mesh bs 0 rows [] |}).
  assert (Hd : describe {| a_fmt := fm; a_vprops := ps; a_verts := verts; a_fprops := Some fps; a_faces := faces |} = final).
  { unfold describe. cbn [a_vprops a_verts a_fprops a_faces]. rewrite D. cbn [rbind].
    fold (lists_of fps). rewrite Hip, Htp. cbn [of_opt rbind]. rewrite (Hlt ip ct lt Nip), (Hlt tk ctt ltt Ntk). reflexivity. }
  rewrite Hd.
  assert (Hfin : forall ix uv, ix = idx -> uv = uvs ->
            (if negb (Nat.eqb (length uv) 0) && Nat.eqb (length uv) (length ix)
             then dor ua <- unweld_attrs (update_mesh bs 0 rows []) ix;
                  Ok {| m_topo := TTriangle; m_idx := iota (length ix); m_attrs := set_attr 2 "TexCoord" uv ua |}
             else Ok {| m_topo := TTriangle; m_idx := ix; m_attrs := update_mesh bs 0 rows [] |}) = final).
  { intros ix uv -> ->. unfold final. rewrite Len, Nat.eqb_refl, andb_true_r. reflexivity. }
  unfold read_body, header_of. cbn [a_fmt a_vprops a_verts a_fprops a_faces h_elems h_fmt].
  simpl (find_last_elem "vertex" _ None). simpl (find_last_elem "face" _ None).
  cbn [of_opt rbind e_props e_count]. fold (scalars ps). rewrite all_scalar_scalars. cbn [negb].
  replace (Z.of_nat (length verts) <? 0)%Z with false by (symmetry; apply Z.ltb_ge; lia).
  rewrite !Nat2Z.id. unfold enc_body. cbn [a_fmt a_vprops a_verts a_faces fprops_of a_fprops].
  assert (Fs : face_setup {| e_name := "face"; e_count := Z.of_nat (length faces); e_props := lists_of fps |} = Ok (rs_of fps, ip, Some tk)).
  { unfold face_setup. cbn [e_props]. rewrite list_props_lists. cbn [rbind]. rewrite Hip, Htp. reflexivity. }
  fold (lists_of fps).
  destruct fm; cbn [is_bin] in B; rewrite B; cbn [rbind].
  - destruct (vertex_i_is_record_i_ascii_proof ps verts bs
                (map (fun f => flat_map (fun '((_, lt0, _), ws) => enc_list_ascii lt0 ws) (combine fps f)) faces) rows NE) as [Rd _].
    { apply Forall_forall. intros rec Ir. rewrite Forall_forall in R. apply record_ok_length, R, Ir. }
    { exact M. }
    unfold encode_vertices_ascii in Rd. unfold scalars at 1. rewrite map_length. rewrite Rd. cbn [rbind].
    rewrite Fs. cbn [rbind].
    rewrite (map_ext _ (enc_face_ascii (rs_of fps)) (enc_face_ascii_fps fps)).
    rewrite (quad_fan_tex_ascii_proof (rs_of fps) ip tk ct lt ctt ltt faces fstate0); try assumption; try reflexivity.
    + cbn [rbind]. apply Hfin; reflexivity.
    + intros E. rewrite E in Nip. destruct ip; discriminate.
    + apply Forall_forall. intros f If. rewrite Forall_forall in Fok, Small. destruct (Fok f If) as [F2 L34].
      split; [eapply Forall2_length'; exact F2|]. split; [exact L34|apply Small, If].
  - destruct (vertex_i_is_record_i_bin_proof LEnd ps verts bs
                (flat_map (fun f => flat_map (fun '((ct0, lt0, _), ws) => enc_list_bin LEnd ct0 lt0 ws) (combine fps f)) faces) rows R M) as [Rd _].
    unfold encode_vertices_bin in Rd. rewrite Rd. cbn [rbind]. rewrite Fs. cbn [rbind].
    rewrite (flat_map_ext_in' _ (enc_face_bin LEnd (rs_of fps)) faces (fun f _ => enc_face_bin_fps LEnd fps f)).
    rewrite <- (app_nil_r (flat_map (enc_face_bin LEnd (rs_of fps)) faces)).
    rewrite (quad_fan_tex_bin_proof LEnd (rs_of fps) ip tk ct lt ctt ltt faces [] fstate0 Nip Ity Ntk Flt eq_refl eq_refl Fok).
    cbn [rbind]. apply Hfin; reflexivity.
  - destruct (vertex_i_is_record_i_bin_proof BEnd ps verts bs
                (flat_map (fun f => flat_map (fun '((ct0, lt0, _), ws) => enc_list_bin BEnd ct0 lt0 ws) (combine fps f)) faces) rows R M) as [Rd _].
    unfold encode_vertices_bin in Rd. rewrite Rd. cbn [rbind]. rewrite Fs. cbn [rbind].
    rewrite (flat_map_ext_in' _ (enc_face_bin BEnd (rs_of fps)) faces (fun f _ => enc_face_bin_fps BEnd fps f)).
    rewrite <- (app_nil_r (flat_map (enc_face_bin BEnd (rs_of fps)) faces)).
    rewrite (quad_fan_tex_bin_proof BEnd (rs_of fps) ip tk ct lt ctt ltt faces [] fstate0 Nip Ity Ntk Flt eq_refl eq_refl Fok).
    cbn [rbind]. apply Hfin; reflexivity.
Qed.

Theorem read_mesh_tex_proof : forall a fps ip tk ct lt ctt ltt, texmesh_ok a fps ip tk ct lt ctt ltt ->
  read_mesh (encode a) = describe a.
Proof.
  intros a fps ip tk ct lt ctt ltt T. unfold read_mesh, encode. cbn [pf_header pf_body].
  rewrite parse_render_header_proof; [|eapply header_of_tris_good; apply T|reflexivity].
  cbn [rbind]. eapply read_body_tex_proof, T.
Qed.

Theorem read_mesh_tex_noisy_proof : forall a fps ip tk ct lt ctt ltt noisy, texmesh_ok a fps ip tk ct lt ctt ltt ->
  with_noise (header_body (header_of a)) noisy ->
  read_mesh {| pf_header := ["ply"%string] :: ["format"%string; fmt_name (a_fmt a); "1.0"%string] :: noisy; pf_body := enc_body a |}
  = describe a.
Proof.
  intros a fps ip tk ct lt ctt ltt noisy T W.
  rewrite (read_mesh_ext _ (render_header (header_of a)) (enc_body a)).
  - apply (read_mesh_tex_proof a fps ip tk ct lt ctt ltt T).
  - unfold render_header. apply header_noise_ignored_proof; [discriminate|exact W].
Qed.

(* ---- such a file loads without error when its faces name existing vertices ---- *)
Definition attrs_len (n : nat) (l : list attr) : Prop := Forall (fun a : attr => length (snd a) = n) l.

Lemma set_attr_len n d nm data l : attrs_len n l -> length data = n -> attrs_len n (set_attr d nm data l).
Proof.
  intros A L. unfold set_attr, attrs_len in *.
  assert (Fl : Forall (fun a : attr => length (snd a) = n) (filter (fun a => negb (key_eqb d nm a)) l)).
  { apply Forall_forall. intros x Ix. apply filter_In in Ix. rewrite Forall_forall in A. apply A, Ix. }
  destruct data; [exact Fl|]. apply Forall_app. split; [exact Fl|]. constructor; [exact L|constructor].
Qed.
Lemma update_mesh_len rows : forall bs j l, attrs_len (length rows) l -> attrs_len (length rows) (update_mesh bs j rows l).
Proof.
  induction bs as [|b bs IH]; intros j l A; [exact A|]. cbn [update_mesh]. apply IH, set_attr_len; [exact A|].
  unfold column. apply map_length.
Qed.
Lemma gather_ok {A} (data : list A) idx : Forall (fun i => (0 <= i < Z.of_nat (length data))%Z) idx ->
  exists g, gather data idx = Ok g.
Proof.
  intros F. unfold gather. apply mapR_ok_all. intros i Ii. rewrite Forall_forall in F. specialize (F i Ii).
  replace (i <? 0)%Z with false by (symmetry; apply Z.ltb_ge; lia).
  destruct (nth_error data (Z.to_nat i)) as [x|] eqn:E; [exists x; reflexivity|]. apply nth_error_None in E. lia.
Qed.
Lemma unweld_ok n l idx : attrs_len n l -> Forall (fun i => (0 <= i < Z.of_nat n)%Z) idx ->
  exists ua, unweld_attrs l idx = Ok ua.
Proof.
  intros A F. unfold unweld_attrs. apply mapR_ok_all. intros [[d nm] data] Ia.
  unfold attrs_len in A. rewrite Forall_forall in A. specialize (A _ Ia). cbn [snd] in A.
  destruct (gather_ok data idx) as [g Hg]; [rewrite A; exact F|]. rewrite Hg. eexists. reflexivity.
Qed.
Lemma fan_tris_in x l : In x (fan_tris l) -> In x l.
Proof.
  unfold fan_tris, fan. destruct l as [|a [|b [|c [|d [|? ?]]]]]; cbn; intros H; try contradiction; intuition.
Qed.

Theorem texmesh_loads_proof : forall a fps ip tk ct lt ctt ltt, texmesh_ok a fps ip tk ct lt ctt ltt ->
  Forall (fun f => Forall (fun w => w < N.of_nat (length (a_verts a))) (nth ip f [])) (a_faces a) ->
  exists m, describe a = Ok m.
Proof.
  intros [fm ps verts fp faces] fps ip tk ct lt ctt ltt
         [Hfp [NE [ND [S [R [Raw [Low [Hip [Htp [Nip [Ity [Ntk [Flt [Fok Small]]]]]]]]]]]]]] InR.
  cbn [a_fprops a_faces a_vprops a_verts a_fmt] in *. subst fp.
  destruct (build_readers_agree fm default_groups ps ND S default_groups_wf Raw) as [bs [B F]].
  destruct (rows_exist fm ps bs _ verts F R) as [rows M].
  pose proof (attrs_agree fm ps bs verts rows M R bs _ F 0%nat [] (fun i b H => H)) as D.
  rewrite <- describe_attrs_entries in D.
  pose proof (mapR_length _ _ _ M) as Lr.
  unfold describe. cbn [a_vprops a_verts a_fprops a_faces]. rewrite D. cbn [rbind].
  fold (lists_of fps). rewrite Hip, Htp. cbn [of_opt rbind].
  match goal with |- context [if ?c then _ else _] => destruct c end; [|eexists; reflexivity].
  match goal with |- context [unweld_attrs ?l ?i] => destruct (unweld_ok (length rows) l i) as [ua Hu] end.
  - apply update_mesh_len. constructor.
  - apply Forall_forall. intros i Ii. apply in_flat_map in Ii. destruct Ii as [f [If Ii]].
    apply fan_tris_in in Ii. apply in_map_iff in Ii. destruct Ii as [w [<- Iw]].
    assert (Hlt : match nth_error fps ip with Some (_, l0, _) => l0 | None => Int end = lt).
    { unfold rs_of in Nip. rewrite nth_error_map in Nip. destruct (nth_error fps ip) as [[[c0 l0] n]|]; [|discriminate]. cbn in Nip. congruence. }
    rewrite Forall_forall in InR, Small. pose proof (InR f If) as H1. pose proof (Small f If) as H2.
    rewrite Forall_forall in H1, H2. specialize (H1 w Iw). specialize (H2 w Iw).
    unfold idx_value. rewrite (signed32_small w H2). rewrite Lr. lia.
  - rewrite Hu. eexists. reflexivity.
Qed.

(* ================= alias spellings in whole headers ================= *)
Inductive alias_line : list string -> list string -> Prop :=
| al_same l : alias_line l l
| al_scalar k k' n : same_type k k' -> alias_line ["property"; k; n]%string ["property"; k'; n]%string
| al_list c c' t t' n : same_type c c' -> same_type t t' ->
    alias_line ["property"; "list"; c; t; n]%string ["property"; "list"; c'; t'; n]%string.

Lemma typed_not_list a t : parse_sty a = Ok t -> seqb (lower a) "list" = false.
Proof.
  intros H. destruct (seqb (lower a) "list") eqn:E; [|reflexivity]. apply String.eqb_eq in E.
  unfold parse_sty in H. rewrite E in H. discriminate H.
Qed.

Lemma hstep_alias l l' st : alias_line l l' -> hstep l' st = hstep l st /\ is_end l' = is_end l.
Proof.
  intros [l0|k k' n [t [H1 H2]]|c c' t t' n [tc [C1 C2]] [tt [T1 T2]]]; [split; reflexivity| |].
  - split; [|reflexivity]. unfold hstep.
    change (seqb "property" "comment") with false. change (seqb "property" "element") with false.
    change (seqb "property" "property") with true. cbv iota. unfold parse_property.
    rewrite (typed_not_list k t H1), (typed_not_list k' t H2), H1, H2. reflexivity.
  - split; [|reflexivity]. unfold hstep.
    change (seqb "property" "comment") with false. change (seqb "property" "element") with false.
    change (seqb "property" "property") with true. cbv iota. unfold parse_property.
    change (seqb (lower "list") "list") with true. cbv iota. rewrite C1, C2, T1, T2. reflexivity.
Qed.

Lemma hloop_alias ls ls' : Forall2 alias_line ls ls' -> forall st, hloop ls' st = hloop ls st.
Proof.
  induction 1 as [|l l' ls ls' A F IH]; intros st; [reflexivity|]. cbn [hloop].
  destruct (hstep_alias l l' st A) as [E1 E2]. rewrite E1, E2.
  destruct (is_end l); [reflexivity|]. destruct (hstep l st); cbn [rbind]; [apply IH|reflexivity].
Qed.

Lemma parse_header_alias magic fl ls ls' : Forall2 alias_line ls ls' ->
  parse_header (magic :: fl :: ls') = parse_header (magic :: fl :: ls).
Proof.
  intros F. unfold parse_header. destruct magic as [|m [|? ?]]; try reflexivity.
  destruct (negb (seqb m "ply")); [reflexivity|].
  assert (S : forall x, skip_blank (fl :: x) = match fl with [] => skip_blank x | _ => fl :: x end) by (intros; destruct fl; reflexivity).
  rewrite !S. destruct fl as [|f0 fr].
  - (* blank format line: the first non-blank line of the body is taken as format line; not needed, handled generally *)
    clear S. revert ls' F. induction ls as [|l ls IH]; intros ls' F; inversion F as [|? l' ? ls2 A F']; subst; [reflexivity|].
    cbn [skip_blank]. destruct l as [|x xs].
    + inversion A; subst. cbn [skip_blank]. apply IH, F'.
    + assert (l' <> []) by (inversion A; subst; discriminate).
      destruct l' as [|y ys]; [congruence|].
      assert (Pf : parse_format (y :: ys) = parse_format (x :: xs)).
      { inversion A; subst; try reflexivity. }
      rewrite Pf. destruct (parse_format (x :: xs)); cbn [rbind]; [|reflexivity]. rewrite (hloop_alias _ _ F'). reflexivity.
  - destruct (parse_format (f0 :: fr)); cbn [rbind]; [|reflexivity]. rewrite (hloop_alias _ _ F). reflexivity.
Qed.

(* ================= blank lines inside ascii bodies ================= *)
Definition nonblank {A} (l : list A) : bool := match l with [] => false | _ => true end.
Definition drop_blanks {A} (ls : list (list A)) : list (list A) := filter nonblank ls.

Lemma rva_drop bs np : forall lines n,
  match read_vertices_ascii bs np lines n, read_vertices_ascii bs np (drop_blanks lines) n with
  | Ok (rows, r), Ok (rows', r') => rows = rows' /\ drop_blanks r = r'
  | Err e, Err e' => e = e'
  | _, _ => False
  end.
Proof.
  induction lines as [|l ls IH]; intros n.
  - cbn. destruct n; [split; reflexivity|reflexivity].
  - destruct l as [|t ts].
    + (* a blank line *)
      cbn [drop_blanks filter nonblank]. fold (drop_blanks ls).
      destruct n as [|n'].
      * cbn [read_vertices_ascii]. specialize (IH 0%nat).
        destruct ls as [|l2 ls2]; [cbn; split; reflexivity|].
        cbn [read_vertices_ascii] in IH.
        destruct (read_vertices_ascii bs np (drop_blanks (l2 :: ls2)) 0) as [[rows' r']|e'] eqn:E; [|contradiction].
        destruct IH as [<- <-]. split; [reflexivity|]. reflexivity.
      * cbn [read_vertices_ascii]. apply IH.
    + cbn [drop_blanks filter nonblank]. fold (drop_blanks ls).
      destruct n as [|n'].
      * cbn [read_vertices_ascii]. split; reflexivity.
      * cbn [read_vertices_ascii]. destruct (List.length (t :: ts) <? np)%nat; [reflexivity|].
        destruct (mapR (fun b => read_ascii_row b (t :: ts)) bs); cbn [rbind]; [|reflexivity].
        specialize (IH n').
        destruct (read_vertices_ascii bs np ls n') as [[rows r]|e], (read_vertices_ascii bs np (drop_blanks ls) n') as [[rows' r']|e'];
          cbn [rbind]; try contradiction; [|exact IH].
        destruct IH as [<- <-]. split; reflexivity.
Qed.

Lemma faces_drop rs ip tp : forall lines n st,
  faces_ascii rs ip tp (drop_blanks lines) n st = faces_ascii rs ip tp lines n st.
Proof.
  induction lines as [|l ls IH]; intros n st; [reflexivity|].
  destruct l as [|t ts]; cbn [drop_blanks filter nonblank]; fold (drop_blanks ls).
  - destruct n as [|n'].
    + cbn [faces_ascii]. rewrite IH. destruct ls; reflexivity.
    + cbn [faces_ascii]. apply IH.
  - destruct n as [|n']; [reflexivity|]. cbn [faces_ascii].
    destruct (face_ascii rs 0 ip tp (t :: ts) st) as [st'|]; cbn [rbind]; [|reflexivity].
    destruct (face_out _ st') as [[ix uv]|]; cbn [rbind]; [|reflexivity]. rewrite IH. reflexivity.
Qed.

Theorem body_blanks_ignored_proof : forall gs u h lines,
  read_body gs u h (BodyAscii lines) = read_body gs u h (BodyAscii (drop_blanks lines)).
Proof.
  intros gs u h lines. unfold read_body.
  destruct (find_last_elem "vertex" (h_elems h) None) as [ve|]; cbn [of_opt rbind]; [|reflexivity].
  destruct (negb (all_scalar (e_props ve))); [reflexivity|].
  destruct (e_count ve <? 0)%Z; [reflexivity|].
  destruct (h_fmt h); try reflexivity.
  destruct (build_readers false gs u (e_props ve)) as [bs|]; cbn [rbind]; [|reflexivity].
  pose proof (rva_drop bs (List.length (e_props ve)) lines (Z.to_nat (e_count ve))) as R.
  destruct (read_vertices_ascii bs (List.length (e_props ve)) lines (Z.to_nat (e_count ve))) as [[rows r]|e],
           (read_vertices_ascii bs (List.length (e_props ve)) (drop_blanks lines) (Z.to_nat (e_count ve))) as [[rows' r']|e'];
    cbn [rbind]; try contradiction; [|congruence].
  destruct R as [<- <-].
  destruct (find_last_elem "face" (h_elems h) None) as [fe|]; [|reflexivity].
  destruct (face_setup fe) as [[[rs ip] tp]|]; cbn [rbind]; [|reflexivity].
  rewrite faces_drop. reflexivity.
Qed.

(* ================= the whole-file statement, composed ================= *)
(* header text another tool may write for the header h: alias spellings of the type names, then comment / obj_info /
   blank lines anywhere after the format line *)
Definition header_variant (h : header) (hl : list (list string)) : Prop :=
  exists aliased noisy,
    Forall2 alias_line (header_body h) aliased /\ with_noise aliased noisy /\
    hl = ["ply"%string] :: ["format"%string; fmt_name (h_fmt h); "1.0"%string] :: noisy.
(* body another tool may write for the body b: the same, or (ascii) with blank lines anywhere *)
Definition body_variant (b b' : body) : Prop :=
  b' = b \/ exists lines lines', b = BodyAscii lines /\ b' = BodyAscii lines' /\ drop_blanks lines' = lines.

Lemma header_variant_parse h hl : header_variant h hl ->
  strip_comments (parse_header hl) = strip_comments (parse_header (render_header h)).
Proof.
  intros [aliased [noisy [A [W ->]]]]. unfold render_header. fold (header_body h).
  rewrite (header_noise_ignored_proof _ _ aliased noisy); [|discriminate|exact W].
  rewrite (parse_header_alias _ _ _ _ A). reflexivity.
Qed.

Lemma read_mesh_variant l1 l2 b1 b2 :
  strip_comments (parse_header l1) = strip_comments (parse_header l2) ->
  (forall h, read_body default_groups true h b1 = read_body default_groups true h b2) ->
  read_mesh {| pf_header := l1; pf_body := b1 |} = read_mesh {| pf_header := l2; pf_body := b2 |}.
Proof.
  intros H B. unfold read_mesh. cbn [pf_header pf_body].
  destruct (parse_header l1) as [h1|e1], (parse_header l2) as [h2|e2]; cbn [strip_comments rbind] in *; try discriminate H.
  - injection H as Hf He. rewrite (B h1). apply read_body_ext; assumption.
  - congruence.
Qed.

Theorem whole_file_variants_proof : forall a hl b',
  header_variant (header_of a) hl -> body_variant (enc_body a) b' ->
  read_mesh {| pf_header := hl; pf_body := b' |} = read_mesh (encode a).
Proof.
  intros a hl b' Hh Hb. unfold encode. apply read_mesh_variant; [apply header_variant_parse, Hh|].
  intros h. destruct Hb as [->|[lines [lines' [E1 [-> D]]]]]; [reflexivity|].
  rewrite E1, <- D. apply body_blanks_ignored_proof.
Qed.

(* ================= the property, packaged ================= *)
(* the vertex element: at least one property, distinct names, types uchar / int / float / double in any order,
   every record's values fit their declared types *)
Definition vertex_element_ok (a : absfile) : Prop :=
  a_vprops a <> [] /\ NoDup (names (a_vprops a)) /\ supported (a_vprops a) /\
  Forall (record_ok (a_vprops a)) (a_verts a).
(* faces name existing vertices (vertex numbers below 2^31) *)
Definition faces_in_range (a : absfile) (ip : nat) : Prop :=
  Forall (fun f => Forall (fun w => w < N.of_nat (length (a_verts a)) /\ w < 2 ^ 31) (nth ip f [])) (a_faces a).
(* the face element: absent; or list properties (lower-case names, uchar/int/uint counts) with the index list
   (int/uint items) at position ip and faces of 3 or 4 corners; or additionally a float/double texcoord list at
   position tk with two coordinates per corner *)
Definition face_element_ok (a : absfile) : Prop :=
  (a_fprops a = None /\ a_faces a = []) \/
  (exists fps ip ct lt,
     a_fprops a = Some fps /\ Forall (fun p => lower (snd p) = snd p) fps /\
     last_index is_indices (lists_of fps) 0 None = Some ip /\ last_index is_texcoord (lists_of fps) 0 None = None /\
     nth_error (rs_of fps) ip = Some (ct, lt) /\ index_ty_ok lt = true /\
     Forall (face_ok (rs_of fps) ip) (a_faces a) /\ faces_in_range a ip) \/
  (exists fps ip tk ct lt ctt ltt,
     a_fprops a = Some fps /\ Forall (fun p => lower (snd p) = snd p) fps /\
     last_index is_indices (lists_of fps) 0 None = Some ip /\ last_index is_texcoord (lists_of fps) 0 None = Some tk /\
     nth_error (rs_of fps) ip = Some (ct, lt) /\ index_ty_ok lt = true /\
     nth_error (rs_of fps) tk = Some (ctt, ltt) /\ (ltt = Float \/ ltt = Double) /\
     Forall (tex_face_ok (rs_of fps) ip tk) (a_faces a) /\ faces_in_range a ip).
(* THE EXCLUSION (known finding ply:ascii-uchar-scalar-raw): in an ascii file no uchar property is read through a
   Vector1 reader, i.e. every uchar property belongs to an accepted vector group *)
Definition known_finding_excluded (a : absfile) : Prop :=
  Forall (raw_free (a_fmt a)) (spec_entries default_groups (a_vprops a)).

Lemma in_range_small a ip : faces_in_range a ip -> Forall (fun f => Forall (fun w => w < 2 ^ 31) (nth ip f [])) (a_faces a).
Proof.
  unfold faces_in_range. intros H. eapply Forall_impl; [|exact H]. intros f Hf. eapply Forall_impl; [|exact Hf]. intros w [_ Hw]. exact Hw.
Qed.
Lemma in_range_verts a ip : faces_in_range a ip -> Forall (fun f => Forall (fun w => w < N.of_nat (length (a_verts a))) (nth ip f [])) (a_faces a).
Proof.
  unfold faces_in_range. intros H. eapply Forall_impl; [|exact H]. intros f Hf. eapply Forall_impl; [|exact Hf]. intros w [Hw _]. exact Hw.
Qed.

Theorem property_proof : forall a hl b',
  vertex_element_ok a -> face_element_ok a -> known_finding_excluded a ->
  header_variant (header_of a) hl -> body_variant (enc_body a) b' ->
  exists m, describe a = Ok m /\ read_mesh {| pf_header := hl; pf_body := b' |} = Ok m.
Proof.
  intros a hl b' [NE [ND [S R]]] Fe Raw Hh Hb. rewrite (whole_file_variants_proof a hl b' Hh Hb).
  destruct Fe as [[Hn Hf]|[[fps [ip [ct [lt [Hp [Low [Hip [Htp [Nip [Ity [Fok Rg]]]]]]]]]]]|[fps [ip [tk [ct [lt [ctt [ltt [Hp [Low [Hip [Htp [Nip [Ity [Ntk [Flt [Fok Rg]]]]]]]]]]]]]]]]]].
  - destruct (read_mesh_points_proof a) as [E [m Hm]]; [repeat split; assumption|].
    exists m. split; [exact Hm|congruence].
  - destruct (read_mesh_tris_proof a fps ip ct lt) as [E [m Hm]].
    { unfold trimesh_ok. repeat split; try assumption. apply in_range_small, Rg. }
    exists m. split; [exact Hm|congruence].
  - assert (T : texmesh_ok a fps ip tk ct lt ctt ltt).
    { unfold texmesh_ok. repeat split; try assumption. apply in_range_small, Rg. }
    destruct (texmesh_loads_proof a fps ip tk ct lt ctt ltt T (in_range_verts a ip Rg)) as [m Hm].
    exists m. split; [exact Hm|]. rewrite (read_mesh_tex_proof a fps ip tk ct lt ctt ltt T). exact Hm.
Qed.
