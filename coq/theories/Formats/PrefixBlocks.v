(* C14, round 4: readers that work in blocks, reader configurations, header-only readers, and two refuted variants.

   1. ply.MeshReader with ANY caller-made configuration (property groups, LoadUnspecifiedProperties): the threshold
      theorems of PrefixProofs.v hold for [read_body gs u] with every [gs], [u] -- not only for ply.ReadMesh's
      default configuration.
   2. Block-wise decoding of the binary vertex element: a reader that takes the records in blocks of ANY sizes
      (one ReadFull per block, then decodes the records of the block -- what a chunked or a worker-pool reader
      does) accepts exactly the inputs the record-by-record loop accepts, with the same rows and the same rest;
      hence every cut inside the vertex data is rejected whatever the block sizes.  The variant that skips a short
      block ("the section readers report it") is refuted: it accepts a strict prefix and returns rows that are not
      in the file.
   3. spz.ReadHeader (header-only reader): a cut below the 16 header bytes is rejected, every other prefix returns
      the header of the complete file.
   4. PTS: the reader variant that takes a line holding a single number for the point count of a further block is
      refuted -- a file cut right after the first field of a line whose first field reads as a count is accepted
      with fewer points than announced. *)
From Coq Require Import String.
From PF Require Import Base.Bytes Base.BytesProofs.
From PF Require Import Formats.PlyRead Formats.PrefixProofs.
From PF Require Formats.Spz Formats.Pts Formats.PtsProofs.
Open Scope list_scope.

(* ================================================================== 1. every reader configuration *)
Theorem ply_bin_prefix_any_config gs u h bytes m :
  read_body gs u h (BodyBin bytes) = Ok m ->
  exists c, (c <= length bytes)%nat /\
    (forall k, (k < c)%nat -> read_body gs u h (BodyBin (firstn k bytes)) = Err EEof) /\
    (forall k, (c <= k)%nat -> read_body gs u h (BodyBin (firstn k bytes)) = Ok m).
Proof. apply (fp_read_body_bin gs u h). Qed.

Theorem ply_ascii_lines_prefix_any_config gs u h lines m :
  read_body gs u h (BodyAscii lines) = Ok m ->
  exists c, (c <= length lines)%nat /\
    (forall k, (k < c)%nat -> read_body gs u h (BodyAscii (firstn k lines)) = Err EEof) /\
    (forall k, (c <= k)%nat -> read_body gs u h (BodyAscii (firstn k lines)) = Ok m).
Proof. apply (fp_read_body_ascii gs u h). Qed.

(* ================================================================== 2. block-wise vertex decoding *)
Section Blocks.
Variable e : endian.
Variable bs : list built.
Variable size : nat.

Notation rvb := (read_vertices_bin e bs size).

(* one ReadFull of b * size bytes per block; the records of the block are decoded from that buffer *)
Fixpoint read_vertices_blocked (blocks : list nat) (bytes : list N) : result (list (list (list N)) * list N) :=
  match blocks with
  | [] => Ok ([], bytes)
  | b :: bl =>
      dor '(buf, rest) <- of_opt EEof (take (b * size) bytes);
      dor '(rows, _) <- rvb b buf;
      dor '(rows', rest') <- read_vertices_blocked bl rest;
      Ok (rows ++ rows', rest')
  end.

Lemma rvb_inv n bytes rows rest :
  rvb (S n) bytes = Ok (rows, rest) ->
  exists buf r1 row rows', take size bytes = Some (buf, r1) /\ mapR (fun b => read_bin_row e b buf) bs = Ok row /\
    rvb n r1 = Ok (rows', rest) /\ rows = row :: rows'.
Proof.
  intros H. cbn [read_vertices_bin] in H.
  destruct (take size bytes) as [[buf r1]|] eqn:E; cbn [of_opt rbind] in H; [|discriminate].
  destruct (mapR (fun b => read_bin_row e b buf) bs) as [row|] eqn:Er; cbn [rbind] in H; [|discriminate].
  destruct (rvb n r1) as [[rows' r2]|] eqn:E2; cbn [rbind] in H; [|discriminate].
  exists buf, r1, row, rows'. repeat split; congruence.
Qed.

Lemma rvb_intro n bytes buf r1 row rows' rest :
  take size bytes = Some (buf, r1) -> mapR (fun b => read_bin_row e b buf) bs = Ok row ->
  rvb n r1 = Ok (rows', rest) -> rvb (S n) bytes = Ok (row :: rows', rest).
Proof.
  intros E Er E2. cbn [read_vertices_bin]. rewrite E. cbn [of_opt rbind]. rewrite Er. cbn [rbind]. rewrite E2. reflexivity.
Qed.

(* the rest handed back is what follows the n records *)
Lemma rvb_rest n : forall bytes rows rest,
  rvb n bytes = Ok (rows, rest) -> bytes = firstn (n * size) bytes ++ rest /\ length (firstn (n * size) bytes) = (n * size)%nat.
Proof.
  induction n as [|n IH]; intros bytes rows rest H.
  - cbn [read_vertices_bin] in H. assert (rest = bytes) as -> by congruence. split; reflexivity.
  - apply rvb_inv in H. destruct H as (buf & r1 & row & rows' & E & _ & E2 & _).
    apply take_spec in E. destruct E as [-> Hl]. apply IH in E2. destruct E2 as [E2 L2].
    replace (S n * size)%nat with (length buf + n * size)%nat by (cbn; lia).
    rewrite firstn_app_2. rewrite <- app_assoc. rewrite <- E2. split; [reflexivity|].
    rewrite app_length, L2. reflexivity.
Qed.

(* more input after the records does not change what is read *)
Lemma rvb_ext n : forall bytes rows rest x,
  rvb n bytes = Ok (rows, rest) -> rvb n (bytes ++ x) = Ok (rows, rest ++ x).
Proof.
  induction n as [|n IH]; intros bytes rows rest x H.
  - cbn [read_vertices_bin] in *. congruence.
  - apply rvb_inv in H. destruct H as (buf & r1 & row & rows' & E & Er & E2 & ->).
    apply take_spec in E. destruct E as [-> Hl].
    apply rvb_intro with (buf := buf) (r1 := r1 ++ x); [|assumption|apply IH; assumption].
    rewrite <- app_assoc. rewrite <- Hl. apply take_app.
Qed.

(* ... and the records alone are enough *)
Lemma rvb_firstn n : forall bytes rows rest,
  rvb n bytes = Ok (rows, rest) -> rvb n (firstn (n * size) bytes) = Ok (rows, []).
Proof.
  induction n as [|n IH]; intros bytes rows rest H.
  - cbn [read_vertices_bin] in *. cbn. congruence.
  - apply rvb_inv in H. destruct H as (buf & r1 & row & rows' & E & Er & E2 & ->).
    apply take_spec in E. destruct E as [-> Hl].
    replace (S n * size)%nat with (length buf + n * size)%nat by (cbn; lia).
    rewrite firstn_app_2.
    apply rvb_intro with (buf := buf) (r1 := firstn (n * size) r1); [rewrite <- Hl at 1; apply take_app|assumption|].
    apply IH with (rest := rest). assumption.
Qed.

(* a + b records = a records, then b records *)
Lemma rvb_add a : forall b bytes r1 mid r2 rest,
  rvb a bytes = Ok (r1, mid) -> rvb b mid = Ok (r2, rest) -> rvb (a + b) bytes = Ok (r1 ++ r2, rest).
Proof.
  induction a as [|a IH]; intros b bytes r1 mid r2 rest H1 H2.
  - cbn [read_vertices_bin] in H1. assert (r1 = [] /\ mid = bytes) as [-> ->] by (split; congruence). exact H2.
  - apply rvb_inv in H1. destruct H1 as (buf & q & row & rows' & E & Er & E2 & ->).
    cbn [Nat.add app]. apply rvb_intro with (buf := buf) (r1 := q); [assumption|assumption|].
    apply IH with (mid := mid); assumption.
Qed.

Lemma rvb_split a : forall b bytes rows rest,
  rvb (a + b) bytes = Ok (rows, rest) ->
  exists r1 mid r2, rvb a bytes = Ok (r1, mid) /\ rvb b mid = Ok (r2, rest) /\ rows = r1 ++ r2.
Proof.
  induction a as [|a IH]; intros b bytes rows rest H.
  - exists [], bytes, rows. repeat split. exact H.
  - cbn [Nat.add] in H. apply rvb_inv in H. destruct H as (buf & q & row & rows' & E & Er & E2 & ->).
    apply IH in E2. destruct E2 as (r1 & mid & r2 & A & B & ->).
    exists (row :: r1), mid, r2. repeat split; [|assumption].
    apply rvb_intro with (buf := buf) (r1 := q); assumption.
Qed.

(* the block reader accepts exactly what the record loop accepts, with the same rows and the same rest *)
Theorem read_vertices_blocked_iff : forall blocks bytes r,
  read_vertices_blocked blocks bytes = Ok r <-> rvb (list_sum blocks) bytes = Ok r.
Proof.
  induction blocks as [|b bl IH]; intros bytes r.
  - cbn [read_vertices_blocked list_sum read_vertices_bin]. tauto.
  - cbn [read_vertices_blocked list_sum]. split.
    + intros H. destruct (take (b * size) bytes) as [[buf rest]|] eqn:E; cbn [of_opt rbind] in H; [|discriminate].
      destruct (rvb b buf) as [[rows junk]|] eqn:Eb; cbn [rbind] in H; [|discriminate].
      destruct (read_vertices_blocked bl rest) as [[rows' rest']|] eqn:El; cbn [rbind] in H; [|discriminate].
      assert (r = (rows ++ rows', rest')) as -> by congruence.
      apply take_spec in E. destruct E as [-> Hl].
      assert (junk = []) as ->.
      { apply read_vertices_bin_consumes in Eb. destruct Eb as [Eb _]. destruct junk; [reflexivity|]. cbn [length] in Eb. lia. }
      apply rvb_add with (mid := rest).
      * apply (rvb_ext b buf rows [] rest Eb).
      * apply IH. exact El.
    + intros H. destruct r as [rows rest']. apply rvb_split in H. destruct H as (r1 & mid & r2 & A & B & ->).
      pose proof (rvb_rest b bytes r1 mid A) as [Hb Lb].
      assert (take (b * size) bytes = Some (firstn (b * size) bytes, mid)) as ->.
      { rewrite Hb at 1. rewrite <- Lb at 1. apply take_app. }
      cbn [of_opt rbind]. rewrite (rvb_firstn b bytes r1 mid A). cbn [rbind].
      apply IH in B. rewrite B. reflexivity.
Qed.

(* hence: whatever the block sizes, a cut inside the vertex data of an accepted file is rejected *)
Theorem read_vertices_blocked_prefix_rejected blocks bytes rows rest k :
  read_vertices_blocked blocks bytes = Ok (rows, rest) -> (k < list_sum blocks * size)%nat ->
  exists err, read_vertices_blocked blocks (firstn k bytes) = Err err.
Proof.
  intros H Hk. apply read_vertices_blocked_iff in H.
  pose proof (ply_bin_vertices_prefix e bs size (list_sum blocks) bytes rows rest k H Hk) as Hc.
  destruct (read_vertices_blocked blocks (firstn k bytes)) as [r|err] eqn:E; [|eauto].
  apply read_vertices_blocked_iff in E. congruence.
Qed.

(* the variant that tolerates a short block: the block's records are decoded from what was delivered, padded with
   zero bytes (a zeroed buffer the short read did not fill) *)
Fixpoint read_vertices_blocked_lenient (blocks : list nat) (bytes : list N) : result (list (list (list N)) * list N) :=
  match blocks with
  | [] => Ok ([], bytes)
  | b :: bl =>
      let buf := firstn (b * size) bytes ++ repeat 0%N (b * size - length bytes) in
      dor '(rows, _) <- rvb b buf;
      dor '(rows', rest') <- read_vertices_blocked_lenient bl (skipn (b * size) bytes);
      Ok (rows ++ rows', rest')
  end.
End Blocks.

(* a concrete witness: three float32 properties x y z, little endian, two records in one block; the file cut after
   the first record is accepted by the lenient variant and yields a second vertex (0,0,0) that is not in the file *)
Definition xyz_props : list prop := [PScalar Float "x"; PScalar Float "y"; PScalar Float "z"].
Definition xyz_readers : list built :=
  match build_readers true default_groups true xyz_props with Ok l => l | Err _ => [] end.
Definition two_records : list N :=
  [0;0;128;63; 0;0;0;64; 0;0;64;64;  0;0;128;64; 0;0;160;64; 0;0;192;64]%N.   (* (1,2,3) (4,5,6) *)

Theorem lenient_block_reader_refuted :
  exists bytes k rows rows', (k < length bytes)%nat /\
    read_vertices_bin LEnd xyz_readers 12 2 bytes = Ok (rows, []) /\
    read_vertices_bin LEnd xyz_readers 12 2 (firstn k bytes) = Err EEof /\
    read_vertices_blocked_lenient LEnd xyz_readers 12 [2%nat] (firstn k bytes) = Ok (rows', []) /\
    rows' <> rows /\ length rows' = 2%nat.
Proof.
  exists two_records, 12%nat.
  eexists. eexists. split; [cbn; lia|].
  split; [vm_compute; reflexivity|]. split; [vm_compute; reflexivity|]. split; [vm_compute; reflexivity|].
  split; [discriminate|reflexivity].
Qed.

(* non-vacuity of the positive theorem on the same file: blocks [1;1] and [2] both decode it, as the loop does *)
Example blocked_example :
  read_vertices_blocked LEnd xyz_readers 12 [1;1]%nat two_records = read_vertices_bin LEnd xyz_readers 12 2 two_records /\
  read_vertices_blocked LEnd xyz_readers 12 [2]%nat two_records = read_vertices_bin LEnd xyz_readers 12 2 two_records /\
  exists rows, read_vertices_bin LEnd xyz_readers 12 2 two_records = Ok (rows, []) /\ length rows = 2%nat.
Proof. split; [vm_compute; reflexivity|]. split; [vm_compute; reflexivity|]. eexists. split; [vm_compute; reflexivity|reflexivity]. Qed.

(* ================================================================== 3. spz.ReadHeader *)
Module SpzHeader.
Import Formats.Spz.
(* binary.Read of the 16 header bytes, then Header.Validate; nothing after the header is looked at *)
Definition read_header (l : list N) : option header :=
  do '(h, _) <- get_header l; if validate h then Some h else None.

Theorem read_header_prefix h ps k :
  header_ok h -> validate h = true ->
  read_header (firstn k (encode_ref h ps)) = if (k <? 16)%nat then None else Some h.
Proof.
  intros Hok Hv. rewrite encode_ref_split.
  destruct (k <? 16)%nat eqn:Ek.
  - apply Nat.ltb_lt in Ek. unfold read_header.
    destruct (get_header (firstn k (enc_header h ++ arrays ps))) as [[h' r]|] eqn:E; [|reflexivity].
    apply get_header_length in E. rewrite firstn_length in E. lia.
  - apply Nat.ltb_ge in Ek. unfold read_header.
    rewrite firstn_app_ge by (rewrite enc_header_length; lia).
    rewrite get_header_enc by assumption. cbn [bind]. rewrite Hv. reflexivity.
Qed.
End SpzHeader.

(* ================================================================== 4. PTS: "a single number starts a new block" *)
Module PtsBlocks.
Import Formats.Pts.
(* the variant: while points are owed, a line holding exactly one token is taken for the count of a further block
   and replaces the number of points still expected (multi-scan PTS exports are laid out like that) *)
Fixpoint read_blocks (owed : nat) (ls : list line) (acc : list line) : option (list line) :=
  match ls with
  | [] => if (owed =? 0)%nat then Some (rev acc) else None
  | l :: ls' =>
      match owed with
      | O => Some (rev acc)
      | S owed' =>
          match l with
          | [c] => if (c <? 0)%Z then None else read_blocks (Z.to_nat c) ls' acc
          | _ => if (3 <=? length l)%nat then read_blocks owed' ls' (l :: acc) else None
          end
      end
  end.
Definition pts_read_blocks (count : option Z) (ls : list line) : option pts_result :=
  match count with
  | None => None
  | Some c => if (c <? 0)%Z then None else
      match read_blocks (Z.to_nat c) ls [] with
      | None => None
      | Some used => Some {| p_n := length used; p_pos := map pos_of used; p_int := None; p_col := None |}
      end
  end.

(* a valid two-point file; cut right after the first field "0" of its second line.  The reader of /repo rejects the
   prefix; the variant accepts it with one point although two were announced: the direct oracle says no. *)
Theorem block_count_variant_refuted :
  exists count lines j m r,
    pts_read (Some count) lines <> None /\
    pts_read (Some count) (pts_prefix lines j m) = None /\
    pts_read_blocks (Some count) (pts_prefix lines j m) = Some r /\
    no_placeholderb (Some count) (pts_prefix lines j m) r = false /\ (p_n r < Z.to_nat count)%nat.
Proof.
  exists 2%Z, [[5; 6; 7]; [0; 8; 9]]%Z, 1%nat, 1%nat. eexists.
  split; [vm_compute; discriminate|]. split; [vm_compute; reflexivity|]. split; [vm_compute; reflexivity|].
  split; [vm_compute; reflexivity|]. vm_compute. lia.
Qed.
End PtsBlocks.
