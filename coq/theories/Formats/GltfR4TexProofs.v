(* C06 proofs, round 4: the checker clauses "material-content" ([node_mat_check]) and
   "texture-pointer-stored-twice" ([functional (all_tex_refs ...)]) in the checker's own boolean form, for
   the model's document [to_summary (run sc)].  Hypotheses about the scene express what Go pointer identity
   and Go's == on interface values guarantee (see the definitions [scene_*_ok] below). *)
From PF Require Import Base.Bytes Base.BytesProofs Formats.Gltf Formats.GltfProofs Formats.GltfDedupProofs
  Formats.GltfTexProofs Formats.GltfExtProofs Formats.GltfNodeProofs Formats.GltfFinalProofs.
From Coq Require Import ZifyN ZifyNat ZifyBool Lia.
From Coq Require String.
Import String.StringSyntax.
Delimit Scope string_scope with string.
Open Scope list_scope.
Open Scope N_scope.

(* ------------------------------------------------------------------ small list facts *)
Lemma index_of_some {A} (p : A -> bool) l j : index_of p l = Some j -> exists y, nth_error l j = Some y /\ p y = true.
Proof.
  revert j. induction l as [|x l IH]; cbn [index_of]; [discriminate|]. destruct (p x) eqn:E; intros j H.
  - apply some_inj in H. subst j. exists x. split; [reflexivity|exact E].
  - destruct (index_of p l) as [k|]; [|discriminate]. cbn [option_map] in H. apply some_inj in H. subst j.
    cbn [nth_error]. apply IH. reflexivity.
Qed.
Lemma index_ofN_some {A} (p : A -> bool) l i : index_ofN p l = Some i ->
  exists y, nth_error l (N.to_nat i) = Some y /\ p y = true.
Proof.
  unfold index_ofN. destruct (index_of p l) as [j|] eqn:E; [|discriminate]. cbn [option_map]. intros H.
  apply some_inj in H. subst i. rewrite Nat2N.id. apply index_of_some, E.
Qed.
Lemma nth_app_some {A} (l l' : list A) n a : nth_error l n = Some a -> nth_error (l ++ l') n = Some a.
Proof. intros H. rewrite nth_error_app1; [exact H|]. apply nth_error_Some. congruence. Qed.
Lemma nth_new {A} (l : list A) a : nth_error (l ++ [a]) (N.to_nat (len l)) = Some a.
Proof. unfold len. rewrite Nat2N.id, nth_error_app2, Nat.sub_diag by lia. reflexivity. Qed.
Lemma samp_eqb_refl s : samp_eqb s s = true.
Proof. apply (keyed_refl _ _ keyed_samp). Qed.

(* ------------------------------------------------------------------ content of a texture entry *)
(* texture [i] of the tables has the image [tx_uri t] and a sampler equal to the one of [t] *)
Definition tcoreL (texs : list gtex) (images : list string) (samplers : list gsamp) (t : ptexture) (i : N) : Prop :=
  exists g im, nth_error texs (N.to_nat i) = Some g /\ gt_source g = Some im /\
    nth_error images (N.to_nat im) = Some (tx_uri t) /\
    match tx_samp t with
    | None => gt_sampler g = None
    | Some ps => exists si gs, gt_sampler g = Some si /\ nth_error samplers (N.to_nat si) = Some gs /\ samp_eqb ps gs = true
    end.
Definition tcore (x : texst) (t : ptexture) (i : N) : Prop := tcoreL (x_texs x) (x_images x) (x_samplers x) t i.

Lemma tcoreL_mono a b c a' b' c' t i : (exists l, a' = a ++ l) -> (exists l, b' = b ++ l) -> (exists l, c' = c ++ l) ->
  tcoreL a b c t i -> tcoreL a' b' c' t i.
Proof.
  intros (la & ->) (lb & ->) (lc & ->) (g & im & H1 & H2 & H3 & H4). exists g, im.
  split; [apply nth_app_some, H1|]. split; [exact H2|]. split; [apply nth_app_some, H3|].
  destruct (tx_samp t) as [ps|]; [|exact H4]. destruct H4 as (si & gs & E1 & E2 & E3). exists si, gs.
  split; [exact E1|]. split; [apply nth_app_some, E2|exact E3].
Qed.

(* the tables only grow *)
Definition xext (x x' : texst) : Prop :=
  (exists l, x_texs x' = x_texs x ++ l) /\ (exists l, x_images x' = x_images x ++ l) /\ (exists l, x_samplers x' = x_samplers x ++ l).
Lemma app_nil_ex {A} (l : list A) : exists l', l = l ++ l'.
Proof. exists []. rewrite app_nil_r. reflexivity. Qed.
Lemma xext_refl x : xext x x.
Proof. repeat split; apply app_nil_ex. Qed.
Lemma xext_trans a b c : xext a b -> xext b c -> xext a c.
Proof.
  intros ((l1 & E1) & (l2 & E2) & (l3 & E3)) ((k1 & F1) & (k2 & F2) & (k3 & F3)).
  repeat split; [exists (l1 ++ k1)|exists (l2 ++ k2)|exists (l3 ++ k3)]; rewrite app_assoc; congruence.
Qed.
Lemma tcore_mono x x' t i : xext x x' -> tcore x t i -> tcore x' t i.
Proof. intros (H1 & H2 & H3). apply tcoreL_mono; assumption. Qed.
Lemma xext_use es x : xext x (use_exts es x).
Proof. repeat split; apply app_nil_ex. Qed.

Definition keys_of (t : ptexture) : list string := fold_left (fun u (e : string * bool) => add_str (fst e) u) (tx_exts t) [].

(* a wanted slot and the slot the writer built for it *)
Definition wslot := (string * (ptexture * option N))%type.
Definition slot_ok (x : texst) (w : wslot) (sl : gslot) : Prop :=
  fst sl = fst w /\ snd (snd sl) = snd (snd w) /\ tcore x (fst (snd w)) (ti_index (fst (snd sl))) /\
  ti_exts (fst (snd sl)) = keys_of (fst (snd w)).
Lemma slots_mono x x' ws sls : xext x x' -> Forall2 (slot_ok x) ws sls -> Forall2 (slot_ok x') ws sls.
Proof.
  intros Hx H. induction H as [|w sl ws sls (H1 & H2 & H3 & H4) _ IH]; constructor; [|exact IH].
  repeat split; try assumption. eapply tcore_mono; eauto.
Qed.

Definition w_opt (name : string) (t : option ptexture) (extra : option N) : list wslot :=
  match t with Some tx => [(name, (tx, extra))] | None => [] end.
Definition w_pbr (m : pmaterial) : list wslot :=
  match pm_pbr m with
  | Some p => w_opt "baseColorTexture" (pb_tex p) None ++ w_opt "metallicRoughnessTexture" (pb_mrtex p) None
  | None => [] end.
Definition w_ext (e : matext) : list wslot :=
  map (fun st => (String.append (mx_id e) (String.append "/" (fst st)), (snd st, @None N))) (mx_texs e).
Definition w_norm (m : pmaterial) : list wslot :=
  match pm_normal m with Some (t, sc) => [("normalTexture"%string, (t, sc))] | None => [] end.
Definition w_occ (m : pmaterial) : list wslot :=
  match pm_occ m with Some (t, sc) => [("occlusionTexture"%string, (t, sc))] | None => [] end.
Lemma want_slots_eq m : want_slots m = w_pbr m ++ flat_map w_ext (pm_exts m) ++ w_norm m ++ w_occ m.
Proof. reflexivity. Qed.

Section Tex.
Variable T : ptexture -> Prop.
Hypothesis T_ptr : forall t1 t2, T t1 -> T t2 -> tx_ptr t1 = tx_ptr t2 -> t1 = t2.

(* every recorded pointer was entered for a texture of [T] whose content is the entry's *)
Definition good (x : texst) : Prop :=
  forall ptr i, In (ptr, i) (x_tab x) -> exists t, T t /\ tx_ptr t = ptr /\ tcore x t i.

Lemma good_use es x : good x -> good (use_exts es x).
Proof. intros H ptr i Hin. exact (H ptr i Hin). Qed.

Lemma add_texture_T t x : T t -> good x ->
  good (snd (add_texture t x)) /\ xext x (snd (add_texture t x)) /\
  tcore (snd (add_texture t x)) t (ti_index (fst (add_texture t x))) /\ ti_exts (fst (add_texture t x)) = keys_of t.
Proof.
  intros HT Hg. unfold add_texture.
  change (x_tab (use_exts (tx_exts t) x)) with (x_tab x). change (x_images (use_exts (tx_exts t) x)) with (x_images x).
  change (x_samplers (use_exts (tx_exts t) x)) with (x_samplers x). change (x_texs (use_exts (tx_exts t) x)) with (x_texs x).
  destruct (lookupN (tx_ptr t) (x_tab x)) as [i|] eqn:El.
  - cbn [fst snd ti_index ti_exts]. split; [apply good_use, Hg|]. split; [apply xext_use|]. split; [|reflexivity].
    apply lookupN_In in El. destruct (Hg _ _ El) as (t' & HT' & Ep & Hc).
    assert (t' = t) by (apply T_ptr; assumption). subst t'. exact Hc.
  - set (ir := match index_ofN (String.eqb (tx_uri t)) (x_images x) with
               | Some i => (i, x_images x) | None => (len (x_images x), x_images x ++ [tx_uri t]) end).
    assert (HI : nth_error (snd ir) (N.to_nat (fst ir)) = Some (tx_uri t) /\ exists l, snd ir = x_images x ++ l).
    { unfold ir. destruct (index_ofN _ (x_images x)) as [i|] eqn:E; cbn [fst snd].
      - split; [|apply app_nil_ex]. apply index_ofN_some in E. destruct E as (y & E1 & E2).
        apply String.eqb_eq in E2. subst y. exact E1.
      - split; [apply nth_new|eexists; reflexivity]. }
    destruct ir as [img images]. cbn [fst snd] in HI. destruct HI as (Hi & Eli).
    set (sr := match tx_samp t with
               | None => (None, x_samplers x)
               | Some s => match index_ofN (samp_eqb s) (x_samplers x) with
                           | Some i => (Some i, x_samplers x)
                           | None => (Some (len (x_samplers x)), x_samplers x ++ [s]) end end).
    assert (HS : match tx_samp t with
                 | None => fst sr = None
                 | Some ps => exists si gs, fst sr = Some si /\ nth_error (snd sr) (N.to_nat si) = Some gs /\ samp_eqb ps gs = true
                 end /\ exists l, snd sr = x_samplers x ++ l).
    { unfold sr. destruct (tx_samp t) as [s|]; [|cbn [fst snd]; split; [reflexivity|apply app_nil_ex]].
      destruct (index_ofN _ (x_samplers x)) as [i|] eqn:E; cbn [fst snd].
      - split; [|apply app_nil_ex]. apply index_ofN_some in E. destruct E as (y & E1 & E2). exists i, y. auto.
      - split; [|eexists; reflexivity]. exists (len (x_samplers x)), s.
        split; [reflexivity|]. split; [apply nth_new|apply samp_eqb_refl]. }
    destruct sr as [smp samplers]. cbn [fst snd] in HS. destruct HS as (Hs & Els).
    assert (Hold : forall texs', (exists l, texs' = x_texs x ++ l) ->
              forall ptr i, In (ptr, i) (x_tab x) -> exists t0, T t0 /\ tx_ptr t0 = ptr /\ tcoreL texs' images samplers t0 i).
    { intros texs' Et ptr i Hin. destruct (Hg _ _ Hin) as (t0 & H1 & H2 & H3). exists t0. split; [exact H1|]. split; [exact H2|].
      eapply tcoreL_mono; [exact Et|exact Eli|exact Els|exact H3]. }
    destruct (index_ofN (gtex_eqb _) (x_texs x)) as [i|] eqn:E; cbn [fst snd ti_index ti_exts].
    + split; [|split; [|split; [|reflexivity]]].
      * intros ptr j Hin. apply (Hold (x_texs x) (app_nil_ex _) ptr j Hin).
      * split; [apply app_nil_ex|]. split; assumption.
      * apply index_ofN_some in E. destruct E as (g & E1 & E2). apply keyed_gtex in E2.
        cbn [gt_source gt_sampler gt_exts] in E2. exists g, img. split; [exact E1|].
        split; [congruence|]. split; [exact Hi|].
        assert (Es : gt_sampler g = smp) by congruence. rewrite Es. exact Hs.
    + assert (Hnew : tcoreL (x_texs x ++ [{| gt_source := Some img; gt_sampler := smp; gt_exts := [] |}]) images samplers t (len (x_texs x))).
      { eexists _, img. split; [apply nth_new|]. cbn [gt_source gt_sampler]. split; [reflexivity|]. split; [exact Hi|exact Hs]. }
      split; [|split; [|split; [exact Hnew|reflexivity]]].
      * intros ptr j [Hin|Hin].
        -- inversion Hin; subst. exists t. auto.
        -- apply (Hold _ (ex_intro _ _ eq_refl) ptr j Hin).
      * split; [eexists; reflexivity|]. split; assumption.
Qed.

(* ------------------------------------------------------------------ slots of a material *)
Definition wT (w : wslot) : Prop := T (fst (snd w)).
Definition ainv (ws : list wslot) (acc : list gslot * texst) : Prop :=
  good (snd acc) /\ Forall2 (slot_ok (snd acc)) ws (fst acc).

Lemma add_slot_T ws name t extra acc : T t -> ainv ws acc ->
  ainv (ws ++ [(name, (t, extra))]) (add_slot name (Some t) extra acc) /\
  xext (snd acc) (snd (add_slot name (Some t) extra acc)).
Proof.
  intros HT (Hg & Hs). unfold add_slot. pose proof (add_texture_T t (snd acc) HT Hg) as H.
  destruct (add_texture t (snd acc)) as [ti x']. cbn [fst snd] in H. destruct H as (H1 & H2 & H3 & H4).
  unfold ainv. cbn [fst snd]. split; [split; [exact H1|]|exact H2].
  apply Forall2_app; [eapply slots_mono; eauto|]. constructor; [|constructor]. unfold slot_ok. cbn [fst snd]. auto.
Qed.

Lemma add_slot_opt ws name t extra acc : Forall wT (w_opt name t extra) -> ainv ws acc ->
  ainv (ws ++ w_opt name t extra) (add_slot name t extra acc) /\ xext (snd acc) (snd (add_slot name t extra acc)).
Proof.
  intros HT Ha. destruct t as [tx|]; cbn [w_opt] in *.
  - inversion HT as [|? ? Ht _]; subst. apply add_slot_T; [exact Ht|exact Ha].
  - rewrite app_nil_r. unfold add_slot. split; [exact Ha|apply xext_refl].
Qed.

Lemma ext_slots_T ws e acc : Forall wT (w_ext e) -> ainv ws acc ->
  ainv (ws ++ w_ext e) (ext_slots e acc) /\ xext (snd acc) (snd (ext_slots e acc)).
Proof.
  intros HT Ha. unfold ext_slots, w_ext in *.
  assert (H : forall l ws0 acc0,
    Forall wT (map (fun st => (String.append (mx_id e) (String.append "/" (fst st)), (snd st, @None N))) l) -> ainv ws0 acc0 ->
    let r := fold_left (fun a st => add_slot (String.append (mx_id e) (String.append "/" (fst st))) (Some (snd st)) None a) l acc0 in
    ainv (ws0 ++ map (fun st => (String.append (mx_id e) (String.append "/" (fst st)), (snd st, @None N))) l) r /\ xext (snd acc0) (snd r)).
  { induction l as [|st l IH]; intros ws0 acc0 HT0 H0; cbn [fold_left map].
    - rewrite app_nil_r. split; [exact H0|apply xext_refl].
    - cbn [map] in HT0. inversion HT0 as [|? ? Hst Hl]; subst.
      destruct (add_slot_T ws0 (String.append (mx_id e) (String.append "/" (fst st))) (snd st) None acc0 Hst H0) as (H1 & H2).
      destruct (IH _ _ Hl H1) as (H3 & H4). split; [|eapply xext_trans; eauto].
      rewrite <- app_assoc in H3. exact H3. }
  destruct (H (mx_texs e) ws acc HT Ha) as ((Hg & Hs) & Hx). cbv zeta.
  set (r := fold_left _ (mx_texs e) acc) in *. unfold ainv, use_ext. cbn [fst snd].
  split; [split|].
  - apply good_use, Hg.
  - eapply slots_mono; [apply xext_use|exact Hs].
  - eapply xext_trans; [exact Hx|apply xext_use].
Qed.

Lemma fold_exts_T l : forall ws acc, Forall wT (flat_map w_ext l) -> ainv ws acc ->
  ainv (ws ++ flat_map w_ext l) (fold_left (fun a e => ext_slots e a) l acc) /\
  xext (snd acc) (snd (fold_left (fun a e => ext_slots e a) l acc)).
Proof.
  induction l as [|e l IH]; intros ws acc HT Ha; cbn [fold_left flat_map] in *.
  - rewrite app_nil_r. split; [exact Ha|apply xext_refl].
  - apply Forall_app in HT. destruct HT as (He & Hl).
    destruct (ext_slots_T ws e acc He Ha) as (H1 & H2). destruct (IH _ _ Hl H1) as (H3 & H4).
    split; [|eapply xext_trans; eauto]. rewrite <- app_assoc in H3. exact H3.
Qed.

Lemma build_material_T m x : Forall wT (want_slots m) -> good x ->
  good (snd (build_material m x)) /\ xext x (snd (build_material m x)) /\
  Forall2 (slot_ok (snd (build_material m x))) (want_slots m) (gmt_texs (fst (build_material m x))).
Proof.
  intros HT Hg. rewrite want_slots_eq in *.
  apply Forall_app in HT. destruct HT as (HA & HT). apply Forall_app in HT. destruct HT as (HB & HT).
  apply Forall_app in HT. destruct HT as (HC & HD).
  unfold build_material. cbn [fst snd gmt_texs].
  set (a0 := (@nil gslot, x)).
  assert (H0 : ainv [] a0) by (split; [exact Hg|constructor]).
  set (a1 := match pm_pbr m with
             | None => a0
             | Some p => add_slot "metallicRoughnessTexture" (pb_mrtex p) None (add_slot "baseColorTexture" (pb_tex p) None a0)
             end).
  assert (H1 : ainv (w_pbr m) a1 /\ xext x (snd a1)).
  { unfold a1, w_pbr in *. destruct (pm_pbr m) as [p|]; [|split; [exact H0|apply xext_refl]].
    apply Forall_app in HA. destruct HA as (HA1 & HA2).
    destruct (add_slot_opt [] "baseColorTexture" (pb_tex p) None a0 HA1 H0) as (Hb & Hl1).
    destruct (add_slot_opt _ "metallicRoughnessTexture" (pb_mrtex p) None _ HA2 Hb) as (Hc & Hl2).
    cbn [app] in Hc. split; [exact Hc|]. eapply xext_trans; [exact Hl1|exact Hl2]. }
  destruct H1 as (Ha1 & Hl1).
  destruct (fold_exts_T (pm_exts m) _ a1 HB Ha1) as (Ha2 & Hl2).
  set (a2 := fold_left (fun a e => ext_slots e a) (pm_exts m) a1) in *.
  set (a3 := match pm_normal m with Some (t, s) => add_slot "normalTexture" (Some t) s a2 | None => a2 end).
  assert (H3 : ainv ((w_pbr m ++ flat_map w_ext (pm_exts m)) ++ w_norm m) a3 /\ xext (snd a2) (snd a3)).
  { unfold a3, w_norm in *. destruct (pm_normal m) as [[t s]|].
    - inversion HC as [|? ? Ht _]; subst. apply add_slot_T; [exact Ht|exact Ha2].
    - rewrite app_nil_r. split; [exact Ha2|apply xext_refl]. }
  destruct H3 as (Ha3 & Hl3).
  set (a4 := match pm_occ m with Some (t, s) => add_slot "occlusionTexture" (Some t) s a3 | None => a3 end).
  assert (H4 : ainv (((w_pbr m ++ flat_map w_ext (pm_exts m)) ++ w_norm m) ++ w_occ m) a4 /\ xext (snd a3) (snd a4)).
  { unfold a4, w_occ in *. destruct (pm_occ m) as [[t s]|].
    - inversion HD as [|? ? Ht _]; subst. apply add_slot_T; [exact Ht|exact Ha3].
    - rewrite app_nil_r. split; [exact Ha3|apply xext_refl]. }
  destruct H4 as ((Hg4 & Hs4) & Hl4).
  split; [exact Hg4|]. split; [eapply xext_trans; [exact Hl1|]; eapply xext_trans; [exact Hl2|]; eapply xext_trans; eauto|].
  rewrite <- !app_assoc in Hs4. exact Hs4.
Qed.

(* ------------------------------------------------------------------ the material table along the run *)
Variable MT : pmaterial -> Prop.
Hypothesis MT_T : forall m, MT m -> Forall wT (want_slots m).

Definition mat_ok (x : texst) (e : pmaterial) (g : gmat) : Prop :=
  (exists x0, g = fst (build_material e x0)) /\ Forall2 (slot_ok x) (want_slots e) (gmt_texs g).
Definition minv (s : state) : Prop :=
  good (st_x s) /\ Forall2 (fun row g => MT (fst row) /\ mat_ok (st_x s) (fst row) g) (st_mat_tab s) (st_mats s).

Lemma mat_ok_mono x x' e g : xext x x' -> mat_ok x e g -> mat_ok x' e g.
Proof. intros Hx (H1 & H2). split; [exact H1|eapply slots_mono; eauto]. Qed.

Lemma minv_use s s' es : minv s -> st_x s' = use_exts es (st_x s) -> st_mat_tab s' = st_mat_tab s ->
  st_mats s' = st_mats s -> minv s'.
Proof.
  intros (Hg & Hm) Ex Et Em. unfold minv. rewrite Ex, Et, Em. split; [apply good_use, Hg|].
  eapply Forall2_impl; [|exact Hm]. intros row g (H1 & H2). split; [exact H1|].
  eapply mat_ok_mono; [apply xext_use|exact H2].
Qed.

Lemma add_material_minv m s : MT m -> minv s -> minv (snd (add_material m s)).
Proof.
  intros HM (Hg & Hm). unfold add_material. destruct (find_mat m (st_mat_tab s)); [split; assumption|].
  pose proof (build_material_T m (st_x s) (MT_T m HM) Hg) as H.
  destruct (build_material m (st_x s)) as [gm x] eqn:Eb. cbn [fst snd] in H. destruct H as (H1 & H2 & H3).
  unfold minv. cbn [snd st_x st_mat_tab st_mats]. split; [exact H1|]. apply Forall2_app.
  - eapply Forall2_impl; [|exact Hm]. intros row g (G1 & G2). split; [exact G1|eapply mat_ok_mono; eauto].
  - constructor; [|constructor]. cbn [fst]. split; [exact HM|]. split; [|exact H3].
    exists (st_x s). rewrite Eb. reflexivity.
Qed.

Lemma add_mesh_minv mo s : (forall pm, mo_mat mo = Some pm -> MT pm) -> minv s -> minv (snd (add_mesh mo s)).
Proof.
  intros HM Hi. unfold add_mesh. destruct (prim_count (mo_mesh mo) =? 0); [exact Hi|].
  assert (H1 : minv (snd (resolve_material mo s))).
  { unfold resolve_material. destruct (mo_mat mo) as [pm|]; [|exact Hi].
    pose proof (add_material_minv pm s (HM pm eq_refl) Hi) as H. destruct (add_material pm s). exact H. }
  destruct (resolve_material mo s) as [mati s1]. cbn [snd] in H1.
  unfold place_mesh. destruct (find_mesh _ _); [exact H1|].
  destruct (mesh_data (mo_mesh mo) s1) as [[ai b] wr]. exact H1.
Qed.

Lemma add_node_minv mo mi s : minv s -> minv (add_node mo mi s).
Proof.
  intros Hi. unfold add_node, node_inst. destruct (mo_inst mo); [exact Hi|].
  destruct (write_instances _ _). eapply (minv_use s); [exact Hi|reflexivity|reflexivity|reflexivity].
Qed.

Lemma add_model_minv s mo : (forall pm, mo_mat mo = Some pm -> MT pm) -> minv s -> minv (add_model s mo).
Proof.
  intros HM Hi. unfold add_model. pose proof (add_mesh_minv mo s HM Hi) as H.
  destruct (add_mesh mo s) as [[mi|] s1]; cbn [snd] in H; [apply add_node_minv, H|exact H].
Qed.

Lemma add_light_minv s l : minv s -> minv (add_light s l).
Proof. intros Hi. eapply (minv_use s); [exact Hi|reflexivity|reflexivity|reflexivity]. Qed.

Lemma minv_init : minv init.
Proof. split; [intros ptr i []|constructor]. Qed.

Lemma run_minv sc : (forall mo pm, In mo (sc_models sc) -> mo_mat mo = Some pm -> MT pm) -> minv (run sc).
Proof.
  intros HM. unfold run, add_scene.
  assert (H1 : forall ms s, (forall mo pm, In mo ms -> mo_mat mo = Some pm -> MT pm) -> minv s -> minv (fold_left add_model ms s)).
  { induction ms as [|mo r IH]; intros s Hms H; cbn [fold_left]; [exact H|].
    apply IH; [intros mo' pm Hin; apply Hms; right; exact Hin|].
    apply add_model_minv; [intros pm; apply Hms; left; reflexivity|exact H]. }
  assert (H2 : forall ls s, minv s -> minv (fold_left add_light ls s)).
  { induction ls as [|l r IH]; intros s H; cbn [fold_left]; [exact H|]. apply IH, add_light_minv, H. }
  apply H2, H1; [exact HM|apply minv_init].
Qed.
End Tex.

(* ------------------------------------------------------------------ boolean forms *)
Lemma set_eqb_refl l : set_eqb l l = true.
Proof.
  unfold set_eqb. rewrite Nat.eqb_refl, andb_true_r.
  assert (H : subset_str l l = true) by (apply subset_str_incl, incl_refl). rewrite H. reflexivity.
Qed.
Lemma opt_eqb_refl {A} (e : A -> A -> bool) o : (forall a, e a a = true) -> opt_eqb e o o = true.
Proof. intros H. destruct o; cbn [opt_eqb]; auto. Qed.

Lemma fold_add_nodup {A} (f : A -> string) es : forall u, NoDup (u ++ map f es) ->
  fold_left (fun u e => add_str (f e) u) es u = u ++ map f es.
Proof.
  induction es as [|e es IH]; intros u H; cbn [fold_left map].
  - rewrite app_nil_r. reflexivity.
  - assert (E : add_str (f e) u = u ++ [f e]).
    { unfold add_str. destruct (existsb (String.eqb (f e)) u) eqn:Ex; [|reflexivity].
      exfalso. apply existsb_exists in Ex. destruct Ex as (y & Hy & Ey). apply String.eqb_eq in Ey. subst y.
      cbn [map] in H. apply NoDup_remove_2 in H. apply H. apply in_or_app. left. exact Hy. }
    rewrite E, IH; [rewrite <- app_assoc; reflexivity|]. rewrite <- app_assoc. exact H.
Qed.
Lemma keys_of_nodup t : NoDup (map fst (tx_exts t)) -> keys_of t = map fst (tx_exts t).
Proof. intros H. unfold keys_of. apply (fold_add_nodup fst (tx_exts t) []). exact H. Qed.

Lemma tex_matches_intro st t ti : tcore (st_x st) t (ti_index ti) -> ti_exts ti = keys_of t ->
  NoDup (map fst (tx_exts t)) -> tex_matches (to_summary st) t ti = true.
Proof.
  intros (g & im & H1 & H2 & H3 & H4) Ek Hn. unfold tex_matches, nthN.
  change (s_texs (to_summary st)) with (x_texs (st_x st)). change (s_images (to_summary st)) with (x_images (st_x st)).
  change (s_samplers (to_summary st)) with (x_samplers (st_x st)).
  rewrite H1, H2, H3, String.eqb_refl, Ek, (keys_of_nodup t Hn), set_eqb_refl, andb_true_r. cbn [andb].
  destruct (tx_samp t) as [ps|].
  - destruct H4 as (si & gs & E1 & E2 & E3). rewrite E1, E2. exact E3.
  - rewrite H4. reflexivity.
Qed.

Lemma slot_get_F2 x ws sls : Forall2 (slot_ok x) ws sls -> NoDup (map fst ws) ->
  forall w, In w ws -> exists ti extra, slot_get (fst w) sls = Some (ti, extra) /\ slot_ok x w (fst w, (ti, extra)).
Proof.
  intros H. induction H as [|w0 sl0 ws sls H0 _ IH]; intros Hn w Hin; [destruct Hin|].
  cbn [map] in Hn. inversion Hn as [|? ? Hx Hn']; subst. destruct sl0 as [k [ti ex]]. cbn [slot_get].
  pose proof H0 as (K1 & K2 & K3 & K4). cbn [fst snd] in K1, K2, K3, K4. subst k.
  destruct Hin as [<-|Hin].
  - rewrite String.eqb_refl. exists ti, ex. split; [reflexivity|]. repeat split; assumption.
  - destruct (String.eqb (fst w) (fst w0)) eqn:E; [|apply IH; assumption].
    apply String.eqb_eq in E. exfalso. apply Hx. rewrite <- E. apply in_map, Hin.
Qed.

(* ------------------------------------------------------------------ equal materials want equal slots *)
Definition weq (a b : wslot) : Prop :=
  fst a = fst b /\ snd (snd a) = snd (snd b) /\ ptex_equal (Some (fst (snd a))) (Some (fst (snd b))) = true.
Lemma ptex_equal_refl o : ptex_equal o o = true.
Proof. apply (keyed_refl _ _ keyed_ptex). Qed.
Lemma weq_refl l : Forall2 weq l l.
Proof. induction l; constructor; [|assumption]. repeat split. apply ptex_equal_refl. Qed.
Lemma w_opt_eq name a b extra : ptex_equal a b = true -> Forall2 weq (w_opt name a extra) (w_opt name b extra).
Proof.
  destruct a as [x|], b as [y|]; cbn [w_opt]; intros H; try (cbn in H; discriminate); [|constructor].
  constructor; [|constructor]. repeat split. exact H.
Qed.
Lemma w_texs_eq name a b : ptexs_equal a b = true ->
  Forall2 weq (match a with Some (t, sc) => [(name, (t, sc))] | None => [] end)
              (match b with Some (t, sc) => [(name, (t, sc))] | None => [] end).
Proof.
  destruct a as [[x sx]|], b as [[y sy]|]; cbn [ptexs_equal]; intros H; try discriminate; [|constructor].
  apply andb_true_iff in H. destruct H as (H1 & H2). apply keyed_optN in H2. subst sy.
  constructor; [|constructor]. repeat split. exact H1.
Qed.

Lemma want_equal e m : mat_equal e m = true -> pm_exts e = pm_exts m -> Forall2 weq (want_slots e) (want_slots m).
Proof.
  unfold mat_equal. rewrite !andb_true_iff. intros ((((((((_ & Hp) & _) & Hn) & Ho) & _) & _) & _) & _) Ex.
  rewrite !want_slots_eq, Ex. apply Forall2_app; [|apply Forall2_app; [apply weq_refl|apply Forall2_app]].
  - unfold w_pbr. destruct (pm_pbr e) as [x|], (pm_pbr m) as [y|]; cbn [pbr_equal] in Hp; try discriminate; [|constructor].
    rewrite !andb_true_iff in Hp. destruct Hp as ((_ & H1) & H2). apply Forall2_app; apply w_opt_eq; assumption.
  - apply w_texs_eq, Hn.
  - apply w_texs_eq, Ho.
Qed.

Lemma slot_ok_equal x a b sl : slot_ok x a sl -> weq a b -> slot_ok x b sl.
Proof.
  intros (H1 & H2 & H3 & H4) (E1 & E2 & E3). apply ptex_equal_detail in E3. destruct E3 as (U & X & S).
  split; [congruence|]. split; [congruence|]. split.
  - destruct H3 as (g & im & G1 & G2 & G3 & G4). exists g, im. split; [exact G1|]. split; [exact G2|].
    split; [rewrite <- U; exact G3|].
    destruct (tx_samp (fst (snd a))) as [pa|], (tx_samp (fst (snd b))) as [pb|]; cbn [opt_eqb] in S; try discriminate; [|exact G4].
    destruct G4 as (si & gs & F1 & F2 & F3). exists si, gs. split; [exact F1|]. split; [exact F2|].
    rewrite samp_eqb_sym in S. apply (keyed_trans _ _ keyed_samp _ _ _ S F3).
  - rewrite H4. unfold keys_of. rewrite X. reflexivity.
Qed.
Lemma Forall2_comp {A B C} (R : A -> C -> Prop) (Q : A -> B -> Prop) (R' : B -> C -> Prop) a b c :
  (forall x y z, R x z -> Q x y -> R' y z) -> Forall2 R a c -> Forall2 Q a b -> Forall2 R' b c.
Proof.
  intros H F. revert b. induction F as [|x z a c Hxz _ IH]; intros b G; inversion G; subst; constructor; eauto.
Qed.

Lemma mat_matches_intro s m g :
  gmt_name g = pm_name m ->
  gmt_color g = match pm_pbr m with
                | Some p => match pb_color p with Some c => rgba_millis c | None => [1000; 1000; 1000; 1000] end
                | None => [1000; 1000; 1000; 1000] end ->
  gmt_metal g = match pm_pbr m with Some p => pb_metal p | None => None end ->
  gmt_rough g = match pm_pbr m with Some p => pb_rough p | None => None end ->
  gmt_emissive g = option_map rgb_millis (pm_emissive m) -> gmt_alpha g = pm_alpha m -> gmt_cutoff g = pm_cutoff m ->
  set_eqb (gmt_exts g) (map mx_id (pm_exts m)) = true -> length (gmt_texs g) = length (want_slots m) ->
  gmt_extras g = pm_extras m ->
  (forall w, In w (want_slots m) -> exists ti extra, slot_get (fst w) (gmt_texs g) = Some (ti, extra) /\
     tex_matches s (fst (snd w)) ti = true /\ extra = snd (snd w)) ->
  mat_matches s m g = true.
Proof.
  intros E1 E2 E3 E4 E5 E6 E7 E8 E9 E10 H. unfold mat_matches.
  rewrite !andb_true_iff. repeat match goal with |- _ /\ _ => split end.
  - rewrite E1. apply String.eqb_refl.
  - rewrite E2. apply listN_eqb_refl.
  - rewrite E3. apply optN_eqb_refl.
  - rewrite E4. apply optN_eqb_refl.
  - rewrite E5. apply opt_eqb_refl, listN_eqb_refl.
  - rewrite E6. apply opt_eqb_refl, String.eqb_refl.
  - rewrite E7. apply optN_eqb_refl.
  - exact E8.
  - rewrite E9. apply Nat.eqb_refl.
  - apply forallb_forall. intros w Hw. destruct (H w Hw) as (ti & extra & -> & Ht & ->). rewrite Ht. apply optN_eqb_refl.
  - rewrite E10. apply N.eqb_refl.
Qed.

Lemma pbr_scal a b : pbr_equal a b = true ->
  match a with
  | Some p => match pb_color p with Some c => rgba_millis c | None => [1000; 1000; 1000; 1000] end
  | None => [1000; 1000; 1000; 1000] end =
  match b with
  | Some p => match pb_color p with Some c => rgba_millis c | None => [1000; 1000; 1000; 1000] end
  | None => [1000; 1000; 1000; 1000] end /\
  match a with Some p => pb_metal p | None => None end = match b with Some p => pb_metal p | None => None end /\
  match a with Some p => pb_rough p | None => None end = match b with Some p => pb_rough p | None => None end.
Proof.
  destruct a as [x|], b as [y|]; cbn [pbr_equal]; intros H; try discriminate; [|auto].
  rewrite !andb_true_iff in H. destruct H as ((((H1 & H2) & H3) & _) & _). apply keyed_optN in H1, H2.
  apply (keyed_opt _ _ keyed_listN) in H3. rewrite !opt_id in H3. rewrite H1, H2, H3. auto.
Qed.

(* the entry built from a material equal by value to [m] has the content of [m] *)
Lemma mat_matches_built st e m g :
  mat_equal e m = true -> pm_exts e = pm_exts m -> (exists x0, g = fst (build_material e x0)) ->
  Forall2 (slot_ok (st_x st)) (want_slots m) (gmt_texs g) ->
  NoDup (map fst (want_slots m)) -> NoDup (map mx_id (pm_exts m)) ->
  (forall w, In w (want_slots m) -> NoDup (map fst (tx_exts (fst (snd w))))) ->
  mat_matches (to_summary st) m g = true.
Proof.
  intros Q Ex (x0 & Eg) Hs Hn Hi Ht.
  unfold mat_equal in Q. rewrite !andb_true_iff in Q. destruct Q as ((((((((Q1 & Q2) & Q3) & _) & _) & Q6) & Q7) & _) & Q9).
  assert (F : gmt_name g = pm_name e /\
    gmt_color g = match pm_pbr e with
                  | Some p => match pb_color p with Some c => rgba_millis c | None => [1000; 1000; 1000; 1000] end
                  | None => [1000; 1000; 1000; 1000] end /\
    gmt_metal g = match pm_pbr e with Some p => pb_metal p | None => None end /\
    gmt_rough g = match pm_pbr e with Some p => pb_rough p | None => None end /\
    gmt_emissive g = option_map rgb_millis (pm_emissive e) /\ gmt_alpha g = pm_alpha e /\ gmt_cutoff g = pm_cutoff e /\
    gmt_exts g = fold_left (fun u e0 => add_str (mx_id e0) u) (pm_exts e) [] /\
    gmt_extras g = pm_extras e).
  { rewrite Eg. repeat split; reflexivity. }
  destruct F as (F1 & F2 & F3 & F4 & F5 & F6 & F7 & F8 & F9).
  destruct (pbr_scal _ _ Q2) as (P1 & P2 & P3).
  apply String.eqb_eq in Q1. apply (keyed_opt _ _ keyed_listN) in Q3. rewrite !opt_id in Q3.
  apply (keyed_opt _ _ keyed_string) in Q6. rewrite !opt_id in Q6. apply keyed_optN in Q7.
  apply mat_matches_intro.
  - congruence.
  - rewrite F2. exact P1.
  - rewrite F3. exact P2.
  - rewrite F4. exact P3.
  - rewrite F5, Q3. reflexivity.
  - congruence.
  - congruence.
  - rewrite F8, Ex, (fold_add_nodup mx_id (pm_exts m) [] Hi). apply set_eqb_refl.
  - symmetry. apply (Forall2_len _ _ _ Hs).
  - apply N.eqb_eq in Q9. congruence.
  - intros w Hw. destruct (slot_get_F2 _ _ _ Hs Hn w Hw) as (ti & extra & G1 & (_ & G2 & G3 & G4)).
    cbn [fst snd] in G2, G3, G4. exists ti, extra. split; [exact G1|]. split; [|exact G2].
    apply tex_matches_intro; [exact G3|exact G4|apply Ht, Hw].
Qed.

(* ------------------------------------------------------------------ the index of a texture is determined by its content *)
Lemma nodup_by_nth {A} (eqb : A -> A -> bool) l : (forall a b, eqb a b = eqb b a) -> nodup_by eqb l = true ->
  forall n1 n2 a b, nth_error l n1 = Some a -> nth_error l n2 = Some b -> eqb a b = true -> n1 = n2.
Proof.
  intros Hs. induction l as [|y l IH]; intros Hn n1 n2 a b H1 H2 E; [destruct n1; discriminate|].
  cbn [nodup_by] in Hn. apply andb_true_iff in Hn. destruct Hn as (Hy & Hl). apply negb_true_iff in Hy.
  assert (Hex : forall z, In z l -> eqb y z = false).
  { intros z Hz. destruct (eqb y z) eqn:Ez; [|reflexivity]. rewrite <- Hy. symmetry. apply existsb_exists. exists z. auto. }
  destruct n1 as [|n1], n2 as [|n2]; cbn [nth_error] in H1, H2.
  - reflexivity.
  - apply some_inj in H1. subst a. apply nth_error_In in H2. rewrite (Hex b H2) in E. discriminate.
  - apply some_inj in H2. subst b. apply nth_error_In in H1. rewrite Hs, (Hex a H1) in E. discriminate.
  - f_equal. eapply IH; eauto.
Qed.

Lemma tcore_unique x t i j : xdedup x -> Forall (fun g => gt_exts g = []) (x_texs x) -> tcore x t i -> tcore x t j -> i = j.
Proof.
  intros (Di & Ds & Dt & _) Hx (g1 & im1 & A1 & A2 & A3 & A4) (g2 & im2 & B1 & B2 & B3 & B4).
  rewrite nodup_str_by in Di.
  assert (Eim : im1 = im2).
  { apply N2Nat.inj. eapply (nodup_by_nth String.eqb _ str_eqb_sym Di); [exact A3|exact B3|apply String.eqb_refl]. }
  assert (Esm : gt_sampler g1 = gt_sampler g2).
  { destruct (tx_samp t) as [ps|]; [|congruence].
    destruct A4 as (s1 & gs1 & C1 & C2 & C3). destruct B4 as (s2 & gs2 & D1 & D2 & D3).
    assert (s1 = s2); [|congruence]. apply N2Nat.inj.
    eapply (nodup_by_nth samp_eqb _ samp_eqb_sym Ds); [exact C2|exact D2|].
    rewrite samp_eqb_sym in C3. apply (keyed_trans _ _ keyed_samp _ _ _ C3 D3). }
  rewrite Forall_forall in Hx.
  assert (Eg : gtex_eqb g1 g2 = true).
  { apply keyed_gtex. rewrite (Hx g1 (nth_error_In _ _ A1)), (Hx g2 (nth_error_In _ _ B1)), A2, B2, Esm, Eim. reflexivity. }
  apply N2Nat.inj. eapply (nodup_by_nth gtex_eqb _ gtex_eqb_sym Dt); [exact A1|exact B1|exact Eg].
Qed.

Lemma xdedup_run sc : xdedup (st_x (run sc)).
Proof.
  apply (xsteps_inv xdedup) with (x := init_x); [intros t x Hx; apply xdedup_tex, Hx|auto|apply run_xsteps|].
  unfold xdedup, init_x. cbn. repeat split; auto; intros ? ? [].
Qed.

Lemma functional_intro l : (forall k v1 v2, In (k, v1) l -> In (k, v2) l -> v1 = v2) -> functional l = true.
Proof.
  induction l as [|[k v] r IH]; intros H; cbn [functional]; [reflexivity|]. apply andb_true_intro. split.
  - apply forallb_forall. intros [k' v'] Hin. cbn [fst snd]. destruct (k' =? k) eqn:E; cbn [negb orb]; [|reflexivity].
    apply N.eqb_eq in E. subst k'. apply N.eqb_eq. apply (H k); [right; exact Hin|left; reflexivity].
  - apply IH. intros k0 v1 v2 H1 H2. apply (H k0); right; assumption.
Qed.

Lemma map_inj_on {A B} (f : A -> B) l1 : forall l2, map f l1 = map f l2 ->
  (forall a b, In a l1 -> In b l2 -> f a = f b -> a = b) -> l1 = l2.
Proof.
  induction l1 as [|a l1 IH]; intros [|b l2] E H; cbn [map] in E; try discriminate; [reflexivity|].
  injection E as E1 E2. f_equal; [apply H; [left; reflexivity|left; reflexivity|exact E1]|apply IH; [exact E2|]].
  intros a' b' Ha Hb. apply H; right; assumption.
Qed.
Lemma zip_In {A B} (l : list A) : forall (l' r : list B) a b, length l = length l' ->
  In (a, b) (zip l (l' ++ r)) -> In (a, b) (combine l l').
Proof.
  induction l as [|x l IH]; intros [|y l'] r a b Hl Hin; cbn [length] in Hl; try discriminate.
  - cbn [zip] in Hin. destruct Hin.
  - cbn [app zip combine In] in *. destruct Hin as [Hin|Hin]; [left; exact Hin|right; eapply IH; [|exact Hin]]. lia.
Qed.

(* ------------------------------------------------------------------ hypotheses about the scene *)
Definition scene_mat (sc : scene) (pm : pmaterial) : Prop := exists mo, In mo (sc_models sc) /\ mo_mat mo = Some pm.
(* the textures AddTexture can be handed: those of the texture slots of the materials of the scene's models *)
Definition scene_tex (sc : scene) (t : ptexture) : Prop :=
  exists pm w, scene_mat sc pm /\ In w (want_slots pm) /\ t = fst (snd w).
(* Go pointer identity: one *PolyformTexture pointer is one texture value *)
Definition scene_tex_ptr_ok (sc : scene) : Prop :=
  forall t1 t2, scene_tex sc t1 -> scene_tex sc t2 -> tx_ptr t1 = tx_ptr t2 -> t1 = t2.
(* Go's == on material extension (interface) values: the same class is the same value *)
Definition scene_ext_cls_ok (sc : scene) : Prop :=
  forall pm1 pm2 e1 e2, scene_mat sc pm1 -> scene_mat sc pm2 -> In e1 (pm_exts pm1) -> In e2 (pm_exts pm2) ->
  mx_class e1 = mx_class e2 -> e1 = e2.
(* within one material the texture slot names are distinct (they are JSON object keys; [slot_get] finds the first) *)
Definition scene_mat_ok (sc : scene) : Prop := forall pm, scene_mat sc pm -> NoDup (map fst (want_slots pm)).
(* extension ids of one material, and of one texture reference, are distinct (JSON object keys: the writer
   stores them in a map, [set_eqb] of the checker also compares lengths) *)
Definition scene_ext_ids_ok (sc : scene) : Prop :=
  (forall pm, scene_mat sc pm -> NoDup (map mx_id (pm_exts pm))) /\
  (forall t, scene_tex sc t -> NoDup (map fst (tx_exts t))).

Lemma scene_minv sc : scene_tex_ptr_ok sc -> minv (scene_tex sc) (scene_mat sc) (run sc).
Proof.
  intros Hp. apply (run_minv (scene_tex sc) Hp (scene_mat sc)).
  - intros m Hm. apply Forall_forall. intros w Hw. exists m, w. auto.
  - intros mo pm Hin E. exists mo. auto.
Qed.

(* the material entry of a model's primitive: built from a scene material equal by value (with the same
   extension values), and its slots carry the textures the model's material asks for *)
Lemma model_slots sc mo nd mi p ii pm : scene_ptr_ok sc -> scene_tex_ptr_ok sc -> scene_ext_cls_ok sc ->
  In mo (sc_models sc) -> node_doc (run sc) mo nd mi p ii -> mo_mat mo = Some pm ->
  exists i e g, gp_mat p = Some i /\ nth_error (st_mats (run sc)) (N.to_nat i) = Some g /\
    mat_equal e pm = true /\ pm_exts e = pm_exts pm /\ (exists x0, g = fst (build_material e x0)) /\
    Forall2 (slot_ok (st_x (run sc))) (want_slots pm) (gmt_texs g).
Proof.
  intros Hp Htp Hc Hmo D E.
  destruct (run_linv sc Hp) as ((_ & _ & _ & _ & _ & (_ & Hv)) & _).
  destruct (scene_minv sc Htp) as (_ & Hr).
  destruct D as [_ _ _ _ _ _ Mt _]. unfold mat_for in Mt. rewrite E in Mt. destruct Mt as (i & G & F).
  apply find_mat_In in F. destruct F as (e & Hin & Q). apply In_nth_error in Hin. destruct Hin as (j & Hj).
  assert (Hi : i = N.of_nat j).
  { apply (seqN_nth (length (st_mats (run sc)))). unfold seqN. rewrite <- Hv, nth_error_map, Hj. reflexivity. }
  destruct (Forall2_nth_l _ _ _ _ _ Hr Hj) as (g & Hg & (M1 & (M2 & M3))). cbn [fst] in M1, M2, M3.
  assert (Ec : map mx_class (pm_exts e) = map mx_class (pm_exts pm)).
  { pose proof Q as Q'. unfold mat_equal in Q'. rewrite !andb_true_iff in Q'. destruct Q' as ((_ & Q8) & _).
    apply (keyed_list _ _ keyed_N) in Q8. rewrite !map_id in Q8. exact Q8. }
  assert (Ex : pm_exts e = pm_exts pm).
  { apply (map_inj_on mx_class _ _ Ec). intros a b Ha Hb. apply (Hc e pm); auto. exists mo; auto. }
  exists i, e, g. subst i. rewrite Nat2N.id. split; [exact G|]. split; [exact Hg|]. split; [exact Q|].
  split; [exact Ex|]. split; [exact M2|].
  eapply Forall2_comp; [|exact M3|apply want_equal; [exact Q|exact Ex]].
  intros a b c H1 H2. exact (slot_ok_equal _ a b c H1 H2).
Qed.

(* ------------------------------------------------------------------ [material-content] *)
Theorem node_mat_check_run : forall sc, scene_ptr_ok sc -> scene_tex_ptr_ok sc -> scene_ext_cls_ok sc ->
  scene_mat_ok sc -> scene_ext_ids_ok sc ->
  forall mo nd, In (mo, nd) (combine (filter live (sc_models sc)) (model_nodes sc)) ->
  node_mat_check (to_summary (run sc)) mo nd = [].
Proof.
  intros sc Hp Htp Hc Hm (Hid & Hte) mo nd I.
  destruct (model_nodes_spec sc Hp) as (_ & H).
  destruct (Forall2_combine_In _ _ _ _ _ H I) as (mi & p & ii & D).
  assert (Hmo : In mo (sc_models sc)). { apply in_combine_l in I. apply filter_In in I. tauto. }
  pose proof D as D'. destruct D' as [_ _ (_ & Em) (gm & Eg & Ep) _ _ Mt _].
  unfold node_mat_check, node_prim, nthN.
  change (s_meshes (to_summary (run sc))) with (st_meshes (run sc)).
  change (s_mats (to_summary (run sc))) with (st_mats (run sc)).
  rewrite Em, Eg, Ep.
  destruct (mo_mat mo) as [pm|] eqn:E.
  - destruct (model_slots sc mo nd mi p ii pm Hp Htp Hc Hmo D E) as (i & e & g & G & Hg & Q & Ex & Hb & Hs).
    rewrite G, Hg. apply key_if_true.
    assert (Hsm : scene_mat sc pm) by (exists mo; auto).
    apply (mat_matches_built (run sc) e pm g); auto.
    intros w Hw. apply Hte. exists pm, w. auto.
  - unfold mat_for in Mt. rewrite E in Mt. rewrite Mt. reflexivity.
Qed.

(* ------------------------------------------------------------------ [texture-pointer-stored-twice] *)
Theorem tex_refs_functional_run : forall sc, scene_ptr_ok sc -> scene_tex_ptr_ok sc -> scene_ext_cls_ok sc ->
  scene_mat_ok sc ->
  functional (all_tex_refs (to_summary (run sc)) (placements (to_summary (run sc)) sc)) = true.
Proof.
  intros sc Hp Htp Hc Hm.
  assert (HR : forall k v, In (k, v) (all_tex_refs (to_summary (run sc)) (placements (to_summary (run sc)) sc)) ->
            exists t, scene_tex sc t /\ tx_ptr t = k /\ tcore (st_x (run sc)) t v).
  { intros k v Hin. unfold all_tex_refs in Hin. apply in_flat_map in Hin. destruct Hin as ([mo [mi p]] & Hpl & Hin).
    cbn [fst snd] in Hin.
    unfold placements in Hpl. apply in_flat_map in Hpl. destruct Hpl as ([mo' nd] & Hz & Hpl). cbn [fst snd] in Hpl.
    destruct (model_nodes_spec sc Hp) as (En & H).
    change (s_nodes (to_summary (run sc))) with (st_nodes (run sc)) in Hz. rewrite En in Hz.
    apply zip_In in Hz; [|apply (Forall2_len _ _ _ H)].
    destruct (Forall2_combine_In _ _ _ _ _ H Hz) as (mi' & p' & ii & D).
    pose proof D as D'. destruct D' as [_ _ (_ & Em) (gm & Eg & Ep) _ _ _ _].
    rewrite Em in Hpl. unfold nthN in Hpl. change (s_meshes (to_summary (run sc))) with (st_meshes (run sc)) in Hpl.
    rewrite Eg, Ep in Hpl. destruct Hpl as [Hpl|[]].
    assert (X : mo' = mo /\ mi' = mi /\ p' = p) by (inversion Hpl; auto). destruct X as (-> & -> & ->).
    assert (Hmo : In mo (sc_models sc)). { apply in_combine_l in Hz. apply filter_In in Hz. tauto. }
    destruct (mo_mat mo) as [pm|] eqn:E; [|exfalso; exact Hin].
    destruct (model_slots sc mo nd mi p ii pm Hp Htp Hc Hmo D E) as (i & e & g & G & Hg & Q & Ex & Hb & Hs).
    rewrite G in Hin. unfold nthN in Hin. change (s_mats (to_summary (run sc))) with (st_mats (run sc)) in Hin.
    rewrite Hg in Hin. unfold mat_tex_refs in Hin. apply in_flat_map in Hin. destruct Hin as (w & Hw & Hin).
    assert (Hsm : scene_mat sc pm) by (exists mo; auto).
    destruct (slot_get_F2 _ _ _ Hs (Hm pm Hsm) w Hw) as (ti & extra & G1 & (_ & _ & G3 & _)). cbn [fst snd] in G3.
    rewrite G1 in Hin. destruct Hin as [Hin|[]].
    assert (X : k = tx_ptr (fst (snd w)) /\ v = ti_index ti) by (inversion Hin; auto). destruct X as (-> & ->).
    exists (fst (snd w)). split; [exists pm, w; auto|]. split; [reflexivity|exact G3]. }
  apply functional_intro. intros k v1 v2 H1 H2.
  destruct (HR k v1 H1) as (t1 & S1 & P1 & C1). destruct (HR k v2 H2) as (t2 & S2 & P2 & C2).
  assert (t1 = t2) by (apply Htp; congruence). subst t2.
  destruct (einv_run sc) as ((_ & Hx) & _).
  eapply tcore_unique; [apply xdedup_run|exact Hx|exact C1|exact C2].
Qed.

(* ------------------------------------------------------------------ the hypotheses are satisfiable *)
Lemma tes_mat pm : scene_mat tex_ext_scene pm -> pm = mat_with 0 tx_transformed \/ pm = mat_with 1 tx_plain.
Proof.
  intros (mo & Hmo & E). unfold tex_ext_scene in Hmo. cbn [sc_models In] in Hmo.
  destruct Hmo as [<-|[<-|[]]]; cbn [mo_mat] in E; apply some_inj in E; auto.
Qed.
Lemma tes_tex t : scene_tex tex_ext_scene t -> t = tx_transformed \/ t = tx_plain.
Proof.
  intros (pm & w & Hm & Hw & ->). destruct (tes_mat pm Hm) as [-> | ->]; cbn in Hw; destruct Hw as [<-|[]]; cbn [fst snd]; auto.
Qed.
Example tex_ext_scene_hyps :
  scene_ptr_ok tex_ext_scene /\ scene_tex_ptr_ok tex_ext_scene /\ scene_ext_cls_ok tex_ext_scene /\
  scene_mat_ok tex_ext_scene /\ scene_ext_ids_ok tex_ext_scene.
Proof.
  split; [destruct material_content_refuted_witness as (_ & _ & _ & _ & H & _); exact H|]. split; [|split; [|split; [|split]]].
  - intros t1 t2 H1 H2 E. destruct (tes_tex _ H1) as [-> | ->], (tes_tex _ H2) as [-> | ->]; try reflexivity; cbn in E; discriminate.
  - intros pm1 pm2 e1 e2 H1 _ I1. destruct (tes_mat _ H1) as [-> | ->]; destruct I1.
  - intros pm H. destruct (tes_mat _ H) as [-> | ->]; cbn; (constructor; [intros []|constructor]).
  - intros pm H. destruct (tes_mat _ H) as [-> | ->]; constructor.
  - intros t H. destruct (tes_tex _ H) as [-> | ->]; cbn; [constructor; [intros []|constructor]|constructor].
Qed.
