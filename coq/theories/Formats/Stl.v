(* C07: binary STL.  Executable model of formats/stl/{write,read,binary}.go.
   Floats are float32 bit patterns (N < 2^32); the facet-normal *value* is an input
   (float arithmetic checked by the harness), its placement is modelled. *)
From PF Require Import Base.Bytes.
Open Scope N_scope.

Definition vec := (N * N * N)%type.
Record tri := { tn : vec; ta : vec; tb : vec; tc : vec; tattr : N }.

Definition vec12 (v : vec) : list N := let '(x, y, z) := v in le32 x ++ le32 y ++ le32 z.
Definition rec50 (t : tri) : list N :=
  vec12 (tn t) ++ vec12 (ta t) ++ vec12 (tb t) ++ vec12 (tc t) ++ le16 (tattr t).

(* stl.Write *)
Definition write (hdr : list N) (ts : list tri) : list N :=
  hdr ++ le32 (N.of_nat (length ts)) ++ flat_map rec50 ts.


Definition get32 (l : list N) : option (N * list N) :=
  do '(a, r) <- take 4 l; do w <- de_le32 a; Some (w, r).
Definition get16 (l : list N) : option (N * list N) :=
  do '(a, r) <- take 2 l; do w <- de_le16 a; Some (w, r).
Definition getvec (l : list N) : option (vec * list N) :=
  do '(x, r) <- get32 l; do '(y, r) <- get32 r; do '(z, r) <- get32 r; Some ((x, y, z), r).
Definition gettri (l : list N) : option (tri * list N) :=
  do '(n, r) <- getvec l; do '(a, r) <- getvec r; do '(b, r) <- getvec r; do '(c, r) <- getvec r;
  do '(at_, r) <- get16 r; Some ({| tn := n; ta := a; tb := b; tc := c; tattr := at_ |}, r).

(* binary.Read of `count` records: fails (io.ErrUnexpectedEOF / io.EOF) when the input is short;
   fuel = bytes available, every record consumes 50 >= 1 of them, so fuel never runs out first. *)
Fixpoint read_tris (fuel : nat) (count : N) (l : list N) : option (list tri) :=
  if count =? 0 then Some [] else
  match fuel with
  | O => None
  | S f => do '(t, r) <- gettri l; do ts <- read_tris f (count - 1) r; Some (t :: ts)
  end.

(* stl.Read: trailing bytes after the last record are ignored, as in the Go code. *)
Definition read (bytes : list N) : option (list N * list tri) :=
  do '(hdr, r) <- take 80 bytes;
  do '(count, r) <- get32 r;
  do ts <- read_tris (length r) count r;
  Some (hdr, ts).

(* ---- mesh level ---- *)
Definition zero_hdr : list N := repeat 0 80.
Definition vzero : vec := (0, 0, 0).

Fixpoint gather_tris (idx : list nat) (pos : list vec) (fns : list vec) : option (list tri) :=
  match fns with
  | [] => Some []
  | fnv :: fns' =>
    match idx with
    | i :: j :: k :: idx' =>
        do a <- nth_error pos i; do b <- nth_error pos j; do c <- nth_error pos k;
        do ts <- gather_tris idx' pos fns';
        Some ({| tn := fnv; ta := a; tb := b; tc := c; tattr := 0 |} :: ts)
    | _ => Some []          (* fewer than 3 indices left: PrimitiveCount = len/3 rounds down *)
    end
  end.

(* stl.WriteMesh on a triangle-topology mesh: [pos = None] is "no Position attribute";
   [fns] = one facet normal per triangle (zero vectors when the mesh has no normals). *)
Definition write_mesh (idx : list nat) (pos : option (list vec)) (fns : list vec) : option (list N) :=
  match pos with
  | None => Some (write zero_hdr [])
  | Some p => do ts <- gather_tris idx p fns; Some (write zero_hdr ts)
  end.

Definition fzero (w : N) : bool := (w =? 0) || (w =? 2147483648).   (* +0.0 / -0.0 *)
Definition vec_zero (v : vec) : bool := let '(x, y, z) := v in fzero x && fzero y && fzero z.

Inductive nrm := Stored (v : vec) | Flat.     (* Flat: geometric normal, float arithmetic, harness side *)
Record rmesh := { r_nverts : nat; r_idx : list nat; r_pos : list vec; r_nrm : option (list nrm) }.

Definition vec_nrm (v : vec) : nrm := if vec_zero v then Flat else Stored v.
Definition tri_nrm (t : tri) : nrm := vec_nrm (tn t).

(* stl.ReadMesh *)
Definition read_mesh (bytes : list N) : option rmesh :=
  do '(_, ts) <- read bytes;
  let n := (3 * length ts)%nat in
  let pos := flat_map (fun t => [ta t; tb t; tc t]) ts in
  let nr := flat_map (fun t => let x := tri_nrm t in [x; x; x]) ts in
  let has := existsb (fun t => negb (vec_zero (tn t))) ts in
  Some {| r_nverts := n; r_idx := seq 0 n; r_pos := pos;
          r_nrm := if has then Some nr else None |}.

(* well-formedness of records / byte strings *)
Definition vec_ok (v : vec) : Prop := let '(x, y, z) := v in word32 x /\ word32 y /\ word32 z.
Definition tri_ok (t : tri) : Prop :=
  vec_ok (tn t) /\ vec_ok (ta t) /\ vec_ok (tb t) /\ vec_ok (tc t) /\ word16 (tattr t).

(* executable equality, used by the correspondence check *)
Definition vec_eqb (a b : vec) : bool :=
  let '(x, y, z) := a in let '(x', y', z') := b in (x =? x') && (y =? y') && (z =? z').
Fixpoint list_eqb {A} (eqb : A -> A -> bool) (a b : list A) : bool :=
  match a, b with
  | [], [] => true
  | x :: a', y :: b' => eqb x y && list_eqb eqb a' b'
  | _, _ => false
  end.
Definition nrm_eqb (a b : nrm) : bool :=
  match a, b with Stored x, Stored y => vec_eqb x y | Flat, Flat => true | _, _ => false end.
Definition opt_eqb {A} (eqb : A -> A -> bool) (a b : option A) : bool :=
  match a, b with Some x, Some y => eqb x y | None, None => true | _, _ => false end.
Definition rmesh_eqb (a b : rmesh) : bool :=
  Nat.eqb (r_nverts a) (r_nverts b) && list_eqb Nat.eqb (r_idx a) (r_idx b)
  && list_eqb vec_eqb (r_pos a) (r_pos b) && opt_eqb (list_eqb nrm_eqb) (r_nrm a) (r_nrm b).

(* ---- chunked reader (stl.Read since /repo 6d82ee8) ----
   The Go code reads the announced records in chunks of [k = 4096]: each iteration asks
   binary.Read for min(remaining, k) records at once and fails when the input is short.
   [read_tris_rest] is [read_tris] that also returns the unread rest; [read_chunks] is the loop.
   StlProofs.read_chunked_eq_read: for every k >= 1 the chunked reader equals [read]. *)
Fixpoint read_tris_rest (fuel : nat) (count : N) (l : list N) : option (list tri * list N) :=
  if count =? 0 then Some ([], l) else
  match fuel with
  | O => None
  | S f => do '(t, r) <- gettri l; do '(ts, r') <- read_tris_rest f (count - 1) r; Some (t :: ts, r')
  end.

(* fuel = bytes available: every iteration with remaining > 0 and k >= 1 consumes >= 50 of them *)
Fixpoint read_chunks (fuel : nat) (k remaining : N) (l : list N) : option (list tri * list N) :=
  if remaining =? 0 then Some ([], l) else
  match fuel with
  | O => None
  | S f =>
      let c := N.min remaining k in
      do '(buf, r) <- read_tris_rest (length l) c l;
      do '(ts, r') <- read_chunks f k (remaining - c) r;
      Some (buf ++ ts, r')
  end.

Definition read_chunked (k : N) (bytes : list N) : option (list N * list tri) :=
  do '(hdr, r) <- take 80 bytes;
  do '(count, r) <- get32 r;
  do '(ts, _) <- read_chunks (length r) k count r;
  Some (hdr, ts).

Definition stl_chunk : N := 4096.     (* const chunk = 1 << 12 in read.go *)

(* observables of stl.ReadMesh as functions of the record list (the body of [read_mesh]) *)
Definition rm_pos (ts : list tri) : list vec := flat_map (fun t => [ta t; tb t; tc t]) ts.
Definition rm_nrm (ts : list tri) : option (list nrm) :=
  if existsb (fun t => negb (vec_zero (tn t))) ts
  then Some (flat_map (fun t => let x := tri_nrm t in [x; x; x]) ts) else None.

(* the records stl.WriteMesh hands to stl.Write when corner j of the index buffer resolves to
   position [corner j] and triangle t gets facet normal [fn t] (N-indexed: usable for large meshes) *)
Fixpoint tris_from (fuel : nat) (t : N) (fn : N -> vec) (corner : N -> vec) : list tri :=
  match fuel with
  | O => []
  | S f => {| tn := fn t; ta := corner (3 * t); tb := corner (3 * t + 1); tc := corner (3 * t + 2); tattr := 0 |}
           :: tris_from f (t + 1) fn corner
  end.

(* a, a+1, ..., a+k-1 *)
Fixpoint iotaN (k : nat) (a : N) : list N := match k with O => [] | S k' => a :: iotaN k' (a + 1) end.

(* executable well-formedness of records (hypothesis of the round-trip theorems, evaluated by the check) *)
Definition vec_okb (v : vec) : bool :=
  let '(x, y, z) := v in (x <? 4294967296) && (y <? 4294967296) && (z <? 4294967296).
Definition tri_okb (t : tri) : bool :=
  vec_okb (tn t) && vec_okb (ta t) && vec_okb (tb t) && vec_okb (tc t) && (tattr t <? 65536).
