(* C15, round 4: spz.ReadHeader (Formats/SpzExtra.v). *)
From PF Require Import Base.Bytes Base.BytesProofs Formats.Spz Formats.SpzProofs Formats.SpzExtra.
From Coq Require Import Lia.
Open Scope N_scope.

Lemma read_header_enc h rest : header_ok h -> read_header (enc_header h ++ rest) = Some (h, validate h).
Proof.
  intros H. unfold read_header. rewrite get_header_enc by exact H. reflexivity.
Qed.

Lemma read_header_short l : (length l < 16)%nat -> read_header l = None.
Proof.
  intros H. unfold read_header. destruct (get_header l) as [[h r]|] eqn:E; [|reflexivity].
  apply get_header_length in E. lia.
Qed.

Lemma read_header_of_decode l h f : decode l = Some (h, f) -> read_header l = Some (h, true).
Proof.
  unfold decode, read_header. destruct (get_header l) as [[h' r]|]; [|discriminate]. cbn.
  destruct (validate h') eqn:V; cbn; [|discriminate].
  destruct (N.of_nat (length r) <? total_size h'); [discriminate|].
  repeat (match goal with |- context [take ?n ?x] => destruct (take n x) as [[? ?]|]; cbn; [|discriminate] end).
  intros [= -> _]. reflexivity.
Qed.

(* the vector part of a decoded rotation is the three dequantised bytes whatever its length: no renormalisation,
   also outside the unit ball, where the real part is 0 *)
Lemma rot_of_xyz b0 b1 b2 :
  let '(x, y, z, _) := rot_of [b0; b1; b2] 0 in x = rot1 b0 /\ y = rot1 b1 /\ z = rot1 b2.
Proof. cbn. repeat split. Qed.

Lemma rot_of_outside_ball :
  (let '(x, y, z, w2) := rot_of [255; 255; 255] 0 in (x == 1 /\ y == 1 /\ z == 1 /\ w2 == 0)%Q) /\
  (let '(x, y, z, w2) := rot_of [0; 0; 0] 0 in (x == -1 /\ y == -1 /\ z == -1 /\ w2 == 0)%Q) /\
  (let '(x, y, z, w2) := rot_of [255; 127; 127] 0 in (x == 1 /\ y == - (1 # 255) /\ z == - (1 # 255) /\ w2 == 0)%Q).
Proof. vm_compute. repeat split; reflexivity. Qed.
