(* C15, round 4 additions to the .splat model (formats/splat/write.go, the checks before the record loop).
   Executable model, no proofs.  Kept apart from Formats/Splat.v, which C14 imports. *)
From PF Require Import Base.Bytes Formats.Splat.
From Coq Require Import String.
Open Scope string_scope.

(* write.go:18-40.  A mesh whose attribute length is 0 writes nothing and reports no error (whatever its topology);
   otherwise the topology must be the point topology and the five attributes must be present (with their arity:
   Position, Scale, FDC are Float3, Opacity Float1, Rotation Float4), else an error and nothing written. *)
Definition required_attrs : list string := ["Position"; "Scale"; "FDC"; "Opacity"; "Rotation"].
Inductive wres := WNothing | WError | WRecords.
Definition write_guard (point : bool) (n : nat) (present : list string) : wres :=
  if Nat.eqb n 0 then WNothing
  else if negb point then WError
  else if forallb (has present) required_attrs then WRecords else WError.
