(* C05: proofs about the OBJ line-level model (Formats/Obj.v). *)
From PF Require Import Base.Bytes Formats.Obj.
From Coq Require Import String.
Open Scope nat_scope.

Definition read := read_gen cfg_full.

(* ---------- concrete witnesses for the four repaired defects ---------- *)
Definition t3 : list vec3 := [(0, 0, 0); (1, 0, 0); (0, 1, 0)]%N.
Definition mesh_plain : mesh :=
  {| m_name := ["a"%string]; m_idx := [0; 1; 2]; m_pos := t3; m_uv := []; m_nrm := []; m_mats := [] |}.
Definition mesh_nrm : mesh :=
  {| m_name := ["b"%string]; m_idx := [2; 1; 0]; m_pos := t3; m_uv := []; m_nrm := t3; m_mats := [] |}.

Lemma shared_offset_refuted :
  wf_list [mesh_plain; mesh_nrm] = true /\
  (exists ls, write_pinned None [mesh_plain; mesh_nrm] = Ok ls /\ read ls = Crash) /\
  (exists ls gs, write None [mesh_plain; mesh_nrm] = Ok ls /\ read ls = Ok (gs, []) /\
                 map obs gs = map obs_written [mesh_plain; mesh_nrm]).
Proof.
  split; [reflexivity|]. split.
  - eexists. split; [vm_compute; reflexivity|]. vm_compute. reflexivity.
  - eexists. eexists. split; [vm_compute; reflexivity|]. split; vm_compute; reflexivity.
Qed.

Definition c1 (v : Z) : corner := (v, None, None).
Definition quad : list line := [V (0, 0, 0); V (1, 0, 0); V (0, 1, 0); V (1, 1, 0); VN (0, 0, 1)]%N.
Definition file_two_groups : list line :=
  quad ++ [G ["a"%string]; UseMtl ["m1"%string]; F (c1 1) (c1 2) (c1 3);
           G ["b"%string]; UseMtl ["m2"%string]; F (c1 2) (c1 3) (c1 4)].
Definition file_default_group : list line :=
  quad ++ [F (c1 1) (c1 2) (c1 3); G ["a"%string]; F (c1 2) (c1 3) (c1 4)].
Definition cn (v : Z) : corner := (v, None, Some 1%Z).
Definition file_mixed_forms : list line :=
  quad ++ [G ["a"%string]; F (cn 1) (cn 2) (cn 3); F (c1 2) (c1 3) (c1 4)].

(* load, save, load with a given reader configuration *)
Definition resave (cfg : rcfg) (file : list line) : res (list gobs) :=
  dor '(gs, _) <- read_gen cfg file;
  dor ls <- write None gs;
  dor '(gs', _) <- read_gen cfg ls;
  Ok (map obs gs').

Lemma group_material_refuted :
  valid file_two_groups = true /\
  resave cfg_pinned file_two_groups = Crash /\
  resave cfg_full file_two_groups = Ok (file_groups file_two_groups).
Proof. split; [reflexivity|]. split; vm_compute; reflexivity. Qed.

Lemma bare_group_refuted :
  valid file_default_group = true /\
  resave cfg_f82 file_default_group = Declared /\
  resave cfg_full file_default_group = Ok (file_groups file_default_group).
Proof. split; [reflexivity|]. split; vm_compute; reflexivity. Qed.

Lemma mixed_forms_refuted :
  valid file_mixed_forms = true /\
  resave {| close_at_g := true; bare_g := true; drop_partial := false |} file_mixed_forms = Crash /\
  resave cfg_full file_mixed_forms = Ok (file_groups file_mixed_forms).
Proof. split; [reflexivity|]. split; vm_compute; reflexivity. Qed.
