(* C05: proofs about the OBJ line-level model (Formats/Obj.v). *)
From Coq Require Import String.
From PF Require Import Base.Bytes Formats.Obj.
Open Scope nat_scope.

Definition read := read_gen cfg_full.

(* ---------- concrete witnesses for the four repaired defects ---------- *)
Definition t3 : list vec3 := [(0, 0, 0); (1, 0, 0); (0, 1, 0)]%N.
Definition mesh_plain : mesh :=
  {| m_name := ["a"%string]; m_idx := [0; 1; 2]; m_pos := t3; m_uv := []; m_nrm := []; m_mats := [] |}.
Definition mesh_nrm : mesh :=
  {| m_name := ["b"%string]; m_idx := [2; 1; 0]; m_pos := t3; m_uv := []; m_nrm := t3; m_mats := [] |}.

Lemma shared_offset_refuted :
  wf_list [mesh_plain; mesh_nrm] = true /\
  (exists ls, write_pinned None [mesh_plain; mesh_nrm] = Ok ls /\ read ls = Crash) /\
  (exists ls gs, write None [mesh_plain; mesh_nrm] = Ok ls /\ read ls = Ok (gs, []) /\
                 map obs gs = map obs_written [mesh_plain; mesh_nrm]).
Proof.
  split; [reflexivity|]. split.
  - eexists. split; [vm_compute; reflexivity|]. vm_compute. reflexivity.
  - eexists. eexists. split; [vm_compute; reflexivity|]. split; vm_compute; reflexivity.
Qed.

Definition c1 (v : Z) : corner := (v, None, None).
Definition quad : list line := [V (0, 0, 0); V (1, 0, 0); V (0, 1, 0); V (1, 1, 0); VN (0, 0, 1)]%N.
Definition file_two_groups : list line :=
  quad ++ [G ["a"%string]; UseMtl ["m1"%string]; F (c1 1) (c1 2) (c1 3);
           G ["b"%string]; UseMtl ["m2"%string]; F (c1 2) (c1 3) (c1 4)].
Definition file_default_group : list line :=
  quad ++ [F (c1 1) (c1 2) (c1 3); G ["a"%string]; F (c1 2) (c1 3) (c1 4)].
Definition cn (v : Z) : corner := (v, None, Some 1%Z).
Definition file_mixed_forms : list line :=
  quad ++ [G ["a"%string]; F (cn 1) (cn 2) (cn 3); F (c1 2) (c1 3) (c1 4)].

(* load, save, load with a given reader configuration *)
Definition resave (cfg : rcfg) (file : list line) : res (list gobs) :=
  dor '(gs, _) <- read_gen cfg file;
  dor ls <- write None gs;
  dor '(gs', _) <- read_gen cfg ls;
  Ok (map obs gs').

Lemma group_material_refuted :
  valid file_two_groups = true /\
  resave cfg_pinned file_two_groups = Crash /\
  resave cfg_full file_two_groups = Ok (file_groups file_two_groups).
Proof. split; [reflexivity|]. split; vm_compute; reflexivity. Qed.

Lemma bare_group_refuted :
  valid file_default_group = true /\
  resave cfg_f82 file_default_group = Declared /\
  resave cfg_full file_default_group = Ok (file_groups file_default_group).
Proof. split; [reflexivity|]. split; vm_compute; reflexivity. Qed.

Lemma mixed_forms_refuted :
  valid file_mixed_forms = true /\
  resave {| close_at_g := true; bare_g := true; drop_partial := false |} file_mixed_forms = Crash /\
  resave cfg_full file_mixed_forms = Ok (file_groups file_mixed_forms).
Proof. split; [reflexivity|]. split; vm_compute; reflexivity. Qed.

(* ====================================================================================== *)
(* Part A: the reader computes the direct semantics on every valid line list               *)
(* ====================================================================================== *)
From Coq Require Import ZifyNat ZifyBool.

Lemma oz_eqb_eq a b : oz_eqb a b = true -> a = b.
Proof. destruct a, b; simpl; try congruence. intros H. apply Z.eqb_eq in H. congruence. Qed.
Lemma oz_eqb_refl a : oz_eqb a a = true.
Proof. destruct a; simpl; auto. apply Z.eqb_refl. Qed.
Lemma corner_eqb_eq a b : corner_eqb a b = true -> a = b.
Proof.
  destruct a as [[v t] n], b as [[v' t'] n']. unfold corner_eqb.
  rewrite !andb_true_iff. intros [[H1 H2] H3].
  apply Z.eqb_eq in H1. apply oz_eqb_eq in H2. apply oz_eqb_eq in H3. congruence.
Qed.
Lemma corner_eqb_refl a : corner_eqb a a = true.
Proof. destruct a as [[v t] n]. unfold corner_eqb. rewrite Z.eqb_refl, !oz_eqb_refl. reflexivity. Qed.

Lemma find_idx_some c l p : find_idx corner_eqb c l = Some p -> nth_error l p = Some c.
Proof.
  revert p. induction l as [|y r IH]; simpl; intros p H; [discriminate|].
  destruct (corner_eqb c y) eqn:E.
  - apply corner_eqb_eq in E. injection H as <-. subst. reflexivity.
  - destruct (find_idx corner_eqb c r); simpl in H; [|discriminate].
    injection H as <-. simpl. apply IH. reflexivity.
Qed.

Lemma nth_error_app_some {A} (l e : list A) p x : nth_error l p = Some x -> nth_error (l ++ e) p = Some x.
Proof. intros H. rewrite nth_error_app1; auto. apply nth_error_Some. congruence. Qed.

Lemma map_nth_error_app {A} (l e : list A) ps xs :
  map (nth_error l) ps = map Some xs -> map (nth_error (l ++ e)) ps = map Some xs.
Proof.
  revert xs. induction ps as [|p ps IH]; intros [|x xs] H; simpl in *; try discriminate; auto.
  injection H as H1 H2. f_equal; auto. apply nth_error_app_some; auto.
Qed.

(* table lookups *)
Lemma look_ok {A} (tbl : list A) z : idx_ok (length tbl) z = true ->
  exists x, look tbl z = Ok (Some x) /\ slook tbl (Some z) = Some x.
Proof.
  unfold idx_ok, look, slook. rewrite andb_true_iff. intros [H1 H2].
  apply Z.leb_le in H1. apply Z.leb_le in H2.
  destruct (z - 1 =? -1)%Z eqn:E1; [lia|]. destruct (z - 1 <? 0)%Z eqn:E2; [lia|].
  destruct (z <=? 0)%Z eqn:E3; [lia|].
  destruct (nth_error tbl (Z.to_nat (z - 1))) eqn:E.
  - eauto.
  - apply nth_error_None in E. lia.
Qed.
Lemma look_opt_ok {A} (tbl : list A) o : oidx_ok (length tbl) o = true -> look_opt tbl o = Ok (slook tbl o).
Proof.
  destruct o as [z|]; simpl; auto. intros H. destruct (look_ok tbl z H) as (x & H1 & H2).
  unfold slook in H2. rewrite H1, H2. reflexivity.
Qed.
Lemma slook_app {A} (l e : list A) o : oidx_ok (length l) o = true -> slook (l ++ e) o = slook l o.
Proof.
  destruct o as [z|]; simpl; auto. unfold idx_ok. rewrite andb_true_iff. intros [H1 H2].
  apply Z.leb_le in H1. apply Z.leb_le in H2. destruct (z <=? 0)%Z; auto.
  apply nth_error_app1. lia.
Qed.
Lemma idx_ok_mono n m z : n <= m -> idx_ok n z = true -> idx_ok m z = true.
Proof. unfold idx_ok. rewrite !andb_true_iff, !Z.leb_le. lia. Qed.
Lemma oidx_ok_mono n m o : n <= m -> oidx_ok n o = true -> oidx_ok m o = true.
Proof. destruct o; simpl; auto. apply idx_ok_mono. Qed.
Lemma corner_ok_mono a b c a' b' c' x : a <= a' -> b <= b' -> c <= c' ->
  corner_ok a b c x = true -> corner_ok a' b' c' x = true.
Proof.
  destruct x as [[v t] n]. unfold corner_ok. rewrite !andb_true_iff. intros ? ? ? [[? ?] ?].
  repeat split; eauto using idx_ok_mono, oidx_ok_mono.
Qed.
