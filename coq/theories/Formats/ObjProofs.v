(* C05: proofs about the OBJ line-level model (Formats/Obj.v).
   Part A: on every valid (triangulated, in-range) line list the reader computes the direct semantics
           [file_groups] and returns well-formed meshes.
   Part B: on every well-formed mesh list the writer produces a valid line list whose direct semantics is the
           observation of the meshes (induction over the mesh list, running v / vt / vn offsets as invariant).
   Part C: the two headline theorems (write -> read, load -> save -> load) and the refutation witnesses. *)
From Coq Require Import String.
From PF Require Import Base.Bytes Formats.Obj.
From Coq Require Import ZifyNat ZifyBool.
Open Scope nat_scope.

Definition read := read_gen cfg_full.

(* ====================================================================================== *)
(* generic list facts                                                                      *)
(* ====================================================================================== *)
Definition compact {A} (l : list (option A)) : list A := flat_map opt_list l.
Definition is_some {A} (o : option A) : bool := match o with Some _ => true | None => false end.

Lemma compact_app {A} (a b : list (option A)) : compact (a ++ b) = compact a ++ compact b.
Proof. apply flat_map_app. Qed.
Lemma compact_length_le {A} (l : list (option A)) : length (compact l) <= length l.
Proof. induction l as [|[x|] l IH]; simpl; lia. Qed.
Lemma compact_full {A} (l : list (option A)) : length (compact l) = length l -> map Some (compact l) = l.
Proof.
  induction l as [|[x|] l IH]; simpl; intros H; auto.
  - f_equal. apply IH. lia.
  - pose proof (compact_length_le l). lia.
Qed.
Lemma compact_full_eqb {A} (l : list (option A)) : (length (compact l) =? length l) = forallb is_some l.
Proof.
  induction l as [|[x|] l IH]; simpl; auto.
  pose proof (compact_length_le l). apply Nat.eqb_neq. lia.
Qed.
Lemma nth_error_nth_map {A} (l : list A) p : nth_error l p = nth p (map Some l) None.
Proof. revert p. induction l; destruct p; simpl; auto. Qed.
Lemma nth_map_nth_error {A B} (f : A -> B) l p x d : nth_error l p = Some x -> nth p (map f l) d = f x.
Proof. revert p. induction l; destruct p; simpl; intros H; try discriminate; auto. congruence. Qed.
Lemma nth_error_app_some {A} (l e : list A) p x : nth_error l p = Some x -> nth_error (l ++ e) p = Some x.
Proof. intros H. rewrite nth_error_app1; auto. apply nth_error_Some. congruence. Qed.

(* an attribute column kept only when complete: what [to_mesh] does under [drop_partial] *)
Lemma kept_nth {A} (col : list (option A)) p :
  nth_error (keep_full true (length col) (compact col)) p
  = if forallb is_some col then nth p col None else None.
Proof.
  unfold keep_full. rewrite compact_full_eqb. destruct (forallb is_some col) eqn:E.
  - rewrite nth_error_nth_map, compact_full; auto.
    apply Nat.eqb_eq. rewrite compact_full_eqb. exact E.
  - destruct p; reflexivity.
Qed.

Lemma forallb_cover {A} (f : A -> bool) (cts : list A) (tris : list nat) d :
  (forall p, In p tris -> p < length cts) -> (forall p, p < length cts -> In p tris) ->
  forallb f (map (fun p => nth p cts d) tris) = forallb f cts.
Proof.
  intros Hlt Hcov. apply eq_iff_eq_true. rewrite !forallb_forall. split; intros H x Hx.
  - destruct (In_nth _ _ d Hx) as (p & Hp & <-). apply H. apply in_map_iff. eauto.
  - apply in_map_iff in Hx. destruct Hx as (p & <- & Hp). apply H. apply nth_In. auto.
Qed.

Lemma in_firstn' {A} n : forall (l : list A) x, In x (firstn n l) -> In x l.
Proof. induction n; destruct l; simpl; intuition. Qed.
Lemma in_skipn' {A} n : forall (l : list A) x, In x (skipn n l) -> In x l.
Proof. induction n; destruct l; simpl; intuition. Qed.
Lemma skipn_add {A} a : forall b (l : list A), skipn a (skipn b l) = skipn (b + a) l.
Proof. induction b; destruct l; simpl; auto. destruct a; reflexivity. Qed.
Lemma repeat_snoc {A} (x : A) n : repeat x (S n) = repeat x n ++ [x].
Proof. induction n; simpl in *; congruence. Qed.
Lemma map_repeat {A B} (f : A -> B) x n : map f (repeat x n) = repeat (f x) n.
Proof. induction n; simpl; congruence. Qed.

(* ====================================================================================== *)
(* corner tokens and table lookups                                                         *)
(* ====================================================================================== *)
Lemma oz_eqb_eq a b : oz_eqb a b = true -> a = b.
Proof. destruct a, b; simpl; try congruence. intros H. apply Z.eqb_eq in H. congruence. Qed.
Lemma corner_eqb_eq a b : corner_eqb a b = true -> a = b.
Proof.
  destruct a as [[[v t] n] s], b as [[[v' t'] n'] s']. unfold corner_eqb.
  rewrite !andb_true_iff. intros [[[H1 H2] H3] H4].
  apply Z.eqb_eq in H1. apply oz_eqb_eq in H2. apply oz_eqb_eq in H3. apply N.eqb_eq in H4. congruence.
Qed.

Lemma find_idx_some c l p : find_idx corner_eqb c l = Some p -> nth_error l p = Some c.
Proof.
  revert p. induction l as [|y r IH]; simpl; intros p H; [discriminate|].
  destruct (corner_eqb c y) eqn:E.
  - apply corner_eqb_eq in E. injection H as <-. subst. reflexivity.
  - destruct (find_idx corner_eqb c r); simpl in H; [|discriminate].
    injection H as <-. simpl. apply IH. reflexivity.
Qed.

Lemma look_ok {A} (tbl : list A) z : idx_ok (length tbl) z = true ->
  exists x, look tbl z = Ok (Some x) /\ slook tbl (Some z) = Some x.
Proof.
  unfold idx_ok, look, slook. rewrite andb_true_iff. intros [H1 H2].
  apply Z.leb_le in H1. apply Z.leb_le in H2.
  destruct (z - 1 =? -1)%Z eqn:E1; [lia|]. destruct (z - 1 <? 0)%Z eqn:E2; [lia|].
  destruct (z <=? 0)%Z eqn:E3; [lia|].
  destruct (nth_error tbl (Z.to_nat (z - 1))) eqn:E.
  - eauto.
  - apply nth_error_None in E. lia.
Qed.
Lemma look_req_ok {A} (tbl : list A) z : idx_ok (length tbl) z = true ->
  exists x, look_req tbl z = Ok x /\ slook tbl (Some z) = Some x.
Proof.
  intros H. destruct (look_ok tbl z H) as (x & H1 & H2). exists x. split; auto.
  unfold look_req. rewrite H1. reflexivity.
Qed.
Lemma look_opt_ok {A} (tbl : list A) o : oidx_ok (length tbl) o = true -> look_opt tbl o = Ok (slook tbl o).
Proof.
  destruct o as [z|]; simpl; auto. intros H. destruct (look_ok tbl z H) as (x & H1 & H2).
  unfold slook in H2. rewrite H1, H2. reflexivity.
Qed.
Lemma slook_app {A} (l e : list A) o : oidx_ok (length l) o = true -> slook (l ++ e) o = slook l o.
Proof.
  destruct o as [z|]; simpl; auto. unfold idx_ok. rewrite andb_true_iff. intros [H1 H2].
  apply Z.leb_le in H1. apply Z.leb_le in H2. destruct (z <=? 0)%Z; auto.
  apply nth_error_app1. lia.
Qed.
Lemma idx_ok_mono n m z : n <= m -> idx_ok n z = true -> idx_ok m z = true.
Proof. unfold idx_ok. rewrite !andb_true_iff, !Z.leb_le. lia. Qed.
Lemma oidx_ok_mono n m o : n <= m -> oidx_ok n o = true -> oidx_ok m o = true.
Proof. destruct o; simpl; auto. apply idx_ok_mono. Qed.
Lemma corner_ok_mono a b c a' b' c' x : a <= a' -> b <= b' -> c <= c' ->
  corner_ok a b c x = true -> corner_ok a' b' c' x = true.
Proof.
  destruct x as [[[v t] n] s]. unfold corner_ok. rewrite !andb_true_iff. intros ? ? ? [[? ?] ?].
  repeat split; eauto using idx_ok_mono, oidx_ok_mono.
Qed.

(* ====================================================================================== *)
(* Part A: simulation between the reader state and the direct semantics                    *)
(* ====================================================================================== *)
Definition cpos (c : content) : option vec3 := fst (fst c).
Definition cuv (c : content) : option vec2 := snd (fst c).
Definition cnrm (c : content) : option vec3 := snd c.
Definition dcontent : content := (None, None, None).
Definition dtag (t : option name) : option name :=
  match t with Some n => Some n | None => Some default_name end.

(* the content of a corner depends on the three tables only *)
Definition tcontent (tv : list vec3) (tt : list vec2) (tn : list vec3) (c : corner) : content :=
  let '(v, vt, vn, _) := c in (slook tv (Some v), slook tt vt, slook tn vn).
Lemma scontent_t s c : scontent s c = tcontent (s_v s) (s_vt s) (s_vn s) c.
Proof. reflexivity. Qed.

Section Tables.
Variables (tv : list vec3) (tt : list vec2) (tn : list vec3).
Let ok (c : corner) : Prop := corner_ok (length tv) (length tt) (length tn) c = true.
Let ct := tcontent tv tt tn.

Record tinv (g : wgeom) : Prop := {
  t_ok : Forall ok (w_tbl g);
  t_pos : w_pos g = compact (map (fun c => cpos (ct c)) (w_tbl g));
  t_uv : w_uv g = compact (map (fun c => cuv (ct c)) (w_tbl g));
  t_nrm : w_nrm g = compact (map (fun c => cnrm (ct c)) (w_tbl g)) }.

Lemma ok_pos c : ok c -> is_some (cpos (ct c)) = true.
Proof.
  destruct c as [[[v t] n] s]. unfold ok, corner_ok, ct, tcontent, cpos. rewrite !andb_true_iff.
  intros [[H _] _]. destruct (look_ok tv v H) as (x & _ & ->). reflexivity.
Qed.

Lemma corner_step_ok r g c :
  r_v r = tv -> r_vt r = tt -> r_vn r = tn -> tinv g -> ok c ->
  exists g' p, corner_step r g c = Ok (g', p) /\ tinv g' /\
    w_name g' = w_name g /\ w_tris g' = w_tris g /\ w_mats g' = w_mats g /\
    nth_error (w_tbl g') p = Some c /\
    (exists e, w_tbl g' = w_tbl g ++ e) /\
    (length (w_tbl g') = length (w_tbl g)
     \/ (length (w_tbl g') = S (length (w_tbl g)) /\ p = length (w_tbl g))).
Proof.
  intros Hv Ht Hn [I1 I2 I3 I4] Hc. unfold corner_step.
  destruct (find_idx corner_eqb c (w_tbl g)) as [p|] eqn:E.
  - exists g, p. repeat split; auto. + apply find_idx_some; auto. + exists []. now rewrite app_nil_r.
  - pose proof Hc as Hc'. destruct c as [[[v t] n] s]. unfold ok, corner_ok in Hc'.
    rewrite !andb_true_iff in Hc'. destruct Hc' as [[H1 H2] H3].
    rewrite Hv, Ht, Hn.
    destruct (look_req_ok tv v H1) as (x & Hx & Hsx). rewrite Hx. cbn [rbind].
    rewrite (look_opt_ok tn n H3), (look_opt_ok tt t H2). cbn [rbind].
    eexists. eexists. split; [reflexivity|].
    repeat split; cbn [w_name w_tbl w_tris w_pos w_uv w_nrm w_mats]; auto.
    + apply Forall_app. split; auto.
    + rewrite map_app, compact_app, <- I2. f_equal. unfold compact, cpos, ct, tcontent. cbn [map flat_map fst snd]. rewrite Hsx. reflexivity.
    + rewrite map_app, compact_app, <- I3. f_equal. cbn. now rewrite app_nil_r.
    + rewrite map_app, compact_app, <- I4. f_equal. cbn. now rewrite app_nil_r.
    + rewrite nth_error_app2, Nat.sub_diag; auto.
    + eauto.
    + right. rewrite app_length. simpl. lia.
Qed.
End Tables.

Lemma tcontent_app tv tt tn ev et en c :
  corner_ok (length tv) (length tt) (length tn) c = true ->
  tcontent (tv ++ ev) (tt ++ et) (tn ++ en) c = tcontent tv tt tn c.
Proof.
  destruct c as [[[v t] n] s]. unfold corner_ok, tcontent. rewrite !andb_true_iff. intros [[H1 H2] H3].
  rewrite (slook_app tv ev (Some v)), (slook_app tt et t), (slook_app tn en n); auto.
Qed.

Lemma tinv_app tv tt tn ev et en g : tinv tv tt tn g -> tinv (tv ++ ev) (tt ++ et) (tn ++ en) g.
Proof.
  intros [I1 I2 I3 I4].
  assert (E : forall T (f : content -> T), map (fun c => f (tcontent (tv ++ ev) (tt ++ et) (tn ++ en) c)) (w_tbl g)
              = map (fun c => f (tcontent tv tt tn c)) (w_tbl g)).
  { intros T f. apply map_ext_in. intros c Hc. rewrite tcontent_app; auto.
    rewrite Forall_forall in I1. auto. }
  constructor.
  - eapply Forall_impl; [|exact I1]. intros c. apply corner_ok_mono; rewrite app_length; lia.
  - rewrite E. auto.
  - rewrite E. auto.
  - rewrite E. auto.
Qed.

(* ---------- material bookkeeping ---------- *)
Lemma set_last_snoc init c0 a c : set_last (init ++ [(c0, a)]) c = init ++ [(c, a)].
Proof.
  induction init as [|x r IH]; [reflexivity|].
  change ((x :: r) ++ [(c0, a)]) with (x :: (r ++ [(c0, a)])).
  change ((x :: r) ++ [(c, a)]) with (x :: (r ++ [(c, a)])).
  remember (r ++ [(c0, a)]) as t eqn:E. destruct t as [|y q].
  - destruct r; discriminate.
  - rewrite <- IH. destruct x. reflexivity.
Qed.
Lemma tri_mats_app a b : tri_mats (a ++ b) = tri_mats a ++ tri_mats b.
Proof. apply flat_map_app. Qed.
Lemma tri_mats_one c a : tri_mats [(c, a)] = repeat a c.
Proof. unfold tri_mats. simpl. apply app_nil_r. Qed.
Lemma tri_mats_length m : length (tri_mats m) = sum_counts m.
Proof. induction m as [|[c a] m IH]; simpl; auto. rewrite app_length, repeat_length. simpl. f_equal. exact IH. Qed.
Lemma forallb_map {A B} (f : B -> bool) (g : A -> B) l : forallb f (map g l) = forallb (fun x => f (g x)) l.
Proof. induction l; simpl; congruence. Qed.
Lemma forallb_ext' {A} (f g : A -> bool) l : (forall x, f x = g x) -> forallb f l = forallb g l.
Proof. intros H. induction l; simpl; congruence. Qed.
Lemma has_uv_is c : has_uv c = is_some (cuv c).
Proof. destruct c as [[p [u|]] n]; reflexivity. Qed.
Lemma has_nrm_is c : has_nrm c = is_some (cnrm c).
Proof. destruct c as [[p u] [n|]]; reflexivity. Qed.
Lemma keep_full_len {A} n (l : list A) :
  (length (keep_full true n l) =? 0) || (length (keep_full true n l) =? n) = true.
Proof.
  unfold keep_full. destruct (length l =? n) eqn:E.
  - apply Nat.eqb_eq in E. rewrite E, Nat.eqb_refl. apply orb_true_r.
  - reflexivity.
Qed.

(* ---------- the group invariant ---------- *)
Record ginv (tv : list vec3) (tt : list vec2) (tn : list vec3)
            (nm : name) (cs : list content) (tg : list (option name)) (cur : option name)
            (g : wgeom) (since : nat) : Prop := {
  g_t : tinv tv tt tn g;
  g_name : w_name g = nm;
  g_cs : cs = map (fun p => nth p (map (tcontent tv tt tn) (w_tbl g)) dcontent) (w_tris g);
  g_lt : forall p, In p (w_tris g) -> p < length (w_tbl g);
  g_cov : forall p, p < length (w_tbl g) -> In p (w_tris g);
  g_len : length (w_tris g) = 3 * length tg;
  g_matok : forallb mat_ok (w_mats g) = true;
  g_mats : match cur with
           | None => w_mats g = [] /\ tg = repeat None since
           | Some n => nonnil n = true /\ exists init, w_mats g = init ++ [(0, Some n)] /\
                       map dtag tg = tri_mats init ++ repeat (Some n) since
           end }.

Lemma ginv_app tv tt tn ev et en nm cs tg cur g since :
  ginv tv tt tn nm cs tg cur g since -> ginv (tv ++ ev) (tt ++ et) (tn ++ en) nm cs tg cur g since.
Proof.
  intros [I1 I2 I3 I4 I5 I6 I7 I8]. constructor; auto.
  - apply tinv_app; auto.
  - rewrite I3. apply map_ext. intros p. f_equal. apply map_ext_in. intros c Hc.
    rewrite tcontent_app; auto. destruct I1 as [I1 _ _ _]. rewrite Forall_forall in I1. auto.
Qed.

Lemma ginv_fresh tv tt tn n : ginv tv tt tn n [] [] None (wnew n []) 0.
Proof.
  constructor; cbn; auto.
  - constructor; cbn; auto.
  - intros p [].
  - intros p H. lia.
Qed.

Lemma face_step_ok tv tt tn nm cs tg cur r a b c :
  r_v r = tv -> r_vt r = tt -> r_vn r = tn ->
  ginv tv tt tn nm cs tg cur (r_w r) (r_since r) ->
  corner_ok (length tv) (length tt) (length tn) a = true ->
  corner_ok (length tv) (length tt) (length tn) b = true ->
  corner_ok (length tv) (length tt) (length tn) c = true ->
  exists r', face_step r a b c = Ok r' /\ r_v r' = tv /\ r_vt r' = tt /\ r_vn r' = tn /\
    r_done r' = r_done r /\ r_libs r' = r_libs r /\
    ginv tv tt tn nm (cs ++ [tcontent tv tt tn a; tcontent tv tt tn b; tcontent tv tt tn c]) (tg ++ [cur]) cur
         (r_w r') (r_since r').
Proof.
  intros Hv Ht Hn [I1 I2 I3 I4 I5 I6 I7 I8] Ha Hb Hc.
  destruct (corner_step_ok tv tt tn r (r_w r) a Hv Ht Hn I1 Ha)
    as (g1 & p1 & E1 & T1 & N1 & R1 & M1 & X1 & (e1 & P1) & L1).
  destruct (corner_step_ok tv tt tn r g1 b Hv Ht Hn T1 Hb)
    as (g2 & p2 & E2 & T2 & N2 & R2 & M2 & X2 & (e2 & P2) & L2).
  destruct (corner_step_ok tv tt tn r g2 c Hv Ht Hn T2 Hc)
    as (g3 & p3 & E3 & T3 & N3 & R3 & M3 & X3 & (e3 & P3) & L3).
  unfold face_step. rewrite E1. cbn [rbind]. rewrite E2. cbn [rbind]. rewrite E3. cbn [rbind].
  eexists. split; [reflexivity|]. cbn [r_v r_vt r_vn r_done r_libs r_w r_since].
  repeat (split; [assumption || reflexivity|]).
  assert (X1' : nth_error (w_tbl g3) p1 = Some a).
  { rewrite P3, P2. apply nth_error_app_some, nth_error_app_some, X1. }
  assert (X2' : nth_error (w_tbl g3) p2 = Some b).
  { rewrite P3. apply nth_error_app_some, X2. }
  assert (B1 : p1 < length (w_tbl g3)) by (apply nth_error_Some; congruence).
  assert (B2 : p2 < length (w_tbl g3)) by (apply nth_error_Some; congruence).
  assert (B3 : p3 < length (w_tbl g3)) by (apply nth_error_Some; congruence).
  assert (LE : length (w_tbl (r_w r)) <= length (w_tbl g3)) by lia.
  constructor; cbn [add_tri w_name w_tbl w_tris w_pos w_uv w_nrm w_mats].
  - destruct T3. constructor; auto.
  - congruence.
  - rewrite map_app. f_equal.
    + rewrite I3, R3, R2, R1. apply map_ext_in. intros p Hp. apply I4 in Hp.
      rewrite P3, P2, P1, !map_app, !app_nth1; auto; rewrite ?app_length, map_length; lia.
    + cbn [map]. rewrite (nth_map_nth_error _ _ _ _ _ X1'), (nth_map_nth_error _ _ _ _ _ X2'),
        (nth_map_nth_error _ _ _ _ _ X3). reflexivity.
  - intros p Hp. rewrite R3, R2, R1 in Hp. apply in_app_or in Hp. destruct Hp as [Hp|Hp].
    + apply I4 in Hp. lia.
    + simpl in Hp. intuition subst; auto.
  - intros p Hp. rewrite R3, R2, R1. apply in_or_app.
    destruct (Nat.lt_ge_cases p (length (w_tbl (r_w r)))) as [Q|Q]; [left; auto|].
    right. simpl. lia.
  - rewrite R3, R2, R1, !app_length, I6. simpl. lia.
  - congruence.
  - rewrite M3, M2, M1. destruct cur as [n|].
    + destruct I8 as (Hn' & init & Hm & Htg). split; auto. exists init. split; auto.
      rewrite map_app, Htg, repeat_snoc, app_assoc. reflexivity.
    + destruct I8 as (Hm & Htg). split; auto. rewrite Htg, repeat_snoc. reflexivity.
Qed.

(* ---------- closing a group: the mesh handed out has the observation of the direct semantics ---------- *)
Lemma mats_close tg cur mats since :
  forallb mat_ok mats = true ->
  match cur with
  | None => mats = [] /\ tg = repeat None since
  | Some n => nonnil n = true /\ exists init, mats = init ++ [(0, Some n)] /\
              map dtag tg = tri_mats init ++ repeat (Some n) since
  end ->
  let mats' := close_mats since mats in
  tri_mats mats' = final_tags cur tg /\ forallb mat_ok mats' = true /\
  (nonnil mats' = true -> sum_counts mats' = length tg).
Proof.
  intros Hok H. destruct cur as [n|].
  - destruct H as (Hn & init & -> & Htg). cbn zeta.
    assert (E : close_mats since (init ++ [(0, Some n)]) = init ++ [(since, Some n)]).
    { unfold close_mats. destruct (0 <? since) eqn:Q.
      - cbn [andb]. destruct init as [|x r]; [reflexivity|]. cbn [app nonnil].
        apply (set_last_snoc (x :: r)).
      - apply Nat.ltb_ge in Q. simpl. replace since with 0 by lia. reflexivity. }
    rewrite E. assert (T : tri_mats (init ++ [(since, Some n)]) = final_tags (Some n) tg).
    { rewrite tri_mats_app, tri_mats_one. transitivity (map dtag tg); [symmetry; exact Htg|reflexivity]. }
    split; [exact T|]. split.
    + rewrite forallb_app in *. apply andb_true_iff in Hok. destruct Hok as [H1 H2]. rewrite H1. simpl.
      unfold mat_ok. simpl. destruct n; [discriminate|reflexivity].
    + intros _. rewrite <- tri_mats_length, T. unfold final_tags. apply map_length.
  - destruct H as (-> & ->). cbn zeta. unfold close_mats. rewrite andb_false_r. simpl. auto.
    repeat split; auto. discriminate.
Qed.

Lemma close_ok tv tt tn nm cs tg cur g since :
  ginv tv tt tn nm cs tg cur g since ->
  let m := to_mesh cfg_full g (close_mats since (w_mats g)) in
  obs m = (nm, normalise cs, final_tags cur tg) /\ wf_mesh m = true /\ nonnil (m_idx m) = nonnil cs.
Proof.
  intros [[T1 T2 T3 T4] I2 I3 I4 I5 I6 I7 I8]. cbn zeta.
  destruct (mats_close tg cur (w_mats g) since I7 I8) as (M1 & M2 & M3).
  set (ct := tcontent tv tt tn) in *.
  set (cts := map ct (w_tbl g)) in *.
  assert (Lc : length cts = length (w_tbl g)) by apply map_length.
  set (colp := map (fun c => cpos (ct c)) (w_tbl g)) in *.
  set (colu := map (fun c => cuv (ct c)) (w_tbl g)) in *.
  set (coln := map (fun c => cnrm (ct c)) (w_tbl g)) in *.
  assert (Ep : colp = map cpos cts) by (unfold colp, cts; now rewrite map_map).
  assert (Eu : colu = map cuv cts) by (unfold colu, cts; now rewrite map_map).
  assert (En : coln = map cnrm cts) by (unfold coln, cts; now rewrite map_map).
  assert (Fp : forallb is_some colp = true).
  { unfold colp. rewrite forallb_map. apply forallb_forall. intros c Hc.
    rewrite Forall_forall in T1. apply (ok_pos tv tt tn). apply T1. exact Hc. }
  assert (Lp : length (w_pos g) = length (w_tbl g)).
  { rewrite T2. fold colp. transitivity (length colp); [|apply map_length].
    apply Nat.eqb_eq. rewrite compact_full_eqb. exact Fp. }
  assert (Lu : length colu = length (w_tbl g)) by apply map_length.
  assert (Ln : length coln = length (w_tbl g)) by apply map_length.
  split; [|split].
  - unfold obs, to_mesh. cbn [m_name m_mats m_idx m_pos m_uv m_nrm drop_partial cfg_full].
    rewrite I2, M1. f_equal. f_equal.
    unfold corners, corner_content. cbn [m_name m_mats m_idx m_pos m_uv m_nrm].
    unfold normalise. rewrite I3, map_map. fold cts.
    rewrite (forallb_cover has_uv cts (w_tris g) dcontent), (forallb_cover has_nrm cts (w_tris g) dcontent)
      by (rewrite ?Lc; auto).
    apply map_ext. intros p.
    rewrite Lp. rewrite <- Lu at 1. rewrite <- Ln. rewrite T3, T4. fold colu coln.
    rewrite !kept_nth. rewrite T2. fold colp.
    rewrite nth_error_nth_map, compact_full by (apply Nat.eqb_eq; rewrite compact_full_eqb; exact Fp).
    rewrite Ep, Eu, En, !forallb_map.
    change None with (cpos dcontent) at 1. rewrite map_nth.
    change (@None vec2) with (cuv dcontent) at 1. rewrite map_nth.
    change (@None vec3) with (cnrm dcontent) at 1. rewrite map_nth.
    rewrite (forallb_ext' _ _ _ has_uv_is), (forallb_ext' _ _ _ has_nrm_is).
    destruct (nth p cts dcontent) as [[xp xu] xn]. reflexivity.
  - unfold wf_mesh, to_mesh. cbn [m_name m_mats m_idx m_pos m_uv m_nrm drop_partial cfg_full].
    rewrite M2, !keep_full_len, !andb_true_r. rewrite !andb_true_iff. repeat split.
    + apply Nat.eqb_eq. rewrite I6. lia.
    + apply forallb_forall. intros p Hp. apply Nat.ltb_lt. rewrite Lp. auto.
    + destruct (nonnil (close_mats since (w_mats g))) eqn:Q; simpl; auto.
      apply Nat.eqb_eq. rewrite M3, I6; auto.
  - unfold to_mesh. cbn [m_idx]. rewrite I3. destruct (w_tris g); reflexivity.
Qed.

(* ---------- the simulation ---------- *)
Record sim (r : rstate) (s : sstate) : Prop := {
  s_tv : r_v r = s_v s; s_tt : r_vt r = s_vt s; s_tn : r_vn r = s_vn s;
  s_dn : map obs (r_done r) = s_done s;
  s_wf : Forall (fun m => wf_mesh m = true /\ nonnil (m_idx m) = true) (r_done r);
  s_g : ginv (s_v s) (s_vt s) (s_vn s) (s_nm s) (s_cs s) (s_tg s) (s_cur s) (r_w r) (r_since r) }.

Definition vf (s : sstate) (ls : list line) : bool :=
  valid_from (length (s_v s)) (length (s_vt s)) (length (s_vn s)) ls.

Lemma sim_init : sim rinit sinit.
Proof. constructor; cbn; auto. apply ginv_fresh. Qed.

Ltac pj := cbn [sstep set_w set_mats set_name add_tri r_v r_vt r_vn r_done r_w r_since r_libs
                 s_v s_vt s_vn s_done s_nm s_cs s_tg s_cur w_name w_tbl w_tris w_pos w_uv w_nrm w_mats].

Lemma step_ok r s l ls : sim r s -> vf s (l :: ls) = true ->
  exists r', step cfg_full r l = Ok r' /\ sim r' (sstep s l) /\ vf (sstep s l) ls = true /\
             r_libs r' = r_libs r ++ lib_names [l].
Proof.
  intros [Sv St Sn Sd Sw Sg] Hv. unfold vf in *. destruct l; cbn [valid_from] in Hv.
  - (* v *) eexists. split; [reflexivity|]. split; [|split].
    + constructor; cbn; auto; try congruence.
      pose proof (ginv_app _ _ _ [p] [] [] _ _ _ _ _ _ Sg) as H. now rewrite !app_nil_r in H.
    + cbn. rewrite app_length. simpl. now rewrite Nat.add_1_r.
    + cbn. now rewrite app_nil_r.
  - (* vt *) eexists. split; [reflexivity|]. split; [|split].
    + constructor; cbn; auto; try congruence.
      pose proof (ginv_app _ _ _ [] [p] [] _ _ _ _ _ _ Sg) as H. now rewrite !app_nil_r in H.
    + cbn. rewrite app_length. simpl. now rewrite Nat.add_1_r.
    + cbn. now rewrite app_nil_r.
  - (* vn *) eexists. split; [reflexivity|]. split; [|split].
    + constructor; cbn; auto; try congruence.
      pose proof (ginv_app _ _ _ [] [] [p] _ _ _ _ _ _ Sg) as H. now rewrite !app_nil_r in H.
    + cbn. rewrite app_length. simpl. now rewrite Nat.add_1_r.
    + cbn. now rewrite app_nil_r.
  - (* g *) cbn [step cfg_full bare_g close_at_g]. rewrite orb_true_r.
    pose proof (close_ok _ _ _ _ _ _ _ _ _ Sg) as (C1 & C2 & C3). cbn zeta in *.
    assert (NE : nonnil (w_tris (r_w r)) = nonnil (s_cs s)) by exact C3.
    rewrite NE. cbn [sstep]. destruct (nonnil (s_cs s)) eqn:Q.
    + eexists. split; [reflexivity|]. split; [|split].
      * constructor; cbn [r_v r_vt r_vn r_done r_w r_since s_v s_vt s_vn s_done s_nm s_cs s_tg s_cur]; auto.
        -- rewrite map_app, Sd. cbn [map]. f_equal. f_equal. exact C1.
        -- apply Forall_app. split; [exact Sw|]. constructor; [|constructor].
           split; [exact C2|exact C3].
        -- apply ginv_fresh.
      * exact Hv.
      * cbn. now rewrite app_nil_r.
    + eexists. split; [reflexivity|]. split; [|split].
      * constructor; cbn [set_w r_v r_vt r_vn r_done r_w r_since s_v s_vt s_vn s_done s_nm s_cs s_tg s_cur]; auto.
        destruct Sg as [[T1 T2 T3 T4] I2 I3 I4 I5 I6 I7 I8]. constructor; auto. constructor; auto.
      * exact Hv.
      * cbn. now rewrite app_nil_r.
  - (* usemtl *) apply andb_true_iff in Hv. destruct Hv as [Hn Hv]. cbn [step]. rewrite Hn.
    eexists. split; [reflexivity|]. split; [|split]; [|exact Hv|cbn; now rewrite app_nil_r].
    constructor; pj; auto. destruct Sg as [I1 I2 I3 I4 I5 I6 I7 I8].
    constructor; pj; auto.
    + destruct I1. constructor; auto.
    + rewrite forallb_app. apply andb_true_iff. split.
      * destruct (0 <? r_since r); auto. destruct (nonnil (w_mats (r_w r))) eqn:Q; [|reflexivity].
        destruct (s_cur s) as [m|].
        -- destruct I8 as (Hm & init & E & _). rewrite E in *. rewrite set_last_snoc.
           rewrite forallb_app in *. apply andb_true_iff in I7. destruct I7 as [-> I7]. exact I7.
        -- destruct I8 as (E & _). rewrite E in Q. discriminate.
      * cbn. unfold mat_ok. cbn. destruct n; [discriminate|reflexivity].
    + split; auto. eexists. split; [reflexivity|]. cbn [repeat]. rewrite app_nil_r.
      destruct (s_cur s) as [m|].
      * destruct I8 as (Hm & init & E & Htg). rewrite E. destruct (0 <? r_since r) eqn:Q.
        -- assert (NN : nonnil (init ++ [(0, Some m)]) = true) by (destruct init; reflexivity).
           transitivity (tri_mats (init ++ [(r_since r, Some m)])).
           ++ rewrite tri_mats_app, tri_mats_one. exact Htg.
           ++ f_equal. destruct init as [|x q]; [reflexivity|]. cbn [app nonnil].
              symmetry. apply (set_last_snoc (x :: q)).
        -- apply Nat.ltb_ge in Q. rewrite tri_mats_app, tri_mats_one. replace (r_since r) with 0 in Htg by lia.
           exact Htg.
      * destruct I8 as (E & Htg). rewrite E, Htg, map_repeat. cbn [nonnil dtag].
        destruct (0 <? r_since r) eqn:Q.
        -- now rewrite tri_mats_one.
        -- apply Nat.ltb_ge in Q. replace (r_since r) with 0 by lia. reflexivity.
  - (* f *) rewrite !andb_true_iff in Hv. destruct Hv as [[[Ha Hb] Hc] Hv].
    destruct (face_step_ok _ _ _ _ _ _ _ r a b c Sv St Sn Sg Ha Hb Hc)
      as (r' & E & V1 & V2 & V3 & D & L & G').
    exists r'. split; [exact E|]. split; [|split]; cbn; auto; [|now rewrite app_nil_r].
    constructor; cbn; auto; congruence.
  - discriminate.
  - discriminate.
  - (* mtllib *) apply andb_true_iff in Hv. destruct Hv as [Hn Hv]. cbn [step]. rewrite Hn.
    eexists. split; [reflexivity|]. split; [|split]; cbn; auto; [|now rewrite app_nil_r].
    constructor; cbn; auto.
  - eexists. split; [reflexivity|]. split; [|split]; cbn; auto; [|now rewrite app_nil_r]. constructor; auto.
  - eexists. split; [reflexivity|]. split; [|split]; cbn; auto; [|now rewrite app_nil_r]. constructor; auto.
Qed.

Lemma lib_names_cons l ls : lib_names (l :: ls) = lib_names [l] ++ lib_names ls.
Proof. unfold lib_names. cbn. now rewrite app_nil_r. Qed.

Lemma run_ok ls : forall r s, sim r s -> vf s ls = true ->
  exists r', run cfg_full r ls = Ok r' /\ sim r' (srun s ls) /\ r_libs r' = r_libs r ++ lib_names ls.
Proof.
  induction ls as [|l ls IH]; intros r s S Hv.
  - exists r. cbn. rewrite app_nil_r. auto.
  - destruct (step_ok r s l ls S Hv) as (r1 & E1 & S1 & V1 & L1).
    destruct (IH r1 _ S1 V1) as (r2 & E2 & S2 & L2).
    exists r2. cbn [run srun fold_left]. rewrite E1. cbn [rbind]. split; [exact E2|]. split; [exact S2|].
    rewrite L2, L1, (lib_names_cons l ls), app_assoc. reflexivity.
Qed.

Lemma nonempty_but_last_snoc ms m :
  Forall (fun x => nonnil (m_idx x) = true) ms -> nonempty_but_last (ms ++ [m]) = true.
Proof.
  induction ms as [|x r IH]; intros H; [reflexivity|].
  inversion H as [|? ? Hx Hr]; subst. cbn [app]. specialize (IH Hr).
  remember (r ++ [m]) as t eqn:E. destruct t; [destruct r; discriminate|].
  cbn [nonempty_but_last]. rewrite Hx. exact IH.
Qed.

(* Part A, headline: the reader computes the direct semantics of every valid file, and what it returns is a
   well-formed mesh list (the precondition of the writer theorem) *)
Theorem read_valid ls : valid ls = true ->
  exists gs, read ls = Ok (gs, lib_names ls) /\ map obs gs = file_groups ls /\ wf_list gs = true.
Proof.
  intros Hv. destruct (run_ok ls rinit sinit sim_init Hv) as (r & E & [Sv St Sn Sd Sw Sg] & L).
  unfold read, read_gen. rewrite E. cbn [rbind]. unfold finish. eexists. split; [|split].
  - cbn in L. rewrite L. reflexivity.
  - unfold file_groups. rewrite map_app, Sd. cbn [map]. f_equal. f_equal. unfold sclose.
    apply (close_ok _ _ _ _ _ _ _ _ _ Sg).
  - pose proof (close_ok _ _ _ _ _ _ _ _ _ Sg) as (_ & W & _). cbn zeta in W.
    unfold wf_list. rewrite !andb_true_iff. repeat split.
    + destruct (r_done r); reflexivity.
    + rewrite forallb_app. apply andb_true_iff. split; [|cbn; now rewrite W].
      apply forallb_forall. intros m Hm. rewrite Forall_forall in Sw. apply Sw; auto.
    + apply nonempty_but_last_snoc. eapply Forall_impl; [|exact Sw]. cbn. intuition.
Qed.

(* ====================================================================================== *)
(* Part B: the direct semantics of what the writer emits                                   *)
(* ====================================================================================== *)
(* a direct-semantics state with the tables of [st] and the given group fields *)
Definition mk (st : sstate) (d : list gobs) (nm : name) (cs : list content) (tg : list (option name))
              (cur : option name) : sstate :=
  {| s_v := s_v st; s_vt := s_vt st; s_vn := s_vn st; s_done := d; s_nm := nm; s_cs := cs; s_tg := tg; s_cur := cur |}.
(* ... and with longer tables *)
Definition mkt (st : sstate) (a : list vec3) (b : list vec2) (c : list vec3) : sstate :=
  {| s_v := s_v st ++ a; s_vt := s_vt st ++ b; s_vn := s_vn st ++ c; s_done := s_done st; s_nm := s_nm st;
     s_cs := s_cs st; s_tg := s_tg st; s_cur := s_cur st |}.

Lemma srun_app st a b : srun st (a ++ b) = srun (srun st a) b.
Proof. apply fold_left_app. Qed.

Definition flat3 (ts : list (nat * nat * nat)) : list nat := flat_map (fun t => let '(a, b, c) := t in [a; b; c]) ts.

Lemma tris_of_len k : forall l, length l = 3 * k ->
  exists ts, tris_of l = Some ts /\ flat3 ts = l /\ length ts = k.
Proof.
  induction k as [|k IH]; intros l H.
  - destruct l; [|discriminate]. exists []. auto.
  - destruct l as [|a [|b [|c r]]]; simpl in H; try lia.
    destruct (IH r) as (ts & E & F3 & L); [lia|].
    exists ((a, b, c) :: ts). cbn [tris_of]. rewrite E. split; [reflexivity|split].
    + unfold flat3 in *. cbn [flat_map]. rewrite F3. reflexivity.
    + cbn [length]. lia.
Qed.

Lemma srun_faces st wc ts : forall d nm cs tg cur,
  srun (mk st d nm cs tg cur) (map (face_line wc) ts)
  = mk st d nm (cs ++ map (fun i => scontent st (wc i)) (flat3 ts)) (tg ++ repeat cur (length ts)) cur.
Proof.
  induction ts as [|[[a b] c] ts IH]; intros d nm cs tg cur.
  - cbn. now rewrite !app_nil_r.
  - cbn [map face_line srun fold_left]. change (fold_left sstep ?l ?s) with (srun s l).
    change (sstep (mk st d nm cs tg cur) (F (wc a) (wc b) (wc c)))
      with (mk st d nm (cs ++ [scontent st (wc a); scontent st (wc b); scontent st (wc c)]) (tg ++ [cur]) cur).
    rewrite IH. cbn [flat3 flat_map map app length repeat]. rewrite <- !app_assoc. reflexivity.
Qed.

Lemma valid_faces nv nt nn wc ts rest :
  (forall i, In i (flat3 ts) -> corner_ok nv nt nn (wc i) = true) ->
  valid_from nv nt nn (map (face_line wc) ts ++ rest) = valid_from nv nt nn rest.
Proof.
  induction ts as [|[[a b] c] ts IH]; intros H; [reflexivity|].
  cbn [map face_line app valid_from]. rewrite !H, IH; cbn; auto.
  intros i Hi. apply H. cbn. auto.
Qed.

Lemma mat_written_nonnil mt : mat_ok (0, mt) = true -> nonnil (mat_written mt) = true.
Proof. destruct mt as [[|t q]|]; cbn; auto. Qed.

Section Mesh.
Variables (st : sstate) (wc : nat -> corner) (idx : list nat) (ct : nat -> content).
Let nv := length (s_v st). Let nt := length (s_vt st). Let nn := length (s_vn st).
Hypothesis Hct : forall i, In i idx -> scontent st (wc i) = ct i /\ corner_ok nv nt nn (wc i) = true.

Definition mtag (mt : option name) : option name := Some (mat_written mt).

Lemma mat_lines_sem mats : forall start d nm cs tg cur,
  start + 3 * sum_counts mats = length idx -> forallb mat_ok mats = true ->
  exists body cur', mat_lines wc idx start mats = Ok body /\
    (forall rest, valid_from nv nt nn (body ++ rest) = valid_from nv nt nn rest) /\
    srun (mk st d nm cs tg cur) body
    = mk st d nm (cs ++ map ct (skipn start idx)) (tg ++ map mtag (tri_mats mats)) cur' /\
    (is_some cur || nonnil mats = true -> is_some cur' = true).
Proof.
  induction mats as [|[cnt mt] r IH]; intros start d nm cs tg cur Hs Hok.
  - exists [], cur. cbn in *. rewrite skipn_all2 by lia. cbn. rewrite !app_nil_r, orb_false_r. auto.
  - cbn [sum_counts fold_right fst] in Hs. fold (sum_counts r) in Hs.
    cbn [forallb] in Hok. apply andb_true_iff in Hok. destruct Hok as [Hm Hok].
    set (seg := firstn (3 * cnt) (skipn start idx)).
    assert (Ls : length seg = 3 * cnt).
    { unfold seg. rewrite firstn_length, skipn_length. lia. }
    destruct (tris_of_len cnt seg Ls) as (ts & Et & F3 & Lt).
    destruct (IH (start + 3 * cnt) d nm (cs ++ map ct seg) ((tg ++ []) ++ repeat (mtag mt) cnt) (mtag mt))
      as (body & cur' & Eb & Vb & Rb & Cb); [lia|exact Hok|].
    assert (Hin : forall i, In i seg -> In i idx).
    { intros i Hi. unfold seg in Hi. apply in_firstn' in Hi. eapply in_skipn'; eauto. }
    exists (UseMtl (mat_written mt) :: map (face_line wc) ts ++ body), cur'. split; [|split; [|split]].
    + cbn [mat_lines]. unfold seg_lines. fold seg. rewrite Ls, Nat.ltb_irrefl, Et. cbn [rbind].
      rewrite Eb. reflexivity.
    + intros rest. cbn [app valid_from]. rewrite mat_written_nonnil by (destruct mt; exact Hm).
      rewrite <- app_assoc, valid_faces, Vb; auto.
      intros i Hi. rewrite F3 in Hi. apply Hct. auto.
    + cbn [srun fold_left]. change (fold_left sstep ?l ?s) with (srun s l).
      change (sstep (mk st d nm cs tg cur) (UseMtl (mat_written mt))) with (mk st d nm cs tg (mtag mt)).
      rewrite srun_app, srun_faces, F3, Lt.
      replace (map (fun i => scontent st (wc i)) seg) with (map ct seg)
        by (apply map_ext_in; intros i Hi; symmetry; apply Hct; auto).
      rewrite app_nil_r in Rb. rewrite Rb. f_equal.
      * rewrite <- app_assoc. f_equal. rewrite <- map_app. f_equal.
        rewrite <- (firstn_skipn (3 * cnt) (skipn start idx)) at 1. fold seg. f_equal.
        rewrite skipn_add. reflexivity.
      * rewrite <- app_assoc. f_equal. cbn [tri_mats flat_map fst snd]. rewrite map_app, map_repeat. reflexivity.
    + intros _. apply Cb. reflexivity.
Qed.

Lemma body_sem mats d nm :
  length idx mod 3 = 0 ->
  (nonnil mats = true -> 3 * sum_counts mats = length idx) -> forallb mat_ok mats = true ->
  exists body tg cur,
    match mats with
    | [] => match tris_of idx with Some ts => Ok (map (face_line wc) ts) | None => Crash end
    | x :: r => mat_lines wc idx 0 (x :: r)
    end = Ok body /\
    (forall rest, valid_from nv nt nn (body ++ rest) = valid_from nv nt nn rest) /\
    srun (mk st d nm [] [] None) body = mk st d nm (map ct idx) tg cur /\
    final_tags cur tg = map mtag (tri_mats mats).
Proof.
  intros H3 Hs Hok. destruct mats as [|x r].
  - destruct (tris_of_len (length idx / 3) idx) as (ts & Et & F3 & Lt); [lia|].
    rewrite Et. eexists. exists (repeat None (length ts)), None. split; [reflexivity|]. split; [|split].
    + intros rest. apply valid_faces. intros i Hi. rewrite F3 in Hi. apply Hct; auto.
    + rewrite srun_faces, F3. cbn [app]. f_equal. apply map_ext_in. intros i Hi. apply Hct; auto.
    + reflexivity.
  - destruct (mat_lines_sem (x :: r) 0 d nm [] [] None) as (body & cur' & Eb & Vb & Rb & Cb);
      [rewrite Hs; auto|exact Hok|].
    exists body. eexists. exists cur'. split; [exact Eb|]. split; [exact Vb|]. split; [exact Rb|].
    destruct cur' as [n|]; [|discriminate Cb; reflexivity].
    cbn [app final_tags]. rewrite map_map. apply map_ext. reflexivity.
Qed.
End Mesh.

(* ---------- the v / vt / vn blocks ---------- *)
Lemma mkt_mkt st a b c a' b' c' : mkt (mkt st a b c) a' b' c' = mkt st (a ++ a') (b ++ b') (c ++ c').
Proof. unfold mkt. cbn. now rewrite !app_assoc. Qed.
Lemma mkt_nil st : mkt st [] [] [] = st.
Proof. destruct st. unfold mkt. cbn. now rewrite !app_nil_r. Qed.

Lemma srun_V l : forall st, srun st (map V l) = mkt st l [] [].
Proof.
  induction l as [|p l IH]; intros st; [now rewrite mkt_nil|].
  cbn [map srun fold_left]. change (fold_left sstep ?l ?s) with (srun s l). rewrite IH.
  unfold mkt. cbn. now rewrite <- !app_assoc, !app_nil_r.
Qed.
Lemma srun_VT l : forall st, srun st (map VT l) = mkt st [] l [].
Proof.
  induction l as [|p l IH]; intros st; [now rewrite mkt_nil|].
  cbn [map srun fold_left]. change (fold_left sstep ?l ?s) with (srun s l). rewrite IH.
  unfold mkt. cbn. now rewrite <- !app_assoc, !app_nil_r.
Qed.
Lemma srun_VN l : forall st, srun st (map VN l) = mkt st [] [] l.
Proof.
  induction l as [|p l IH]; intros st; [now rewrite mkt_nil|].
  cbn [map srun fold_left]. change (fold_left sstep ?l ?s) with (srun s l). rewrite IH.
  unfold mkt. cbn. now rewrite <- !app_assoc, !app_nil_r.
Qed.
Lemma srun_vblocks ms : forall st,
  srun st (flat_map vlines ms) = mkt st (flat_map m_pos ms) (flat_map m_uv ms) (flat_map m_nrm ms).
Proof.
  induction ms as [|m r IH]; intros st; [now rewrite mkt_nil|].
  cbn [flat_map]. unfold vlines at 1. rewrite !srun_app, srun_V, srun_VT, srun_VN, IH, !mkt_mkt.
  reflexivity.
Qed.

Lemma valid_V l : forall nv nt nn rest, valid_from nv nt nn (map V l ++ rest) = valid_from (nv + length l) nt nn rest.
Proof. induction l; intros; cbn [map app valid_from length]; [now rewrite Nat.add_0_r|]. rewrite IHl. f_equal. lia. Qed.
Lemma valid_VT l : forall nv nt nn rest, valid_from nv nt nn (map VT l ++ rest) = valid_from nv (nt + length l) nn rest.
Proof. induction l; intros; cbn [map app valid_from length]; [now rewrite Nat.add_0_r|]. rewrite IHl. f_equal. lia. Qed.
Lemma valid_VN l : forall nv nt nn rest, valid_from nv nt nn (map VN l ++ rest) = valid_from nv nt (nn + length l) rest.
Proof. induction l; intros; cbn [map app valid_from length]; [now rewrite Nat.add_0_r|]. rewrite IHl. f_equal. lia. Qed.
Lemma valid_vblocks ms : forall nv nt nn rest,
  valid_from nv nt nn (flat_map vlines ms ++ rest)
  = valid_from (nv + length (flat_map m_pos ms)) (nt + length (flat_map m_uv ms)) (nn + length (flat_map m_nrm ms)) rest.
Proof.
  induction ms as [|m r IH]; intros; cbn [flat_map]; [cbn; now rewrite !Nat.add_0_r|].
  unfold vlines at 1. rewrite <- !app_assoc, valid_V, valid_VT, valid_VN, IH, !app_length. f_equal; lia.
Qed.

(* ---------- running offsets ---------- *)
Definition at_off {A} (tbl : list A) (k : nat) (mid : list A) : Prop :=
  exists pre post, tbl = pre ++ mid ++ post /\ k = length pre.

Lemma slook_at {A} (tbl mid : list A) k i : at_off tbl k mid -> i < length mid ->
  slook tbl (Some (zi (i + 1 + k))) = nth_error mid i /\ idx_ok (length tbl) (zi (i + 1 + k)) = true.
Proof.
  intros (pre & post & -> & ->) Hi. unfold slook, idx_ok, zi. split.
  - destruct (Z.of_nat (i + 1 + length pre) <=? 0)%Z eqn:E; [lia|].
    replace (Z.to_nat (Z.of_nat (i + 1 + length pre) - 1)) with (length pre + i) by lia.
    rewrite nth_error_app2 by lia. replace (length pre + i - length pre) with i by lia.
    apply nth_error_app1. exact Hi.
  - rewrite !app_length. apply andb_true_iff. split; apply Z.leb_le; lia.
Qed.

Definition offs_ok (st : sstate) (o : offs) (m : mesh) : Prop :=
  at_off (s_v st) (ov o) (m_pos m) /\ at_off (s_vt st) (ot o) (m_uv m) /\ at_off (s_vn st) (on o) (m_nrm m).

Lemma wf_mesh_parts m : wf_mesh m = true ->
  length (m_idx m) mod 3 = 0 /\ (forall i, In i (m_idx m) -> i < length (m_pos m)) /\
  (m_uv m = [] \/ length (m_uv m) = length (m_pos m)) /\
  (m_nrm m = [] \/ length (m_nrm m) = length (m_pos m)) /\
  (nonnil (m_mats m) = true -> 3 * sum_counts (m_mats m) = length (m_idx m)) /\
  forallb mat_ok (m_mats m) = true.
Proof.
  unfold wf_mesh. rewrite !andb_true_iff, !orb_true_iff. intros [[[[[H1 H2] H3] H4] H5] H6].
  repeat split; auto.
  - apply Nat.eqb_eq. exact H1.
  - intros i Hi. rewrite forallb_forall in H2. apply Nat.ltb_lt. auto.
  - destruct H3 as [H3|H3]; apply Nat.eqb_eq in H3; [left; destruct (m_uv m); [auto|discriminate]|auto].
  - destruct H4 as [H4|H4]; apply Nat.eqb_eq in H4; [left; destruct (m_nrm m); [auto|discriminate]|auto].
  - intros Hn. destruct H5 as [H5|H5]; [rewrite Hn in H5; discriminate|]. apply Nat.eqb_eq. exact H5.
Qed.

Lemma attr_len_wf m : wf_mesh m = true -> attr_len m = length (m_pos m).
Proof.
  intros H. destruct (wf_mesh_parts m H) as (_ & _ & Hu & Hn & _). unfold attr_len.
  destruct (m_pos m); [|reflexivity]. destruct (m_nrm m); [|destruct Hn; [discriminate|auto]].
  destruct Hu as [->|Hu]; auto.
Qed.

Lemma content_ok st o m i : offs_ok st o m -> wf_mesh m = true -> In i (m_idx m) ->
  scontent st (wcorner o m i) = corner_content m i /\
  corner_ok (length (s_v st)) (length (s_vt st)) (length (s_vn st)) (wcorner o m i) = true.
Proof.
  intros (Ov & Ot & On) W Hi. destruct (wf_mesh_parts m W) as (_ & Hlt & Hu & Hn & _).
  apply Hlt in Hi. unfold scontent, wcorner, corner_content, corner_ok.
  destruct (slook_at _ _ _ i Ov Hi) as (-> & ->).
  assert (U : slook (s_vt st) (if nonnil (m_uv m) then Some (zi (i + 1 + ot o)) else None) = nth_error (m_uv m) i
              /\ oidx_ok (length (s_vt st)) (if nonnil (m_uv m) then Some (zi (i + 1 + ot o)) else None) = true).
  { destruct Hu as [E|E].
    - rewrite E. cbn. destruct i; auto.
    - destruct (nonnil (m_uv m)) eqn:NN.
      + cbn [oidx_ok]. apply slook_at; auto. lia.
      + destruct (m_uv m); [cbn; destruct i; auto|discriminate]. }
  assert (N : slook (s_vn st) (if nonnil (m_nrm m) then Some (zi (i + 1 + on o)) else None) = nth_error (m_nrm m) i
              /\ oidx_ok (length (s_vn st)) (if nonnil (m_nrm m) then Some (zi (i + 1 + on o)) else None) = true).
  { destruct Hn as [E|E].
    - rewrite E. cbn. destruct i; auto.
    - destruct (nonnil (m_nrm m)) eqn:NN.
      + cbn [oidx_ok]. apply slook_at; auto. lia.
      + destruct (m_nrm m); [cbn; destruct i; auto|discriminate]. }
  destruct U as (-> & ->), N as (-> & ->). auto.
Qed.

Lemma normalise_id cs :
  ((forall c, In c cs -> has_uv c = true) \/ (forall c, In c cs -> cuv c = None)) ->
  ((forall c, In c cs -> has_nrm c = true) \/ (forall c, In c cs -> cnrm c = None)) ->
  normalise cs = cs.
Proof.
  intros Hu Hn. unfold normalise. transitivity (map (fun x => x) cs); [|apply map_id]. apply map_ext_in. intros [[p u] n] Hin.
  f_equal; [f_equal|].
  - destruct (forallb has_uv cs) eqn:E; auto. destruct Hu as [Hu|Hu].
    + assert (forallb has_uv cs = true) by (apply forallb_forall; auto). congruence.
    + symmetry. apply (Hu _ Hin).
  - destruct (forallb has_nrm cs) eqn:E; auto. destruct Hn as [Hn|Hn].
    + assert (forallb has_nrm cs = true) by (apply forallb_forall; auto). congruence.
    + symmetry. apply (Hn _ Hin).
Qed.

Lemma corners_normal m : wf_mesh m = true -> normalise (corners m) = corners m.
Proof.
  intros W. destruct (wf_mesh_parts m W) as (_ & Hlt & Hu & Hn & _). unfold corners. apply normalise_id.
  - destruct Hu as [E|E].
    + right. intros c Hc. apply in_map_iff in Hc. destruct Hc as (i & <- & Hi).
      unfold corner_content, cuv. cbn. rewrite E. destruct i; reflexivity.
    + left. intros c Hc. apply in_map_iff in Hc. destruct Hc as (i & <- & Hi).
      unfold corner_content, has_uv. destruct (nth_error (m_uv m) i) eqn:Q; auto.
      apply nth_error_None in Q. apply Hlt in Hi. lia.
  - destruct Hn as [E|E].
    + right. intros c Hc. apply in_map_iff in Hc. destruct Hc as (i & <- & Hi).
      unfold corner_content, cnrm. cbn. rewrite E. destruct i; reflexivity.
    + left. intros c Hc. apply in_map_iff in Hc. destruct Hc as (i & <- & Hi).
      unfold corner_content, has_nrm. destruct (nth_error (m_nrm m) i) eqn:Q; auto.
      apply nth_error_None in Q. apply Hlt in Hi. lia.
Qed.

(* one mesh body, started in a fresh group named after the mesh *)
Lemma mesh_body_sem st o m d :
  offs_ok st o m -> wf_mesh m = true ->
  exists body tg cur, body_lines (wcorner o m) m = Ok body /\
    (forall rest, vf st (body ++ rest) = vf st rest) /\
    srun (mk st d (m_name m) [] [] None) body = mk st d (m_name m) (corners m) tg cur /\
    sclose (mk st d (m_name m) (corners m) tg cur) = obs_written m.
Proof.
  intros Ho W. destruct (wf_mesh_parts m W) as (H3 & _ & _ & _ & Hs & Hok).
  destruct (body_sem st (wcorner o m) (m_idx m) (corner_content m)
              (fun i Hi => content_ok st o m i Ho W Hi) (m_mats m) d (m_name m) H3 Hs Hok)
    as (body & tg & cur & Eb & Vb & Rb & Tb).
  exists body, tg, cur. split; [exact Eb|]. split; [exact Vb|]. split; [exact Rb|].
  unfold sclose, obs_written. cbn [mk s_nm s_cs s_tg s_cur]. rewrite corners_normal, Tb; auto.
Qed.

(* ---------- the list of meshes: running offsets as the invariant ---------- *)
Definition offs_list (st : sstate) (o : offs) (rest : list mesh) : Prop :=
  exists pp pt pn, s_v st = pp ++ flat_map m_pos rest /\ ov o = length pp /\
                   s_vt st = pt ++ flat_map m_uv rest /\ ot o = length pt /\
                   s_vn st = pn ++ flat_map m_nrm rest /\ on o = length pn.

Lemma offs_list_head st o m r : offs_list st o (m :: r) -> offs_ok st o m.
Proof.
  intros (pp & pt & pn & E1 & L1 & E2 & L2 & E3 & L3). cbn [flat_map] in *.
  repeat split; eexists; eexists; eauto.
Qed.
Lemma offs_list_tail st o m r : offs_list st o (m :: r) -> wf_mesh m = true -> offs_list st (advance false o m) r.
Proof.
  intros (pp & pt & pn & E1 & L1 & E2 & L2 & E3 & L3) W. cbn [flat_map] in *.
  pose proof (attr_len_wf m W) as A. destruct (wf_mesh_parts m W) as (_ & _ & Hu & Hn & _).
  exists (pp ++ m_pos m), (pt ++ m_uv m), (pn ++ m_nrm m). unfold advance. cbn [ov ot on orb].
  rewrite <- !app_assoc, !app_length, A. repeat split; auto; try lia.
  - destruct Hu as [E|E]; [rewrite E; cbn; lia|]. destruct (m_uv m); cbn in *; lia.
  - destruct Hn as [E|E]; [rewrite E; cbn; lia|]. destruct (m_nrm m); cbn in *; lia.
Qed.

Lemma nonempty_but_last_tail m r : nonempty_but_last (m :: r) = true ->
  nonempty_but_last r = true /\ (r <> [] -> nonnil (m_idx m) = true).
Proof.
  destruct r as [|x q]; [cbn; intuition congruence|].
  cbn [nonempty_but_last]. intros H. apply andb_true_iff in H. destruct H. auto.
Qed.

Lemma sstep_G st d nm cs tg cur n :
  sstep (mk st d nm cs tg cur) (G n)
  = if nonnil cs then mk st (d ++ [sclose (mk st d nm cs tg cur)]) n [] [] None else mk st d n cs tg cur.
Proof. reflexivity. Qed.

Lemma groups_tail rest : forall o st d nm cs tg cur,
  offs_list st o rest -> forallb wf_mesh rest = true -> nonempty_but_last rest = true ->
  (rest <> [] -> nonnil cs = true) ->
  exists gl, groups_lines false true o rest = Ok gl /\ (forall tl, vf st (gl ++ tl) = vf st tl) /\
    let st' := srun (mk st d nm cs tg cur) gl in
    s_done st' ++ [sclose st'] = d ++ [sclose (mk st d nm cs tg cur)] ++ map obs_written rest.
Proof.
  induction rest as [|m r IH]; intros o st d nm cs tg cur Ho W Hne Hcs.
  - exists []. cbn. auto.
  - cbn [forallb] in W. apply andb_true_iff in W. destruct W as [Wm Wr].
    destruct (nonempty_but_last_tail m r Hne) as (Hne' & Hm).
    destruct (mesh_body_sem st o m (d ++ [sclose (mk st d nm cs tg cur)]) (offs_list_head _ _ _ _ Ho) Wm)
      as (body & tg' & cur' & Eb & Vb & Rb & Cb).
    destruct (IH (advance false o m) st (d ++ [sclose (mk st d nm cs tg cur)]) (m_name m) (corners m) tg' cur'
                 (offs_list_tail _ _ _ _ Ho Wm) Wr Hne') as (gl & Eg & Vg & Rg).
    { intros Hr. apply Hm in Hr. unfold corners. destruct (m_idx m); [discriminate|reflexivity]. }
    exists ((G (m_name m) :: body) ++ gl). split; [|split].
    + cbn [groups_lines]. unfold mesh_lines. rewrite Eb. cbn [rbind orb app]. rewrite Eg. reflexivity.
    + intros tl. cbn [app]. unfold vf in *. cbn [valid_from]. rewrite <- app_assoc, Vb, Vg. reflexivity.
    + cbn zeta in *. rewrite srun_app. cbn [srun fold_left]. change (fold_left sstep ?l ?s) with (srun s l).
      rewrite sstep_G, (Hcs ltac:(discriminate)), Rb, Rg, Cb. cbn [map]. now rewrite <- !app_assoc.
Qed.

(* no mtllib line among the group lines *)
Lemma lib_names_app a b : lib_names (a ++ b) = lib_names a ++ lib_names b.
Proof. apply flat_map_app. Qed.
Lemma lib_faces wc ts : lib_names (map (face_line wc) ts) = [].
Proof. induction ts as [|[[a b] c] ts IH]; cbn; auto. Qed.
Lemma lib_mat_lines wc idx mats : forall start body, mat_lines wc idx start mats = Ok body -> lib_names body = [].
Proof.
  induction mats as [|[cnt mt] r IH]; intros start body H; cbn [mat_lines] in H.
  - injection H as <-. reflexivity.
  - destruct (seg_lines wc idx start cnt) as [fs| |] eqn:Es; try discriminate. cbn [rbind] in H.
    destruct (mat_lines wc idx (start + 3 * cnt) r) as [rest| |] eqn:Er; try discriminate. cbn [rbind] in H.
    injection H as <-. unfold lib_names. cbn [flat_map app]. fold (lib_names (fs ++ rest)).
    rewrite lib_names_app, (IH _ _ Er), app_nil_r.
    unfold seg_lines in Es. destruct (_ <? _); try discriminate.
    destruct (tris_of _); try discriminate. injection Es as <-. apply lib_faces.
Qed.
Lemma lib_groups multi ms : forall o gl, groups_lines false multi o ms = Ok gl -> lib_names gl = [].
Proof.
  induction ms as [|m r IH]; intros o gl H; cbn [groups_lines] in H.
  - injection H as <-. reflexivity.
  - destruct (mesh_lines multi o m) as [a| |] eqn:Ea; try discriminate. cbn [rbind] in H.
    destruct (groups_lines false multi (advance false o m) r) as [b| |] eqn:Eb; try discriminate. cbn [rbind] in H.
    injection H as <-. rewrite lib_names_app, (IH _ _ Eb), app_nil_r.
    unfold mesh_lines in Ea. destruct (body_lines (wcorner o m) m) as [body| |] eqn:Ebo; try discriminate.
    cbn [rbind] in Ea. injection Ea as <-. rewrite lib_names_app.
    assert (Hb : lib_names body = []).
    { unfold body_lines in Ebo. destruct (m_mats m).
      - destruct (tris_of (m_idx m)); try discriminate. injection Ebo as <-. apply lib_faces.
      - eapply lib_mat_lines; eauto. }
    rewrite Hb, app_nil_r. destruct (multi || nonnil (m_name m)); reflexivity.
Qed.
Lemma lib_vblocks ms : lib_names (flat_map vlines ms) = [].
Proof.
  induction ms as [|m r IH]; [reflexivity|]. cbn [flat_map]. rewrite lib_names_app, IH, app_nil_r.
  unfold vlines. rewrite !lib_names_app.
  assert (A : forall l, lib_names (map V l) = []) by (induction l; cbn; auto).
  assert (B : forall l, lib_names (map VT l) = []) by (induction l; cbn; auto).
  assert (C : forall l, lib_names (map VN l) = []) by (induction l; cbn; auto).
  now rewrite A, B, C.
Qed.

Definition libs_of (mtl : option name) : name := match mtl with Some f => f | None => [] end.

(* Part B, headline *)
Theorem write_sem mtl ms : wf_list ms = true -> mtl <> Some [] ->
  exists ls, write mtl ms = Ok ls /\ valid ls = true /\ file_groups ls = map obs_written ms /\
             lib_names ls = libs_of mtl.
Proof.
  unfold wf_list. rewrite !andb_true_iff. intros [[Hnn W] Hne] Hmtl.
  destruct ms as [|m r]; [discriminate|]. clear Hnn.
  set (ms := m :: r) in *.
  set (st0 := mkt sinit (flat_map m_pos ms) (flat_map m_uv ms) (flat_map m_nrm ms)).
  assert (Ho : offs_list st0 o0 ms).
  { exists [], [], []. repeat split; reflexivity. }
  pose proof W as W'. unfold ms in W'. cbn [forallb] in W'. apply andb_true_iff in W'. destruct W' as [Wm Wr].
  destruct (nonempty_but_last_tail m r Hne) as (Hne' & Hm).
  destruct (mesh_body_sem st0 o0 m [] (offs_list_head _ _ _ _ Ho) Wm) as (body & tg' & cur' & Eb & Vb & Rb & Cb).
  assert (Hhead : srun sinit (head_lines mtl) = sinit /\ lib_names (head_lines mtl) = libs_of mtl /\
                  forall tl, valid (head_lines mtl ++ tl) = valid tl).
  { destruct mtl as [f|].
    - split; [reflexivity|]. split; [cbn; now rewrite app_nil_r|].
      intros tl. unfold valid. cbn. destruct f; [congruence|reflexivity].
    - split; [reflexivity|]. split; [reflexivity|]. intros tl. reflexivity. }
  destruct Hhead as (Hh1 & Hh2 & Hh3).
  (* the lines of the groups, and their semantics started after the v blocks *)
  assert (G' : exists gl, groups_lines false (1 <? length ms) o0 ms = Ok gl /\
                (forall tl, vf st0 (gl ++ tl) = vf st0 tl) /\
                let st' := srun st0 gl in s_done st' ++ [sclose st'] = map obs_written ms).
  { assert (First : forall multi,
              srun (mk st0 [] [] [] [] None) (if multi || nonnil (m_name m) then [G (m_name m)] else [])
              = mk st0 [] (m_name m) [] [] None).
    { intros multi. destruct multi; [reflexivity|]. cbn [orb]. destruct (m_name m); reflexivity. }
    destruct r as [|x q].
    - (* a single mesh *) exists ((if false || nonnil (m_name m) then [G (m_name m)] else []) ++ body). split; [|split].
      + replace (1 <? length ms) with false by reflexivity. unfold ms.
        change (groups_lines false false o0 [m])
          with (dor a <- mesh_lines false o0 m; dor b <- Ok []; Ok (a ++ b)).
        unfold mesh_lines. rewrite Eb. cbn [rbind]. now rewrite app_nil_r.
      + intros tl. rewrite <- app_assoc. destruct (false || nonnil (m_name m)); cbn [app]; [|apply Vb].
        unfold vf in *. cbn [valid_from]. apply Vb.
      + assert (R1 : srun st0 ((if false || nonnil (m_name m) then [G (m_name m)] else []) ++ body)
                     = mk st0 [] (m_name m) (corners m) tg' cur').
        { rewrite srun_app. change st0 with (mk st0 [] [] [] [] None) at 1. rewrite First. exact Rb. }
        cbn zeta. rewrite R1, Cb. reflexivity.
    - (* several meshes *)
      destruct (groups_tail (x :: q) (advance false o0 m) st0 [] (m_name m) (corners m) tg' cur'
                  (offs_list_tail _ _ _ _ Ho Wm) Wr Hne') as (gl & Eg & Vg & Rg).
      { intros Hr. apply Hm in Hr. unfold corners. destruct (m_idx m); [discriminate|reflexivity]. }
      exists (((if true || nonnil (m_name m) then [G (m_name m)] else []) ++ body) ++ gl). split; [|split].
      + replace (1 <? length ms) with true by reflexivity. unfold ms.
        change (groups_lines false true o0 (m :: x :: q))
          with (dor a <- mesh_lines true o0 m; dor b <- groups_lines false true (advance false o0 m) (x :: q); Ok (a ++ b)).
        unfold mesh_lines. rewrite Eb. cbn [rbind]. rewrite Eg. reflexivity.
      + intros tl. cbn [orb app]. unfold vf in *. cbn [valid_from]. rewrite <- app_assoc, Vb, Vg. reflexivity.
      + assert (R1 : srun st0 ((if true || nonnil (m_name m) then [G (m_name m)] else []) ++ body)
                     = mk st0 [] (m_name m) (corners m) tg' cur').
        { rewrite srun_app. change st0 with (mk st0 [] [] [] [] None) at 1. rewrite First. exact Rb. }
        cbn zeta in *. rewrite srun_app, R1, Rg, Cb. reflexivity. }
  destruct G' as (gl & Eg & Vg & Rg).
  exists (head_lines mtl ++ flat_map vlines ms ++ gl). split; [|split; [|split]].
  - unfold write, write_gen. rewrite Eg. reflexivity.
  - rewrite Hh3. unfold valid. rewrite valid_vblocks. cbn [Nat.add].
    specialize (Vg []). rewrite app_nil_r in Vg. exact Vg.
  - unfold file_groups. rewrite !srun_app, Hh1, srun_vblocks. exact Rg.
  - rewrite !lib_names_app, Hh2, lib_vblocks, (lib_groups _ _ _ _ Eg), !app_nil_r. reflexivity.
Qed.

(* ====================================================================================== *)
(* Part C: headline theorems and refutation witnesses                                      *)
(* ====================================================================================== *)
(* what an observation looks like after its material names went through the writer *)
Definition gobs_written (g : gobs) : gobs := let '(nm, cs, tg) := g in (nm, cs, map mtag tg).
Lemma obs_written_obs m : obs_written m = gobs_written (obs m).
Proof. reflexivity. Qed.

Theorem roundtrip mtl ms : wf_list ms = true -> mtl <> Some [] ->
  exists ls gs, write mtl ms = Ok ls /\ read ls = Ok (gs, libs_of mtl) /\ map obs gs = map obs_written ms.
Proof.
  intros W Hm. destruct (write_sem mtl ms W Hm) as (ls & E & V & S & L).
  destruct (read_valid ls V) as (gs & R & O & _).
  exists ls, gs. split; [exact E|]. split; [rewrite R, L; reflexivity|]. rewrite O. exact S.
Qed.

(* the same, spelled out per group *)
Theorem roundtrip_groups mtl ms : wf_list ms = true -> mtl <> Some [] ->
  exists ls gs, write mtl ms = Ok ls /\ read ls = Ok (gs, libs_of mtl) /\ length gs = length ms /\
    forall k m g, nth_error ms k = Some m -> nth_error gs k = Some g ->
      m_name g = m_name m /\ corners g = corners m /\
      tri_mats (m_mats g) = map (fun mt => Some (mat_written mt)) (tri_mats (m_mats m)).
Proof.
  intros W Hm. destruct (roundtrip mtl ms W Hm) as (ls & gs & E & R & O).
  exists ls, gs. split; [exact E|]. split; [exact R|]. split.
  - rewrite <- (map_length obs gs), O. apply map_length.
  - intros k m g Hk Hg. apply (map_nth_error obs) in Hg. apply (map_nth_error obs_written) in Hk.
    rewrite O, Hk in Hg. unfold obs, obs_written in Hg. injection Hg as H1 H2 H3. auto.
Qed.

Theorem load_save file : valid file = true ->
  exists gs1 ls gs2,
    read file = Ok (gs1, lib_names file) /\ map obs gs1 = file_groups file /\
    write None gs1 = Ok ls /\ valid ls = true /\
    read ls = Ok (gs2, []) /\ map obs gs2 = map gobs_written (file_groups file).
Proof.
  intros V. destruct (read_valid file V) as (gs1 & R1 & O1 & W1).
  destruct (write_sem None gs1 W1 ltac:(discriminate)) as (ls & E & V2 & S & L).
  destruct (read_valid ls V2) as (gs2 & R2 & O2 & _).
  exists gs1, ls, gs2. repeat split; auto.
  - rewrite R2, L. reflexivity.
  - rewrite O2, S, <- O1, map_map. apply map_ext. intros m. apply obs_written_obs.
Qed.

(* ---------- concrete witnesses: the four repaired defects, and what the reader does not support ---------- *)
Definition t3 : list vec3 := [(0, 0, 0); (1, 0, 0); (0, 1, 0)]%N.
Definition mesh_plain : mesh :=
  {| m_name := ["a"%string]; m_idx := [0; 1; 2]; m_pos := t3; m_uv := []; m_nrm := []; m_mats := [] |}.
Definition mesh_nrm : mesh :=
  {| m_name := ["b"%string]; m_idx := [2; 1; 0]; m_pos := t3; m_uv := []; m_nrm := t3; m_mats := [] |}.

Lemma shared_offset_refuted :
  wf_list [mesh_plain; mesh_nrm] = true /\
  (exists ls, write_pinned None [mesh_plain; mesh_nrm] = Ok ls /\ read ls = Crash) /\
  (exists ls gs, write None [mesh_plain; mesh_nrm] = Ok ls /\ read ls = Ok (gs, []) /\
                 map obs gs = map obs_written [mesh_plain; mesh_nrm]).
Proof.
  split; [reflexivity|]. split.
  - eexists. split; [vm_compute; reflexivity|]. vm_compute. reflexivity.
  - eexists. eexists. split; [vm_compute; reflexivity|]. split; vm_compute; reflexivity.
Qed.

Definition c1 (v : Z) : corner := (v, None, None, 0%N).
Definition cn (v : Z) : corner := (v, None, Some 1%Z, 0%N).
Definition quad : list line := [V (0, 0, 0); V (1, 0, 0); V (0, 1, 0); V (1, 1, 0); VN (0, 0, 1)]%N.
Definition file_two_groups : list line :=
  quad ++ [G ["a"%string]; UseMtl ["m1"%string]; F (c1 1) (c1 2) (c1 3);
           G ["b"%string]; UseMtl ["m2"%string]; F (c1 2) (c1 3) (c1 4)].
Definition file_default_group : list line :=
  quad ++ [F (c1 1) (c1 2) (c1 3); G ["a"%string]; F (c1 2) (c1 3) (c1 4)].
Definition file_mixed_forms : list line :=
  quad ++ [G ["a"%string]; F (cn 1) (cn 2) (cn 3); F (c1 2) (c1 3) (c1 4)].

(* load, save, load with a given reader configuration *)
Definition resave (cfg : rcfg) (file : list line) : res (list gobs) :=
  dor '(gs, _) <- read_gen cfg file;
  dor ls <- write None gs;
  dor '(gs', _) <- read_gen cfg ls;
  Ok (map obs gs').

Lemma group_material_refuted :
  valid file_two_groups = true /\
  resave cfg_pinned file_two_groups = Crash /\
  resave cfg_full file_two_groups = Ok (map gobs_written (file_groups file_two_groups)).
Proof. split; [reflexivity|]. split; vm_compute; reflexivity. Qed.

Lemma bare_group_refuted :
  valid file_default_group = true /\
  resave cfg_f82 file_default_group = Declared /\
  resave cfg_full file_default_group = Ok (map gobs_written (file_groups file_default_group)).
Proof. split; [reflexivity|]. split; vm_compute; reflexivity. Qed.

Lemma mixed_forms_refuted :
  valid file_mixed_forms = true /\
  resave {| close_at_g := true; bare_g := true; drop_partial := false |} file_mixed_forms = Crash /\
  resave cfg_full file_mixed_forms = Ok (map gobs_written (file_groups file_mixed_forms)).
Proof. split; [reflexivity|]. split; vm_compute; reflexivity. Qed.

(* outside the property (the file is not triangulated / uses relative indices): what ReadMesh does *)
Definition file_quad : list line := quad ++ [Fn [c1 1; c1 2; c1 4; c1 3]].
Lemma polygon_truncated :
  valid file_quad = false /\
  (exists gs, read file_quad = Ok (gs, []) /\ map (fun g => length (corners g)) gs = [3]) /\
  map (fun g : gobs => length (snd (fst g))) (file_groups file_quad) = [6].
Proof. split; [reflexivity|]. split; [eexists; split; vm_compute; reflexivity|vm_compute; reflexivity]. Qed.

Definition file_relative : list line := quad ++ [F (c1 (-1)) (c1 (-2)) (c1 (-3))].
Lemma relative_index_crash : valid file_relative = false /\ read file_relative = Crash.
Proof. split; vm_compute; reflexivity. Qed.

(* two spellings of the same corner ("1" and "01") are two table entries, with the same content *)
Definition file_spelling : list line :=
  quad ++ [F (c1 1) (c1 2) (c1 3); F (1%Z, None, None, 1%N) (c1 3) (c1 4)].
Lemma spelling_not_merged :
  valid file_spelling = true /\
  exists gs, read file_spelling = Ok (gs, []) /\ map (fun g => length (m_pos g)) gs = [5] /\
             map obs gs = file_groups file_spelling.
Proof. split; [reflexivity|]. eexists. split; [vm_compute; reflexivity|]. split; vm_compute; reflexivity. Qed.

(* why [wf_list] asks every mesh but the last to have a triangle: ReadMesh renames a group without faces instead
   of emitting it, so an empty mesh in the middle of a list comes back as one group fewer (at the end it is kept) *)
Definition mesh_empty : mesh :=
  {| m_name := ["e"%string]; m_idx := []; m_pos := []; m_uv := []; m_nrm := []; m_mats := [] |}.
Lemma empty_group_dropped :
  forallb wf_mesh [mesh_plain; mesh_empty; mesh_nrm] = true /\ wf_list [mesh_plain; mesh_empty; mesh_nrm] = false /\
  (exists ls gs, write None [mesh_plain; mesh_empty; mesh_nrm] = Ok ls /\ valid ls = true /\
                 read ls = Ok (gs, []) /\ map m_name gs = [["a"%string]; ["b"%string]]) /\
  (exists ls gs, write None [mesh_plain; mesh_nrm; mesh_empty] = Ok ls /\ read ls = Ok (gs, []) /\
                 map obs gs = map obs_written [mesh_plain; mesh_nrm; mesh_empty]).
Proof.
  split; [reflexivity|]. split; [reflexivity|]. split.
  - eexists. eexists. split; [vm_compute; reflexivity|]. split; [vm_compute; reflexivity|].
    split; vm_compute; reflexivity.
  - eexists. eexists. split; [vm_compute; reflexivity|]. split; vm_compute; reflexivity.
Qed.
