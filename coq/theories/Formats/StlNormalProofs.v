(* C07: proofs about the exact facet-normal specification of Formats/StlNormal.v.
   The soundness theorem is stated over Coq's real numbers (stdlib Reals axioms; Flocq's bpow for 2^e). *)
From PF Require Import Base.Bytes Formats.Stl Formats.StlProofs Formats.StlNormal.
From Coq Require Import ZArith Lia Reals Lra Psatz.
From Flocq Require Import Core.Raux Core.Zaux Core.Defs Core.Float_prop IEEE754.Binary IEEE754.Bits.
Open Scope Z_scope.

(* ---------- the common scale of the corner normals cancels ---------- *)
Lemma leb_scale k a b : 0 < k -> (k * a <=? k * b) = (a <=? b).
Proof.
  intros Hk. destruct (Z.leb_spec a b) as [H|H].
  - apply Z.leb_le. apply Z.mul_le_mono_nonneg_l; lia.
  - apply Z.leb_gt. apply Z.mul_lt_mono_pos_l; lia.
Qed.

Lemma fn_word_ok_scale c sk S w : 0 < c -> fn_word_ok (c * sk) (c * c * S) w = fn_word_ok sk S w.
Proof.
  intros Hc. unfold fn_word_ok. destruct (f32_decode w) as [[[sg m] e]|]; [|reflexivity].
  assert (Hcc : 0 < c * c) by nia.
  set (P := 2 ^ (2 * fgrid)). set (hi := (m * 2 ^ (e + fgrid) + gap_up m e + slack e) ^ 2).
  set (lo := (m * 2 ^ (e + fgrid) - gap_down m e - slack e) ^ 2). set (z := (gap_up m e + slack e) ^ 2).
  replace (c * sk * (c * sk) * P) with (c * c * (sk * sk * P)) by ring.
  replace (z * (c * c * S)) with (c * c * (z * S)) by ring.
  replace (lo * (c * c * S)) with (c * c * (lo * S)) by ring.
  replace (hi * (c * c * S)) with (c * c * (hi * S)) by ring.
  rewrite !leb_scale by assumption.
  replace (c * sk =? 0) with (sk =? 0)
    by (destruct (Z.eqb_spec sk 0), (Z.eqb_spec (c * sk) 0); try reflexivity; nia).
  replace (c * sk <? 0) with (sk <? 0)
    by (destruct (Z.ltb_spec sk 0), (Z.ltb_spec (c * sk) 0); try reflexivity; nia).
  reflexivity.
Qed.

Theorem facet_ok_scale c s v : 0 < c -> facet_ok (zscale c s) v = facet_ok s v.
Proof.
  intros Hc. destruct s as [[x y] z], v as [[wx wy] wz]. unfold facet_ok, zscale, zdot.
  replace (c * x * (c * x) + c * y * (c * y) + c * z * (c * z)) with (c * c * (x * x + y * y + z * z)) by ring.
  rewrite !fn_word_ok_scale by assumption.
  replace (0 <? c * c * (x * x + y * y + z * z)) with (0 <? x * x + y * y + z * z); [reflexivity|].
  destruct (Z.ltb_spec 0 (x * x + y * y + z * z)), (Z.ltb_spec 0 (c * c * (x * x + y * y + z * z))); try reflexivity; nia.
Qed.

(* ---------- mesh level ---------- *)
Theorem mesh_normals_ok_spec idx nrm fns :
  mesh_normals_ok idx nrm fns = true <->
  forall t, (t < length fns)%nat -> facet_ok (corner_sum idx nrm t) (nth t fns vzero) = true.
Proof.
  unfold mesh_normals_ok. rewrite forallb_forall. split.
  - intros H t Ht. apply H. apply in_seq. lia.
  - intros H t Ht. apply in_seq in Ht. apply H. lia.
Qed.

(* ---------- decoding ---------- *)
Lemma f32_decode_range w sg m e : f32_decode w = Some (sg, m, e) -> 0 <= m /\ -149 <= e.
Proof.
  unfold f32_decode. set (ex := Z.land (Z.shiftr (Z.of_N w) 23) 255). set (fr := Z.land (Z.of_N w) 8388607).
  assert (0 <= ex) by (apply Z.land_nonneg; right; lia).
  assert (0 <= fr) by (apply Z.land_nonneg; right; lia).
  destruct (Z.eqb_spec ex 255) as [|N1]; [discriminate|]. destruct (Z.eqb_spec ex 0) as [|N0]; intros Hs.
  - assert (m = fr) by congruence. assert (e = -149) by congruence. lia.
  - assert (m = fr + 8388608) by congruence. assert (e = ex - 150) by congruence. lia.
Qed.

(* ---------- soundness over the reals ---------- *)
Open Scope R_scope.

(* the real number a finite binary32 word denotes *)
Definition f32R (w : N) : R :=
  match f32_decode w with
  | Some (sg, m, e) => IZR (if sg then (- m)%Z else m) * bpow radix2 e
  | None => 0
  end.

Lemma sq_le a b : 0 <= a -> 0 <= b -> a * a <= b * b -> a <= b.
Proof.
  intros Ha Hb H. destruct (Rle_lt_dec a b) as [|Hlt]; [assumption|]. exfalso.
  assert (b * b < a * a) by (apply Rmult_le_0_lt_compat; assumption). lra.
Qed.

Lemma sq_bracket lo hi x r : 0 < r -> 0 <= lo -> 0 <= hi ->
  lo * lo * (r * r) <= x * x -> x * x <= hi * hi * (r * r) -> lo <= Rabs x / r <= hi.
Proof.
  intros Hr Hlo Hhi H1 H2. pose proof (Rabs_pos x) as Ha.
  assert (Hxx : x * x = Rabs x * Rabs x).
  { unfold Rabs. destruct (Rcase_abs x); ring. }
  rewrite Hxx in H1, H2. assert (Hr0 : r <> 0) by (apply Rgt_not_eq; assumption). split.
  - apply Rmult_le_reg_r with r; [assumption|]. unfold Rdiv. rewrite Rmult_assoc, Rinv_l, Rmult_1_r by assumption.
    apply sq_le; [apply Rmult_le_pos; lra | assumption |]. replace (lo * r * (lo * r)) with (lo * lo * (r * r)) by ring. assumption.
  - apply Rmult_le_reg_r with r; [assumption|]. unfold Rdiv. rewrite Rmult_assoc, Rinv_l, Rmult_1_r by assumption.
    apply sq_le; [assumption | apply Rmult_le_pos; lra |]. replace (hi * r * (hi * r)) with (hi * hi * (r * r)) by ring. assumption.
Qed.

Lemma IZR_pow2 k : (0 <= k)%Z -> IZR (2 ^ k) = bpow radix2 k.
Proof. intros Hk. rewrite <- IZR_Zpower by assumption. reflexivity. Qed.

(* an accepted word is within (1/2 + 2^-21) ulp of  sk / sqrt S *)
Theorem fn_word_sound sk S w sg m e : (0 < S)%Z -> f32_decode w = Some (sg, m, e) -> fn_word_ok sk S w = true ->
  Rabs (f32R w - IZR sk / sqrt (IZR S)) <= (/ 2 + bpow radix2 (- 21)) * bpow radix2 e.
Proof.
  intros HS Hd Hok. destruct (f32_decode_range _ _ _ _ Hd) as [Hm He].
  unfold f32R. unfold fn_word_ok in Hok. rewrite Hd in *.
  set (r := sqrt (IZR S)). assert (Hr : 0 < r) by (apply sqrt_lt_R0, IZR_lt; assumption).
  assert (Hrr : r * r = IZR S) by (apply sqrt_sqrt; apply IZR_le; lia).
  (* everything in units of q = 2^(e + fgrid - 21) *)
  set (q := (2 ^ (e + fgrid - fslack))%Z) in *.
  assert (Hq : (0 < q)%Z) by (apply Z.pow_pos_nonneg; unfold fgrid, fslack; lia).
  assert (E0 : (2 ^ (e + fgrid) = 2097152 * q)%Z).
  { unfold q, fslack. replace (e + fgrid)%Z with (21 + (e + fgrid - 21))%Z at 1 by ring.
    rewrite Z.pow_add_r by (unfold fgrid; lia). reflexivity. }
  assert (E1 : (2 ^ (e + fgrid - 1) = 1048576 * q)%Z).
  { unfold q, fslack. replace (e + fgrid - 1)%Z with (20 + (e + fgrid - 21))%Z by ring.
    rewrite Z.pow_add_r by (unfold fgrid; lia). reflexivity. }
  assert (E2 : (-149 < e -> 2 ^ (e + fgrid - 2) = 524288 * q)%Z).
  { intros. unfold q, fslack. replace (e + fgrid - 2)%Z with (19 + (e + fgrid - 21))%Z by ring.
    rewrite Z.pow_add_r by (unfold fgrid; lia). reflexivity. }
  assert (EP : (2 ^ (2 * fgrid) = 2 ^ fgrid * 2 ^ fgrid)%Z).
  { replace (2 * fgrid)%Z with (fgrid + fgrid)%Z by ring. apply Z.pow_add_r; unfold fgrid; lia. }
  unfold slack, gap_up in Hok. fold q in Hok. rewrite E0, E1, EP in Hok.
  set (g := (2 ^ fgrid)%Z) in *. assert (Hg : (0 < g)%Z) by (apply Z.pow_pos_nonneg; unfold fgrid; lia).
  (* the target, scaled by g *)
  assert (Hbq : bpow radix2 e * IZR g = 2097152 * IZR q).
  { unfold g. rewrite IZR_pow2 by (unfold fgrid; lia). rewrite <- bpow_plus, <- IZR_pow2 by (unfold fgrid; lia).
    rewrite E0, mult_IZR. reflexivity. }
  assert (Hgoal : forall v, Rabs (v * IZR g - IZR sk * IZR g / r) <= 1048577 * IZR q ->
                   Rabs (v - IZR sk / r) <= (/ 2 + bpow radix2 (- 21)) * bpow radix2 e).
  { intros v Hv. apply Rmult_le_reg_r with (IZR g); [apply IZR_lt; assumption|].
    replace (Rabs (v - IZR sk / r) * IZR g) with (Rabs (v * IZR g - IZR sk * IZR g / r)).
    2:{ rewrite <- (Rabs_pos_eq (IZR g)) at 3 by (apply IZR_le; lia). rewrite <- Rabs_mult. f_equal. field. lra. }
    rewrite Rmult_assoc, Hbq. change (bpow radix2 (-21)) with (/ 2097152). lra. }
  set (y := IZR sk * IZR g / r) in *.
  assert (Hbr : forall lo hi : Z, (0 <= lo)%Z -> (0 <= hi)%Z ->
             (lo ^ 2 * S <= sk * sk * (g * g))%Z -> (sk * sk * (g * g) <= hi ^ 2 * S)%Z -> IZR lo <= Rabs y <= IZR hi).
  { intros lo hi Hlo Hhi H1 H2.
    assert (Ey : Rabs y = Rabs (IZR sk * IZR g) / r).
    { unfold y, Rdiv. rewrite Rabs_mult, (Rabs_pos_eq (/ r)) by (left; apply Rinv_0_lt_compat; assumption). reflexivity. }
    rewrite Ey. apply sq_bracket; try assumption; try (apply IZR_le; assumption).
    - rewrite Hrr, <- !mult_IZR. apply IZR_le. nia.
    - rewrite Hrr, <- !mult_IZR. apply IZR_le. nia. }
  apply Hgoal. rewrite Rmult_assoc, Hbq.
  destruct (Z.eqb_spec m 0) as [Hm0|Hm0].
  - (* +-0 *)
    apply Z.leb_le in Hok. subst m.
    assert (Hy : IZR 0 <= Rabs y <= IZR (1048576 * q + q)).
    { apply Hbr; [lia | lia | | exact Hok].
      change (0 ^ 2)%Z with 0%Z. rewrite Z.mul_0_l. apply Z.mul_nonneg_nonneg; apply Z.square_nonneg. }
    destruct Hy as [_ Hy].
    replace (IZR (if sg then (- 0)%Z else 0%Z)) with 0 by (destruct sg; reflexivity).
    rewrite Rmult_0_l, Rminus_0_l, Rabs_Ropp. rewrite plus_IZR, mult_IZR in Hy. lra.
  - apply andb_prop in Hok as [Hok H4]. apply andb_prop in Hok as [Hok H3]. apply andb_prop in Hok as [H1 H2].
    apply Z.leb_le in H3, H4. apply Bool.eqb_prop in H2.
    assert (Hsk : sk <> 0%Z) by (destruct (Z.eqb_spec sk 0); [discriminate|assumption]).
    assert (Hgd : (gap_down m e = 1048576 * q \/ gap_down m e = 524288 * q)%Z).
    { unfold gap_down. destruct ((m =? 8388608)%Z && (-149 <? e)%Z)%bool eqn:Eb; [|left; assumption].
      right. apply andb_prop in Eb as [_ Eb]. apply Z.ltb_lt in Eb. apply E2; assumption. }
    assert (Hmq : (q <= m * q)%Z) by (clear - Hm Hm0 Hq; nia).
    assert (Hlo : (0 <= m * (2097152 * q) - gap_down m e - q)%Z) by (clear - Hmq Hq Hgd; destruct Hgd as [-> | ->]; lia).
    assert (Hhi : (0 <= m * (2097152 * q) + 1048576 * q + q)%Z) by (clear - Hmq Hq; lia).
    destruct (Hbr _ _ Hlo Hhi H3 H4) as [Hy1 Hy2].
    assert (Hy1' : IZR m * (2097152 * IZR q) - 1048577 * IZR q <= Rabs y).
    { eapply Rle_trans; [|exact Hy1]. rewrite !minus_IZR, !mult_IZR.
      destruct Hgd as [-> | ->]; rewrite mult_IZR; assert (0 < IZR q) by (apply IZR_lt; assumption); lra. }
    rewrite plus_IZR, plus_IZR, !mult_IZR in Hy2.
    (* sign of y = sign of sk = sign bit *)
    assert (Hys : (sk < 0)%Z -> Rabs y = - y).
    { intros. apply Rabs_left. unfold y. apply IZR_lt in H. apply IZR_lt in Hg.
      unfold Rdiv. apply Rmult_lt_reg_r with r; [assumption|]. rewrite Rmult_assoc, Rmult_assoc, Rinv_l by lra. nra. }
    assert (Hyp : (0 < sk)%Z -> Rabs y = y).
    { intros. apply Rabs_pos_eq. unfold y. apply IZR_lt in H. apply IZR_lt in Hg.
      unfold Rdiv. apply Rmult_le_reg_r with r; [assumption|]. rewrite Rmult_assoc, Rmult_assoc, Rinv_l by lra. nra. }
    destruct (Z.ltb_spec sk 0) as [Hneg|Hpos]; subst sg.
    + rewrite opp_IZR. rewrite (Hys Hneg) in *. apply Rabs_le. lra.
    + rewrite (Hyp ltac:(lia)) in *. apply Rabs_le. lra.
Qed.

(* the three words of an accepted facet normal, componentwise *)
Theorem facet_ok_sound x y z wx wy wz :
  facet_ok (x, y, z) (wx, wy, wz) = true ->
  let S := (x * x + y * y + z * z)%Z in
  (0 < S)%Z /\
  forall sk w, (sk, w) = (x, wx) \/ (sk, w) = (y, wy) \/ (sk, w) = (z, wz) ->
    exists sg m e, f32_decode w = Some (sg, m, e) /\
      Rabs (f32R w - IZR sk / sqrt (IZR S)) <= (/ 2 + bpow radix2 (- 21)) * bpow radix2 e.
Proof.
  unfold facet_ok, zdot. intros H.
  apply andb_prop in H as [H Hz]. apply andb_prop in H as [H Hy]. apply andb_prop in H as [HS Hx].
  apply Z.ltb_lt in HS. split; [assumption|].
  assert (A : forall sk w, fn_word_ok sk (x * x + y * y + z * z) w = true ->
    exists sg m e, f32_decode w = Some (sg, m, e) /\
      Rabs (f32R w - IZR sk / sqrt (IZR (x * x + y * y + z * z))) <= (/ 2 + bpow radix2 (- 21)) * bpow radix2 e).
  { intros sk w Hw. destruct (f32_decode w) as [[[sg m] e]|] eqn:Hd.
    - exists sg, m, e. split; [reflexivity|]. eapply fn_word_sound; eassumption.
    - unfold fn_word_ok in Hw. rewrite Hd in Hw. discriminate. }
  intros sk w [[= -> ->] | [[= -> ->] | [= -> ->]]]; apply A; assumption.
Qed.

(* ---------- the decoder is IEEE-754 binary32 (Flocq's formalisation) ---------- *)
Open Scope Z_scope.
Lemma sign_bit x : 0 <= x < 4294967296 -> Z.odd (Z.shiftr x 31) = (2147483648 <=? x).
Proof.
  intros Hx. rewrite Z.shiftr_div_pow2 by lia. change (2 ^ 31) with 2147483648.
  destruct (Z.leb_spec 2147483648 x) as [H|H].
  - replace (x / 2147483648) with 1; [reflexivity|]. apply Z.div_unique with (x - 2147483648); lia.
  - rewrite Z.div_small by lia. reflexivity.
Qed.

(* the decoder of StlNormal.v agrees with Flocq's IEEE-754 binary32: same real number for every finite word *)
Theorem f32R_flocq x : 0 <= x < 4294967296 -> f32_decode (Z.to_N x) <> None ->
  B2R 24 128 (b32_of_bits x) = f32R (Z.to_N x).
Proof.
  intros Hx Hd. unfold b32_of_bits, binary_float_of_bits. rewrite B2R_FF2B.
  unfold f32R. unfold f32_decode in *. rewrite Z2N.id in * by lia.
  unfold binary_float_of_bits_aux, split_bits. cbv zeta.
  change (SpecFloat.emin (23 + 1) (2 ^ (8 - 1))) with (-149).
  change (2 ^ 23 * 2 ^ 8) with 2147483648. change (2 ^ 8 - 1) with 255.
  rewrite sign_bit in * by assumption.
  assert (L1 : Z.land x 8388607 = x mod 2 ^ 23) by (change 8388607 with (Z.ones 23); apply Z.land_ones; lia).
  assert (L2 : Z.land (Z.shiftr x 23) 255 = (x / 2 ^ 23) mod 2 ^ 8).
  { change 255 with (Z.ones 8). rewrite Z.land_ones by lia. rewrite Z.shiftr_div_pow2 by lia. reflexivity. }
  rewrite L1, L2 in *. clear L1 L2.
  set (ex := (x / 2 ^ 23) mod 2 ^ 8) in *. set (fr := x mod 2 ^ 23) in *. set (sg := 2147483648 <=? x) in *.
  assert (Hfr : 0 <= fr) by (apply Z.mod_pos_bound; lia).
  destruct (Z.eqb_spec ex 255) as [E255|N255]; [congruence|].
  destruct (Z.eqb_spec ex 0) as [E0|N0].
  - rewrite (Zeq_bool_true _ _ E0). destruct fr as [|p|p]; [| |lia].
    + unfold FF2R. destruct sg; simpl; ring.
    + unfold FF2R, F2R. cbn [Fnum Fexp cond_Zopp]. destruct sg; reflexivity.
  - rewrite (Zeq_bool_false _ _ N0), (Zeq_bool_false _ _ N255). change (2 ^ 23) with 8388608 at 1.
    destruct (fr + 8388608) as [|p|p] eqn:Ep; [lia| |lia].
    unfold FF2R, F2R. cbn [Fnum Fexp cond_Zopp]. replace (ex + -149 - 1) with (ex - 150) by ring. destruct sg; reflexivity.
Qed.

Theorem f32R_ieee754 (w : N) : (w < 4294967296)%N -> f32_decode w <> None ->
  B2R 24 128 (b32_of_bits (Z.of_N w)) = f32R w.
Proof.
  intros Hw Hd. rewrite <- (N2Z.id w) at 2. apply f32R_flocq; [lia | rewrite N2Z.id; assumption].
Qed.

(* ---------- placement and value together ----------
   in the bytes stl.WriteMesh wrote, the 12 bytes at offset 84 + 50 t are the little-endian words of a vector that
   is the normalised sum of the normals of vertices idx[3t], idx[3t+1], idx[3t+2] *)
Theorem mesh_facet_normal_at idx pos nrm fns bytes t :
  write_mesh idx (Some pos) fns = Some bytes -> length idx = (3 * length fns)%nat ->
  mesh_normals_ok idx nrm fns = true -> (t < length fns)%nat ->
  exists pre post v, bytes = pre ++ vec12 v ++ post /\ length pre = (84 + 50 * t)%nat /\
                     facet_ok (corner_sum idx nrm t) v = true.
Proof.
  intros Hw Hl Hn Ht. destruct (mesh_record_at idx pos fns bytes t Hw Hl Ht) as (pre & post & E & Hp).
  exists pre. eexists. exists (nth t fns vzero). split; [exact E|]. split; [exact Hp|].
  apply mesh_normals_ok_spec; assumption.
Qed.

(* ---------- the oracle is tight: it pins the significand down to two adjacent candidates ---------- *)
Lemma fn_word_ok_tight_half sk S w1 w2 sg m1 m2 e : 0 < S ->
  f32_decode w1 = Some (sg, m1, e) -> f32_decode w2 = Some (sg, m2, e) -> m1 <> 0 -> m2 <> 0 ->
  fn_word_ok sk S w1 = true -> fn_word_ok sk S w2 = true -> m1 <= m2 + 1.
Proof.
  intros HS Hd1 Hd2 Hn1 Hn2 H1 H2.
  destruct (f32_decode_range _ _ _ _ Hd1) as [Hm1 He]. destruct (f32_decode_range _ _ _ _ Hd2) as [Hm2 _].
  unfold fn_word_ok in H1, H2. rewrite Hd1 in H1. rewrite Hd2 in H2.
  replace (m1 =? 0) with false in H1 by (symmetry; apply Z.eqb_neq; assumption).
  replace (m2 =? 0) with false in H2 by (symmetry; apply Z.eqb_neq; assumption).
  apply andb_prop in H1 as [H1 _]. apply andb_prop in H1 as [_ H1]. apply Z.leb_le in H1.
  apply andb_prop in H2 as [_ H2]. apply Z.leb_le in H2.
  set (q := 2 ^ (e + fgrid - fslack)) in *.
  assert (Hq : 0 < q) by (apply Z.pow_pos_nonneg; unfold fgrid, fslack; lia).
  assert (E0 : 2 ^ (e + fgrid) = 2097152 * q).
  { unfold q, fslack. replace (e + fgrid) with (21 + (e + fgrid - 21)) at 1 by ring.
    rewrite Z.pow_add_r by (unfold fgrid; lia). reflexivity. }
  assert (E1 : 2 ^ (e + fgrid - 1) = 1048576 * q).
  { unfold q, fslack. replace (e + fgrid - 1) with (20 + (e + fgrid - 21)) by ring.
    rewrite Z.pow_add_r by (unfold fgrid; lia). reflexivity. }
  assert (Hgd : 0 <= gap_down m1 e <= 1048576 * q).
  { unfold gap_down. destruct ((m1 =? 8388608) && (-149 <? e))%bool eqn:Eb; [|rewrite E1; lia].
    apply andb_prop in Eb as [_ Eb]. apply Z.ltb_lt in Eb.
    replace (e + fgrid - 2) with (19 + (e + fgrid - 21)) by ring. rewrite Z.pow_add_r by (unfold fgrid; lia).
    fold fslack. fold q. change (2 ^ 19) with 524288. lia. }
  unfold slack, gap_up in *. fold q in H1, H2. rewrite E0 in H1, H2. rewrite E1 in H2.
  set (X := sk * sk * 2 ^ (2 * fgrid)) in *.
  set (lo := m1 * (2097152 * q) - gap_down m1 e - q) in *. set (hi := m2 * (2097152 * q) + 1048576 * q + q) in *.
  assert (Hmq1 : q <= m1 * q) by (clear - Hm1 Hn1 Hq; nia).
  assert (Hmq2 : q <= m2 * q) by (clear - Hm2 Hn2 Hq; nia).
  assert (Hlo : 0 <= lo) by (unfold lo; clear - Hmq1 Hq Hgd; lia).
  assert (Hhi : 0 <= hi) by (unfold hi; clear - Hmq2 Hq; lia).
  assert (Hsq : lo * lo <= hi * hi).
  { apply Z.mul_le_mono_pos_r with S; [assumption|]. replace (lo * lo) with (lo ^ 2) by ring. replace (hi * hi) with (hi ^ 2) by ring. lia. }
  assert (Hle : lo <= hi) by (apply Z.square_le_simpl_nonneg; assumption).
  destruct (Z_le_gt_dec m1 (m2 + 1)) as [|Hgt]; [assumption|exfalso].
  assert (m2 * q + 2 * q <= m1 * q) by (clear - Hgt Hq; nia).
  unfold lo, hi in Hle. clear - Hle H Hgd Hq. lia.
Qed.

Theorem fn_word_ok_tight sk S w1 w2 sg m1 m2 e : 0 < S ->
  f32_decode w1 = Some (sg, m1, e) -> f32_decode w2 = Some (sg, m2, e) -> m1 <> 0 -> m2 <> 0 ->
  fn_word_ok sk S w1 = true -> fn_word_ok sk S w2 = true -> Z.abs (m1 - m2) <= 1.
Proof.
  intros. pose proof (fn_word_ok_tight_half sk S w1 w2 sg m1 m2 e) as A.
  pose proof (fn_word_ok_tight_half sk S w2 w1 sg m2 m1 e) as B. lia.
Qed.
