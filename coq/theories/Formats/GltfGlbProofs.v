(* GLB container framing (WriteGLB): the frame is 4-byte aligned, has exactly the declared total
   length, consists of bytes, and the independent reader [glb_parse] recovers the padded chunks. *)
From PF Require Import Base.Bytes Base.BytesProofs Formats.Gltf.
From Coq Require Import ZifyN ZifyNat ZifyBool.
Ltac Zify.zify_post_hook ::= Z.div_mod_to_equations.
Open Scope list_scope.
Open Scope N_scope.

(* ------------------------------------------------------------------ padding *)
Lemma pad4_lt : forall n, pad4 n < 4.
Proof. intros n. unfold pad4. lia. Qed.

Lemma pad4_aligned : forall n, (n + pad4 n) mod 4 = 0.
Proof. intros n. unfold pad4. lia. Qed.

Lemma pad4_least : forall n k, (n + k) mod 4 = 0 -> pad4 n <= k.
Proof. intros n k H. unfold pad4. lia. Qed.

Lemma pad4_0 : pad4 0 = 0.
Proof. reflexivity. Qed.

Lemma padded_zero n : (n + pad4 n =? 0) = (n =? 0).
Proof. unfold pad4. lia. Qed.

(* ------------------------------------------------------------------ total length *)
Lemma glb_total_eq : forall jl bl,
  glb_total jl bl = 12 + 8 + (jl + pad4 jl) + (if bl + pad4 bl =? 0 then 0 else 8 + (bl + pad4 bl)).
Proof. intros jl bl. unfold glb_total. cbv zeta. destruct (bl + pad4 bl =? 0) eqn:E; lia. Qed.

Lemma len_app {A} (a b : list A) : len (a ++ b) = len a + len b.
Proof. unfold len. rewrite app_length. lia. Qed.
Lemma len_repeat {A} (c : A) n : len (repeat c n) = N.of_nat n.
Proof. unfold len. rewrite repeat_length. reflexivity. Qed.
Lemma len_le32 w : len (le32 w) = 4.
Proof. reflexivity. Qed.
Lemma len_nil {A} : len (@nil A) = 0.
Proof. reflexivity. Qed.

Lemma glb_frame_length : forall json bin, len (glb_frame json bin) = glb_total (len json) (len bin).
Proof.
  intros json bin. rewrite glb_total_eq. unfold glb_frame. cbv zeta.
  destruct (len bin + pad4 (len bin) =? 0) eqn:E;
    rewrite ?len_app, ?len_repeat, ?len_le32, ?len_nil, ?N2Nat.id; lia.
Qed.

(* ------------------------------------------------------------------ the frame consists of bytes *)
Lemma bytes_ok_repeat c n : c < 256 -> bytes_ok (repeat c n).
Proof. intros H. unfold bytes_ok. induction n; cbn [repeat]; constructor; assumption. Qed.

Lemma glb_frame_bytes : forall json bin, bytes_ok json -> bytes_ok bin -> bytes_ok (glb_frame json bin).
Proof.
  intros json bin Hj Hb. unfold glb_frame. cbv zeta.
  assert (H32 : 32 < 256) by lia. assert (H0 : 0 < 256) by lia.
  destruct (len bin + pad4 (len bin) =? 0) eqn:E;
    repeat (apply bytes_ok_app; split);
    auto using le32_bytes, bytes_ok_repeat.
  constructor.
Qed.

(* ------------------------------------------------------------------ reading back *)
Lemma get32_le32 w r : word32 w -> get32 (le32 w ++ r) = Some (w, r).
Proof.
  intros H. unfold get32. change 4%nat with (length (le32 w)). rewrite take_app.
  cbn [bind]. rewrite (de_le32_le32 w H). reflexivity.
Qed.

Lemma take_padded (a : list N) c p r :
  take (N.to_nat (len a + p)) (a ++ repeat c (N.to_nat p) ++ r) = Some (a ++ repeat c (N.to_nat p), r).
Proof.
  rewrite app_assoc.
  replace (N.to_nat (len a + p)) with (length (a ++ repeat c (N.to_nat p))).
  - apply take_app.
  - rewrite app_length, repeat_length. unfold len. lia.
Qed.

Lemma take_padded_nil (a : list N) c p :
  take (N.to_nat (len a + p)) (a ++ repeat c (N.to_nat p)) = Some (a ++ repeat c (N.to_nat p), []).
Proof.
  pose proof (take_padded a c p []) as H. rewrite app_nil_r in H. exact H.
Qed.

Theorem glb_parse_frame : forall json bin,
  glb_total (len json) (len bin) < 4294967296 ->
  glb_parse (glb_frame json bin) =
    Some (json ++ repeat 32 (N.to_nat (pad4 (len json))),
          if len bin =? 0 then None else Some (bin ++ repeat 0 (N.to_nat (pad4 (len bin))))).
Proof.
  intros json bin HT.
  pose proof (glb_frame_length json bin) as HL.
  pose proof (glb_total_eq (len json) (len bin)) as HE.
  pose proof (pad4_aligned (len json)) as HAj.
  pose proof (pad4_aligned (len bin)) as HAb.
  pose proof (padded_zero (len bin)) as HZ.
  unfold glb_parse. rewrite HL. clear HL.
  unfold glb_frame. cbv zeta.
  set (T := glb_total (len json) (len bin)) in *.
  set (J := len json + pad4 (len json)) in *.
  set (B := len bin + pad4 (len bin)) in *.
  assert (WJ : word32 J) by (unfold word32; destruct (B =? 0); lia).
  assert (WB : word32 B) by (unfold word32; destruct (B =? 0) eqn:E; lia).
  rewrite get32_le32 by (unfold word32; lia). cbn [bind].
  rewrite get32_le32 by (unfold word32; lia). cbn [bind].
  rewrite get32_le32 by exact HT. cbn [bind].
  rewrite !N.eqb_refl. cbn [andb negb].
  rewrite get32_le32 by exact WJ. cbn [bind].
  rewrite get32_le32 by (unfold word32; lia). cbn [bind].
  rewrite N.eqb_refl.
  replace (J mod 4 =? 0) with true by lia. cbn [andb negb].
  unfold J at 1.
  destruct (B =? 0) eqn:EB.
  - rewrite take_padded. cbn [bind].
    rewrite <- HZ. reflexivity.
  - rewrite take_padded. cbn [bind].
    remember (le32 B ++ le32 5130562 ++ bin ++ repeat 0 (N.to_nat (pad4 (len bin)))) as tl eqn:Htl.
    destruct tl as [|x tl]; [apply (f_equal (@length N)) in Htl; rewrite app_length in Htl;
                             cbn [length le32] in Htl; lia|].
    rewrite Htl. clear Htl x tl.
    rewrite get32_le32 by exact WB. cbn [bind].
    rewrite get32_le32 by (unfold word32; lia). cbn [bind].
    rewrite N.eqb_refl.
    replace (B mod 4 =? 0) with true by lia. cbn [andb negb].
    unfold B at 1. rewrite take_padded_nil. cbn [bind].
    rewrite <- HZ. reflexivity.
Qed.

Theorem glb_chunks_aligned : forall json bin j b,
  glb_parse (glb_frame json bin) = Some (j, b) ->
  glb_total (len json) (len bin) < 4294967296 ->
  len j mod 4 = 0 /\
  match b with Some b' => len b' mod 4 = 0 /\ 0 < len b' | None => bin = [] end.
Proof.
  intros json bin j b HP HT. rewrite (glb_parse_frame json bin HT) in HP.
  apply some_inj in HP.
  assert (Hj : j = json ++ repeat 32 (N.to_nat (pad4 (len json)))) by congruence.
  assert (Hb : b = if len bin =? 0 then None
                   else Some (bin ++ repeat 0 (N.to_nat (pad4 (len bin))))) by congruence.
  clear HP. subst j b. split.
  - rewrite len_app, len_repeat, N2Nat.id. apply pad4_aligned.
  - destruct (len bin =? 0) eqn:E.
    + destruct bin; [reflexivity|]. unfold len in E. cbn [length] in E. lia.
    + rewrite len_app, len_repeat, N2Nat.id. pose proof (pad4_aligned (len bin)). lia.
Qed.
