(* C06 proofs, part H: the checker's accessor judgement [acc_is] (type, arity, count, decoded image, declared
   bounds) in boolean form on the model's document — the core of "attribute-image", "index-image" and
   "instances". *)
From PF Require Import Base.Bytes Base.BytesProofs Formats.Gltf Formats.GltfProofs Formats.GltfDedupProofs
  Formats.GltfNodeProofs Formats.GltfFinalProofs.
From Coq Require Import ZifyN ZifyNat ZifyBool.
Ltac Zify.zify_post_hook ::= Z.div_mod_to_equations.
Open Scope list_scope.
Open Scope N_scope.

Lemma elems_eqb_refl es : elems_eqb es es = true.
Proof. unfold elems_eqb. apply list_eqb_refl. intros e. apply listN_eqb_refl. Qed.

(* accessor n of the model's document passes [acc_is] for the chunk the writer was handed for it *)
Theorem acc_is_run sc : scene_ok sc ->
  let st := run sc in let s := to_summary st in
  forall n ck, nth_error (b_chunks (st_b st)) n = Some ck ->
    acc_is s (Some (buf st)) (N.of_nat n) (comp_code (ck_comp ck)) (ck_k ck) (ck_data ck) = true.
Proof.
  intros Hok. cbv zeta. destruct (run_chunks_ok sc Hok) as (cks & Hk & E).
  intros n ck Hn. unfold acc_is, nthN, to_summary, buf, buf_b. cbn [s_accs s_views]. rewrite E in *.
  cbn [b_chunks b_accs b_views of_chunks] in *. rewrite Nat2N.id.
  destruct (acc_view_of cks n ck Hn) as (Ha & _). rewrite Ha.
  cbn [a_comp a_k a_count acc_of]. unfold ck_count. rewrite !N.eqb_refl. cbn [andb].
  rewrite (decode_canonical cks n ck Hk Hn), elems_eqb_refl, minmax_ok_acc. reflexivity.
Qed.

(* the same for data given in another run-length form with the same expansion (indices: the mesh's own
   index list; instances: the list of their translations / scales / rotations) *)
Theorem acc_is_run_data sc : scene_ok sc ->
  let st := run sc in let s := to_summary st in
  forall n ck d, nth_error (b_chunks (st_b st)) n = Some ck -> expand d = expand (ck_data ck) -> vcount d = ck_count ck ->
    acc_is s (Some (buf st)) (N.of_nat n) (comp_code (ck_comp ck)) (ck_k ck) d = true.
Proof.
  intros Hok. cbv zeta. intros n ck d Hn He Hc. pose proof (acc_is_run sc Hok n ck Hn) as H. cbv zeta in H.
  unfold acc_is in *. destruct (nthN _ _) as [a|]; [|discriminate].
  rewrite !andb_true_iff in *. destruct H as (((H1 & H2) & H3) & H4). rewrite He, Hc. unfold ck_count in *. auto.
Qed.

(* ------------------------------------------------------------------ completeness: every attribute of the mesh is listed *)
From Coq Require String.
Import String.StringSyntax.

Lemma amap_set_fresh key v l : ~ In key (map fst l) -> amap_set key v l = l ++ [(key, v)].
Proof.
  induction l as [|[k' v'] l IH]; cbn [amap_set map In fst app]; [reflexivity|]. intros H.
  destruct (String.eqb key k') eqn:E; [apply String.eqb_eq in E; subst; tauto|].
  rewrite IH; [reflexivity|tauto].
Qed.
Fixpoint indexed (i : N) (l : list (string * vdata)) : list (string * N) :=
  match l with [] => [] | nv :: r => (gltf_name (fst nv), i) :: indexed (i + 1) r end.
Lemma indexed_keys i l : map fst (indexed i l) = map (fun nv => gltf_name (fst nv)) l.
Proof. revert i. induction l as [|nv l IH]; intros i; cbn [indexed map fst]; [reflexivity|]. rewrite IH. reflexivity. Qed.

Lemma attrs_from_fresh i l a : NoDup (map fst a ++ map (fun nv => gltf_name (fst nv)) l) ->
  attrs_from i l a = a ++ indexed i l.
Proof.
  revert i a. induction l as [|nv l IH]; intros i a H; cbn [attrs_from indexed map]; [rewrite app_nil_r; reflexivity|].
  cbn [map] in H. rewrite amap_set_fresh.
  - rewrite IH; [rewrite <- app_assoc; reflexivity|]. rewrite map_app. cbn [map fst]. rewrite <- app_assoc. exact H.
  - apply NoDup_remove_2 in H. intros Hin. apply H. apply in_or_app. left. exact Hin.
Qed.

Lemma amap_get_indexed i l j nv : NoDup (map (fun nv => gltf_name (fst nv)) l) -> nth_error l j = Some nv ->
  amap_get (gltf_name (fst nv)) (indexed i l) = Some (i + N.of_nat j).
Proof.
  revert i j. induction l as [|x l IH]; intros i j Hn Hj; [destruct j; discriminate|].
  cbn [map] in Hn. inversion Hn as [|? ? Hx Hn']; subst. destruct j as [|j]; cbn [nth_error] in Hj; cbn [indexed amap_get].
  - apply some_inj in Hj. subst x. rewrite String.eqb_refl. f_equal. lia.
  - destruct (String.eqb (gltf_name (fst nv)) (gltf_name (fst x))) eqn:E.
    + apply String.eqb_eq in E. exfalso. apply Hx. rewrite <- E. apply in_map_iff. exists nv. split; [reflexivity|eapply nth_error_In, Hj].
    + rewrite (IH (i + 1) j Hn' Hj). f_equal. lia.
Qed.

Definition tagged (m : pmesh) : list (N * (string * vdata)) :=
  map (pair 4) (me_v4 m) ++ map (pair 3) (me_v3 m) ++ map (pair 2) (me_v2 m).
Definition all_attrs (m : pmesh) : list (string * vdata) := me_v4 m ++ me_v3 m ++ me_v2 m.
(* glTF attribute names of one mesh are distinct (e.g. not both "Position" and a custom "POSITION") *)
Definition names_ok (m : pmesh) : Prop := NoDup (map (fun nv => gltf_name (fst nv)) (all_attrs m)).

Lemma tagged_snd m : map snd (tagged m) = all_attrs m.
Proof. unfold tagged, all_attrs. rewrite !map_app, !map_map. cbn [snd]. rewrite !map_id. reflexivity. Qed.
Lemma mesh_chunks_tagged m :
  mesh_chunks m = map (fun kn => attr_chunk (fst kn) (snd kn)) (tagged m) ++ [idx_chunk (me_idx m) (attr_len m)].
Proof. unfold mesh_chunks, tagged. rewrite !map_app, !map_map, <- !app_assoc. reflexivity. Qed.
Lemma attr_of_tagged m k nv : attr_of m k nv <-> In (k, nv) (tagged m).
Proof.
  unfold attr_of, tagged. rewrite !in_app_iff, !in_map_iff. split.
  - intros [(-> & H)|[(-> & H)|(-> & H)]]; [left|right; left|right; right]; exists nv; auto.
  - intros [(x & E & H)|[(x & E & H)|(x & E & H)]]; inversion E; subst; auto.
Qed.
Lemma attrs_from_app i a b acc : attrs_from i (a ++ b) acc = attrs_from (i + len a) b (attrs_from i a acc).
Proof.
  revert i acc. induction a as [|x a IH]; intros i acc; cbn [attrs_from app].
  - unfold len. cbn. rewrite N.add_0_r. reflexivity.
  - rewrite IH. f_equal. unfold len. cbn [length]. lia.
Qed.
Lemma mesh_attrs_indexed i m : names_ok m -> mesh_attrs i m = indexed i (all_attrs m).
Proof.
  intros Hn. pose proof (attrs_from_fresh i (all_attrs m) [] Hn) as H. cbn [app] in H. rewrite <- H.
  unfold mesh_attrs, all_attrs. rewrite !attrs_from_app. reflexivity.
Qed.

(* every attribute of the mesh behind an [entry] is listed under its glTF name, and its accessor holds
   exactly that attribute's chunk; nothing else is listed *)
Theorem entry_complete cks m attrs ii : names_ok m -> entry cks m (attrs, ii) ->
  length attrs = length (all_attrs m) /\
  forall k nv, attr_of m k nv ->
    exists ai, amap_get (gltf_name (fst nv)) attrs = Some ai /\ nth_error cks (N.to_nat ai) = Some (attr_chunk k nv).
Proof.
  intros Hn (pre & post & -> & E). inversion E; subst attrs ii. clear E. rewrite (mesh_attrs_indexed _ _ Hn). split.
  - rewrite <- (map_length fst), indexed_keys, map_length. reflexivity.
  - intros k nv Ha. apply attr_of_tagged in Ha. apply In_nth_error in Ha. destruct Ha as (j & Hj).
    assert (Hj' : nth_error (all_attrs m) j = Some nv).
    { rewrite <- tagged_snd, nth_error_map, Hj. reflexivity. }
    exists (len pre + N.of_nat j). split; [apply amap_get_indexed; assumption|].
    rewrite mesh_chunks_tagged, <- app_assoc. unfold len.
    replace (N.to_nat (N.of_nat (length pre) + N.of_nat j)) with (length pre + j)%nat by lia.
    apply (nth_in_block (fun kn => attr_chunk (fst kn) (snd kn)) pre (tagged m) _ j (k, nv)), Hj.
Qed.

(* scene level: the primitive of every model node lists exactly the attributes of that model's mesh, and
   each listed accessor passes the checker's [acc_is] against the attribute ("attribute-set" and
   "attribute-image", node by node against the node's own model) *)
Theorem attrs_complete_run sc : scene_ok sc -> scene_ptr_ok sc ->
  (forall mo, In mo (sc_models sc) -> names_ok (mo_mesh mo)) ->
  let st := run sc in let s := to_summary st in
  forall mo nd, In (mo, nd) (combine (filter live (sc_models sc)) (model_nodes sc)) ->
  exists mi p ii, node_doc st mo nd mi p ii /\ length (gp_attrs p) = length (all_attrs (mo_mesh mo)) /\
    forall k nv, attr_of (mo_mesh mo) k nv ->
      exists ai, amap_get (gltf_name (fst nv)) (gp_attrs p) = Some ai /\
                 acc_is s (Some (buf st)) ai (comp_code (attr_comp (fst nv))) k (snd nv) = true.
Proof.
  intros Hok Hp Hnames. cbv zeta. intros mo nd Hin. destruct (model_nodes_spec sc Hp) as (_ & H).
  destruct (Forall2_combine_In _ _ _ _ _ H Hin) as (mi & p & ii & D). exists mi, p, ii. split; [exact D|].
  assert (Hmo : In mo (sc_models sc)).
  { apply in_combine_l in Hin. apply filter_In in Hin. tauto. }
  destruct D as [_ _ _ _ (_ & _ & He) _ _ _].
  destruct (entry_complete _ _ _ _ (Hnames mo Hmo) He) as (Hl & Hc). split; [exact Hl|].
  intros k nv Ha. destruct (Hc k nv Ha) as (ai & Hg & Hn). exists ai. split; [exact Hg|].
  pose proof (acc_is_run sc Hok (N.to_nat ai) _ Hn) as Hacc. cbv zeta in Hacc. rewrite N2Nat.id in Hacc. exact Hacc.
Qed.
