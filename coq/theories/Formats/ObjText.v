(* C05: the TEXT layer of formats/obj — from bytes to the line records of Formats/Obj.v and back.
     reader side: bufio.Scanner with ScanLines (split at '\n', one trailing '\r' dropped, a final line without
       terminator kept, no length limit since f38cfeb), strings.TrimSpace(line) == "" skipped, strings.Fields
       (ASCII white space), dispatch on the first field, parseObjFaceComponent's three token shapes;
     writer side: the texts WriteMeshes prints for its statements.
   Number text is outside: [pf] (strconv.ParseFloat(.,32) as float32 word) and [pi] (strconv.Atoi) / [prf], [pri]
   are parameters; [atoi] below is the concrete decimal reader used by the correspondence check.
   Definitions only, NO PROOFS (Formats/ObjTextProofs.v). *)
From Coq Require Import String Ascii.
From PF Require Import Base.Bytes Formats.Obj.
Open Scope list_scope.
Open Scope N_scope.
Notation length := List.length (only parsing).

(* ---------- bufio.ScanLines ---------- *)
(* the text after the last '\n' is a line only when it is not empty *)
Fixpoint split_lines (l : list N) : list (list N) :=
  match l with
  | [] => []
  | c :: r => if c =? 10 then [] :: split_lines r
              else match split_lines r with x :: xs => (c :: x) :: xs | [] => [[c]] end
  end.
(* dropCR: one trailing '\r' *)
Fixpoint drop_cr (l : list N) : list N :=
  match l with
  | [] => []
  | [c] => if c =? 13 then [] else [c]
  | c :: r => c :: drop_cr r
  end.
Definition scan_lines (text : list N) : list (list N) := map drop_cr (split_lines text).

(* ---------- strings.Fields on ASCII text ---------- *)
Definition is_space (c : N) : bool := (c =? 32) || (c =? 9) || (c =? 10) || (c =? 11) || (c =? 12) || (c =? 13).
Fixpoint fields (l : list N) : list (list N) :=
  match l with
  | [] => []
  | c :: r => if is_space c then fields r
              else match r with
                   | [] => [[c]]
                   | d :: _ => if is_space d then [c] :: fields r
                               else match fields r with x :: xs => (c :: x) :: xs | [] => [[c]] end
                   end
  end.
(* the statements of a text: the fields of every line that is not blank *)
Definition stmts (text : list N) : list (list (list N)) :=
  filter (fun fs => match fs with [] => false | _ => true end) (map fields (scan_lines text)).

(* ---------- strings and bytes ---------- *)
Fixpoint bytes_of_string (s : string) : list N :=
  match s with EmptyString => [] | String a r => N_of_ascii a :: bytes_of_string r end.
Definition string_of_bytes (l : list N) : string := fold_right (fun c s => String (ascii_of_N c) s) EmptyString l.
Definition kw := bytes_of_string.
Definition beq : list N -> list N -> bool := list_eqb N.eqb.

(* ---------- corner tokens: parseObjFaceComponent ---------- *)
Fixpoint split_on (d : N) (l : list N) : list (list N) :=
  match l with
  | [] => [[]]
  | c :: r => if c =? d then [] :: split_on d r
              else match split_on d r with x :: xs => (c :: x) :: xs | [] => [[c]] end
  end.
(* injective code of a token text (leading 1): the spelling tag of a token that is not spelled canonically *)
Definition enc (tok : list N) : N := fold_left (fun a b => a * 256 + b) tok 1.

Definition print_corner (pri : Z -> list N) (c : corner) : list N :=
  let '(v, t, n, _) := c in
  pri v ++ match t, n with
           | None, None => []
           | Some t, None => 47 :: pri t
           | None, Some n => 47 :: 47 :: pri n
           | Some t, Some n => 47 :: pri t ++ 47 :: pri n
           end.

Section Numbers.
Variable pf : list N -> option N.     (* ParseFloat(tok, 32) as a float32 word *)
Variable pi : list N -> option Z.     (* Atoi *)
Variable pri : Z -> list N.           (* the decimal text of an integer: what counts as the canonical spelling *)

(* v | v/vt | v//vn | v// | v/vt/vn; other shapes ("1//2//3", "1/2/3/4", on which the Go code has quirks) are
   left outside (None) *)
Definition parse_corner (tok : list N) : option corner :=
  let fin (c : Z * option Z * option Z) : option corner :=
    let '(v, t, n) := c in
    Some (v, t, n, if beq tok (print_corner pri (v, t, n, 0)) then 0 else enc tok) in
  match split_on 47 tok with
  | [a] => do v <- pi a; fin (v, None, None)
  | [a; b] => do v <- pi a; do t <- pi b; fin (v, Some t, None)
  | [a; b; c] =>
      do v <- pi a;
      match b, c with
      | [], [] => fin (v, None, None)
      | [], _ => do n <- pi c; fin (v, None, Some n)
      | _, _ => do t <- pi b; do n <- pi c; fin (v, Some t, Some n)
      end
  | _ => None
  end.

Fixpoint parse_all {A} (p : list N -> option A) (toks : list (list N)) : option (list A) :=
  match toks with
  | [] => Some []
  | t :: r => do x <- p t; do xs <- parse_all p r; Some (x :: xs)
  end.

(* a statement: a line record, or a token the reader reports as an error *)
Inductive tline := TL (l : line) | TBad.

Definition names (args : list (list N)) : name := map string_of_bytes args.
Definition classify (fs : list (list N)) : tline :=
  match fs with
  | [] => TL Other
  | k :: args =>
      if beq k (kw "v") || beq k (kw "vn") then
        match args with
        | a :: b :: c :: _ =>
            match pf a, pf b, pf c with
            | Some x, Some y, Some z => TL (if beq k (kw "v") then V (x, y, z) else VN (x, y, z))
            | _, _, _ => TBad
            end
        | _ => match parse_all pf args with Some _ => TL Short | None => TBad end
        end
      else if beq k (kw "vt") then
        match args with
        | a :: b :: _ => match pf a, pf b with Some x, Some y => TL (VT (x, y)) | _, _ => TBad end
        | _ => match parse_all pf args with Some _ => TL Short | None => TBad end
        end
      else if beq k (kw "g") then TL (G (names args))
      else if beq k (kw "usemtl") then TL (UseMtl (names args))
      else if beq k (kw "mtllib") then TL (MtlLib (names args))
      else if beq k (kw "o") then TL (O (names args))
      else if beq k (kw "f") then
        match parse_all parse_corner args with
        | Some [a; b; c] => TL (F a b c)
        | Some cs => TL (Fn cs)
        | None => TBad
        end
      else TL Other
  end.

Definition lines_of_bytes (text : list N) : list tline := map classify (stmts text).

(* the line records in front of the first bad token, and whether there is one *)
Fixpoint good_prefix (tls : list tline) : list line * bool :=
  match tls with
  | [] => ([], false)
  | TBad :: _ => ([], true)
  | TL l :: r => let '(ls, bad) := good_prefix r in (l :: ls, bad)
  end.
(* obj.ReadMesh on bytes: an unparsable token is a declared error at its line *)
Definition read_bytes (text : list N) : res (list mesh * name) :=
  let '(ls, bad) := good_prefix (lines_of_bytes text) in
  if bad then (dor _ <- run cfg_full rinit ls; Declared) else read_gen cfg_full ls.
End Numbers.


(* ---------- what WriteMeshes prints ---------- *)
Section Printing.
Variable prf : N -> list N.           (* the text printed for a coordinate that reads back as this float32 word *)
Variable pri : Z -> list N.
Definition join_sp (toks : list (list N)) : list N := flat_map (fun t => 32 :: t) toks.
Definition print_name (n : name) : list N := match n with [] => [32] | _ => join_sp (map kw n) end.
Definition print_line (l : line) : list N :=
  match l with
  | V (x, y, z) => kw "v" ++ join_sp [prf x; prf y; prf z]
  | VN (x, y, z) => kw "vn" ++ join_sp [prf x; prf y; prf z]
  | VT (x, y) => kw "vt" ++ join_sp [prf x; prf y]
  | G n => kw "g" ++ print_name n
  | UseMtl n => kw "usemtl" ++ print_name n
  | MtlLib n => kw "mtllib" ++ print_name n
  | O n => kw "o" ++ print_name n
  | F a b c => kw "f" ++ join_sp [print_corner pri a; print_corner pri b; print_corner pri c]
  | Other => kw "# Created with github.com/EliCDavis/polyform"
  | Fn _ | Short => kw "#"            (* never written *)
  end.
Definition print_lines (ls : list line) : list N := flat_map (fun l => print_line l ++ [10]) ls.
Definition write_bytes (mtl : option name) (ms : list mesh) : res (list N) :=
  dor ls <- write mtl ms; Ok (print_lines ls).
End Printing.

(* ---------- strconv.Atoi, concretely (used by the correspondence check) ---------- *)
Definition digit (c : N) : option N := if (48 <=? c) && (c <=? 57) then Some (c - 48) else None.
Fixpoint digits (l : list N) (acc : N) : option N :=
  match l with
  | [] => Some acc
  | c :: r => match digit c with Some d => digits r (acc * 10 + d) | None => None end
  end.
Definition atoi (tok : list N) : option Z :=
  let '(neg, ds) := match tok with
                    | 45 :: r => (true, r)
                    | 43 :: r => (false, r)
                    | _ => (false, tok)
                    end in
  match ds with
  | [] => None
  | _ => match digits ds 0 with
         | Some n => let z := if neg then (- Z.of_N n)%Z else Z.of_N n in
                     if ((-9223372036854775808 <=? z) && (z <=? 9223372036854775807))%Z then Some z else None
         | None => None
         end
  end.
(* canonical decimal text (strconv.Itoa), fuel = number of digits is enough *)
Fixpoint udec (fuel : nat) (n : N) (acc : list N) : list N :=
  match fuel with
  | 0%nat => acc
  | S f => let acc' := (48 + n mod 10) :: acc in if n / 10 =? 0 then acc' else udec f (n / 10) acc'
  end.
Definition itoa (z : Z) : list N :=
  if (z <? 0)%Z then 45 :: udec 20 (Z.to_N (- z)) [] else udec 20 (Z.to_N z) [].
(* float tokens: the table the harness sends along (token text -> float32 word as Go parsed it) *)
Fixpoint lookup_tok (tab : list (list N * N)) (tok : list N) : option N :=
  match tab with
  | [] => None
  | (t, w) :: r => if beq t tok then Some w else lookup_tok r tok
  end.
Definition tline_eqb (a b : tline) : bool :=
  match a, b with TL x, TL y => line_eqb x y | TBad, TBad => true | _, _ => false end.
