(* C06 proofs, part F: the texture side of the writer state evolves only by AddTexture and by declaring
   extensions ([xsteps]); images, samplers and textures are stored once (no two equal entries). *)
From PF Require Import Base.Bytes Base.BytesProofs Formats.Gltf Formats.GltfDedupProofs.
From Coq Require String.
Import String.StringSyntax.
Delimit Scope string_scope with string.
Open Scope list_scope.
Open Scope N_scope.

Inductive xsteps : texst -> texst -> Prop :=
| xs_refl x : xsteps x x
| xs_tex t x x' : xsteps (snd (add_texture t x)) x' -> xsteps x x'
| xs_use es x x' : xsteps (use_exts es x) x' -> xsteps x x'.

Lemma xsteps_trans a b c : xsteps a b -> xsteps b c -> xsteps a c.
Proof. induction 1; intros H'; [exact H'|eapply xs_tex; eauto|eapply xs_use; eauto]. Qed.
Lemma xsteps_tex1 t x : xsteps x (snd (add_texture t x)).
Proof. eapply xs_tex. apply xs_refl. Qed.
Lemma xsteps_use1 es x : xsteps x (use_exts es x).
Proof. eapply xs_use. apply xs_refl. Qed.

Lemma add_slot_x name t extra acc : xsteps (snd acc) (snd (add_slot name t extra acc)).
Proof.
  unfold add_slot. destruct t as [tx|]; [|apply xs_refl].
  pose proof (xsteps_tex1 tx (snd acc)) as H. destruct (add_texture tx (snd acc)). exact H.
Qed.
Lemma ext_slots_x e acc : xsteps (snd acc) (snd (ext_slots e acc)).
Proof.
  unfold ext_slots. cbv zeta. cbn [snd]. eapply xsteps_trans; [|apply xsteps_use1].
  generalize (mx_texs e). intros l. revert acc. induction l as [|st l IH]; intros acc; cbn [fold_left]; [apply xs_refl|].
  eapply xsteps_trans; [apply add_slot_x|apply IH].
Qed.
Lemma build_material_x m x : xsteps x (snd (build_material m x)).
Proof.
  unfold build_material. cbn [snd].
  set (a0 := (@nil gslot, x)).
  set (a1 := match pm_pbr m with
             | None => a0
             | Some p => add_slot "metallicRoughnessTexture" (pb_mrtex p) None (add_slot "baseColorTexture" (pb_tex p) None a0)
             end).
  assert (H1 : xsteps x (snd a1)).
  { unfold a1. destruct (pm_pbr m) as [p|]; [|apply xs_refl].
    eapply xsteps_trans; [apply (add_slot_x "baseColorTexture" (pb_tex p) None a0)|apply add_slot_x]. }
  set (a2 := fold_left (fun a e => ext_slots e a) (pm_exts m) a1).
  assert (H2 : xsteps (snd a1) (snd a2)).
  { unfold a2. generalize (pm_exts m). intros l. generalize a1. induction l as [|e l IH]; intros acc; cbn [fold_left]; [apply xs_refl|].
    eapply xsteps_trans; [apply ext_slots_x|apply IH]. }
  set (a3 := match pm_normal m with Some (t, s) => add_slot "normalTexture" (Some t) s a2 | None => a2 end).
  assert (H3 : xsteps (snd a2) (snd a3)).
  { unfold a3. destruct (pm_normal m) as [[t s]|]; [apply add_slot_x|apply xs_refl]. }
  set (a4 := match pm_occ m with Some (t, s) => add_slot "occlusionTexture" (Some t) s a3 | None => a3 end).
  assert (H4 : xsteps (snd a3) (snd a4)).
  { unfold a4. destruct (pm_occ m) as [[t s]|]; [apply add_slot_x|apply xs_refl]. }
  eapply xsteps_trans; [exact H1|]. eapply xsteps_trans; [exact H2|]. eapply xsteps_trans; eauto.
Qed.

Lemma add_material_x m s : xsteps (st_x s) (st_x (snd (add_material m s))).
Proof.
  unfold add_material. destruct (find_mat m (st_mat_tab s)); [apply xs_refl|].
  pose proof (build_material_x m (st_x s)) as H. destruct (build_material m (st_x s)). exact H.
Qed.
Lemma add_mesh_x mo s : xsteps (st_x s) (st_x (snd (add_mesh mo s))).
Proof.
  unfold add_mesh. destruct (prim_count (mo_mesh mo) =? 0); [apply xs_refl|].
  assert (H1 : xsteps (st_x s) (st_x (snd (resolve_material mo s)))).
  { unfold resolve_material. destruct (mo_mat mo) as [pm|]; [|apply xs_refl].
    pose proof (add_material_x pm s) as H. destruct (add_material pm s). exact H. }
  destruct (resolve_material mo s) as [mati s1]. cbn [snd] in H1.
  unfold place_mesh. destruct (find_mesh _ _); [exact H1|].
  destruct (mesh_data (mo_mesh mo) s1) as [[ai b] wr]. exact H1.
Qed.
Lemma add_node_x mo mi s : xsteps (st_x s) (st_x (add_node mo mi s)).
Proof.
  unfold add_node, node_inst. destruct (mo_inst mo); [apply xs_refl|].
  destruct (write_instances _ _). cbn [st_x]. apply xsteps_use1.
Qed.
Lemma add_model_x s mo : xsteps (st_x s) (st_x (add_model s mo)).
Proof.
  unfold add_model. pose proof (add_mesh_x mo s) as H. destruct (add_mesh mo s) as [[mi|] s1]; cbn [snd] in H; [|exact H].
  eapply xsteps_trans; [exact H|apply add_node_x].
Qed.
Lemma add_light_x s l : xsteps (st_x s) (st_x (add_light s l)).
Proof. unfold add_light. cbn [st_x]. apply xsteps_use1. Qed.

(* induction principle: the texture state of any scene is reached from the empty one by AddTexture and
   extension declarations only *)
Theorem run_xsteps sc : xsteps init_x (st_x (run sc)).
Proof.
  unfold run, add_scene.
  assert (H1 : forall ms s, xsteps (st_x s) (st_x (fold_left add_model ms s))).
  { induction ms as [|mo r IH]; intros s; cbn [fold_left]; [apply xs_refl|].
    eapply xsteps_trans; [apply add_model_x|apply IH]. }
  assert (H2 : forall ls s, xsteps (st_x s) (st_x (fold_left add_light ls s))).
  { induction ls as [|l r IH]; intros s; cbn [fold_left]; [apply xs_refl|].
    eapply xsteps_trans; [apply add_light_x|apply IH]. }
  eapply xsteps_trans; [apply (H1 (sc_models sc) init)|apply H2].
Qed.
Lemma xsteps_inv (P : texst -> Prop) :
  (forall t x, P x -> P (snd (add_texture t x))) -> (forall es x, P x -> P (use_exts es x)) ->
  forall x x', xsteps x x' -> P x -> P x'.
Proof. intros Ht Hu x x' H. induction H; auto. Qed.

(* ------------------------------------------------------------------ images, samplers, textures stored once *)
From Coq Require Import ZifyN ZifyNat ZifyBool Lia.

Lemma index_of_none {A} (p : A -> bool) l : index_of p l = None -> forall y, In y l -> p y = false.
Proof.
  induction l as [|x l IH]; cbn [index_of In]; [tauto|]. destruct (p x) eqn:E; [discriminate|].
  destruct (index_of p l); [discriminate|]. intros _ y [<-|H]; auto.
Qed.
Lemma index_of_lt {A} (p : A -> bool) l i : index_of p l = Some i -> (i < length l)%nat.
Proof.
  revert i. induction l as [|x l IH]; cbn [index_of length]; [discriminate|]. destruct (p x); intros i H.
  - apply some_inj in H. lia.
  - destruct (index_of p l) as [j|]; [|discriminate]. cbn in H. apply some_inj in H. specialize (IH j eq_refl). lia.
Qed.
Lemma index_ofN_none {A} (p : A -> bool) l : index_ofN p l = None -> forall y, In y l -> p y = false.
Proof. unfold index_ofN. destruct (index_of p l) eqn:E; [discriminate|]. intros _. apply index_of_none, E. Qed.
Lemma index_ofN_lt {A} (p : A -> bool) l i : index_ofN p l = Some i -> valid_idx i l = true.
Proof.
  unfold index_ofN, valid_idx, len. destruct (index_of p l) as [j|] eqn:E; [|discriminate]. cbn. intros H.
  apply some_inj in H. subst i. apply index_of_lt in E. lia.
Qed.

Lemma nodup_by_snoc {A} (eqb : A -> A -> bool) l x : (forall a b, eqb a b = eqb b a) ->
  nodup_by eqb l = true -> (forall y, In y l -> eqb x y = false) -> nodup_by eqb (l ++ [x]) = true.
Proof.
  intros Hs. induction l as [|y l IH]; cbn [nodup_by app]; [reflexivity|].
  rewrite !andb_true_iff, !negb_true_iff. intros (H1 & H2) Hx. split.
  - rewrite existsb_app, H1. cbn [existsb]. rewrite Hs, (Hx y (or_introl eq_refl)). reflexivity.
  - apply IH; [exact H2|]. intros z Hz. apply Hx. right. exact Hz.
Qed.
Lemma nodup_str_by l : nodup_str l = nodup_by String.eqb l.
Proof. induction l as [|x l IH]; cbn [nodup_str nodup_by]; [reflexivity|]. rewrite IH. reflexivity. Qed.

Lemma keyed_gtex : forall a b, gtex_eqb a b = true <-> (gt_source a, gt_sampler a, gt_exts a) = (gt_source b, gt_sampler b, gt_exts b).
Proof.
  intros a b. unfold gtex_eqb, strs_eqb. rewrite !andb_true_iff, !keyed_optN, (keyed_list _ _ keyed_string), !map_id.
  split; [intros ((-> & ->) & ->); reflexivity|intros E; repeat split; congruence].
Qed.
Lemma gtex_eqb_sym a b : gtex_eqb a b = gtex_eqb b a.
Proof. apply (keyed_sym _ _ keyed_gtex). Qed.
Lemma samp_eqb_sym a b : samp_eqb a b = samp_eqb b a.
Proof. apply (keyed_sym _ _ keyed_samp). Qed.
Lemma str_eqb_sym a b : String.eqb a b = String.eqb b a.
Proof. apply String.eqb_sym. Qed.

Lemma valid_idx_app {A} i (l l' : list A) : valid_idx i l = true -> valid_idx i (l ++ l') = true.
Proof. unfold valid_idx, len. rewrite app_length. lia. Qed.
Lemma valid_opt_app {A} o (l l' : list A) : valid_opt o l = true -> valid_opt o (l ++ l') = true.
Proof. destruct o; cbn [valid_opt]; [apply valid_idx_app|auto]. Qed.
Lemma valid_idx_new {A} (l : list A) x : valid_idx (len l) (l ++ [x]) = true.
Proof. unfold valid_idx, len. rewrite app_length. cbn. lia. Qed.

Definition xdedup (x : texst) : Prop :=
  nodup_str (x_images x) = true /\ nodup_by samp_eqb (x_samplers x) = true /\ nodup_by gtex_eqb (x_texs x) = true /\
  (forall g, In g (x_texs x) -> valid_opt (gt_source g) (x_images x) = true /\ valid_opt (gt_sampler g) (x_samplers x) = true) /\
  (forall ptr i, In (ptr, i) (x_tab x) -> valid_idx i (x_texs x) = true).

Lemma xdedup_tex t x : xdedup x -> xdedup (snd (add_texture t x)) /\ valid_idx (ti_index (fst (add_texture t x))) (x_texs (snd (add_texture t x))) = true.
Proof.
  intros (Hi & Hs & Ht & Hv & Hp). unfold add_texture.
  change (x_tab (use_exts (tx_exts t) x)) with (x_tab x). change (x_images (use_exts (tx_exts t) x)) with (x_images x).
  change (x_samplers (use_exts (tx_exts t) x)) with (x_samplers x). change (x_texs (use_exts (tx_exts t) x)) with (x_texs x).
  destruct (lookupN (tx_ptr t) (x_tab x)) as [i|] eqn:El.
  - cbn [fst snd ti_index]. split; [exact (conj Hi (conj Hs (conj Ht (conj Hv Hp))))|]. apply (Hp (tx_ptr t)). clear -El.
    induction (x_tab x) as [|[k v] l IH]; cbn [lookupN] in El; [discriminate|].
    destruct (tx_ptr t =? k) eqn:E; [|right; auto]. apply some_inj in El. subst. left. f_equal. lia.
  - (* images *)
    set (ir := match index_ofN (String.eqb (tx_uri t)) (x_images x) with
               | Some i => (i, x_images x) | None => (len (x_images x), x_images x ++ [tx_uri t]) end).
    assert (HI : nodup_str (snd ir) = true /\ valid_idx (fst ir) (snd ir) = true /\ exists l, snd ir = x_images x ++ l).
    { unfold ir. destruct (index_ofN _ (x_images x)) as [i|] eqn:E; cbn [fst snd].
      - split; [exact Hi|]. split; [eapply index_ofN_lt; eauto|exists []; rewrite app_nil_r; reflexivity].
      - split; [|split; [apply valid_idx_new|eexists; reflexivity]].
        rewrite nodup_str_by in *. apply nodup_by_snoc; [apply str_eqb_sym|exact Hi|apply index_ofN_none, E]. }
    destruct ir as [img images]. cbn [fst snd] in HI. destruct HI as (Hi' & Hvi & (li & Eli)).
    set (sr := match tx_samp t with
               | None => (None, x_samplers x)
               | Some s => match index_ofN (samp_eqb s) (x_samplers x) with
                           | Some i => (Some i, x_samplers x)
                           | None => (Some (len (x_samplers x)), x_samplers x ++ [s]) end end).
    assert (HS : nodup_by samp_eqb (snd sr) = true /\ valid_opt (fst sr) (snd sr) = true /\ exists l, snd sr = x_samplers x ++ l).
    { unfold sr. destruct (tx_samp t) as [s|]; [|cbn [fst snd valid_opt]; split; [exact Hs|split; [reflexivity|exists []; rewrite app_nil_r; reflexivity]]].
      destruct (index_ofN _ (x_samplers x)) as [i|] eqn:E; cbn [fst snd valid_opt].
      - split; [exact Hs|]. split; [eapply index_ofN_lt; eauto|exists []; rewrite app_nil_r; reflexivity].
      - split; [|split; [apply valid_idx_new|eexists; reflexivity]].
        apply nodup_by_snoc; [apply samp_eqb_sym|exact Hs|apply index_ofN_none, E]. }
    destruct sr as [smp samplers]. cbn [fst snd] in HS. destruct HS as (Hs' & Hvs & (ls & Els)).
    assert (Hv' : forall g, In g (x_texs x) -> valid_opt (gt_source g) images = true /\ valid_opt (gt_sampler g) samplers = true).
    { intros g Hg. destruct (Hv g Hg). subst images samplers. split; apply valid_opt_app; assumption. }
    destruct (index_ofN (gtex_eqb _) (x_texs x)) as [i|] eqn:E; cbn [fst snd ti_index x_images x_samplers x_texs x_tab].
    + split; [exact (conj Hi' (conj Hs' (conj Ht (conj Hv' Hp))))|eapply index_ofN_lt; eauto].
    + split; [|apply valid_idx_new]. split; [exact Hi'|]. split; [exact Hs'|]. split; [|split].
      * apply nodup_by_snoc; [apply gtex_eqb_sym|exact Ht|apply index_ofN_none, E].
      * intros g Hg. apply in_app_or in Hg. destruct Hg as [Hg|[<-|[]]]; [auto|]. cbn [gt_source gt_sampler valid_opt]. auto.
      * intros ptr i [H|H]; [inversion H; apply valid_idx_new|apply valid_idx_app, (Hp ptr), H].
Qed.

(* images, samplers and textures of every document are pairwise different (stored once); every texture
   refers to an existing image and sampler; every recorded texture pointer to an existing texture *)
Theorem textures_stored_once sc :
  let s := to_summary (run sc) in
  nodup_str (s_images s) = true /\ nodup_by samp_eqb (s_samplers s) = true /\ nodup_by gtex_eqb (s_texs s) = true /\
  forallb (fun t => valid_opt (gt_source t) (s_images s) && valid_opt (gt_sampler t) (s_samplers s)) (s_texs s) = true.
Proof.
  cbv zeta. unfold to_summary. cbn [s_images s_samplers s_texs].
  assert (H : xdedup (st_x (run sc))).
  { apply (xsteps_inv xdedup) with (x := init_x); [intros t x Hx; apply xdedup_tex, Hx|auto|apply run_xsteps|].
    unfold xdedup, init_x. cbn. repeat split; auto; intros ? ? []. }
  destruct H as (H1 & H2 & H3 & H4 & _). repeat split; auto.
  apply forallb_forall. intros g Hg. destruct (H4 g Hg) as (-> & ->). reflexivity.
Qed.
