(* C07: stl.Read / stl.Write against an io.Reader that hands out the data in pieces and an io.Writer that fails.

   Reader: a stream is the list of pieces successive in.Read calls deliver (a piece may be empty: Read may return
   0, nil; when less is asked for than the piece holds, the rest of the piece is delivered by the next call), then
   io.EOF or any other error.  encoding/binary.Read fills its buffer with io.ReadFull, modelled by [pull]:
   exactly n bytes across piece boundaries, failure (io.ErrUnexpectedEOF / the reader's error) when the stream
   ends first.  [read_stream] is stl.Read (read.go:12-43) on such a stream: 80 header bytes, 4 count bytes, then
   per iteration min(remaining, k) records of 50 bytes.
   StlIoProofs.read_stream_eq_read: for every segmentation, read_stream k ps = read (concat ps).

   Writer: [write_to cap bytes] — a writer that accepts [cap] bytes and then fails (disk full, closed pipe):
   the accepted prefix and whether stl.Write must report an error. *)
From PF Require Import Base.Bytes Formats.Stl.
Open Scope N_scope.

Fixpoint pull (ps : list (list N)) (n : nat) : option (list N * list (list N)) :=
  match n with
  | O => Some ([], ps)
  | S _ =>
    match ps with
    | [] => None
    | p :: ps' =>
        if (length p <? n)%nat
        then do '(a, r) <- pull ps' (n - length p); Some (p ++ a, r)
        else Some (firstn n p, skipn n p :: ps')
    end
  end.

Definition get32s (ps : list (list N)) : option (N * list (list N)) :=
  do '(a, r) <- pull ps 4; do w <- de_le32 a; Some (w, r).

(* one binary.Read of c records: 50 c bytes pulled from the stream, then decoded *)
Definition read_recs_s (c : N) (ps : list (list N)) : option (list tri * list (list N)) :=
  do '(b, r) <- pull ps (50 * N.to_nat c);
  do '(ts, _) <- read_tris_rest (length b) c b;
  Some (ts, r).

Fixpoint read_chunks_s (fuel : nat) (k remaining : N) (ps : list (list N)) : option (list tri * list (list N)) :=
  if remaining =? 0 then Some ([], ps) else
  match fuel with
  | O => None
  | S f =>
      let c := N.min remaining k in
      do '(buf, r) <- read_recs_s c ps;
      do '(ts, r') <- read_chunks_s f k (remaining - c) r;
      Some (buf ++ ts, r')
  end.

Definition read_stream (k : N) (ps : list (list N)) : option (list N * list tri) :=
  do '(hdr, r) <- pull ps 80;
  do '(count, r) <- get32s r;
  do '(ts, _) <- read_chunks_s (length (concat r)) k count r;
  Some (hdr, ts).

(* a reader that fails (any error) after delivering the first [k] bytes is the stream of a cut input *)
Definition cut_stream (k : nat) (bytes : list N) : list N := firstn k bytes.

(* ---- failing writer ---- *)
Definition write_to (cap : nat) (bytes : list N) : list N * bool :=      (* (accepted, error reported) *)
  (firstn cap bytes, (cap <? length bytes)%nat).
