(* C05: proofs about the text layer (Formats/ObjText.v) and the byte-level forms of the headline theorems. *)
From Coq Require Import String Ascii.
From PF Require Import Base.Bytes Formats.Obj Formats.ObjProofs Formats.ObjText.
Open Scope list_scope.
Open Scope N_scope.

(* ====================================================================================== *)
(* strings.Fields                                                                          *)
(* ====================================================================================== *)
Definition cleanb (t : list N) : bool := nonnil t && forallb (fun c => negb (is_space c)) t.
Definition ne {A} (fs : list A) : bool := match fs with [] => false | _ => true end.

Lemma fields_cons_space c r : is_space c = true -> fields (c :: r) = fields r.
Proof. intros H. cbn [fields]. now rewrite H. Qed.

Lemma cleanb_cons c t : cleanb (c :: t) = true -> is_space c = false /\ (t = [] \/ cleanb t = true).
Proof.
  unfold cleanb. cbn [nonnil forallb andb]. rewrite andb_true_iff, negb_true_iff. intros [H1 H2].
  split; auto. destruct t; [left; reflexivity|right; exact H2].
Qed.

Lemma fields_tok_sp t : forall s rest, cleanb t = true -> is_space s = true ->
  fields (t ++ s :: rest) = t :: fields rest.
Proof.
  induction t as [|c t IH]; intros s rest Hc Hs; [discriminate|].
  destruct (cleanb_cons c t Hc) as (Hcs & Ht). cbn [app fields]. rewrite Hcs.
  destruct t as [|d t'].
  - cbn [app]. rewrite Hs. now rewrite (fields_cons_space s rest Hs).
  - destruct Ht as [Ht|Ht]; [discriminate|]. destruct (cleanb_cons d t' Ht) as (Hd & _).
    cbn [app]. rewrite Hd. change (d :: t' ++ s :: rest) with ((d :: t') ++ s :: rest).
    now rewrite (IH s rest Ht Hs).
Qed.
Lemma fields_tok t : cleanb t = true -> fields t = [t].
Proof.
  induction t as [|c t IH]; intros Hc; [discriminate|].
  destruct (cleanb_cons c t Hc) as (Hcs & Ht). cbn [fields]. rewrite Hcs.
  destruct t as [|d t']; [reflexivity|]. destruct Ht as [Ht|Ht]; [discriminate|].
  destruct (cleanb_cons d t' Ht) as (Hd & _). rewrite Hd, (IH Ht). reflexivity.
Qed.
Lemma fields_snoc_space l s : is_space s = true -> fields (l ++ [s]) = fields l.
Proof.
  intros Hs. induction l as [|c r IH]; [cbn [app]; now rewrite fields_cons_space|].
  cbn [app fields]. destruct (is_space c); [exact IH|].
  destruct r as [|d r'].
  - cbn [app]. rewrite Hs. now rewrite (fields_cons_space s [] Hs).
  - cbn [app] in *. destruct (is_space d); now rewrite IH.
Qed.
Lemma fields_blank l : forallb is_space l = true -> fields l = [].
Proof.
  induction l as [|c r IH]; [reflexivity|]. cbn [forallb]. rewrite andb_true_iff. intros [H1 H2].
  rewrite fields_cons_space; auto.
Qed.
Lemma fields_clean l : Forall (fun t => cleanb t = true) (fields l).
Proof.
  induction l as [|c r IH]; [constructor|]. cbn [fields]. destruct (is_space c) eqn:Hc; [exact IH|].
  assert (C1 : cleanb [c] = true) by (unfold cleanb; cbn; now rewrite Hc).
  destruct r as [|d r']; [repeat constructor; exact C1|].
  destruct (is_space d); [constructor; auto|].
  destruct (fields (d :: r')) as [|x xs]; [repeat constructor; exact C1|].
  inversion IH as [|? ? Hx Hxs]; subst. constructor; auto.
  unfold cleanb in *. cbn [nonnil forallb andb]. rewrite Hc. cbn. apply andb_true_iff in Hx. tauto.
Qed.

Lemma fields_join toks : Forall (fun t => cleanb t = true) toks -> fields (join_sp toks) = toks.
Proof.
  induction toks as [|t r IH]; intros H; [reflexivity|]. inversion H as [|? ? Ht Hr]; subst.
  cbn [join_sp flat_map app]. rewrite fields_cons_space by reflexivity. fold (join_sp r).
  destruct r as [|t2 r'].
  - cbn. rewrite app_nil_r. now apply fields_tok.
  - specialize (IH Hr). cbn [join_sp flat_map app] in *. fold (join_sp r') in *.
    rewrite fields_cons_space in IH by reflexivity.
    rewrite (fields_tok_sp t 32 _ Ht eq_refl), IH. reflexivity.
Qed.
Lemma fields_kw_join k toks : cleanb k = true -> Forall (fun t => cleanb t = true) toks ->
  fields (k ++ join_sp toks) = k :: toks.
Proof.
  intros Hk Ht. destruct toks as [|t r].
  - cbn. rewrite app_nil_r. now apply fields_tok.
  - pose proof (fields_join (t :: r) Ht) as E. cbn [join_sp flat_map app] in *. fold (join_sp r) in *.
    rewrite fields_cons_space in E by reflexivity.
    rewrite (fields_tok_sp k 32 _ Hk eq_refl), E. reflexivity.
Qed.

(* ====================================================================================== *)
(* bufio.ScanLines                                                                         *)
(* ====================================================================================== *)
Definition flds (l : list N) : list (list N) := fields (drop_cr l).
Lemma stmts_eq text : stmts text = filter ne (map flds (split_lines text)).
Proof. unfold stmts, scan_lines. now rewrite map_map. Qed.

Lemma drop_cr_snoc l : drop_cr (l ++ [13]) = l.
Proof.
  induction l as [|c r IH]; [reflexivity|]. cbn [app]. remember (r ++ [13]) as t eqn:E.
  destruct t as [|d t']; [destruct r; discriminate|].
  change (drop_cr (c :: d :: t')) with (c :: drop_cr (d :: t')). rewrite IH. reflexivity.
Qed.
Lemma drop_cr_cases l : drop_cr l = l \/ l = drop_cr l ++ [13].
Proof.
  induction l as [|c r IH]; [left; reflexivity|]. destruct r as [|d r'].
  - cbn [drop_cr]. destruct (c =? 13) eqn:E; [right; apply N.eqb_eq in E; now subst|left; reflexivity].
  - cbn [drop_cr] in *. destruct IH as [IH|IH]; [left; congruence|right]. cbn [app]. congruence.
Qed.
Lemma flds_fields l : flds l = fields l.
Proof.
  unfold flds. destruct (drop_cr_cases l) as [E|E]; [now rewrite E|].
  rewrite E at 2. now rewrite fields_snoc_space.
Qed.

Lemma split_lines_nil l : split_lines l = [] -> l = [].
Proof.
  destruct l as [|c r]; auto. cbn [split_lines]. destruct (c =? 10); [discriminate|].
  destruct (split_lines r); discriminate.
Qed.
Lemma split_lines_snoc_nl text :
  split_lines (text ++ [10]) = split_lines text \/ split_lines (text ++ [10]) = split_lines text ++ [[]].
Proof.
  induction text as [|c r IH]; [right; reflexivity|]. cbn [app split_lines].
  destruct (c =? 10).
  - destruct IH as [IH|IH]; rewrite IH; auto.
  - destruct IH as [IH|IH]; rewrite IH; auto.
    destruct (split_lines r) as [|x xs]; [left; reflexivity|right; reflexivity].
Qed.
Lemma split_lines_app_nl a b : split_lines (a ++ 10 :: b) = split_lines (a ++ [10]) ++ split_lines b.
Proof.
  induction a as [|c a IH]; [reflexivity|]. cbn [app split_lines]. destruct (c =? 10).
  - now rewrite IH.
  - rewrite IH. destruct (split_lines (a ++ [10])) as [|x xs] eqn:E; [|reflexivity].
    apply split_lines_nil in E. destruct a; discriminate.
Qed.

(* a final line without terminator is a line like any other *)
Theorem last_line_without_newline_kept text : stmts (text ++ [10]) = stmts text.
Proof.
  rewrite !stmts_eq. destruct (split_lines_snoc_nl text) as [E|E]; rewrite E; [reflexivity|].
  rewrite map_app, filter_app. cbn. now rewrite app_nil_r.
Qed.
(* the statements of a text are those of its lines, one after the other *)
Theorem stmts_nl a b : stmts (a ++ 10 :: b) = stmts a ++ stmts b.
Proof.
  rewrite <- (last_line_without_newline_kept a), !stmts_eq, split_lines_app_nl, map_app, filter_app. reflexivity.
Qed.
Lemma nonl_split l : forallb (fun c => negb (c =? 10)) l = true -> split_lines l = match l with [] => [] | _ => [l] end.
Proof.
  induction l as [|c r IH]; [reflexivity|]. cbn [forallb]. rewrite andb_true_iff, negb_true_iff. intros [H1 H2].
  cbn [split_lines]. rewrite H1, (IH H2). destruct r; reflexivity.
Qed.
Lemma stmts_single l : forallb (fun c => negb (c =? 10)) l = true ->
  stmts l = match fields l with [] => [] | fs => [fs] end.
Proof.
  intros H. rewrite stmts_eq, (nonl_split l H). destruct l as [|c r]; [reflexivity|].
  cbn [map filter]. rewrite flds_fields. destruct (fields (c :: r)); reflexivity.
Qed.

(* CRLF line ends change nothing *)
Definition crlf (text : list N) : list N := flat_map (fun c => if c =? 10 then [13; 10] else [c]) text.
Lemma split_lines_crlf text :
  Forall2 (fun a b => a = b \/ a = b ++ [13]) (split_lines (crlf text)) (split_lines text).
Proof.
  induction text as [|c r IH]; [constructor|]. cbn [crlf flat_map]. fold (crlf r).
  destruct (c =? 10) eqn:E.
  - cbn [app split_lines]. rewrite E. constructor; auto.
  - cbn [app split_lines]. rewrite E. inversion IH as [|x y xs ys Hxy Hr Ex Ey]; [repeat constructor; auto|].
    constructor; auto. destruct Hxy as [->| ->]; auto.
Qed.
Theorem crlf_ignored text : stmts (crlf text) = stmts text.
Proof.
  rewrite !stmts_eq. f_equal. pose proof (split_lines_crlf text) as H.
  induction H as [|x y xs ys Hxy Hr IH]; [reflexivity|]. cbn [map]. f_equal; auto.
  destruct Hxy as [->| ->]; auto. unfold flds at 1. rewrite drop_cr_snoc. symmetry. apply flds_fields.
Qed.

(* every byte string tokenises: its statements are non-empty lists of non-empty, blank-free tokens, and every
   statement is classified *)
Theorem text_layer_total pf pi pri text :
  Forall (fun fs => fs <> [] /\ Forall (fun t => cleanb t = true) fs) (stmts text) /\
  length (lines_of_bytes pf pi pri text) = length (stmts text).
Proof.
  split; [|apply map_length]. rewrite stmts_eq. apply Forall_forall. intros fs Hin.
  apply filter_In in Hin. destruct Hin as [Hin Hne]. split; [destruct fs; [discriminate|congruence]|].
  apply in_map_iff in Hin. destruct Hin as (l & <- & _). unfold flds. apply fields_clean.
Qed.

(* ====================================================================================== *)
(* blank lines and comments                                                                *)
(* ====================================================================================== *)
Lemma split_blank l : forallb is_space l = true -> Forall (fun x => forallb is_space x = true) (split_lines l).
Proof.
  induction l as [|c r IH]; [constructor|]. cbn [forallb]. rewrite andb_true_iff. intros [H1 H2].
  specialize (IH H2). cbn [split_lines]. destruct (c =? 10); [constructor; auto|].
  destruct (split_lines r) as [|x xs]; [repeat constructor; cbn; now rewrite H1|].
  inversion IH; subst. constructor; auto. cbn. now rewrite H1.
Qed.
Lemma stmts_blank l : forallb is_space l = true -> stmts l = [].
Proof.
  intros H. rewrite stmts_eq. pose proof (split_blank l H) as F.
  induction F as [|x xs Hx Hxs IH]; [reflexivity|]. cbn [map filter]. rewrite flds_fields, (fields_blank x Hx). exact IH.
Qed.
Lemma run_app cfg a : forall st b, run cfg st (a ++ b) = (dor st' <- run cfg st a; run cfg st' b).
Proof. induction a as [|l a IH]; intros st b; cbn; auto. destruct (step cfg st l); cbn; auto. Qed.

Theorem blank_and_comment_lines_ignored :
  (* a line of blanks (also "\r", tabs ...) between two lines is no statement *)
  (forall a l b, forallb is_space l = true -> stmts (a ++ 10 :: l ++ 10 :: b) = stmts (a ++ 10 :: b)) /\
  (* a line whose first field starts with '#' is the statement [Other] ... *)
  (forall pf pi pri k args, classify pf pi pri ((35 :: k) :: args) = TL Other) /\
  (* ... which neither the reader nor the direct meaning looks at *)
  (forall cfg a b, read_gen cfg (a ++ Other :: b) = read_gen cfg (a ++ b)) /\
  (forall a b, file_groups (a ++ Other :: b) = file_groups (a ++ b)).
Proof.
  split; [|split; [|split]].
  - intros a l b H. rewrite !stmts_nl, (stmts_blank l H). reflexivity.
  - reflexivity.
  - intros cfg a b. unfold read_gen. rewrite !run_app. destruct (run cfg rinit a); reflexivity.
  - intros a b. unfold file_groups. rewrite !srun_app. reflexivity.
Qed.

(* ====================================================================================== *)
(* printing and reading back                                                               *)
(* ====================================================================================== *)
Definition nonl (x : list N) : bool := forallb (fun c => negb (c =? 10)) x.
Definition no47 (x : list N) : bool := forallb (fun c => negb (c =? 47)) x.
Definition nosp (x : list N) : bool := forallb (fun c => negb (is_space c)) x.

Lemma beq_refl l : beq l l = true.
Proof. unfold beq. induction l; cbn; auto. now rewrite N.eqb_refl. Qed.
Lemma string_bytes s : string_of_bytes (kw s) = s.
Proof.
  unfold kw, string_of_bytes. induction s as [|a s IH]; [reflexivity|].
  cbn [bytes_of_string fold_right]. now rewrite ascii_N_embedding, IH.
Qed.
Lemma names_kw n : names (map kw n) = n.
Proof. unfold names. rewrite map_map. induction n as [|s r IH]; cbn [map]; [reflexivity|]. now rewrite string_bytes, IH. Qed.
Lemma cleanb_nosp t : cleanb t = true -> nosp t = true.
Proof. unfold cleanb. rewrite andb_true_iff. tauto. Qed.
Lemma nosp_nonl t : nosp t = true -> nonl t = true.
Proof.
  unfold nosp, nonl. rewrite !forallb_forall. intros H c Hc. specialize (H c Hc).
  unfold is_space in H. destruct (c =? 10); auto. rewrite !orb_true_r in H. discriminate.
Qed.
Lemma cleanb_app a b : cleanb a = true -> nosp b = true -> cleanb (a ++ b) = true.
Proof.
  unfold cleanb, nosp. rewrite !andb_true_iff, forallb_app. intros [H1 H2] H3.
  split; [destruct a; [discriminate|reflexivity]|]. now rewrite H2, H3.
Qed.
Lemma nonl_join toks : Forall (fun t => cleanb t = true) toks -> nonl (join_sp toks) = true.
Proof.
  induction 1 as [|t r Ht Hr IH]; [reflexivity|]. unfold nonl in *. cbn [join_sp flat_map forallb].
  rewrite forallb_app. fold (join_sp r). rewrite IH. cbn. rewrite andb_true_r.
  apply nosp_nonl, cleanb_nosp, Ht.
Qed.

Lemma split_on_none a : no47 a = true -> split_on 47 a = [a].
Proof.
  induction a as [|c r IH]; [reflexivity|]. unfold no47. cbn [forallb]. rewrite andb_true_iff, negb_true_iff.
  intros [H1 H2]. cbn [split_on]. rewrite H1, (IH H2). reflexivity.
Qed.
Lemma split_on_app a b : no47 a = true -> split_on 47 (a ++ 47 :: b) = a :: split_on 47 b.
Proof.
  induction a as [|c r IH]; [reflexivity|]. unfold no47. cbn [forallb]. rewrite andb_true_iff, negb_true_iff.
  intros [H1 H2]. cbn [app split_on]. rewrite H1, (IH H2). reflexivity.
Qed.

Section PrintRead.
Variables (pf : list N -> option N) (pi : list N -> option Z) (prf : N -> list N) (pri : Z -> list N).
(* what is assumed of number text: printing gives one blank-free token that parses back (strconv) *)
Hypothesis prf_ok : forall w, cleanb (prf w) = true /\ pf (prf w) = Some w.
Hypothesis pri_ok : forall z, cleanb (pri z) = true /\ no47 (pri z) = true /\ pi (pri z) = Some z.

Definition clean_name (n : name) : Prop := Forall (fun s => cleanb (kw s) = true) n.
Definition printable (l : line) : Prop :=
  match l with
  | V _ | VT _ | VN _ | Other => True
  | G n | UseMtl n | MtlLib n | O n => clean_name n
  | F a b c => snd a = 0 /\ snd b = 0 /\ snd c = 0
  | Fn _ | Short => False
  end.

Lemma pri_ne z : exists c r, pri z = c :: r.
Proof. destruct (pri_ok z) as (H & _). destruct (pri z); [discriminate|eauto]. Qed.

Lemma corner_clean c : cleanb (print_corner pri c) = true.
Proof.
  destruct c as [[[v t] n] s]. unfold print_corner.
  destruct (pri_ok v) as (Hv & _). apply cleanb_app; auto.
  destruct t as [t|], n as [n|]; cbn [nosp forallb]; auto.
  - destruct (pri_ok t) as (Ht & _), (pri_ok n) as (Hn & _). apply cleanb_nosp in Ht. apply cleanb_nosp in Hn.
    unfold nosp in *. cbn [forallb]. rewrite forallb_app, Ht. cbn. exact Hn.
  - destruct (pri_ok t) as (Ht & _). apply cleanb_nosp in Ht. exact Ht.
  - destruct (pri_ok n) as (Hn & _). apply cleanb_nosp in Hn. exact Hn.
Qed.

Lemma parse_print_corner c : snd c = 0 -> parse_corner pi pri (print_corner pri c) = Some c.
Proof.
  destruct c as [[[v t] n] s]. cbn [snd]. intros ->.
  remember (print_corner pri (v, t, n, 0)) as tok eqn:E.
  destruct (pri_ok v) as (_ & Nv & Pv).
  unfold parse_corner. destruct t as [t|], n as [n|].
  - destruct (pri_ok t) as (_ & Nt & Pt), (pri_ok n) as (_ & Nn & Pn).
    assert (S : split_on 47 tok = [pri v; pri t; pri n]).
    { subst tok. cbn [print_corner]. rewrite split_on_app, split_on_app, split_on_none; auto. }
    rewrite S, Pv. cbn. destruct (pri_ne t) as (c1 & r1 & E1). rewrite E1. rewrite <- E1, Pt, Pn. cbn.
    cbn in E. rewrite <- E, beq_refl. reflexivity.
  - destruct (pri_ok t) as (_ & Nt & Pt).
    assert (S : split_on 47 tok = [pri v; pri t]).
    { subst tok. cbn [print_corner]. rewrite split_on_app, split_on_none; auto. }
    rewrite S, Pv. cbn. rewrite Pt. cbn. cbn in E. rewrite <- E, beq_refl. reflexivity.
  - destruct (pri_ok n) as (_ & Nn & Pn).
    assert (S : split_on 47 tok = [pri v; []; pri n]).
    { subst tok. cbn [print_corner]. rewrite split_on_app; auto. cbn [split_on]. cbn. rewrite split_on_none; auto. }
    rewrite S, Pv. cbn. destruct (pri_ne n) as (c1 & r1 & E1). rewrite E1. rewrite <- E1, Pn. cbn.
    cbn in E. rewrite <- E, beq_refl. reflexivity.
  - assert (S : split_on 47 tok = [pri v]).
    { subst tok. cbn [print_corner]. rewrite app_nil_r. apply split_on_none; auto. }
    rewrite S, Pv. cbn. cbn in E. rewrite <- E, beq_refl. reflexivity.
Qed.

Lemma kw_clean_names n : clean_name n -> Forall (fun t => cleanb t = true) (map kw n).
Proof. unfold clean_name. rewrite Forall_map. auto. Qed.

Lemma fields_print_name k n : cleanb k = true -> clean_name n -> fields (k ++ print_name n) = k :: map kw n.
Proof.
  intros Hk Hn. destruct n as [|s r].
  - cbn [print_name map]. rewrite fields_snoc_space by reflexivity. now apply fields_tok.
  - unfold print_name. apply fields_kw_join; auto. now apply kw_clean_names.
Qed.
Lemma nonl_print_name k n : nonl k = true -> clean_name n -> nonl (k ++ print_name n) = true.
Proof.
  intros Hk Hn. unfold nonl in *. rewrite forallb_app, Hk. destruct n as [|s r]; [reflexivity|].
  apply (nonl_join _ (kw_clean_names _ Hn)).
Qed.

(* one statement: its text has no line break, splits into the expected fields and is classified as itself *)
Lemma print_line_ok l : printable l ->
  nonl (print_line prf pri l) = true /\
  exists fs, fields (print_line prf pri l) = fs /\ fs <> [] /\ classify pf pi pri fs = TL l.
Proof.
  intros P. destruct l as [[[x y] z]|[x y]|[[x y] z]|n|n|a b c|cs| |n|n|]; cbn [printable] in P; try contradiction.
  - destruct (prf_ok x) as (Cx & Px), (prf_ok y) as (Cy & Py), (prf_ok z) as (Cz & Pz).
    assert (F3 : Forall (fun t => cleanb t = true) [prf x; prf y; prf z]) by (repeat constructor; auto).
    split; [unfold nonl; cbn [print_line]; rewrite forallb_app; apply andb_true_iff; split; [reflexivity|apply (nonl_join _ F3)]|].
    eexists. split; [apply fields_kw_join; [reflexivity|exact F3]|]. split; [discriminate|].
    cbn. rewrite Px, Py, Pz. reflexivity.
  - destruct (prf_ok x) as (Cx & Px), (prf_ok y) as (Cy & Py).
    assert (F3 : Forall (fun t => cleanb t = true) [prf x; prf y]) by (repeat constructor; auto).
    split; [unfold nonl; cbn [print_line]; rewrite forallb_app; apply andb_true_iff; split; [reflexivity|apply (nonl_join _ F3)]|].
    eexists. split; [apply fields_kw_join; [reflexivity|exact F3]|]. split; [discriminate|].
    cbn. rewrite Px, Py. reflexivity.
  - destruct (prf_ok x) as (Cx & Px), (prf_ok y) as (Cy & Py), (prf_ok z) as (Cz & Pz).
    assert (F3 : Forall (fun t => cleanb t = true) [prf x; prf y; prf z]) by (repeat constructor; auto).
    split; [unfold nonl; cbn [print_line]; rewrite forallb_app; apply andb_true_iff; split; [reflexivity|apply (nonl_join _ F3)]|].
    eexists. split; [apply fields_kw_join; [reflexivity|exact F3]|]. split; [discriminate|].
    cbn. rewrite Px, Py, Pz. reflexivity.
  - split; [apply nonl_print_name; auto; reflexivity|].
    eexists. split; [apply fields_print_name; auto; reflexivity|]. split; [discriminate|]. cbn. now rewrite names_kw.
  - split; [apply nonl_print_name; auto; reflexivity|].
    eexists. split; [apply fields_print_name; auto; reflexivity|]. split; [discriminate|]. cbn. now rewrite names_kw.
  - destruct P as (Pa & Pb & Pc).
    assert (F3 : Forall (fun t => cleanb t = true) [print_corner pri a; print_corner pri b; print_corner pri c])
      by (repeat constructor; apply corner_clean).
    split; [unfold nonl; cbn [print_line]; rewrite forallb_app; apply andb_true_iff; split; [reflexivity|apply (nonl_join _ F3)]|].
    eexists. split; [apply fields_kw_join; [reflexivity|exact F3]|]. split; [discriminate|].
    cbn. rewrite (parse_print_corner a Pa), (parse_print_corner b Pb), (parse_print_corner c Pc). reflexivity.
  - split; [apply nonl_print_name; auto; reflexivity|].
    eexists. split; [apply fields_print_name; auto; reflexivity|]. split; [discriminate|]. cbn. now rewrite names_kw.
  - split; [apply nonl_print_name; auto; reflexivity|].
    eexists. split; [apply fields_print_name; auto; reflexivity|]. split; [discriminate|]. cbn. now rewrite names_kw.
  - split; [reflexivity|]. eexists. split; [reflexivity|]. split; [discriminate|]. reflexivity.
Qed.

(* reading the bytes the writer prints gives back the line records it printed *)
Theorem print_then_read ls : Forall printable ls ->
  lines_of_bytes pf pi pri (print_lines prf pri ls) = map TL ls.
Proof.
  unfold lines_of_bytes. induction 1 as [|l r Hl Hr IH]; [reflexivity|].
  cbn [print_lines flat_map]. fold (print_lines prf pri r). rewrite <- app_assoc. cbn [app].
  rewrite stmts_nl, map_app, IH. destruct (print_line_ok l Hl) as (NL & fs & Ef & Ne & Ec).
  rewrite (stmts_single _ NL), Ef. destruct fs; [congruence|]. cbn [map app]. now rewrite Ec.
Qed.
End PrintRead.

(* ====================================================================================== *)
(* the headline theorems over bytes                                                        *)
(* ====================================================================================== *)
Section Bytes.
Variables (pf : list N -> option N) (pi : list N -> option Z) (prf : N -> list N) (pri : Z -> list N).
Hypothesis prf_ok : forall w, cleanb (prf w) = true /\ pf (prf w) = Some w.
Hypothesis pri_ok : forall z, cleanb (pri z) = true /\ no47 (pri z) = true /\ pi (pri z) = Some z.

(* names that can be printed as statement arguments: blank-free, non-empty pieces *)
Definition mesh_clean (m : mesh) : Prop :=
  clean_name (m_name m) /\ Forall (fun cm => clean_name (mat_written (snd cm))) (m_mats m).

Lemma printable_faces wc ts : (forall i, snd (wc i) = 0) -> Forall printable (map (face_line wc) ts).
Proof. intros H. induction ts as [|[[a b] c] ts IH]; constructor; cbn; auto. Qed.
Lemma printable_mat_lines wc idx mats : (forall i, snd (wc i) = 0) ->
  Forall (fun cm => clean_name (mat_written (snd cm))) mats ->
  forall start body, mat_lines wc idx start mats = Ok body -> Forall printable body.
Proof.
  intros Hw. induction 1 as [|[cnt mt] r Hm Hr IH]; intros start body H; cbn [mat_lines] in H.
  - injection H as <-. constructor.
  - destruct (seg_lines wc idx start cnt) as [fs| |] eqn:Es; try discriminate. cbn [rbind] in H.
    destruct (mat_lines wc idx (start + 3 * cnt) r) as [rest| |] eqn:Er; try discriminate. cbn [rbind] in H.
    injection H as <-. constructor; [exact Hm|]. apply Forall_app. split; [|eapply IH; eauto].
    unfold seg_lines in Es. destruct (_ <? _)%nat; try discriminate.
    destruct (tris_of _); try discriminate. injection Es as <-. now apply printable_faces.
Qed.
Lemma printable_groups multi ms : Forall mesh_clean ms ->
  forall o gl, groups_lines false multi o ms = Ok gl -> Forall printable gl.
Proof.
  induction 1 as [|m r [Hn Hm] Hr IH]; intros o gl H; cbn [groups_lines] in H.
  - injection H as <-. constructor.
  - destruct (mesh_lines multi o m) as [a| |] eqn:Ea; try discriminate. cbn [rbind] in H.
    destruct (groups_lines false multi (advance false o m) r) as [b| |] eqn:Eb; try discriminate. cbn [rbind] in H.
    injection H as <-. apply Forall_app. split; [|eapply IH; eauto].
    unfold mesh_lines in Ea. destruct (body_lines (wcorner o m) m) as [body| |] eqn:Ebo; try discriminate.
    cbn [rbind] in Ea. injection Ea as <-. apply Forall_app. split.
    + destruct (multi || nonnil (m_name m)); constructor; auto.
    + unfold body_lines in Ebo. destruct (m_mats m) eqn:Em.
      * destruct (tris_of (m_idx m)); try discriminate. injection Ebo as <-. now apply printable_faces.
      * eapply printable_mat_lines; eauto. reflexivity.
Qed.
Lemma printable_vblocks ms : Forall printable (flat_map vlines ms).
Proof.
  apply Forall_forall. intros l Hl. apply in_flat_map in Hl. destruct Hl as (m & _ & Hl).
  unfold vlines in Hl. repeat (apply in_app_or in Hl; destruct Hl as [Hl|Hl]);
    apply in_map_iff in Hl; destruct Hl as (p & <- & _); exact I.
Qed.
Lemma printable_write mtl ms ls :
  Forall mesh_clean ms -> match mtl with Some f => clean_name f | None => True end ->
  write mtl ms = Ok ls -> Forall printable ls.
Proof.
  intros Hms Hmtl H. unfold write, write_gen in H.
  destruct (groups_lines false _ o0 ms) as [gl| |] eqn:Eg; try discriminate. cbn [rbind] in H. injection H as <-.
  change (Forall printable (head_lines mtl ++ flat_map vlines ms ++ gl)).
  apply Forall_app. split; [|apply Forall_app; split; [apply printable_vblocks|eapply printable_groups; eauto]].
  destruct mtl as [f|]; repeat constructor; auto.
Qed.

Lemma good_prefix_TL ls : good_prefix (map TL ls) = (ls, false).
Proof. induction ls as [|l r IH]; cbn; auto. now rewrite IH. Qed.
Lemma read_bytes_print ls : Forall printable ls ->
  read_bytes pf pi pri (print_lines prf pri ls) = read ls.
Proof.
  intros P. unfold read_bytes. rewrite (print_then_read pf pi prf pri prf_ok pri_ok ls P), good_prefix_TL. reflexivity.
Qed.

Theorem roundtrip_bytes mtl ms :
  wf_list ms = true -> mtl <> Some [] ->
  Forall mesh_clean ms -> match mtl with Some f => clean_name f | None => True end ->
  exists text gs, write_bytes prf pri mtl ms = Ok text /\
    lines_of_bytes pf pi pri text = map TL (match write mtl ms with Ok ls => ls | _ => [] end) /\
    read_bytes pf pi pri text = Ok (gs, libs_of mtl) /\ length gs = length ms /\
    forall k m g, nth_error ms k = Some m -> nth_error gs k = Some g ->
      m_name g = m_name m /\ corners g = corners m /\
      tri_mats (m_mats g) = map (fun mt => Some (mat_written mt)) (tri_mats (m_mats m)).
Proof.
  intros W Hm Hc Hcm. destruct (roundtrip_groups mtl ms W Hm) as (ls & gs & E & R & L & K).
  pose proof (printable_write mtl ms ls Hc Hcm E) as P.
  exists (print_lines prf pri ls), gs. unfold write_bytes. rewrite E. cbn [rbind].
  split; [reflexivity|]. split; [now apply print_then_read|]. split; [now rewrite read_bytes_print|]. auto.
Qed.

(* load -> save -> load on bytes.  PARTIAL in one respect: that the names the reader hands out can be printed
   (blank-free pieces - true because they are fields of the input, not proved here: it needs byte values < 256
   and an invariant through the reader) is a premise. *)
Theorem load_save_bytes_partial text file :
  good_prefix (lines_of_bytes pf pi pri text) = (file, false) -> valid file = true ->
  exists gs1, read_bytes pf pi pri text = Ok (gs1, lib_names file) /\ map obs gs1 = file_groups file /\
    (Forall mesh_clean gs1 ->
     exists text2 gs2, write_bytes prf pri None gs1 = Ok text2 /\
       read_bytes pf pi pri text2 = Ok (gs2, []) /\ map obs gs2 = map gobs_written (file_groups file)).
Proof.
  intros G V. destruct (load_save file V) as (gs1 & ls & gs2 & R1 & O1 & Wr & V2 & R2 & O2).
  exists gs1. unfold read_bytes at 1. rewrite G. split; [exact R1|]. split; [exact O1|].
  intros Hc. pose proof (printable_write None gs1 ls Hc I Wr) as P.
  exists (print_lines prf pri ls), gs2. unfold write_bytes. rewrite Wr. cbn [rbind].
  split; [reflexivity|]. split; [now rewrite read_bytes_print|exact O2].
Qed.
End Bytes.

(* ====================================================================================== *)
(* Round 4: the names the reader hands out are printable (closes load_save_bytes_partial)  *)
(* ====================================================================================== *)
(* 1. every byte of a token of a statement is a byte of the text *)
Lemma split_lines_in l : forall x c, In x (split_lines l) -> In c x -> In c l.
Proof.
  induction l as [|c0 r IH]; intros x c Hx Hc; [destruct Hx|]. cbn [split_lines] in Hx.
  destruct (c0 =? 10).
  - destruct Hx as [<-|Hx]; [destruct Hc|]. right. eapply IH; eauto.
  - destruct (split_lines r) as [|x0 xs] eqn:E.
    + destruct Hx as [<-|[]]. destruct Hc as [<-|[]]. now left.
    + destruct Hx as [<-|Hx].
      * destruct Hc as [<-|Hc]; [now left|]. right. apply (IH x0); [now left|exact Hc].
      * right. apply (IH x); [now right|exact Hc].
Qed.
Lemma drop_cr_in l c : In c (drop_cr l) -> In c l.
Proof. destruct (drop_cr_cases l) as [->|E]; [auto|]. intros H. rewrite E. apply in_or_app. now left. Qed.
Lemma fields_in l : forall t c, In t (fields l) -> In c t -> In c l.
Proof.
  induction l as [|c0 r IH]; intros t c Ht Hc; [destruct Ht|]. cbn [fields] in Ht.
  destruct (is_space c0); [right; eapply IH; eauto|].
  destruct r as [|d r']; [destruct Ht as [<-|[]]; exact Hc|].
  destruct (is_space d).
  - destruct Ht as [<-|Ht]; [destruct Hc as [<-|[]]; now left|]. right. eapply IH; eauto.
  - destruct (fields (d :: r')) as [|x xs] eqn:E.
    + destruct Ht as [<-|[]]. destruct Hc as [<-|[]]. now left.
    + destruct Ht as [<-|Ht].
      * destruct Hc as [<-|Hc]; [now left|]. right. apply (IH x); [now left|exact Hc].
      * right. apply (IH t); [now right|exact Hc].
Qed.
Lemma stmts_bytes text : bytes_ok text -> Forall (Forall bytes_ok) (stmts text).
Proof.
  intros B. unfold bytes_ok in *. rewrite Forall_forall in B.
  apply Forall_forall. intros fs Hfs. apply Forall_forall. intros t Ht. apply Forall_forall. intros c Hc.
  apply B. unfold stmts in Hfs. apply filter_In in Hfs. destruct Hfs as [Hfs _].
  apply in_map_iff in Hfs. destruct Hfs as (ln & <- & Hln). unfold scan_lines in Hln.
  apply in_map_iff in Hln. destruct Hln as (raw & <- & Hraw).
  eapply split_lines_in; [exact Hraw|]. apply drop_cr_in. eapply fields_in; eauto.
Qed.

(* 2. a token made of bytes survives the trip through a Coq string *)
Lemma kw_string_of_bytes t : bytes_ok t -> kw (string_of_bytes t) = t.
Proof.
  unfold kw, string_of_bytes, bytes_ok. induction 1 as [|c r Hc Hr IH]; [reflexivity|].
  cbn [fold_right bytes_of_string]. rewrite IH. f_equal. apply N_ascii_embedding. exact Hc.
Qed.
Lemma kw_append a b : kw (a ++ b)%string = kw a ++ kw b.
Proof. unfold kw. induction a as [|x a IH]; [reflexivity|]. cbn [String.append bytes_of_string app]. now rewrite IH. Qed.
Lemma kw_concat n : kw (String.concat "" n) = flat_map kw n.
Proof.
  induction n as [|s r IH]; [reflexivity|]. destruct r as [|s' r'].
  - cbn [String.concat flat_map]. now rewrite app_nil_r.
  - change (String.concat "" (s :: s' :: r')) with (s ++ ("" ++ String.concat "" (s' :: r')))%string.
    rewrite kw_append. change ("" ++ String.concat "" (s' :: r'))%string with (String.concat "" (s' :: r')).
    rewrite IH. reflexivity.
Qed.

(* 3. names of the statements of a byte text, and names built from them, are printable *)
Definition src_clean (mt : option name) : Prop := match mt with Some n => clean_name n | None => True end.
Definition line_clean (l : line) : Prop :=
  match l with G n | UseMtl n | MtlLib n | O n => clean_name n | _ => True end.

Lemma names_clean args : Forall (fun t => cleanb t = true) args -> Forall bytes_ok args -> clean_name (names args).
Proof.
  unfold clean_name, names. intros C B. apply Forall_map. rewrite Forall_forall in *. intros t Ht.
  rewrite kw_string_of_bytes by auto. auto.
Qed.
Lemma classify_clean pf pi pri fs : Forall (fun t => cleanb t = true) fs -> Forall bytes_ok fs ->
  match classify pf pi pri fs with TL l => line_clean l | TBad => True end.
Proof.
  intros C B. destruct fs as [|k args]; [exact I|].
  assert (Hn : clean_name (names args)) by (inversion C; inversion B; subst; now apply names_clean).
  unfold classify.
  destruct (beq k (kw "v") || beq k (kw "vn")).
  { destruct args as [|a [|b [|c r]]]; try (destruct (parse_all pf _); exact I).
    destruct (pf a), (pf b), (pf c); try exact I. destruct (beq k (kw "v")); exact I. }
  destruct (beq k (kw "vt")).
  { destruct args as [|a [|b r]]; try (destruct (parse_all pf _); exact I).
    destruct (pf a), (pf b); exact I. }
  destruct (beq k (kw "g")); [exact Hn|]. destruct (beq k (kw "usemtl")); [exact Hn|].
  destruct (beq k (kw "mtllib")); [exact Hn|]. destruct (beq k (kw "o")); [exact Hn|].
  destruct (beq k (kw "f")); [|exact I].
  destruct (parse_all _ args) as [[|a [|b [|c [|d r]]]]|]; exact I.
Qed.
Lemma good_prefix_clean tls : Forall (fun tl => match tl with TL l => line_clean l | TBad => True end) tls ->
  Forall line_clean (fst (good_prefix tls)).
Proof.
  induction 1 as [|tl r Hl Hr IH]; [constructor|]. cbn [good_prefix]. destruct tl as [l|]; [|constructor].
  destruct (good_prefix r) as [ls bad]. cbn [fst] in *. constructor; auto.
Qed.
Lemma file_clean pf pi pri text : bytes_ok text -> Forall line_clean (fst (good_prefix (lines_of_bytes pf pi pri text))).
Proof.
  intros B. apply good_prefix_clean. unfold lines_of_bytes. apply Forall_map.
  pose proof (stmts_bytes text B) as SB. destruct (text_layer_total pf pi pri text) as [SC _].
  rewrite Forall_forall in *. intros fs Hfs. apply classify_clean; [apply (SC fs Hfs)|apply (SB fs Hfs)].
Qed.

Lemma nosp_flat_kw n : clean_name n -> nosp (flat_map kw n) = true.
Proof.
  unfold clean_name, nosp. induction 1 as [|s r Hs Hr IH]; [reflexivity|]. cbn [flat_map].
  rewrite forallb_app, IH, andb_true_r. apply cleanb_nosp, Hs.
Qed.
Lemma mat_written_clean mt : src_clean mt -> clean_name (mat_written mt).
Proof.
  destruct mt as [[|s r]|]; cbn [src_clean mat_written]; intros H.
  - constructor.
  - constructor; [|constructor]. rewrite kw_concat. cbn [flat_map]. inversion H; subst.
    apply cleanb_app; [assumption|now apply nosp_flat_kw].
  - repeat constructor.
Qed.

(* 4. the invariant through obj.ReadMesh: group names and material names are arguments of g / usemtl lines (or the
      constant "Default") *)
Definition mats_clean (mats : list (nat * option name)) : Prop := Forall (fun cm => src_clean (snd cm)) mats.
Definition mesh_src_clean (m : mesh) : Prop := clean_name (m_name m) /\ mats_clean (m_mats m).
Definition rstate_clean (st : rstate) : Prop :=
  Forall mesh_src_clean (r_done st) /\ clean_name (w_name (r_w st)) /\ mats_clean (w_mats (r_w st)).

Lemma set_last_clean mats c : mats_clean mats -> mats_clean (set_last mats c).
Proof.
  unfold mats_clean. induction 1 as [|[c0 a] r Ha Hr IH]; [constructor|]. cbn [set_last].
  destruct r as [|y r']; [repeat constructor; exact Ha|]. constructor; [exact Ha|exact IH].
Qed.
Lemma close_mats_clean since mats : mats_clean mats -> mats_clean (close_mats since mats).
Proof. intros H. unfold close_mats. destruct (_ && _); [now apply set_last_clean|exact H]. Qed.
Lemma corner_step_names st g c g' p : corner_step st g c = Ok (g', p) -> w_name g' = w_name g /\ w_mats g' = w_mats g.
Proof.
  unfold corner_step. destruct (find_idx corner_eqb c (w_tbl g)); [intros [= <- _]; auto|].
  destruct c as [[[v vt] vn] sp]. destruct (look_req (r_v st) v); try discriminate. cbn [rbind].
  destruct (look_opt (r_vn st) vn); try discriminate. cbn [rbind].
  destruct (look_opt (r_vt st) vt); try discriminate. cbn [rbind]. intros [= <- _]. auto.
Qed.
Lemma face_step_clean st a b c st' : rstate_clean st -> face_step st a b c = Ok st' -> rstate_clean st'.
Proof.
  intros (Hd & Hn & Hm). unfold face_step.
  destruct (corner_step st (r_w st) a) as [[g1 p1]| |] eqn:E1; try discriminate. cbn [rbind].
  destruct (corner_step st g1 b) as [[g2 p2]| |] eqn:E2; try discriminate. cbn [rbind].
  destruct (corner_step st g2 c) as [[g3 p3]| |] eqn:E3; try discriminate. cbn [rbind].
  intros [= <-]. apply corner_step_names in E1, E2, E3. destruct E1 as [N1 M1], E2 as [N2 M2], E3 as [N3 M3].
  unfold rstate_clean. cbn [r_done r_w add_tri w_name w_mats]. rewrite N3, N2, N1, M3, M2, M1. auto.
Qed.
Lemma default_clean : clean_name default_name.
Proof. repeat constructor. Qed.
Lemma step_clean cfg st l st' : line_clean l -> rstate_clean st -> step cfg st l = Ok st' -> rstate_clean st'.
Proof.
  intros Hl Hst. pose proof Hst as (Hd & Hn & Hm).
  destruct l as [p|p|p|n|n|a b c|cs| |n|n|]; cbn [step line_clean] in *.
  - intros [= <-]. exact Hst.
  - intros [= <-]. exact Hst.
  - intros [= <-]. exact Hst.
  - destruct (nonnil n || bare_g cfg); try discriminate. destruct (nonnil (w_tris (r_w st))).
    + assert (T : forall mats, mats_clean mats -> mesh_src_clean (to_mesh cfg (r_w st) mats)) by (intros mats Hx; split; assumption).
      destruct (close_at_g cfg); intros [= <-]; unfold rstate_clean; cbn [r_done r_w wnew w_name w_mats];
        (split; [apply Forall_app; split; [exact Hd|constructor; [|constructor]; apply T; auto using close_mats_clean]|split; [exact Hl|constructor]]).
    + intros [= <-]. unfold rstate_clean. cbn [set_w r_done r_w set_name w_name w_mats]. auto.
  - destruct (nonnil n); try discriminate. intros [= <-]. unfold rstate_clean. cbn [r_done r_w set_mats w_name w_mats].
    split; [exact Hd|]. split; [exact Hn|]. apply Forall_app. split; [|repeat constructor; exact Hl].
    destruct (0 <? r_since st)%nat; [|exact Hm]. destruct (nonnil (w_mats (r_w st))); [now apply set_last_clean|].
    repeat constructor.
  - now apply face_step_clean.
  - destruct cs as [|a [|b [|c r]]]; try discriminate. now apply face_step_clean.
  - discriminate.
  - destruct (nonnil n); try discriminate. intros [= <-]. exact Hst.
  - intros [= <-]. exact Hst.
  - intros [= <-]. exact Hst.
Qed.
Lemma run_clean cfg ls : forall st st', Forall line_clean ls -> rstate_clean st -> run cfg st ls = Ok st' -> rstate_clean st'.
Proof.
  induction ls as [|l r IH]; intros st st' Hls Hst; cbn [run]; [intros [= <-]; exact Hst|].
  inversion Hls; subst. destruct (step cfg st l) as [st1| |] eqn:E; try discriminate. cbn [rbind].
  apply IH; auto. eapply step_clean; eauto.
Qed.
Theorem read_names_clean cfg ls gs libs : Forall line_clean ls -> read_gen cfg ls = Ok (gs, libs) -> Forall mesh_src_clean gs.
Proof.
  intros Hls. unfold read_gen. destruct (run cfg rinit ls) as [st| |] eqn:E; try discriminate. cbn [rbind].
  intros [= <- _]. assert (I0 : rstate_clean rinit) by (repeat split; constructor).
  destruct (run_clean cfg ls rinit st Hls I0 E) as (Hd & Hn & Hm). unfold finish. cbn [fst].
  apply Forall_app. split; [exact Hd|]. constructor; [|constructor]. split; [exact Hn|]. now apply close_mats_clean.
Qed.

Section BytesClosed.
Variables (pf : list N -> option N) (pi : list N -> option Z) (prf : N -> list N) (pri : Z -> list N).
Hypothesis prf_ok : forall w, cleanb (prf w) = true /\ pf (prf w) = Some w.
Hypothesis pri_ok : forall z, cleanb (pri z) = true /\ no47 (pri z) = true /\ pi (pri z) = Some z.

Lemma src_mesh_clean m : mesh_src_clean m -> mesh_clean m.
Proof.
  intros [Hn Hm]. split; [exact Hn|]. unfold mats_clean in Hm. rewrite Forall_forall in *.
  intros cm Hc. apply mat_written_clean. auto.
Qed.

(* Clause 2 over bytes, no side premise left: for every BYTE string (values < 256) whose statements all parse and
   form a valid triangulated OBJ, read / write / read on bytes succeed and no face is lost or invented. *)
Theorem load_save_bytes text file :
  bytes_ok text -> good_prefix (lines_of_bytes pf pi pri text) = (file, false) -> valid file = true ->
  exists gs1 text2 gs2,
    read_bytes pf pi pri text = Ok (gs1, lib_names file) /\ map obs gs1 = file_groups file /\
    write_bytes prf pri None gs1 = Ok text2 /\
    read_bytes pf pi pri text2 = Ok (gs2, []) /\ map obs gs2 = map gobs_written (file_groups file).
Proof.
  intros B G V. destruct (load_save_bytes_partial pf pi prf pri prf_ok pri_ok text file G V) as (gs1 & R1 & O1 & K).
  assert (C : Forall mesh_clean gs1).
  { pose proof (file_clean pf pi pri text B) as FC. rewrite G in FC. cbn [fst] in FC.
    unfold read_bytes in R1. rewrite G in R1.
    eapply Forall_impl; [exact src_mesh_clean|]. eapply read_names_clean; eauto. }
  destruct (K C) as (text2 & gs2 & W & R2 & O2). exists gs1, text2, gs2. auto.
Qed.
End BytesClosed.
