(* C14, round 4: ASCII bodies at BYTE level.  The token-level theorems of PrefixProofs.v speak about "j complete
   lines and m tokens of the next one"; the harness decides with its own tokenizer which token prefix a byte cut
   is.  Here that step is inside the model: [scan] is bufio.Scanner with ScanLines (the '\n'-terminated lines and
   the non-empty unterminated rest), [fields_of] is strings.Fields (runs of non-space bytes), [render] writes token
   lines with single spaces and '\n'.  A cut at a token boundary of the rendered text IS the token prefix
   (text_cut_tokens), so the byte-level reader composed of scan, fields, a token parser and read_mesh inherits the
   threshold theorem (ply_ascii_text_lines_prefix) and the mid-line rejection (ply_ascii_text_vertex_cut). *)
From Coq Require Import String.
From PF Require Import Base.Bytes Base.BytesProofs.
From PF Require Import Formats.PlyRead Formats.PrefixProofs.
Open Scope list_scope.
Open Scope N_scope.

Definition is_space (b : N) : bool := (b =? 32) || (b =? 9) || (b =? 10) || (b =? 11) || (b =? 12) || (b =? 13).

(* bufio.Scanner / ScanLines: lines end at '\n'; a non-empty rest without '\n' is the last line *)
Fixpoint scan (l cur : list N) : list (list N) :=
  match l with
  | [] => match cur with [] => [] | _ => [rev cur] end
  | b :: r => if b =? 10 then rev cur :: scan r [] else scan r (b :: cur)
  end.

(* strings.Fields *)
Fixpoint fields_acc (l cur : list N) : list (list N) :=
  match l with
  | [] => match cur with [] => [] | _ => [rev cur] end
  | b :: r => if is_space b then (match cur with [] => fields_acc r [] | _ => rev cur :: fields_acc r [] end)
              else fields_acc r (b :: cur)
  end.
Definition fields_of (l : list N) : list (list N) := fields_acc l [].

(* a token: non-empty, no white space *)
Definition tok_ok (t : list N) : Prop := t <> [] /\ Forall (fun b => is_space b = false) t.

Fixpoint render_line (toks : list (list N)) : list N :=
  match toks with
  | [] => []
  | [t] => t
  | t :: ts => t ++ 32 :: render_line ts
  end.
Definition render (ls : list (list (list N))) : list N := flat_map (fun l => render_line l ++ [10]) ls.

(* the byte position right after [j] complete lines and [m] tokens of the next *)
Definition boundary (ls : list (list (list N))) (j m : nat) : nat :=
  (length (render (firstn j ls)) + length (render_line (firstn m (nth j ls []))))%nat.

Definition token_prefix {A} (ls : list (list A)) (j m : nat) : list (list A) :=
  firstn j ls ++ (match m with O => [] | _ => [firstn m (nth j ls [])] end).

(* ---- strings.Fields on a rendered line ---- *)
Lemma fields_acc_tok t : forall rest cur, Forall (fun b => is_space b = false) t ->
  fields_acc (t ++ rest) cur = fields_acc rest (rev t ++ cur).
Proof.
  induction t as [|b t IH]; intros rest cur H; [reflexivity|].
  inversion H as [|? ? Hb Ht]; subst. cbn [app fields_acc]. rewrite Hb. rewrite IH by assumption.
  cbn [rev]. rewrite <- app_assoc. reflexivity.
Qed.

Lemma rev_nonempty {A} (t : list A) : t <> [] -> rev t <> [].
Proof. destruct t; [congruence|]. intros _ H. apply (f_equal (@length A)) in H. cbn [rev] in H. rewrite app_length in H. cbn in H. lia. Qed.

Lemma fields_render_line toks : Forall tok_ok toks -> fields_of (render_line toks) = toks.
Proof.
  unfold fields_of. induction toks as [|t ts IH]; intros H; [reflexivity|].
  inversion H as [|? ? [Hne Hsp] Hts]; subst.
  destruct ts as [|t' ts'].
  - cbn [render_line]. rewrite <- (app_nil_r t) at 1. rewrite fields_acc_tok by assumption. cbn [fields_acc].
    rewrite app_nil_r. destruct (rev t) eqn:E; [exfalso; apply (rev_nonempty t Hne E)|]. rewrite <- E, rev_involutive. reflexivity.
  - change (render_line (t :: t' :: ts')) with (t ++ 32 :: render_line (t' :: ts')).
    rewrite fields_acc_tok by assumption. cbn [fields_acc is_space]. cbn [N.eqb Pos.eqb orb].
    rewrite app_nil_r. destruct (rev t) eqn:E; [exfalso; apply (rev_nonempty t Hne E)|]. rewrite <- E, rev_involutive.
    rewrite IH by assumption. reflexivity.
Qed.

(* ---- a trailing separator, a number cut in the middle ---- *)
(* strings.Fields drops trailing white space: the text of a line followed by any run of separators (blanks, tabs)
   splits into the same tokens -- a cut right AFTER a separator is the same token prefix as the cut before it *)
Lemma fields_trailing_spaces toks seps : Forall tok_ok toks -> Forall (fun b => is_space b = true) seps ->
  fields_of (render_line toks ++ seps) = toks.
Proof.
  intros Ht Hs.
  assert (Hsp : forall cur, fields_acc seps cur = match cur with [] => [] | _ => [rev cur] end).
  { induction seps as [|b seps IH]; intros cur; [reflexivity|].
    inversion Hs as [|? ? Hb Hs']; subst. cbn [fields_acc]. rewrite Hb.
    destruct cur; rewrite (IH Hs'); reflexivity. }
  unfold fields_of. induction toks as [|t ts IH]; [cbn [render_line app]; apply Hsp|].
  inversion Ht as [|? ? [Hne Hsp'] Hts]; subst.
  destruct ts as [|t' ts'].
  - cbn [render_line]. rewrite fields_acc_tok by assumption. rewrite app_nil_r, Hsp.
    destruct (rev t) eqn:E; [exfalso; apply (rev_nonempty t Hne E)|]. rewrite <- E, rev_involutive. reflexivity.
  - change (render_line (t :: t' :: ts')) with (t ++ 32 :: render_line (t' :: ts')).
    rewrite <- app_assoc. rewrite fields_acc_tok by assumption. cbn [app fields_acc is_space N.eqb Pos.eqb orb].
    rewrite app_nil_r. destruct (rev t) eqn:E; [exfalso; apply (rev_nonempty t Hne E)|]. rewrite <- E, rev_involutive.
    rewrite IH by assumption. reflexivity.
Qed.

(* a number cut in the middle: the line splits into the complete tokens and the shorter spelling [p] that is left
   (whether [p] still reads as a number is the token parser's business: PVal / PBad of Check.C14) *)
Lemma fields_partial_token toks p : Forall tok_ok toks -> tok_ok p ->
  fields_of (render_line (toks ++ [p])) = toks ++ [p].
Proof.
  intros Ht Hp. apply fields_render_line. apply Forall_app. split; [assumption|constructor; [assumption|constructor]].
Qed.

(* ---- prefixes of a rendered line ---- *)
Lemma render_line_firstn toks : forall m,
  firstn (length (render_line (firstn m toks))) (render_line toks) = render_line (firstn m toks).
Proof.
  induction toks as [|t ts IH]; intros m; [destruct m; reflexivity|].
  destruct m as [|m]; [reflexivity|].
  destruct ts as [|t' ts'].
  - destruct m; cbn [firstn render_line]; apply firstn_all.
  - destruct m as [|m].
    + cbn [firstn render_line]. rewrite <- (Nat.add_0_r (length t)). rewrite firstn_app_2. cbn. apply app_nil_r.
    + change (firstn (S (S m)) (t :: t' :: ts')) with (t :: firstn (S m) (t' :: ts')).
      specialize (IH (S m)).
      destruct (firstn (S m) (t' :: ts')) as [|u us] eqn:E; [discriminate|].
      change (render_line (t :: u :: us)) with (t ++ 32 :: render_line (u :: us)).
      change (render_line (t :: t' :: ts')) with (t ++ 32 :: render_line (t' :: ts')).
      rewrite app_length. rewrite firstn_app_2. cbn [length firstn]. rewrite IH. reflexivity.
Qed.

Lemma render_line_firstn_le toks m : (length (render_line (firstn m toks)) <= length (render_line toks))%nat.
Proof.
  rewrite <- (render_line_firstn toks m). rewrite firstn_length. lia.
Qed.

Definition no_nl (x : list N) : Prop := Forall (fun b => b <> 10) x.

Lemma space_not_nl b : is_space b = false -> b <> 10.
Proof. intros H ->. discriminate. Qed.

Lemma render_line_no_nl toks : Forall tok_ok toks -> no_nl (render_line toks).
Proof.
  induction toks as [|t ts IH]; intros H; [constructor|].
  inversion H as [|? ? [_ Hsp] Hts]; subst.
  assert (no_nl t) as Ht by (eapply Forall_impl; [|exact Hsp]; apply space_not_nl).
  destruct ts as [|t' ts']; [exact Ht|].
  change (render_line (t :: t' :: ts')) with (t ++ 32 :: render_line (t' :: ts')).
  apply Forall_app. split; [exact Ht|]. constructor; [discriminate|]. apply IH. assumption.
Qed.

(* ---- ScanLines ---- *)
Lemma scan_no_nl x : forall cur, no_nl x -> scan x cur = match rev cur ++ x with [] => [] | y => [y] end.
Proof.
  induction x as [|b x IH]; intros cur H.
  - cbn [scan]. rewrite app_nil_r. destruct cur as [|c cur]; [reflexivity|].
    destruct (rev (c :: cur)) eqn:E; [exfalso; apply (rev_nonempty (c :: cur)); [discriminate|exact E]|reflexivity].
  - inversion H as [|? ? Hb Hx]; subst. cbn [scan]. replace (b =? 10) with false by lia.
    rewrite IH by assumption. cbn [rev]. rewrite <- app_assoc. reflexivity.
Qed.

Lemma scan_line x rest : forall cur, no_nl x -> scan (x ++ 10 :: rest) cur = (rev cur ++ x) :: scan rest [].
Proof.
  induction x as [|b x IH]; intros cur H.
  - cbn [app scan]. rewrite N.eqb_refl, app_nil_r. reflexivity.
  - inversion H as [|? ? Hb Hx]; subst. cbn [app scan]. replace (b =? 10) with false by lia.
    rewrite IH by assumption. cbn [rev]. rewrite <- app_assoc. reflexivity.
Qed.

(* ---- a cut at a token boundary of the rendered text is the token prefix ---- *)
Theorem text_cut_tokens ls : Forall (Forall tok_ok) ls -> forall j m,
  (m <= length (nth j ls []))%nat ->
  map fields_of (scan (firstn (boundary ls j m) (render ls)) []) = token_prefix ls j m.
Proof.
  induction ls as [|l ls IH]; intros H j m Hm.
  - unfold boundary, token_prefix. destruct j; cbn [nth] in *; assert (m = 0%nat) as -> by (cbn in Hm; lia); reflexivity.
  - inversion H as [|? ? Hl Hls]; subst.
    destruct j as [|j].
    + unfold boundary, token_prefix. cbn [firstn render flat_map length nth Nat.add app].
      rewrite <- app_assoc. rewrite firstn_app_lt by apply render_line_firstn_le.
      rewrite render_line_firstn.
      assert (Forall tok_ok (firstn m l)) as Hf.
      { apply Forall_forall. intros t Ht. rewrite Forall_forall in Hl. apply Hl.
        rewrite <- (firstn_skipn m l). apply in_or_app. left. exact Ht. }
      rewrite scan_no_nl by (apply render_line_no_nl; exact Hf). cbn [rev app].
      destruct m as [|m]; [reflexivity|].
      destruct l as [|t l']; [cbn in Hm; lia|].
      destruct (render_line (firstn (S m) (t :: l'))) eqn:E.
      * exfalso. inversion Hl as [|? ? [Hne _] _]; subst. cbn [firstn] in E.
        destruct (firstn m l'); cbn [render_line] in E; [congruence|].
        destruct t; [congruence|discriminate].
      * rewrite <- E. cbn [map]. rewrite fields_render_line by exact Hf. reflexivity.
    + unfold boundary, token_prefix. cbn [firstn nth render flat_map].
      fold (render (firstn j ls)). fold (render ls).
      rewrite <- !app_assoc. cbn [app]. rewrite app_length. cbn [length].
      rewrite <- Nat.add_assoc. rewrite firstn_app_2.
      rewrite Nat.add_succ_l. fold (boundary ls j m).
      cbn [firstn]. rewrite scan_line by (apply render_line_no_nl; exact Hl). cbn [rev app map].
      rewrite fields_render_line by exact Hl. rewrite IH by assumption. reflexivity.
Qed.

(* ================================================================== the byte-level ASCII reader *)
Section TextReader.
Variable tokval : list N -> tok.       (* strconv on one token: any function *)

Definition body_of_text (text : list N) : body := BodyAscii (map (map tokval) (map fields_of (scan text []))).
Definition read_mesh_text (hdr : list (list string)) (text : list N) : result mesh :=
  read_mesh {| pf_header := hdr; pf_body := body_of_text text |}.

Definition toklines (ls : list (list (list N))) : list (list tok) := map (map tokval) ls.

Lemma token_prefix_map ls j m : map (map tokval) (token_prefix ls j m) = token_prefix (toklines ls) j m.
Proof.
  unfold token_prefix, toklines. rewrite map_app, firstn_map. f_equal.
  destruct m; [reflexivity|]. cbn [map].
  change (@nil tok) with (map tokval []). rewrite map_nth. rewrite firstn_map. reflexivity.
Qed.

Lemma body_of_render ls : Forall (Forall tok_ok) ls -> body_of_text (render ls) = BodyAscii (toklines ls).
Proof.
  intros H. unfold body_of_text.
  pose proof (text_cut_tokens ls H (length ls) 0) as E.
  unfold boundary, token_prefix in E. rewrite nth_overflow in E by lia.
  rewrite !firstn_all in E. cbn [firstn render_line length] in E. rewrite Nat.add_0_r, firstn_all, app_nil_r in E.
  rewrite E by (cbn; lia). reflexivity.
Qed.

(* the reader on the text cut at a token boundary = the token-level reader on the token prefix *)
Theorem read_mesh_text_cut hdr ls j m : Forall (Forall tok_ok) ls -> (m <= length (nth j ls []))%nat ->
  read_mesh_text hdr (firstn (boundary ls j m) (render ls)) =
  read_mesh {| pf_header := hdr; pf_body := BodyAscii (token_prefix (toklines ls) j m) |}.
Proof.
  intros H Hm. unfold read_mesh_text, body_of_text. rewrite text_cut_tokens by assumption.
  rewrite token_prefix_map. reflexivity.
Qed.

(* end to end, cuts after complete lines: bytes -> lines -> tokens -> mesh.  If the complete text decodes there is a
   number of lines [c] the header promises: every cut after fewer lines is reported as end of input, every cut after
   at least [c] lines yields the identical mesh *)
Theorem ply_ascii_text_lines_prefix hdr ls mesh : Forall (Forall tok_ok) ls ->
  read_mesh_text hdr (render ls) = Ok mesh ->
  exists c, (c <= length ls)%nat /\
    (forall j, (j < c)%nat -> read_mesh_text hdr (firstn (boundary ls j 0) (render ls)) = Err EEof) /\
    (forall j, (c <= j)%nat -> read_mesh_text hdr (firstn (boundary ls j 0) (render ls)) = Ok mesh).
Proof.
  intros H Hfull. unfold read_mesh_text in Hfull. rewrite body_of_render in Hfull by assumption.
  destruct (ply_ascii_lines_prefix hdr (toklines ls) mesh Hfull) as (c & Hc & Hlt & Hge).
  exists c. split; [unfold toklines in Hc; rewrite map_length in Hc; exact Hc|].
  split; intros j Hj; rewrite read_mesh_text_cut by (assumption || lia);
    unfold token_prefix; rewrite app_nil_r; [apply Hlt|apply Hge]; assumption.
Qed.

(* end to end, a cut at a token boundary INSIDE line j of the vertex block (0 < m tokens present, fewer than the
   element has properties): the byte-level reader reports it -- no vertex is completed with zeros *)
Theorem ply_ascii_text_vertex_cut hdr ls mesh h ve bs rows rest j m : Forall (Forall tok_ok) ls ->
  read_mesh_text hdr (render ls) = Ok mesh ->
  parse_header hdr = Ok h ->
  find_last_elem "vertex"%string (h_elems h) None = Some ve ->
  build_readers false default_groups true (e_props ve) = Ok bs ->
  read_vertices_ascii bs (length (e_props ve)) (toklines ls) (Z.to_nat (e_count ve)) = Ok (rows, rest) ->
  (j < length ls - length rest)%nat -> (0 < m)%nat -> (m <= length (nth j ls []))%nat ->
  (m < length (e_props ve))%nat ->
  read_mesh_text hdr (firstn (boundary ls j m) (render ls)) = Err EEof.
Proof.
  intros H Hfull Hh Hve Hbs Hrv Hj Hm0 Hm Hnp.
  unfold read_mesh_text in Hfull. rewrite body_of_render in Hfull by assumption.
  rewrite read_mesh_text_cut by assumption. unfold token_prefix.
  destruct m as [|m']; [lia|].
  apply (ply_ascii_vertex_line_cut hdr (toklines ls) mesh h ve bs rows rest j _ Hfull Hh Hve Hbs Hrv).
  - unfold toklines. rewrite map_length. exact Hj.
  - unfold toklines. change (@nil tok) with (map tokval []). rewrite map_nth, firstn_map.
    destruct (nth j ls []) as [|t l']; [cbn in Hm; lia|]. discriminate.
  - rewrite firstn_length. lia.
Qed.
End TextReader.

(* ================================================================== PTS at byte level *)
From PF Require Formats.Pts Formats.PtsProofs.
Section PtsText.
Import Formats.Pts.
Variable cnt : list N -> option Z.     (* strconv.Atoi on the whole first line: any function *)
Variable numval : list N -> Z.         (* strconv.ParseFloat on one field (integer-valued in the model): any function *)

(* pts.ReadPointCloud on bytes: the first scanned line is the count, every further line is split into fields *)
Definition pts_read_text (text : list N) : option pts_result :=
  match scan text [] with
  | [] => None
  | c :: body => pts_read (cnt c) (map (map numval) (map fields_of body))
  end.

Definition pts_file (ct : list N) (ls : list (list (list N))) : list (list (list N)) := [ct] :: ls.

(* the text of a PTS file cut at a token boundary after the count line (j data lines, m tokens of the next): the
   byte-level reader sees exactly the token prefix *)
Theorem pts_text_cut ct ls j m : tok_ok ct -> Forall (Forall tok_ok) ls -> (m <= length (nth j ls []))%nat ->
  pts_read_text (firstn (boundary (pts_file ct ls) (S j) m) (render (pts_file ct ls)))
  = pts_read (cnt ct) (pts_prefix (map (map numval) ls) j m).
Proof.
  intros Hct Hls Hm. unfold pts_read_text, pts_file, boundary.
  cbn [firstn nth render flat_map render_line].
  fold (render (firstn j ls)). fold (render ls).
  rewrite <- !app_assoc. cbn [app]. rewrite app_length. cbn [length].
  rewrite <- Nat.add_assoc. rewrite firstn_app_2. rewrite Nat.add_succ_l. fold (boundary ls j m).
  cbn [firstn]. destruct Hct as [Hne Hsp].
  rewrite scan_line by (eapply Forall_impl; [|exact Hsp]; apply space_not_nl). cbn [rev app].
  rewrite text_cut_tokens by assumption.
  f_equal. unfold token_prefix, pts_prefix. rewrite map_app, firstn_map. f_equal.
  destruct m; [reflexivity|]. cbn [map].
  change (@nil Z) with (map numval []). rewrite map_nth. rewrite firstn_map. reflexivity.
Qed.

(* end to end: every token-boundary cut of the text of a valid PTS file after the count line is rejected, except the
   one-point file cut after >= 3 fields (a valid shorter file; prefix_pts) *)
Theorem pts_text_prefix_rejected ct ls n w j m : tok_ok ct -> Forall (Forall tok_ok) ls ->
  cnt ct = Some (Z.of_nat n) -> PtsProofs.pts_valid n w (map (map numval) ls) -> (j < n)%nat -> (m < w)%nat ->
  (m <= length (nth j ls []))%nat ->
  pts_read_text (firstn (boundary (pts_file ct ls) (S j) m) (render (pts_file ct ls))) = None \/
  (n = 1%nat /\ j = 0%nat /\ (3 <= m)%nat).
Proof.
  intros Hct Hls Hc Hv Hj Hmw Hm. rewrite pts_text_cut by assumption. rewrite Hc.
  apply (PtsProofs.pts_prefix_rejected n w _ j m Hv Hj Hmw).
Qed.

(* a cut inside or right after the count line: no data line is present, a positive count is not met *)
Theorem pts_text_count_only ct ls n : tok_ok ct -> cnt ct = Some (Z.of_nat (S n)) ->
  pts_read_text (firstn (boundary (pts_file ct ls) 0 1) (render (pts_file ct ls))) = None /\
  pts_read_text (firstn (boundary (pts_file ct ls) 0 0) (render (pts_file ct ls))) = None.
Proof.
  intros [Hne Hsp] Hc. unfold pts_read_text, pts_file, boundary. cbn [firstn nth render flat_map render_line length Nat.add].
  split; [|reflexivity].
  rewrite <- app_assoc. rewrite <- (Nat.add_0_r (length ct)). rewrite firstn_app_2. cbn [firstn]. rewrite app_nil_r.
  rewrite scan_no_nl by (eapply Forall_impl; [|exact Hsp]; apply space_not_nl). cbn [rev app].
  destruct ct as [|b ct']; [congruence|]. cbn [map]. rewrite Hc.
  unfold pts_read. destruct (Z.of_nat (S n) <? 0)%Z; [reflexivity|]. rewrite Nat2Z.id. reflexivity.
Qed.
End PtsText.

(* non-vacuity: "1 2\n3" -- a cut after the first token of the first line, after the line, and the whole text *)
Example text_cut_example :
  let ls := [[[49]; [50]]; [[51]]] in
  render ls = [49; 32; 50; 10; 51; 10] /\
  boundary ls 0 1 = 1%nat /\ boundary ls 1 0 = 4%nat /\ boundary ls 1 1 = 5%nat /\
  map fields_of (scan (firstn 1 (render ls)) []) = [[[49]]] /\
  map fields_of (scan (firstn 5 (render ls)) []) = [[[49]; [50]]; [[51]]].
Proof. vm_compute. repeat split. Qed.
