(* C08: the text layer of the PLY header reader — formats/ply/reader.go readLine (bytes up to '\n', every '\r'
   dropped) and strings.Fields (ASCII white space).  Definitions only, NO PROOFS.  Kept apart from PlyRead.v, whose
   header parser works on lines already split into fields. *)
From PF Require Import Base.Bytes.
From Coq Require Import String Ascii.
Open Scope list_scope.
Open Scope N_scope.

(* the lines of a text: split at '\n' (the text after the last '\n' is the last line) *)
Fixpoint split_nl (l : list N) : list (list N) :=
  match l with
  | [] => [[]]
  | c :: r => if c =? 10 then [] :: split_nl r
              else match split_nl r with x :: xs => (c :: x) :: xs | [] => [[c]] end
  end.
(* readLine: "Just eat the carriage return" — every '\r', wherever it stands *)
Definition strip_cr (l : list N) : list N := filter (fun c => negb (c =? 13)) l.
(* strings.Fields on ASCII text: maximal runs of non-space bytes *)
Definition is_space (c : N) : bool := (c =? 32) || (c =? 9) || (c =? 10) || (c =? 11) || (c =? 12) || (c =? 13).
Fixpoint fields_aux (l cur : list N) : list (list N) :=
  match l with
  | [] => match cur with [] => [] | _ => [rev cur] end
  | c :: r => if is_space c then match cur with [] => fields_aux r [] | _ => rev cur :: fields_aux r [] end
              else fields_aux r (c :: cur)
  end.
Definition fields (l : list N) : list (list N) := fields_aux l [].
Definition string_of_bytes (l : list N) : string := fold_right (fun c s => String (ascii_of_N c) s) EmptyString l.
(* what the header parser sees of a header text *)
Definition header_lines (text : list N) : list (list string) :=
  map (fun l => map string_of_bytes (fields (strip_cr l))) (split_nl text).
(* the same text with CRLF line ends *)
Definition crlf (text : list N) : list N := flat_map (fun c => if c =? 10 then [13; 10] else [c]) text.
