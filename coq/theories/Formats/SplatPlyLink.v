(* C15 <-> C04/C08: the SplatPly vertex block, as laid out by the C15 model ([ply_body]: per vertex the
   float32 words in property order), read by the PLY reader model's binary vertex routine.
   Imports Formats/PlyWriteProofs.v (C04) and Formats/PlyRead.v (C08) read-only. *)
From PF Require Import Base.Bytes Base.BytesProofs Formats.PlyRead Formats.PlyWrite Formats.PlyWriteProofs Formats.Splat.
Open Scope list_scope.
Open Scope N_scope.

Lemma genc_float g i : rg_ty g = Float -> genc LEnd g i = flat_map le32 (rowi g i).
Proof.
  intros Ht. unfold genc, gwords, enc_words. rewrite Ht. induction (rowi g i) as [|w r IH]; [reflexivity|].
  cbn [map flat_map]. rewrite IH. reflexivity.
Qed.

Lemma flat_map_flat_map {A B C} (f : B -> list C) (g : A -> list B) l :
  flat_map f (flat_map g l) = flat_map (fun x => flat_map f (g x)) l.
Proof. induction l as [|x l IH]; [reflexivity|]. cbn [flat_map]. rewrite flat_map_app, IH. reflexivity. Qed.

(* the rows of the C15 body model for a list of float groups *)
Definition group_rows (gs : list rgroup) (n : nat) : list (list N) :=
  map (fun i => flat_map (fun g => rowi g i) gs) (seq 0 n).

Lemma ply_body_groups gs n : Forall (fun g => rg_ty g = Float) gs ->
  ply_body (group_rows gs n) = flat_map (fun i => flat_map (fun g => genc LEnd g i) gs) (seq 0 n).
Proof.
  intros Ht. unfold ply_body, group_rows. rewrite flat_map_concat_map, map_map, <- flat_map_concat_map.
  apply flat_map_ext. intros i. rewrite flat_map_flat_map.
  induction Ht as [|g gs Hg Hgs IH]; [reflexivity|]. cbn [flat_map]. rewrite IH, genc_float by exact Hg. reflexivity.
Qed.

Lemma vrow_float gs i : Forall (fun g => rg_ty g = Float) gs -> vrow gs i = map (fun g => map cvF (rowi g i)) gs.
Proof.
  intros Ht. unfold vrow. induction Ht as [|g gs Hg Hgs IH]; [reflexivity|]. cbn [map]. rewrite IH, Hg. reflexivity.
Qed.

(* Every group of type float (all 51 SplatPly writers are `Type: Float`): the binary little-endian
   vertex block of n vertices is read back, vertex by vertex and group by group in order, as the
   float64 image [cvF] of exactly the float32 words that were written; the bytes after it are left. *)
Theorem splatply_vertex_block_roundtrip n gs rest :
  Forall (fun g => rg_ty g = Float) gs -> Forall (group_good n) gs ->
  read_vertices_bin LEnd (layout true gs 0) (record_size (vertex_props gs)) n (ply_body (group_rows gs n) ++ rest)
  = Ok (map (fun i => map (fun g => map cvF (rowi g i)) gs) (seq 0 n), rest).
Proof.
  intros Ht Hg. rewrite ply_body_groups by exact Ht. rewrite record_size_props.
  pose proof (read_vertices_bin_written LEnd n gs n rest Hg (le_n n)) as R. rewrite Nat.sub_diag in R.
  rewrite R. f_equal. f_equal. apply map_ext. intros i. apply vrow_float. exact Ht.
Qed.
Print Assumptions splatply_vertex_block_roundtrip.

(* ---- the groups of the SplatPly writer table for a cloud given as attribute -> rows of float32 words ---- *)
From Coq Require String.
Definition adata := (String.string * list (list N))%type.
Definition splat_groups (data : list adata) : list rgroup :=
  flat_map (fun '(a, _, ps) =>
              match find (fun d : adata => String.eqb (fst d) a) data with
              | Some (_, vs) => [{| rg_attr := a; rg_names := ps; rg_ty := Float; rg_rows := vs |}]
              | None => []
              end) splatply_table.

Lemma splat_groups_float data : Forall (fun g => rg_ty g = Float) (splat_groups data).
Proof.
  unfold splat_groups. apply Forall_forall. intros g Hg. apply in_flat_map in Hg.
  destruct Hg as ([[a k] ps] & _ & Hin). destruct (find _ data) as [[a' vs]|]; [|contradiction].
  destruct Hin as [<-|[]]. reflexivity.
Qed.

Lemma float_group_good n g : rg_ty g = Float -> List.length (rg_rows g) = n ->
  Forall (fun r => List.length r = List.length (rg_names g) /\ Forall word32 r) (rg_rows g) -> group_good n g.
Proof.
  intros Ht Hl Hr. unfold group_good. rewrite Ht. split; [reflexivity|]. split; [exact Hl|].
  eapply Forall_impl; [|exact Hr]. intros r [Hlen Hw]. unfold row_good. rewrite Ht. split; [exact Hlen|].
  eapply Forall_impl; [|exact Hw]. intros w Hw32. split.
  - exists w. split; [reflexivity|]. unfold word_fits, word32 in *. cbn. exact Hw32.
  - eexists. reflexivity.
Qed.

(* a cloud is well formed for the table when every attribute it has comes with n rows of as many
   float32 words as the table entry has names *)
Definition data_ok (n : nat) (data : list adata) : Prop :=
  Forall (fun g => List.length (rg_rows g) = n /\
                   Forall (fun r => List.length r = List.length (rg_names g) /\ Forall word32 r) (rg_rows g))
         (splat_groups data).

Theorem splatply_cloud_roundtrip n data rest : data_ok n data ->
  let gs := splat_groups data in
  read_vertices_bin LEnd (layout true gs 0) (record_size (vertex_props gs)) n (ply_body (group_rows gs n) ++ rest)
  = Ok (map (fun i => map (fun g => map cvF (rowi g i)) gs) (seq 0 n), rest).
Proof.
  intros Hd gs. apply splatply_vertex_block_roundtrip; [apply splat_groups_float|].
  pose proof (splat_groups_float data) as Hf. fold gs in Hf. unfold data_ok in Hd. fold gs in Hd.
  rewrite Forall_forall in *. intros g Hg. destruct (Hd g Hg) as [Hl Hr].
  apply float_group_good; [apply Hf; exact Hg|exact Hl|exact Hr].
Qed.
Print Assumptions splatply_cloud_roundtrip.
