(* C15 <-> C04/C08: the SplatPly vertex block, as laid out by the C15 model ([ply_body]: per vertex the
   float32 words in property order), read by the PLY reader model's binary vertex routine.
   Imports Formats/PlyWriteProofs.v (C04) and Formats/PlyRead.v (C08) read-only. *)
From PF Require Import Base.Bytes Base.BytesProofs Formats.PlyRead Formats.PlyWrite Formats.PlyWriteProofs Formats.Splat.
Open Scope list_scope.
Open Scope N_scope.

Lemma genc_float g i : rg_ty g = Float -> genc LEnd g i = flat_map le32 (rowi g i).
Proof.
  intros Ht. unfold genc, gwords, enc_words. rewrite Ht. induction (rowi g i) as [|w r IH]; [reflexivity|].
  cbn [map flat_map]. rewrite IH. reflexivity.
Qed.

Lemma flat_map_flat_map {A B C} (f : B -> list C) (g : A -> list B) l :
  flat_map f (flat_map g l) = flat_map (fun x => flat_map f (g x)) l.
Proof. induction l as [|x l IH]; [reflexivity|]. cbn [flat_map]. rewrite flat_map_app, IH. reflexivity. Qed.

(* the rows of the C15 body model for a list of float groups *)
Definition group_rows (gs : list rgroup) (n : nat) : list (list N) :=
  map (fun i => flat_map (fun g => rowi g i) gs) (seq 0 n).

Lemma ply_body_groups gs n : Forall (fun g => rg_ty g = Float) gs ->
  ply_body (group_rows gs n) = flat_map (fun i => flat_map (fun g => genc LEnd g i) gs) (seq 0 n).
Proof.
  intros Ht. unfold ply_body, group_rows. rewrite flat_map_concat_map, map_map, <- flat_map_concat_map.
  apply flat_map_ext. intros i. rewrite flat_map_flat_map.
  induction Ht as [|g gs Hg Hgs IH]; [reflexivity|]. cbn [flat_map]. rewrite IH, genc_float by exact Hg. reflexivity.
Qed.

Lemma vrow_float gs i : Forall (fun g => rg_ty g = Float) gs -> vrow gs i = map (fun g => map cvF (rowi g i)) gs.
Proof.
  intros Ht. unfold vrow. induction Ht as [|g gs Hg Hgs IH]; [reflexivity|]. cbn [map]. rewrite IH, Hg. reflexivity.
Qed.

(* Every group of type float (all 51 SplatPly writers are `Type: Float`): the binary little-endian
   vertex block of n vertices is read back, vertex by vertex and group by group in order, as the
   float64 image [cvF] of exactly the float32 words that were written; the bytes after it are left. *)
Theorem splatply_vertex_block_roundtrip n gs rest :
  Forall (fun g => rg_ty g = Float) gs -> Forall (group_good n) gs ->
  read_vertices_bin LEnd (layout true gs 0) (record_size (vertex_props gs)) n (ply_body (group_rows gs n) ++ rest)
  = Ok (map (fun i => map (fun g => map cvF (rowi g i)) gs) (seq 0 n), rest).
Proof.
  intros Ht Hg. rewrite ply_body_groups by exact Ht. rewrite record_size_props.
  pose proof (read_vertices_bin_written LEnd n gs n rest Hg (le_n n)) as R. rewrite Nat.sub_diag in R.
  rewrite R. f_equal. f_equal. apply map_ext. intros i. apply vrow_float. exact Ht.
Qed.
Print Assumptions splatply_vertex_block_roundtrip.

(* ---- the groups of the SplatPly writer table for a cloud given as attribute -> rows of float32 words ---- *)
From Coq Require String.
Definition adata := (String.string * list (list N))%type.
Definition splat_groups (data : list adata) : list rgroup :=
  flat_map (fun '(a, _, ps) =>
              match find (fun d : adata => String.eqb (fst d) a) data with
              | Some (_, vs) => [{| rg_attr := a; rg_names := ps; rg_ty := Float; rg_rows := vs |}]
              | None => []
              end) splatply_table.

Lemma splat_groups_float data : Forall (fun g => rg_ty g = Float) (splat_groups data).
Proof.
  unfold splat_groups. apply Forall_forall. intros g Hg. apply in_flat_map in Hg.
  destruct Hg as ([[a k] ps] & _ & Hin). destruct (find _ data) as [[a' vs]|]; [|contradiction].
  destruct Hin as [<-|[]]. reflexivity.
Qed.

Lemma float_group_good n g : rg_ty g = Float -> List.length (rg_rows g) = n ->
  Forall (fun r => List.length r = List.length (rg_names g) /\ Forall word32 r) (rg_rows g) -> group_good n g.
Proof.
  intros Ht Hl Hr. unfold group_good. rewrite Ht. split; [reflexivity|]. split; [exact Hl|].
  eapply Forall_impl; [|exact Hr]. intros r [Hlen Hw]. unfold row_good. rewrite Ht. split; [exact Hlen|].
  eapply Forall_impl; [|exact Hw]. intros w Hw32. split.
  - exists w. split; [reflexivity|]. unfold word_fits, word32 in *. cbn. exact Hw32.
  - eexists. reflexivity.
Qed.

(* a cloud is well formed for the table when every attribute it has comes with n rows of as many
   float32 words as the table entry has names *)
Definition data_ok (n : nat) (data : list adata) : Prop :=
  Forall (fun g => List.length (rg_rows g) = n /\
                   Forall (fun r => List.length r = List.length (rg_names g) /\ Forall word32 r) (rg_rows g))
         (splat_groups data).

Theorem splatply_cloud_roundtrip n data rest : data_ok n data ->
  let gs := splat_groups data in
  read_vertices_bin LEnd (layout true gs 0) (record_size (vertex_props gs)) n (ply_body (group_rows gs n) ++ rest)
  = Ok (map (fun i => map (fun g => map cvF (rowi g i)) gs) (seq 0 n), rest).
Proof.
  intros Hd gs. apply splatply_vertex_block_roundtrip; [apply splat_groups_float|].
  pose proof (splat_groups_float data) as Hf. fold gs in Hf. unfold data_ok in Hd. fold gs in Hd.
  rewrite Forall_forall in *. intros g Hg. destruct (Hd g Hg) as [Hl Hr].
  apply float_group_good; [apply Hf; exact Hg|exact Hl|exact Hr].
Qed.
Print Assumptions splatply_cloud_roundtrip.

(* ================================================================================================ *)
(* The whole file: ply.SplatPly.Write followed by ply.ReadMesh, on C04's writer model and C08's      *)
(* reader model.  The SplatPly table writes ... Scale, Rotation, Opacity, f_rest_*; the reader builds *)
(* its vector readers in its own order (... Opacity, Scale, Rotation), so the attributes come back   *)
(* in the reader's order: C04's "readers placed anywhere" theorem applies (read_mesh_pointcloud_placed). *)
(* ================================================================================================ *)
Import Coq.Strings.String.
Open Scope list_scope.

(* ---- any writer table, point cloud, binary little endian, readers placed in the reader's order ---- *)
Theorem points_placed_any_table o m PL :
  w_topo m = TPoint -> (0 < w_n m)%nat ->
  Forall (group_good (w_n m)) (map (group_of m) (effective_writers o m)) ->
  readers_placed true (rview o m) PL -> keys_ok [] (map fst PL) = true ->
  exists file, PlyWrite.write o BinLE m = Ok file /\
    read_mesh file = Ok {| m_topo := TPoint; m_idx := iota (w_n m); m_attrs := map gattr (map fst PL) |}.
Proof.
  intros Ht Hn Hg Hrp Hk.
  assert (Hx : has_tex m = true -> tex_ok m).
  { intros _ t Hin. unfold faces_of in Hin. rewrite Ht in Hin. destruct Hin. }
  destruct (rview_same (w_n m) m (effective_writers o m) Hg) as (P & Gd & Wd).
  destruct (closed_same BinLE m (rview o m) (map (group_of m) (effective_writers o m)) P Wd) as [Eh Eb].
  exists {| pf_header := header_lines BinLE (header_elems (map (group_of m) (effective_writers o m)) m);
            pf_body := closed_body BinLE (map (group_of m) (effective_writers o m)) m |}. split.
  - unfold PlyWrite.write. rewrite write_body_closed; [reflexivity|exact Hg|discriminate| |exact Hx].
    intros T. congruence.
  - rewrite <- Eh, <- Eb. rewrite (read_mesh_pointcloud_placed BinLE (rview o m) PL m Ht Gd Hrp) by discriminate.
    cbn [is_bin]. rewrite attrs_of_placed; [reflexivity|exact Hn| |exact Hk].
    apply Forall_forall. intros g Hg'. apply in_map_iff in Hg'. destruct Hg' as (p & <- & Hp).
    destruct Hrp as [_ Hpl]. rewrite Forall_forall in Hpl, Gd. destruct (Gd _ (placed_in _ _ _ (Hpl p Hp))) as (_ & L & _). exact L.
Qed.

(* ---- placements: groups with the cursor they start at ---- *)
Fixpoint place (bin : bool) (gs : list rgroup) (c : nat) : list (rgroup * nat) :=
  match gs with [] => [] | g :: r => (g, c) :: place bin r (gstep bin c g) end.

Lemma breaders_place bin gs : forall c, breaders bin (place bin gs c) = layout bin gs c.
Proof.
  induction gs as [|g gs IH]; intros c; [reflexivity|].
  cbn [place breaders map fst snd layout]. fold (breaders bin (place bin gs (gstep bin c g))). rewrite IH.
  unfold built_at, gstep. destruct bin; reflexivity.
Qed.
Lemma map_fst_place bin gs : forall c, map fst (place bin gs c) = gs.
Proof. induction gs as [|g gs IH]; intros c; [reflexivity|]. cbn [place map fst]. rewrite IH. reflexivity. Qed.

Lemma place_placed bin gs : forall pre post, Forall (placed bin (pre ++ gs ++ post)) (place bin gs (gcur bin 0 pre)).
Proof.
  induction gs as [|g gs IH]; intros pre post; [constructor|]. cbn [place]. constructor.
  - exists pre, (gs ++ post). cbn [fst snd]. split; reflexivity.
  - specialize (IH (pre ++ [g]) post). rewrite <- app_assoc in IH. cbn [app] in IH.
    rewrite gcur_app in IH. exact IH.
Qed.

(* the reader's order among the named groups *)
Definition reader_order : list string := ["Position"; "Normal"; "FDC"; "Opacity"; "Scale"; "Rotation"]%string.
Definition reorder {A} (key : A -> string) (l : list A) : list A :=
  flat_map (fun a => filter (fun x => seqb (key x) a) l) reader_order.
Lemma reorder_In {A} (key : A -> string) l x : In x (reorder key l) -> In x l.
Proof.
  unfold reorder. intros H. apply in_flat_map in H. destruct H as (a & _ & H). apply filter_In in H. apply H.
Qed.
Lemma map_filter_comm {A B} (f : A -> B) (p : B -> bool) l : map f (filter (fun x => p (f x)) l) = filter p (map f l).
Proof. induction l as [|x l IH]; [reflexivity|]. cbn [filter map]. destruct (p (f x)); cbn [map]; rewrite IH; reflexivity. Qed.
Lemma map_reorder {A B} (f : A -> B) (kb : B -> string) l :
  map f (reorder (fun x => kb (f x)) l) = reorder kb (map f l).
Proof.
  unfold reorder. induction reader_order as [|a r IH]; [reflexivity|]. cbn [flat_map]. rewrite map_app, IH.
  rewrite (map_filter_comm f (fun y => seqb (kb y) a)). reflexivity.
Qed.

(* ---- the SplatPly writer table as a C04 writer table ---- *)
Definition arity (k : akind) : nat := match k with K1 => 1 | K3 => 3 | K4 => 4 end.
Definition splat_writers : list pw := map (fun '(a, k, ps) => PW (arity k) a ps Float) splatply_table.
Definition splat_opts : wopts := {| o_writers := splat_writers; o_unspec := false |}.   (* MeshWriter{Format, Properties} *)
Definition named6 : list pw := firstn 6 splat_writers.
Definition rest45 : list pw := skipn 6 splat_writers.
Definition named_attrs : list string := map pw_attr named6.

Lemma splat_writers_split : splat_writers = named6 ++ rest45.
Proof. unfold named6, rest45. symmetry. apply firstn_skipn. Qed.

Definition rest_okb (w : pw) : bool :=
  match pw_names w with [n] => seqb n (pw_attr w) | _ => false end
  && Nat.eqb (pw_dim w) 1 && sty_eqb (pw_ty w) Float && negb (is_default_writer w)
  && negb (existsb (seqb (pw_attr w)) reserved_names) && negb (existsb (seqb (pw_attr w)) named_attrs).
Lemma rest45_ok : forallb rest_okb rest45 = true.
Proof. vm_compute. reflexivity. Qed.

Definition scal (m : wmesh) (w : pw) : rgroup :=
  {| rg_attr := pw_attr w; rg_names := [pw_attr w]; rg_ty := Float;
     rg_rows := map (fun r => [nth 0 r 0%N]) (attr_rows m 1 (pw_attr w)) |}.

Lemma rest_props w : In w rest45 ->
  (forall m, rview_of m w = [scal m w]) /\ ~ In (pw_attr w) reserved_names /\ ~ In (pw_attr w) named_attrs /\ pw_ok w.
Proof.
  intros Hw. pose proof rest45_ok as H. rewrite forallb_forall in H. specialize (H w Hw). unfold rest_okb in H.
  apply andb_prop in H. destruct H as [H Hnamed]. apply andb_prop in H. destruct H as [H Hres].
  apply andb_prop in H. destruct H as [H Hdef]. apply andb_prop in H. destruct H as [H Hty].
  apply andb_prop in H. destruct H as [Hn Hdim].
  destruct w as [d a ns t]. cbn [pw_names pw_attr pw_dim pw_ty] in *.
  destruct ns as [|n [|? ?]]; try discriminate. apply seqb_eq in Hn. subst n.
  apply Nat.eqb_eq in Hdim. subst d. destruct t; try discriminate.
  apply negb_true_iff in Hdef, Hres, Hnamed.
  split; [|split; [|split]]; [| | |split; [reflexivity|left; reflexivity]].
  - intros m. unfold rview_of. rewrite Hdef. reflexivity.
  - intros Hin.
    assert (existsb (seqb a) reserved_names = true) by (apply existsb_exists; exists a; split; [exact Hin|apply seqb_refl]). congruence.
  - intros Hin.
    assert (existsb (seqb a) named_attrs = true) by (apply existsb_exists; exists a; split; [exact Hin|apply seqb_refl]). congruence.
Qed.

(* ---- the six named groups: every subset, computed ---- *)
Lemma named_bare (f : pw -> bool) :
  let gs := map bare (filter f named6) in
  build_groups true default_groups (vertex_props gs) = Ok (reorder b_attr (layout true gs 0)) /\
  forallb (fun p => existsb (fun b => claims b (prop_name p)) (reorder b_attr (layout true gs 0))) (vertex_props gs) = true.
Proof.
  unfold named6, splat_writers. cbn [splatply_table app map firstn filter].
  destruct (f _), (f _), (f _), (f _), (f _), (f _); split; vm_compute; reflexivity.
Qed.

Lemma named_default w : In w named6 -> is_default_writer w = true /\ incl (pw_names w) reserved_names /\ pw_ok w.
Proof.
  intros H. unfold named6, splat_writers in H. cbn [splatply_table app map firstn] in H.
  repeat (destruct H as [<-|H]; [split; [reflexivity|split; [|split; [reflexivity|left; reflexivity]]];
                                 intros x Hx; cbn in Hx; repeat (destruct Hx as [<-|Hx]; [vm_compute; tauto|]); destruct Hx|]).
  destruct H.
Qed.

Lemma flat_map_singletons {A B} (f : A -> list B) (g : A -> B) l : (forall x, In x l -> f x = [g x]) -> flat_map f l = map g l.
Proof.
  induction l as [|x l IH]; intros H; [reflexivity|]. cbn [flat_map map]. rewrite (H x (or_introl eq_refl)).
  rewrite IH by (intros y Hy; apply H; right; exact Hy). reflexivity.
Qed.
Lemma NoDup_map_filter {A B} (f : A -> B) (p : A -> bool) l : NoDup (map f l) -> NoDup (map f (filter p l)).
Proof.
  induction l as [|x l IH]; [auto|]. cbn [map filter]. intros H. inversion H as [|? ? Hn Hd]; subst.
  destruct (p x); [|auto]. cbn [map]. constructor; [|auto]. intros Hin. apply Hn.
  apply in_map_iff in Hin. destruct Hin as (y & E & Hy). apply filter_In in Hy. apply in_map_iff. exists y. tauto.
Qed.
Lemma reorder_In_iff {A} (key : A -> string) l x : In x l -> In (key x) reader_order -> In x (reorder key l).
Proof.
  intros Hx Hk. unfold reorder. apply in_flat_map. exists (key x). split; [exact Hk|].
  apply filter_In. split; [exact Hx|apply seqb_refl].
Qed.

Definition pregs (m : wmesh) : list rgroup := map (group_of m) (filter (qualifies m) named6).
Definition tail (m : wmesh) : list rgroup := map (scal m) (filter (qualifies m) rest45).

Lemma rview_splat m : rview splat_opts m = pregs m ++ tail m.
Proof.
  unfold rview, effective_writers. cbn [o_unspec o_writers splat_opts]. rewrite splat_writers_split, filter_app, flat_map_app.
  f_equal.
  - apply flat_map_singletons. intros w Hw. apply filter_In in Hw. destruct Hw as [Hw _].
    unfold rview_of. destruct (named_default w Hw) as [-> _]. reflexivity.
  - apply flat_map_singletons. intros w Hw. apply filter_In in Hw. destruct Hw as [Hw _].
    apply (rest_props w Hw).
Qed.

Lemma pregs_shape m : map shape_of (pregs m) = map shape_of (map bare (filter (qualifies m) named6)).
Proof. unfold pregs. rewrite !map_map. reflexivity. Qed.

Lemma tail_scalar m : Forall scalar_group (tail m).
Proof. unfold tail. apply Forall_forall. intros g Hg. apply in_map_iff in Hg. destruct Hg as (w & <- & _). reflexivity. Qed.
Lemma tail_attr_in m g : In g (tail m) -> exists w, In w rest45 /\ rg_attr g = pw_attr w.
Proof.
  unfold tail. intros Hg. apply in_map_iff in Hg. destruct Hg as (w & <- & Hw). apply filter_In in Hw. exists w. split; [apply Hw|reflexivity].
Qed.
Lemma tail_nodup m : NoDup (map rg_attr (tail m)).
Proof.
  unfold tail. rewrite map_map. cbn [scal rg_attr]. apply NoDup_map_filter.
  apply nodupb_NoDup. vm_compute. reflexivity.
Qed.
Lemma tail_fresh m : Forall (fun g => ~ In (rg_attr g) reserved_names) (tail m).
Proof.
  apply Forall_forall. intros g Hg. destruct (tail_attr_in m g Hg) as (w & Hw & ->). apply (rest_props w Hw).
Qed.
Lemma pregs_reserved m g : In g (pregs m) -> incl (rg_names g) reserved_names /\ In (rg_attr g) named_attrs.
Proof.
  unfold pregs. intros H. apply in_map_iff in H. destruct H as (w & <- & Hw). apply filter_In in Hw. destruct Hw as [Hw _].
  split; [apply (named_default w Hw)|]. cbn [group_of rg_attr]. unfold named_attrs. apply in_map. exact Hw.
Qed.

Definition PL_of (pg tl : list rgroup) : list (rgroup * nat) :=
  reorder (fun p => rg_attr (fst p)) (place true pg 0) ++ place true tl (gcur true 0 pg).
Definition splat_PL (m : wmesh) : list (rgroup * nat) := PL_of (pregs m) (tail m).

Lemma PL_of_fst pg tl : map fst (PL_of pg tl) = reorder rg_attr pg ++ tl.
Proof.
  unfold PL_of. rewrite map_app, map_fst_place. f_equal.
  rewrite (map_reorder (@fst rgroup nat) rg_attr). rewrite map_fst_place. reflexivity.
Qed.

Lemma breaders_PL_gen pg tl c :
  breaders true (reorder (fun p => rg_attr (fst p)) (place true pg 0) ++ place true tl c)
  = reorder b_attr (layout true pg 0) ++ layout true tl c.
Proof.
  unfold breaders. rewrite map_app. f_equal.
  - rewrite (map_reorder (fun p : rgroup * nat => built_at true (fst p) (snd p)) b_attr). f_equal. apply breaders_place.
  - apply breaders_place.
Qed.

(* named groups built in the reader's order, followed by fresh scalar groups in file order *)
Lemma placed_gen pg tl :
  build_groups true default_groups (vertex_props pg) = Ok (reorder b_attr (layout true pg 0)) ->
  forallb (fun p => existsb (fun b => claims b (prop_name p)) (reorder b_attr (layout true pg 0))) (vertex_props pg) = true ->
  Forall scalar_group tl -> NoDup (map rg_attr tl) -> Forall (fun g => ~ In (rg_attr g) reserved_names) tl ->
  (forall g, In g pg -> incl (rg_names g) reserved_names) ->
  readers_placed true (pg ++ tl) (PL_of pg tl).
Proof.
  intros B1 B2 Hs Hnd Hr Hpg. split.
  - set (bs0 := reorder b_attr (layout true pg 0)) in *.
    unfold build_readers. rewrite vertex_props_app.
    rewrite build_groups_app_fresh by (apply default_groups_fresh, tail_props_fresh; assumption).
    rewrite B1. cbn [rbind]. rewrite add_unclaimed_claimed by exact B2.
    pose proof (add_unclaimed_tail true pg bs0 tl [] Hs Hnd) as A. cbn [app layout] in A.
    rewrite app_nil_r in A. rewrite A.
    + unfold PL_of. rewrite breaders_PL_gen. reflexivity.
    + intros g Hg. rewrite Forall_forall in Hr. apply props_fresh_reserved; [apply Hr, Hg|exact Hpg].
    + intros g Hg. rewrite Forall_forall in Hr.
      destruct (existsb (fun b => claims b (rg_attr g)) bs0) eqn:E; [exfalso|reflexivity].
      apply existsb_exists in E. destruct E as (b & Hb & Hc). apply reorder_In in Hb.
      assert (E' : existsb (fun b => claims b (rg_attr g)) (layout true pg 0) = true) by (apply existsb_exists; exists b; auto).
      rewrite claims_layout_reserved in E'; [discriminate|apply Hr, Hg|exact Hpg].
  - unfold PL_of. apply Forall_app. split.
    + apply Forall_forall. intros p Hp. apply reorder_In in Hp.
      pose proof (place_placed true pg [] tl) as H. rewrite Forall_forall in H. apply (H p Hp).
    + pose proof (place_placed true tl pg []) as H. rewrite app_nil_r in H. exact H.
Qed.

Lemma named_real m :
  build_groups true default_groups (vertex_props (pregs m)) = Ok (reorder b_attr (layout true (pregs m) 0)) /\
  forallb (fun p => existsb (fun b => claims b (prop_name p)) (reorder b_attr (layout true (pregs m) 0))) (vertex_props (pregs m)) = true.
Proof.
  pose proof (named_bare (qualifies m)) as B. cbv zeta in B.
  rewrite (shape_props _ _ (pregs_shape m)), (shape_layout true _ _ 0%nat (pregs_shape m)). exact B.
Qed.

Lemma splat_readers_placed m : readers_placed true (rview splat_opts m) (splat_PL m).
Proof.
  rewrite rview_splat. destruct (named_real m) as [B1 B2]. unfold splat_PL.
  apply placed_gen; [exact B1|exact B2|apply tail_scalar|apply tail_nodup|apply tail_fresh|].
  intros g Hg. apply (pregs_reserved m g Hg).
Qed.

(* ---- attribute keys stay distinct ---- *)
Lemma reorder_pregs m : reorder rg_attr (pregs m) = map (group_of m) (reorder pw_attr (filter (qualifies m) named6)).
Proof. unfold pregs. symmetry. apply (map_reorder (group_of m) rg_attr). Qed.

Lemma named_keys (f : pw -> bool) m :
  keys_ok [] (map (group_of m) (reorder pw_attr (filter f named6))) = true /\
  List.length (reorder pw_attr (filter f named6)) = List.length (filter f named6).
Proof.
  unfold named6, splat_writers. cbn [splatply_table app map firstn filter].
  destruct (f _), (f _), (f _), (f _), (f _), (f _); split; reflexivity.
Qed.

Lemma splat_keys_ok m : keys_ok [] (map fst (splat_PL m)) = true.
Proof.
  unfold splat_PL. rewrite PL_of_fst, keys_ok_app. apply andb_true_intro. split.
  - rewrite reorder_pregs. apply named_keys.
  - cbn [app]. apply keys_ok_scalars; [apply tail_scalar|apply tail_nodup|].
    intros g s Hg Hs. apply reorder_In in Hs. destruct (pregs_reserved m s Hs) as [_ Hn].
    destruct (tail_attr_in m g Hg) as (w & Hw & Ea). destruct (rest_props w Hw) as (_ & _ & Hnot & _).
    unfold gkey_eqb, gattr, key_eqb. rewrite seqb_neq; [apply andb_false_r|]. rewrite Ea. intros E. apply Hnot. rewrite E. exact Hn.
Qed.

(* ---- the whole file ---- *)
(* a splat cloud as SplatPly.Write sees it: point topology, at least one vertex, every attribute one row of its
   dimension of float32 words per vertex (C04's wf_attr) *)
Definition splat_cloud_ok (m : wmesh) : Prop :=
  w_topo m = TPoint /\ (0 < w_n m)%nat /\ forallb (wf_attr (w_n m)) (w_attrs m) = true.

Lemma splat_writer_ok w : In w splat_writers -> pw_ok w.
Proof.
  rewrite splat_writers_split. intros H. apply in_app_or in H. destruct H as [H|H].
  - apply (named_default w H).
  - apply (rest_props w H).
Qed.

Theorem splatply_whole_file m : splat_cloud_ok m ->
  exists file, PlyWrite.write splat_opts BinLE m = Ok file /\
    read_mesh file = Ok {| m_topo := TPoint; m_idx := iota (w_n m);
                           m_attrs := map gattr (reorder rg_attr (pregs m) ++ tail m) |}.
Proof.
  intros (Ht & Hn & Hwf).
  destruct (points_placed_any_table splat_opts m (splat_PL m) Ht Hn) as (file & Hw & Hr).
  - unfold effective_writers. cbn [o_unspec o_writers splat_opts].
    apply Forall_forall. intros g Hg. apply in_map_iff in Hg. destruct Hg as (w & <- & Hw). apply filter_In in Hw. destruct Hw as [Hw Hq].
    apply group_good_of; [|exact Hq|apply splat_writer_ok, Hw].
    intros x Hx. rewrite forallb_forall in Hwf. apply Hwf, Hx.
  - apply splat_readers_placed.
  - apply splat_keys_ok.
  - exists file. split; [exact Hw|]. rewrite Hr. unfold splat_PL. rewrite PL_of_fst. reflexivity.
Qed.
Print Assumptions splatply_whole_file.

(* what comes back is what [expected]'s view of the written groups contains, in the reader's order *)
Lemma named_in_order a : In a named_attrs -> In a reader_order.
Proof. intros H. vm_compute in H. vm_compute. tauto. Qed.

Theorem splat_attrs_same m : forall a,
  In a (map gattr (reorder rg_attr (pregs m) ++ tail m)) <-> In a (map gattr (rview splat_opts m)).
Proof.
  intros a. rewrite rview_splat, !map_app, !in_app_iff, !in_map_iff. split; intros [(g & E & H)|H]; try (right; exact H); left; exists g; (split; [exact E|]).
  - apply reorder_In in H. exact H.
  - apply reorder_In_iff; [exact H|]. apply named_in_order. apply (pregs_reserved m g H).
Qed.
Lemma splat_attrs_count m : List.length (reorder rg_attr (pregs m) ++ tail m) = List.length (rview splat_opts m).
Proof.
  rewrite rview_splat, !app_length. f_equal. rewrite reorder_pregs. unfold pregs. rewrite !map_length. apply (named_keys (qualifies m) m).
Qed.
