(* C15, round 4 additions to the SPZ model (formats/spz/load.go ReadHeader).  Executable model, no proofs.
   Kept apart from Formats/Spz.v, which C14 imports. *)
From PF Require Import Base.Bytes Formats.Spz.
Open Scope N_scope.

(* spz.ReadHeader after gunzip: binary.Read of 16 bytes (a shorter stream: no header, error), then
   (&header, header.Validate()) -- the header comes back also when Validate fails.  [Some (h, true)]: no error. *)
Definition read_header (l : list N) : option (header * bool) :=
  do '(h, _) <- get_header l; Some (h, validate h).
