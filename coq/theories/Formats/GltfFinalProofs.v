(* C06 proofs, part G: remaining clauses of the checker as theorems — declared bounds against the expanded
   data, absence of duplicates in the extension lists, the text container (base64 data URI). *)
From PF Require Import Base.Bytes Base.BytesProofs Formats.Gltf Formats.GltfProofs Formats.GltfExtProofs
  Formats.GltfDedupProofs Formats.GltfTexProofs Formats.GltfGlbProofs.
From Coq Require Import ZifyN ZifyNat ZifyBool.
From Coq Require String Ascii.
Import String.StringSyntax.
Delimit Scope string_scope with string.
Ltac Zify.zify_post_hook ::= Z.div_mod_to_equations.
Open Scope list_scope.
Open Scope N_scope.

(* ------------------------------------------------------------------ bounds: run-length data vs stored data *)
Lemma fkey_inj a b : fkey a = fkey b -> a = b.
Proof. unfold fkey. destruct (a <? 2147483648) eqn:Ea, (b <? 2147483648) eqn:Eb; lia. Qed.

Definition same_set {A} (l l' : list A) : Prop := forall x, In x l <-> In x l'.

Lemma fold_mm_same_min ws ws' : same_set ws ws' -> fold_mm fmin ws = fold_mm fmin ws'.
Proof.
  intros H. destruct ws as [|w r], ws' as [|w' r']; cbn [fold_mm]; try reflexivity.
  - exfalso. apply (H w'). left. reflexivity.
  - exfalso. apply (H w). left. reflexivity.
  - f_equal. destruct (fold_fmin_spec r w) as (I1 & L1). destruct (fold_fmin_spec r' w') as (I2 & L2).
    apply fkey_inj. apply H in I1. apply H in I2. specialize (L2 _ I1). specialize (L1 _ I2). lia.
Qed.
Lemma fold_mm_same_max ws ws' : same_set ws ws' -> fold_mm fmax ws = fold_mm fmax ws'.
Proof.
  intros H. destruct ws as [|w r], ws' as [|w' r']; cbn [fold_mm]; try reflexivity.
  - exfalso. apply (H w'). left. reflexivity.
  - exfalso. apply (H w). left. reflexivity.
  - f_equal. destruct (fold_fmax_spec r w) as (I1 & L1). destruct (fold_fmax_spec r' w') as (I2 & L2).
    apply fkey_inj. apply H in I1. apply H in I2. specialize (L2 _ I1). specialize (L1 _ I2). lia.
Qed.

Lemma same_set_map {A B} (f : A -> B) l l' : same_set l l' -> same_set (map f l) (map f l').
Proof. intros H y. rewrite !in_map_iff. split; intros (x & E & Hx); exists x; (split; [exact E|apply H, Hx]). Qed.
Lemma same_set_filter {A} (p : A -> bool) l l' : same_set l l' -> same_set (filter p l) (filter p l').
Proof. intros H y. rewrite !filter_In, (H y). tauto. Qed.

Lemma expand_same_set d : same_set (expand d) (run_elems d).
Proof.
  intros e. unfold expand, run_elems. rewrite in_flat_map, in_map_iff. split.
  - intros ((n, e') & Hin & He). cbn [fst snd] in He. apply repeat_spec in He as E. subst e'.
    exists (n, e). split; [reflexivity|]. apply filter_In. split; [exact Hin|]. cbn [fst].
    destruct n; [destruct He|reflexivity].
  - intros ((n, e') & E & Hin). cbn [snd] in E. subst e'. apply filter_In in Hin. destruct Hin as (Hin & Hn).
    exists (n, e). split; [exact Hin|]. cbn [fst snd] in *.
    destruct (N.to_nat n) eqn:En; [lia|]. left. reflexivity.
Qed.

(* the bounds the writer computes from the run-length attribute are the bounds of the expanded (stored) data *)
Theorem minmax_expand c k d : minmax_of c k (expand d) = minmax_of c k (run_elems d).
Proof.
  unfold minmax_of.
  assert (H : same_set (mm_elems c (expand d)) (mm_elems c (run_elems d))).
  { unfold mm_elems. apply same_set_filter, same_set_map, expand_same_set. }
  f_equal; apply map_ext; intros j; unfold col_min, col_max, col.
  - rewrite (fold_mm_same_min _ _ (same_set_map _ _ _ H)). reflexivity.
  - rewrite (fold_mm_same_max _ _ (same_set_map _ _ _ H)). reflexivity.
Qed.

(* ------------------------------------------------------------------ extension lists have no duplicates *)
Lemma add_str_NoDup s l : NoDup l -> NoDup (add_str s l).
Proof.
  intros H. unfold add_str. destruct (existsb (String.eqb s) l) eqn:E; [exact H|].
  induction l as [|y l IH]; cbn [app]; [repeat constructor; intros []|].
  inversion H; subst. cbn [existsb] in E. apply orb_false_iff in E. destruct E as (E1 & E2). constructor.
  - rewrite in_app_iff. cbn [In]. intros [Hin|[<-|[]]]; [contradiction|]. rewrite String.eqb_refl in E1. discriminate.
  - apply IH; assumption.
Qed.
Lemma fold_add_str_NoDup {A} (f : A -> string) es u : NoDup u -> NoDup (fold_left (fun u e => add_str (f e) u) es u).
Proof. revert u. induction es as [|e es IH]; intros u H; cbn [fold_left]; [exact H|]. apply IH, add_str_NoDup, H. Qed.

Lemma use_exts_NoDup es x : NoDup (x_used x) /\ NoDup (x_req x) -> NoDup (x_used (use_exts es x)) /\ NoDup (x_req (use_exts es x)).
Proof.
  intros (H1 & H2). unfold use_exts. cbn [x_used x_req]. split; [apply (fold_add_str_NoDup fst), H1|].
  generalize (x_req x) H2. induction es as [|e es IH]; intros u Hu; cbn [fold_left]; [exact Hu|].
  apply IH. destruct (snd e); [apply add_str_NoDup, Hu|exact Hu].
Qed.
Lemma add_texture_used_req t x :
  x_used (snd (add_texture t x)) = x_used (use_exts (tx_exts t) x) /\ x_req (snd (add_texture t x)) = x_req (use_exts (tx_exts t) x).
Proof.
  unfold add_texture. destruct (lookupN _ _); [split; reflexivity|].
  destruct (index_ofN (String.eqb (tx_uri t)) _); destruct (tx_samp t) as [sm|];
    try destruct (index_ofN (samp_eqb sm) _);
    match goal with |- context [index_ofN (gtex_eqb ?nt) ?l] => destruct (index_ofN (gtex_eqb nt) l) end; split; reflexivity.
Qed.

Theorem ext_lists_NoDup sc : NoDup (s_used (to_summary (run sc))) /\ NoDup (s_req (to_summary (run sc))).
Proof.
  unfold to_summary. cbn [s_used s_req].
  apply (xsteps_inv (fun x => NoDup (x_used x) /\ NoDup (x_req x))) with (x := init_x); [| |apply run_xsteps|].
  - intros t x H. destruct (add_texture_used_req t x) as (-> & ->). apply use_exts_NoDup, H.
  - intros es x H. apply use_exts_NoDup, H.
  - cbn. split; constructor.
Qed.

(* boolean forms used by the checker *)
Lemma str_in_In s l : str_in s l = true <-> In s l.
Proof.
  unfold str_in. rewrite existsb_exists. split.
  - intros (y & Hy & E). apply String.eqb_eq in E. subst. exact Hy.
  - intros H. exists s. split; [exact H|apply String.eqb_refl].
Qed.
Lemma subset_str_incl a b : subset_str a b = true <-> incl a b.
Proof.
  unfold subset_str. rewrite forallb_forall. split; intros H x Hx; [apply str_in_In, H, Hx|apply str_in_In, H, Hx].
Qed.
Lemma nodup_str_NoDup l : nodup_str l = true <-> NoDup l.
Proof.
  induction l as [|x l IH]; cbn [nodup_str]; [split; [constructor|reflexivity]|].
  rewrite andb_true_iff, negb_true_iff, IH. split.
  - intros (H1 & H2). constructor; [|exact H2]. intros Hin. apply str_in_In in Hin. congruence.
  - intros H. inversion H; subst. split; [|assumption]. destruct (str_in x l) eqn:E; [|reflexivity].
    apply str_in_In in E. contradiction.
Qed.

(* the whole [extension-undeclared] clause of the checker holds of every document of the model *)
Theorem ext_ok_run sc : ext_ok (to_summary (run sc)) = true.
Proof.
  unfold ext_ok. destruct (ext_declared_run sc) as (H1 & H2). destruct (ext_lists_NoDup sc) as (H3 & H4).
  rewrite !andb_true_iff. repeat split; [apply subset_str_incl, H1|apply subset_str_incl, H2|apply nodup_str_NoDup, H3|apply nodup_str_NoDup, H4].
Qed.

(* ------------------------------------------------------------------ the text container *)
Lemma enc_bytes_ok c w : w < 256 ^ comp_size c -> bytes_ok (enc c w).
Proof.
  destruct c; cbn [enc comp_size]; intros H; try apply le32_bytes; try apply le16_bytes.
  constructor; [|constructor]. unfold is_byte. change (256 ^ 1) with 256 in H. exact H.
Qed.
Lemma chunk_bytes_ok ck : chunk_ok ck -> bytes_ok (chunk_bytes ck).
Proof.
  intros (_ & Hd). unfold chunk_bytes. pose proof (expand_ok _ _ _ Hd) as He.
  induction He as [|e es (_ & Hw) _ IH]; cbn [flat_map]; [constructor|]. apply bytes_ok_app. split; [|exact IH].
  unfold enc_elem. induction Hw as [|w ws Hw1 _ IHw]; cbn [flat_map]; [constructor|].
  apply bytes_ok_app. split; [apply enc_bytes_ok, Hw1|exact IHw].
Qed.
Theorem buf_bytes_ok sc : scene_ok sc -> bytes_ok (buf (run sc)).
Proof.
  intros Hok. destruct (run_chunks_ok sc Hok) as (cks & Hk & E). unfold buf, buf_b. rewrite E. cbn [b_chunks of_chunks]. clear E.
  induction Hk as [|ck r H _ IH]; cbn [flat_map]; [constructor|]. apply bytes_ok_app. split; [apply chunk_bytes_ok, H|exact IH].
Qed.

Definition ascii_bytes (s : string) : list N := map (fun a => N.of_nat (Ascii.nat_of_ascii a)) (String.list_ascii_of_string s).
Definition uri_prefix : list N := ascii_bytes "data:application/octet-stream;base64,".
Fixpoint strip_prefix (p l : list N) : option (list N) :=
  match p, l with
  | [], _ => Some l
  | a :: p', b :: l' => if a =? b then strip_prefix p' l' else None
  | _, [] => None
  end.
Lemma strip_prefix_app p r : strip_prefix p (p ++ r) = Some r.
Proof. induction p as [|a p IH]; cbn [strip_prefix app]; [reflexivity|]. rewrite N.eqb_refl. exact IH. Qed.

(* ToGLTF(BufferEmbeddingStrategy_Base64Encode) / WriteText: buffers[0] = { byteLength = bytesWritten,
   uri = "data:application/octet-stream;base64," ++ base64(buffer) }.  The base64 codec is abstract: any
   encoder / decoder pair with the round-trip property. *)
Section TextContainer.
Variable b64enc : list N -> list N.
Variable b64dec : list N -> option (list N).
Hypothesis b64_roundtrip : forall l, bytes_ok l -> b64dec (b64enc l) = Some l.

Definition text_buffers (st : state) : list (N * list N) :=          (* byteLength, uri *)
  if 0 <? b_written (st_b st) then [(b_written (st_b st), uri_prefix ++ b64enc (buf st))] else [].
(* the independent reader: strip the media-type prefix, decode *)
Definition read_uri (u : list N) : option (list N) := do r <- strip_prefix uri_prefix u; b64dec r.

(* the text container carries the buffer: decoding the URI gives exactly the payload, and the declared
   byteLength is its length; a scene without data has no buffer *)
Theorem text_payload sc : scene_ok sc ->
  match text_buffers (run sc) with
  | [(n, u)] => read_uri u = Some (buf (run sc)) /\ n = len (buf (run sc)) /\ 0 < n
  | [] => buf (run sc) = []
  | _ => False
  end.
Proof.
  intros Hok. unfold text_buffers. destruct (views_tile sc) as (_ & _ & _ & _ & Hl). specialize (Hl Hok).
  destruct (0 <? b_written (st_b (run sc))) eqn:E.
  - split; [|split; [symmetry; exact Hl|lia]]. unfold read_uri. rewrite strip_prefix_app. cbn [bind].
    apply b64_roundtrip, buf_bytes_ok, Hok.
  - destruct (buf (run sc)); [reflexivity|]. unfold len in Hl. cbn [length] in Hl. lia.
Qed.

(* both containers carry the same payload: the BIN chunk of the GLB (up to the declared byteLength; the
   rest is zero padding) and the decoded data URI of the .gltf are the same bytes *)
Theorem glb_text_same_payload sc json : scene_ok sc ->
  glb_total (len json) (len (buf (run sc))) < 4294967296 ->
  match text_buffers (run sc) with
  | [(n, u)] => exists j b, glb_parse (glb_frame json (buf (run sc))) = Some (j, Some b) /\
                            read_uri u = Some (firstn (N.to_nat n) b) /\
                            skipn (N.to_nat n) b = repeat 0 (N.to_nat (pad4 n))
  | [] => exists j, glb_parse (glb_frame json (buf (run sc))) = Some (j, None)
  | _ => False
  end.
Proof.
  intros Hok HT. pose proof (text_payload sc Hok) as H. rewrite (glb_parse_frame _ _ HT).
  destruct (text_buffers (run sc)) as [|[n u] [|? ?]]; [| |exact H].
  - rewrite H. eexists. reflexivity.
  - destruct H as (H1 & H2 & H3). replace (len (buf (run sc)) =? 0) with false by lia.
    eexists _, _. split; [reflexivity|]. subst n. unfold len. rewrite Nat2N.id.
    rewrite firstn_app, Nat.sub_diag, firstn_all. cbn [firstn]. rewrite app_nil_r. split; [exact H1|].
    rewrite skipn_app, skipn_all, Nat.sub_diag. reflexivity.
Qed.
End TextContainer.

(* ------------------------------------------------------------------ every written block has bytes *)
From PF Require Import Formats.GltfNodeProofs.

Lemma live_attr_len m : mesh_ok m -> (prim_count m =? 0) = false -> 0 < attr_len m /\ 0 < len (me_idx m).
Proof.
  intros (_ & _ & _ & Hi & _) Hp. unfold prim_count in Hp.
  assert (Hl : 0 < len (me_idx m)) by (destruct (me_point m); lia).
  split; [|exact Hl]. destruct (me_idx m) as [|i r]; [unfold len in Hl; cbn in Hl; lia|].
  inversion Hi; subst. lia.
Qed.
Lemma run_chunks_pos sc : scene_ok sc ->
  exists cks, Forall (fun ck => 0 < ck_size ck) cks /\ st_b (run sc) = of_chunks cks.
Proof.
  apply (run_chunks (fun ck => 0 < ck_size ck) model_ok).
  - intros mo (Hm & _) Hp. destruct (live_attr_len _ Hm Hp) as (Ha & Hl).
    destruct Hm as (H4 & H3 & H2 & _). unfold mesh_chunks.
    assert (HA : forall k l, 0 < k -> attrs_ok k (attr_len (mo_mesh mo)) l ->
                 Forall (fun ck => 0 < ck_size ck) (map (attr_chunk k) l)).
    { intros k l Hk H. rewrite Forall_map. eapply Forall_impl; [|exact H]. cbv beta. intros nv (_ & Hc).
      unfold ck_size, ck_count, attr_chunk, vec_chunk. cbn [ck_data ck_k ck_comp]. rewrite Hc.
      pose proof (comp_size_pos (attr_comp (fst nv))). nia. }
    repeat (apply Forall_app; split); try (apply HA; [lia|assumption]).
    constructor; [|constructor]. unfold ck_size, ck_count, idx_chunk. cbn [ck_data ck_k ck_comp].
    rewrite vcount_plain, len_map. pose proof (comp_size_pos (index_comp (attr_len (mo_mesh mo)))). nia.
  - intros mo _ Hn. unfold inst_chunks.
    assert (0 < len (mo_inst mo)) by (destruct (mo_inst mo); [congruence|unfold len; cbn; lia]).
    repeat constructor; unfold ck_size, ck_count, vec_chunk; cbn [ck_data ck_k ck_comp comp_size];
      rewrite vcount_plain, len_map; lia.
Qed.
Lemma total_pos cks : Forall (fun ck => 0 < ck_size ck) cks -> cks = [] \/ 0 < total cks.
Proof. intros H. destruct H; [left; reflexivity|right; cbn [total]; lia]. Qed.

(* ------------------------------------------------------------------ the document-consistency half of the checker *)
Definition obs_text (sc : scene) : obs :=
  {| o_sum := to_summary (run sc); o_payload := Some (buf (run sc));
     o_bin_len := b_written (st_b (run sc)); o_glb := None |}.

Lemma key_if_true b k : b = true -> key_if b k = [].
Proof. intros ->. reflexivity. Qed.

Lemma listN_eqb_refl l : listN_eqb l l = true.
Proof. apply (keyed_refl _ _ keyed_listN). Qed.
Lemma optN_eqb_refl o : optN_eqb o o = true.
Proof. apply (keyed_refl _ _ keyed_optN). Qed.
Lemma opt_listN_eqb_refl o : opt_listN_eqb o o = true.
Proof. destruct o; cbn; [apply listN_eqb_refl|reflexivity]. Qed.
Lemma glight_eqb_refl g : glight_eqb g g = true.
Proof. unfold glight_eqb. rewrite String.eqb_refl, opt_listN_eqb_refl, !optN_eqb_refl. reflexivity. Qed.
Lemma list_eqb_refl {A} (e : A -> A -> bool) l : (forall a, e a a = true) -> list_eqb e l l = true.
Proof. intros H. induction l; cbn [list_eqb]; [reflexivity|]. rewrite H, IHl. reflexivity. Qed.

Lemma mmv_list_refl l : Forall (fun v => v <> MOther) l -> list_eqb mmv_eqb l l = true.
Proof. induction 1 as [|v l Hv _ IH]; cbn [list_eqb]; [reflexivity|]. rewrite IH.
  destruct v; [cbn [mmv_eqb]; rewrite N.eqb_refl; reflexivity|reflexivity|reflexivity|congruence]. Qed.
Lemma minmax_of_no_other c k es : Forall (fun v => v <> MOther) (fst (minmax_of c k es)) /\ Forall (fun v => v <> MOther) (snd (minmax_of c k es)).
Proof.
  unfold minmax_of. cbn [fst snd]. split; apply Forall_forall; intros v Hv; apply in_map_iff in Hv; destruct Hv as (j & <- & _);
    unfold col_min, col_max; destruct (fold_mm _ _); discriminate.
Qed.
Lemma comp_of_code_comp c : is_idx_comp c = false -> comp_of_code (comp_code c) = c.
Proof. destruct c; cbn; congruence. Qed.

Lemma minmax_ok_acc i ck : minmax_ok (acc_of i ck) (expand (ck_data ck)) = true.
Proof.
  unfold minmax_ok, acc_of. cbn [a_min a_max a_comp a_k]. destruct (is_idx_comp (ck_comp ck)) eqn:E; [reflexivity|].
  rewrite (comp_of_code_comp _ E). unfold minmax. rewrite <- minmax_expand.
  destruct (minmax_of_no_other (ck_comp ck) (ck_k ck) (expand (ck_data ck))) as (H1 & H2).
  destruct (minmax_of (ck_comp ck) (ck_k ck) (expand (ck_data ck))) as [mn mx]. cbn [fst snd] in *.
  destruct mn, mx; try reflexivity; rewrite !mmv_list_refl by assumption; reflexivity.
Qed.

Lemma light_nodes_length j ls : length (light_nodes j ls) = length ls.
Proof. revert j. induction ls; intros j; cbn [light_nodes length]; auto. Qed.

Lemma light_checks s j ls :
  flat_map (fun jl => light_node_check s (N.of_nat (fst (fst jl))) (snd (fst jl)) (snd jl))
    (zip (zip (seq j (length ls)) ls) (light_nodes (N.of_nat j) ls)) = [].
Proof.
  revert j. induction ls as [|l ls IH]; intros j; cbn [length seq zip light_nodes flat_map]; [reflexivity|].
  replace (N.of_nat j + 1) with (N.of_nat (S j)) by lia. rewrite IH, app_nil_r.
  unfold light_node_check, light_node. cbn [gn_light gn_t gn_mesh gn_exts fst snd].
  apply key_if_true. rewrite optN_eqb_refl, opt_listN_eqb_refl. reflexivity.
Qed.

Lemma covers_seqN n : covers (N.of_nat n) (seqN n) = true.
Proof.
  unfold covers, seqN. rewrite Nat2N.id. apply forallb_forall. intros i Hi. apply existsb_exists.
  exists (N.of_nat i). split; [apply in_map, Hi|apply N.eqb_refl].
Qed.

Theorem check_struct_run sc : scene_ok sc -> scene_ptr_ok sc -> gltf_check_struct sc (obs_text sc) = [].
Proof.
  intros Hok Hp. unfold gltf_check_struct, obs_text. cbn [o_sum o_payload o_bin_len o_glb].
  destruct (views_tile sc) as (_ & Hdis & Hin & Hbuf & Hlen). specialize (Hlen Hok). cbv zeta in *.
  destruct (run_chunks_pos sc Hok) as (cks & Hpos & Ecks).
  destruct (run_chunks_ok sc Hok) as (cks' & Hk & Ecks'). assert (cks' = cks) by (rewrite Ecks in Ecks'; inversion Ecks'; reflexivity). subst cks'.
  destruct (nodes_of_run sc Hp) as (mn & En & Hn & Hsc & Hli). cbv zeta in *.
  destruct (textures_stored_once sc) as (T1 & T2 & T3 & T4). cbv zeta in *.
  set (s := to_summary (run sc)) in *.
  assert (Es : s_views s = views_of 0 cks /\ s_accs s = accs_of 0 cks /\ b_written (st_b (run sc)) = total cks
               /\ buf (run sc) = flat_map chunk_bytes cks).
  { unfold s, to_summary, buf, buf_b. cbn [s_views s_accs]. rewrite Ecks. repeat split. }
  destruct Es as (Ev & Ea & Ew & Eb).
  assert (C1 : Nat.leb (length (s_buffers s)) 1 = true) by (rewrite Hbuf; destruct (0 <? _); reflexivity).
  assert (C2 : match s_buffers s with [] => b_written (st_b (run sc)) =? 0 | [b] => b_written (st_b (run sc)) =? b | _ => false end = true).
  { rewrite Hbuf. destruct (0 <? b_written (st_b (run sc))) eqn:E; [apply N.eqb_refl|lia]. }
  assert (C3 : (len (buf (run sc)) =? b_written (st_b (run sc))) = true) by lia.
  assert (C4 : forallb (view_ok (s_buffers s)) (s_views s) = true).
  { rewrite Hbuf. destruct (total_pos _ Hpos) as [->|Ht].
    - rewrite Ev. reflexivity.
    - replace (0 <? b_written (st_b (run sc))) with true by lia. exact Hin. }
  assert (C6 : forallb (acc_ok (s_views s)) (s_accs s) = true).
  { rewrite Ev, Ea. apply acc_ok_of. eapply Forall_impl; [|exact Hk]. intros ck (H & _). exact H. }
  assert (C7 : forallb (fun a => match decode_acc (s_views s) (buf (run sc)) a with
                                 | Some es => minmax_ok a es | None => false end) (s_accs s) = true).
  { rewrite Ev, Ea, Eb. apply forallb_forall. intros a Ha. apply In_nth_error in Ha. destruct Ha as (n & Ha).
    assert (Hn' : (n < length cks)%nat) by (rewrite <- (accs_of_length 0 cks); apply nth_error_Some; congruence).
    destruct (nth_error cks n) as [ck|] eqn:En'; [|apply nth_error_None in En'; lia].
    destruct (acc_view_of cks n ck En') as (E1 & _). rewrite Ha in E1. apply some_inj in E1. subst a.
    rewrite (decode_canonical cks n ck Hk En'). apply minmax_ok_acc. }
  assert (C8 : ext_ok s = true) by apply ext_ok_run.
  assert (C9 : Nat.eqb (length (s_nodes s)) (length (filter live (sc_models sc)) + length (sc_lights sc)) = true).
  { unfold s, to_summary. cbn [s_nodes]. rewrite En, app_length, light_nodes_length, <- (Forall2_len _ _ _ Hn). apply Nat.eqb_refl. }
  assert (C10 : flat_map (fun jl => light_node_check s (N.of_nat (fst (fst jl))) (snd (fst jl)) (snd jl))
                  (zip (zip (seq 0 (length (sc_lights sc))) (sc_lights sc))
                       (skipn (length (filter live (sc_models sc))) (s_nodes s))) = []).
  { unfold s at 2. unfold to_summary. cbn [s_nodes]. rewrite En, (Forall2_len _ _ _ Hn), skipn_app, skipn_all, Nat.sub_diag. cbn [skipn app].
    apply (light_checks _ 0). }
  assert (C11 : list_eqb glight_eqb (s_lights s) (map light_out (sc_lights sc)) = true).
  { unfold s, to_summary. cbn [s_lights]. rewrite Hli. apply list_eqb_refl, glight_eqb_refl. }
  assert (C12 : Bool.eqb (str_in "KHR_lights_punctual" (s_root_exts s)) (negb (Nat.eqb (length (sc_lights sc)) 0)) = true).
  { unfold s, to_summary. cbn [s_root_exts]. rewrite Hli. destruct (sc_lights sc); reflexivity. }
  assert (C13 : match s_scenes s with
                | [roots] => (s_scene s =? 0) && Nat.eqb (length roots) (length (s_nodes s))
                             && covers (len (s_nodes s)) roots && forallb (fun r => valid_idx r (s_nodes s)) roots
                | _ => false end = true).
  { unfold s, to_summary. cbn [s_scenes s_scene s_nodes]. rewrite Hsc. unfold seqN at 1. rewrite map_length, seq_length, Nat.eqb_refl.
    unfold len. rewrite covers_seqN. cbn [andb N.eqb]. apply forallb_forall. intros r Hr. apply seqN_In in Hr.
    unfold valid_idx, len. lia. }
  assert (C0 : String.eqb (s_version s) "2.0" = true) by reflexivity.
  rewrite C0, C1, C2, C3, C4, Hdis, C6, C7, C8, C9, C10, C11, C12, C13, T1, T2, T3, T4. reflexivity.
Qed.

(* ------------------------------------------------------------------ material-content is refuted for the faithful model *)
(* PolyformTexture.equal ignores the texture's extensions (and the sampler name): two materials that
   differ only there are merged, and the second model's primitive refers to a material whose texture
   reference carries the first model's KHR_texture_transform.  (fixes/C06-texture-equal-ignores-extensions) *)
Definition tx_plain : ptexture := {| tx_ptr := 1; tx_uri := "a.png"; tx_samp := None; tx_exts := []; tx_xcls := [] |}.
Definition tx_transformed : ptexture :=
  {| tx_ptr := 0; tx_uri := "a.png"; tx_samp := None; tx_exts := [("KHR_texture_transform"%string, false)]; tx_xcls := [0] |}.
Definition mat_with (ptr : N) (t : ptexture) : pmaterial :=
  {| pm_ptr := ptr; pm_name := "x";
     pm_pbr := Some {| pb_color := None; pb_tex := Some t; pb_metal := None; pb_rough := None; pb_mrtex := None |};
     pm_exts := []; pm_normal := None; pm_occ := None; pm_emissive := None; pm_alpha := None; pm_cutoff := None; pm_extras := 0 |}.
Definition tex_ext_scene : scene :=
  {| sc_models := [ {| mo_name := "a"; mo_mesh := tri_mesh 0; mo_mat := Some (mat_with 0 tx_transformed);
                       mo_t := None; mo_r := None; mo_s := None; mo_inst := [] |};
                    {| mo_name := "b"; mo_mesh := tri_mesh 0; mo_mat := Some (mat_with 1 tx_plain);
                       mo_t := None; mo_r := None; mo_s := None; mo_inst := [] |} ];
     sc_lights := [] |}.

(* Documentation of the defect repaired by 31c30a5: the PINNED texture equality calls the two textures equal
   although their extension lists differ (so the two materials were merged and model "b" got model "a"'s
   KHR_texture_transform: "material-content" failed); with the repaired equality the materials are
   different and the scene's document passes the whole checker. *)
Theorem material_content_refuted_witness :
  ptex_equal_pinned (Some tx_transformed) (Some tx_plain) = true /\ tx_exts tx_transformed <> tx_exts tx_plain /\
  mat_equal (mat_with 0 tx_transformed) (mat_with 1 tx_plain) = false /\
  scene_ok tex_ext_scene /\ scene_ptr_ok tex_ext_scene /\ scene_rejected tex_ext_scene = false /\
  gltf_validb tex_ext_scene (obs_text tex_ext_scene) = true.
Proof.
  split; [reflexivity|]. split; [discriminate|]. split; [reflexivity|]. split; [|split; [|split]].
  - unfold scene_ok, tex_ext_scene. cbn [sc_models].
    repeat constructor; cbn; try lia; try (vm_compute; reflexivity).
  - intros m1 m2 (mo1 & H1 & ->) (mo2 & H2 & ->) _. cbn [sc_models tex_ext_scene In] in H1, H2.
    destruct H1 as [<-|[<-|[]]], H2 as [<-|[<-|[]]]; reflexivity.
  - vm_compute. reflexivity.
  - vm_compute. reflexivity.
Qed.

(* ------------------------------------------------------------------ models half: the primitive clauses in boolean form *)
Lemma all_same_agree n l : Forall (eq n) l -> match l with [] => true | c :: r => forallb (N.eqb c) r end = true.
Proof.
  intros H. destruct H as [|c r <- Hr]; [reflexivity|]. apply forallb_forall. intros x Hx.
  rewrite Forall_forall in Hr. rewrite (Hr x Hx). apply N.eqb_refl.
Qed.

(* [attribute-count-mismatch] and [index-out-of-range] of the checker hold of every document of the model *)
Theorem prim_clauses_run sc : scene_ok sc ->
  let s := to_summary (run sc) in
  forallb (fun m => forallb (counts_agree s) (gm_prims m)) (s_meshes s) = true /\
  forallb (fun m => forallb (indices_in_range s (buf (run sc))) (gm_prims m)) (s_meshes s) = true.
Proof.
  intros Hok. cbv zeta. pose proof (prims_carry sc Hok) as H. cbv zeta in H.
  set (s := to_summary (run sc)) in *.
  assert (HC : forall gm, In gm (s_meshes s) -> exists p mo, In mo (sc_models sc) /\ gm_prims gm = [p] /\
             Forall (eq (attr_len (mo_mesh mo))) (attr_counts s p) /\
             indices_in_range s (buf (run sc)) p = true).
  { intros gm Hin. destruct (H gm Hin) as (p & mo & ii & Hmo & Ep & Ei & (a & Ha & _ & _ & _ & Hd) & Hat).
    exists p, mo. split; [exact Hmo|]. split; [exact Ep|].
    assert (Hc : Forall (eq (attr_len (mo_mesh mo))) (attr_counts s p)).
    { unfold attr_counts. apply Forall_forall. intros c Hc. apply in_flat_map in Hc. destruct Hc as ((name, ai) & Hin' & Hc).
      destruct (Hat name ai Hin') as (k & nv & a' & _ & _ & Ha' & _ & _ & Hcount & _).
      unfold nthN in Hc. cbn [snd] in Hc. rewrite Ha' in Hc. destruct Hc as [<-|[]]. symmetry. exact Hcount. }
    split; [exact Hc|]. unfold indices_in_range. rewrite Ei. unfold nthN. rewrite Ha, Hd.
    assert (Hm : mesh_ok (mo_mesh mo)) by (unfold scene_ok in Hok; rewrite Forall_forall in Hok; apply Hok, Hmo).
    destruct Hm as (_ & _ & _ & Hidx & _).
    apply forallb_forall. intros e He. apply in_map_iff in He. destruct He as (i & <- & Hi).
    apply forallb_forall. intros c Hc'. rewrite Forall_forall in Hc. rewrite <- (Hc c Hc'). cbn [nth].
    rewrite Forall_forall in Hidx. specialize (Hidx i Hi). lia. }
  split; apply forallb_forall; intros gm Hin; destruct (HC gm Hin) as (p & mo & _ & -> & Hc & Hi); cbn [forallb]; rewrite andb_true_r.
  - unfold counts_agree. apply (all_same_agree _ _ Hc).
  - exact Hi.
Qed.
