(* C06 proofs, part G: remaining clauses of the checker as theorems — declared bounds against the expanded
   data, absence of duplicates in the extension lists, the text container (base64 data URI). *)
From PF Require Import Base.Bytes Base.BytesProofs Formats.Gltf Formats.GltfProofs Formats.GltfExtProofs
  Formats.GltfDedupProofs Formats.GltfTexProofs Formats.GltfGlbProofs.
From Coq Require Import ZifyN ZifyNat ZifyBool.
From Coq Require String Ascii.
Import String.StringSyntax.
Delimit Scope string_scope with string.
Ltac Zify.zify_post_hook ::= Z.div_mod_to_equations.
Open Scope list_scope.
Open Scope N_scope.

(* ------------------------------------------------------------------ bounds: run-length data vs stored data *)
Lemma fkey_inj a b : fkey a = fkey b -> a = b.
Proof. unfold fkey. destruct (a <? 2147483648) eqn:Ea, (b <? 2147483648) eqn:Eb; lia. Qed.

Definition same_set {A} (l l' : list A) : Prop := forall x, In x l <-> In x l'.

Lemma fold_mm_same_min ws ws' : same_set ws ws' -> fold_mm fmin ws = fold_mm fmin ws'.
Proof.
  intros H. destruct ws as [|w r], ws' as [|w' r']; cbn [fold_mm]; try reflexivity.
  - exfalso. apply (H w'). left. reflexivity.
  - exfalso. apply (H w). left. reflexivity.
  - f_equal. destruct (fold_fmin_spec r w) as (I1 & L1). destruct (fold_fmin_spec r' w') as (I2 & L2).
    apply fkey_inj. apply H in I1. apply H in I2. specialize (L2 _ I1). specialize (L1 _ I2). lia.
Qed.
Lemma fold_mm_same_max ws ws' : same_set ws ws' -> fold_mm fmax ws = fold_mm fmax ws'.
Proof.
  intros H. destruct ws as [|w r], ws' as [|w' r']; cbn [fold_mm]; try reflexivity.
  - exfalso. apply (H w'). left. reflexivity.
  - exfalso. apply (H w). left. reflexivity.
  - f_equal. destruct (fold_fmax_spec r w) as (I1 & L1). destruct (fold_fmax_spec r' w') as (I2 & L2).
    apply fkey_inj. apply H in I1. apply H in I2. specialize (L2 _ I1). specialize (L1 _ I2). lia.
Qed.

Lemma same_set_map {A B} (f : A -> B) l l' : same_set l l' -> same_set (map f l) (map f l').
Proof. intros H y. rewrite !in_map_iff. split; intros (x & E & Hx); exists x; (split; [exact E|apply H, Hx]). Qed.
Lemma same_set_filter {A} (p : A -> bool) l l' : same_set l l' -> same_set (filter p l) (filter p l').
Proof. intros H y. rewrite !filter_In, (H y). tauto. Qed.

Lemma expand_same_set d : same_set (expand d) (run_elems d).
Proof.
  intros e. unfold expand, run_elems. rewrite in_flat_map, in_map_iff. split.
  - intros ((n, e') & Hin & He). cbn [fst snd] in He. apply repeat_spec in He as E. subst e'.
    exists (n, e). split; [reflexivity|]. apply filter_In. split; [exact Hin|]. cbn [fst].
    destruct n; [destruct He|reflexivity].
  - intros ((n, e') & E & Hin). cbn [snd] in E. subst e'. apply filter_In in Hin. destruct Hin as (Hin & Hn).
    exists (n, e). split; [exact Hin|]. cbn [fst snd] in *.
    destruct (N.to_nat n) eqn:En; [lia|]. left. reflexivity.
Qed.

(* the bounds the writer computes from the run-length attribute are the bounds of the expanded (stored) data *)
Theorem minmax_expand c k d : minmax_of c k (expand d) = minmax_of c k (run_elems d).
Proof.
  unfold minmax_of.
  assert (H : same_set (mm_elems c (expand d)) (mm_elems c (run_elems d))).
  { unfold mm_elems. apply same_set_filter, same_set_map, expand_same_set. }
  f_equal; apply map_ext; intros j; unfold col_min, col_max, col.
  - rewrite (fold_mm_same_min _ _ (same_set_map _ _ _ H)). reflexivity.
  - rewrite (fold_mm_same_max _ _ (same_set_map _ _ _ H)). reflexivity.
Qed.

(* ------------------------------------------------------------------ extension lists have no duplicates *)
Lemma add_str_NoDup s l : NoDup l -> NoDup (add_str s l).
Proof.
  intros H. unfold add_str. destruct (existsb (String.eqb s) l) eqn:E; [exact H|].
  induction l as [|y l IH]; cbn [app]; [repeat constructor; intros []|].
  inversion H; subst. cbn [existsb] in E. apply orb_false_iff in E. destruct E as (E1 & E2). constructor.
  - rewrite in_app_iff. cbn [In]. intros [Hin|[<-|[]]]; [contradiction|]. rewrite String.eqb_refl in E1. discriminate.
  - apply IH; assumption.
Qed.
Lemma fold_add_str_NoDup {A} (f : A -> string) es u : NoDup u -> NoDup (fold_left (fun u e => add_str (f e) u) es u).
Proof. revert u. induction es as [|e es IH]; intros u H; cbn [fold_left]; [exact H|]. apply IH, add_str_NoDup, H. Qed.

Lemma use_exts_NoDup es x : NoDup (x_used x) /\ NoDup (x_req x) -> NoDup (x_used (use_exts es x)) /\ NoDup (x_req (use_exts es x)).
Proof.
  intros (H1 & H2). unfold use_exts. cbn [x_used x_req]. split; [apply (fold_add_str_NoDup fst), H1|].
  generalize (x_req x) H2. induction es as [|e es IH]; intros u Hu; cbn [fold_left]; [exact Hu|].
  apply IH. destruct (snd e); [apply add_str_NoDup, Hu|exact Hu].
Qed.
Lemma add_texture_used_req t x :
  x_used (snd (add_texture t x)) = x_used (use_exts (tx_exts t) x) /\ x_req (snd (add_texture t x)) = x_req (use_exts (tx_exts t) x).
Proof.
  unfold add_texture. destruct (lookupN _ _); [split; reflexivity|].
  destruct (index_ofN (String.eqb (tx_uri t)) _); destruct (tx_samp t) as [sm|];
    try destruct (index_ofN (samp_eqb sm) _);
    match goal with |- context [index_ofN (gtex_eqb ?nt) ?l] => destruct (index_ofN (gtex_eqb nt) l) end; split; reflexivity.
Qed.

Theorem ext_lists_NoDup sc : NoDup (s_used (to_summary (run sc))) /\ NoDup (s_req (to_summary (run sc))).
Proof.
  unfold to_summary. cbn [s_used s_req].
  apply (xsteps_inv (fun x => NoDup (x_used x) /\ NoDup (x_req x))) with (x := init_x); [| |apply run_xsteps|].
  - intros t x H. destruct (add_texture_used_req t x) as (-> & ->). apply use_exts_NoDup, H.
  - intros es x H. apply use_exts_NoDup, H.
  - cbn. split; constructor.
Qed.

(* boolean forms used by the checker *)
Lemma str_in_In s l : str_in s l = true <-> In s l.
Proof.
  unfold str_in. rewrite existsb_exists. split.
  - intros (y & Hy & E). apply String.eqb_eq in E. subst. exact Hy.
  - intros H. exists s. split; [exact H|apply String.eqb_refl].
Qed.
Lemma subset_str_incl a b : subset_str a b = true <-> incl a b.
Proof.
  unfold subset_str. rewrite forallb_forall. split; intros H x Hx; [apply str_in_In, H, Hx|apply str_in_In, H, Hx].
Qed.
Lemma nodup_str_NoDup l : nodup_str l = true <-> NoDup l.
Proof.
  induction l as [|x l IH]; cbn [nodup_str]; [split; [constructor|reflexivity]|].
  rewrite andb_true_iff, negb_true_iff, IH. split.
  - intros (H1 & H2). constructor; [|exact H2]. intros Hin. apply str_in_In in Hin. congruence.
  - intros H. inversion H; subst. split; [|assumption]. destruct (str_in x l) eqn:E; [|reflexivity].
    apply str_in_In in E. contradiction.
Qed.

(* the whole [extension-undeclared] clause of the checker holds of every document of the model *)
Theorem ext_ok_run sc : ext_ok (to_summary (run sc)) = true.
Proof.
  unfold ext_ok. destruct (ext_declared_run sc) as (H1 & H2). destruct (ext_lists_NoDup sc) as (H3 & H4).
  rewrite !andb_true_iff. repeat split; [apply subset_str_incl, H1|apply subset_str_incl, H2|apply nodup_str_NoDup, H3|apply nodup_str_NoDup, H4].
Qed.

(* ------------------------------------------------------------------ the text container *)
Lemma enc_bytes_ok c w : w < 256 ^ comp_size c -> bytes_ok (enc c w).
Proof.
  destruct c; cbn [enc comp_size]; intros H; try apply le32_bytes; try apply le16_bytes.
  constructor; [|constructor]. unfold is_byte. change (256 ^ 1) with 256 in H. exact H.
Qed.
Lemma chunk_bytes_ok ck : chunk_ok ck -> bytes_ok (chunk_bytes ck).
Proof.
  intros (_ & Hd). unfold chunk_bytes. pose proof (expand_ok _ _ _ Hd) as He.
  induction He as [|e es (_ & Hw) _ IH]; cbn [flat_map]; [constructor|]. apply bytes_ok_app. split; [|exact IH].
  unfold enc_elem. induction Hw as [|w ws Hw1 _ IHw]; cbn [flat_map]; [constructor|].
  apply bytes_ok_app. split; [apply enc_bytes_ok, Hw1|exact IHw].
Qed.
Theorem buf_bytes_ok sc : scene_ok sc -> bytes_ok (buf (run sc)).
Proof.
  intros Hok. destruct (run_chunks_ok sc Hok) as (cks & Hk & E). unfold buf, buf_b. rewrite E. cbn [b_chunks of_chunks]. clear E.
  induction Hk as [|ck r H _ IH]; cbn [flat_map]; [constructor|]. apply bytes_ok_app. split; [apply chunk_bytes_ok, H|exact IH].
Qed.

Definition ascii_bytes (s : string) : list N := map (fun a => N.of_nat (Ascii.nat_of_ascii a)) (String.list_ascii_of_string s).
Definition uri_prefix : list N := ascii_bytes "data:application/octet-stream;base64,".
Fixpoint strip_prefix (p l : list N) : option (list N) :=
  match p, l with
  | [], _ => Some l
  | a :: p', b :: l' => if a =? b then strip_prefix p' l' else None
  | _, [] => None
  end.
Lemma strip_prefix_app p r : strip_prefix p (p ++ r) = Some r.
Proof. induction p as [|a p IH]; cbn [strip_prefix app]; [reflexivity|]. rewrite N.eqb_refl. exact IH. Qed.

(* ToGLTF(BufferEmbeddingStrategy_Base64Encode) / WriteText: buffers[0] = { byteLength = bytesWritten,
   uri = "data:application/octet-stream;base64," ++ base64(buffer) }.  The base64 codec is abstract: any
   encoder / decoder pair with the round-trip property. *)
Section TextContainer.
Variable b64enc : list N -> list N.
Variable b64dec : list N -> option (list N).
Hypothesis b64_roundtrip : forall l, bytes_ok l -> b64dec (b64enc l) = Some l.

Definition text_buffers (st : state) : list (N * list N) :=          (* byteLength, uri *)
  if 0 <? b_written (st_b st) then [(b_written (st_b st), uri_prefix ++ b64enc (buf st))] else [].
(* the independent reader: strip the media-type prefix, decode *)
Definition read_uri (u : list N) : option (list N) := do r <- strip_prefix uri_prefix u; b64dec r.

(* the text container carries the buffer: decoding the URI gives exactly the payload, and the declared
   byteLength is its length; a scene without data has no buffer *)
Theorem text_payload sc : scene_ok sc ->
  match text_buffers (run sc) with
  | [(n, u)] => read_uri u = Some (buf (run sc)) /\ n = len (buf (run sc)) /\ 0 < n
  | [] => buf (run sc) = []
  | _ => False
  end.
Proof.
  intros Hok. unfold text_buffers. destruct (views_tile sc) as (_ & _ & _ & _ & Hl). specialize (Hl Hok).
  destruct (0 <? b_written (st_b (run sc))) eqn:E.
  - split; [|split; [symmetry; exact Hl|lia]]. unfold read_uri. rewrite strip_prefix_app. cbn [bind].
    apply b64_roundtrip, buf_bytes_ok, Hok.
  - destruct (buf (run sc)); [reflexivity|]. unfold len in Hl. cbn [length] in Hl. lia.
Qed.

(* both containers carry the same payload: the BIN chunk of the GLB (up to the declared byteLength; the
   rest is zero padding) and the decoded data URI of the .gltf are the same bytes *)
Theorem glb_text_same_payload sc json : scene_ok sc ->
  glb_total (len json) (len (buf (run sc))) < 4294967296 ->
  match text_buffers (run sc) with
  | [(n, u)] => exists j b, glb_parse (glb_frame json (buf (run sc))) = Some (j, Some b) /\
                            read_uri u = Some (firstn (N.to_nat n) b) /\
                            skipn (N.to_nat n) b = repeat 0 (N.to_nat (pad4 n))
  | [] => exists j, glb_parse (glb_frame json (buf (run sc))) = Some (j, None)
  | _ => False
  end.
Proof.
  intros Hok HT. pose proof (text_payload sc Hok) as H. rewrite (glb_parse_frame _ _ HT).
  destruct (text_buffers (run sc)) as [|[n u] [|? ?]]; [| |exact H].
  - rewrite H. eexists. reflexivity.
  - destruct H as (H1 & H2 & H3). replace (len (buf (run sc)) =? 0) with false by lia.
    eexists _, _. split; [reflexivity|]. subst n. unfold len. rewrite Nat2N.id.
    rewrite firstn_app, Nat.sub_diag, firstn_all. cbn [firstn]. rewrite app_nil_r. split; [exact H1|].
    rewrite skipn_app, skipn_all, Nat.sub_diag. reflexivity.
Qed.
End TextContainer.
