(* C15, round 4: the float-only steps of the .splat codec over the real numbers, with float32 rounding
   instantiated by Flocq's binary32 format and the numeric side conditions discharged by the Interval tactic.

   * scale:   splat.Write stores float32(exp s), splat.Read returns the log of the stored float32.  For Flocq's
              round-to-nearest in the binary32 format (24-bit significand, minimal exponent -149) and EVERY scale
              -87 <= s <= 88:  exp s lies in the normal range, does not overflow, and
              |ln (round32 (exp s)) - s| <= 2^-23.   (SplatReal.scale_roundtrip_real with its rounding hypothesis
              discharged by Flocq's relative_error_N_FLT; range facts by interval.)
              With the error of Go's float64 math.Exp / math.Log on top: scale_float32_with_libm.
   * opacity: alpha = 1/(1+exp(-o)) is in (0,1) for every real o; the byte floor(alpha*255) is in 0..254 and
              byte/255 is within one step below alpha; the reader's -ln(1/a - 1) is the inverse of the sigmoid, so
              the opacity read back has sigmoid within 1/255 of the original's; for o >= -5.5 the byte is >= 1 (the
              value read back is finite).  The rational quantiser of the model (Splat.qalpha, exact on the float64
              alpha Go computed) is tied to the real sigmoid: an alpha within eps of sigmoid(o) is stored and read
              back within 1/255 + eps of sigmoid(o).
   * SH_C0:   the float64 constant of write.go is 1/(2 sqrt(pi)) to 2^-56.
   * SPZ rotation: with w = sqrt (max 0 (1 - |xyz|^2)) the returned quaternion has unit norm whenever the
              dequantised vector part lies in the unit ball, and w = 0 otherwise.

   Uses Coq's Reals (standard-library real-number axioms), like SplatReal.v.  The lemmas closed by the [interval]
   tactic (exp_normal, exp_no_overflow, opacity_byte_positive, SH_C0_value, fdc_step_value and what depends on them)
   additionally show the standard library's specification axioms of the kernel's 63-bit machine integers (Uint63.*_spec):
   Interval computes with software floats over Bignums' BigZ ([i_prec] is given everywhere, so primitive FLOATS are
   not used). *)
From Coq Require Import Reals Lra Lia ZArith QArith Qreals Qabs Qround.
From Flocq Require Import Core Relative.
From Interval Require Import Tactic.
From PF Require Import Base.Bytes Formats.Splat Formats.SplatProofs Formats.SplatReal Formats.Spz.
Open Scope R_scope.

(* ====================== scale ====================== *)
Definition fexp32 := FLT_exp (-149) 24.
Definition round32 (x : R) : R := round radix2 fexp32 ZnearestE x.
Definition u32 : R := / 16777216.                       (* 2^-24 *)
Definition min_normal32 : R := / IZR (2 ^ 126).        (* 2^-126 *)
Definition max_float32 : R := IZR ((2 ^ 24 - 1) * 2 ^ 104).

Lemma bpow_m126 : bpow radix2 (-126) = min_normal32.
Proof. unfold min_normal32. simpl. reflexivity. Qed.

Lemma round32_rel y : 0 < y -> min_normal32 <= y -> Rabs (round32 y - y) <= u32 * y.
Proof.
  intros Hy Hn. unfold round32, fexp32.
  pose proof (relative_error_N_FLT radix2 (-149) 24 ltac:(lia) (fun x => negb (Z.even x)) y) as H.
  replace (-149 + 24 - 1)%Z with (-126)%Z in H by lia. rewrite bpow_m126 in H.
  rewrite (Rabs_pos_eq y) in H by lra. specialize (H Hn).
  replace (/ 2 * bpow radix2 (- (24) + 1)) with u32 in H; [exact H|].
  unfold u32. simpl. lra.
Qed.

Lemma exp_normal s : -87 <= s -> min_normal32 <= exp s.
Proof.
  intros Hs. apply Rle_trans with (exp (-87)).
  - unfold min_normal32. interval with (i_prec 64).
  - destruct Hs as [Hs| <-]; [left; apply exp_increasing; exact Hs|right; reflexivity].
Qed.

Lemma max_float32_format : generic_format radix2 fexp32 max_float32.
Proof.
  unfold max_float32. rewrite mult_IZR.
  change (IZR (2 ^ 104)) with (bpow radix2 104).
  apply generic_format_FLT. exists (Float radix2 (2 ^ 24 - 1) 104); [reflexivity| |]; cbn; lia.
Qed.

Lemma exp_no_overflow s : s <= 88 -> round32 (exp s) <= max_float32.
Proof.
  intros Hs. unfold round32. apply round_le_generic.
  - apply FLT_exp_valid. unfold Prec_gt_0. lia.
  - apply valid_rnd_N.
  - exact max_float32_format.
  - apply Rle_trans with (exp 88).
    + destruct Hs as [Hs| ->]; [left; apply exp_increasing; exact Hs|right; reflexivity].
    + unfold max_float32. interval with (i_prec 64).
Qed.

(* the scale clause for binary32, no hypothesis on the rounding left *)
Theorem scale_float32 s : -87 <= s <= 88 ->
  min_normal32 <= exp s /\ round32 (exp s) <= max_float32 /\ Rabs (ln (round32 (exp s)) - s) <= / 8388608.
Proof.
  intros [Hlo Hhi]. split; [apply exp_normal; exact Hlo|]. split; [apply exp_no_overflow; exact Hhi|].
  replace (/ 8388608) with (2 * u32) by (unfold u32; lra).
  apply (scale_roundtrip_real round32 u32 (fun y => min_normal32 <= y)).
  - unfold u32. lra.
  - intros y Hy Hd. apply round32_rel; assumption.
  - apply exp_normal; exact Hlo.
Qed.

(* ... and with a float64 libm on both sides: expg within relative error e of exp, logg within absolute error
   e' of ln on the stored value.  The value read back is within 2^-23 + 2e + e' of s (for e <= 1/4; math.Exp's
   error is below 2^-52, a float64 ulp). *)
Theorem scale_float32_with_libm (expg logg : R -> R) (e e' : R) :
  0 <= e <= / 4 ->
  (forall x, Rabs (expg x - exp x) <= e * exp x) ->
  (forall y, 0 < y -> Rabs (logg y - ln y) <= e') ->
  forall s, -86 <= s <= 87 -> Rabs (logg (round32 (expg s)) - s) <= / 8388608 + 2 * e + e'.
Proof.
  intros He Hexp Hlog s [Hlo Hhi].
  pose proof (exp_pos s) as Hy. pose proof (Hexp s) as H1.
  assert (Hr : - (e * exp s) <= expg s - exp s <= e * exp s).
  { revert H1. unfold Rabs. destruct (Rcase_abs (expg s - exp s)); intros; lra. }
  set (d := (expg s - exp s) / exp s).
  assert (Ed : expg s = exp s * (1 + d)) by (unfold d; field; lra).
  assert (Hd : - e <= d <= e).
  { unfold d. split; apply Rmult_le_reg_r with (exp s); try exact Hy;
      unfold Rdiv; rewrite Rmult_assoc, Rinv_l by lra; lra. }
  assert (Hg : 0 < expg s) by (rewrite Ed; apply Rmult_lt_0_compat; lra).
  (* expg s = exp s' with s' = s + ln (1 + d), |s' - s| <= 2 e *)
  set (s' := s + ln (1 + d)).
  assert (Es : expg s = exp s').
  { unfold s'. rewrite exp_plus, exp_ln by lra. exact Ed. }
  assert (Hs' : Rabs (s' - s) <= 2 * e).
  { unfold s'. replace (s + ln (1 + d) - s) with (ln (1 + d)) by ring. apply Rabs_le. split.
    - apply Rle_trans with (ln (1 - e)); [apply ln_1m_ge; lra|apply ln_le_mono; lra].
    - apply Rle_trans with d; [apply ln_1p_le; lra|lra]. }
  assert (Hs'r : -87 <= s' <= 88).
  { apply Rabs_le_inv in Hs'. lra. }
  destruct (scale_float32 s' Hs'r) as (Hn & _ & Hrt).
  assert (Hpos : 0 < round32 (exp s')).
  { (* the rounded value is at least the smallest normal number *)
    apply Rlt_le_trans with min_normal32; [unfold min_normal32; apply Rinv_0_lt_compat; apply IZR_lt; lia|].
    unfold round32. apply round_ge_generic.
    - apply FLT_exp_valid. unfold Prec_gt_0. lia.
    - apply valid_rnd_N.
    - rewrite <- bpow_m126. apply generic_format_bpow. unfold fexp32, FLT_exp. lia.
    - exact Hn. }
  rewrite Es. pose proof (Hlog _ Hpos) as Hl.
  replace (logg (round32 (exp s')) - s)
    with ((logg (round32 (exp s')) - ln (round32 (exp s'))) + (ln (round32 (exp s')) - s') + (s' - s)) by ring.
  eapply Rle_trans; [apply Rabs_triang|]. eapply Rle_trans; [apply Rplus_le_compat_r; apply Rabs_triang|]. lra.
Qed.

(* ====================== opacity ====================== *)
Definition sigmoid (o : R) : R := / (1 + exp (- o)).
Definition logit (a : R) : R := - ln (1 / a - 1).            (* read.go: -math.Log((1/a) - 1) *)

Lemma sigmoid_range o : 0 < sigmoid o < 1.
Proof.
  unfold sigmoid. pose proof (exp_pos (- o)) as H. split.
  - apply Rinv_0_lt_compat. lra.
  - apply Rmult_lt_reg_r with (1 + exp (- o)); [lra|]. rewrite Rinv_l by lra. lra.
Qed.

Lemma sigmoid_logit a : 0 < a < 1 -> sigmoid (logit a) = a.
Proof.
  intros Ha. unfold sigmoid, logit. rewrite Ropp_involutive.
  assert (H : 0 < 1 / a - 1).
  { unfold Rdiv. rewrite Rmult_1_l. assert (1 < / a); [|lra].
    apply Rmult_lt_reg_r with a; [lra|]. rewrite Rinv_l by lra. lra. }
  rewrite exp_ln by exact H. field. lra.
Qed.

(* the byte splat.Write stores for the exact sigmoid: floor (alpha * 255) *)
Definition alpha_byte (o : R) : Z := Zfloor (sigmoid o * 255).

Theorem opacity_byte_real o :
  (0 <= alpha_byte o <= 254)%Z /\ 0 <= sigmoid o - IZR (alpha_byte o) / 255 < / 255.
Proof.
  pose proof (sigmoid_range o) as Hs. unfold alpha_byte.
  pose proof (Zfloor_lb (sigmoid o * 255)) as Hl. pose proof (Zfloor_ub (sigmoid o * 255)) as Hu.
  split.
  - split.
    + apply Zfloor_lub. simpl. lra.
    + assert (IZR (Zfloor (sigmoid o * 255)) < 255) by lra.
      apply lt_IZR in H. lia.
  - lra.
Qed.

(* what the reader returns for a byte 1..254 has exactly that byte's alpha as its sigmoid: the round trip is
   within one 8-bit step in the sigmoid domain *)
Theorem opacity_roundtrip_real o : (1 <= alpha_byte o)%Z ->
  Rabs (sigmoid (logit (IZR (alpha_byte o) / 255)) - sigmoid o) < / 255.
Proof.
  intros Hb. destruct (opacity_byte_real o) as [[_ Hhi] Hstep].
  rewrite sigmoid_logit.
  - apply Rabs_def1; lra.
  - apply IZR_le in Hb, Hhi. simpl in Hb, Hhi. lra.
Qed.

(* byte 0 only for opacities below -5.5 (sigmoid below 1/255): from -5.5 on the value read back is finite *)
Lemma sigmoid_mono a b : a <= b -> sigmoid a <= sigmoid b.
Proof.
  intros H. unfold sigmoid. pose proof (exp_pos (- a)). pose proof (exp_pos (- b)).
  apply Rinv_le_contravar; [lra|]. apply Rplus_le_compat_l.
  destruct H as [H| ->]; [left; apply exp_increasing; lra|right; reflexivity].
Qed.

Theorem opacity_byte_positive o : -11 / 2 <= o -> (1 <= alpha_byte o)%Z.
Proof.
  intros Ho. unfold alpha_byte. apply Zfloor_lub. simpl.
  apply Rle_trans with (sigmoid (-11 / 2) * 255).
  - unfold sigmoid. interval with (i_prec 64).
  - apply Rmult_le_compat_r; [lra|]. apply sigmoid_mono. exact Ho.
Qed.

(* the model's rational quantiser on the float64 alpha Go computed, against the real sigmoid *)
Lemma Q2R_abs_le (q : Q) (b : Q) : (Qabs q <= b)%Q -> Rabs (Q2R q) <= Q2R b.
Proof.
  intros H. apply Qabs_Qle_condition in H. destruct H as [H1 H2].
  apply Qle_Rle in H1, H2. rewrite Q2R_opp in H1. apply Rabs_le. lra.
Qed.

Theorem opacity_model_vs_sigmoid (a : Q) (o eps : R) :
  (0 <= a <= 1)%Q -> Rabs (Q2R a - sigmoid o) <= eps ->
  Rabs (Q2R (deq_alpha (zb (qalpha a))) - sigmoid o) <= / 255 + eps.
Proof.
  intros Ha He. pose proof (Q2R_abs_le _ _ (alpha_quant_bound a Ha)) as H.
  rewrite Q2R_minus in H. replace (Q2R (1 # 255)) with (/ 255) in H by (unfold Q2R; simpl; lra).
  replace (Q2R (deq_alpha (zb (qalpha a))) - sigmoid o)
    with ((Q2R (deq_alpha (zb (qalpha a))) - Q2R a) + (Q2R a - sigmoid o)) by ring.
  eapply Rle_trans; [apply Rabs_triang|]. lra.
Qed.

(* ====================== the colour constant ====================== *)
Theorem SH_C0_value : Rabs (Q2R SH_C0 - / (2 * sqrt PI)) <= / 72057594037927936.      (* 2^-56 *)
Proof.
  unfold SH_C0, Q2R. cbn [Qnum Qden].
  interval with (i_prec 120).
Qed.

(* one colour step in FDC units, numerically *)
Theorem fdc_step_value : Rabs (Q2R fdc_step - 139016 / 10000000) <= / 10000000.
Proof.
  unfold fdc_step, SH_C0. unfold Q2R. cbn. interval with (i_prec 64).
Qed.

(* ====================== SPZ rotation ====================== *)
Definition spz_w (x y z : R) : R := sqrt (Rmax 0 (1 - (x * x + y * y + z * z))).

Theorem spz_rotation_unit x y z :
  (x * x + y * y + z * z <= 1 -> x * x + y * y + z * z + spz_w x y z * spz_w x y z = 1) /\
  (1 <= x * x + y * y + z * z -> spz_w x y z = 0) /\ 0 <= spz_w x y z.
Proof.
  unfold spz_w. split; [|split].
  - intros H. rewrite Rmax_right by lra. rewrite sqrt_sqrt by lra. ring.
  - intros H. rewrite Rmax_left by lra. apply sqrt_0.
  - apply sqrt_pos.
Qed.

(* the model's fourth rotation component is w^2: its real square root is the w of the statement above *)
Theorem spz_rot_model_w (b0 b1 b2 : N) :
  let '(x, y, z, w2) := rot_of [b0; b1; b2] 0 in
  sqrt (Q2R w2) = spz_w (Q2R x) (Q2R y) (Q2R z).
Proof.
  unfold rot_of, spz_w, at_. cbn [nth Nat.add].
  set (x := rot1 b0). set (y := rot1 b1). set (z := rot1 b2).
  f_equal. unfold qmax0. destruct (Qle_bool 0 (1 - (x * x + y * y + z * z))) eqn:E.
  - apply Qle_bool_iff in E. apply Qle_Rle in E.
    rewrite Q2R_minus, !Q2R_plus, !Q2R_mult in *. replace (Q2R 1) with 1 in * by (unfold Q2R; simpl; lra).
    replace (Q2R 0) with 0 in E by (unfold Q2R; simpl; lra).
    rewrite Rmax_right by lra. reflexivity.
  - assert (H : ~ (0 <= 1 - (x * x + y * y + z * z))%Q) by (intro H; apply Qle_bool_iff in H; congruence).
    apply Qnot_le_lt in H. apply Qlt_Rlt in H.
    rewrite Q2R_minus, !Q2R_plus, !Q2R_mult in H. replace (Q2R 1) with 1 in H by (unfold Q2R; simpl; lra).
    replace (Q2R 0) with 0 in * by (unfold Q2R; simpl; lra).
    rewrite Rmax_left by lra. reflexivity.
Qed.
