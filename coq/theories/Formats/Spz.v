(* C15: SPZ decoder (formats/spz/load.go Read, header.go, util.go) and a reference encoder written
   from the published layout.  Executable model, no proofs.  The gzip layer is outside the model:
   [decode] works on the decompressed stream.

   Dequantised values are exact rationals (Q); a float64 that may be infinite or NaN (half floats,
   fractional-bit counts >= 64) is an [xval].  math.Sqrt of the rotation's real part is not in the
   model: the fourth rotation component of the model is w^2 = max 0 (1 - |xyz|^2). *)
From Coq Require Export QArith.
From PF Require Import Base.Bytes.
Open Scope N_scope.

Inductive xval := XQ (q : Q) | XPInf | XNInf | XNaN.
Definition x3 := (xval * xval * xval)%type.
Definition q3 := (Q * Q * Q)%type.
Definition q4 := (Q * Q * Q * Q)%type.

(* ---- header (16 bytes, binary.Read little endian into spz.Header) ---- *)
Record header := { h_magic : N; h_version : N; h_npoints : N;
                   h_shdeg : N; h_fb : N; h_flags : N; h_reserved : N }.
Definition magic : N := 1347635022.       (* 0x5053474e "NGSP" *)

Definition enc_header (h : header) : list N :=
  le32 (h_magic h) ++ le32 (h_version h) ++ le32 (h_npoints h)
  ++ [h_shdeg h; h_fb h; h_flags h; h_reserved h].

Definition get32 (l : list N) : option (N * list N) :=
  do '(a, r) <- take 4 l; do w <- de_le32 a; Some (w, r).
Definition get_header (l : list N) : option (header * list N) :=
  do '(m, r) <- get32 l; do '(v, r) <- get32 r; do '(n, r) <- get32 r;
  match r with
  | d :: f :: g :: z :: r' =>
      Some ({| h_magic := m; h_version := v; h_npoints := n;
               h_shdeg := d; h_fb := f; h_flags := g; h_reserved := z |}, r')
  | _ => None
  end.

(* Header.Validate: the reserved byte and the flags are not looked at *)
Definition validate (h : header) : bool :=
  (h_magic h =? magic) && (1 <=? h_version h) && (h_version h <=? 2)
  && (h_npoints h <=? 10000000) && (h_shdeg h <=? 3).

(* Header.ShDimensions *)
Definition sh_dim (deg : N) : nat :=
  match deg with 0 => 0%nat | 1 => 3%nat | 2 => 8%nat | 3 => 15%nat | _ => 0%nat end.
Definition float16_positions (h : header) : bool := h_version h =? 1.
Definition pos_size (h : header) : nat := if float16_positions h then 6%nat else 9%nat.

(* ---- scalar decoders ---- *)
Definition pow2 (k : Z) : Q :=
  if (0 <=? k)%Z then inject_Z (2 ^ k) else Qmake 1 (Z.to_pos (2 ^ (- k))).
Definition qneg_if (neg : bool) (q : Q) : Q := if neg then Qopp q else q.

(* util.go halfToFloat *)
Definition half_decode (h : N) : xval :=
  let e := (h / 1024) mod 32 in
  let m := h mod 1024 in
  let neg := (h / 32768) mod 2 =? 1 in
  if e =? 0 then XQ (qneg_if neg (Qmake (Z.of_N m) 16777216))              (* 2^-14 * m / 1024 *)
  else if e =? 31 then (if m =? 0 then (if neg then XNInf else XPInf) else XNaN)
  else XQ (qneg_if neg (pow2 (Z.of_N e - 15) * (1 + Qmake (Z.of_N m) 1024))%Q).

(* header.go:255-260: three bytes OR-ed together (disjoint bit ranges: a sum), bit 23 tested,
   0xff000000 OR-ed in, then int32() *)
Definition fixed24 (b0 b1 b2 : N) : N := b0 + 256 * b1 + 65536 * b2.
Definition sext24 (u : N) : Z :=
  let u32 := if 0 <? N.land u 8388608 then N.lor u 4278190080 else u in
  if u32 <? 2147483648 then Z.of_N u32 else (Z.of_N u32 - 4294967296)%Z.

(* scale := 1.0 / float64(1 << FractionalBits) with a 64-bit int: 2^-fb below 63, -2^-63 at 63
   (1<<63 is the most negative int), +Inf from 64 on (the shift gives 0) *)
Definition pos_scale (fb : N) (x : Z) : xval :=
  if fb <? 63 then XQ (Qmake x (Z.to_pos (2 ^ Z.of_N fb)))
  else if fb =? 63 then XQ (Qmake (- x) 9223372036854775808)
  else if (0 <? x)%Z then XPInf else if (x <? 0)%Z then XNInf else XNaN.

Definition at_ (l : list N) (i : nat) : N := nth i l 0.
Definition bq (b : N) : Q := inject_Z (Z.of_N b).

(* one point's attribute read at byte offset [o] of its planar array *)
Definition pos_of (h : header) (l : list N) (o : nat) : x3 :=
  if float16_positions h then
    let c k := half_decode (at_ l (o + 2 * k) + 256 * at_ l (o + 2 * k + 1)) in
    (c 0%nat, c 1%nat, c 2%nat)
  else
    let c k := pos_scale (h_fb h)
                 (sext24 (fixed24 (at_ l (o + 3 * k)) (at_ l (o + 3 * k + 1)) (at_ l (o + 3 * k + 2)))) in
    (c 0%nat, c 1%nat, c 2%nat).
(* readAlphas returns b/255 as it is (no inverse sigmoid) *)
Definition alpha_of (l : list N) (o : nat) : Q := (bq (at_ l o) / 255)%Q.
Definition col1 (b : N) : Q := ((bq b / 255 - (1 # 2)) / (3 # 20))%Q.
Definition col_of (l : list N) (o : nat) : q3 :=
  (col1 (at_ l o), col1 (at_ l (o + 1)), col1 (at_ l (o + 2))).
Definition scale1 (b : N) : Q := (bq b / 16 - 10)%Q.
Definition scale_of (l : list N) (o : nat) : q3 :=
  (scale1 (at_ l o), scale1 (at_ l (o + 1)), scale1 (at_ l (o + 2))).
Definition rot1 (b : N) : Q := (bq b * (2 # 255) - 1)%Q.                    (* b / 127.5 - 1 *)
Definition qmax0 (q : Q) : Q := if Qle_bool 0 q then q else 0%Q.
Definition rot_of (l : list N) (o : nat) : q4 :=
  let x := rot1 (at_ l o) in let y := rot1 (at_ l (o + 1)) in let z := rot1 (at_ l (o + 2)) in
  (x, y, z, qmax0 (1 - (x * x + y * y + z * z))%Q).                       (* w = sqrt of this *)
Definition sh1 (b : N) : Q := ((bq b - 128) / 128)%Q.                       (* unquantizeSH *)
Definition sh_of (l : list N) (o : nat) : q3 :=
  (sh1 (at_ l o), sh1 (at_ l (o + 1)), sh1 (at_ l (o + 2))).

(* header.go:110: coefficient d of point i starts at byte d*3 + i*3*shDim *)
Definition sh_index (dim d i : nat) : nat := (3 * d + 3 * dim * i)%nat.

Record fields := {
  f_pos : list x3; f_alpha : list Q; f_col : list q3; f_scale : list q3;
  f_rot : list q4;
  f_sh : list (list q3) }.       (* f_sh[d][i]: attribute "SH_d" of point i *)

Definition total_size (h : header) : N :=
  let n := h_npoints h in
  n * N.of_nat (pos_size h) + n + 3 * n + 3 * n + 3 * n + 3 * N.of_nat (sh_dim (h_shdeg h)) * n.

(* spz.Read after gunzip.  Arrays are read in the order positions, alphas, colours, scales,
   rotations, SH; a short stream fails; bytes after the last array are ignored.  The size guard
   only keeps [N.to_nat] small on hostile counts: the sequential [take]s fail in exactly the same
   cases. *)
Definition decode (l : list N) : option (header * fields) :=
  do '(h, r) <- get_header l;
  if negb (validate h) then None else
  if N.of_nat (length r) <? total_size h then None else
  let n := N.to_nat (h_npoints h) in
  let dim := sh_dim (h_shdeg h) in
  do '(pd, r) <- take (n * pos_size h) r;
  do '(ad, r) <- take n r;
  do '(cd, r) <- take (3 * n) r;
  do '(sd, r) <- take (3 * n) r;
  do '(rd, r) <- take (3 * n) r;
  do '(hd, r) <- take (3 * dim * n) r;
  let pts := seq 0 n in
  Some (h, {| f_pos := map (fun i => pos_of h pd (pos_size h * i)) pts;
              f_alpha := map (fun i => alpha_of ad i) pts;
              f_col := map (fun i => col_of cd (3 * i)) pts;
              f_scale := map (fun i => scale_of sd (3 * i)) pts;
              f_rot := map (fun i => rot_of rd (3 * i)) pts;
              f_sh := map (fun d => map (fun i => sh_of hd (sh_index dim d i)) pts) (seq 0 dim) |}).

(* ---- reference encoder: the published layout, one packed record per point ---- *)
Record prec := { p_pos : list N;      (* 9 bytes (3 x 24-bit LE) or 6 bytes (3 x half LE) *)
                 p_alpha : N;
                 p_col : list N; p_scale : list N; p_rot : list N;      (* 3 bytes each *)
                 p_sh : list N }.     (* 3*shDim bytes: coefficient-major, channel inner *)

Definition encode_ref (h : header) (ps : list prec) : list N :=
  enc_header h ++ flat_map p_pos ps ++ map p_alpha ps ++ flat_map p_col ps
  ++ flat_map p_scale ps ++ flat_map p_rot ps ++ flat_map p_sh ps.

Record dsplat := { d_pos : x3; d_alpha : Q; d_col : q3; d_scale : q3; d_rot : q4; d_sh : list q3 }.
(* the dequantised values of one record, computed from the record alone *)
Definition dequantise (h : header) (p : prec) : dsplat :=
  {| d_pos := pos_of h (p_pos p) 0; d_alpha := alpha_of [p_alpha p] 0;
     d_col := col_of (p_col p) 0; d_scale := scale_of (p_scale p) 0; d_rot := rot_of (p_rot p) 0;
     d_sh := map (fun d => sh_of (p_sh p) (3 * d)) (seq 0 (sh_dim (h_shdeg h))) |}.

Definition header_ok (h : header) : Prop :=
  word32 (h_magic h) /\ word32 (h_version h) /\ word32 (h_npoints h) /\
  is_byte (h_shdeg h) /\ is_byte (h_fb h) /\ is_byte (h_flags h) /\ is_byte (h_reserved h).
Definition prec_ok (h : header) (p : prec) : Prop :=
  length (p_pos p) = pos_size h /\ length (p_col p) = 3%nat /\ length (p_scale p) = 3%nat /\
  length (p_rot p) = 3%nat /\ length (p_sh p) = (3 * sh_dim (h_shdeg h))%nat.
Definition lengths_match (h : header) (ps : list prec) : Prop :=
  N.of_nat (length ps) = h_npoints h /\ Forall (prec_ok h) ps.

Definition dflt_prec : prec := {| p_pos := []; p_alpha := 0; p_col := []; p_scale := []; p_rot := []; p_sh := [] |}.
Definition dflt_x3 : x3 := (XNaN, XNaN, XNaN).
Definition dflt_q3 : q3 := (0, 0, 0)%Q.
Definition dflt_q4 : q4 := (0, 0, 0, 0)%Q.
