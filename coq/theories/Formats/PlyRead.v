(* C08 / C04 / C14: executable model of the PLY reader, formats/ply/{reader,reader_vector1-4,
   reader_list_ascii,reader_list_binary,types,format}.go, plus the reference encoder of the PLY
   specification's grammar that the C08 theorems are stated against.  NO PROOFS in this file.

   Value domains
   * a stored scalar is a word:  uchar -> byte, int/uint/float -> 32-bit pattern, double -> 64-bit pattern;
   * a mesh value is the bit pattern of the float64 polyform stores (N < 2^64);
   * ASCII bodies are lines of tokens; a token is the pair of results strconv gives for its text
     (ParseInt(s,10,32) and ParseFloat(s,64)) -- number printing/parsing is outside the model;
   * header text is a list of lines, each split into whitespace separated fields (strings.Fields);
     '\r' removal and the split are done by the harness' tokenizer.
   The reader is written as "take exactly what the header promises or fail" with explicit errors. *)
From PF Require Import Base.Bytes.
From Coq Require Import String Ascii DecimalString DecimalN.
Open Scope list_scope.
Open Scope N_scope.

(* ---------- results ---------- *)
Inductive err :=
| EEof          (* input ends before what the header promised (io.ErrUnexpectedEOF / io.EOF)   *)
| EDeclared     (* any other returned error or panic(error): a reported failure                *)
| ECrash        (* runtime panic (index out of range, slice bounds, type assertion)            *)
| EUnsupported. (* outside what this model covers                                              *)
Inductive result (A : Type) := Ok (a : A) | Err (e : err).
Arguments Ok {A} a.
Arguments Err {A} e.
Definition rbind {A B} (r : result A) (f : A -> result B) : result B :=
  match r with Ok a => f a | Err e => Err e end.
Notation "'dor' x <- r ; k" := (rbind r (fun x => k))
  (at level 200, x name, r at level 100, k at level 200, right associativity).
Notation "'dor' ' p <- r ; k" := (rbind r (fun x => match x with p => k end))
  (at level 200, p pattern, r at level 100, k at level 200, right associativity).
Definition of_opt {A} (e : err) (o : option A) : result A :=
  match o with Some a => Ok a | None => Err e end.
Fixpoint mapR {A B} (f : A -> result B) (l : list A) : result (list B) :=
  match l with
  | [] => Ok []
  | x :: xs => dor y <- f x; dor ys <- mapR f xs; Ok (y :: ys)
  end.

(* ---------- scalar types (types.go / property.go) ---------- *)
Inductive sty := Char | UChar | Short | UShort | Int | UInt | Float | Double.
Definition sty_size (t : sty) : nat :=
  match t with Char | UChar => 1 | Short | UShort => 2 | Int | UInt | Float => 4 | Double => 8 end%nat.
Definition sty_eqb (a b : sty) : bool :=
  match a, b with
  | Char, Char | UChar, UChar | Short, Short | UShort, UShort
  | Int, Int | UInt, UInt | Float, Float | Double, Double => true
  | _, _ => false
  end.

Inductive fmt := ASCII | BinLE | BinBE.
Inductive endian := LEnd | BEnd.
Inductive prop := PScalar (t : sty) (name : string) | PList (ct lt : sty) (name : string).
Definition prop_name (p : prop) : string :=
  match p with PScalar _ n => n | PList _ _ n => n end.
Record element := { e_name : string; e_count : Z; e_props : list prop }.
Record header := { h_fmt : fmt; h_elems : list element; h_comments : list (list string) }.

(* ---------- float64 images of stored words ---------- *)
(* float64(z), exact for |z| < 2^53 *)
Definition cvI_pos (n : N) : N :=
  let e := N.log2 n in (1023 + e) * 2 ^ 52 + (n - 2 ^ e) * 2 ^ (52 - e).
Definition cvI (z : Z) : N :=
  match z with Z0 => 0 | Zpos p => cvI_pos (Npos p) | Zneg p => 2 ^ 63 + cvI_pos (Npos p) end.
(* float64(math.Float32frombits(w)): exact widening (signalling NaNs are quieted by the hardware) *)
Definition cvF (w : N) : N :=
  let s := (w / 2 ^ 31) * 2 ^ 63 in
  let e := (w / 2 ^ 23) mod 256 in
  let m := w mod 2 ^ 23 in
  if e =? 255 then s + 2047 * 2 ^ 52 + (if m =? 0 then 0 else N.lor (m * 2 ^ 29) (2 ^ 51))
  else if e =? 0 then
    (if m =? 0 then s else let k := N.log2 m in s + (874 + k) * 2 ^ 52 + (m - 2 ^ k) * 2 ^ (52 - k))
  else s + (e + 896) * 2 ^ 52 + m * 2 ^ 29.
Definition signed32 (w : N) : Z := if w <? 2 ^ 31 then Z.of_N w else (Z.of_N w - 2 ^ 32)%Z.
(* bits of float64(b)/255 for b = 0..255 (IEEE division, tabulated; checked on every run by the correspondence) *)
Definition div255_tab : list N := [0; 4571171282956062736; 4575674882583433232; 4577935512984623128; 
  4580178482210803728; 4581308797411398676; 4582439112611993624; 4583569427812588572; 
  4584682081838174224; 4585247239438471698; 4585812397038769172; 4586377554639066646; 
  4586942712239364120; 4587507869839661594; 4588073027439959068; 4588638185040256542; 
  4589185681465544720; 4589468260265693457; 4589750839065842194; 4590033417865990931; 
  4590315996666139668; 4590598575466288405; 4590881154266437142; 4591163733066585879; 
  4591446311866734616; 4591728890666883353; 4592011469467032090; 4592294048267180827; 
  4592576627067329564; 4592859205867478301; 4593141784667627038; 4593424363467775775; 
  4593689281092915216; 4593830570492989585; 4593971859893063953; 4594113149293138322; 
  4594254438693212690; 4594395728093287059; 4594537017493361427; 4594678306893435796; 
  4594819596293510164; 4594960885693584533; 4595102175093658901; 4595243464493733270; 
  4595384753893807638; 4595526043293882007; 4595667332693956375; 4595808622094030744; 
  4595949911494105112; 4596091200894179481; 4596232490294253849; 4596373779694328218; 
  4596515069094402586; 4596656358494476955; 4596797647894551323; 4596938937294625692; 
  4597080226694700060; 4597221516094774429; 4597362805494848797; 4597504094894923166; 
  4597645384294997534; 4597786673695071903; 4597927963095146271; 4598069252495220640; 
  4598192880720285712; 4598263525420322896; 4598334170120360081; 4598404814820397265; 
  4598475459520434449; 4598546104220471633; 4598616748920508818; 4598687393620546002; 
  4598758038320583186; 4598828683020620370; 4598899327720657555; 4598969972420694739; 
  4599040617120731923; 4599111261820769107; 4599181906520806292; 4599252551220843476; 
  4599323195920880660; 4599393840620917844; 4599464485320955029; 4599535130020992213; 
  4599605774721029397; 4599676419421066581; 4599747064121103766; 4599817708821140950; 
  4599888353521178134; 4599958998221215318; 4600029642921252503; 4600100287621289687; 
  4600170932321326871; 4600241577021364055; 4600312221721401240; 4600382866421438424; 
  4600453511121475608; 4600524155821512792; 4600594800521549977; 4600665445221587161; 
  4600736089921624345; 4600806734621661529; 4600877379321698714; 4600948024021735898; 
  4601018668721773082; 4601089313421810266; 4601159958121847451; 4601230602821884635; 
  4601301247521921819; 4601371892221959003; 4601442536921996188; 4601513181622033372; 
  4601583826322070556; 4601654471022107740; 4601725115722144925; 4601795760422182109; 
  4601866405122219293; 4601937049822256477; 4602007694522293662; 4602078339222330846; 
  4602148983922368030; 4602219628622405214; 4602290273322442399; 4602360918022479583; 
  4602431562722516767; 4602502207422553951; 4602572852122591136; 4602643496822628320; 
  4602696480347656208; 4602731802697674800; 4602767125047693392; 4602802447397711984; 
  4602837769747730577; 4602873092097749169; 4602908414447767761; 4602943736797786353; 
  4602979059147804945; 4603014381497823537; 4603049703847842129; 4603085026197860721; 
  4603120348547879314; 4603155670897897906; 4603190993247916498; 4603226315597935090; 
  4603261637947953682; 4603296960297972274; 4603332282647990866; 4603367604998009458; 
  4603402927348028051; 4603438249698046643; 4603473572048065235; 4603508894398083827; 
  4603544216748102419; 4603579539098121011; 4603614861448139603; 4603650183798158195; 
  4603685506148176788; 4603720828498195380; 4603756150848213972; 4603791473198232564; 
  4603826795548251156; 4603862117898269748; 4603897440248288340; 4603932762598306932; 
  4603968084948325525; 4604003407298344117; 4604038729648362709; 4604074051998381301; 
  4604109374348399893; 4604144696698418485; 4604180019048437077; 4604215341398455669; 
  4604250663748474262; 4604285986098492854; 4604321308448511446; 4604356630798530038; 
  4604391953148548630; 4604427275498567222; 4604462597848585814; 4604497920198604406; 
  4604533242548622999; 4604568564898641591; 4604603887248660183; 4604639209598678775; 
  4604674531948697367; 4604709854298715959; 4604745176648734551; 4604780498998753143; 
  4604815821348771736; 4604851143698790328; 4604886466048808920; 4604921788398827512; 
  4604957110748846104; 4604992433098864696; 4605027755448883288; 4605063077798901880; 
  4605098400148920473; 4605133722498939065; 4605169044848957657; 4605204367198976249; 
  4605239689548994841; 4605275011899013433; 4605310334249032025; 4605345656599050617; 
  4605380978949069210; 4605416301299087802; 4605451623649106394; 4605486945999124986; 
  4605522268349143578; 4605557590699162170; 4605592913049180762; 4605628235399199354; 
  4605663557749217947; 4605698880099236539; 4605734202449255131; 4605769524799273723; 
  4605804847149292315; 4605840169499310907; 4605875491849329499; 4605910814199348091; 
  4605946136549366684; 4605981458899385276; 4606016781249403868; 4606052103599422460; 
  4606087425949441052; 4606122748299459644; 4606158070649478236; 4606193392999496828; 
  4606228715349515421; 4606264037699534013; 4606299360049552605; 4606334682399571197; 
  4606370004749589789; 4606405327099608381; 4606440649449626973; 4606475971799645565; 
  4606511294149664158; 4606546616499682750; 4606581938849701342; 4606617261199719934; 
  4606652583549738526; 4606687905899757118; 4606723228249775710; 4606758550599794302; 
  4606793872949812895; 4606829195299831487; 4606864517649850079; 4606899839999868671; 
  4606935162349887263; 4606970484699905855; 4607005807049924447; 4607041129399943039; 
  4607076451749961632; 4607111774099980224; 4607147096449998816; 4607182418800017408].
Definition div255_byte (b : N) : result N := of_opt EUnsupported (nth_error div255_tab (N.to_nat b)).
(* the integer 0..255 a float64 bit pattern denotes, if any *)
Definition f64_small_nat (v : N) : option N :=
  if v =? 0 then Some 0 else
  let e := v / 2 ^ 52 in let m := v mod 2 ^ 52 in
  if (1023 <=? e) && (e <=? 1030) then
    let sh := 52 - (e - 1023) in
    if (2 ^ 52 + m) mod 2 ^ sh =? 0 then Some ((2 ^ 52 + m) / 2 ^ sh) else None
  else None.
(* v / 255. -- only modelled for v an integer 0..255 (every value a uchar column can hold) *)
Definition div255 (v : N) : result N :=
  match f64_small_nat v with Some b => div255_byte b | None => Err EUnsupported end.

Definition vertex_ty_ok (t : sty) : bool :=
  match t with UChar | Int | Float | Double => true | _ => false end.
(* the value polyform's binary readers store for a word of declared type t
   (builtVector{1,2,3,4}PropertyReader.Read); other types: panic(fmt.Errorf("unimplemented ...")) *)
Definition conv (t : sty) (w : N) : result N :=
  match t with
  | UChar => div255_byte w
  | Int => Ok (cvI (signed32 w))
  | Float => Ok (cvF w)
  | Double => Ok w
  | _ => Err EDeclared
  end.

(* ---------- words <-> bytes ---------- *)
Definition enc_word (e : endian) (t : sty) (w : N) : list N :=
  match sty_size t, e with
  | 1%nat, _ => [w]
  | 2%nat, LEnd => le16 w | 2%nat, BEnd => rev (le16 w)
  | 4%nat, LEnd => le32 w | 4%nat, BEnd => be32 w
  | _, LEnd => le64 w | _, BEnd => be64 w
  end.
Definition dec_word (e : endian) (t : sty) (bs : list N) : option N :=
  match sty_size t, e with
  | 1%nat, _ => match bs with [b] => Some b | _ => None end
  | 2%nat, LEnd => de_le16 bs | 2%nat, BEnd => de_le16 (rev bs)
  | 4%nat, LEnd => de_le32 bs | 4%nat, BEnd => de_be32 bs
  | _, LEnd => de_le64 bs | _, BEnd => de_be64 bs
  end.
Definition slice {A} (off n : nat) (buf : list A) : option (list A) :=
  do '(a, _) <- take n (skipn off buf); Some a.
Definition get_word (e : endian) (t : sty) (off : nat) (buf : list N) : option N :=
  do bs <- slice off (sty_size t) buf; dec_word e t bs.
Definition word_fits (t : sty) (w : N) : Prop := w < 2 ^ (8 * N.of_nat (sty_size t)).
Definition word_fitsb (t : sty) (w : N) : bool := w <? 2 ^ (8 * N.of_nat (sty_size t)).

(* ---------- ASCII tokens ---------- *)
Inductive tok :=
| TI (z : Z) (f : N)   (* ParseInt(s,10,32) = z and ParseFloat(s,64) has bits f *)
| TF (f : N)           (* ParseInt fails, ParseFloat(s,64) has bits f *)
| TBad.                (* neither parses *)
Definition tok_f64 (t : tok) : option N := match t with TI _ f | TF f => Some f | TBad => None end.
Definition tok_int (t : tok) : option Z := match t with TI z _ => Some z | _ => None end.

Inductive body := BodyBin (bytes : list N) | BodyAscii (lines : list (list tok)).
(* header: every line up to and including end_header, as fields *)
Record plyfile := { pf_header : list (list string); pf_body : body }.

(* ================= header parser (ReadHeader, readPlyHeaderFormat, readPlyProperty) ================= *)
Definition lower_ascii (c : ascii) : ascii :=
  let n := N_of_ascii c in if (65 <=? n) && (n <=? 90) then ascii_of_N (n + 32) else c.
Fixpoint lower (s : string) : string :=
  match s with EmptyString => EmptyString | String c r => String (lower_ascii c) (lower r) end.
Definition seqb := String.eqb.

(* strconv.ParseInt(s, 10, 64) on digits with an optional sign *)
Definition parse_udec (s : string) : option N := option_map N.of_uint (NilZero.uint_of_string s).
Definition parse_dec (s : string) : option Z :=
  match s with
  | String "-"%char r => option_map (fun n => (- Z.of_N n)%Z) (parse_udec r)
  | String "+"%char r => option_map Z.of_N (parse_udec r)
  | _ => option_map Z.of_N (parse_udec s)
  end.
Definition show_udec (n : N) : string := NilZero.string_of_uint (N.to_uint n).

Definition sty_names : list (string * sty) :=
  [("char", Char); ("int8", Char); ("uchar", UChar); ("uint8", UChar);
   ("short", Short); ("int16", Short); ("ushort", UShort); ("uint16", UShort);
   ("int", Int); ("int32", Int); ("uint", UInt); ("uint32", UInt);
   ("float", Float); ("float32", Float); ("double", Double); ("float64", Double)]%string.
Fixpoint assoc_str {A} (k : string) (l : list (string * A)) : option A :=
  match l with [] => None | (k', v) :: r => if seqb k k' then Some v else assoc_str k r end.
(* ParseScalarPropertyType: lower-cased lookup, panic(error) when unknown *)
Definition parse_sty (s : string) : result sty := of_opt EDeclared (assoc_str (lower s) sty_names).

Definition parse_format (l : list string) : result fmt :=
  match l with
  | [a; b; c] =>
      if negb (seqb a "format") then Err EDeclared
      else if negb (seqb c "1.0") then Err EDeclared
      else if seqb b "ascii" then Ok ASCII
      else if seqb b "binary_little_endian" then Ok BinLE
      else if seqb b "binary_big_endian" then Ok BinBE
      else Err EDeclared
  | _ => Err EDeclared
  end.

Definition parse_property (l : list string) : result prop :=
  match l with
  | _ :: k :: rest =>
      if seqb (lower k) "list" then
        match rest with
        | [ct; lt; name] => dor c <- parse_sty ct; dor t <- parse_sty lt; Ok (PList c t (lower name))
        | _ => Err EDeclared
        end
      else
        match rest with
        | [name] => dor t <- parse_sty k; Ok (PScalar t name)
        | _ => Err EDeclared
        end
  | _ => Err ECrash          (* contents[1] out of range *)
  end.

(* the element list is kept newest-first, each element's properties newest-first *)
Record hstate := { hs_elems : list element; hs_comments : list (list string) }.
Definition add_prop (p : prop) (st : hstate) : result hstate :=
  match hs_elems st with
  | [] => Err ECrash          (* header.Elements[-1] *)
  | e :: es => Ok {| hs_elems := {| e_name := e_name e; e_count := e_count e; e_props := p :: e_props e |} :: es;
                     hs_comments := hs_comments st |}
  end.
Definition hstep (l : list string) (st : hstate) : result hstate :=
  match l with
  | [] => Ok st                                  (* blank line *)
  | k :: rest =>
      if seqb k "comment" then Ok {| hs_elems := hs_elems st; hs_comments := rest :: hs_comments st |}
      else if seqb k "element" then
        match rest with
        | [name; cnt] => dor c <- of_opt EDeclared (parse_dec cnt);
                         Ok {| hs_elems := {| e_name := lower name; e_count := c; e_props := [] |} :: hs_elems st;
                               hs_comments := hs_comments st |}
        | _ => Err EDeclared
        end
      else if seqb k "property" then dor p <- parse_property l; add_prop p st
      else Ok st                                 (* obj_info and anything else: ignored *)
  end.
Definition is_end (l : list string) : bool := match l with [k] => seqb k "end_header" | _ => false end.
Fixpoint hloop (ls : list (list string)) (st : hstate) : result hstate :=
  match ls with
  | [] => Err EEof
  | l :: r => if is_end l then Ok st else dor st' <- hstep l st; hloop r st'
  end.
Fixpoint skip_blank (ls : list (list string)) : list (list string) :=
  match ls with [] :: r => skip_blank r | _ => ls end.
Definition finish_elem (e : element) : element :=
  {| e_name := e_name e; e_count := e_count e; e_props := rev (e_props e) |}.
Definition parse_header (ls : list (list string)) : result header :=
  match ls with
  | [] => Err EEof
  | magic :: r =>
      match magic with
      | [m] => if negb (seqb m "ply") then Err EDeclared else
          match skip_blank r with
          | [] => Err EEof
          | fl :: r' =>
              dor f <- parse_format fl;
              dor st <- hloop r' {| hs_elems := []; hs_comments := [] |};
              Ok {| h_fmt := f; h_elems := rev (map finish_elem (hs_elems st)); h_comments := rev (hs_comments st) |}
          end
      | _ => Err EDeclared
      end
  end.

(* ================= property readers (reader_vector1-4.go) ================= *)
Record group := { g_attr : string; g_members : list string; g_ignorable_w : bool }.
Definition G (a : string) (ms : list string) := {| g_attr := a; g_members := ms; g_ignorable_w := false |}.
Definition GW (a : string) (ms : list string) := {| g_attr := a; g_members := ms; g_ignorable_w := true |}.
(* defaultReader.Properties, in order *)
Definition default_groups : list group :=
  [ G "Position" ["x"; "y"; "z"]; G "Position" ["px"; "py"; "pz"]; G "Position" ["posx"; "posy"; "posz"];
    G "Normal" ["nx"; "ny"; "nz"]; G "Normal" ["normalx"; "normaly"; "normalz"];
    GW "Color" ["red"; "green"; "blue"; "alpha"]; GW "Color" ["r"; "g"; "b"; "a"];
    GW "Color" ["diffuse_red"; "diffuse_green"; "diffuse_blue"; "diffuse_alpha"];
    G "TexCoord" ["s"; "t"];
    G "FDC" ["f_dc_0"; "f_dc_1"; "f_dc_2"]; G "Opacity" ["opacity"];
    G "Scale" ["scale_0"; "scale_1"; "scale_2"]; G "Rotation" ["rot_0"; "rot_1"; "rot_2"; "rot_3"] ]%string.

(* a built reader: model attribute, claimed property names, offset of each member (byte offset in a
   binary record / column in an ASCII line), scalar type; b_v1: built by Vector1PropertyReader *)
Record built := { b_attr : string; b_names : list string; b_offs : list nat; b_ty : sty; b_v1 : bool }.

Definition osty_eqb (a : option sty) (b : sty) : bool :=
  match a with Some x => sty_eqb x b | None => false end.
(* the chain of `if scalar.PropertyName == PlyPropertyK { kOffset = cur; first type wins; mismatch => -1 }` *)
Fixpoint scan_members (members : list string) (offs : list (option nat)) (ty : option sty)
         (cur : nat) (t : sty) (name : string) : list (option nat) * option sty :=
  match members, offs with
  | m :: ms, o :: os =>
      if seqb name m then
        let ty' := match ty with None => Some t | Some _ => ty end in
        let o' := if osty_eqb ty' t then Some cur else None in
        let '(os', ty'') := scan_members ms os ty' cur t name in (o' :: os', ty'')
      else
        let '(os', ty'') := scan_members ms os ty cur t name in (o :: os', ty'')
  | _, _ => ([], ty)
  end.
Definition advance (bin : bool) (cur : nat) (t : sty) : nat := if bin then (cur + sty_size t)%nat else S cur.
Fixpoint scan_props (bin : bool) (members : list string) (props : list prop) (cur : nat)
         (offs : list (option nat)) (ty : option sty) : result (list (option nat) * option sty) :=
  match props with
  | [] => Ok (offs, ty)
  | PScalar t name :: ps =>
      let '(offs', ty') := scan_members members offs ty cur t name in
      scan_props bin members ps (advance bin cur t) offs' ty'
  | PList _ _ _ :: _ => Err ECrash        (* prop.(ScalarProperty) *)
  end.
Fixpoint all_some {A} (l : list (option A)) : option (list A) :=
  match l with
  | [] => Some []
  | Some x :: r => option_map (cons x) (all_some r)
  | None :: _ => None
  end.
(* Vector{2,3,4}PropertyReader.build{Ascii,Binary} without the IgnorableW fallback *)
Definition build_vec (bin : bool) (attr : string) (members : list string) (props : list prop) : result (option built) :=
  dor '(offs, ty) <- scan_props bin members props 0 (map (fun _ => None) members) None;
  match all_some offs, ty with
  | Some os, Some t => Ok (Some {| b_attr := attr; b_names := members; b_offs := os; b_ty := t; b_v1 := false |})
  | _, _ => Ok None
  end.
(* Vector1PropertyReader: the first property of that name *)
Fixpoint find_v1 (bin : bool) (name : string) (props : list prop) (cur : nat) : result (option (nat * sty)) :=
  match props with
  | [] => Ok None
  | PScalar t n :: ps => if seqb n name then Ok (Some (cur, t)) else find_v1 bin name ps (advance bin cur t)
  | PList _ _ _ :: _ => Err ECrash
  end.
Definition build_v1 (bin : bool) (attr name : string) (props : list prop) : result (option built) :=
  dor r <- find_v1 bin name props 0;
  Ok (option_map (fun '(off, t) => {| b_attr := attr; b_names := [name]; b_offs := [off]; b_ty := t; b_v1 := true |}) r).
(* one entry of MeshReader.Properties.  IgnorableW: when the four-member reader cannot be built the
   X/Y/Z triple is tried on its own (behaviour after fixes/C08-ply-vector4-*.patch: same rule for
   ASCII and binary, independent of where W stands in the header). *)
Definition build_group (bin : bool) (g : group) (props : list prop) : result (option built) :=
  match g_members g with
  | [m] => build_v1 bin (g_attr g) m props
  | ms =>
      dor b <- build_vec bin (g_attr g) ms props;
      match b with
      | Some _ => Ok b
      | None => if g_ignorable_w g then build_vec bin (g_attr g) (firstn 3 ms) props else Ok None
      end
  end.
Fixpoint build_groups (bin : bool) (gs : list group) (props : list prop) : result (list built) :=
  match gs with
  | [] => Ok []
  | g :: r => dor b <- build_group bin g props; dor bs <- build_groups bin r props;
              Ok (match b with Some x => x :: bs | None => bs end)
  end.
Definition claims (b : built) (name : string) : bool := existsb (seqb name) (b_names b).
(* LoadUnspecifiedProperties: every property no reader claims gets a Vector1 reader under its own name;
   the readers added on the way take part in the claim test, as in the Go loop *)
Fixpoint add_unclaimed (bin : bool) (all : list prop) (todo : list prop) (bs : list built) : result (list built) :=
  match todo with
  | [] => Ok bs
  | p :: r =>
      let n := prop_name p in
      if existsb (fun b => claims b n) bs then add_unclaimed bin all r bs
      else dor b <- build_v1 bin n n all;
           add_unclaimed bin all r (match b with Some x => bs ++ [x] | None => bs end)
  end.
Definition build_readers (bin : bool) (gs : list group) (unspecified : bool) (props : list prop) : result (list built) :=
  dor bs <- build_groups bin gs props;
  if unspecified then add_unclaimed bin props props bs else Ok bs.

(* one vertex, one reader *)
Definition read_bin_row (e : endian) (b : built) (buf : list N) : result (list N) :=
  if vertex_ty_ok (b_ty b) then
    mapR (fun off => dor w <- of_opt ECrash (get_word e (b_ty b) off buf); conv (b_ty b) w) (b_offs b)
  else Err EDeclared.
(* ASCII: ParseFloat(buf[off], 64); vectors of declared type uchar are divided by 255, a scalar read
   through Vector1PropertyReader never is (buildAscii leaves scalarType empty) *)
Definition read_ascii_row (b : built) (line : list tok) : result (list N) :=
  dor vs <- mapR (fun off => dor t <- of_opt ECrash (nth_error line off); of_opt EDeclared (tok_f64 t)) (b_offs b);
  if negb (b_v1 b) && sty_eqb (b_ty b) UChar then mapR div255 vs else Ok vs.

Fixpoint read_vertices_bin (e : endian) (bs : list built) (size : nat) (n : nat) (bytes : list N)
  : result (list (list (list N)) * list N) :=
  match n with
  | O => Ok ([], bytes)
  | S n' =>
      dor '(buf, rest) <- of_opt EEof (take size bytes);
      dor row <- mapR (fun b => read_bin_row e b buf) bs;
      dor '(rows, rest') <- read_vertices_bin e bs size n' rest;
      Ok (row :: rows, rest')
  end.
(* np = number of vertex properties: a line with fewer fields is reported (io.ErrUnexpectedEOF) *)
Fixpoint read_vertices_ascii (bs : list built) (np : nat) (lines : list (list tok)) (n : nat)
  : result (list (list (list N)) * list (list tok)) :=
  match lines with
  | [] => match n with O => Ok ([], []) | S _ => Err EEof end
  | l :: ls =>
      match n with
      | O => Ok ([], lines)
      | S n' =>
          match l with
          | [] => read_vertices_ascii bs np ls n          (* empty line: skipped, not counted *)
          | _ => if (List.length l <? np)%nat then Err EEof else
                 dor row <- mapR (fun b => read_ascii_row b l) bs;
                 dor '(rows, rest) <- read_vertices_ascii bs np ls n';
                 Ok (row :: rows, rest)
          end
      end
  end.

(* ================= face element (readAsciiFaceElement / readBinaryFaceElement, reader_list_*.go) ================= *)
Record fstate := { fs_ibuf : list Z; fs_tbuf : list N; fs_points : Z }.
Definition overwrite {A} (new old : list A) : list A := new ++ skipn (List.length new) old.
Fixpoint last_index (f : prop -> bool) (ps : list prop) (k : nat) (acc : option nat) : option nat :=
  match ps with [] => acc | p :: r => last_index f r (S k) (if f p then Some k else acc) end.
Definition is_indices (p : prop) : bool := seqb (prop_name p) "vertex_index" || seqb (prop_name p) "vertex_indices".
Definition is_texcoord (p : prop) : bool := seqb (prop_name p) "texcoord".
Fixpoint list_props (ps : list prop) : result (list (sty * sty)) :=
  match ps with
  | [] => Ok []
  | PList c t _ :: r => dor l <- list_props r; Ok ((c, t) :: l)
  | PScalar _ _ :: _ => Err EDeclared
  end.
Definition nat_eqb_opt (o : option nat) (k : nat) : bool := match o with Some j => Nat.eqb j k | None => false end.

Fixpoint face_ascii (rs : list (sty * sty)) (k ip : nat) (tp : option nat) (toks : list tok) (st : fstate) : result fstate :=
  match rs with
  | [] => Ok st
  | _ :: rs' =>
      match toks with
      | [] => Err EDeclared
      | c :: rest =>
          dor v <- of_opt EDeclared (tok_int c);
          if (v <? 0)%Z || (Z.of_nat (List.length rest) <? v)%Z then Err EDeclared else
          let items := firstn (Z.to_nat v) rest in
          dor st1 <- (if Nat.eqb k ip then
                        if (4 <? v)%Z then Err EDeclared
                        else dor zs <- mapR (fun t => of_opt EDeclared (tok_int t)) items;
                             Ok {| fs_ibuf := overwrite zs (fs_ibuf st); fs_tbuf := fs_tbuf st; fs_points := v |}
                      else Ok st);
          dor st2 <- (if nat_eqb_opt tp k then
                        if (8 <? v)%Z then Err EDeclared
                        else dor fs <- mapR (fun t => of_opt EDeclared (tok_f64 t)) items;
                             Ok {| fs_ibuf := fs_ibuf st1; fs_tbuf := overwrite fs (fs_tbuf st1); fs_points := fs_points st1 |}
                      else Ok st1);
          face_ascii rs' (S k) ip tp (skipn (Z.to_nat v) rest) st2
      end
  end.

Definition read_count (e : endian) (ct : sty) (bytes : list N) : result (Z * list N) :=
  match ct with
  | UChar => dor '(a, r) <- of_opt EEof (take 1 bytes); dor w <- of_opt ECrash (dec_word e UChar a); Ok (Z.of_N w, r)
  | UInt | Int => dor '(a, r) <- of_opt EEof (take 4 bytes); dor w <- of_opt ECrash (dec_word e Int a); Ok (signed32 w, r)
  | _ => Err EDeclared
  end.
Definition words_of (e : endian) (t : sty) (payload : list N) : result (list N) :=
  mapR (fun c => of_opt ECrash (dec_word e t c)) (chunks (sty_size t) payload).
Fixpoint face_bin (e : endian) (rs : list (sty * sty)) (k ip : nat) (tp : option nat) (bytes : list N) (st : fstate)
  : result (fstate * list N) :=
  match rs with
  | [] => Ok (st, bytes)
  | (ct, lt) :: rs' =>
      dor '(v, r) <- read_count e ct bytes;
      if (v <? 0)%Z then Err ECrash else
      dor '(payload, r') <- of_opt EEof (take (Z.to_nat v * sty_size lt) r);
      (* the errors of Int()/Float64() are dropped by readBinaryFaceElement: the buffers keep their old content *)
      dor st1 <- (if Nat.eqb k ip then
                    let st' := {| fs_ibuf := fs_ibuf st; fs_tbuf := fs_tbuf st; fs_points := v |} in
                    if (4 <? v)%Z then Ok st'
                    else match lt with
                         | UInt | Int => dor ws <- words_of e lt payload;
                                         Ok {| fs_ibuf := overwrite (map signed32 ws) (fs_ibuf st); fs_tbuf := fs_tbuf st; fs_points := v |}
                         | _ => Ok st'
                         end
                  else Ok st);
      dor st2 <- (if nat_eqb_opt tp k then
                    if (8 <? v)%Z then Ok st1
                    else match lt with
                         | Float => dor ws <- words_of e lt payload;
                                    Ok {| fs_ibuf := fs_ibuf st1; fs_tbuf := overwrite (map cvF ws) (fs_tbuf st1); fs_points := fs_points st1 |}
                         | Double => dor ws <- words_of e lt payload;
                                     Ok {| fs_ibuf := fs_ibuf st1; fs_tbuf := overwrite ws (fs_tbuf st1); fs_points := fs_points st1 |}
                         | _ => Ok st1
                         end
                  else Ok st1);
      face_bin e rs' (S k) ip tp r' st2
  end.

Definition nthZ (l : list Z) (k : nat) : Z := nth k l 0%Z.
Definition nthN (l : list N) (k : nat) : N := nth k l 0.
(* "interpret read data": 3 or 4 points, quads as the fan (0,1,2),(0,2,3); texcoords per corner *)
Definition face_out (has_tex : bool) (st : fstate) : result (list Z * list (list N)) :=
  let p := fs_points st in
  if (p <? 3)%Z || (4 <? p)%Z then Err EDeclared else
  let i := nthZ (fs_ibuf st) in let t := nthN (fs_tbuf st) in
  let quad := (p =? 4)%Z in
  Ok (([i 0; i 1; i 2] ++ (if quad then [i 0; i 2; i 3] else []))%nat,
      if has_tex then ([[t 0; t 1]; [t 2; t 3]; [t 4; t 5]] ++ (if quad then [[t 0; t 1]; [t 4; t 5]; [t 6; t 7]] else []))%nat
      else []).
Definition fstate0 : fstate := {| fs_ibuf := [0; 0; 0; 0]%Z; fs_tbuf := [0; 0; 0; 0; 0; 0; 0; 0]; fs_points := (-1)%Z |}.

Fixpoint faces_ascii (rs : list (sty * sty)) (ip : nat) (tp : option nat) (lines : list (list tok)) (n : nat) (st : fstate)
  : result (list Z * list (list N)) :=
  match lines with
  | [] => match n with O => Ok ([], []) | S _ => Err EEof end
  | l :: ls =>
      match n with
      | O => Ok ([], [])
      | S n' =>
          match l with
          | [] => faces_ascii rs ip tp ls n st
          | _ => dor st' <- face_ascii rs 0 ip tp l st;
                 dor '(ix, uv) <- face_out (match tp with Some _ => true | None => false end) st';
                 dor '(ixs, uvs) <- faces_ascii rs ip tp ls n' st';
                 Ok (ix ++ ixs, uv ++ uvs)
          end
      end
  end.
Fixpoint faces_bin (e : endian) (rs : list (sty * sty)) (ip : nat) (tp : option nat) (bytes : list N) (n : nat) (st : fstate)
  : result (list Z * list (list N)) :=
  match n with
  | O => Ok ([], [])
  | S n' =>
      dor '(st', rest) <- face_bin e rs 0 ip tp bytes st;
      dor '(ix, uv) <- face_out (match tp with Some _ => true | None => false end) st';
      dor '(ixs, uvs) <- faces_bin e rs ip tp rest n' st';
      Ok (ix ++ ixs, uv ++ uvs)
  end.
Definition face_setup (el : element) : result (list (sty * sty) * nat * option nat) :=
  dor rs <- list_props (e_props el);
  dor ip <- of_opt EDeclared (last_index is_indices (e_props el) 0 None);
  Ok (rs, ip, last_index is_texcoord (e_props el) 0 None).

(* ================= mesh ================= *)
Inductive topo := TPoint | TTriangle.
(* attributes: (dimension 1..4, name) -> one row of float64 bit patterns per vertex *)
Definition attr := (nat * string * list (list N))%type.
Record mesh := { m_topo : topo; m_idx : list Z; m_attrs : list attr }.
Definition key_eqb (d : nat) (n : string) (a : attr) : bool := let '(d', n', _) := a in Nat.eqb d d' && seqb n n'.
(* Mesh.SetFloatNAttribute: replace; empty data deletes the key *)
Definition set_attr (d : nat) (n : string) (data : list (list N)) (l : list attr) : list attr :=
  let rest := filter (fun a => negb (key_eqb d n a)) l in
  match data with [] => rest | _ => rest ++ [(d, n, data)] end.
Fixpoint get_attr (d : nat) (n : string) (l : list attr) : option (list (list N)) :=
  match l with [] => None | a :: r => if key_eqb d n a then Some (snd a) else get_attr d n r end.
(* column j of the per-vertex reader output *)
Definition column (rows : list (list (list N))) (j : nat) : list (list N) := map (fun r => nth j r []) rows.
Fixpoint update_mesh (bs : list built) (j : nat) (rows : list (list (list N))) (l : list attr) : list attr :=
  match bs with
  | [] => l
  | b :: r => update_mesh r (S j) rows (set_attr (List.length (b_offs b)) (b_attr b) (column rows j) l)
  end.
(* meshops.Unweld: identity indices, every attribute gathered through the old indices (At panics out of range) *)
Definition gather {A} (data : list A) (idx : list Z) : result (list A) :=
  mapR (fun i => if (i <? 0)%Z then Err ECrash else of_opt ECrash (nth_error data (Z.to_nat i))) idx.
Definition unweld_attrs (l : list attr) (idx : list Z) : result (list attr) :=
  mapR (fun a : attr => let '(d, n, data) := a in dor g <- gather data idx; Ok (d, n, g)) l.
Definition iota (n : nat) : list Z := map Z.of_nat (seq 0 n).

Fixpoint find_last_elem (name : string) (es : list element) (acc : option element) : option element :=
  match es with [] => acc | e :: r => find_last_elem name r (if seqb (e_name e) name then Some e else acc) end.
Fixpoint all_scalar (ps : list prop) : bool :=
  match ps with [] => true | PScalar _ _ :: r => all_scalar r | PList _ _ _ :: _ => false end.
Definition record_size (ps : list prop) : nat :=
  fold_right (fun p acc => match p with PScalar t _ => (sty_size t + acc)%nat | _ => acc end) O ps.

(* MeshReader.Read after the header *)
Definition read_body (gs : list group) (unspecified : bool) (h : header) (b : body) : result mesh :=
  dor ve <- of_opt EDeclared (find_last_elem "vertex" (h_elems h) None);
  let fe := find_last_elem "face" (h_elems h) None in
  if negb (all_scalar (e_props ve)) then Err EDeclared else
  if (e_count ve <? 0)%Z then Err EUnsupported else
  let n := Z.to_nat (e_count ve) in
  let props := e_props ve in
  dor '(bs, rows, idx, uvs, tp) <-
    match h_fmt h, b with
    | ASCII, BodyAscii lines =>
        dor bs <- build_readers false gs unspecified props;
        dor '(rows, rest) <- read_vertices_ascii bs (List.length props) lines n;
        match fe with
        | None => Ok (bs, rows, iota n, [], TPoint)
        | Some f =>
            dor '(rs, ip, tp) <- face_setup f;
            dor '(ix, uv) <- faces_ascii rs ip tp rest (Z.to_nat (e_count f)) fstate0;
            Ok (bs, rows, ix, uv, TTriangle)
        end
    | BinLE, BodyBin bytes | BinBE, BodyBin bytes =>
        let e := match h_fmt h with BinBE => BEnd | _ => LEnd end in
        dor bs <- build_readers true gs unspecified props;
        dor '(rows, rest) <- read_vertices_bin e bs (record_size props) n bytes;
        match fe with
        | None => Ok (bs, rows, iota n, [], TPoint)
        | Some f =>
            dor '(rs, ip, tp) <- face_setup f;
            dor '(ix, uv) <- faces_bin e rs ip tp rest (Z.to_nat (e_count f)) fstate0;
            Ok (bs, rows, ix, uv, TTriangle)
        end
    | _, _ => Err EUnsupported
    end;
  let attrs := update_mesh bs 0 rows [] in
  (* per-corner texture coordinates force an unweld (after fixes/C08-ply-empty-face-list-*.patch:
     only when there is at least one corner) *)
  if negb (Nat.eqb (List.length uvs) 0) && Nat.eqb (List.length uvs) (List.length idx) then
    dor ua <- unweld_attrs attrs idx;
    Ok {| m_topo := tp; m_idx := iota (List.length idx); m_attrs := set_attr 2 "TexCoord" uvs ua |}
  else Ok {| m_topo := tp; m_idx := idx; m_attrs := attrs |}.

(* ply.ReadMesh *)
Definition read_mesh (f : plyfile) : result mesh :=
  dor h <- parse_header (pf_header f);
  read_body default_groups true h (pf_body f).

(* ================= reference encoder of the specification's grammar ================= *)
(* An abstract file: format, vertex properties with one word per property and record, an optional
   face element made of list properties with, per face, one word list per property. *)
Record absfile := {
  a_fmt : fmt;
  a_vprops : list (sty * string);
  a_verts : list (list N);
  a_fprops : option (list (sty * sty * string));
  a_faces : list (list (list N)) }.

Definition enc_record_bin (e : endian) (tys : list sty) (vals : list N) : list N :=
  flat_map (fun '(t, w) => enc_word e t w) (combine tys vals).
(* what the text of a word of type t parses to *)
Definition tok_of_word (t : sty) (w : N) : tok :=
  match t with
  | Float => TF (cvF w)
  | Double => TF w
  | Int | Short | Char => TI (signed32 w) (cvI (signed32 w))
  | _ => TI (Z.of_N w) (cvI (Z.of_N w))
  end.
Definition enc_record_ascii (tys : list sty) (vals : list N) : list tok :=
  map (fun '(t, w) => tok_of_word t w) (combine tys vals).
Definition enc_list_bin (e : endian) (ct lt : sty) (ws : list N) : list N :=
  enc_word e ct (N.of_nat (List.length ws)) ++ flat_map (enc_word e lt) ws.
Definition enc_list_ascii (lt : sty) (ws : list N) : list tok :=
  TI (Z.of_nat (List.length ws)) (cvI (Z.of_nat (List.length ws))) :: map (tok_of_word lt) ws.
Definition fprops_of (a : absfile) : list (sty * sty * string) := match a_fprops a with Some l => l | None => [] end.
Definition enc_body (a : absfile) : body :=
  let tys := map fst (a_vprops a) in
  let fps := fprops_of a in
  match a_fmt a with
  | ASCII =>
      BodyAscii (map (enc_record_ascii tys) (a_verts a) ++
                 map (fun f => flat_map (fun '((_, lt, _), ws) => enc_list_ascii lt ws) (combine fps f)) (a_faces a))
  | _ =>
      let e := match a_fmt a with BinBE => BEnd | _ => LEnd end in
      BodyBin (flat_map (enc_record_bin e tys) (a_verts a) ++
               flat_map (fun f => flat_map (fun '((ct, lt, _), ws) => enc_list_bin e ct lt ws) (combine fps f)) (a_faces a))
  end.

Definition sty_name (t : sty) : string :=
  match t with Char => "char" | UChar => "uchar" | Short => "short" | UShort => "ushort"
             | Int => "int" | UInt => "uint" | Float => "float" | Double => "double" end.
Definition fmt_name (f : fmt) : string :=
  match f with ASCII => "ascii" | BinLE => "binary_little_endian" | BinBE => "binary_big_endian" end.
Definition header_of (a : absfile) : header :=
  {| h_fmt := a_fmt a;
     h_elems := {| e_name := "vertex"; e_count := Z.of_nat (List.length (a_verts a));
                   e_props := map (fun '(t, n) => PScalar t n) (a_vprops a) |} ::
                match a_fprops a with
                | None => []
                | Some fps => [{| e_name := "face"; e_count := Z.of_nat (List.length (a_faces a));
                                  e_props := map (fun '(ct, lt, n) => PList ct lt n) fps |}]
                end;
     h_comments := [] |}.
Definition prop_line (p : prop) : list string :=
  match p with
  | PScalar t n => ["property"; sty_name t; n]
  | PList ct lt n => ["property"; "list"; sty_name ct; sty_name lt; n]
  end%string.
Definition elem_lines (e : element) : list (list string) :=
  ["element"; e_name e; show_udec (Z.to_N (e_count e))]%string :: map prop_line (e_props e).
(* the canonical header text of a header value (Header.Write without comments) *)
Definition render_header (h : header) : list (list string) :=
  (["ply"] :: ["format"; fmt_name (h_fmt h); "1.0"] :: flat_map elem_lines (h_elems h) ++ [["end_header"]])%string.
Definition encode (a : absfile) : plyfile := {| pf_header := render_header (header_of a); pf_body := enc_body a |}.

(* ---------- the mesh a file describes (the specification side of C08) ---------- *)
Fixpoint col_index (name : string) (ps : list (sty * string)) (k : nat) : option (nat * sty) :=
  match ps with [] => None | (t, n) :: r => if seqb n name then Some (k, t) else col_index name r (S k) end.
(* members present with one common type *)
Definition group_cols (ms : list string) (ps : list (sty * string)) : option (list nat * sty) :=
  match all_some (map (fun m => col_index m ps 0) ms) with
  | Some ((k, t) :: r) => if forallb (fun c => sty_eqb (snd c) t) r then Some (k :: map fst r, t) else None
  | _ => None
  end.
(* which properties a group turns into an attribute: all members when present with one type;
   for colour groups the RGB triple alone when alpha is absent or differently typed *)
Definition accepted (g : group) (ps : list (sty * string)) : option (list string * list nat * sty) :=
  match group_cols (g_members g) ps with
  | Some (cols, t) => Some (g_members g, cols, t)
  | None =>
      match g_members g with
      | [_; _; _; _] =>
          if g_ignorable_w g then
            match group_cols (firstn 3 (g_members g)) ps with
            | Some (cols, t) => Some (firstn 3 (g_members g), cols, t)
            | None => None
            end
          else None
      | _ => None
      end
  end.
Definition value_row (scaled : bool) (t : sty) (cols : list nat) (rec : list N) : result (list N) :=
  mapR (fun c => dor w <- of_opt EUnsupported (nth_error rec c); conv t w) cols.
Definition describe_attrs (gs : list group) (ps : list (sty * string)) (verts : list (list N)) : result (list attr) :=
  let acc := flat_map (fun g => match accepted g ps with Some x => [(g_attr g, x)] | None => [] end) gs in
  let claimed := flat_map (fun '(_, (ms, _, _)) => ms) acc in
  let scal := flat_map (fun '(t, n) => if existsb (seqb n) claimed then [] else
                                         match col_index n ps 0 with Some (k, t') => [(n, ([n], [k], t'))] | None => [] end) ps in
  fold_left (fun (r : result (list attr)) '(name, (_, cols, t)) =>
               dor l <- r; dor data <- mapR (value_row true t cols) verts;
               Ok (set_attr (List.length cols) name data l))
            (acc ++ scal) (Ok []).
Definition idx_value (lt : sty) (w : N) : Z := signed32 w.
Definition tex_value (lt : sty) (w : N) : N := match lt with Float => cvF w | _ => w end.
Definition fan {A} (l : list A) (d : A) : list A :=
  match l with
  | [a; b; c] => [a; b; c]
  | [a; b; c; e] => [a; b; c; a; c; e]
  | _ => []
  end.
Fixpoint pairs {A} (l : list A) : list (list A) :=
  match l with a :: b :: r => [a; b] :: pairs r | _ => [] end.
Definition describe (a : absfile) : result mesh :=
  dor attrs <- describe_attrs default_groups (a_vprops a) (a_verts a);
  match a_fprops a with
  | None => Ok {| m_topo := TPoint; m_idx := iota (List.length (a_verts a)); m_attrs := attrs |}
  | Some fps =>
      let ip := last_index is_indices (map (fun '(ct, lt, n) => PList ct lt n) fps) 0 None in
      let tp := last_index is_texcoord (map (fun '(ct, lt, n) => PList ct lt n) fps) 0 None in
      dor ip <- of_opt EDeclared ip;
      let lt_of k := match nth_error fps k with Some (_, lt, _) => lt | None => Int end in
      let idx := flat_map (fun f => fan (map (idx_value (lt_of ip)) (nth ip f [])) 0%Z) (a_faces a) in
      match tp with
      | Some tk =>
          let uvs := flat_map (fun f => fan (pairs (map (tex_value (lt_of tk)) (nth tk f []))) []) (a_faces a) in
          if negb (Nat.eqb (List.length uvs) 0) then
            dor ua <- unweld_attrs attrs idx;
            Ok {| m_topo := TTriangle; m_idx := iota (List.length idx); m_attrs := set_attr 2 "TexCoord" uvs ua |}
          else Ok {| m_topo := TTriangle; m_idx := idx; m_attrs := attrs |}
      | None => Ok {| m_topo := TTriangle; m_idx := idx; m_attrs := attrs |}
      end
  end.

(* ---------- executable equality, used by the correspondence checks ---------- *)
Fixpoint list_eqb {A} (eqb : A -> A -> bool) (a b : list A) : bool :=
  match a, b with
  | [], [] => true
  | x :: a', y :: b' => eqb x y && list_eqb eqb a' b'
  | _, _ => false
  end.
Definition rows_eqb := list_eqb (list_eqb N.eqb).
Definition attrs_sub (a b : list attr) : bool :=
  forallb (fun x : attr => let '(d, n, data) := x in
             match get_attr d n b with Some data' => rows_eqb data data' | None => false end) a.
Definition topo_eqb (a b : topo) : bool := match a, b with TPoint, TPoint | TTriangle, TTriangle => true | _, _ => false end.
Definition mesh_eqb (a b : mesh) : bool :=
  topo_eqb (m_topo a) (m_topo b) && list_eqb Z.eqb (m_idx a) (m_idx b)
  && Nat.eqb (List.length (m_attrs a)) (List.length (m_attrs b)) && attrs_sub (m_attrs a) (m_attrs b) && attrs_sub (m_attrs b) (m_attrs a).
Definition prop_eqb (a b : prop) : bool :=
  match a, b with
  | PScalar t n, PScalar t' n' => sty_eqb t t' && seqb n n'
  | PList c t n, PList c' t' n' => sty_eqb c c' && sty_eqb t t' && seqb n n'
  | _, _ => false
  end.
Definition fmt_eqb (a b : fmt) : bool := match a, b with ASCII, ASCII | BinLE, BinLE | BinBE, BinBE => true | _, _ => false end.
Definition elem_eqb (a b : element) : bool :=
  seqb (e_name a) (e_name b) && Z.eqb (e_count a) (e_count b) && list_eqb prop_eqb (e_props a) (e_props b).
Definition header_eqb (a b : header) : bool :=
  fmt_eqb (h_fmt a) (h_fmt b) && list_eqb elem_eqb (h_elems a) (h_elems b)
  && list_eqb (list_eqb seqb) (h_comments a) (h_comments b).
