(* C06: glTF / GLB writer.  Executable model of formats/gltf/{writer,write,model,model_trackers}.go:
   the writer state machine (WriteVector{2,3,4}, WriteIndices, AddTexture, AddMaterial, AddMesh,
   AddScene, AddLight, ToGLTF) and the GLB framing (WriteGLB).

   - The JSON *text* is not modelled (encoding/json is trusted): the model predicts the document
     *structure* ([summary]) and the binary payload ([buf]).
   - float32 data are bit patterns (N < 2^32), float64 node/material scalars are bit patterns
     (N < 2^64) handed over by the harness; colours are 16-bit RGBA channels and the model computes
     the emitted value round(c/65535, 3) exactly, in thousandths.
   - Pointer identity of meshes / materials / textures is an abstract id ([me_ptr], [pm_ptr],
     [tx_ptr]); "same pointer" and "equal by value" are different inputs.
   - Attribute data are run-length encoded ([vdata]) so that 65 537-vertex meshes stay small.
   - Skins and animations are outside the property and outside the model.
   No proofs in this file. *)
From PF Require Import Base.Bytes.
From Coq Require String.
Import String.StringSyntax.
Notation string := String.string.
Delimit Scope string_scope with string.
Open Scope string_scope.
Open Scope list_scope.
Open Scope N_scope.

Definition len {A} (l : list A) : N := N.of_nat (length l).

(* ------------------------------------------------------------------ component types, data *)
Inductive comp := CFloat | CUByte | CUShort | CUInt.
Definition comp_size (c : comp) : N := match c with CFloat => 4 | CUByte => 1 | CUShort => 2 | CUInt => 4 end.
Definition comp_code (c : comp) : N :=
  match c with CFloat => 5126 | CUByte => 5121 | CUShort => 5123 | CUInt => 5125 end.

Definition elem := list N.                 (* one vector: its K components (words or bytes) *)
Definition vdata := list (N * elem).       (* run-length encoded: n copies of an element *)
Definition vcount (d : vdata) : N := fold_right (fun r a => fst r + a) 0 d.
Definition expand (d : vdata) : list elem := flat_map (fun r => repeat (snd r) (N.to_nat (fst r))) d.
Definition plain (es : list elem) : vdata := map (fun e => (1, e)) es.

Definition enc (c : comp) (w : N) : list N :=
  match c with CFloat | CUInt => le32 w | CUShort => le16 w | CUByte => [w] end.
Definition enc_elem (c : comp) (e : elem) : list N := flat_map (enc c) e.
Record chunk := { ck_comp : comp; ck_k : N; ck_data : vdata }.
Definition chunk_bytes (ck : chunk) : list N := flat_map (enc_elem (ck_comp ck)) (expand (ck_data ck)).

(* ------------------------------------------------------------------ float32 order, min / max *)
(* declared accessor bound: exactly the float32 with bit pattern w | +MaxFloat64 | -MaxFloat64 (the
   writer's start values, left when no element was usable) | any other float64 *)
Inductive mmv := MF (w : N) | MHi | MLo | MOther.

Definition f32_nan (w : N) : bool := 2139095040 <? (w mod 2147483648).
(* strictly monotone map of non-NaN float32 patterns to Z, with -0 < +0 exactly as math.Min/Max order them *)
Definition fkey (w : N) : Z := if w <? 2147483648 then Z.of_N w else (- Z.of_N (w - 2147483648) - 1)%Z.
Definition fmin (a b : N) : N := if (fkey b <? fkey a)%Z then b else a.
Definition fmax (a b : N) : N := if (fkey a <? fkey b)%Z then b else a.

(* float32 bit pattern of a small non-negative integer (used for UNSIGNED_BYTE accessors, whose
   bounds the writer declares as numbers) *)
Definition f32_of_small (n : N) : N :=
  if n =? 0 then 0 else let e := N.log2 n in (127 + e) * 8388608 + (n - 2 ^ e) * 2 ^ (23 - e).
Definition mm_word (c : comp) (w : N) : N := match c with CFloat => w | _ => f32_of_small w end.

Definition usable (e : elem) : bool := negb (existsb f32_nan e).
Definition fold_mm (f : N -> N -> N) (ws : list N) : option N :=
  match ws with [] => None | w :: r => Some (fold_left f r w) end.
Definition col (j : nat) (es : list elem) : list N := map (fun e => nth j e 0) es.
Definition col_min (es : list elem) (j : nat) : mmv :=
  match fold_mm fmin (col j es) with Some w => MF w | None => MHi end.
Definition col_max (es : list elem) (j : nat) : mmv :=
  match fold_mm fmax (col j es) with Some w => MF w | None => MLo end.
(* elements that take part in min/max: WriteVector2/3 skip vectors containing a NaN *)
Definition mm_elems (c : comp) (es : list elem) : list elem := filter usable (map (map (mm_word c)) es).
Definition minmax_of (c : comp) (k : N) (es : list elem) : list mmv * list mmv :=
  let u := mm_elems c es in
  (map (col_min u) (seq 0 (N.to_nat k)), map (col_max u) (seq 0 (N.to_nat k))).
Definition run_elems (d : vdata) : list elem := map snd (filter (fun r => 0 <? fst r) d).
Definition minmax (c : comp) (k : N) (d : vdata) : list mmv * list mmv := minmax_of c k (run_elems d).

(* ------------------------------------------------------------------ document structure *)
Record view := { v_buf : N; v_off : N; v_len : N; v_target : N }.          (* target 0 = absent *)
Record accessor := { a_view : option N; a_off : N; a_comp : N; a_k : N; a_count : N;
                     a_min : list mmv; a_max : list mmv }.
Record gtexinfo := { ti_index : N; ti_exts : list string }.
Record gprim := { gp_attrs : list (string * N); gp_idx : option N; gp_mat : option N; gp_mode : option N }.
Record gmesh := { gm_name : string; gm_prims : list gprim }.
Record gnode := { gn_name : string; gn_mesh : option N;
                  gn_t : option (list N); gn_r : option (list N); gn_s : option (list N);   (* float64 bits *)
                  gn_inst : option (list (string * N)); gn_light : option N; gn_exts : list string }.
Record gsamp := { gs_name : string; gs_mag : N; gs_min : N; gs_ws : N; gs_wt : N }.
Record gtex := { gt_source : option N; gt_sampler : option N; gt_exts : list string }.
(* a texture slot of a material: slot name, texture reference, normal scale / occlusion strength *)
Definition gslot := (string * (gtexinfo * option N))%type.
Record gmat := { gmt_name : string; gmt_color : list N;                         (* thousandths *)
                 gmt_metal : option N; gmt_rough : option N; gmt_emissive : option (list N);
                 gmt_alpha : option string; gmt_cutoff : option N;
                 gmt_texs : list gslot; gmt_exts : list string;
                 gmt_extras : N }.                  (* class of the entry's "extras" object (0 = none) *)
Record glight := { gl_type : string; gl_color : option (list N); gl_range : option N; gl_intensity : option N }.
Record summary := {
  s_buffers : list N; s_views : list view; s_accs : list accessor; s_meshes : list gmesh;
  s_nodes : list gnode; s_scenes : list (list N); s_scene : N;
  s_mats : list gmat; s_texs : list gtex; s_images : list string; s_samplers : list gsamp;
  s_lights : list glight; s_used : list string; s_req : list string; s_root_exts : list string;
  s_version : string }.                                        (* asset.version (write.go defaultAsset) *)

(* ------------------------------------------------------------------ scene (input) *)
Record ptexture := { tx_ptr : N; tx_uri : string; tx_samp : option gsamp;
                     tx_exts : list (string * bool);            (* texture-info extensions: id, required *)
                     tx_xcls : list N }.                        (* class of each extension value under Go's == (harness) *)
Definition color16 := list N.                                   (* what color.Color.RGBA() returns *)
Record ppbr := { pb_color : option color16; pb_tex : option ptexture; pb_metal : option N;
                 pb_rough : option N; pb_mrtex : option ptexture }.
(* material extension: id, class of the Go value under == (ids supplied by the harness), textures
   handed to AddTexture in call order with their slot names *)
Record matext := { mx_id : string; mx_class : N; mx_texs : list (string * ptexture) }.
Record pmaterial := { pm_ptr : N; pm_name : string; pm_pbr : option ppbr; pm_exts : list matext;
                      pm_normal : option (ptexture * option N); pm_occ : option (ptexture * option N);
                      pm_emissive : option color16; pm_alpha : option string; pm_cutoff : option N;
                      pm_extras : N }.              (* class of Extras under deep equality (harness; 0 = nil / empty) *)
Record pmesh := { me_ptr : N; me_point : bool;
                  me_v4 : list (string * vdata); me_v3 : list (string * vdata); me_v2 : list (string * vdata);
                  me_idx : list N; me_v1len : N }.
Record pinst := { in_t : elem; in_s : elem; in_r : elem }.      (* float32 words: 3, 3, 4 (x y z w) *)
Record pmodel := { mo_name : string; mo_mesh : pmesh; mo_mat : option pmaterial;
                   mo_t : option (list N); mo_r : option (list N); mo_s : option (list N);
                   mo_inst : list pinst }.
Record plight := { li_type : string; li_color : option color16; li_range : option N;
                   li_intensity : option N; li_pos : list N }.
Record scene := { sc_models : list pmodel; sc_lights : list plight }.

(* ------------------------------------------------------------------ writer state *)
Record bufst := { b_written : N; b_chunks : list chunk; b_accs : list accessor; b_views : list view }.
Record texst := { x_tab : list (N * N); x_texs : list gtex; x_images : list string;
                  x_samplers : list gsamp; x_used : list string; x_req : list string }.
Record state := { st_b : bufst; st_x : texst; st_meshes : list gmesh; st_nodes : list gnode;
                  st_scene : list N; st_mats : list gmat; st_mat_tab : list (pmaterial * N);
                  st_mesh_tab : list (N * option N * N);
                  st_wr_tab : list (N * (list (string * N) * N)); st_lights : list glight }.

Definition init_b : bufst := {| b_written := 0; b_chunks := []; b_accs := []; b_views := [] |}.
Definition init_x : texst := {| x_tab := []; x_texs := []; x_images := []; x_samplers := []; x_used := []; x_req := [] |}.
Definition init : state :=
  {| st_b := init_b; st_x := init_x; st_meshes := []; st_nodes := []; st_scene := []; st_mats := [];
     st_mat_tab := []; st_mesh_tab := []; st_wr_tab := []; st_lights := [] |}.

Definition buf_b (b : bufst) : list N := flat_map chunk_bytes (b_chunks b).
Definition buf (st : state) : list N := buf_b (st_b st).

Definition set_b (b : bufst) (s : state) : state :=
  {| st_b := b; st_x := st_x s; st_meshes := st_meshes s; st_nodes := st_nodes s; st_scene := st_scene s;
     st_mats := st_mats s; st_mat_tab := st_mat_tab s; st_mesh_tab := st_mesh_tab s;
     st_wr_tab := st_wr_tab s; st_lights := st_lights s |}.
Definition set_x (x : texst) (s : state) : state :=
  {| st_b := st_b s; st_x := x; st_meshes := st_meshes s; st_nodes := st_nodes s; st_scene := st_scene s;
     st_mats := st_mats s; st_mat_tab := st_mat_tab s; st_mesh_tab := st_mesh_tab s;
     st_wr_tab := st_wr_tab s; st_lights := st_lights s |}.

(* ---- WriteVector2/3/4 *)
Definition write_vec (k : N) (c : comp) (d : vdata) (b : bufst) : bufst :=
  let size := vcount d * k * comp_size c in
  let mm := minmax c k d in
  {| b_written := b_written b + size;
     b_chunks := b_chunks b ++ [{| ck_comp := c; ck_k := k; ck_data := d |}];
     b_accs := b_accs b ++ [{| a_view := Some (len (b_views b)); a_off := 0; a_comp := comp_code c; a_k := k;
                              a_count := vcount d; a_min := fst mm; a_max := snd mm |}];
     b_views := b_views b ++ [{| v_buf := 0; v_off := b_written b; v_len := size; v_target := 34962 |}] |}.

(* ---- WriteIndices: 32-bit when attributeSize > math.MaxUint16; values truncated as uint16()/uint32() do *)
Definition index_comp (attr_len : N) : comp := if 65535 <? attr_len then CUInt else CUShort.
Definition index_word (c : comp) (i : N) : N := match c with CUInt => i mod 4294967296 | _ => i mod 65536 end.
Definition write_indices (idx : list N) (attr_len : N) (b : bufst) : bufst :=
  let c := index_comp attr_len in
  let size := len idx * comp_size c in
  {| b_written := b_written b + size;
     b_chunks := b_chunks b ++ [{| ck_comp := c; ck_k := 1; ck_data := plain (map (fun i => [index_word c i]) idx) |}];
     b_accs := b_accs b ++ [{| a_view := Some (len (b_views b)); a_off := 0; a_comp := comp_code c; a_k := 1;
                              a_count := len idx; a_min := []; a_max := [] |}];
     b_views := b_views b ++ [{| v_buf := 0; v_off := b_written b; v_len := size; v_target := 34963 |}] |}.

(* ---- small helpers *)
Fixpoint index_of {A} (p : A -> bool) (l : list A) : option nat :=
  match l with [] => None | x :: r => if p x then Some O else option_map S (index_of p r) end.
Definition index_ofN {A} (p : A -> bool) (l : list A) : option N := option_map N.of_nat (index_of p l).
Fixpoint lookupN {B} (k : N) (l : list (N * B)) : option B :=
  match l with [] => None | (k', v) :: r => if k =? k' then Some v else lookupN k r end.
Definition add_str (s : string) (l : list string) : list string :=
  if existsb (String.eqb s) l then l else l ++ [s].
(* Go map insert: replace the value of an existing key *)
Fixpoint amap_set (key : string) (v : N) (l : list (string * N)) : list (string * N) :=
  match l with
  | [] => [(key, v)]
  | (k', v') :: r => if String.eqb key k' then (key, v) :: r else (k', v') :: amap_set key v r
  end.
Definition optN_eqb (a b : option N) : bool :=
  match a, b with Some x, Some y => x =? y | None, None => true | _, _ => false end.
Fixpoint list_eqb {A} (eqb : A -> A -> bool) (a b : list A) : bool :=
  match a, b with
  | [], [] => true
  | x :: a', y :: b' => eqb x y && list_eqb eqb a' b'
  | _, _ => false
  end.
Definition opt_eqb {A} (eqb : A -> A -> bool) (a b : option A) : bool :=
  match a, b with Some x, Some y => eqb x y | None, None => true | _, _ => false end.
Definition listN_eqb := list_eqb N.eqb.

(* ---- colours: roundFloat(float64(c)/65535, 3) in thousandths (never a tie: see notes/C06.md) *)
Definition millis (c : N) : N := (2000 * c + 65535) / 131070.
Definition rgba_millis (c : color16) : list N := map millis c.
Definition rgb_millis (c : color16) : list N := map millis (firstn 3 c).

(* ---- equality used for de-duplication (model.go, sampler.go, structure.go) *)
Definition samp_fields_eqb (a b : gsamp) : bool :=
  (gs_mag a =? gs_mag b) && (gs_min a =? gs_min b) && (gs_ws a =? gs_ws b) && (gs_wt a =? gs_wt b).
Definition samp_eqb (a b : gsamp) : bool := samp_fields_eqb a b && String.eqb (gs_name a) (gs_name b).   (* Sampler.equal *)
(* PolyformTexture.equal after fix 31c30a5: URI, the extension values (element-wise ==: their ids, required
   flags and equality classes), the four sampler settings and the sampler name.
   [ptex_equal_pinned] is the equality of the pinned tree (URI and sampler settings only): kept as
   documentation of the defect, not used by the writer model. *)
Definition ext_eqb (a b : string * bool) : bool := String.eqb (fst a) (fst b) && Bool.eqb (snd a) (snd b).
Definition ptex_equal (a b : option ptexture) : bool :=
  match a, b with
  | None, None => true
  | Some x, Some y => String.eqb (tx_uri x) (tx_uri y) && list_eqb ext_eqb (tx_exts x) (tx_exts y)
                      && listN_eqb (tx_xcls x) (tx_xcls y) && opt_eqb samp_eqb (tx_samp x) (tx_samp y)
  | _, _ => false
  end.
Definition ptex_equal_pinned (a b : option ptexture) : bool :=
  match a, b with
  | None, None => true
  | Some x, Some y => String.eqb (tx_uri x) (tx_uri y) && opt_eqb samp_fields_eqb (tx_samp x) (tx_samp y)
  | _, _ => false
  end.
Definition ptexs_equal (a b : option (ptexture * option N)) : bool :=     (* PolyformNormal / PolyformOcclusion *)
  match a, b with
  | None, None => true
  | Some (x, sx), Some (y, sy) => ptex_equal (Some x) (Some y) && optN_eqb sx sy
  | _, _ => false
  end.
Definition pbr_equal (a b : option ppbr) : bool :=
  match a, b with
  | None, None => true
  | Some x, Some y =>
      optN_eqb (pb_metal x) (pb_metal y) && optN_eqb (pb_rough x) (pb_rough y)
      && opt_eqb listN_eqb (pb_color x) (pb_color y)
      && ptex_equal (pb_tex x) (pb_tex y) && ptex_equal (pb_mrtex x) (pb_mrtex y)
  | _, _ => false
  end.
(* PolyformMaterial.equal (after fix 74566f1: normal and occlusion textures take part; after fix fd7cca0: the
   extras, which AddMaterial writes into the entry, take part) *)
Definition mat_equal (a b : pmaterial) : bool :=
  String.eqb (pm_name a) (pm_name b) && pbr_equal (pm_pbr a) (pm_pbr b)
  && opt_eqb listN_eqb (pm_emissive a) (pm_emissive b)
  && ptexs_equal (pm_normal a) (pm_normal b) && ptexs_equal (pm_occ a) (pm_occ b)
  && opt_eqb String.eqb (pm_alpha a) (pm_alpha b) && optN_eqb (pm_cutoff a) (pm_cutoff b)
  && list_eqb N.eqb (map mx_class (pm_exts a)) (map mx_class (pm_exts b))
  && (pm_extras a =? pm_extras b).
Definition strs_eqb := list_eqb String.eqb.
(* Texture.equal on what the writer builds: source, sampler; texture-level extensions are never set *)
Definition gtex_eqb (a b : gtex) : bool :=
  optN_eqb (gt_source a) (gt_source b) && optN_eqb (gt_sampler a) (gt_sampler b) && strs_eqb (gt_exts a) (gt_exts b).

(* ---- AddTexture (incl. PolyformTexture.prepareExtensions) *)
Definition use_exts (es : list (string * bool)) (x : texst) : texst :=
  {| x_tab := x_tab x; x_texs := x_texs x; x_images := x_images x; x_samplers := x_samplers x;
     x_used := fold_left (fun u e => add_str (fst e) u) es (x_used x);
     x_req := fold_left (fun u (e : string * bool) => if snd e then add_str (fst e) u else u) es (x_req x) |}.
Definition use_ext (id : string) (x : texst) : texst := use_exts [(id, false)] x.

Definition add_texture (t : ptexture) (x0 : texst) : gtexinfo * texst :=
  let x := use_exts (tx_exts t) x0 in
  let keys := fold_left (fun u e => add_str (fst e) u) (tx_exts t) [] in
  match lookupN (tx_ptr t) (x_tab x) with
  | Some i => ({| ti_index := i; ti_exts := keys |}, x)
  | None =>
      let '(img, images) :=
        match index_ofN (String.eqb (tx_uri t)) (x_images x) with
        | Some i => (i, x_images x)
        | None => (len (x_images x), x_images x ++ [tx_uri t])
        end in
      let '(smp, samplers) :=
        match tx_samp t with
        | None => (None, x_samplers x)
        | Some s => match index_ofN (samp_eqb s) (x_samplers x) with
                    | Some i => (Some i, x_samplers x)
                    | None => (Some (len (x_samplers x)), x_samplers x ++ [s])
                    end
        end in
      let nt := {| gt_source := Some img; gt_sampler := smp; gt_exts := [] |} in
      match index_ofN (gtex_eqb nt) (x_texs x) with
      | Some i => ({| ti_index := i; ti_exts := keys |},
                   {| x_tab := x_tab x; x_texs := x_texs x; x_images := images; x_samplers := samplers;
                      x_used := x_used x; x_req := x_req x |})
      | None => ({| ti_index := len (x_texs x); ti_exts := keys |},
                 {| x_tab := (tx_ptr t, len (x_texs x)) :: x_tab x; x_texs := x_texs x ++ [nt];
                    x_images := images; x_samplers := samplers; x_used := x_used x; x_req := x_req x |})
      end
  end.

(* ---- AddMaterial *)
Definition add_slot (name : string) (t : option ptexture) (extra : option N) (acc : list gslot * texst)
  : list gslot * texst :=
  match t with
  | None => acc
  | Some tx => let '(ti, x) := add_texture tx (snd acc) in (fst acc ++ [(name, (ti, extra))], x)
  end.
Definition ext_slots (e : matext) (acc : list gslot * texst) : list gslot * texst :=
  let acc' := fold_left (fun a st => add_slot (String.append (mx_id e) (String.append "/" (fst st))) (Some (snd st)) None a) (mx_texs e) acc in
  (fst acc', use_ext (mx_id e) (snd acc')).

Definition build_material (m : pmaterial) (x : texst) : gmat * texst :=
  let acc := ([], x) in
  let acc := match pm_pbr m with
             | None => acc
             | Some p => add_slot "metallicRoughnessTexture" (pb_mrtex p) None
                           (add_slot "baseColorTexture" (pb_tex p) None acc)
             end in
  let acc := fold_left (fun a e => ext_slots e a) (pm_exts m) acc in
  let acc := match pm_normal m with Some (t, s) => add_slot "normalTexture" (Some t) s acc | None => acc end in
  let acc := match pm_occ m with Some (t, s) => add_slot "occlusionTexture" (Some t) s acc | None => acc end in
  ({| gmt_name := pm_name m;
      gmt_color := match pm_pbr m with
                   | Some p => match pb_color p with Some c => rgba_millis c | None => [1000; 1000; 1000; 1000] end
                   | None => [1000; 1000; 1000; 1000] end;
      gmt_metal := match pm_pbr m with Some p => pb_metal p | None => None end;
      gmt_rough := match pm_pbr m with Some p => pb_rough p | None => None end;
      gmt_emissive := option_map rgb_millis (pm_emissive m);
      gmt_alpha := pm_alpha m; gmt_cutoff := pm_cutoff m;
      gmt_texs := fst acc;
      gmt_exts := fold_left (fun u e => add_str (mx_id e) u) (pm_exts m) [];
      gmt_extras := pm_extras m |}, snd acc).

(* alphaCutoff without alphaMode = MASK: AddMaterial returns an error and the whole write fails *)
Definition mat_invalid (m : pmaterial) : bool :=
  match pm_cutoff m with
  | None => false
  | Some _ => match pm_alpha m with Some a => negb (String.eqb a "MASK") | None => true end
  end.

Definition find_mat (m : pmaterial) (tab : list (pmaterial * N)) : option N :=
  option_map snd (find (fun e => mat_equal (fst e) m) tab).

Definition add_material (m : pmaterial) (s : state) : N * state :=
  match find_mat m (st_mat_tab s) with
  | Some i => (i, s)
  | None =>
      let '(gm, x) := build_material m (st_x s) in
      let i := len (st_mats s) in
      (i, {| st_b := st_b s; st_x := x; st_meshes := st_meshes s; st_nodes := st_nodes s; st_scene := st_scene s;
             st_mats := st_mats s ++ [gm]; st_mat_tab := st_mat_tab s ++ [(m, i)];
             st_mesh_tab := st_mesh_tab s; st_wr_tab := st_wr_tab s; st_lights := st_lights s |})
  end.

(* ---- AddMesh *)
Definition attr_comp (name : string) : comp := if String.eqb name "Joint" then CUByte else CFloat.
Definition gltf_name (name : string) : string :=
  if String.eqb name "Position" then "POSITION" else if String.eqb name "Color" then "COLOR_0"
  else if String.eqb name "Joint" then "JOINTS_0" else if String.eqb name "Weight" then "WEIGHTS_0"
  else if String.eqb name "TexCoord" then "TEXCOORD_0" else if String.eqb name "Normal" then "NORMAL"
  else name.

Definition prim_count (m : pmesh) : N := if me_point m then len (me_idx m) else len (me_idx m) / 3.
(* Mesh.AttributeLength: length of the first attribute found, vector4 first *)
Definition attr_len (m : pmesh) : N :=
  match me_v4 m with (_, d) :: _ => vcount d | [] =>
  match me_v3 m with (_, d) :: _ => vcount d | [] =>
  match me_v2 m with (_, d) :: _ => vcount d | [] => me_v1len m end end end.

Definition write_attrs (k : N) (attrs : list (string * vdata)) (acc : list (string * N) * bufst)
  : list (string * N) * bufst :=
  fold_left (fun a nv => (amap_set (gltf_name (fst nv)) (len (b_accs (snd a))) (fst a),
                          write_vec k (attr_comp (fst nv)) (snd nv) (snd a))) attrs acc.

Definition write_mesh_data (m : pmesh) (b : bufst) : (list (string * N) * N) * bufst :=
  let acc := write_attrs 2 (me_v2 m) (write_attrs 3 (me_v3 m) (write_attrs 4 (me_v4 m) ([], b))) in
  let ii := len (b_accs (snd acc)) in
  ((fst acc, ii), write_indices (me_idx m) (attr_len m) (snd acc)).

Definition mesh_key_eqb (a b : N * option N) : bool := (fst a =? fst b) && optN_eqb (snd a) (snd b).
Definition find_mesh (k : N * option N) (tab : list (N * option N * N)) : option N :=
  option_map snd (find (fun e => mesh_key_eqb (fst e) k) tab).

(* geometry of a mesh pointer: written once (writtenMeshData), later models reuse the accessor indices *)
Definition mesh_data (m : pmesh) (s : state)
  : (list (string * N) * N) * bufst * list (N * (list (string * N) * N)) :=
  match lookupN (me_ptr m) (st_wr_tab s) with
  | Some ai => (ai, st_b s, st_wr_tab s)
  | None => let '(ai, b) := write_mesh_data m (st_b s) in (ai, b, (me_ptr m, ai) :: st_wr_tab s)
  end.

(* AddMesh after the material has been resolved: one mesh entry per (mesh pointer, material index) *)
Definition place_mesh (mo : pmodel) (mati : option N) (s : state) : option N * state :=
  let m := mo_mesh mo in
  let key := (me_ptr m, mati) in
  match find_mesh key (st_mesh_tab s) with
  | Some i => (Some i, s)
  | None =>
      let mi := len (st_meshes s) in
      let '(ai, b, wr) := mesh_data m s in
      let gm := {| gm_name := mo_name mo;
                   gm_prims := [{| gp_attrs := fst ai; gp_idx := Some (snd ai); gp_mat := mati;
                                   gp_mode := if me_point m then Some 0 else None |}] |} in
      (Some mi, {| st_b := b; st_x := st_x s; st_meshes := st_meshes s ++ [gm]; st_nodes := st_nodes s;
                   st_scene := st_scene s; st_mats := st_mats s; st_mat_tab := st_mat_tab s;
                   st_mesh_tab := st_mesh_tab s ++ [(key, mi)]; st_wr_tab := wr; st_lights := st_lights s |})
  end.

Definition resolve_material (mo : pmodel) (s0 : state) : option N * state :=
  match mo_mat mo with
  | None => (None, s0)
  | Some pm => let '(i, s1) := add_material pm s0 in (Some i, s1)
  end.

Definition add_mesh (mo : pmodel) (s0 : state) : option N * state :=
  if prim_count (mo_mesh mo) =? 0 then (None, s0) else
  let '(mati, s) := resolve_material mo s0 in place_mesh mo mati s.

(* ---- AddScene: one node per model whose mesh was added, then one node per light *)
Definition write_instances (ins : list pinst) (b : bufst) : list (string * N) * bufst :=
  let t := len (b_accs b) in
  let b1 := write_vec 3 CFloat (plain (map in_t ins)) b in
  let sc := len (b_accs b1) in
  let b2 := write_vec 3 CFloat (plain (map in_s ins)) b1 in
  let r := len (b_accs b2) in
  let b3 := write_vec 4 CFloat (plain (map in_r ins)) b2 in
  ([("TRANSLATION"%string, t); ("SCALE"%string, sc); ("ROTATION"%string, r)], b3).

(* the node of a model whose mesh has index [mi] *)
Definition node_inst (mo : pmodel) (s : state) : option (list (string * N)) * bufst * texst :=
  match mo_inst mo with
  | [] => (None, st_b s, st_x s)
  | _ => let '(a, b) := write_instances (mo_inst mo) (st_b s) in
         (Some a, b, use_ext "EXT_mesh_gpu_instancing" (st_x s))
  end.
Definition add_node (mo : pmodel) (mi : N) (s : state) : state :=
  let ni := len (st_nodes s) in
  let '(inst, b, x) := node_inst mo s in
  let nd := {| gn_name := mo_name mo; gn_mesh := Some mi; gn_t := mo_t mo; gn_r := mo_r mo; gn_s := mo_s mo;
               gn_inst := inst; gn_light := None;
               gn_exts := match inst with Some _ => ["EXT_mesh_gpu_instancing"%string] | None => [] end |} in
  {| st_b := b; st_x := x; st_meshes := st_meshes s; st_nodes := st_nodes s ++ [nd];
     st_scene := st_scene s ++ [ni]; st_mats := st_mats s; st_mat_tab := st_mat_tab s;
     st_mesh_tab := st_mesh_tab s; st_wr_tab := st_wr_tab s; st_lights := st_lights s |}.

Definition add_model (s0 : state) (mo : pmodel) : state :=
  let '(mi, s) := add_mesh mo s0 in
  match mi with
  | None => s
  | Some mi => add_node mo mi s
  end.

Definition light_out (l : plight) : glight :=
  {| gl_type := if String.eqb (li_type l) "" then "point"%string else li_type l;
     gl_color := option_map rgb_millis (li_color l); gl_range := li_range l; gl_intensity := li_intensity l |}.

Definition add_light (s : state) (l : plight) : state :=
  let nd := {| gn_name := ""; gn_mesh := None; gn_t := Some (li_pos l); gn_r := None; gn_s := None;
               gn_inst := None; gn_light := Some (len (st_lights s));
               gn_exts := ["KHR_lights_punctual"%string] |} in
  {| st_b := st_b s; st_x := use_ext "KHR_lights_punctual" (st_x s); st_meshes := st_meshes s;
     st_nodes := st_nodes s ++ [nd]; st_scene := st_scene s ++ [len (st_nodes s)];
     st_mats := st_mats s; st_mat_tab := st_mat_tab s; st_mesh_tab := st_mesh_tab s;
     st_wr_tab := st_wr_tab s; st_lights := st_lights s ++ [light_out l] |}.

Definition add_scene (sc : scene) (s : state) : state :=
  fold_left add_light (sc_lights sc) (fold_left add_model (sc_models sc) s).
Definition run (sc : scene) : state := add_scene sc init.

(* ---- ToGLTF *)
Definition to_summary (s : state) : summary :=
  {| s_buffers := if 0 <? b_written (st_b s) then [b_written (st_b s)] else [];
     s_views := b_views (st_b s); s_accs := b_accs (st_b s); s_meshes := st_meshes s; s_nodes := st_nodes s;
     s_scenes := [st_scene s]; s_scene := 0; s_mats := st_mats s; s_texs := x_texs (st_x s);
     s_images := x_images (st_x s); s_samplers := x_samplers (st_x s); s_lights := st_lights s;
     s_used := x_used (st_x s); s_req := x_req (st_x s);
     s_root_exts := match st_lights s with [] => [] | _ => ["KHR_lights_punctual"%string] end;
     s_version := "2.0" |}.

(* the write fails (error return) when a material that has to be stored is invalid; the model of
   the error path is this predicate, [run] itself is total *)
Fixpoint scene_rejected_from (ms : list pmodel) (s : state) : bool :=
  match ms with
  | [] => false
  | mo :: r =>
      let bad := match mo_mat mo with
                 | Some pm => negb (prim_count (mo_mesh mo) =? 0)
                              && match find_mat pm (st_mat_tab s) with Some _ => false | None => mat_invalid pm end
                 | None => false
                 end in
      bad || scene_rejected_from r (add_model s mo)
  end.
Definition scene_rejected (sc : scene) : bool := scene_rejected_from (sc_models sc) init.

(* ------------------------------------------------------------------ GLB framing (WriteGLB) *)
Definition pad4 (n : N) : N := (4 - n mod 4) mod 4.
Definition glb_total (jl bl : N) : N :=
  let j := jl + pad4 jl in let b := bl + pad4 bl in j + b + 12 + 8 + (if b =? 0 then 0 else 8).
Definition glb_frame (json bin : list N) : list N :=
  let jl := len json + pad4 (len json) in
  let bl := len bin + pad4 (len bin) in
  le32 1179937895 ++ le32 2 ++ le32 (glb_total (len json) (len bin))
  ++ le32 jl ++ le32 1313821514 ++ json ++ repeat 32 (N.to_nat (pad4 (len json)))
  ++ (if bl =? 0 then [] else le32 bl ++ le32 5130562 ++ bin ++ repeat 0 (N.to_nat (pad4 (len bin)))).

Definition get32 (l : list N) : option (N * list N) :=
  do '(a, r) <- take 4 l; do w <- de_le32 a; Some (w, r).
(* independent GLB reader: header, JSON chunk, optional BIN chunk, nothing else; every declared
   length must be the actual one *)
Definition glb_parse (file : list N) : option (list N * option (list N)) :=
  do '(magic, r) <- get32 file; do '(ver, r) <- get32 r; do '(total, r) <- get32 r;
  if negb ((magic =? 1179937895) && (ver =? 2) && (total =? len file)) then None else
  do '(jl, r) <- get32 r; do '(jt, r) <- get32 r;
  if negb ((jt =? 1313821514) && (jl mod 4 =? 0)) then None else
  do '(json, r) <- take (N.to_nat jl) r;
  match r with
  | [] => Some (json, None)
  | _ => do '(bl, r) <- get32 r; do '(bt, r) <- get32 r;
         if negb ((bt =? 5130562) && (bl mod 4 =? 0)) then None else
         do '(bin, r) <- take (N.to_nat bl) r;
         match r with [] => Some (json, Some bin) | _ => None end
  end.

(* what the harness' hand-written GLB reader reports *)
Record glbinfo := { g_magic : N; g_version : N; g_total : N; g_actual : N;
                    g_chunks : list (N * N * N);          (* declared length, type, bytes actually present *)
                    g_json_len : N;                       (* JSON chunk without trailing spaces *)
                    g_pad_ok : bool }.                    (* JSON padded with 0x20, BIN with 0x00 *)
Definition glb_info_of (json_len bin_len : N) : glbinfo :=
  let j := json_len + pad4 json_len in let b := bin_len + pad4 bin_len in
  {| g_magic := 1179937895; g_version := 2; g_total := glb_total json_len bin_len;
     g_actual := glb_total json_len bin_len;
     g_chunks := (j, 1313821514, j) :: (if b =? 0 then [] else [(b, 5130562, b)]);
     g_json_len := json_len; g_pad_ok := true |}.

(* ------------------------------------------------------------------ independent decoding of accessors *)
Definition code_size (c : N) : N :=
  match c with 5120 | 5121 => 1 | 5122 | 5123 => 2 | 5125 | 5126 => 4 | _ => 0 end.
Definition le_value (l : list N) : N := fold_right (fun b a => b + 256 * a) 0 l.
Fixpoint get_words (sz : nat) (n : nat) (l : list N) : option (list N * list N) :=
  match n with
  | O => Some ([], l)
  | S n' => do '(a, r) <- take sz l; do '(ws, r') <- get_words sz n' r; Some (le_value a :: ws, r')
  end.
Fixpoint get_elems (sz k : nat) (n : nat) (l : list N) : option (list elem) :=
  match n with
  | O => Some []
  | S n' => do '(e, r) <- get_words sz k l; do es <- get_elems sz k n' r; Some (e :: es)
  end.
(* elements of accessor [a] read from [payload] (tightly packed: the writer never sets byteStride) *)
Definition decode_acc (views : list view) (payload : list N) (a : accessor) : option (list elem) :=
  do vi <- a_view a;
  do v <- nth_error views (N.to_nat vi);
  let sz := code_size (a_comp a) in
  if (sz =? 0) || (a_k a =? 0) then None else
  if v_len v <? a_off a + a_count a * a_k a * sz then None else
  get_elems (N.to_nat sz) (N.to_nat (a_k a)) (N.to_nat (a_count a)) (skipn (N.to_nat (v_off v + a_off a)) payload).

(* ------------------------------------------------------------------ the property as a checker *)
(* [gltf_check] judges a document (summary + payload) against the scene it was written from and
   returns the keys of the checks that fail; it does not use the writer model above (only the
   attribute-name table, the component-type table and the colour rounding rule). *)
Definition str_in (s : string) (l : list string) : bool := existsb (String.eqb s) l.
Fixpoint nodup_str (l : list string) : bool :=
  match l with [] => true | x :: r => negb (str_in x r) && nodup_str r end.
Definition subset_str (a b : list string) : bool := forallb (fun s => str_in s b) a.
Definition set_eqb (a b : list string) : bool := subset_str a b && subset_str b a && Nat.eqb (length a) (length b).
Fixpoint amap_get (key : string) (l : list (string * N)) : option N :=
  match l with [] => None | (k, v) :: r => if String.eqb key k then Some v else amap_get key r end.
Definition amap_eqb (a b : list (string * N)) : bool :=
  Nat.eqb (length a) (length b) && nodup_str (map fst a)
  && forallb (fun kv => optN_eqb (amap_get (fst kv) b) (Some (snd kv))) a.
Definition valid_idx {A} (i : N) (l : list A) : bool := i <? len l.
Definition valid_opt {A} (i : option N) (l : list A) : bool := match i with Some j => valid_idx j l | None => true end.
Definition nthN {A} (l : list A) (i : N) : option A := nth_error l (N.to_nat i).
Definition key_if (b : bool) (k : string) : list string := if b then [] else [k].

(* -- buffers, views, accessors *)
Definition view_ok (bufs : list N) (v : view) : bool :=
  match nthN bufs (v_buf v) with Some bl => v_off v + v_len v <=? bl | None => false end.
Fixpoint views_disjoint (vs : list view) : bool :=
  match vs with
  | [] => true
  | v :: r => forallb (fun w => negb (v_buf v =? v_buf w) || (v_len v =? 0) || (v_len w =? 0)
                               || (v_off v + v_len v <=? v_off w) || (v_off w + v_len w <=? v_off v)) r
              && views_disjoint r
  end.
Definition acc_ok (vs : list view) (a : accessor) : bool :=
  match a_view a with
  | None => false
  | Some vi => match nthN vs vi with
               | None => false
               | Some v => negb (code_size (a_comp a) =? 0) && negb (a_k a =? 0)
                           && (a_off a + a_count a * a_k a * code_size (a_comp a) <=? v_len v)
               end
  end.
(* component alignment: accessor start (view offset + accessor offset) is a multiple of the component size *)
Definition acc_aligned (vs : list view) (a : accessor) : bool :=
  match a_view a with
  | None => true
  | Some vi => match nthN vs vi with
               | None => true
               | Some v => let sz := code_size (a_comp a) in
                           (sz =? 0) || (((v_off v + a_off a) mod sz =? 0) && (a_off a mod sz =? 0))
               end
  end.
Definition aligned_ok (vs : list view) (accs : list accessor) : bool := forallb (acc_aligned vs) accs.

(* -- min / max of an accessor against its decoded elements *)
Definition comp_of_code (c : N) : comp :=
  match c with 5121 => CUByte | 5123 => CUShort | 5125 => CUInt | _ => CFloat end.
Definition mmv_eqb (a b : mmv) : bool :=
  match a, b with MF x, MF y => x =? y | MHi, MHi => true | MLo, MLo => true | _, _ => false end.
Definition minmax_ok (a : accessor) (es : list elem) : bool :=
  match a_min a, a_max a with
  | [], [] => true
  | mn, mx => let '(emn, emx) := minmax_of (comp_of_code (a_comp a)) (a_k a) es in
              list_eqb mmv_eqb mn emn && list_eqb mmv_eqb mx emx
  end.

(* -- primitives *)
Definition is_index_comp (c : N) : bool := (c =? 5121) || (c =? 5123) || (c =? 5125).
Definition prim_ok (s : summary) (p : gprim) : bool :=
  nodup_str (map fst (gp_attrs p))
  && forallb (fun kv => valid_idx (snd kv) (s_accs s)) (gp_attrs p)
  && valid_opt (gp_idx p) (s_accs s) && valid_opt (gp_mat p) (s_mats s)
  && match gp_mode p with Some m => m <=? 6 | None => true end
  && match gp_idx p with
     | Some i => match nthN (s_accs s) i with
                 | Some a => (a_k a =? 1) && is_index_comp (a_comp a)
                 | None => false end
     | None => true end.
Definition attr_counts (s : summary) (p : gprim) : list N :=
  flat_map (fun kv => match nthN (s_accs s) (snd kv) with Some a => [a_count a] | None => [] end) (gp_attrs p).
Definition counts_agree (s : summary) (p : gprim) : bool :=
  match attr_counts s p with [] => true | c :: r => forallb (N.eqb c) r end.
(* every index value is below the count of every attribute accessor of the primitive *)
Definition indices_in_range (s : summary) (payload : list N) (p : gprim) : bool :=
  match gp_idx p with
  | None => true
  | Some i => match nthN (s_accs s) i with
              | None => false
              | Some a => match decode_acc (s_views s) payload a with
                          | None => false
                          | Some es => forallb (fun e => forallb (fun c => nth 0 e 0 <? c) (attr_counts s p)) es
                          end
              end
  end.

(* -- extension bookkeeping *)
Definition mat_ext_keys (m : gmat) : list string :=
  gmt_exts m ++ flat_map (fun sl => ti_exts (fst (snd sl))) (gmt_texs m).
Definition all_ext_keys (s : summary) : list string :=
  s_root_exts s ++ flat_map gn_exts (s_nodes s) ++ flat_map mat_ext_keys (s_mats s) ++ flat_map gt_exts (s_texs s).
Definition ext_ok (s : summary) : bool :=
  subset_str (all_ext_keys s) (s_used s) && subset_str (s_req s) (s_used s) && nodup_str (s_used s) && nodup_str (s_req s).

(* -- materials / textures: content of what a model's primitive references vs the model's material *)
Definition tex_matches (s : summary) (t : ptexture) (ti : gtexinfo) : bool :=
  match nthN (s_texs s) (ti_index ti) with
  | None => false
  | Some g =>
      match gt_source g with
      | Some im => match nthN (s_images s) im with Some u => String.eqb u (tx_uri t) | None => false end
      | None => false end
      && match tx_samp t, gt_sampler g with
         | None, None => true
         | Some ps, Some si => match nthN (s_samplers s) si with Some gs => samp_eqb ps gs | None => false end
         | _, _ => false end
      && set_eqb (ti_exts ti) (map fst (tx_exts t))
  end.
Fixpoint slot_get (key : string) (l : list gslot) : option (gtexinfo * option N) :=
  match l with [] => None | (k, v) :: r => if String.eqb key k then Some v else slot_get key r end.
(* texture slots a material asks for: name, texture, extra scalar *)
Definition want_slots (m : pmaterial) : list (string * (ptexture * option N)) :=
  (match pm_pbr m with
   | Some p => (match pb_tex p with Some t => [("baseColorTexture"%string, (t, None))] | None => [] end)
               ++ (match pb_mrtex p with Some t => [("metallicRoughnessTexture"%string, (t, None))] | None => [] end)
   | None => [] end)
  ++ flat_map (fun e => map (fun st => ((String.append (mx_id e) (String.append "/" (fst st))), (snd st, None))) (mx_texs e)) (pm_exts m)
  ++ (match pm_normal m with Some (t, sc) => [("normalTexture"%string, (t, sc))] | None => [] end)
  ++ (match pm_occ m with Some (t, sc) => [("occlusionTexture"%string, (t, sc))] | None => [] end).
Definition mat_matches (s : summary) (m : pmaterial) (g : gmat) : bool :=
  String.eqb (gmt_name g) (pm_name m)
  && listN_eqb (gmt_color g)
       (match pm_pbr m with
        | Some p => match pb_color p with Some c => rgba_millis c | None => [1000; 1000; 1000; 1000] end
        | None => [1000; 1000; 1000; 1000] end)
  && optN_eqb (gmt_metal g) (match pm_pbr m with Some p => pb_metal p | None => None end)
  && optN_eqb (gmt_rough g) (match pm_pbr m with Some p => pb_rough p | None => None end)
  && opt_eqb listN_eqb (gmt_emissive g) (option_map rgb_millis (pm_emissive m))
  && opt_eqb String.eqb (gmt_alpha g) (pm_alpha m) && optN_eqb (gmt_cutoff g) (pm_cutoff m)
  && set_eqb (gmt_exts g) (map mx_id (pm_exts m))
  && Nat.eqb (length (gmt_texs g)) (length (want_slots m))
  && forallb (fun w => match slot_get (fst w) (gmt_texs g) with
                       | Some (ti, extra) => tex_matches s (fst (snd w)) ti && optN_eqb extra (snd (snd w))
                       | None => false end) (want_slots m)
  && (gmt_extras g =? pm_extras m).

(* texture pointers of a material with the texture index they were given: for "same pointer => same index" *)
Definition mat_tex_refs (m : pmaterial) (g : gmat) : list (N * N) :=
  flat_map (fun w => match slot_get (fst w) (gmt_texs g) with
                     | Some (ti, _) => [(tx_ptr (fst (snd w)), ti_index ti)]
                     | None => [] end) (want_slots m).
Fixpoint functional (l : list (N * N)) : bool :=       (* no key with two different values *)
  match l with
  | [] => true
  | (k, v) :: r => forallb (fun kv => negb (fst kv =? k) || (snd kv =? v)) r && functional r
  end.
Fixpoint nodup_by {A} (eqb : A -> A -> bool) (l : list A) : bool :=
  match l with [] => true | x :: r => negb (existsb (eqb x) r) && nodup_by eqb r end.

(* -- models against nodes: node j belongs to the j-th model with at least one primitive *)
Definition want_attrs (m : pmesh) : list (string * (N * N * vdata)) :=      (* glTF name, (code, K), data *)
  map (fun nv => (gltf_name (fst nv), (comp_code (attr_comp (fst nv)), 4, snd nv))) (me_v4 m)
  ++ map (fun nv => (gltf_name (fst nv), (comp_code (attr_comp (fst nv)), 3, snd nv))) (me_v3 m)
  ++ map (fun nv => (gltf_name (fst nv), (comp_code (attr_comp (fst nv)), 2, snd nv))) (me_v2 m).
Definition elems_eqb (a b : list elem) : bool := list_eqb listN_eqb a b.
(* accessor [ai] has the given type and count and (when the payload is at hand) decodes to exactly
   [d], with declared bounds that are the bounds of what is stored *)
Definition acc_is (s : summary) (payload : option (list N)) (ai : N) (code k : N) (d : vdata) : bool :=
  match nthN (s_accs s) ai with
  | None => false
  | Some a => (a_comp a =? code) && (a_k a =? k) && (a_count a =? vcount d)
              && match payload with
                 | None => true
                 | Some p => match decode_acc (s_views s) p a with
                             | Some es => elems_eqb es (expand d) && minmax_ok a es
                             | None => false end
                 end
  end.
Definition opt_listN_eqb := opt_eqb listN_eqb.
Definition has_bounds (s : summary) (ai : N) : bool :=
  match nthN (s_accs s) ai with Some a => (len (a_min a) =? a_k a) && (len (a_max a) =? a_k a) | None => false end.

(* the single primitive of the mesh a node refers to *)
Definition node_prim (s : summary) (nd : gnode) : option gprim :=
  match gn_mesh nd with
  | None => None
  | Some mi => match nthN (s_meshes s) mi with
               | None => None
               | Some gm => match gm_prims gm with [p] => Some p | _ => None end
               end
  end.

(* bufferView.target of the views a primitive's accessors use: vertex attributes never live in an
   ELEMENT_ARRAY_BUFFER (34963) view, indices never in an ARRAY_BUFFER (34962) view (absent = 0 is allowed) *)
Definition acc_target (s : summary) (ai : N) : option N :=
  do a <- nthN (s_accs s) ai; do vi <- a_view a; do v <- nthN (s_views s) vi; Some (v_target v).
Definition targets_ok (s : summary) (p : gprim) : bool :=
  forallb (fun kv => match acc_target s (snd kv) with Some t => negb (t =? 34963) | None => false end) (gp_attrs p)
  && match gp_idx p with
     | Some ii => match acc_target s ii with Some t => negb (t =? 34962) | None => false end
     | None => true end.

(* node j against model j: everything except the content of the material entry *)
Definition node_geom_check (s : summary) (payload : option (list N)) (mo : pmodel) (nd : gnode) : list string :=
  key_if (String.eqb (gn_name nd) (mo_name mo)) "node-name"
  ++ key_if (opt_listN_eqb (gn_t nd) (mo_t mo) && opt_listN_eqb (gn_r nd) (mo_r mo) && opt_listN_eqb (gn_s nd) (mo_s mo)) "node-trs"
  ++ key_if (match gn_light nd with None => true | Some _ => false end) "node-kind"
  ++ match gn_mesh nd with
     | None => ["node-without-mesh"%string]
     | Some mi =>
       match nthN (s_meshes s) mi with
       | None => ["dangling-index"%string]
       | Some gm =>
         match gm_prims gm with
         | [p] =>
             let m := mo_mesh mo in
             let want := want_attrs m in
             key_if (optN_eqb (gp_mode p) (if me_point m then Some 0 else None)) "primitive-mode"
             ++ key_if (set_eqb (map fst (gp_attrs p)) (map fst want)) "attribute-set"
             ++ key_if (forallb (fun w => match amap_get (fst w) (gp_attrs p) with
                                          | Some ai => acc_is s payload ai (fst (fst (snd w))) (snd (fst (snd w))) (snd (snd w))
                                          | None => false end) want) "attribute-image"
             ++ key_if (match amap_get "POSITION" (gp_attrs p) with Some ai => has_bounds s ai | None => true end) "position-bounds"
             (* the index accessor stores the mesh's indices unchanged, in an unsigned integer type whose
                reserved maximum (primitive restart) none of them reaches; which adequate width is
                chosen is not prescribed here (the correspondence pins the writer's own rule) *)
             ++ key_if (match gp_idx p with
                        | Some ii =>
                            match nthN (s_accs s) ii with
                            | Some a => is_index_comp (a_comp a)
                                        && acc_is s payload ii (a_comp a) 1 (plain (map (fun i => [i]) (me_idx m)))
                            | None => false end
                        | None => false end) "index-image"
             ++ key_if (match gp_idx p with
                        | Some ii =>
                            match nthN (s_accs s) ii with
                            | Some a => forallb (fun i => i + 1 <? 2 ^ (8 * code_size (a_comp a))) (me_idx m)
                            | None => false end
                        | None => false end) "index-width"
             ++ key_if (targets_ok s p) "view-target"
         | _ => ["primitive-count"%string]
         end
       end
     end
  ++ key_if (match mo_inst mo, gn_inst nd with
             | [], None => true
             | _ :: _, Some a =>
                 set_eqb (map fst a) ["TRANSLATION"; "SCALE"; "ROTATION"]%string
                 && match amap_get "TRANSLATION" a, amap_get "SCALE" a, amap_get "ROTATION" a with
                    | Some t, Some sc, Some r =>
                        acc_is s payload t 5126 3 (plain (map in_t (mo_inst mo)))
                        && acc_is s payload sc 5126 3 (plain (map in_s (mo_inst mo)))
                        && acc_is s payload r 5126 4 (plain (map in_r (mo_inst mo)))
                    | _, _, _ => false end
                 && str_in "EXT_mesh_gpu_instancing" (gn_exts nd)
             | _, _ => false end) "instances".

(* ... and the material entry its primitive refers to (a missing mesh / primitive is reported above) *)
Definition node_mat_check (s : summary) (mo : pmodel) (nd : gnode) : list string :=
  match node_prim s nd with
  | None => []
  | Some p =>
      key_if (match mo_mat mo, gp_mat p with
              | None, None => true
              | Some pm, Some gi => match nthN (s_mats s) gi with Some g => mat_matches s pm g | None => false end
              | _, _ => false end) "material-content"
  end.

Definition model_node_check (s : summary) (payload : option (list N)) (mo : pmodel) (nd : gnode) : list string :=
  node_geom_check s payload mo nd ++ node_mat_check s mo nd.

Definition light_node_check (s : summary) (j : N) (l : plight) (nd : gnode) : list string :=
  key_if (optN_eqb (gn_light nd) (Some j) && opt_listN_eqb (gn_t nd) (Some (li_pos l))
          && match gn_mesh nd with None => true | Some _ => false end
          && str_in "KHR_lights_punctual" (gn_exts nd)) "light-node".

Definition glight_eqb (a b : glight) : bool :=
  String.eqb (gl_type a) (gl_type b) && opt_listN_eqb (gl_color a) (gl_color b)
  && optN_eqb (gl_range a) (gl_range b) && optN_eqb (gl_intensity a) (gl_intensity b).

Definition live (mo : pmodel) : bool := negb (prim_count (mo_mesh mo) =? 0).
Fixpoint zip {A B} (a : list A) (b : list B) : list (A * B) :=
  match a, b with x :: a', y :: b' => (x, y) :: zip a' b' | _, _ => [] end.
Fixpoint pairs_ok {A} (p : A -> A -> bool) (l : list A) : bool :=
  match l with [] => true | x :: r => forallb (p x) r && pairs_ok p r end.

(* what one live model was given: mesh pointer, material pointer, mesh index, primitive *)
Definition placed := (pmodel * (N * gprim))%type.
Definition placements (s : summary) (sc : scene) : list placed :=
  flat_map (fun mn => match gn_mesh (snd mn) with
                      | Some mi => match nthN (s_meshes s) mi with
                                   | Some gm => match gm_prims gm with [p] => [(fst mn, (mi, p))] | _ => [] end
                                   | None => [] end
                      | None => [] end)
           (zip (filter live (sc_models sc)) (s_nodes s)).
(* shared things are stored once and referenced consistently *)
Definition dedup_pair_ok (a b : placed) : bool :=
  let '(ma, (ia, pa)) := a in let '(mb, (ib, pb)) := b in
  (* same mesh pointer: the same accessors *)
  (negb (me_ptr (mo_mesh ma) =? me_ptr (mo_mesh mb))
   || (amap_eqb (gp_attrs pa) (gp_attrs pb) && optN_eqb (gp_idx pa) (gp_idx pb)
       (* ... and, with the same material entry, the same mesh entry *)
       && (negb (optN_eqb (gp_mat pa) (gp_mat pb)) || (ia =? ib))))
  (* different mesh pointers: different accessors (nothing is shared by accident) *)
  && ((me_ptr (mo_mesh ma) =? me_ptr (mo_mesh mb)) || negb (optN_eqb (gp_idx pa) (gp_idx pb)))
  (* same material pointer, or two materials equal by value ([mat_equal]: every field, textures by URI and
     sampler settings): the same material entry; materials that differ in some field: different entries *)
  && match mo_mat ma, mo_mat mb with
     | Some x, Some y => Bool.eqb ((pm_ptr x =? pm_ptr y) || mat_equal x y) (optN_eqb (gp_mat pa) (gp_mat pb))
     | _, _ => true end.
Definition all_tex_refs (s : summary) (pl : list placed) : list (N * N) :=
  flat_map (fun p => match mo_mat (fst p), gp_mat (snd (snd p)) with
                     | Some pm, Some gi => match nthN (s_mats s) gi with Some g => mat_tex_refs pm g | None => [] end
                     | _, _ => [] end) pl.

Definition covers (n : N) (used : list N) : bool :=
  forallb (fun i => existsb (N.eqb (N.of_nat i)) used) (seq 0 (N.to_nat n)).
Definition opt_list {A} (o : option A) : list A := match o with Some x => [x] | None => [] end.
Definition used_accessors (s : summary) : list N :=
  flat_map (fun m => flat_map (fun p => map snd (gp_attrs p) ++ opt_list (gp_idx p)) (gm_prims m)) (s_meshes s)
  ++ flat_map (fun nd => match gn_inst nd with Some a => map snd a | None => [] end) (s_nodes s).
Definition nothing_extra (s : summary) : bool :=
  covers (len (s_accs s)) (used_accessors s)
  && covers (len (s_views s)) (flat_map (fun a => opt_list (a_view a)) (s_accs s))
  && covers (len (s_meshes s)) (flat_map (fun nd => opt_list (gn_mesh nd)) (s_nodes s))
  && covers (len (s_mats s)) (flat_map (fun m => flat_map (fun p => opt_list (gp_mat p)) (gm_prims m)) (s_meshes s))
  && covers (len (s_texs s)) (flat_map (fun m => map (fun sl => ti_index (fst (snd sl))) (gmt_texs m)) (s_mats s))
  && covers (len (s_images s)) (flat_map (fun t => opt_list (gt_source t)) (s_texs s))
  && covers (len (s_samplers s)) (flat_map (fun t => opt_list (gt_sampler t)) (s_texs s)).

(* GLB container: header, chunk table, lengths, padding *)
Definition glb_check (g : glbinfo) (buffers : list N) : list string :=
  key_if ((g_magic g =? 1179937895) && (g_version g =? 2)) "glb-header"
  ++ key_if (g_total g =? g_actual g) "glb-total-length"
  ++ key_if (forallb (fun c => let '(d, _, av) := c in (d =? av) && (d mod 4 =? 0)) (g_chunks g)) "glb-chunk-length"
  ++ key_if (g_actual g =? 12 + fold_right (fun c a => let '(d, _, _) := c in 8 + d + a) 0 (g_chunks g)) "glb-trailing-bytes"
  ++ key_if (match g_chunks g, buffers with
             | [(jl, 1313821514, _)], [] => g_json_len g <=? jl
             | [(jl, 1313821514, _); (bl, 5130562, _)], [b] => (g_json_len g <=? jl) && (b <=? bl) && (bl <? b + 4)
             | _, _ => false end) "glb-chunks"
  ++ key_if (g_pad_ok g) "glb-padding".

Record obs := { o_sum : summary; o_payload : option (list N); o_bin_len : N; o_glb : option glbinfo }.

(* the whole property, alignment excepted (that is [aligned_ok], reported under its own key).
   [gltf_check_struct]: clauses about the document's own consistency (buffers, views, accessors, declared
   bounds, extensions, node / light / scene bookkeeping, stored-once tables);
   [gltf_check_models]: clauses that compare the document with the models of the scene, node by node. *)
Definition gltf_check_struct (sc : scene) (o : obs) : list string :=
  let s := o_sum o in
  let nlive := length (filter live (sc_models sc)) in
  key_if (String.eqb (s_version s) "2.0") "asset-version"
  ++ key_if (Nat.leb (length (s_buffers s)) 1) "buffer-count"
  ++ key_if (match s_buffers s, o_glb o with
             | [], _ => o_bin_len o =? 0
             | [b], None => o_bin_len o =? b
             | [b], Some _ => (b <=? o_bin_len o) && (o_bin_len o <? b + 4)
             | _, _ => false end) "buffer-length"
  ++ key_if (match o_payload o with Some p => len p =? o_bin_len o | None => true end) "payload-length"
  ++ key_if (forallb (view_ok (s_buffers s)) (s_views s)) "view-out-of-buffer"
  ++ key_if (views_disjoint (s_views s)) "view-overlap"
  ++ key_if (forallb (acc_ok (s_views s)) (s_accs s)) "accessor-out-of-view"
  ++ key_if (match o_payload o with
             | Some p => forallb (fun a => match decode_acc (s_views s) p a with
                                           | Some es => minmax_ok a es | None => false end) (s_accs s)
             | None => true end) "minmax-mismatch"
  ++ key_if (ext_ok s) "extension-undeclared"
  ++ key_if (Nat.eqb (length (s_nodes s)) (nlive + length (sc_lights sc))) "node-count"
  ++ flat_map (fun jl => light_node_check s (N.of_nat (fst (fst jl))) (snd (fst jl)) (snd jl))
       (zip (zip (seq 0 (length (sc_lights sc))) (sc_lights sc)) (skipn nlive (s_nodes s)))
  ++ key_if (list_eqb glight_eqb (s_lights s) (map light_out (sc_lights sc))) "light-content"
  ++ key_if (Bool.eqb (str_in "KHR_lights_punctual" (s_root_exts s)) (negb (Nat.eqb (length (sc_lights sc)) 0))) "light-root-extension"
  ++ key_if (match s_scenes s with
             | [roots] => (s_scene s =? 0) && Nat.eqb (length roots) (length (s_nodes s))
                          && covers (len (s_nodes s)) roots && forallb (fun r => valid_idx r (s_nodes s)) roots
             | _ => false end) "scene-roots"
  ++ key_if (nodup_str (s_images s) && nodup_by samp_eqb (s_samplers s) && nodup_by gtex_eqb (s_texs s)) "duplicate-entry"
  ++ key_if (forallb (fun t => valid_opt (gt_source t) (s_images s) && valid_opt (gt_sampler t) (s_samplers s)) (s_texs s)) "dangling-index".

Definition gltf_check_models (sc : scene) (o : obs) : list string :=
  let s := o_sum o in
  let lives := filter live (sc_models sc) in
  let pl := placements s sc in
  key_if (forallb (fun m => forallb (prim_ok s) (gm_prims m)) (s_meshes s)) "dangling-index"
  ++ key_if (forallb (fun m => forallb (counts_agree s) (gm_prims m)) (s_meshes s)) "attribute-count-mismatch"
  ++ key_if (match o_payload o with
             | Some p => forallb (fun m => forallb (indices_in_range s p) (gm_prims m)) (s_meshes s)
             | None => true end) "index-out-of-range"
  ++ key_if (forallb (fun nd => valid_opt (gn_mesh nd) (s_meshes s) && valid_opt (gn_light nd) (s_lights s)
                                && match gn_inst nd with
                                   | Some a => forallb (fun kv => valid_idx (snd kv) (s_accs s)) a
                                   | None => true end) (s_nodes s)) "dangling-index"
  ++ flat_map (fun mn => model_node_check s (o_payload o) (fst mn) (snd mn)) (zip lives (s_nodes s))
  ++ key_if (pairs_ok dedup_pair_ok pl) "dedup-inconsistent"
  ++ key_if (functional (all_tex_refs s pl)) "texture-pointer-stored-twice"
  ++ key_if (forallb (fun m => forallb (fun sl => valid_idx (ti_index (fst (snd sl))) (s_texs s)) (gmt_texs m)) (s_mats s)) "dangling-index"
  ++ key_if (nothing_extra s) "unreferenced-entry"
  ++ match o_glb o with Some g => glb_check g (s_buffers s) | None => [] end.

Definition gltf_check (sc : scene) (o : obs) : list string := gltf_check_struct sc o ++ gltf_check_models sc o.

Definition gltf_validb (sc : scene) (o : obs) : bool := match gltf_check sc o with [] => true | _ => false end.

(* ------------------------------------------------------------------ equality of summaries (correspondence) *)
Definition view_eqb (a b : view) : bool :=
  (v_buf a =? v_buf b) && (v_off a =? v_off b) && (v_len a =? v_len b) && (v_target a =? v_target b).
Definition acc_eqb (a b : accessor) : bool :=
  optN_eqb (a_view a) (a_view b) && (a_off a =? a_off b) && (a_comp a =? a_comp b) && (a_k a =? a_k b)
  && (a_count a =? a_count b) && list_eqb mmv_eqb (a_min a) (a_min b) && list_eqb mmv_eqb (a_max a) (a_max b).
Definition prim_eqb (a b : gprim) : bool :=
  amap_eqb (gp_attrs a) (gp_attrs b) && optN_eqb (gp_idx a) (gp_idx b) && optN_eqb (gp_mat a) (gp_mat b)
  && optN_eqb (gp_mode a) (gp_mode b).
Definition mesh_eqb (a b : gmesh) : bool :=
  String.eqb (gm_name a) (gm_name b) && list_eqb prim_eqb (gm_prims a) (gm_prims b).
Definition node_eqb (a b : gnode) : bool :=
  String.eqb (gn_name a) (gn_name b) && optN_eqb (gn_mesh a) (gn_mesh b)
  && opt_listN_eqb (gn_t a) (gn_t b) && opt_listN_eqb (gn_r a) (gn_r b) && opt_listN_eqb (gn_s a) (gn_s b)
  && opt_eqb amap_eqb (gn_inst a) (gn_inst b) && optN_eqb (gn_light a) (gn_light b) && set_eqb (gn_exts a) (gn_exts b).
Definition texinfo_eqb (a b : gtexinfo) : bool := (ti_index a =? ti_index b) && set_eqb (ti_exts a) (ti_exts b).
Definition slots_eqb (a b : list gslot) : bool :=
  Nat.eqb (length a) (length b) && nodup_str (map fst a)
  && forallb (fun sl => match slot_get (fst sl) b with
                        | Some (ti, ex) => texinfo_eqb (fst (snd sl)) ti && optN_eqb (snd (snd sl)) ex
                        | None => false end) a.
Definition mat_eqb (a b : gmat) : bool :=
  String.eqb (gmt_name a) (gmt_name b) && listN_eqb (gmt_color a) (gmt_color b)
  && optN_eqb (gmt_metal a) (gmt_metal b) && optN_eqb (gmt_rough a) (gmt_rough b)
  && opt_listN_eqb (gmt_emissive a) (gmt_emissive b) && opt_eqb String.eqb (gmt_alpha a) (gmt_alpha b)
  && optN_eqb (gmt_cutoff a) (gmt_cutoff b) && slots_eqb (gmt_texs a) (gmt_texs b) && set_eqb (gmt_exts a) (gmt_exts b)
  && (gmt_extras a =? gmt_extras b).
Definition summary_eqb (a b : summary) : bool :=
  listN_eqb (s_buffers a) (s_buffers b) && list_eqb view_eqb (s_views a) (s_views b)
  && list_eqb acc_eqb (s_accs a) (s_accs b) && list_eqb mesh_eqb (s_meshes a) (s_meshes b)
  && list_eqb node_eqb (s_nodes a) (s_nodes b) && list_eqb listN_eqb (s_scenes a) (s_scenes b)
  && (s_scene a =? s_scene b) && list_eqb mat_eqb (s_mats a) (s_mats b)
  && list_eqb gtex_eqb (s_texs a) (s_texs b) && strs_eqb (s_images a) (s_images b)
  && list_eqb samp_eqb (s_samplers a) (s_samplers b) && list_eqb glight_eqb (s_lights a) (s_lights b)
  && set_eqb (s_used a) (s_used b) && set_eqb (s_req a) (s_req b) && set_eqb (s_root_exts a) (s_root_exts b)
  && String.eqb (s_version a) (s_version b).
(* the first field that differs, for diagnosis *)
Definition summary_diff (a b : summary) : list string :=
  key_if (listN_eqb (s_buffers a) (s_buffers b)) "buffers" ++ key_if (list_eqb view_eqb (s_views a) (s_views b)) "views"
  ++ key_if (list_eqb acc_eqb (s_accs a) (s_accs b)) "accessors" ++ key_if (list_eqb mesh_eqb (s_meshes a) (s_meshes b)) "meshes"
  ++ key_if (list_eqb node_eqb (s_nodes a) (s_nodes b)) "nodes" ++ key_if (list_eqb listN_eqb (s_scenes a) (s_scenes b)) "scenes"
  ++ key_if (list_eqb mat_eqb (s_mats a) (s_mats b)) "materials" ++ key_if (list_eqb gtex_eqb (s_texs a) (s_texs b)) "textures"
  ++ key_if (strs_eqb (s_images a) (s_images b)) "images" ++ key_if (list_eqb samp_eqb (s_samplers a) (s_samplers b)) "samplers"
  ++ key_if (list_eqb glight_eqb (s_lights a) (s_lights b)) "lights"
  ++ key_if (set_eqb (s_used a) (s_used b) && set_eqb (s_req a) (s_req b) && set_eqb (s_root_exts a) (s_root_exts b)) "extensions"
  ++ key_if (String.eqb (s_version a) (s_version b)) "asset-version".
Definition glb_eqb (a b : glbinfo) : bool :=
  (g_magic a =? g_magic b) && (g_version a =? g_version b) && (g_total a =? g_total b) && (g_actual a =? g_actual b)
  && list_eqb (fun x y => let '(p, q, r) := x in let '(p', q', r') := y in (p =? p') && (q =? q') && (r =? r'))
       (g_chunks a) (g_chunks b)
  && (g_json_len a =? g_json_len b) && Bool.eqb (g_pad_ok a) (g_pad_ok b).
