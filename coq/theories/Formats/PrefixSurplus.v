(* C14: ASCII PLY cuts that remove only SURPLUS trailing tokens of the last line (the line keeps at least the tokens
   the reader looks at): the result is that of the complete line.  Needs: the built ASCII readers only look at
   columns below the number of declared properties. *)
From PF Require Import Base.Bytes Base.BytesProofs.
From PF Require Import Formats.PlyRead Formats.PrefixProofs.
From Coq Require Import ZifyN ZifyNat ZifyBool.
Open Scope list_scope.

(* ---------------------------------------------------------------- column offsets of ASCII readers *)
Definition offs_lt (np : nat) (offs : list (option nat)) : Prop :=
  Forall (fun o => match o with Some x => (x < np)%nat | None => True end) offs.
Definition reader_cols_lt (np : nat) (b : built) : Prop := Forall (fun o => (o < np)%nat) (b_offs b).

Lemma scan_members_lt np cur t name : (cur < np)%nat -> forall members offs ty,
  offs_lt np offs -> offs_lt np (fst (scan_members members offs ty cur t name)).
Proof.
  intros Hc. induction members as [|m ms IH]; intros offs ty H; [constructor|].
  destruct offs as [|o os]; [constructor|]. inversion H as [|? ? Ho Hos]; subst. cbn [scan_members].
  destruct (seqb name m).
  - destruct (scan_members ms os _ cur t name) as [os' ty''] eqn:E. cbn [fst].
    constructor; [destruct (osty_eqb _ t); [exact Hc|exact I]|].
    specialize (IH os (match ty with None => Some t | Some _ => ty end) Hos). rewrite E in IH. exact IH.
  - destruct (scan_members ms os ty cur t name) as [os' ty''] eqn:E. cbn [fst].
    constructor; [exact Ho|]. specialize (IH os ty Hos). rewrite E in IH. exact IH.
Qed.

Lemma scan_props_lt np members : forall props cur offs ty offs' ty',
  scan_props false members props cur offs ty = Ok (offs', ty') ->
  (cur + length props <= np)%nat -> offs_lt np offs -> offs_lt np offs'.
Proof.
  induction props as [|p ps IH]; intros cur offs ty offs' ty' H Hn Ho.
  - cbn [scan_props] in H. assert (offs' = offs) as -> by congruence. exact Ho.
  - destruct p as [t name|ct lt name]; cbn [scan_props] in H; [|discriminate].
    destruct (scan_members members offs ty cur t name) as [o1 t1] eqn:E.
    apply (IH _ _ _ _ _ H); [unfold advance; simpl length in Hn; lia|].
    pose proof (scan_members_lt np cur t name ltac:(simpl length in Hn; lia) members offs ty Ho) as H1.
    rewrite E in H1. exact H1.
Qed.

Lemma all_some_lt np : forall offs os, all_some offs = Some os -> offs_lt np offs -> Forall (fun o => (o < np)%nat) os.
Proof.
  induction offs as [|o offs IH]; intros os H Ho.
  - cbn [all_some] in H. assert (os = []) as -> by congruence. constructor.
  - inversion Ho as [|? ? H1 H2]; subst. destruct o as [x|]; cbn [all_some] in H; [|discriminate].
    destruct (all_some offs) as [os'|] eqn:E; cbn [option_map] in H; [|discriminate].
    assert (os = x :: os') as -> by congruence. constructor; [exact H1|]. apply IH; [reflexivity|exact H2].
Qed.

Lemma build_vec_lt np attr members props b : build_vec false attr members props = Ok (Some b) ->
  (length props <= np)%nat -> reader_cols_lt np b.
Proof.
  unfold build_vec. destruct (scan_props false members props 0 _ None) as [[offs ty]|] eqn:E; cbn [rbind]; [|discriminate].
  destruct (all_some offs) as [os|] eqn:Ea; [|discriminate]. destruct ty as [t|]; [|discriminate].
  intros H Hn. assert (b = {| b_attr := attr; b_names := members; b_offs := os; b_ty := t; b_v1 := false |}) as -> by congruence.
  unfold reader_cols_lt. cbn [b_offs]. apply (all_some_lt np offs os Ea).
  apply (scan_props_lt np members props 0 _ None offs (Some t) E); [lia|].
  unfold offs_lt. apply Forall_forall. intros o Ho. apply in_map_iff in Ho. destruct Ho as (? & <- & _). exact I.
Qed.

Lemma find_v1_lt name : forall props cur off t, find_v1 false name props cur = Ok (Some (off, t)) ->
  (off < cur + length props)%nat.
Proof.
  induction props as [|p ps IH]; intros cur off t H; [discriminate|].
  destruct p as [t0 n|? ? ?]; cbn [find_v1] in H; [|discriminate].
  destruct (seqb n name).
  - assert (off = cur) as -> by congruence. simpl length. lia.
  - apply IH in H. unfold advance in H. simpl length. lia.
Qed.
Lemma build_v1_lt np attr name props b : build_v1 false attr name props = Ok (Some b) ->
  (length props <= np)%nat -> reader_cols_lt np b.
Proof.
  unfold build_v1. destruct (find_v1 false name props 0) as [[[off t]|]|] eqn:E; cbn [rbind option_map]; try discriminate.
  intros H Hn. assert (b = {| b_attr := attr; b_names := [name]; b_offs := [off]; b_ty := t; b_v1 := true |}) as -> by congruence.
  apply find_v1_lt in E. unfold reader_cols_lt. cbn [b_offs]. constructor; [lia|constructor].
Qed.
Lemma build_group_lt np g props b : build_group false g props = Ok (Some b) ->
  (length props <= np)%nat -> reader_cols_lt np b.
Proof.
  unfold build_group. intros H Hn.
  destruct (g_members g) as [|m1 [|m2 ms]] eqn:Em.
  - destruct (build_vec false (g_attr g) [] props) as [[b'|]|] eqn:E; cbn [rbind] in H; try discriminate.
    + assert (b' = b) as -> by congruence. eapply build_vec_lt; eassumption.
    + destruct (g_ignorable_w g); [|discriminate]. eapply build_vec_lt; eassumption.
  - eapply build_v1_lt; eassumption.
  - destruct (build_vec false (g_attr g) (m1 :: m2 :: ms) props) as [[b'|]|] eqn:E; cbn [rbind] in H; try discriminate.
    + assert (b' = b) as -> by congruence. eapply build_vec_lt; eassumption.
    + destruct (g_ignorable_w g); [|discriminate]. eapply build_vec_lt; eassumption.
Qed.
Lemma build_groups_lt np props : (length props <= np)%nat -> forall gs bs,
  build_groups false gs props = Ok bs -> Forall (reader_cols_lt np) bs.
Proof.
  intros Hn. induction gs as [|g gs IH]; intros bs H; cbn [build_groups] in H.
  - assert (bs = []) as -> by congruence. constructor.
  - destruct (build_group false g props) as [ob|] eqn:Eg; cbn [rbind] in H; [|discriminate].
    destruct (build_groups false gs props) as [bs'|] eqn:Egs; cbn [rbind] in H; [|discriminate].
    specialize (IH bs' eq_refl). destruct ob as [b|].
    + assert (bs = b :: bs') as -> by congruence. constructor; [eapply build_group_lt; eassumption|exact IH].
    + assert (bs = bs') as -> by congruence. exact IH.
Qed.
Lemma add_unclaimed_lt np all : (length all <= np)%nat -> forall todo bs bs',
  add_unclaimed false all todo bs = Ok bs' -> Forall (reader_cols_lt np) bs -> Forall (reader_cols_lt np) bs'.
Proof.
  intros Hn. induction todo as [|p r IH]; intros bs bs' H Hbs; cbn [add_unclaimed] in H.
  - assert (bs' = bs) as -> by congruence. exact Hbs.
  - destruct (existsb _ bs); [apply (IH _ _ H Hbs)|].
    destruct (build_v1 false (prop_name p) (prop_name p) all) as [ob|] eqn:Eb; cbn [rbind] in H; [|discriminate].
    apply (IH _ _ H). destruct ob as [b|]; [|exact Hbs].
    apply Forall_app. split; [exact Hbs|]. constructor; [eapply build_v1_lt; eassumption|constructor].
Qed.
(* MeshReader.Read, ASCII: every built reader looks only at columns below the number of declared properties *)
Theorem build_readers_cols_lt gs u props bs :
  build_readers false gs u props = Ok bs -> Forall (reader_cols_lt (length props)) bs.
Proof.
  unfold build_readers. destruct (build_groups false gs props) as [bs0|] eqn:E; cbn [rbind]; [|discriminate].
  pose proof (build_groups_lt (length props) props (le_n _) gs bs0 E) as H0.
  destruct u; intros H.
  - eapply add_unclaimed_lt; [apply le_n|exact H|exact H0].
  - assert (bs = bs0) as -> by congruence. exact H0.
Qed.

(* ---------------------------------------------------------------- rows of a line cut after its needed tokens *)
Lemma nth_error_firstn_lt {A} : forall (l : list A) m i, (i < m)%nat -> nth_error (firstn m l) i = nth_error l i.
Proof.
  induction l as [|x l IH]; intros m i H; [rewrite firstn_nil; reflexivity|].
  destruct m as [|m]; [lia|]. destruct i as [|i]; [reflexivity|]. cbn [firstn nth_error]. apply IH. lia.
Qed.
Lemma mapR_ext_in {A B} (f g : A -> result B) : forall l, (forall x, In x l -> f x = g x) -> mapR f l = mapR g l.
Proof.
  induction l as [|x l IH]; intros H; [reflexivity|]. cbn [mapR]. rewrite (H x (or_introl eq_refl)).
  rewrite IH by (intros y Hy; apply H; right; exact Hy). reflexivity.
Qed.
Lemma read_ascii_row_firstn b m l : reader_cols_lt m b -> read_ascii_row b (firstn m l) = read_ascii_row b l.
Proof.
  intros Hb. unfold read_ascii_row. f_equal. apply mapR_ext_in. intros off Hoff.
  unfold reader_cols_lt in Hb. rewrite Forall_forall in Hb. rewrite nth_error_firstn_lt by (apply Hb; exact Hoff). reflexivity.
Qed.
Lemma rows_firstn bs np m l : Forall (reader_cols_lt np) bs -> (np <= m)%nat ->
  mapR (fun b => read_ascii_row b (firstn m l)) bs = mapR (fun b => read_ascii_row b l) bs.
Proof.
  intros Hbs Hm. apply mapR_ext_in. intros b Hb. apply read_ascii_row_firstn.
  rewrite Forall_forall in Hbs. specialize (Hbs b Hb). unfold reader_cols_lt in *.
  eapply Forall_impl; [|exact Hbs]. intros o Ho. cbv beta in Ho. lia.
Qed.

(* (V) the last line belongs to the vertex block (the block ends with it): cutting it to m >= np > 0 tokens changes nothing *)
Lemma rva_surplus bs np m x : Forall (reader_cols_lt np) bs -> (np <= m)%nat -> (0 < m)%nat ->
  forall pre n rows, read_vertices_ascii bs np (pre ++ [x]) n = Ok (rows, []) ->
  read_vertices_ascii bs np (pre ++ [firstn m x]) n = Ok (rows, []).
Proof.
  intros Hbs Hm Hm0. induction pre as [|y pre IH]; intros n rows H.
  - cbn [app] in *. destruct n as [|n]; [cbn [read_vertices_ascii] in H; congruence|].
    cbn [read_vertices_ascii] in H. destruct x as [|t ts]; [cbn [read_vertices_ascii] in H; discriminate|].
    destruct m as [|m]; [lia|]. cbn [firstn read_vertices_ascii].
    change (t :: firstn m ts) with (firstn (S m) (t :: ts)).
    destruct (length (t :: ts) <? np)%nat eqn:El; [discriminate|].
    replace (length (firstn (S m) (t :: ts)) <? np)%nat with false by (rewrite firstn_length; lia).
    rewrite (rows_firstn bs np (S m) (t :: ts) Hbs Hm). exact H.
  - cbn [app] in *. destruct n as [|n]; [cbn [read_vertices_ascii] in H; destruct pre; discriminate|].
    cbn [read_vertices_ascii] in *. destruct y as [|t ts]; [apply IH; exact H|].
    destruct (length (t :: ts) <? np)%nat; [discriminate|].
    destruct (mapR _ bs) as [row|]; cbn [rbind] in *; [|discriminate].
    destruct (read_vertices_ascii bs np (pre ++ [x]) n) as [[rows' r2]|] eqn:E2; cbn [rbind] in H; [|discriminate].
    assert (rows = row :: rows' /\ r2 = []) as [-> ->] by (split; congruence).
    rewrite (IH n rows' E2). reflexivity.
Qed.

(* a face line cut after the tokens its lists use *)
Lemma face_ascii_surplus rs : forall k ip tp toks st m, (face_used rs toks <= m)%nat ->
  (exists st', face_ascii rs k ip tp toks st = Ok st') ->
  face_ascii rs k ip tp (firstn m toks) st = face_ascii rs k ip tp toks st.
Proof.
  induction rs as [|r rs IH]; intros k ip tp toks st m Hm [st' H]; [reflexivity|].
  cbn [face_ascii] in H. destruct toks as [|c rest]; [discriminate|].
  cbn [face_used] in Hm. destruct (tok_int c) as [v|] eqn:Ev; cbn [of_opt rbind] in H; [|discriminate].
  destruct ((v <? 0)%Z || (Z.of_nat (length rest) <? v)%Z) eqn:Eb; [discriminate|].
  destruct m as [|m]; [lia|]. cbn [firstn face_ascii]. rewrite Ev. cbn [of_opt rbind]. rewrite Eb.
  replace ((v <? 0)%Z || (Z.of_nat (length (firstn m rest)) <? v)%Z) with false by (rewrite firstn_length; lia).
  rewrite firstn_firstn_le by lia.
  destruct (if (k =? ip)%nat then _ else Ok st) as [st1|] eqn:E1; cbn [rbind] in *; [|discriminate].
  destruct (if nat_eqb_opt tp k then _ else Ok st1) as [st2|] eqn:E2; cbn [rbind] in *; [|discriminate].
  rewrite skipn_firstn_comm. apply IH; [lia|exists st'; exact H].
Qed.

Lemma faces_ascii_surplus rs ip tp x m : (0 < m)%nat -> (face_used rs x <= m)%nat ->
  forall pre n st r, faces_ascii rs ip tp (pre ++ [x]) n st = Ok r ->
  faces_ascii rs ip tp (pre ++ [firstn m x]) n st = Ok r.
Proof.
  intros Hm0 Hm. induction pre as [|y pre IH]; intros n st r H.
  - cbn [app] in *. destruct n as [|n]; [exact H|]. cbn [faces_ascii] in H.
    destruct x as [|t ts]; [cbn [faces_ascii] in H; discriminate|].
    destruct m as [|m']; [lia|]. cbn [firstn faces_ascii]. change (t :: firstn m' ts) with (firstn (S m') (t :: ts)).
    destruct (face_ascii rs 0 ip tp (t :: ts) st) as [st'|] eqn:Ef; cbn [rbind] in H; [|discriminate].
    rewrite (face_ascii_surplus rs 0 ip tp (t :: ts) st (S m') Hm (ex_intro _ st' Ef)), Ef. exact H.
  - cbn [app] in *. destruct n as [|n]; [exact H|]. cbn [faces_ascii] in *.
    destruct y as [|t ts]; [apply IH; exact H|].
    destruct (face_ascii rs 0 ip tp (t :: ts) st) as [st'|]; cbn [rbind] in *; [|discriminate].
    destruct (face_out _ st') as [[ix uv]|]; cbn [rbind] in *; [|discriminate].
    destruct (faces_ascii rs ip tp (pre ++ [x]) n st') as [[ixs uvs]|] eqn:E2; cbn [rbind] in H; [|discriminate].
    rewrite (IH n st' (ixs, uvs) E2). exact H.
Qed.

Section WholeFile.
Import String.
(* ply.ReadMesh on an ASCII file whose LAST line was cut at a token boundary leaving m > 0 tokens:
   (V) the line belongs to the vertex block and keeps at least one token per declared property *)
Theorem ply_ascii_surplus_vertex hdr pre x m mesh h ve bs rows :
  read_mesh {| pf_header := hdr; pf_body := BodyAscii (pre ++ [x]) |} = Ok mesh ->
  parse_header hdr = Ok h ->
  find_last_elem "vertex"%string (h_elems h) None = Some ve ->
  build_readers false default_groups true (e_props ve) = Ok bs ->
  read_vertices_ascii bs (List.length (e_props ve)) (pre ++ [x]) (Z.to_nat (e_count ve)) = Ok (rows, []) ->
  (List.length (e_props ve) <= m)%nat -> (0 < m)%nat ->
  read_mesh {| pf_header := hdr; pf_body := BodyAscii (pre ++ [firstn m x]) |} = Ok mesh.
Proof.
  intros H Hh Hve Hbs Hrv Hm Hm0.
  unfold read_mesh in *. cbn [pf_header pf_body] in *. rewrite Hh in *. cbn [rbind] in *.
  unfold read_body in *. rewrite Hve in *. cbn [of_opt rbind] in *. cbv zeta in *.
  destruct (negb (all_scalar (e_props ve))); [discriminate|].
  destruct (e_count ve <? 0)%Z; [discriminate|].
  destruct (h_fmt h); cbv beta iota in *; try discriminate.
  rewrite Hbs in *. cbn [rbind] in *.
  rewrite (rva_surplus bs _ m x (build_readers_cols_lt _ _ _ _ Hbs) Hm Hm0 pre _ rows Hrv).
  rewrite Hrv in H. exact H.
Qed.

(* (F) the line belongs to the face block and keeps the tokens its list properties use *)
Theorem ply_ascii_surplus_face hdr pre x m mesh h ve fe bs rows rest rs ip tp :
  read_mesh {| pf_header := hdr; pf_body := BodyAscii (pre ++ [x]) |} = Ok mesh ->
  parse_header hdr = Ok h ->
  find_last_elem "vertex"%string (h_elems h) None = Some ve ->
  find_last_elem "face"%string (h_elems h) None = Some fe ->
  build_readers false default_groups true (e_props ve) = Ok bs ->
  read_vertices_ascii bs (List.length (e_props ve)) (pre ++ [x]) (Z.to_nat (e_count ve)) = Ok (rows, rest) ->
  rest <> [] ->
  face_setup fe = Ok (rs, ip, tp) ->
  (face_used rs x <= m)%nat -> (0 < m)%nat ->
  read_mesh {| pf_header := hdr; pf_body := BodyAscii (pre ++ [firstn m x]) |} = Ok mesh.
Proof.
  intros H Hh Hve Hfe Hbs Hrv Hrest Hfs Hm Hm0.
  (* where the vertex block ends *)
  destruct (sp_read_vertices_ascii bs _ _ _ _ _ Hrv) as (c & Hc & Hr & _).
  assert (Hcl : (c <= List.length pre)%nat).
  { destruct (le_lt_dec c (List.length pre)) as [Hle|Hgt]; [exact Hle|]. exfalso. apply Hrest. rewrite Hr.
    apply skipn_all2. rewrite app_length in *. simpl List.length in *. lia. }
  assert (Hr' : rest = skipn c pre ++ [x]).
  { rewrite Hr, skipn_app. replace (c - List.length pre)%nat with 0%nat by lia. reflexivity. }
  assert (Hext : read_vertices_ascii bs (List.length (e_props ve)) (pre ++ [firstn m x]) (Z.to_nat (e_count ve))
                 = Ok (rows, skipn c pre ++ [firstn m x])).
  { pose proof (read_vertices_ascii_ext bs _ _ _ _ _ Hrv (skipn c pre ++ [firstn m x])) as E.
    replace (List.length (pre ++ [x]) - List.length rest)%nat with c in E
      by (rewrite Hr, skipn_length; lia).
    rewrite firstn_app in E. replace (c - List.length pre)%nat with 0%nat in E by lia.
    cbn [firstn] in E. rewrite app_nil_r, app_assoc, firstn_skipn in E. exact E. }
  unfold read_mesh in *. cbn [pf_header pf_body] in *. rewrite Hh in *. cbn [rbind] in *.
  unfold read_body in *. rewrite Hve, Hfe in *. cbn [of_opt rbind] in *. cbv zeta in *.
  destruct (negb (all_scalar (e_props ve))); [discriminate|].
  destruct (e_count ve <? 0)%Z; [discriminate|].
  destruct (h_fmt h); cbv beta iota in *; try discriminate.
  rewrite Hbs in *. cbn [rbind] in *. rewrite Hext. rewrite Hrv in H. cbn [rbind] in *.
  rewrite Hfs in *. cbn [rbind] in *. clear Hr. subst rest.
  destruct (faces_ascii rs ip tp (skipn c pre ++ [x]) (Z.to_nat (e_count fe)) fstate0) as [r|] eqn:Ef; cbn [rbind] in H; [|discriminate].
  rewrite (faces_ascii_surplus rs ip tp x m Hm0 Hm (skipn c pre) _ fstate0 r Ef). exact H.
Qed.
End WholeFile.

(* ================================================================== PLY header cut at ANY byte *)
(* readLine (reader.go:18-40) returns a line only when it ends in '\n'; at the end of the input an unterminated line is
   an error.  [lines_of] = the '\n'-terminated lines of a byte string (the tail after the last '\n' is dropped). *)
Section HeaderBytes.
Open Scope N_scope.
Fixpoint lines_of (l cur : list N) : list (list N) :=
  match l with
  | [] => []
  | b :: r => if b =? 10 then rev cur :: lines_of r [] else lines_of r (b :: cur)
  end.
Definition no_nl (x : list N) : Prop := Forall (fun b => b <> 10) x.
Definition join_lines (ls : list (list N)) : list N := flat_map (fun x => x ++ [10]) ls.

Lemma in_firstn {A} (b : A) : forall k x, In b (firstn k x) -> In b x.
Proof.
  induction k as [|k IH]; intros x H; [destruct H|]. destruct x as [|y x]; [destruct H|].
  cbn [firstn] in H. destruct H as [->|H]; [left; reflexivity|right; apply IH; exact H].
Qed.
Lemma lines_of_no_nl x : forall cur, no_nl x -> lines_of x cur = [].
Proof.
  induction x as [|b x IH]; intros cur H; [reflexivity|]. inversion H as [|? ? Hb Hx]; subst. cbn [lines_of].
  replace (b =? 10) with false by lia. apply IH. exact Hx.
Qed.
Lemma lines_of_line x rest : forall cur, no_nl x -> lines_of (x ++ 10 :: rest) cur = (rev cur ++ x) :: lines_of rest [].
Proof.
  induction x as [|b x IH]; intros cur H.
  - cbn [app lines_of]. rewrite N.eqb_refl, app_nil_r. reflexivity.
  - inversion H as [|? ? Hb Hx]; subst. cbn [app lines_of]. replace (b =? 10) with false by lia.
    rewrite (IH (b :: cur) Hx). cbn [rev]. rewrite <- app_assoc. reflexivity.
Qed.
Lemma lines_of_prefix ls : Forall no_nl ls -> forall k, exists j, lines_of (firstn k (join_lines ls)) [] = firstn j ls.
Proof.
  induction 1 as [|x ls Hx Hls IH]; intros k.
  - exists 0%nat. unfold join_lines. cbn [flat_map]. rewrite firstn_nil. reflexivity.
  - unfold join_lines. cbn [flat_map]. fold (join_lines ls). rewrite <- app_assoc. cbn [app].
    destruct (le_lt_dec k (length x)) as [Hk|Hk].
    + exists 0%nat. rewrite firstn_app_lt by assumption. apply lines_of_no_nl.
      unfold no_nl in *. rewrite Forall_forall in *. intros b Hb. apply Hx. apply (in_firstn b k x Hb).
    + rewrite firstn_app_ge by lia. destruct (k - length x)%nat as [|k'] eqn:Ek; [lia|]. cbn [firstn].
      rewrite lines_of_line by assumption. destruct (IH k') as [j Hj]. exists (S j). rewrite Hj. reflexivity.
Qed.

(* [fields]: what strings.Fields makes of a line (with '\r' removed) -- outside the model.  A header cut at ANY byte
   is rejected with end-of-input, or parses to the identical header (the cut lies after "end_header\n"). *)
Variable fields : list N -> list String.string.
Theorem ply_header_bytes_prefix ls h k : Forall no_nl ls ->
  parse_header (map fields ls) = Ok h ->
  parse_header (map fields (lines_of (firstn k (join_lines ls)) [])) = Err EEof \/
  parse_header (map fields (lines_of (firstn k (join_lines ls)) [])) = Ok h.
Proof.
  intros Hls H. destruct (lines_of_prefix ls Hls k) as [j ->]. rewrite <- firstn_map.
  apply ply_header_prefix. exact H.
Qed.
End HeaderBytes.
