(* C05, round 4: the FILE level of formats/obj - fs.go (Load / Save / SaveAll) and the part of mat_reader.go /
   WriteMaterials that the property can see: which material NAMES a .mtl file defines.
     Save / SaveAll: when some mesh has material ranges, a file <base>.mtl is written with one "newmtl" per material
       (nil -> DefaultMaterial "Default Diffuse", names with the spaces removed - the same spelling writeUsingMaterial
       gives the usemtl lines) and the OBJ text gets "mtllib <base>.mtl"; otherwise no .mtl and no mtllib.
     Load: ReadMesh; every mtllib name is opened next to the .obj (missing file = declared error) and read with
       ReadMaterials; then every material range gets loadedMaterials[name]: the material of that name, or NIL when no
       file defines it.
   A .mtl file is its list of newmtl names in order (colours / textures are outside the property).
   Definitions only, no proofs. *)
From Coq Require Import String.
From PF Require Import Base.Bytes Formats.Obj.
Open Scope nat_scope.
Notation length := List.length (only parsing).

Definition fsys := list (tok * list name).        (* files next to the .obj: file name -> newmtl names *)
Fixpoint fs_find (fs : fsys) (f : tok) : option (list name) :=
  match fs with
  | [] => None
  | (g, d) :: r => if String.eqb f g then Some d else fs_find r f
  end.
(* the loop over matPaths: os.Open fails -> error; the maps of all files are merged *)
Fixpoint load_defs (fs : fsys) (libs : name) : res (list name) :=
  match libs with
  | [] => Ok []
  | f :: r => match fs_find fs f with
              | None => Declared
              | Some d => dor rest <- load_defs fs r; Ok (d ++ rest)
              end
  end.
(* loadedMaterials[mat.Material.Name]: nil when the name is not defined *)
Definition res_tag (defs : list name) (mt : option name) : option name :=
  match mt with
  | Some n => if existsb (name_eqb n) defs then Some n else None
  | None => None
  end.
Definition resolve (defs : list name) (m : mesh) : mesh :=
  {| m_name := m_name m; m_idx := m_idx m; m_pos := m_pos m; m_uv := m_uv m; m_nrm := m_nrm m;
     m_mats := map (fun cm => (fst cm, res_tag defs (snd cm))) (m_mats m) |}.
Definition load_gen (cfg : rcfg) (fs : fsys) (ls : list line) : res (list mesh) :=
  dor '(gs, libs) <- read_gen cfg ls;
  dor defs <- load_defs fs libs;
  Ok (map (resolve defs) gs).
Definition load := load_gen cfg_full.

(* WriteMaterials: the names of the newmtl statements (de-duplication by pointer does not change the set) *)
Definition mtl_defs (ms : list mesh) : list name :=
  flat_map (fun m => map (fun cm => mat_written (snd cm)) (m_mats m)) ms.
Definition mtl_file : tok := "mesh.mtl"%string.
(* obj.SaveAll (meshes in the order the map iteration produced): the OBJ text and the files next to it *)
Definition save_all (ms : list mesh) : res (list line) * fsys :=
  if existsb (fun m => nonnil (m_mats m)) ms
  then (write (Some [mtl_file]) ms, [(mtl_file, mtl_defs ms)])
  else (write None ms, []).
(* obj.Save = WriteMesh: one mesh, no name *)
Definition unnamed (m : mesh) : mesh :=
  {| m_name := []; m_idx := m_idx m; m_pos := m_pos m; m_uv := m_uv m; m_nrm := m_nrm m; m_mats := m_mats m |}.
Definition save (m : mesh) : res (list line) * fsys := save_all [unnamed m].

(* the direct meaning of a file after Load: tags of faces whose material no .mtl defines become nil *)
Definition gobs_resolved (defs : list name) (g : gobs) : gobs :=
  let '(nm, cs, tg) := g in (nm, cs, map (res_tag defs) tg).
