From PF Require Import Formats.Pts.
From Coq Require Import ZifyNat ZifyBool.

Lemma zlist_eqb_refl l : zlist_eqb l l = true.
Proof. induction l as [|x l IH]; simpl; [reflexivity|]. rewrite Z.eqb_refl, IH. reflexivity. Qed.

Lemma z3_eqb_refl a : z3_eqb a a = true.
Proof. destruct a as [[x y] z]. simpl. rewrite !Z.eqb_refl. reflexivity. Qed.

Lemma z3list_eqb_refl l : z3list_eqb l l = true.
Proof. induction l as [|x l IH]; simpl; [reflexivity|]. rewrite z3_eqb_refl, IH. reflexivity. Qed.

Lemma forallb_weaken {A} (f g : A -> bool) l :
  (forall x, f x = true -> g x = true) -> forallb f l = true -> forallb g l = true.
Proof. intros H. rewrite !forallb_forall. intros Hf x Hx. apply H, Hf, Hx. Qed.

(* Every Ok result of the model is free of placeholders: exactly the promised number of vertices,
   every value the image of tokens of its own line. *)
Theorem pts_read_no_placeholder c ls r : pts_read c ls = Some r -> no_placeholderb c ls r = true.
Proof.
  unfold pts_read, no_placeholderb. destruct c as [c|]; [|discriminate].
  destruct (c <? 0)%Z eqn:Ec; [discriminate|].
  destruct (length ls <? Z.to_nat c)%nat eqn:El; [discriminate|].
  replace (0 <=? c)%Z with true by lia. replace (Z.to_nat c <=? length ls)%nat with true by lia.
  cbn [andb]. destruct (firstn (Z.to_nat c) ls) as [|l0 used'] eqn:Eu.
  - intros H. injection H as <-. cbn [p_n p_pos p_int p_col].
    assert (Z.to_nat c = 0)%nat as ->.
    { destruct (Z.to_nat c) eqn:E; [reflexivity|]. destruct ls; simpl in Eu; [simpl in El; lia|discriminate]. }
    reflexivity.
  - destruct (forallb (line_okb (length l0)) (l0 :: used')) eqn:Ef; [|discriminate].
    intros H. injection H as <-. cbn [p_n p_pos p_int p_col].
    rewrite Nat.eqb_refl. cbn [andb].
    assert (Hn : (Z.to_nat c =? 0)%nat = false).
    { destruct (Z.to_nat c); [simpl in Eu; discriminate|reflexivity]. }
    rewrite Hn. rewrite z3list_eqb_refl.
    assert (H3 : forallb (fun l => (3 <=? length l)%nat) (l0 :: used') = true).
    { eapply forallb_weaken; [|exact Ef]. intros x Hx. unfold line_okb in Hx. lia. }
    rewrite H3. cbn [andb].
    destruct (3 <? length l0)%nat eqn:E4.
    + rewrite zlist_eqb_refl.
      assert (H4 : forallb (fun l => (4 <=? length l)%nat) (l0 :: used') = true).
      { eapply forallb_weaken; [|exact Ef]. intros x Hx. unfold line_okb in Hx. lia. }
      rewrite H4. cbn [andb]. destruct (6 <? length l0)%nat eqn:E7; [|reflexivity].
      rewrite z3list_eqb_refl.
      assert (H7 : forallb (fun l => (7 <=? length l)%nat) (l0 :: used') = true).
      { eapply forallb_weaken; [|exact Ef]. intros x Hx. unfold line_okb in Hx. lia. }
      rewrite H7. reflexivity.
    + replace (6 <? length l0)%nat with false by lia. reflexivity.
Qed.

(* A valid file: [n] lines, all with the same number [w] >= 3 of fields. *)
Definition pts_valid (n w : nat) (ls : list line) : Prop :=
  @length line ls = n /\ (3 <= w)%nat /\ Forall (fun l => length l = w) ls.

Lemma pts_prefix_length (ls : list line) j m : (j <= length ls)%nat ->
  length (pts_prefix ls j m) = (j + (if (m =? 0)%nat then 0 else 1))%nat.
Proof.
  intros H. unfold pts_prefix. rewrite app_length, firstn_length.
  destruct m; simpl; lia.
Qed.

Lemma pts_read_bad_line n (ls : list line) l :
  In l (firstn n ls) -> line_okb (length (hd [] ls)) l = false ->
  pts_read (Some (Z.of_nat n)) ls = None.
Proof.
  intros Hin Hbad. unfold pts_read. replace (Z.of_nat n <? 0)%Z with false by lia. rewrite Nat2Z.id. cbv zeta.
  destruct (Nat.ltb _ n); [reflexivity|].
  destruct (firstn n ls) as [|l0 used'] eqn:Eu; [destruct Hin|].
  assert (Hhd : hd [] ls = l0).
  { destruct ls as [|x ls']; [destruct n; discriminate|]. destruct n; [discriminate|]. simpl in Eu. simpl. congruence. }
  rewrite Hhd in Hbad.
  destruct (forallb (line_okb (length l0)) (l0 :: used')) eqn:Ef; [|reflexivity].
  rewrite forallb_forall in Ef. rewrite (Ef l Hin) in Hbad. discriminate.
Qed.

(* Every token-boundary strict prefix of a valid file is rejected, except that a one-point file cut
   after at least three fields of its only line is itself a valid (shorter) one-point file. *)
Theorem pts_prefix_rejected n w (ls : list line) j m :
  pts_valid n w ls -> (j < n)%nat -> (m < w)%nat ->
  pts_read (Some (Z.of_nat n)) (pts_prefix ls j m) = None \/
  (n = 1%nat /\ j = 0%nat /\ (3 <= m)%nat).
Proof.
  intros (Hlen & Hw & Hall) Hj Hm.
  destruct (Nat.eq_dec n 1) as [->|Hn1].
  - destruct (le_lt_dec 3 m) as [H3|H3]; [right; repeat split; lia|]. left.
    assert (j = 0)%nat as -> by lia.
    destruct m as [|m'].
    + unfold pts_prefix. cbn [firstn app]. reflexivity.
    + apply (pts_read_bad_line 1 _ (firstn (S m') (nth 0 ls []))).
      * unfold pts_prefix. cbn [firstn app]. left. reflexivity.
      * unfold line_okb. rewrite firstn_length. lia.
  - left.
    destruct (Nat.ltb (@length line (pts_prefix ls j m)) n) eqn:El.
    + unfold pts_read. replace (Z.of_nat n <? 0)%Z with false by lia. rewrite Nat2Z.id. cbv zeta. rewrite El. reflexivity.
    + rewrite pts_prefix_length in El by lia.
      assert (Hjm : (j = n - 1)%nat /\ m <> 0%nat).
      { destruct (m =? 0)%nat eqn:Em; lia. }
      destruct Hjm as [-> Hm0].
      destruct m as [|m']; [congruence|].
      apply (pts_read_bad_line n _ (firstn (S m') (nth (n - 1) ls []))).
      * assert (Hlp : (@length line (pts_prefix ls (n - 1) (S m')) <= n)%nat).
        { rewrite (pts_prefix_length ls (n - 1) (S m')) by lia. simpl. lia. }
        rewrite (firstn_all2 _ Hlp).
        unfold pts_prefix. apply in_or_app. right. left. reflexivity.
      * (* the first line of the prefix is the complete first line of the file: w fields *)
        assert (Hhd : length (hd [] (pts_prefix ls (n - 1) (S m'))) = w).
        { destruct ls as [|l0 ls']; [simpl in Hlen; lia|].
          unfold pts_prefix. destruct n as [|[|n'']]; try lia.
          replace (S (S n'') - 1)%nat with (S n'') by lia. cbn [firstn app hd].
          inversion Hall; subst; reflexivity. }
        rewrite Hhd. unfold line_okb. rewrite firstn_length. lia.
Qed.

(* Non-vacuity + the accepted one-point case really is placeholder-free *)
Example pts_example :
  pts_valid 2 7 [[1;2;3;9;9;9;9]; [4;5;6;8;8;8;8]]%Z /\
  pts_read (Some 2%Z) (pts_prefix [[1;2;3;9;9;9;9]; [4;5;6;8;8;8;8]]%Z 1 2) = None /\
  pts_read (Some 1%Z) (pts_prefix [[4;5;6;128;255;0;0]]%Z 0 4)
    = Some {| p_n := 1; p_pos := [(4,5,6)%Z]; p_int := Some [128%Z]; p_col := None |}.
Proof. unfold pts_valid. repeat split; try reflexivity; try lia. repeat constructor. Qed.
