(* C15: proofs about the .splat codec model (Formats/Splat.v). *)
From PF Require Import Base.Bytes Base.BytesProofs Formats.Splat.
From Coq Require Import QArith Qround Qabs Lqa.
From Coq Require Import ZifyN ZifyNat ZifyBool.
Ltac Zify.zify_post_hook ::= Z.div_mod_to_equations.
Open Scope N_scope.

(* ------------------------------------------------------------------ *)
(* size law                                                            *)
(* ------------------------------------------------------------------ *)
Lemma enc_w3_length v : length (enc_w3 v) = 12%nat.
Proof. destruct v as [[x y] z]. reflexivity. Qed.
Lemma enc_b4_length v : length (enc_b4 v) = 4%nat.
Proof. destruct v as [[[a b] c] d]. reflexivity. Qed.
Lemma enc_raw_length r : length (enc_raw r) = 32%nat.
Proof. unfold enc_raw. rewrite !app_length, !enc_w3_length, !enc_b4_length. reflexivity. Qed.

Lemma write_raw_length rs : length (write_raw rs) = (32 * length rs)%nat.
Proof.
  unfold write_raw. induction rs as [|r rs IH]; [reflexivity|].
  cbn [flat_map length]. rewrite app_length, enc_raw_length, IH. lia.
Qed.

Theorem write_length cloud : length (write cloud) = (32 * length cloud)%nat.
Proof. unfold write. rewrite write_raw_length, map_length. reflexivity. Qed.

Theorem write_pinned_length cloud : length (write_pinned cloud) = (32 * length cloud)%nat.
Proof. unfold write_pinned. rewrite write_raw_length, map_length. reflexivity. Qed.

(* ------------------------------------------------------------------ *)
(* reader after writer, on raw records                                 *)
(* ------------------------------------------------------------------ *)
Lemma get32_le32 w r : word32 w -> get32 (le32 w ++ r) = Some (w, r).
Proof.
  intros H. unfold get32. change 4%nat with (length (le32 w)). rewrite take_app. cbn [bind].
  rewrite de_le32_le32 by assumption. reflexivity.
Qed.

Lemma get_w3_enc v r : w3_ok v -> get_w3 (enc_w3 v ++ r) = Some (v, r).
Proof.
  destruct v as [[x y] z]. intros (Hx & Hy & Hz). unfold get_w3, enc_w3. rewrite <- !app_assoc.
  rewrite get32_le32 by assumption. cbn [bind].
  rewrite get32_le32 by assumption. cbn [bind].
  rewrite get32_le32 by assumption. reflexivity.
Qed.

Lemma get_b4_enc v r : get_b4 (enc_b4 v ++ r) = Some (v, r).
Proof. destruct v as [[[a b] c] d]. reflexivity. Qed.

Lemma get_raw_enc x r : raw_ok x -> get_raw (enc_raw x ++ r) = Some (x, r).
Proof.
  intros (Hp & Hs & _ & _). unfold get_raw, enc_raw. rewrite <- !app_assoc.
  rewrite get_w3_enc by assumption. cbn [bind].
  rewrite get_w3_enc by assumption. cbn [bind].
  rewrite get_b4_enc. cbn [bind]. rewrite get_b4_enc. cbn [bind]. destruct x; reflexivity.
Qed.

Lemma enc_raw_app_not_nil x r : enc_raw x ++ r <> [].
Proof.
  intros E. apply (f_equal (@length N)) in E. rewrite app_length, enc_raw_length in E. discriminate.
Qed.

Lemma read_raw_step f x r : raw_ok x ->
  read_raw (S f) (enc_raw x ++ r) = (x :: fst (read_raw f r), snd (read_raw f r)).
Proof.
  intros Hx. cbn [read_raw]. destruct (enc_raw x ++ r) as [|b l] eqn:E.
  - exfalso. exact (enc_raw_app_not_nil _ _ E).
  - rewrite <- E. rewrite get_raw_enc by assumption. destruct (read_raw f r); reflexivity.
Qed.

Lemma read_raw_nil f : read_raw f [] = ([], true).
Proof. destruct f; reflexivity. Qed.

Lemma read_raw_write rs : forall fuel, Forall raw_ok rs -> (length rs <= fuel)%nat ->
  read_raw fuel (write_raw rs) = (rs, true).
Proof.
  unfold write_raw. induction rs as [|x rs IH]; intros fuel Hok Hf.
  - apply read_raw_nil.
  - destruct fuel as [|f]; [simpl in Hf; lia|]. cbn [flat_map].
    inversion Hok as [|? ? Hx Hrs]; subst.
    rewrite read_raw_step by assumption. rewrite IH by (try assumption; simpl in Hf; lia). reflexivity.
Qed.

(* 1..31 bytes after the last complete record: io.ErrUnexpectedEOF, the splats read so far are
   still returned *)
Lemma take_short {A} n (l : list A) : (length l < n)%nat -> take n l = None.
Proof. intros H. apply take_none. exact H. Qed.

Lemma get32_short l : (length l < 4)%nat -> get32 l = None.
Proof. intros H. unfold get32. rewrite take_short by assumption. reflexivity. Qed.

Lemma get32_length l w r : get32 l = Some (w, r) -> length l = (4 + length r)%nat.
Proof.
  unfold get32. destruct (take 4 l) as [[a r']|] eqn:E; cbn [bind]; [|discriminate].
  destruct (de_le32 a); cbn [bind]; [|discriminate]. intros H.
  assert (r' = r) as -> by congruence. apply take_spec in E. destruct E as [-> Hl].
  rewrite app_length. lia.
Qed.

Lemma get_w3_length l v r : get_w3 l = Some (v, r) -> length l = (12 + length r)%nat.
Proof.
  unfold get_w3.
  destruct (get32 l) as [[x r1]|] eqn:E1; cbn [bind]; [|discriminate].
  destruct (get32 r1) as [[y r2]|] eqn:E2; cbn [bind]; [|discriminate].
  destruct (get32 r2) as [[z r3]|] eqn:E3; cbn [bind]; [|discriminate].
  intros H. assert (r3 = r) as -> by congruence.
  apply get32_length in E1, E2, E3. lia.
Qed.

Lemma get_b4_length l v r : get_b4 l = Some (v, r) -> length l = (4 + length r)%nat.
Proof.
  unfold get_b4. destruct l as [|a [|b [|c [|d l]]]]; try discriminate.
  intros H. assert (l = r) as -> by congruence. reflexivity.
Qed.

Lemma get_raw_length l x r : get_raw l = Some (x, r) -> length l = (32 + length r)%nat.
Proof.
  unfold get_raw.
  destruct (get_w3 l) as [[p r1]|] eqn:E1; cbn [bind]; [|discriminate].
  destruct (get_w3 r1) as [[s r2]|] eqn:E2; cbn [bind]; [|discriminate].
  destruct (get_b4 r2) as [[c r3]|] eqn:E3; cbn [bind]; [|discriminate].
  destruct (get_b4 r3) as [[q r4]|] eqn:E4; cbn [bind]; [|discriminate].
  intros H. assert (r4 = r) as -> by congruence.
  apply get_w3_length in E1, E2. apply get_b4_length in E3, E4. lia.
Qed.

Lemma read_raw_partial rs extra : forall fuel, Forall raw_ok rs -> (length rs < fuel)%nat ->
  extra <> [] -> (length extra < 32)%nat ->
  read_raw fuel (write_raw rs ++ extra) = (rs, false).
Proof.
  unfold write_raw. induction rs as [|x rs IH]; intros fuel Hok Hf Hne Hlt.
  - cbn [flat_map app]. destruct fuel as [|f]; [simpl in Hf; lia|].
    destruct extra as [|b l]; [congruence|]. cbn [read_raw].
    destruct (get_raw (b :: l)) as [[y r]|] eqn:E; [|reflexivity].
    apply get_raw_length in E. lia.
  - destruct fuel as [|f]; [simpl in Hf; lia|]. cbn [flat_map]. rewrite <- app_assoc.
    inversion Hok as [|? ? Hx Hrs]; subst.
    rewrite read_raw_step by assumption. rewrite IH by (try assumption; simpl in Hf; lia). reflexivity.
Qed.

(* ------------------------------------------------------------------ *)
(* the quantisers: ranges                                              *)
(* ------------------------------------------------------------------ *)
Open Scope Q_scope.

Lemma qmin_cases a b : (qmin a b = a /\ a <= b) \/ (qmin a b = b /\ b < a).
Proof.
  unfold qmin. destruct (Qle_bool a b) eqn:E.
  - left. split; [reflexivity|]. apply Qle_bool_iff; exact E.
  - right. split; [reflexivity|]. apply Qnot_le_lt. intro H. apply Qle_bool_iff in H. congruence.
Qed.
Lemma qmax_cases a b : (qmax a b = b /\ a <= b) \/ (qmax a b = a /\ b < a).
Proof.
  unfold qmax. destruct (Qle_bool a b) eqn:E.
  - left. split; [reflexivity|]. apply Qle_bool_iff; exact E.
  - right. split; [reflexivity|]. apply Qnot_le_lt. intro H. apply Qle_bool_iff in H. congruence.
Qed.

(* clamp v lo hi, lo <= hi:  the three cases *)
Lemma clamp_cases v lo hi : lo <= hi ->
  (clamp v lo hi == lo /\ v <= lo) \/ (clamp v lo hi == hi /\ hi <= v) \/ (clamp v lo hi == v /\ lo <= v <= hi).
Proof.
  intros Hlh. unfold clamp.
  destruct (qmin_cases v hi) as [[-> H1]|[-> H1]].
  - destruct (qmax_cases v lo) as [[-> H2]|[-> H2]].
    + left. split; [reflexivity|lra].
    + right; right. split; [reflexivity|lra].
  - destruct (qmax_cases hi lo) as [[-> H2]|[-> H2]].
    + right; left. split; lra.
    + right; left. split; [reflexivity|lra].
Qed.

Lemma clamp_range v lo hi : lo <= hi -> lo <= clamp v lo hi <= hi.
Proof.
  intros H. destruct (clamp_cases v lo hi H) as [[E ?]|[[E ?]|[E ?]]]; lra.
Qed.

Lemma Qfloor_range x (a b : Z) : inject_Z a <= x -> x <= inject_Z b -> (a <= Qfloor x <= b)%Z.
Proof.
  intros Ha Hb. split.
  - rewrite <- (Qfloor_Z a). apply Qfloor_resp_le. exact Ha.
  - rewrite <- (Qfloor_Z b). apply Qfloor_resp_le. exact Hb.
Qed.

Lemma qcol_of_range v : (0 <= qcol_of v <= 255)%Z.
Proof.
  unfold qcol_of. pose proof (clamp_range v 0 1 ltac:(lra)) as H.
  apply Qfloor_range; change (inject_Z 0) with 0; change (inject_Z 255) with 255; lra.
Qed.
Lemma qcol_range c : (0 <= qcol c <= 255)%Z.
Proof. apply qcol_of_range. Qed.
Lemma qalpha_range a : 0 <= a <= 1 -> (0 <= qalpha a <= 255)%Z.
Proof.
  intros H. unfold qalpha.
  apply Qfloor_range; change (inject_Z 0) with 0; change (inject_Z 255) with 255; lra.
Qed.
Lemma qrot_of_range v : (0 <= qrot_of v <= 255)%Z.
Proof.
  unfold qrot_of. pose proof (clamp_range v 0 255 ltac:(lra)) as H.
  apply Qfloor_range; change (inject_Z 0) with 0; change (inject_Z 255) with 255; lra.
Qed.
Lemma qrot_range r : (0 <= qrot r <= 255)%Z.
Proof. apply qrot_of_range. Qed.

Lemma zb_byte z : (0 <= z <= 255)%Z -> is_byte (zb z).
Proof. unfold is_byte, zb. lia. Qed.
Lemma zb_id z : (0 <= z)%Z -> Z.of_N (zb z) = z.
Proof. unfold zb. lia. Qed.

Lemma quantise_ok s : splat_ok s -> raw_ok (quantise s).
Proof.
  intros (Hp & Hs & Ha). unfold quantise, quantise_with.
  destruct (sp_col s) as [[cr cg] cb]. destruct (sp_rot s) as [[[rx ry] rz] rw].
  unfold raw_ok. cbn [r_pos r_scale r_cb r_rb]. split; [assumption|]. split; [assumption|].
  unfold b4_ok. repeat split; apply zb_byte;
    first [apply qcol_range | apply qrot_range | apply qalpha_range; assumption].
Qed.

(* ------------------------------------------------------------------ *)
(* the quantisers: one 8-bit step                                      *)
(* ------------------------------------------------------------------ *)
(* floor: 0 <= x - floor x < 1 *)
Lemma floor_frac x : 0 <= x - inject_Z (Qfloor x) /\ x - inject_Z (Qfloor x) < 1.
Proof.
  pose proof (Qfloor_le x). pose proof (Qlt_floor x) as H2. rewrite inject_Z_plus in H2.
  change (inject_Z 1) with 1 in H2. split; lra.
Qed.

Lemma inject_zb z : (0 <= z)%Z -> (Z.of_N (zb z) # 1) = inject_Z z.
Proof. intros H. rewrite zb_id by assumption. reflexivity. Qed.

(* colour byte -> value in the displayable [0,1] domain *)
Definition col_disp (b : N) : Q := (Z.of_N b # 1) / 255.

Lemma deq_col_disp b : deq_col b * SH_C0 + (1 # 2) == col_disp b.
Proof. unfold deq_col, col_disp, SH_C0. field. Qed.

(* the stored colour byte is the clamped colour rounded DOWN to a multiple of 1/255 *)
Lemma col_step v : 0 <= clamp v 0 1 - col_disp (zb (qcol_of v)) /\ clamp v 0 1 - col_disp (zb (qcol_of v)) < 1 # 255.
Proof.
  unfold col_disp. rewrite inject_zb by apply qcol_of_range. unfold qcol_of.
  destruct (floor_frac (clamp v 0 1 * 255)) as [H1 H2].
  set (y := inject_Z (Qfloor (clamp v 0 1 * 255))) in *.
  assert (E : y / 255 == y * (1 # 255)) by field. rewrite E. split; lra.
Qed.

Theorem col_quant_bound c :
  Qabs (deq_col (zb (qcol c)) * SH_C0 + (1 # 2) - clamp (col_pre c) 0 1) <= 1 # 255.
Proof.
  rewrite deq_col_disp. unfold qcol. destruct (col_step (col_pre c)) as [H1 H2].
  apply Qabs_Qle_condition. split; lra.
Qed.

(* the same bound in the FDC domain: the displayable FDC range is [-(1/2)/SH_C0, (1/2)/SH_C0] *)
Definition fdc_lo : Q := - ((1 # 2) / SH_C0).
Definition fdc_hi : Q := (1 # 2) / SH_C0.
Definition fdc_step : Q := (1 # 255) / SH_C0.

Lemma SH_C0_pos : 0 < SH_C0.
Proof. reflexivity. Qed.

Lemma clamp_col_pre c : clamp (col_pre c) 0 1 == col_pre (clamp c fdc_lo fdc_hi).
Proof.
  assert (Hlh : fdc_lo <= fdc_hi) by (vm_compute; discriminate).
  assert (Elo : fdc_lo * SH_C0 + (1 # 2) == 0) by (vm_compute; reflexivity).
  assert (Ehi : fdc_hi * SH_C0 + (1 # 2) == 1) by (vm_compute; reflexivity).
  pose proof SH_C0_pos as Hp.
  assert (Hmono : forall a b, a <= b -> a * SH_C0 + (1 # 2) <= b * SH_C0 + (1 # 2)).
  { intros a b Hab. apply Qplus_le_l. apply Qmult_le_compat_r; [exact Hab|lra]. }
  unfold col_pre.
  destruct (clamp_cases c fdc_lo fdc_hi Hlh) as [[E H]|[[E H]|[E [Ha Hb]]]]; rewrite E.
  - apply Hmono in H.
    destruct (clamp_cases (c * SH_C0 + (1 # 2)) 0 1 ltac:(lra)) as [[E' ?]|[[E' ?]|[E' ?]]]; lra.
  - apply Hmono in H.
    destruct (clamp_cases (c * SH_C0 + (1 # 2)) 0 1 ltac:(lra)) as [[E' ?]|[[E' ?]|[E' ?]]]; lra.
  - apply Hmono in Ha, Hb.
    destruct (clamp_cases (c * SH_C0 + (1 # 2)) 0 1 ltac:(lra)) as [[E' ?]|[[E' ?]|[E' ?]]]; lra.
Qed.

Theorem col_quant_bound_fdc c :
  Qabs (deq_col (zb (qcol c)) - clamp c fdc_lo fdc_hi) <= fdc_step.
Proof.
  pose proof (col_quant_bound c) as H. rewrite clamp_col_pre in H.
  set (d := deq_col (zb (qcol c))) in *. set (k := clamp c fdc_lo fdc_hi) in *.
  unfold col_pre in H.
  assert (E : d * SH_C0 + (1 # 2) - (k * SH_C0 + (1 # 2)) == (d - k) * SH_C0) by ring.
  rewrite E in H. rewrite Qabs_Qmult in H. pose proof SH_C0_pos as Hp.
  rewrite (Qabs_pos SH_C0) in H by lra.
  unfold fdc_step. apply Qle_shift_div_l; assumption.
Qed.

Theorem alpha_quant_bound a : 0 <= a <= 1 -> Qabs (deq_alpha (zb (qalpha a)) - a) <= 1 # 255.
Proof.
  intros Ha. unfold deq_alpha. rewrite inject_zb by (apply qalpha_range; assumption). unfold qalpha.
  destruct (floor_frac (a * 255)) as [H1 H2].
  set (y := inject_Z (Qfloor (a * 255))) in *.
  assert (E : y / 255 == y * (1 # 255)) by field. rewrite E.
  apply Qabs_Qle_condition. split; lra.
Qed.

(* rotation: floor (clamp (128 r + 128) 0 255) read back as (b - 128)/128 *)
Lemma rot_step v : 0 <= clamp v 0 255 - inject_Z (qrot_of v) /\ clamp v 0 255 - inject_Z (qrot_of v) < 1.
Proof. unfold qrot_of. apply floor_frac. Qed.

Lemma qrot_of_top v : 255 <= v -> qrot_of v = 255%Z.
Proof.
  intros H. unfold qrot_of.
  destruct (clamp_cases v 0 255 ltac:(lra)) as [[E ?]|[[E ?]|[E ?]]];
    try (assert (E' : clamp v 0 255 == inject_Z 255) by (change (inject_Z 255) with 255; lra);
         rewrite E'; apply Qfloor_Z).
Qed.

Theorem rot_quant_bound r : Qabs (deq_rot (zb (qrot r)) - clamp r (-1) 1) <= 1 # 128.
Proof.
  unfold deq_rot. rewrite inject_zb by apply qrot_range. unfold qrot.
  destruct (rot_step (rot_pre r)) as [H1 H2].
  pose proof (qrot_of_top (rot_pre r)) as Htop.
  set (y := inject_Z (qrot_of (rot_pre r))) in *.
  assert (E : (y - 128) / 128 == (y - 128) * (1 # 128)) by field. rewrite E.
  unfold rot_pre in *.
  apply Qabs_Qle_condition.
  destruct (clamp_cases (r * 128 + 128) 0 255 ltac:(lra)) as [[Ec ?]|[[Ec Hc]|[Ec ?]]];
  [| assert (Hy : y == 255) by (unfold y; rewrite (Htop Hc); reflexivity) |];
  destruct (clamp_cases r (-1) 1 ltac:(lra)) as [[Ed ?]|[[Ed ?]|[Ed ?]]]; split; lra.
Qed.

(* sharper: inside the representable range [-1, 127/128] the error is below one step and one-sided *)
Theorem rot_quant_floor r : -1 <= r <= 127 # 128 ->
  0 <= r - deq_rot (zb (qrot r)) /\ r - deq_rot (zb (qrot r)) < 1 # 128.
Proof.
  intros Hr. unfold deq_rot. rewrite inject_zb by apply qrot_range. unfold qrot.
  destruct (rot_step (rot_pre r)) as [H1 H2]. set (y := inject_Z (qrot_of (rot_pre r))) in *.
  assert (E : (y - 128) / 128 == (y - 128) * (1 # 128)) by field. rewrite E.
  unfold rot_pre in *.
  destruct (clamp_cases (r * 128 + 128) 0 255 ltac:(lra)) as [[Ec ?]|[[Ec ?]|[Ec ?]]];
  split; lra.
Qed.

(* the pinned writer (no clamp, byte() wraps): a rotation component of exactly 1 -- the w of the
   identity rotation -- is stored as 0 and read back as -1 *)
Theorem rot_wrap_pinned :
  qrot_pinned 1 = 0%Z /\ deq_rot (zb (qrot_pinned 1)) == -1 /\
  ~ Qabs (deq_rot (zb (qrot_pinned 1)) - clamp 1 (-1) 1) <= 1 # 128.
Proof.
  split; [reflexivity|]. split; [reflexivity|]. vm_compute. intros H. apply H. reflexivity.
Qed.

(* ------------------------------------------------------------------ *)
(* round trip                                                          *)
(* ------------------------------------------------------------------ *)
Definition col_within (c d : Q) : Prop := Qabs (d * SH_C0 + (1 # 2) - clamp (col_pre c) 0 1) <= 1 # 255.
Definition rot_within (r d : Q) : Prop := Qabs (d - clamp r (-1) 1) <= 1 # 128.

(* what "within one 8-bit step of the original" means for one splat *)
Definition within_step (s : splat) (o : rsplat) : Prop :=
  o_pos o = sp_pos s /\ o_scale o = sp_scale s /\
  (let '(c0, c1, c2) := sp_col s in let '(d0, d1, d2) := o_col o in
   col_within c0 d0 /\ col_within c1 d1 /\ col_within c2 d2) /\
  Qabs (o_alpha o - sp_alpha s) <= 1 # 255 /\
  (let '(r0, r1, r2, r3) := sp_rot s in let '(e0, e1, e2, e3) := o_rot o in
   rot_within r0 e0 /\ rot_within r1 e1 /\ rot_within r2 e2 /\ rot_within r3 e3).

Lemma dequantise_quantise s : splat_ok s -> within_step s (dequantise (quantise s)).
Proof.
  intros (Hp & Hs & Ha). unfold within_step, dequantise, quantise, quantise_with.
  destruct (sp_col s) as [[c0 c1] c2]. destruct (sp_rot s) as [[[r0 r1] r2] r3].
  cbn [r_pos r_scale r_cb r_rb o_pos o_scale o_col o_alpha o_rot].
  split; [reflexivity|]. split; [reflexivity|].
  split; [repeat split; apply col_quant_bound|].
  split; [apply alpha_quant_bound; assumption|].
  repeat split; apply rot_quant_bound.
Qed.

Close Scope Q_scope.

Theorem read_write cloud : Forall splat_ok cloud ->
  read (write cloud) = (map (fun s => dequantise (quantise s)) cloud, true).
Proof.
  intros Hok. unfold read, write. rewrite read_raw_write.
  - rewrite map_map. reflexivity.
  - rewrite Forall_map. eapply Forall_impl; [|exact Hok]. apply quantise_ok.
  - rewrite write_raw_length, map_length. lia.
Qed.

Theorem roundtrip_quant cloud : Forall splat_ok cloud ->
  exists cloud', read (write cloud) = (cloud', true) /\ length cloud' = length cloud
                 /\ Forall2 within_step cloud cloud'.
Proof.
  intros Hok. exists (map (fun s => dequantise (quantise s)) cloud).
  split; [apply read_write; assumption|]. split; [apply map_length|].
  induction Hok as [|s l Hs Hl IH]; [constructor|].
  cbn [map]. constructor; [apply dequantise_quantise; assumption|exact IH].
Qed.

(* a file cut inside a record (or followed by 1..31 stray bytes): the error flag is raised and the
   complete records before it are still returned *)
Theorem read_write_partial cloud extra : Forall splat_ok cloud -> extra <> [] -> (length extra < 32)%nat ->
  read (write cloud ++ extra) = (map (fun s => dequantise (quantise s)) cloud, false).
Proof.
  intros Hok Hne Hlt. unfold read, write. rewrite read_raw_partial; try assumption.
  - rewrite map_map. reflexivity.
  - rewrite Forall_map. eapply Forall_impl; [|exact Hok]. apply quantise_ok.
  - rewrite app_length, write_raw_length, map_length. destruct extra; [congruence|]. simpl. lia.
Qed.

(* ------------------------------------------------------------------ *)
(* reader on arbitrary bytes: floor(len/32) records, flag = (len mod 32 = 0)  *)
(* ------------------------------------------------------------------ *)
Lemma get32_total l : (4 <= length l)%nat -> exists w r, get32 l = Some (w, r).
Proof.
  intros H. destruct l as [|a [|b [|c [|d l]]]]; simpl in H; try lia.
  eexists. eexists. reflexivity.
Qed.

Lemma get_raw_total l : (32 <= length l)%nat -> exists x r, get_raw l = Some (x, r).
Proof.
  intros H. unfold get_raw, get_w3.
  destruct (get32_total l ltac:(lia)) as (w1 & r1 & E1). rewrite E1. cbn [bind]. apply get32_length in E1.
  destruct (get32_total r1 ltac:(lia)) as (w2 & r2 & E2). rewrite E2. cbn [bind]. apply get32_length in E2.
  destruct (get32_total r2 ltac:(lia)) as (w3 & r3 & E3). rewrite E3. cbn [bind]. apply get32_length in E3.
  destruct (get32_total r3 ltac:(lia)) as (w4 & r4 & E4). rewrite E4. cbn [bind]. apply get32_length in E4.
  destruct (get32_total r4 ltac:(lia)) as (w5 & r5 & E5). rewrite E5. cbn [bind]. apply get32_length in E5.
  destruct (get32_total r5 ltac:(lia)) as (w6 & r6 & E6). rewrite E6. cbn [bind]. apply get32_length in E6.
  destruct r6 as [|a1 [|a2 [|a3 [|a4 [|a5 [|a6 [|a7 [|a8 r7]]]]]]]]; simpl in E6; try lia.
  eexists. eexists. reflexivity.
Qed.

Lemma read_raw_count fuel : forall l, (length l <= fuel)%nat ->
  length (fst (read_raw fuel l)) = (length l / 32)%nat /\
  snd (read_raw fuel l) = Nat.eqb (length l mod 32) 0.
Proof.
  induction fuel as [|f IH]; intros l Hf.
  - destruct l; [split; reflexivity|simpl in Hf; lia].
  - destruct l as [|b l']; [split; reflexivity|]. set (l := b :: l') in *. cbn [read_raw].
    change (match l with [] => ([], true) | _ :: _ =>
              match get_raw l with None => ([], false)
              | Some (r, rest) => let '(rs, ok) := read_raw f rest in (r :: rs, ok) end end)
      with (match get_raw l with None => ([], false)
              | Some (r, rest) => let '(rs, ok) := read_raw f rest in (r :: rs, ok) end).
    destruct (get_raw l) as [[x r]|] eqn:E.
    + apply get_raw_length in E. destruct (IH r ltac:(lia)) as [H1 H2].
      destruct (read_raw f r) as [rs ok]. cbn [fst snd] in *. cbn [length]. rewrite H1, H2, E.
      replace (32 + length r)%nat with (length r + 1 * 32)%nat by lia.
      rewrite Nat.div_add, Nat.mod_add by lia. split; [lia|reflexivity].
    + cbn [fst snd length].
      assert (Hl : (length l < 32)%nat).
      { destruct (Nat.lt_ge_cases (length l) 32) as [Hlt|Hge]; [exact Hlt|].
        destruct (get_raw_total l Hge) as (x & r & E'). congruence. }
      rewrite Nat.div_small, Nat.mod_small by assumption. split; [reflexivity|].
      subst l. simpl length. reflexivity.
Qed.

Theorem read_count l :
  length (fst (read l)) = (length l / 32)%nat /\ snd (read l) = Nat.eqb (length l mod 32) 0.
Proof.
  unfold read. destruct (read_raw_count (length l) l (le_n _)) as [H1 H2].
  destruct (read_raw (length l) l) as [rs ok]. cbn [fst snd] in *. rewrite map_length. auto.
Qed.

(* ------------------------------------------------------------------ *)
(* scale: the writer stores float32(exp s), the reader returns log of the stored float32.       *)
(* exp/log and the float32 rounding are not rational: abstract operations with the one          *)
(* hypothesis needed (Formats/SplatReal.v instantiates them with the real exp/ln).              *)
(* ------------------------------------------------------------------ *)
Section Scale.
  Variable R : Type.
  Variable exp32 : R -> N.          (* Float32bits(float32(math.Exp x)) *)
  Variable log32 : N -> R.          (* math.Log(float64(Float32frombits w)) *)
  Variable close : R -> R -> Prop.  (* "equal up to float32 rounding of exp/log" *)
  Hypothesis exp32_word : forall x, word32 (exp32 x).
  Hypothesis log_exp : forall x, close (log32 (exp32 x)) x.

  Definition r3 := (R * R * R)%type.
  Definition exp3 (v : r3) : w3 := let '(x, y, z) := v in (exp32 x, exp32 y, exp32 z).
  Definition log3 (v : w3) : r3 := let '(x, y, z) := v in (log32 x, log32 y, log32 z).
  Definition close3 (a b : r3) : Prop :=
    let '(x, y, z) := a in let '(x', y', z') := b in close x x' /\ close y y' /\ close z z'.

  (* a splat with its log-scale; [usplat_to] performs the writer's exp *)
  Definition usplat := (r3 * splat)%type.
  Definition usplat_to (u : usplat) : splat :=
    let '(sc, s) := u in
    {| sp_pos := sp_pos s; sp_scale := exp3 sc; sp_col := sp_col s; sp_alpha := sp_alpha s; sp_rot := sp_rot s |}.
  Definition usplat_ok (u : usplat) : Prop := w3_ok (sp_pos (snd u)) /\ (0 <= sp_alpha (snd u) <= 1)%Q.

  Lemma usplat_to_ok u : usplat_ok u -> splat_ok (usplat_to u).
  Proof.
    destruct u as [[[x y] z] s]. intros [Hp Ha]. unfold splat_ok, usplat_to, exp3.
    cbn [sp_pos sp_scale sp_alpha snd] in *. repeat split; try apply exp32_word; tauto.
  Qed.

  Theorem scale_roundtrip cloud : Forall usplat_ok cloud ->
    exists cloud', read (write (map usplat_to cloud)) = (cloud', true) /\
      Forall2 (fun u o => close3 (log3 (o_scale o)) (fst u) /\ within_step (usplat_to u) o) cloud cloud'.
  Proof.
    intros Hok. eexists. split.
    - apply read_write. rewrite Forall_map. eapply Forall_impl; [|exact Hok]. apply usplat_to_ok.
    - rewrite map_map. induction Hok as [|u l Hu Hl IH]; [constructor|]. cbn [map]. constructor; [|exact IH].
      split; [|apply dequantise_quantise, usplat_to_ok; assumption].
      destruct u as [[[x y] z] s]. unfold dequantise, quantise, quantise_with, usplat_to.
      cbn [sp_col sp_rot sp_scale sp_pos sp_alpha].
      destruct (sp_col s) as [[c0 c1] c2]. destruct (sp_rot s) as [[[q0 q1] q2] q3].
      cbn [r_cb r_rb r_scale o_scale fst exp3 log3 close3]. auto.
  Qed.
End Scale.

(* ------------------------------------------------------------------ *)
(* SplatPly: the writer's property table against the default reader's table                      *)
(* ------------------------------------------------------------------ *)
From Coq Require String.
Notation string := String.string.

Definition all_attrs : list string := map (fun '(a, _, _) => a) splatply_table.
Definition kind_arity (k : akind) : nat := match k with K1 => 1 | K3 => 3 | K4 => 4 end.

Fixpoint nodupb (l : list string) : bool :=
  match l with [] => true | x :: r => negb (existsb (String.eqb x) r) && nodupb r end.
Lemma nodupb_NoDup l : nodupb l = true -> NoDup l.
Proof.
  induction l as [|x r IH]; [constructor|]. cbn [nodupb]. intros H. apply andb_prop in H. destruct H as [H1 H2].
  constructor; [|apply IH; exact H2]. intros Hin. apply negb_true_iff in H1.
  assert (existsb (String.eqb x) r = true) by (apply existsb_exists; exists x; split; [exact Hin|apply String.eqb_refl]).
  congruence.
Qed.

(* every writer entry: as many PLY names as the attribute has components, and the default reader
   maps the j-th name back to (the same attribute, component j) *)
Definition entry_back_ok (e : wentry) : bool :=
  let '(a, k, ps) := e in
  Nat.eqb (length ps) (kind_arity k) &&
  forallb (fun '(j, p) => let '(a', j') := reader_lookup p in String.eqb a a' && Nat.eqb j j')
          (combine (seq 0 (length ps)) ps).

Theorem splatply_table_ok :
  length splatply_table = 51%nat /\
  length (splatply_props all_attrs) = 62%nat /\
  NoDup (splatply_props all_attrs) /\ NoDup all_attrs /\
  forallb entry_back_ok splatply_table = true.
Proof.
  split; [reflexivity|]. split; [vm_compute; reflexivity|].
  split; [apply nodupb_NoDup; vm_compute; reflexivity|].
  split; [apply nodupb_NoDup; vm_compute; reflexivity|]. vm_compute. reflexivity.
Qed.

Lemma combine_seq_nth_error {A} (l : list A) s j p :
  nth_error l j = Some p -> In ((s + j)%nat, p) (combine (seq s (length l)) l).
Proof.
  revert s j. induction l as [|x l IH]; intros s j H; [destruct j; discriminate|].
  destruct j as [|j]; cbn [nth_error] in H.
  - apply some_inj in H. subst. cbn. left. f_equal. lia.
  - cbn [length seq combine]. right. replace (s + S j)%nat with (S s + j)%nat by lia. apply IH. exact H.
Qed.

(* name round trip: attribute a, component j is written under a PLY name that the default reader
   attributes to (a, j) *)
Theorem splatply_names_back a k ps j p :
  In (a, k, ps) splatply_table -> nth_error ps j = Some p -> reader_lookup p = (a, j).
Proof.
  intros Hin Hj. destruct splatply_table_ok as (_ & _ & _ & _ & H).
  rewrite forallb_forall in H. specialize (H _ Hin). cbn [entry_back_ok] in H.
  apply andb_prop in H. destruct H as [_ H]. rewrite forallb_forall in H.
  specialize (H _ (combine_seq_nth_error ps 0 j p Hj)). cbn [Nat.add] in H.
  destruct (reader_lookup p) as [a' j']. apply andb_prop in H. destruct H as [H1 H2].
  apply String.eqb_eq in H1. apply Nat.eqb_eq in H2. congruence.
Qed.

(* subsets of the attributes: the property list is the sub-list of the full one, in table order *)
Lemma NoDup_app_l {A} (a b : list A) : NoDup (a ++ b) -> NoDup a.
Proof. induction a as [|x a IH]; [constructor|]. cbn. intros H. inversion H; subst. constructor; [|auto]. intros Hi. apply H2. apply in_or_app. auto. Qed.
Lemma NoDup_app_r {A} (a b : list A) : NoDup (a ++ b) -> NoDup b.
Proof. induction a as [|x a IH]; [auto|]. cbn. intros H. inversion H; subst. auto. Qed.
Lemma NoDup_app_disj {A} (a b : list A) x : NoDup (a ++ b) -> In x a -> In x b -> False.
Proof.
  induction a as [|y a IH]; [contradiction|]. cbn. intros H [->|Hi] Hb; inversion H; subst.
  - apply H2. apply in_or_app. auto.
  - eauto.
Qed.
Lemma NoDup_app_intro {A} (a b : list A) : NoDup a -> NoDup b -> (forall x, In x a -> In x b -> False) -> NoDup (a ++ b).
Proof.
  induction a as [|y a IH]; [auto|]. cbn. intros Ha Hb Hd. inversion Ha; subst. constructor.
  - intros Hi. apply in_app_or in Hi. destruct Hi; [auto|]. eapply Hd; [left; reflexivity|eassumption].
  - apply IH; auto. intros x Hx. apply Hd. right. exact Hx.
Qed.

Lemma flat_map_filter_sub {A B} (f : A -> list B) (g : A -> bool) l x :
  In x (flat_map (fun e => if g e then f e else []) l) -> In x (flat_map f l).
Proof.
  induction l as [|e l IH]; [auto|]. cbn [flat_map]. intros H. apply in_app_or in H. apply in_or_app.
  destruct H as [H|H]; [left; destruct (g e); [exact H|contradiction]|right; auto].
Qed.

Lemma NoDup_flat_map_filter {A B} (f : A -> list B) (g : A -> bool) l :
  NoDup (flat_map f l) -> NoDup (flat_map (fun e => if g e then f e else []) l).
Proof.
  induction l as [|e l IH]; [auto|]. cbn [flat_map]. intros H.
  pose proof (NoDup_app_l _ _ H) as Ha. pose proof (NoDup_app_r _ _ H) as Hb.
  apply NoDup_app_intro; [destruct (g e); [exact Ha|constructor]|auto|].
  intros x Hx Hy. apply flat_map_filter_sub in Hy. destruct (g e); [|contradiction].
  exact (NoDup_app_disj _ _ x H Hx Hy).
Qed.

Theorem splatply_props_nodup present : NoDup (splatply_props present).
Proof.
  destruct splatply_table_ok as (_ & _ & H & _). unfold splatply_props in *.
  assert (E : forall pr l, flat_map (fun '(a, _, ps) => if has pr a then ps else []) l
              = flat_map (fun e : wentry => if has pr (fst (fst e)) then snd e else []) l).
  { intros pr l. apply flat_map_ext. intros [[a k] ps]. reflexivity. }
  rewrite E.
  apply (NoDup_flat_map_filter (fun e : wentry => snd e) (fun e => has present (fst (fst e)))).
  assert (E2 : flat_map (fun e : wentry => snd e) splatply_table = splatply_props all_attrs).
  { vm_compute. reflexivity. }
  rewrite E2. exact H.
Qed.

(* binary body: 4 bytes per property and vertex *)
Lemma ply_body_length rows k : Forall (fun r => length r = k) rows -> length (ply_body rows) = (4 * k * length rows)%nat.
Proof.
  unfold ply_body. induction 1 as [|r rows Hr Hrows IH]; [simpl; lia|].
  cbn [flat_map length]. rewrite app_length, IH.
  assert (length (flat_map le32 r) = (4 * length r)%nat).
  { clear. induction r as [|w r IH]; [reflexivity|]. cbn [flat_map]. rewrite app_length, le32_length, IH. simpl length. lia. }
  lia.
Qed.

(* ------------------------------------------------------------------ *)
(* mid-step inputs (used by the large synthetic cases of Check/C15.v): an input in the middle of   *)
(* step j is stored as exactly byte j                                                              *)
(* ------------------------------------------------------------------ *)
Open Scope Q_scope.
Lemma Qfloor_unique x z : inject_Z z <= x -> x < inject_Z (z + 1) -> Qfloor x = z.
Proof.
  intros H1 H2. pose proof (Qfloor_le x) as F1. pose proof (Qlt_floor x) as F2.
  assert (A : (Qfloor x < z + 1)%Z) by (rewrite Zlt_Qlt; eapply Qle_lt_trans; eassumption).
  assert (B : (z < Qfloor x + 1)%Z) by (rewrite Zlt_Qlt; eapply Qle_lt_trans; eassumption).
  lia.
Qed.

Theorem qrot_mid j : (0 <= j <= 255)%Z -> qrot ((inject_Z j - 128 + (1 # 2)) / 128) = j.
Proof.
  intros Hj. unfold qrot, qrot_of, rot_pre.
  assert (E : (inject_Z j - 128 + (1 # 2)) / 128 * 128 + 128 == inject_Z j + (1 # 2)) by field.
  assert (B0 : inject_Z 0 <= inject_Z j) by (rewrite <- Zle_Qle; lia).
  assert (B1 : inject_Z j <= inject_Z 255) by (rewrite <- Zle_Qle; lia).
  change (inject_Z 0) with 0 in B0. change (inject_Z 255) with 255 in B1.
  set (v := (inject_Z j - 128 + (1 # 2)) / 128 * 128 + 128) in *.
  apply Qfloor_unique; rewrite ?inject_Z_plus; change (inject_Z 1) with 1;
  destruct (clamp_cases v 0 255 ltac:(lra)) as [[Ec ?]|[[Ec ?]|[Ec ?]]]; lra.
Qed.

Theorem qcol_of_mid j : (0 <= j <= 255)%Z -> qcol_of ((inject_Z j + (1 # 2)) / 255) = j.
Proof.
  intros Hj. unfold qcol_of.
  assert (B0 : inject_Z 0 <= inject_Z j) by (rewrite <- Zle_Qle; lia).
  assert (B1 : inject_Z j <= inject_Z 255) by (rewrite <- Zle_Qle; lia).
  change (inject_Z 0) with 0 in B0. change (inject_Z 255) with 255 in B1.
  set (v := (inject_Z j + (1 # 2)) / 255).
  assert (E : v * 255 == inject_Z j + (1 # 2)) by (unfold v; field).
  apply Qfloor_unique; rewrite ?inject_Z_plus; change (inject_Z 1) with 1;
  destruct (clamp_cases v 0 1 ltac:(lra)) as [[Ec ?]|[[Ec ?]|[Ec ?]]]; lra.
Qed.

Theorem qalpha_mid j : (0 <= j <= 254)%Z -> qalpha ((inject_Z j + (1 # 2)) / 255) = j.
Proof.
  intros Hj. unfold qalpha. set (v := (inject_Z j + (1 # 2)) / 255).
  assert (E : v * 255 == inject_Z j + (1 # 2)) by (unfold v; field).
  apply Qfloor_unique; rewrite ?inject_Z_plus; change (inject_Z 1) with 1; lra.
Qed.
Close Scope Q_scope.
