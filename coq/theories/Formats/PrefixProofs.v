(* C14: truncated files.  Prefix theorems for the byte/token models of the decoders:
   - .splat      : a prefix of k bytes yields exactly the first k/32 splats, and an error iff k mod 32 <> 0;
   - SPZ         : a strict prefix of the decompressed stream is rejected; with gzip as a Section variable;
   - binary PLY  : "stream parsers" -- every reader of PlyRead built from "take exactly n bytes or fail with EOF"
                   has a threshold c (the bytes it consumes): every cut below c is Err EEof, every cut at or above c
                   gives the identical result (never zero filled, never partial);
   - ASCII PLY   : the same at line / token level;
   - cost        : instrumented step counters for STL and PTS, linear in the input present. *)
From PF Require Import Base.Bytes Base.BytesProofs.
From PF Require Formats.Splat Formats.Spz Formats.Stl Formats.StlProofs.
From PF Require Import Formats.PlyRead.
From Coq Require Import ZifyN ZifyNat ZifyBool.
Open Scope list_scope.
Ltac Zify.zify_post_hook ::= Z.div_mod_to_equations.

(* ------------------------------------------------------------------ lists *)
Lemma skipn_add {A} (a b : nat) (l : list A) : skipn b (skipn a l) = skipn (a + b) l.
Proof.
  revert l. induction a as [|a IH]; intros l; [reflexivity|].
  destruct l as [|x l]; [now rewrite !skipn_nil|]. simpl. apply IH.
Qed.

Lemma take_firstn {A} n (l : list A) : (n <= length l)%nat -> take n l = Some (firstn n l, skipn n l).
Proof.
  revert l. induction n as [|n IH]; intros l H; [reflexivity|].
  destruct l as [|x l]; [simpl in H; lia|]. simpl in H. simpl. rewrite IH by lia. reflexivity.
Qed.

Lemma take_short {A} n (l : list A) : (length l < n)%nat -> take n l = None.
Proof. apply take_none. Qed.

Lemma firstn_firstn_le {A} (n k : nat) (l : list A) : (n <= k)%nat -> firstn n (firstn k l) = firstn n l.
Proof. intros H. rewrite firstn_firstn. f_equal. lia. Qed.

Lemma firstn_app_ge {A} (a b : list A) k : (length a <= k)%nat -> firstn k (a ++ b) = a ++ firstn (k - length a) b.
Proof. intros H. rewrite firstn_app. rewrite firstn_all2 by lia. reflexivity. Qed.

Lemma firstn_app_lt {A} (a b : list A) k : (k <= length a)%nat -> firstn k (a ++ b) = firstn k a.
Proof. intros H. rewrite firstn_app. replace (k - length a)%nat with 0%nat by lia. simpl. apply app_nil_r. Qed.

(* ================================================================== .splat *)
Section SplatPrefix.
Import Splat.

Lemma sget32_le32 w r : word32 w -> get32 (le32 w ++ r) = Some (w, r).
Proof.
  intros H. unfold get32. change 4%nat with (length (le32 w)). rewrite take_app. cbn [bind].
  rewrite de_le32_le32 by assumption. reflexivity.
Qed.
Lemma sget_w3_enc v r : w3_ok v -> get_w3 (enc_w3 v ++ r) = Some (v, r).
Proof.
  destruct v as [[x y] z]. intros (Hx & Hy & Hz). unfold get_w3, enc_w3. rewrite <- !app_assoc.
  rewrite sget32_le32 by assumption. cbn [bind]. rewrite sget32_le32 by assumption. cbn [bind].
  rewrite sget32_le32 by assumption. reflexivity.
Qed.
Lemma sget_b4_enc v r : get_b4 (enc_b4 v ++ r) = Some (v, r).
Proof. destruct v as [[[a b] c] d]. reflexivity. Qed.
Lemma sget_raw_enc x r : raw_ok x -> get_raw (enc_raw x ++ r) = Some (x, r).
Proof.
  intros (Hp & Hs & _ & _). unfold get_raw, enc_raw. rewrite <- !app_assoc.
  rewrite sget_w3_enc by assumption. cbn [bind]. rewrite sget_w3_enc by assumption. cbn [bind].
  rewrite sget_b4_enc. cbn [bind]. rewrite sget_b4_enc. cbn [bind]. destruct x; reflexivity.
Qed.

Lemma sget32_length l w r : get32 l = Some (w, r) -> length l = (4 + length r)%nat.
Proof.
  unfold get32. destruct (take 4 l) as [[a r']|] eqn:E; cbn [bind]; [|discriminate].
  destruct (de_le32 a); cbn [bind]; [|discriminate]. intros H. apply some_inj in H.
  assert (r' = r) as -> by congruence. apply take_spec in E. destruct E as [-> E]. rewrite app_length. lia.
Qed.
Lemma sget_w3_length l v r : get_w3 l = Some (v, r) -> length l = (12 + length r)%nat.
Proof.
  unfold get_w3. destruct (get32 l) as [[x r1]|] eqn:E1; cbn [bind]; [|discriminate].
  destruct (get32 r1) as [[y r2]|] eqn:E2; cbn [bind]; [|discriminate].
  destruct (get32 r2) as [[z r3]|] eqn:E3; cbn [bind]; [|discriminate].
  intros H. apply some_inj in H. assert (r3 = r) as -> by congruence.
  apply sget32_length in E1, E2, E3. lia.
Qed.
Lemma sget_b4_length l v r : get_b4 l = Some (v, r) -> length l = (4 + length r)%nat.
Proof.
  unfold get_b4. destruct l as [|a [|b [|c [|d r']]]]; try discriminate.
  intros H. apply some_inj in H. assert (r' = r) as -> by congruence. reflexivity.
Qed.
Lemma sget_raw_length l x r : get_raw l = Some (x, r) -> length l = (32 + length r)%nat.
Proof.
  unfold get_raw. destruct (get_w3 l) as [[p r1]|] eqn:E1; cbn [bind]; [|discriminate].
  destruct (get_w3 r1) as [[s r2]|] eqn:E2; cbn [bind]; [|discriminate].
  destruct (get_b4 r2) as [[c r3]|] eqn:E3; cbn [bind]; [|discriminate].
  destruct (get_b4 r3) as [[q r4]|] eqn:E4; cbn [bind]; [|discriminate].
  intros H. apply some_inj in H. assert (r4 = r) as -> by congruence.
  apply sget_w3_length in E1, E2. apply sget_b4_length in E3, E4. lia.
Qed.
Lemma sget_raw_short l : (length l < 32)%nat -> get_raw l = None.
Proof.
  intros H. destruct (get_raw l) as [[x r]|] eqn:E; [|reflexivity].
  apply sget_raw_length in E. lia.
Qed.

Lemma senc_raw_length x : length (enc_raw x) = 32%nat.
Proof. destruct x as [[[a b] c] [[d e] f] [[[g h] i] j] [[[k l] m] n]]. reflexivity. Qed.
Lemma swrite_raw_length rs : length (write_raw rs) = (32 * length rs)%nat.
Proof.
  unfold write_raw. induction rs as [|r rs IH]; [reflexivity|].
  cbn [flat_map]. rewrite app_length, senc_raw_length, IH. simpl length. lia.
Qed.

Lemma read_raw_cons f (l : list N) : l <> [] ->
  read_raw (S f) l = match get_raw l with
                     | None => ([], false)
                     | Some (r, rest) => let '(rs, ok) := read_raw f rest in (r :: rs, ok)
                     end.
Proof. destruct l; [congruence|reflexivity]. Qed.

(* splat.Read on the first k bytes of a written file: exactly the splats wholly contained, and an error
   exactly when a record was cut.  Any fuel >= k (the reader is given fuel = number of bytes). *)
Lemma read_raw_prefix rs : forall k fuel, Forall raw_ok rs -> (k <= 32 * length rs)%nat -> (k <= fuel)%nat ->
  read_raw fuel (firstn k (write_raw rs)) = (firstn (k / 32) rs, (k mod 32 =? 0)%nat).
Proof.
  induction rs as [|r rs IH]; intros k fuel Hok Hk Hf.
  - simpl in Hk. assert (k = 0)%nat as -> by lia. destruct fuel; reflexivity.
  - inversion Hok as [|? ? Hr Hrs]; subst. unfold write_raw. cbn [flat_map]. fold (write_raw rs).
    destruct (Nat.eq_dec k 0) as [->|Hk0].
    { destruct fuel; reflexivity. }
    destruct fuel as [|f]; [lia|].
    destruct (le_lt_dec 32 k) as [H32|H32].
    + rewrite firstn_app_ge by (rewrite senc_raw_length; lia). rewrite senc_raw_length.
      rewrite read_raw_cons by (destruct r as [[[a b] c] ? ? ?]; discriminate).
      rewrite sget_raw_enc by assumption.
      rewrite (IH (k - 32)%nat f) by (try assumption; simpl length in Hk; lia).
      replace (k / 32)%nat with (S ((k - 32) / 32)) by lia.
      replace ((k - 32) mod 32)%nat with (k mod 32)%nat by lia. reflexivity.
    + rewrite firstn_app_lt by (rewrite senc_raw_length; lia).
      assert (Hne : firstn k (enc_raw r) <> []).
      { intros E. apply (f_equal (@length N)) in E. rewrite firstn_length, senc_raw_length in E. simpl in E. lia. }
      rewrite read_raw_cons by assumption.
      rewrite sget_raw_short by (rewrite firstn_length, senc_raw_length; lia).
      replace (k / 32)%nat with 0%nat by lia. replace (k mod 32 =? 0)%nat with false by lia. reflexivity.
Qed.

Theorem splat_prefix rs k : Forall raw_ok rs -> (k <= length (write_raw rs))%nat ->
  read (firstn k (write_raw rs)) = (map dequantise (firstn (k / 32) rs), (k mod 32 =? 0)%nat).
Proof.
  intros Hok Hk. rewrite swrite_raw_length in Hk. unfold read.
  rewrite read_raw_prefix; try assumption; [reflexivity|].
  rewrite firstn_length, swrite_raw_length. lia.
Qed.
End SplatPrefix.

(* ================================================================== SPZ *)
Section SpzPrefix.
Import Spz.

Lemma zget32_le32 w r : word32 w -> get32 (le32 w ++ r) = Some (w, r).
Proof.
  intros H. unfold get32. change 4%nat with (length (le32 w)). rewrite take_app. cbn [bind].
  rewrite de_le32_le32 by assumption. reflexivity.
Qed.
Lemma zget32_length l w r : get32 l = Some (w, r) -> length l = (4 + length r)%nat.
Proof.
  unfold get32. destruct (take 4 l) as [[a r']|] eqn:E; cbn [bind]; [|discriminate].
  destruct (de_le32 a); cbn [bind]; [|discriminate]. intros H. apply some_inj in H.
  assert (r' = r) as -> by congruence. apply take_spec in E. destruct E as [-> E]. rewrite app_length. lia.
Qed.
Lemma get_header_length l h r : get_header l = Some (h, r) -> length l = (16 + length r)%nat.
Proof.
  unfold get_header. destruct (get32 l) as [[m r1]|] eqn:E1; cbn [bind]; [|discriminate].
  destruct (get32 r1) as [[v r2]|] eqn:E2; cbn [bind]; [|discriminate].
  destruct (get32 r2) as [[n r3]|] eqn:E3; cbn [bind]; [|discriminate].
  destruct r3 as [|d [|f [|g [|z r4]]]]; try discriminate.
  intros H. apply some_inj in H. assert (r4 = r) as -> by congruence.
  apply zget32_length in E1, E2, E3. simpl length in *. lia.
Qed.
Lemma get_header_enc h r : header_ok h -> get_header (enc_header h ++ r) = Some (h, r).
Proof.
  intros (Hm & Hv & Hn & _). unfold get_header, enc_header. rewrite <- !app_assoc.
  rewrite zget32_le32 by assumption. cbn [bind]. rewrite zget32_le32 by assumption. cbn [bind].
  rewrite zget32_le32 by assumption. cbn [bind app]. destruct h; reflexivity.
Qed.
Lemma enc_header_length h : length (enc_header h) = 16%nat.
Proof. reflexivity. Qed.

Lemma flat_map_length_const {A B} (f : A -> list B) (c : nat) (l : list A) :
  Forall (fun x => length (f x) = c) l -> length (flat_map f l) = (c * length l)%nat.
Proof.
  induction 1 as [|x l Hx Hl IH]; [simpl; lia|]. cbn [flat_map]. rewrite app_length, Hx, IH. simpl length. lia.
Qed.

Definition arrays (ps : list prec) : list N :=
  flat_map p_pos ps ++ map p_alpha ps ++ flat_map p_col ps ++ flat_map p_scale ps ++ flat_map p_rot ps ++ flat_map p_sh ps.

Lemma arrays_length h ps : lengths_match h ps -> N.of_nat (length (arrays ps)) = total_size h.
Proof.
  intros [Hn Hall]. unfold arrays, total_size. rewrite !app_length, map_length.
  rewrite (flat_map_length_const p_pos (pos_size h)) by (eapply Forall_impl; [|exact Hall]; intros p Hp; apply Hp).
  rewrite (flat_map_length_const p_col 3) by (eapply Forall_impl; [|exact Hall]; intros p Hp; apply Hp).
  rewrite (flat_map_length_const p_scale 3) by (eapply Forall_impl; [|exact Hall]; intros p Hp; apply Hp).
  rewrite (flat_map_length_const p_rot 3) by (eapply Forall_impl; [|exact Hall]; intros p Hp; apply Hp).
  rewrite (flat_map_length_const p_sh (3 * sh_dim (h_shdeg h))) by (eapply Forall_impl; [|exact Hall]; intros p Hp; apply Hp).
  rewrite <- Hn. lia.
Qed.

Lemma encode_ref_split h ps : encode_ref h ps = enc_header h ++ arrays ps.
Proof. reflexivity. Qed.

(* every strict prefix of the decompressed stream of a well-formed file is rejected: either the 16-byte header is
   incomplete, or the arrays are shorter than the header announces *)
Theorem spz_plain_prefix_rejected h ps k :
  header_ok h -> lengths_match h ps -> (k < length (encode_ref h ps))%nat ->
  decode (firstn k (encode_ref h ps)) = None.
Proof.
  intros Hh Hl Hk. rewrite encode_ref_split in *. rewrite app_length, enc_header_length in Hk.
  unfold decode. destruct (le_lt_dec 16 k) as [H16|H16].
  - rewrite firstn_app_ge by (rewrite enc_header_length; lia). rewrite enc_header_length.
    rewrite get_header_enc by assumption. cbn [bind].
    destruct (negb (validate h)); [reflexivity|].
    assert (Hlt : (N.of_nat (length (firstn (k - 16) (arrays ps))) <? total_size h)%N = true).
    { rewrite <- (arrays_length h ps Hl). rewrite firstn_length. lia. }
    rewrite Hlt. reflexivity.
  - destruct (get_header (firstn k (enc_header h ++ arrays ps))) as [[h' r]|] eqn:E; [|reflexivity].
    apply get_header_length in E. rewrite firstn_length in E. lia.
Qed.

(* The gzip layer.  [inflate z] is the byte stream compress/gzip hands to spz.Read before it reports the end of the
   input or an error (an incomplete 10-byte gzip header: nothing).  Trusted hypothesis about Go's compress/gzip:
   a prefix of the compressed file inflates to a prefix of the plaintext. *)
Variable inflate : list N -> list N.
Hypothesis inflate_prefix : forall z k, exists j, inflate (firstn k z) = firstn j (inflate z).

Definition spz_read (z : list N) : option (header * fields) := decode (inflate z).

Theorem spz_prefix z h ps k :
  inflate z = encode_ref h ps -> header_ok h -> lengths_match h ps ->
  spz_read (firstn k z) = None \/
  (inflate (firstn k z) = inflate z /\ spz_read (firstn k z) = spz_read z).
Proof.
  intros Hz Hh Hl. unfold spz_read. destruct (inflate_prefix z k) as [j Hj]. rewrite Hj, Hz.
  destruct (le_lt_dec (length (encode_ref h ps)) j) as [Hge|Hlt].
  - right. rewrite firstn_all2 by assumption. split; reflexivity.
  - left. apply spz_plain_prefix_rejected; assumption.
Qed.
End SpzPrefix.

(* ================================================================== stream parsers (binary PLY) *)
(* A reader that takes what it needs from the front of the stream.  If it succeeds on [l] there is a threshold [c]
   (the number of elements it consumed): on every prefix shorter than [c] it reports EOF, on every prefix of at
   least [c] elements it returns the very same value (and the rest of that prefix). *)
Section StreamParsers.
Context {T : Type}.

Definition stream_parser {A} (P : list T -> result (A * list T)) : Prop :=
  forall l a rest, P l = Ok (a, rest) ->
    exists c, (c <= length l)%nat /\ rest = skipn c l /\
      (forall k, (k < c)%nat -> P (firstn k l) = Err EEof) /\
      (forall k, (c <= k)%nat -> P (firstn k l) = Ok (a, skipn c (firstn k l))).

(* the same for a reader that does not hand back the rest of the stream *)
Definition final_parser {B} (F : list T -> result B) : Prop :=
  forall l b, F l = Ok b ->
    exists c, (c <= length l)%nat /\
      (forall k, (k < c)%nat -> F (firstn k l) = Err EEof) /\
      (forall k, (c <= k)%nat -> F (firstn k l) = Ok b).

Lemma sp_ext {A} (P Q : list T -> result (A * list T)) : (forall l, P l = Q l) -> stream_parser P -> stream_parser Q.
Proof.
  intros E HP l a rest H. rewrite <- E in H. destruct (HP l a rest H) as (c & H1 & H2 & H3 & H4).
  exists c. repeat split; try assumption; intros k Hk; rewrite <- E; auto.
Qed.
Lemma fp_ext {B} (P Q : list T -> result B) : (forall l, P l = Q l) -> final_parser P -> final_parser Q.
Proof.
  intros E HP l b H. rewrite <- E in H. destruct (HP l b H) as (c & H1 & H3 & H4).
  exists c. repeat split; try assumption; intros k Hk; rewrite <- E; auto.
Qed.

Lemma sp_ret {A} (a : A) : stream_parser (fun l => Ok (a, l)).
Proof.
  intros l a' rest H. exists 0%nat. assert (a' = a /\ rest = l) as [-> ->] by (split; congruence).
  split; [lia|]. split; [reflexivity|]. split; intros k Hk; [lia|reflexivity].
Qed.
Lemma sp_fail {A} (e : err) : stream_parser (fun _ : list T => @Err (A * list T) e).
Proof. intros l a rest H. discriminate. Qed.
Lemma fp_ret {B} (b : B) : final_parser (fun _ => Ok b).
Proof.
  intros l b' H. exists 0%nat. assert (b' = b) as -> by congruence.
  split; [lia|]. split; intros k Hk; [lia|reflexivity].
Qed.
Lemma fp_fail {B} (e : err) : final_parser (fun _ : list T => @Err B e).
Proof. intros l b H. discriminate. Qed.

Lemma sp_take n : stream_parser (fun l : list T => of_opt EEof (take n l)).
Proof.
  intros l a rest H. unfold of_opt in H. destruct (take n l) as [[a' r']|] eqn:E; [|discriminate].
  assert (a' = a /\ r' = rest) as [-> ->] by (split; congruence).
  pose proof (take_spec _ _ _ _ E) as [El Ea].
  assert (Hn : (n <= length l)%nat) by (rewrite El, app_length; lia).
  rewrite take_firstn in E by assumption.
  exists n. split; [assumption|]. split; [congruence|]. split; intros k Hk.
  - rewrite take_short; [reflexivity|]. rewrite firstn_length. lia.
  - rewrite take_firstn by (rewrite firstn_length; lia). cbn [of_opt].
    rewrite firstn_firstn_le by assumption. congruence.
Qed.

(* sequencing: the continuation [K] sees the value and the rest of the stream *)
Lemma sp_bind {A B} (P : list T -> result (A * list T)) (K : A * list T -> result (B * list T)) :
  stream_parser P -> (forall a, stream_parser (fun r => K (a, r))) ->
  stream_parser (fun l => rbind (P l) K).
Proof.
  intros HP HK l b rest H. destruct (P l) as [[a r1]|e] eqn:EP; cbn [rbind] in H; [|discriminate].
  destruct (HP l a r1 EP) as (c1 & Hc1 & Hr1 & Hlt1 & Hge1).
  destruct (HK a r1 b rest H) as (c2 & Hc2 & Hr2 & Hlt2 & Hge2).
  assert (Hlen1 : length r1 = (length l - c1)%nat) by (rewrite Hr1; apply skipn_length).
  exists (c1 + c2)%nat. split; [lia|]. split; [rewrite Hr2, Hr1; apply skipn_add|].
  assert (Hmid : forall k, (c1 <= k)%nat -> rbind (P (firstn k l)) K = K (a, firstn (k - c1) r1)).
  { intros k Hk. rewrite Hge1 by assumption. cbn [rbind]. rewrite skipn_firstn_comm, <- Hr1. reflexivity. }
  split; intros k Hk.
  - destruct (le_lt_dec c1 k) as [Hge|Hlt].
    + rewrite Hmid by assumption. apply Hlt2. lia.
    + rewrite Hlt1 by assumption. reflexivity.
  - rewrite Hmid by lia. rewrite Hge2 by lia. f_equal. f_equal.
    rewrite <- skipn_add. rewrite (skipn_firstn_comm c1 k l), <- Hr1. reflexivity.
Qed.
Lemma fp_bind {A B} (P : list T -> result (A * list T)) (K : A * list T -> result B) :
  stream_parser P -> (forall a, final_parser (fun r => K (a, r))) ->
  final_parser (fun l => rbind (P l) K).
Proof.
  intros HP HK l b H. destruct (P l) as [[a r1]|e] eqn:EP; cbn [rbind] in H; [|discriminate].
  destruct (HP l a r1 EP) as (c1 & Hc1 & Hr1 & Hlt1 & Hge1).
  destruct (HK a r1 b H) as (c2 & Hc2 & Hlt2 & Hge2).
  assert (Hlen1 : length r1 = (length l - c1)%nat) by (rewrite Hr1; apply skipn_length).
  exists (c1 + c2)%nat. split; [lia|].
  assert (Hmid : forall k, (c1 <= k)%nat -> rbind (P (firstn k l)) K = K (a, firstn (k - c1) r1)).
  { intros k Hk. rewrite Hge1 by assumption. cbn [rbind]. rewrite skipn_firstn_comm, <- Hr1. reflexivity. }
  split; intros k Hk.
  - destruct (le_lt_dec c1 k) as [Hge|Hlt].
    + rewrite Hmid by assumption. apply Hlt2. lia.
    + rewrite Hlt1 by assumption. reflexivity.
  - rewrite Hmid by lia. apply Hge2. lia.
Qed.

(* a step that does not look at the stream *)
Lemma sp_pure {A X} (x : result X) (G : X -> list T -> result (A * list T)) :
  (forall v, stream_parser (G v)) -> stream_parser (fun r => rbind x (fun v => G v r)).
Proof. intros HG. destruct x as [v|e]; cbn [rbind]; [apply (sp_ext (G v)); [reflexivity|apply HG]|apply sp_fail]. Qed.
Lemma fp_pure {B X} (x : result X) (G : X -> list T -> result B) :
  (forall v, final_parser (G v)) -> final_parser (fun r => rbind x (fun v => G v r)).
Proof. intros HG. destruct x as [v|e]; cbn [rbind]; [apply (fp_ext (G v)); [reflexivity|apply HG]|apply fp_fail]. Qed.
Lemma sp_if {A} (b : bool) (P Q : list T -> result (A * list T)) :
  stream_parser P -> stream_parser Q -> stream_parser (fun r => if b then P r else Q r).
Proof. destruct b; auto. Qed.
Lemma fp_if {B} (b : bool) (P Q : list T -> result B) :
  final_parser P -> final_parser Q -> final_parser (fun r => if b then P r else Q r).
Proof. destruct b; auto. Qed.
(* a total post-processing step *)
Lemma fp_map {B C} (F : list T -> result B) (K : B -> result C) :
  final_parser F -> final_parser (fun l => rbind (F l) K).
Proof.
  intros HF l c H. destruct (F l) as [b|e] eqn:EF; cbn [rbind] in H; [|discriminate].
  destruct (HF l b EF) as (c0 & Hc & Hlt & Hge). exists c0. split; [assumption|].
  split; intros k Hk; [rewrite Hlt by assumption; reflexivity|rewrite Hge by assumption; exact H].
Qed.
End StreamParsers.

(* ================================================================== binary PLY *)
Ltac sp_unfold f := eapply sp_ext; [intros ?l; cbn [f]; reflexivity|].
Ltac fp_unfold f := eapply fp_ext; [intros ?l; cbn [f]; reflexivity|].

Lemma sp_read_vertices_bin e bs size n : stream_parser (read_vertices_bin e bs size n).
Proof.
  induction n as [|n IH].
  - sp_unfold @read_vertices_bin. apply sp_ret.
  - sp_unfold @read_vertices_bin.
    apply sp_bind; [apply sp_take|]. intros buf. cbv beta iota.
    apply sp_pure. intros row. apply sp_bind; [exact IH|]. intros rows. cbv beta iota. apply sp_ret.
Qed.

Lemma sp_read_count e ct : stream_parser (read_count e ct).
Proof.
  destruct ct; unfold read_count; try apply sp_fail.
  - apply sp_bind; [apply sp_take|]. intros a. cbv beta iota. apply sp_pure. intros w. apply sp_ret.
  - apply sp_bind; [apply sp_take|]. intros a. cbv beta iota. apply sp_pure. intros w. apply sp_ret.
  - apply sp_bind; [apply sp_take|]. intros a. cbv beta iota. apply sp_pure. intros w. apply sp_ret.
Qed.

Lemma sp_face_bin e rs : forall k ip tp st, stream_parser (fun bytes => face_bin e rs k ip tp bytes st).
Proof.
  induction rs as [|[ct lt] rs IH]; intros k ip tp st.
  - sp_unfold @face_bin. apply sp_ret.
  - sp_unfold @face_bin.
    apply sp_bind; [apply sp_read_count|]. intros v. cbv beta iota.
    apply sp_if; [apply sp_fail|].
    apply sp_bind; [apply sp_take|]. intros payload. cbv beta iota.
    apply sp_pure. intros st1. apply sp_pure. intros st2. apply IH.
Qed.

Lemma fp_faces_bin e rs ip tp n : forall st, final_parser (fun bytes => faces_bin e rs ip tp bytes n st).
Proof.
  induction n as [|n IH]; intros st.
  - fp_unfold @faces_bin. apply fp_ret.
  - fp_unfold @faces_bin.
    apply fp_bind; [apply sp_face_bin|]. intros st'. cbv beta iota.
    apply fp_pure. intros [ix uv]. apply fp_map. apply IH.
Qed.

(* MeshReader.Read on a binary body: all of it *)
Theorem fp_read_body_bin gs u h : final_parser (fun bytes => read_body gs u h (BodyBin bytes)).
Proof.
  unfold read_body. cbv beta iota zeta.
  apply fp_pure. intros ve.
  apply fp_if; [apply fp_fail|]. apply fp_if; [apply fp_fail|].
  apply fp_map.
  destruct (h_fmt h).
  - apply fp_fail.
  - apply fp_pure. intros bs. apply fp_bind; [apply sp_read_vertices_bin|]. intros rows. cbv beta iota.
    destruct (find_last_elem _ (h_elems h) None) as [f|].
    + apply fp_pure. intros [[rs ip] tp]. apply fp_map. apply fp_faces_bin.
    + apply fp_ret.
  - apply fp_pure. intros bs. apply fp_bind; [apply sp_read_vertices_bin|]. intros rows. cbv beta iota.
    destruct (find_last_elem _ (h_elems h) None) as [f|].
    + apply fp_pure. intros [[rs ip] tp]. apply fp_map. apply fp_faces_bin.
    + apply fp_ret.
Qed.

(* ply.ReadMesh on a file with a binary body, cut anywhere in the body: there is a threshold [c] -- the end of
   the data the header promises -- such that every cut below it is reported as end of input and every cut at or
   after it (only trailing bytes removed) yields the identical mesh.  Nothing is ever zero filled. *)
Theorem ply_bin_prefix hdr bytes m :
  read_mesh {| pf_header := hdr; pf_body := BodyBin bytes |} = Ok m ->
  exists c, (c <= length bytes)%nat /\
    (forall k, (k < c)%nat -> read_mesh {| pf_header := hdr; pf_body := BodyBin (firstn k bytes) |} = Err EEof) /\
    (forall k, (c <= k)%nat -> read_mesh {| pf_header := hdr; pf_body := BodyBin (firstn k bytes) |} = Ok m).
Proof.
  unfold read_mesh. cbn [pf_header pf_body]. destruct (parse_header hdr) as [h|e]; cbn [rbind]; [|discriminate].
  apply (fp_read_body_bin default_groups true h).
Qed.

(* the vertex block on its own: the threshold is exactly n * record size *)
Lemma read_vertices_bin_consumes e bs size n : forall bytes rows rest,
  read_vertices_bin e bs size n bytes = Ok (rows, rest) -> length bytes = (n * size + length rest)%nat /\ length rows = n.
Proof.
  induction n as [|n IH]; intros bytes rows rest H.
  - cbn [read_vertices_bin] in H. assert (rows = [] /\ rest = bytes) as [-> ->] by (split; congruence). split; reflexivity.
  - cbn [read_vertices_bin] in H. destruct (take size bytes) as [[buf r1]|] eqn:E; cbn [of_opt rbind] in H; [|discriminate].
    destruct (mapR (fun b => read_bin_row e b buf) bs) as [row|]; cbn [rbind] in H; [|discriminate].
    destruct (read_vertices_bin e bs size n r1) as [[rows' r2]|] eqn:E2; cbn [rbind] in H; [|discriminate].
    assert (rows = row :: rows' /\ rest = r2) as [-> ->] by (split; congruence).
    apply IH in E2. apply take_spec in E. destruct E as [-> E]. rewrite app_length. simpl length. lia.
Qed.

Theorem ply_bin_vertices_prefix e bs size n bytes rows rest k :
  read_vertices_bin e bs size n bytes = Ok (rows, rest) -> (k < n * size)%nat ->
  read_vertices_bin e bs size n (firstn k bytes) = Err EEof.
Proof.
  intros H Hk. destruct (sp_read_vertices_bin e bs size n bytes rows rest H) as (c & Hc & Hr & Hlt & Hge).
  destruct (le_lt_dec c k) as [Hck|Hck]; [|apply Hlt; assumption].
  exfalso. specialize (Hge k Hck). apply read_vertices_bin_consumes in Hge. destruct Hge as [Hge _].
  rewrite firstn_length in Hge. lia.
Qed.

(* ================================================================== ASCII PLY: cuts at line boundaries *)
Lemma sp_read_vertices_ascii bs np : forall n, stream_parser (fun lines => read_vertices_ascii bs np lines n).
Proof.
  intros n l. revert n. induction l as [|x l IH]; intros n a rest H.
  - destruct n; cbn [read_vertices_ascii] in H; [|discriminate].
    assert (a = [] /\ rest = []) as [-> ->] by (split; congruence).
    exists 0%nat. split; [simpl; lia|]. split; [reflexivity|]. split; intros k Hk; [lia|].
    rewrite firstn_nil. reflexivity.
  - destruct n as [|n].
    + cbn [read_vertices_ascii] in H. assert (a = [] /\ rest = x :: l) as [-> ->] by (split; congruence).
      exists 0%nat. split; [simpl; lia|]. split; [reflexivity|]. split; intros k Hk; [lia|].
      cbn [skipn]. destruct k; reflexivity.
    + cbn [read_vertices_ascii] in H. destruct x as [|t ts].
      * destruct (IH (S n) a rest H) as (c & Hc & Hr & Hlt & Hge).
        exists (S c). split; [simpl; lia|]. split; [exact Hr|]. split; intros k Hk.
        -- destruct k as [|k]; [reflexivity|]. cbn [firstn read_vertices_ascii]. apply Hlt. lia.
        -- destruct k as [|k]; [lia|]. cbn [firstn read_vertices_ascii skipn]. apply Hge. lia.
      * destruct (length (t :: ts) <? np)%nat eqn:El; [discriminate|].
        destruct (mapR (fun b => read_ascii_row b (t :: ts)) bs) as [row|] eqn:Er; cbn [rbind] in H; [|discriminate].
        destruct (read_vertices_ascii bs np l n) as [[rows r2]|] eqn:E2; cbn [rbind] in H; [|discriminate].
        assert (a = row :: rows /\ rest = r2) as [-> ->] by (split; congruence).
        destruct (IH n rows r2 E2) as (c & Hc & Hr & Hlt & Hge).
        exists (S c). split; [simpl; lia|]. split; [exact Hr|]. split; intros k Hk.
        -- destruct k as [|k]; [reflexivity|]. cbn [firstn read_vertices_ascii]. rewrite El, Er. cbn [rbind].
           rewrite Hlt by lia. reflexivity.
        -- destruct k as [|k]; [lia|]. cbn [firstn read_vertices_ascii skipn]. rewrite El, Er. cbn [rbind].
           rewrite Hge by lia. reflexivity.
Qed.

Lemma fp_faces_ascii rs ip tp : forall n st, final_parser (fun lines => faces_ascii rs ip tp lines n st).
Proof.
  intros n st l. revert n st. induction l as [|x l IH]; intros n st b H.
  - destruct n; cbn [faces_ascii] in H; [|discriminate]. assert (b = ([], [])) as -> by congruence.
    exists 0%nat. split; [simpl; lia|]. split; intros k Hk; [lia|]. rewrite firstn_nil. reflexivity.
  - destruct n as [|n].
    + cbn [faces_ascii] in H. assert (b = ([], [])) as -> by congruence.
      exists 0%nat. split; [simpl; lia|]. split; intros k Hk; [lia|]. destruct k; reflexivity.
    + cbn [faces_ascii] in H. destruct x as [|t ts].
      * destruct (IH (S n) st b H) as (c & Hc & Hlt & Hge).
        exists (S c). split; [simpl; lia|]. split; intros k Hk.
        -- destruct k as [|k]; [reflexivity|]. cbn [firstn faces_ascii]. apply Hlt. lia.
        -- destruct k as [|k]; [lia|]. cbn [firstn faces_ascii]. apply Hge. lia.
      * destruct (face_ascii rs 0 ip tp (t :: ts) st) as [st'|] eqn:Ef; cbn [rbind] in H; [|discriminate].
        destruct (face_out match tp with Some _ => true | None => false end st') as [[ix uv]|] eqn:Eo; cbn [rbind] in H; [|discriminate].
        destruct (faces_ascii rs ip tp l n st') as [[ixs uvs]|] eqn:E2; cbn [rbind] in H; [|discriminate].
        destruct (IH n st' (ixs, uvs) E2) as (c & Hc & Hlt & Hge).
        exists (S c). split; [simpl; lia|]. split; intros k Hk.
        -- destruct k as [|k]; [reflexivity|]. cbn [firstn faces_ascii]. rewrite Ef. cbn [rbind]. rewrite Eo. cbn [rbind].
           rewrite Hlt by lia. reflexivity.
        -- destruct k as [|k]; [lia|]. cbn [firstn faces_ascii]. rewrite Ef. cbn [rbind]. rewrite Eo. cbn [rbind].
           rewrite Hge by lia. exact H.
Qed.

Theorem fp_read_body_ascii gs u h : final_parser (fun lines => read_body gs u h (BodyAscii lines)).
Proof.
  unfold read_body. cbv beta iota zeta.
  apply fp_pure. intros ve.
  apply fp_if; [apply fp_fail|]. apply fp_if; [apply fp_fail|].
  apply fp_map.
  destruct (h_fmt h); try apply fp_fail.
  apply fp_pure. intros bs. apply fp_bind; [apply sp_read_vertices_ascii|]. intros rows. cbv beta iota.
  destruct (find_last_elem _ (h_elems h) None) as [f|].
  - apply fp_pure. intros [[rs ip] tp]. apply fp_map. apply fp_faces_ascii.
  - apply fp_ret.
Qed.

(* ply.ReadMesh on an ASCII file cut after k complete body lines *)
Theorem ply_ascii_lines_prefix hdr lines m :
  read_mesh {| pf_header := hdr; pf_body := BodyAscii lines |} = Ok m ->
  exists c, (c <= length lines)%nat /\
    (forall k, (k < c)%nat -> read_mesh {| pf_header := hdr; pf_body := BodyAscii (firstn k lines) |} = Err EEof) /\
    (forall k, (c <= k)%nat -> read_mesh {| pf_header := hdr; pf_body := BodyAscii (firstn k lines) |} = Ok m).
Proof.
  unfold read_mesh. cbn [pf_header pf_body]. destruct (parse_header hdr) as [h|e]; cbn [rbind]; [|discriminate].
  apply (fp_read_body_ascii default_groups true h).
Qed.

(* ---- cuts at a token boundary inside a line ---- *)
(* inside a vertex line: [j] lines of the vertex block are complete, the next one has only the tokens [p], fewer
   than the element has properties *)
Lemma read_vertices_ascii_partial bs np : forall lines n rows rest j p,
  read_vertices_ascii bs np lines n = Ok (rows, rest) ->
  (j < length lines - length rest)%nat -> p <> [] -> (length p < np)%nat ->
  read_vertices_ascii bs np (firstn j lines ++ [p]) n = Err EEof.
Proof.
  induction lines as [|x l IH]; intros n rows rest j p H Hj Hp Hlen.
  - simpl in Hj. lia.
  - destruct n as [|n].
    + cbn [read_vertices_ascii] in H. assert (rest = x :: l) as -> by congruence. lia.
    + assert (Hp1 : read_vertices_ascii bs np [p] (S n) = Err EEof).
      { cbn [read_vertices_ascii]. destruct p as [|t ts]; [congruence|].
        replace (length (t :: ts) <? np)%nat with true by lia. reflexivity. }
      cbn [read_vertices_ascii] in H. destruct x as [|t ts].
      * destruct j as [|j]; [exact Hp1|]. cbn [firstn app read_vertices_ascii].
        apply (IH (S n) rows rest j p H); try assumption.
        assert (Hc := sp_read_vertices_ascii bs np (S n) l rows rest H). destruct Hc as (c & Hc & Hr & _).
        simpl length in Hj. rewrite Hr, skipn_length in *. lia.
      * destruct (length (t :: ts) <? np)%nat eqn:El; [discriminate|].
        destruct (mapR (fun b => read_ascii_row b (t :: ts)) bs) as [row|] eqn:Er; cbn [rbind] in H; [|discriminate].
        destruct (read_vertices_ascii bs np l n) as [[rows' r2]|] eqn:E2; cbn [rbind] in H; [|discriminate].
        assert (rest = r2) as -> by congruence.
        destruct j as [|j]; [exact Hp1|]. cbn [firstn app read_vertices_ascii]. rewrite El, Er. cbn [rbind].
        rewrite (IH n rows' r2 j p E2); try assumption; [reflexivity|].
        assert (Hc := sp_read_vertices_ascii bs np n l rows' r2 E2). destruct Hc as (c & Hc & Hr & _).
        simpl length in Hj. rewrite Hr, skipn_length in *. lia.
Qed.

(* inside a face line: fewer tokens than the list properties of the line announce *)
Fixpoint face_used (rs : list (sty * sty)) (toks : list tok) : nat :=
  match rs, toks with
  | _ :: rs', c :: rest =>
      match tok_int c with
      | Some v => S (Z.to_nat v + face_used rs' (skipn (Z.to_nat v) rest))
      | None => 0
      end
  | _, _ => 0
  end.

Lemma face_ascii_partial rs : forall k ip tp toks st st' m,
  face_ascii rs k ip tp toks st = Ok st' -> (m < face_used rs toks)%nat ->
  face_ascii rs k ip tp (firstn m toks) st = Err EDeclared.
Proof.
  induction rs as [|r rs IH]; intros k ip tp toks st st' m H Hm.
  - simpl in Hm. lia.
  - cbn [face_ascii] in H. destruct toks as [|c rest]; [discriminate|].
    cbn [face_used] in Hm.
    destruct (tok_int c) as [v|] eqn:Ev; cbn [of_opt rbind] in H; [|discriminate].
    destruct ((v <? 0)%Z || (Z.of_nat (length rest) <? v)%Z) eqn:Eb; [discriminate|].
    destruct m as [|m]; [reflexivity|].
    cbn [firstn face_ascii]. rewrite Ev. cbn [of_opt rbind].
    destruct (le_lt_dec (Z.to_nat v) m) as [Hvm|Hvm].
    + replace ((v <? 0)%Z || (Z.of_nat (length (firstn m rest)) <? v)%Z) with false
        by (rewrite firstn_length; lia).
      rewrite firstn_firstn_le by assumption.
      destruct (if (k =? ip)%nat then _ else Ok st) as [st1|] eqn:E1 in H; cbn [rbind] in H; [|discriminate].
      rewrite E1. cbn [rbind].
      destruct (if nat_eqb_opt tp k then _ else Ok st1) as [st2|] eqn:E2 in H; cbn [rbind] in H; [|discriminate].
      rewrite E2. cbn [rbind].
      rewrite skipn_firstn_comm. apply (IH _ _ _ _ _ st' _ H). lia.
    + replace ((v <? 0)%Z || (Z.of_nat (length (firstn m rest)) <? v)%Z) with true
        by (rewrite firstn_length; lia).
      reflexivity.
Qed.

Section AsciiVertexCut.
Import String.
(* ply.ReadMesh on an ASCII file cut at a token boundary inside a line of the vertex block: reported *)
Theorem ply_ascii_vertex_line_cut hdr lines m h ve bs rows rest j p :
  read_mesh {| pf_header := hdr; pf_body := BodyAscii lines |} = Ok m ->
  parse_header hdr = Ok h ->
  find_last_elem "vertex"%string (h_elems h) None = Some ve ->
  build_readers false default_groups true (e_props ve) = Ok bs ->
  read_vertices_ascii bs (List.length (e_props ve)) lines (Z.to_nat (e_count ve)) = Ok (rows, rest) ->
  (j < List.length lines - List.length rest)%nat -> p <> [] -> (List.length p < List.length (e_props ve))%nat ->
  read_mesh {| pf_header := hdr; pf_body := BodyAscii (firstn j lines ++ [p]) |} = Err EEof.
Proof.
  intros H Hh Hve Hbs Hrv Hj Hp Hlen.
  unfold read_mesh in *. cbn [pf_header pf_body] in *. rewrite Hh in *. cbn [rbind] in *.
  unfold read_body in *. rewrite Hve in *. cbn [of_opt rbind] in *. cbv zeta in *.
  destruct (negb (all_scalar (e_props ve))); [discriminate|].
  destruct (e_count ve <? 0)%Z; [discriminate|].
  destruct (h_fmt h); cbv beta iota in *; try discriminate.
  rewrite Hbs in *. cbn [rbind] in *.
  rewrite (read_vertices_ascii_partial _ _ _ _ _ _ _ _ Hrv Hj Hp Hlen). reflexivity.
Qed.
End AsciiVertexCut.

(* ================================================================== PLY header cut at a line boundary *)
Lemma hloop_prefix ls : forall st r j, hloop ls st = Ok r ->
  hloop (firstn j ls) st = Err EEof \/ hloop (firstn j ls) st = Ok r.
Proof.
  induction ls as [|l ls IH]; intros st r j H; [discriminate|].
  destruct j as [|j]; [left; reflexivity|].
  cbn [firstn hloop] in *. destruct (is_end l); [right; exact H|].
  destruct (hstep l st) as [st'|]; cbn [rbind] in *; [|discriminate]. apply IH. exact H.
Qed.
Lemma skip_blank_firstn (r : list (list String.string)) : forall j, exists j', skip_blank (firstn j r) = firstn j' (skip_blank r).
Proof.
  induction r as [|x r IH]; intros j.
  - exists 0%nat. rewrite firstn_nil. reflexivity.
  - destruct j as [|j]; [exists 0%nat; reflexivity|].
    destruct x as [|a x]; cbn [firstn skip_blank].
    + apply IH.
    + exists (S j). reflexivity.
Qed.
Theorem ply_header_prefix hdr h j : parse_header hdr = Ok h ->
  parse_header (firstn j hdr) = Err EEof \/ parse_header (firstn j hdr) = Ok h.
Proof.
  intros H. destruct hdr as [|magic r]; [discriminate|].
  destruct j as [|j]; [left; reflexivity|].
  cbn [firstn parse_header] in *. destruct magic as [|m [|? ?]]; try discriminate.
  destruct (negb (seqb m _)); [discriminate|].
  destruct (skip_blank_firstn r j) as [j' ->].
  destruct (skip_blank r) as [|fl r']; [discriminate|].
  destruct j' as [|j']; [left; reflexivity|]. cbn [firstn].
  destruct (parse_format fl) as [f|]; cbn [rbind] in *; [|discriminate].
  destruct (hloop r' _) as [st|] eqn:E in H; cbn [rbind] in H; [|discriminate].
  destruct (hloop_prefix r' _ st j' E) as [-> | ->]; cbn [rbind]; [left; reflexivity|right; exact H].
Qed.

(* ================================================================== no placeholders *)
(* whatever a prefix decodes to is the decode of the complete file: every vertex, face and attribute value of an
   Ok result is the image of bytes / tokens present in the prefix, none stands in for a missing part *)
Theorem ply_bin_no_placeholder hdr bytes m k m' :
  read_mesh {| pf_header := hdr; pf_body := BodyBin bytes |} = Ok m ->
  read_mesh {| pf_header := hdr; pf_body := BodyBin (firstn k bytes) |} = Ok m' -> m' = m.
Proof.
  intros H H'. destruct (ply_bin_prefix hdr bytes m H) as (c & _ & Hlt & Hge).
  destruct (le_lt_dec c k) as [Hck|Hck]; [rewrite Hge in H' by assumption|rewrite Hlt in H' by assumption]; congruence.
Qed.
Theorem ply_ascii_no_placeholder hdr lines m k m' :
  read_mesh {| pf_header := hdr; pf_body := BodyAscii lines |} = Ok m ->
  read_mesh {| pf_header := hdr; pf_body := BodyAscii (firstn k lines) |} = Ok m' -> m' = m.
Proof.
  intros H H'. destruct (ply_ascii_lines_prefix hdr lines m H) as (c & _ & Hlt & Hge).
  destruct (le_lt_dec c k) as [Hck|Hck]; [rewrite Hge in H' by assumption|rewrite Hlt in H' by assumption]; congruence.
Qed.

(* ================================================================== cost: work follows the input present *)
Section Cost.
Import Stl.
(* the number of record reads stl.Read's loop performs: the recursion skeleton of [read_tris] with a counter *)
Fixpoint read_tris_steps (fuel : nat) (count : N) (l : list N) : nat :=
  if (count =? 0)%N then 0 else
  match fuel with
  | O => 0
  | S f => match gettri l with
           | None => 1
           | Some (_, r) => S (read_tris_steps f (count - 1) r)
           end
  end.

Lemma tget32_length l w r : get32 l = Some (w, r) -> length l = (4 + length r)%nat.
Proof.
  unfold get32. destruct (take 4 l) as [[a r']|] eqn:E; cbn [bind]; [|discriminate].
  destruct (de_le32 a); cbn [bind]; [|discriminate]. intros H. apply some_inj in H.
  assert (r' = r) as -> by congruence. apply take_spec in E. destruct E as [-> E]. rewrite app_length. lia.
Qed.
Lemma tget16_length l w r : get16 l = Some (w, r) -> length l = (2 + length r)%nat.
Proof.
  unfold get16. destruct (take 2 l) as [[a r']|] eqn:E; cbn [bind]; [|discriminate].
  destruct (de_le16 a); cbn [bind]; [|discriminate]. intros H. apply some_inj in H.
  assert (r' = r) as -> by congruence. apply take_spec in E. destruct E as [-> E]. rewrite app_length. lia.
Qed.
Lemma getvec_length l v r : getvec l = Some (v, r) -> length l = (12 + length r)%nat.
Proof.
  unfold getvec. destruct (get32 l) as [[x r1]|] eqn:E1; cbn [bind]; [|discriminate].
  destruct (get32 r1) as [[y r2]|] eqn:E2; cbn [bind]; [|discriminate].
  destruct (get32 r2) as [[z r3]|] eqn:E3; cbn [bind]; [|discriminate].
  intros H. apply some_inj in H. assert (r3 = r) as -> by congruence.
  apply tget32_length in E1, E2, E3. lia.
Qed.
Lemma gettri_length l t r : gettri l = Some (t, r) -> length l = (50 + length r)%nat.
Proof.
  unfold gettri. destruct (getvec l) as [[n r1]|] eqn:E1; cbn [bind]; [|discriminate].
  destruct (getvec r1) as [[a r2]|] eqn:E2; cbn [bind]; [|discriminate].
  destruct (getvec r2) as [[b r3]|] eqn:E3; cbn [bind]; [|discriminate].
  destruct (getvec r3) as [[c r4]|] eqn:E4; cbn [bind]; [|discriminate].
  destruct (get16 r4) as [[at_ r5]|] eqn:E5; cbn [bind]; [|discriminate].
  intros H. apply some_inj in H. assert (r5 = r) as -> by congruence.
  apply getvec_length in E1, E2, E3, E4. apply tget16_length in E5. lia.
Qed.

(* the counter counts exactly the records of a successful read ... *)
Lemma read_tris_steps_ok fuel : forall count l ts, read_tris fuel count l = Some ts -> read_tris_steps fuel count l = length ts.
Proof.
  induction fuel as [|f IH]; intros count l ts H; cbn [read_tris read_tris_steps] in *.
  - destruct (count =? 0)%N; [|discriminate]. apply some_inj in H. subst. reflexivity.
  - destruct (count =? 0)%N; [apply some_inj in H; subst; reflexivity|].
    destruct (gettri l) as [[t r]|]; cbn [bind] in H; [|discriminate].
    destruct (read_tris f (count - 1) r) as [ts'|] eqn:E; cbn [bind] in H; [|discriminate].
    apply some_inj in H. subst. simpl. f_equal. apply IH. exact E.
Qed.
(* ... and is bounded by the input present, whatever count the header announces: the loop stops at the first
   missing record *)
Theorem stl_read_cost fuel : forall count l, (50 * read_tris_steps fuel count l <= length l + 50)%nat.
Proof.
  induction fuel as [|f IH]; intros count l; cbn [read_tris_steps].
  - destruct (count =? 0)%N; lia.
  - destruct (count =? 0)%N; [lia|].
    destruct (gettri l) as [[t r]|] eqn:E; [|lia].
    apply gettri_length in E. specialize (IH (count - 1)%N r). lia.
Qed.
End Cost.

Section SplatCost.
Import Splat.
Fixpoint read_raw_steps (fuel : nat) (l : list N) : nat :=
  match l with
  | [] => 0
  | _ => match fuel with
         | O => 0
         | S f => match get_raw l with
                  | None => 1
                  | Some (_, rest) => S (read_raw_steps f rest)
                  end
         end
  end.
Theorem splat_read_cost fuel : forall l, (32 * read_raw_steps fuel l <= length l + 32)%nat.
Proof.
  induction fuel as [|f IH]; intros l; destruct l as [|x l]; cbn [read_raw_steps]; try lia.
  destruct (get_raw (x :: l)) as [[r rest]|] eqn:E; [|lia].
  apply sget_raw_length in E. specialize (IH rest). lia.
Qed.
End SplatCost.

(* ================================================================== ASCII PLY: token cut inside a face line, whole file *)
Lemma rva_zero bs np (l : list (list tok)) : read_vertices_ascii bs np l 0 = Ok ([], l).
Proof. destruct l; reflexivity. Qed.

(* the vertex block consumes the same lines whatever follows them *)
Lemma read_vertices_ascii_ext bs np : forall lines n rows rest,
  read_vertices_ascii bs np lines n = Ok (rows, rest) ->
  forall l', read_vertices_ascii bs np (firstn (length lines - length rest) lines ++ l') n = Ok (rows, l').
Proof.
  induction lines as [|x l IH]; intros n rows rest H l'.
  - destruct n; cbn [read_vertices_ascii] in H; [|discriminate].
    assert (rows = [] /\ rest = []) as [-> ->] by (split; congruence). cbn [length Nat.sub firstn app]. apply rva_zero.
  - destruct n as [|n].
    + rewrite rva_zero in H. assert (rows = [] /\ rest = x :: l) as [-> ->] by (split; congruence).
      rewrite Nat.sub_diag. cbn [firstn app]. apply rva_zero.
    + cbn [read_vertices_ascii] in H. destruct x as [|t ts].
      * pose proof (sp_read_vertices_ascii bs np (S n) l rows rest H) as (c & Hc & Hr & _).
        assert (Hlen : length rest = (length l - c)%nat) by (rewrite Hr; apply skipn_length).
        replace (length ([] :: l) - length rest)%nat with (S (length l - length rest)) by (simpl length; lia).
        cbn [firstn app read_vertices_ascii]. apply IH. exact H.
      * destruct (length (t :: ts) <? np)%nat eqn:El; [discriminate|].
        destruct (mapR (fun b => read_ascii_row b (t :: ts)) bs) as [row|] eqn:Er; cbn [rbind] in H; [|discriminate].
        destruct (read_vertices_ascii bs np l n) as [[rows' r2]|] eqn:E2; cbn [rbind] in H; [|discriminate].
        assert (rows = row :: rows' /\ rest = r2) as [-> ->] by (split; congruence).
        pose proof (sp_read_vertices_ascii bs np n l rows' r2 E2) as (c & Hc & Hr & _).
        assert (Hlen : length r2 = (length l - c)%nat) by (rewrite Hr; apply skipn_length).
        replace (length ((t :: ts) :: l) - length r2)%nat with (S (length l - length r2)) by (simpl length; lia).
        cbn [firstn app read_vertices_ascii]. rewrite El, Er. cbn [rbind].
        rewrite (IH n rows' r2 E2 l'). reflexivity.
Qed.

(* number of lines of [l] the face block reads: blank lines are skipped, [n] non-blank ones are used *)
Fixpoint face_lines (l : list (list tok)) (n : nat) : nat :=
  match l, n with
  | _, O => 0
  | [], _ => 0
  | [] :: r, _ => S (face_lines r n)
  | _ :: r, S n' => S (face_lines r n')
  end.

Lemma face_lines_zero l : face_lines l 0 = 0%nat.
Proof. destruct l as [|[|? ?] ?]; reflexivity. Qed.

Lemma faces_ascii_partial rs ip tp : forall l n st r j m,
  faces_ascii rs ip tp l n st = Ok r -> (j < face_lines l n)%nat ->
  (0 < m)%nat -> (m < face_used rs (nth j l []))%nat ->
  faces_ascii rs ip tp (firstn j l ++ [firstn m (nth j l [])]) n st = Err EDeclared.
Proof.
  induction l as [|x l IH]; intros n st r j m H Hj Hm0 Hm.
  - destruct n; simpl in Hj; lia.
  - destruct n as [|n]; [rewrite face_lines_zero in Hj; lia|].
    cbn [faces_ascii] in H. destruct x as [|t ts].
    + destruct j as [|j].
      * cbn [nth] in Hm. destruct rs; simpl in Hm; lia.
      * cbn [firstn app nth faces_ascii]. apply (IH (S n) st r j m H); try assumption. simpl in Hj. lia.
    + destruct (face_ascii rs 0 ip tp (t :: ts) st) as [st'|] eqn:Ef; cbn [rbind] in H; [|discriminate].
      destruct j as [|j].
      * cbn [firstn app nth] in *. destruct m as [|m]; [lia|].
        cbn [firstn faces_ascii]. change (t :: firstn m ts) with (firstn (S m) (t :: ts)).
        rewrite (face_ascii_partial rs 0 ip tp (t :: ts) st st' (S m) Ef Hm). reflexivity.
      * destruct (face_out match tp with Some _ => true | None => false end st') as [[ix uv]|] eqn:Eo; cbn [rbind] in H; [|discriminate].
        destruct (faces_ascii rs ip tp l n st') as [[ixs uvs]|] eqn:E2; cbn [rbind] in H; [|discriminate].
        cbn [firstn app nth faces_ascii]. rewrite Ef. cbn [rbind]. rewrite Eo. cbn [rbind].
        rewrite (IH n st' (ixs, uvs) j m E2); try assumption; [reflexivity|]. simpl in Hj. lia.
Qed.

Section AsciiFaceCut.
Import String.
(* ply.ReadMesh on an ASCII file cut at a token boundary inside a face line: [jv] = lines of the vertex block,
   the cut is in line [j] of the face block after 0 < m tokens, fewer than that line's lists announce: reported *)
Theorem ply_ascii_face_line_cut hdr lines mesh h ve fe bs rows rest rs ip tp j m :
  read_mesh {| pf_header := hdr; pf_body := BodyAscii lines |} = Ok mesh ->
  parse_header hdr = Ok h ->
  find_last_elem "vertex"%string (h_elems h) None = Some ve ->
  find_last_elem "face"%string (h_elems h) None = Some fe ->
  build_readers false default_groups true (e_props ve) = Ok bs ->
  read_vertices_ascii bs (List.length (e_props ve)) lines (Z.to_nat (e_count ve)) = Ok (rows, rest) ->
  face_setup fe = Ok (rs, ip, tp) ->
  (j < face_lines rest (Z.to_nat (e_count fe)))%nat ->
  (0 < m)%nat -> (m < face_used rs (nth j rest []))%nat ->
  read_mesh {| pf_header := hdr;
               pf_body := BodyAscii (firstn (List.length lines - List.length rest) lines
                                     ++ firstn j rest ++ [firstn m (nth j rest [])]) |} = Err EDeclared.
Proof.
  intros H Hh Hve Hfe Hbs Hrv Hfs Hj Hm0 Hm.
  unfold read_mesh in *. cbn [pf_header pf_body] in *. rewrite Hh in *. cbn [rbind] in *.
  unfold read_body in *. rewrite Hve, Hfe in *. cbn [of_opt rbind] in *. cbv zeta in *.
  destruct (negb (all_scalar (e_props ve))); [discriminate|].
  destruct (e_count ve <? 0)%Z; [discriminate|].
  destruct (h_fmt h); cbv beta iota in *; try discriminate.
  rewrite Hbs in *. cbn [rbind] in *.
  rewrite (read_vertices_ascii_ext _ _ _ _ _ _ Hrv). rewrite Hrv in H. cbn [rbind] in *.
  rewrite Hfs in *. cbn [rbind] in *.
  destruct (faces_ascii rs ip tp rest (Z.to_nat (e_count fe)) fstate0) as [r|] eqn:Ef; cbn [rbind] in H; [|discriminate].
  rewrite (faces_ascii_partial rs ip tp rest _ fstate0 r j m Ef Hj Hm0 Hm). reflexivity.
Qed.
End AsciiFaceCut.
