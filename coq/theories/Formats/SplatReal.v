(* C15, scale clause: "scales equal up to float32 rounding of exp/log".
   splat.Write stores float32(exp s); splat.Read returns log of the stored float32.  Over the real
   numbers (Coq's Reals: this file, and only this file of C15, depends on the standard library's
   real-number axioms): if the rounding to float32 has relative error at most u <= 1/2 on the
   positive reals it is applied to, then  |ln (rnd (exp s)) - s| <= 2 u.
   For float32 in the normal range u = 2^-24, so the scale comes back within 2^-23 (absolute, on the
   log scale) -- the tolerance the harness applies to the Go float64 computation. *)
From Coq Require Import Reals Lra.
Open Scope R_scope.

Lemma ln_le_mono x y : 0 < x -> x <= y -> ln x <= ln y.
Proof.
  intros Hx [H| ->]; [left; apply ln_increasing; assumption|right; reflexivity].
Qed.

(* ln (1 + d) <= d *)
Lemma ln_1p_le d : -1 < d -> ln (1 + d) <= d.
Proof.
  intros Hd. rewrite <- (ln_exp d) at 2. apply ln_le_mono; [lra|]. apply exp_ineq1_le.
Qed.

(* -2u <= ln (1 - u) for 0 <= u <= 1/2 *)
Lemma ln_1m_ge u : 0 <= u <= / 2 -> - (2 * u) <= ln (1 - u).
Proof.
  intros Hu. rewrite <- (ln_exp (- (2 * u))). apply ln_le_mono; [apply exp_pos|].
  rewrite exp_Ropp. pose proof (exp_ineq1_le (2 * u)) as H.
  assert (Hp : 0 < 1 + 2 * u) by lra.
  apply Rle_trans with (/ (1 + 2 * u)).
  - apply Rinv_le_contravar; assumption.
  - apply Rmult_le_reg_r with (1 + 2 * u); [exact Hp|]. rewrite Rinv_l by lra. nra.
Qed.

Section ScaleReal.
  Variable rnd : R -> R.        (* rounding to float32 *)
  Variable u : R.               (* unit roundoff: 2^-24 for float32 in the normal range *)
  Variable dom : R -> Prop.     (* the positive reals on which the bound holds (normal range) *)
  Hypothesis u_range : 0 <= u <= / 2.
  Hypothesis rnd_rel : forall y, 0 < y -> dom y -> Rabs (rnd y - y) <= u * y.

  Theorem scale_roundtrip_real s : dom (exp s) -> Rabs (ln (rnd (exp s)) - s) <= 2 * u.
  Proof.
    intros Hdom. pose proof (exp_pos s) as Hy. set (y := exp s) in *.
    pose proof (rnd_rel y Hy Hdom) as Hr0.
    assert (Hr : - (u * y) <= rnd y - y <= u * y).
    { revert Hr0. unfold Rabs. destruct (Rcase_abs (rnd y - y)); intros; lra. }
    set (d := (rnd y - y) / y).
    assert (Ed : rnd y = y * (1 + d)) by (unfold d; field; lra).
    assert (Hd : - u <= d <= u).
    { unfold d. split.
      - apply Rmult_le_reg_r with y; [exact Hy|]. unfold Rdiv. rewrite Rmult_assoc, Rinv_l by lra. lra.
      - apply Rmult_le_reg_r with y; [exact Hy|]. unfold Rdiv. rewrite Rmult_assoc, Rinv_l by lra. lra. }
    rewrite Ed. rewrite ln_mult by lra. unfold y at 1. rewrite ln_exp.
    replace (s + ln (1 + d) - s) with (ln (1 + d)) by ring.
    apply Rabs_le. split.
    - apply Rle_trans with (ln (1 - u)); [apply ln_1m_ge; exact u_range|].
      apply ln_le_mono; lra.
    - apply Rle_trans with d; [apply ln_1p_le; lra|lra].
  Qed.
End ScaleReal.
