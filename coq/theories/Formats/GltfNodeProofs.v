(* C06 proofs, part E: tables, nodes and de-duplication.  The mesh table, the written-geometry table
   and the material table are consistent with the document; node j belongs to the j-th model that has a
   primitive; shared things are stored once. *)
From PF Require Import Base.Bytes Base.BytesProofs Formats.Gltf Formats.GltfProofs Formats.GltfDedupProofs.
From Coq Require Import ZifyN ZifyNat ZifyBool.
From Coq Require String.
Import String.StringSyntax.
Delimit Scope string_scope with string.
Ltac Zify.zify_post_hook ::= Z.div_mod_to_equations.
Open Scope list_scope.
Open Scope N_scope.

(* ------------------------------------------------------------------ find / lookup *)
Lemma find_app_some {A} (p : A -> bool) l l' x : find p l = Some x -> find p (l ++ l') = Some x.
Proof. induction l as [|y l IH]; cbn [find app]; [discriminate|]. destruct (p y); auto. Qed.
Lemma find_app_none {A} (p : A -> bool) l l' : find p l = None -> find p (l ++ l') = find p l'.
Proof. induction l as [|y l IH]; cbn [find app]; [reflexivity|]. destruct (p y); [discriminate|auto]. Qed.

Lemma find_mat_app m tab l i : find_mat m tab = Some i -> find_mat m (tab ++ l) = Some i.
Proof.
  unfold find_mat. destruct (find _ tab) as [e|] eqn:E; [|discriminate]. intros H.
  rewrite (find_app_some _ _ l _ E). exact H.
Qed.
Lemma find_mat_new m tab i : find_mat m tab = None -> find_mat m (tab ++ [(m, i)]) = Some i.
Proof.
  unfold find_mat. destruct (find _ tab) as [e|] eqn:E; [discriminate|]. intros _.
  rewrite (find_app_none _ _ _ E). cbn [find fst]. rewrite mat_equal_refl. reflexivity.
Qed.
(* materials equal by value are looked up alike *)
Lemma find_mat_equal m1 m2 tab : mat_equal m1 m2 = true -> find_mat m1 tab = find_mat m2 tab.
Proof.
  intros H. unfold find_mat. f_equal. induction tab as [|e tab IH]; cbn [find]; [reflexivity|].
  assert (E : mat_equal (fst e) m1 = mat_equal (fst e) m2).
  { destruct (mat_equal (fst e) m1) eqn:E1, (mat_equal (fst e) m2) eqn:E2; try reflexivity.
    - rewrite (mat_equal_trans _ _ _ E1 H) in E2. discriminate.
    - rewrite mat_equal_sym in H. rewrite (mat_equal_trans _ _ _ E2 H) in E1. discriminate. }
  rewrite E, IH. reflexivity.
Qed.
Lemma find_mat_In m tab i : find_mat m tab = Some i -> exists e, In (e, i) tab /\ mat_equal e m = true.
Proof.
  unfold find_mat. destruct (find _ tab) as [[e j]|] eqn:E; [|discriminate]. cbn. intros H. apply some_inj in H. subst j.
  apply find_some in E. destruct E as (E1 & E2). exists e. split; assumption.
Qed.

Lemma mesh_key_eqb_eq a b : mesh_key_eqb a b = true <-> a = b.
Proof.
  destruct a as [p m], b as [p' m']. unfold mesh_key_eqb. cbn [fst snd].
  rewrite andb_true_iff, N.eqb_eq, keyed_optN. split; [intros (-> & ->); reflexivity|intros E; split; congruence].
Qed.
Lemma find_mesh_In k tab i : find_mesh k tab = Some i -> In (k, i) tab.
Proof.
  unfold find_mesh. destruct (find _ tab) as [[k' j]|] eqn:E; [|discriminate]. cbn. intros H. apply some_inj in H. subst j.
  apply find_some in E. destruct E as (E1 & E2). cbn [fst] in E2. apply mesh_key_eqb_eq in E2. subst k'. exact E1.
Qed.
Lemma find_mesh_None k tab : find_mesh k tab = None -> ~ In k (map fst tab).
Proof.
  unfold find_mesh. destruct (find _ tab) eqn:E; [discriminate|]. intros _ Hin.
  apply in_map_iff in Hin. destruct Hin as (e & <- & He).
  pose proof (find_none _ _ E e He) as H. cbn beta in H.
  assert (mesh_key_eqb (fst e) (fst e) = true) by (apply mesh_key_eqb_eq; reflexivity). congruence.
Qed.
Lemma lookupN_cons_other {B} k k' (v : B) l : k <> k' -> lookupN k ((k', v) :: l) = lookupN k l.
Proof. intros H. cbn [lookupN]. destruct (k =? k') eqn:E; [lia|reflexivity]. Qed.
Lemma lookupN_cons_same {B} k (v : B) l : lookupN k ((k, v) :: l) = Some v.
Proof. cbn [lookupN]. rewrite N.eqb_refl. reflexivity. Qed.

Lemma seqN_snoc n : map N.of_nat (seq 0 (S n)) = map N.of_nat (seq 0 n) ++ [N.of_nat n].
Proof. rewrite seq_S, map_app. reflexivity. Qed.

(* ------------------------------------------------------------------ table invariant *)
Definition mode_of (m : pmesh) : option N := if me_point m then Some 0 else None.

Lemma NoDup_snoc {A} (l : list A) x : NoDup l -> ~ In x l -> NoDup (l ++ [x]).
Proof.
  intros H1 H2. induction l as [|y l IH]; cbn [app]; [repeat constructor; intros []|].
  inversion H1; subst. constructor.
  - rewrite in_app_iff. cbn [In]. intros [H|[<-|[]]]; [contradiction|]. apply H2. left. reflexivity.
  - apply IH; [assumption|]. intros H. apply H2. right. exact H.
Qed.

Section Tables.
Variable M : pmesh -> Prop.
Hypothesis M_ptr : forall m1 m2, M m1 -> M m2 -> me_ptr m1 = me_ptr m2 -> m1 = m2.

Definition wr_row (cks : list chunk) (row : N * (list (string * N) * N)) : Prop :=
  exists m, M m /\ me_ptr m = fst row /\ entry cks m (snd row).
(* a row ((mesh pointer, material index), mesh index) of the mesh table *)
Definition mesh_row (meshes : list gmesh) (wr : list (N * (list (string * N) * N))) (cks : list chunk)
                    (row : N * option N * N) : Prop :=
  exists gm p ii m, nth_error meshes (N.to_nat (snd row)) = Some gm /\ gm_prims gm = [p] /\
    gp_mat p = snd (fst row) /\ gp_idx p = Some ii /\
    lookupN (fst (fst row)) wr = Some (gp_attrs p, ii) /\
    M m /\ me_ptr m = fst (fst row) /\ gp_mode p = mode_of m /\ entry cks m (gp_attrs p, ii).
Definition mat_rows (tab : list (pmaterial * N)) (mats : list gmat) : Prop :=
  Forall2 (fun row g => exists x, g = fst (build_material (fst row) x)) tab mats /\
  map snd tab = map N.of_nat (seq 0 (length mats)).
Definition tinv (s : state) : Prop :=
  canon (st_b s) /\
  Forall (wr_row (b_chunks (st_b s))) (st_wr_tab s) /\
  Forall (mesh_row (st_meshes s) (st_wr_tab s) (b_chunks (st_b s))) (st_mesh_tab s) /\
  NoDup (map fst (st_mesh_tab s)) /\
  map snd (st_mesh_tab s) = map N.of_nat (seq 0 (length (st_meshes s))) /\
  mat_rows (st_mat_tab s) (st_mats s).

Lemma wr_row_ext cks ext row : wr_row cks row -> wr_row (cks ++ ext) row.
Proof. intros (m & H1 & H2 & H3). exists m. repeat split; auto. apply entry_ext, H3. Qed.
Lemma mesh_row_ext meshes wr cks ml wr' ext row :
  (forall k v, lookupN k wr = Some v -> lookupN k wr' = Some v) ->
  mesh_row meshes wr cks row -> mesh_row (meshes ++ ml) wr' (cks ++ ext) row.
Proof.
  intros Hw (gm & p & ii & m & H1 & H2 & H3 & H4 & H5 & H6 & H7 & H8 & H9).
  exists gm, p, ii, m. repeat split; auto.
  - rewrite nth_error_app1; [exact H1|]. apply nth_error_Some. congruence.
  - apply entry_ext, H9.
Qed.

Lemma add_material_tinv m s : tinv s -> tinv (snd (add_material m s)).
Proof.
  intros Ht. unfold add_material. destruct (find_mat m (st_mat_tab s)) eqn:Ef; [exact Ht|].
  destruct (build_material m (st_x s)) as [gm x] eqn:Eb. cbn [snd].
  destruct Ht as (Hc & Hw & Hm & Hn & Hv & (Hr & Hs)).
  unfold tinv. cbn [st_b st_wr_tab st_mesh_tab st_meshes st_mat_tab st_mats].
  repeat (split; [assumption|]). split.
  - apply Forall2_app; [exact Hr|]. constructor; [|constructor]. exists (st_x s). cbn [fst]. rewrite Eb. reflexivity.
  - rewrite map_app, app_length, Hs. cbn [map snd length]. rewrite Nat.add_1_r, seqN_snoc. reflexivity.
Qed.

Lemma resolve_material_tinv mo s : tinv s -> tinv (snd (resolve_material mo s)).
Proof.
  intros H. unfold resolve_material. destruct (mo_mat mo) as [pm|]; [|exact H].
  pose proof (add_material_tinv pm s H) as H'. destruct (add_material pm s). exact H'.
Qed.

Lemma place_mesh_tinv mo mati s : M (mo_mesh mo) -> tinv s -> tinv (snd (place_mesh mo mati s)).
Proof.
  intros HM Ht. unfold place_mesh. destruct (find_mesh _ _) eqn:Ef; [exact Ht|].
  destruct Ht as (Hc & Hw & Hm & Hn & Hv & Hmat). unfold mesh_data.
  set (m := mo_mesh mo) in *.
  destruct (lookupN (me_ptr m) (st_wr_tab s)) as [ai|] eqn:El.
  - (* geometry already written *)
    cbn [snd fst]. unfold tinv. cbn [st_b st_wr_tab st_mesh_tab st_meshes st_mat_tab st_mats].
    split; [exact Hc|]. split; [exact Hw|].
    assert (Hrow : wr_row (b_chunks (st_b s)) (me_ptr m, ai)).
    { rewrite Forall_forall in Hw. apply Hw. apply lookupN_In, El. }
    split; [|split; [|split; [|exact Hmat]]].
    + apply Forall_app. split.
      * eapply Forall_impl; [|exact Hm]. intros row Hr.
        rewrite <- (app_nil_r (b_chunks (st_b s))). eapply mesh_row_ext; [|exact Hr]. auto.
      * constructor; [|constructor]. destruct Hrow as (m' & HM' & Hp & He). cbn [fst snd] in *.
        assert (m' = m) by (apply M_ptr; assumption). subst m'.
        eexists _, _, (snd ai), m. cbn [fst snd gm_prims gp_mat gp_idx gp_attrs gp_mode].
        split; [rewrite nth_error_app2 by (unfold len; lia); unfold len; rewrite Nat2N.id, Nat.sub_diag; reflexivity|].
        repeat (split; [reflexivity|]).
        split; [destruct ai; exact El|]. split; [exact HM|]. split; [reflexivity|].
        split; [reflexivity|destruct ai; exact He].
    + rewrite map_app. cbn [map fst]. apply NoDup_snoc; [exact Hn|]. apply find_mesh_None, Ef.
    + rewrite !map_app, app_length, Hv. cbn [map snd length]. rewrite Nat.add_1_r, seqN_snoc. reflexivity.
  - (* geometry written now *)
    rewrite (canon_of_chunks _ Hc) at 1. rewrite write_mesh_data_of. cbn [snd fst].
    unfold tinv. cbn [st_b st_wr_tab st_mesh_tab st_meshes st_mat_tab st_mats b_chunks of_chunks].
    set (cks := b_chunks (st_b s)) in *.
    set (ai := (mesh_attrs (len cks) m, mesh_idx_pos (len cks) m)).
    assert (He : entry (cks ++ mesh_chunks m) m ai).
    { exists cks, []. rewrite app_nil_r. split; reflexivity. }
    assert (Hlk : forall k v, lookupN k (st_wr_tab s) = Some v -> lookupN k ((me_ptr m, ai) :: st_wr_tab s) = Some v).
    { intros k v Hk. rewrite lookupN_cons_other; [exact Hk|]. intros ->. congruence. }
    split; [apply of_chunks_canon|]. split; [|split; [|split; [|split; [|exact Hmat]]]].
    + constructor.
      * exists m. cbn [fst snd]. repeat split; auto.
      * eapply Forall_impl; [|exact Hw]. intros row. apply wr_row_ext.
    + apply Forall_app. split.
      * eapply Forall_impl; [|exact Hm]. intros row Hr. eapply mesh_row_ext; [exact Hlk|exact Hr].
      * constructor; [|constructor].
        eexists _, _, (snd ai), m. cbn [fst snd gm_prims gp_mat gp_idx gp_attrs gp_mode].
        split; [rewrite nth_error_app2 by (unfold len; lia); unfold len; rewrite Nat2N.id, Nat.sub_diag; reflexivity|].
        repeat (split; [reflexivity|]).
        split; [apply lookupN_cons_same|]. split; [exact HM|]. split; [reflexivity|].
        split; [reflexivity|exact He].
    + rewrite map_app. cbn [map fst]. apply NoDup_snoc; [exact Hn|]. apply find_mesh_None, Ef.
    + rewrite !map_app, app_length, Hv. cbn [map snd length]. rewrite Nat.add_1_r, seqN_snoc. reflexivity.
Qed.

Lemma add_mesh_tinv mo s : M (mo_mesh mo) -> tinv s -> tinv (snd (add_mesh mo s)).
Proof.
  intros HM Ht. unfold add_mesh. destruct (prim_count (mo_mesh mo) =? 0); [exact Ht|].
  pose proof (resolve_material_tinv mo s Ht) as H1. destruct (resolve_material mo s) as [mati s1]. cbn [snd] in H1.
  apply place_mesh_tinv; assumption.
Qed.

Lemma tinv_frame s s' ext : tinv s -> st_b s' = of_chunks (b_chunks (st_b s) ++ ext) ->
  st_wr_tab s' = st_wr_tab s -> st_meshes s' = st_meshes s -> st_mesh_tab s' = st_mesh_tab s ->
  st_mat_tab s' = st_mat_tab s -> st_mats s' = st_mats s -> tinv s'.
Proof.
  intros (Hc & Hw & Hm & Hn & Hv & Hmat) Eb Ew Em Et Emt Ems. unfold tinv. rewrite Eb, Ew, Em, Et, Emt, Ems.
  cbn [b_chunks of_chunks]. split; [apply of_chunks_canon|]. split; [|split; [|auto]].
  - eapply Forall_impl; [|exact Hw]. intros row. apply wr_row_ext.
  - eapply Forall_impl; [|exact Hm]. intros row Hr. rewrite <- (app_nil_r (st_meshes s)).
    eapply mesh_row_ext; [|exact Hr]. auto.
Qed.

Lemma add_node_tinv mo mi s : tinv s -> tinv (add_node mo mi s).
Proof.
  intros Ht. pose proof Ht as (Hc & _). unfold add_node, node_inst. destruct (mo_inst mo) as [|i0 ins].
  - apply (tinv_frame s _ []); try reflexivity; [exact Ht|]. rewrite app_nil_r. apply canon_of_chunks, Hc.
  - rewrite (canon_of_chunks _ Hc). rewrite write_instances_of.
    eapply (tinv_frame s _ (inst_chunks (i0 :: ins))); try reflexivity. exact Ht.
Qed.

Lemma add_light_tinv s l : tinv s -> tinv (add_light s l).
Proof.
  intros Ht. pose proof Ht as (Hc & _). apply (tinv_frame s _ []); try reflexivity; [exact Ht|].
  rewrite app_nil_r. apply canon_of_chunks, Hc.
Qed.
End Tables.

(* ------------------------------------------------------------------ nodes *)
Definition mat_for (mo : pmodel) (mati : option N) (tab : list (pmaterial * N)) : Prop :=
  match mo_mat mo with
  | None => mati = None
  | Some pm => exists i, mati = Some i /\ find_mat pm tab = Some i
  end.
Definition inst_for (mo : pmodel) (nd : gnode) (cks : list chunk) : Prop :=
  match mo_inst mo with
  | [] => gn_inst nd = None /\ gn_exts nd = []
  | _ => exists pre post, cks = pre ++ inst_chunks (mo_inst mo) ++ post /\
         gn_inst nd = Some [("TRANSLATION"%string, len pre); ("SCALE"%string, len pre + 1); ("ROTATION"%string, len pre + 2)] /\
         gn_exts nd = ["EXT_mesh_gpu_instancing"%string]
  end.
(* node [nd] is the node of model [mo]: name and TRS copied, its mesh is the mesh-table row of
   (mesh pointer, material index), the material index is the one the material table gives the
   model's material, instance accessors are the block [inst_chunks] *)
Definition node_for (s : state) (mo : pmodel) (nd : gnode) : Prop :=
  gn_name nd = mo_name mo /\ gn_t nd = mo_t mo /\ gn_r nd = mo_r mo /\ gn_s nd = mo_s mo /\ gn_light nd = None /\
  (exists mi mati, gn_mesh nd = Some mi /\ In ((me_ptr (mo_mesh mo), mati), mi) (st_mesh_tab s) /\
                   mat_for mo mati (st_mat_tab s)) /\
  inst_for mo nd (b_chunks (st_b s)).

Definition next (s s' : state) : Prop :=
  (exists l, st_mesh_tab s' = st_mesh_tab s ++ l) /\ (exists l, st_mat_tab s' = st_mat_tab s ++ l) /\
  (exists l, b_chunks (st_b s') = b_chunks (st_b s) ++ l).
Lemma next_refl s : next s s.
Proof. repeat split; exists []; rewrite app_nil_r; reflexivity. Qed.
Lemma next_trans a b c : next a b -> next b c -> next a c.
Proof.
  intros ((l1 & E1) & (l2 & E2) & (l3 & E3)) ((k1 & F1) & (k2 & F2) & (k3 & F3)).
  repeat split; [exists (l1 ++ k1)|exists (l2 ++ k2)|exists (l3 ++ k3)]; rewrite app_assoc; congruence.
Qed.

Lemma mat_for_ext mo mati tab l : mat_for mo mati tab -> mat_for mo mati (tab ++ l).
Proof.
  unfold mat_for. destruct (mo_mat mo) as [pm|]; [|auto]. intros (i & E & H). exists i. split; [exact E|].
  apply find_mat_app, H.
Qed.
Lemma inst_for_ext mo nd cks l : inst_for mo nd cks -> inst_for mo nd (cks ++ l).
Proof.
  unfold inst_for. destruct (mo_inst mo); [auto|]. intros (pre & post & -> & H). exists pre, (post ++ l).
  split; [rewrite <- !app_assoc; reflexivity|exact H].
Qed.
Lemma node_for_next s s' mo nd : next s s' -> node_for s mo nd -> node_for s' mo nd.
Proof.
  intros ((l1 & E1) & (l2 & E2) & (l3 & E3)) (H1 & H2 & H3 & H4 & H5 & (mi & mati & H6 & H7 & H8) & H9).
  unfold node_for. rewrite E1, E2, E3. repeat (split; [assumption|]). split.
  - exists mi, mati. split; [exact H6|]. split; [apply in_or_app; left; exact H7|apply mat_for_ext, H8].
  - apply inst_for_ext, H9.
Qed.

(* what the three steps of add_model do to the tables *)
Lemma resolve_material_facts mo s :
  let r := resolve_material mo s in
  mat_for mo (fst r) (st_mat_tab (snd r)) /\ next s (snd r) /\
  st_nodes (snd r) = st_nodes s /\ st_scene (snd r) = st_scene s /\ st_lights (snd r) = st_lights s.
Proof.
  cbv zeta. unfold resolve_material, mat_for. destruct (mo_mat mo) as [pm|]; [|cbn; repeat split; try apply next_refl].
  unfold add_material. destruct (find_mat pm (st_mat_tab s)) as [i|] eqn:Ef.
  - cbn [fst snd]. split; [exists i; auto|]. repeat split; apply next_refl.
  - destruct (build_material pm (st_x s)) as [gm x]. cbn [fst snd st_mat_tab st_nodes st_scene st_lights].
    split; [eexists; split; [reflexivity|apply find_mat_new, Ef]|]. repeat split; cbn; try (exists []; rewrite app_nil_r; reflexivity).
    eexists; reflexivity.
Qed.

Lemma place_mesh_ext mo mati s : canon (st_b s) ->
  exists ext, st_b (snd (place_mesh mo mati s)) = of_chunks (b_chunks (st_b s) ++ ext).
Proof.
  intros Hc. unfold place_mesh. destruct (find_mesh _ _).
  - exists []. rewrite app_nil_r. apply canon_of_chunks, Hc.
  - destruct (mesh_data_b (mo_mesh mo) s Hc) as [E|(_ & E)].
    + destruct (mesh_data (mo_mesh mo) s) as [[ai b] wr]. cbn [fst snd st_b] in *. subst b.
      exists []. rewrite app_nil_r. apply canon_of_chunks, Hc.
    + rewrite E. cbn [snd st_b]. eexists. reflexivity.
Qed.

Lemma place_mesh_facts mo mati s : canon (st_b s) ->
  let r := place_mesh mo mati s in
  (exists mi, fst r = Some mi /\ In ((me_ptr (mo_mesh mo), mati), mi) (st_mesh_tab (snd r))) /\ next s (snd r) /\
  st_mat_tab (snd r) = st_mat_tab s /\
  st_nodes (snd r) = st_nodes s /\ st_scene (snd r) = st_scene s /\ st_lights (snd r) = st_lights s.
Proof.
  intros Hc. cbv zeta.
  pose proof (place_mesh_ext mo mati s Hc) as (ext & Eb).
  unfold place_mesh in *. destruct (find_mesh _ _) as [i|] eqn:Ef.
  - cbn [fst snd]. split; [exists i; split; [reflexivity|apply find_mesh_In, Ef]|]. repeat split; apply next_refl.
  - destruct (mesh_data (mo_mesh mo) s) as [[ai b] wr]. cbn [fst snd st_b st_mesh_tab st_mat_tab st_nodes st_scene st_lights] in *.
    split; [eexists; split; [reflexivity|apply in_or_app; right; left; reflexivity]|].
    split; [|repeat split]. repeat split; cbn [st_mesh_tab st_mat_tab st_b].
    + eexists; reflexivity.
    + exists []; rewrite app_nil_r; reflexivity.
    + exists ext. rewrite Eb. reflexivity.
Qed.

Lemma add_node_facts mo mi mati s : canon (st_b s) ->
  In ((me_ptr (mo_mesh mo), mati), mi) (st_mesh_tab s) -> mat_for mo mati (st_mat_tab s) ->
  let s' := add_node mo mi s in
  exists nd, st_nodes s' = st_nodes s ++ [nd] /\ node_for s' mo nd /\ next s s' /\
             st_scene s' = st_scene s ++ [len (st_nodes s)] /\ st_lights s' = st_lights s.
Proof.
  intros Hc Hin Hmat. cbv zeta. unfold add_node, node_inst.
  destruct (mo_inst mo) as [|i0 ins] eqn:Ei.
  - eexists. split; [reflexivity|]. split; [|split; [repeat split; cbn [st_mesh_tab st_mat_tab st_b]; exists []; rewrite app_nil_r; reflexivity|split; reflexivity]].
    unfold node_for. cbn [gn_name gn_t gn_r gn_s gn_light gn_mesh st_mesh_tab st_mat_tab st_b].
    repeat (split; [reflexivity|]). split; [exists mi, mati; auto|].
    unfold inst_for. rewrite Ei. split; reflexivity.
  - rewrite (canon_of_chunks _ Hc). rewrite write_instances_of.
    eexists. split; [reflexivity|]. split; [|split; [|split; reflexivity]].
    + unfold node_for. cbn [gn_name gn_t gn_r gn_s gn_light gn_mesh st_mesh_tab st_mat_tab st_b b_chunks of_chunks].
      repeat (split; [reflexivity|]). split; [exists mi, mati; auto|].
      unfold inst_for. rewrite Ei. exists (b_chunks (st_b s)), []. rewrite app_nil_r. repeat split.
    + repeat split; cbn [st_mesh_tab st_mat_tab st_b b_chunks of_chunks];
        try (exists []; rewrite app_nil_r; reflexivity). eexists; reflexivity.
Qed.

Section Nodes.
Variable M : pmesh -> Prop.
Hypothesis M_ptr : forall m1 m2, M m1 -> M m2 -> me_ptr m1 = me_ptr m2 -> m1 = m2.

Definition seqN (n : nat) : list N := map N.of_nat (seq 0 n).
Definition ninv (done : list pmodel) (s : state) : Prop :=
  tinv M s /\ Forall2 (node_for s) (filter live done) (st_nodes s) /\
  st_scene s = seqN (length (st_nodes s)) /\ st_lights s = [].

Lemma Forall2_node_next s s' ms nds : next s s' -> Forall2 (node_for s) ms nds -> Forall2 (node_for s') ms nds.
Proof. intros Hn H. induction H; constructor; auto. eapply node_for_next; eauto. Qed.

Lemma add_model_ninv done s mo : M (mo_mesh mo) -> ninv done s -> ninv (done ++ [mo]) (add_model s mo).
Proof.
  intros HM (Ht & Hn & Hs & Hl). unfold ninv. rewrite filter_app. cbn [filter].
  change (live mo) with (negb (prim_count (mo_mesh mo) =? 0)). unfold add_model, add_mesh.
  destruct (prim_count (mo_mesh mo) =? 0) eqn:Ep; cbn [negb].
  - rewrite app_nil_r. split; [exact Ht|]. auto.
  - pose proof (resolve_material_tinv M mo s Ht) as Ht1.
    pose proof (resolve_material_facts mo s) as (Hm1 & Hx1 & En1 & Es1 & El1).
    destruct (resolve_material mo s) as [mati s1]. cbn [fst snd] in *.
    pose proof (place_mesh_tinv M M_ptr mo mati s1 HM Ht1) as Ht2.
    pose proof (place_mesh_facts mo mati s1 (proj1 Ht1)) as ((mi & Er & Hin) & Hx2 & Em2 & En2 & Es2 & El2).
    destruct (place_mesh mo mati s1) as [r s2]. cbn [fst snd] in *. subst r.
    assert (Hm2 : mat_for mo mati (st_mat_tab s2)) by (rewrite Em2; exact Hm1).
    pose proof (add_node_tinv M mo mi s2 Ht2) as Ht3.
    pose proof (add_node_facts mo mi mati s2 (proj1 Ht2) Hin Hm2) as (nd & En3 & Hnd & Hx3 & Es3 & El3).
    split; [exact Ht3|]. split; [|split].
    + rewrite En3, En2, En1. apply Forall2_app; [|constructor; [exact Hnd|constructor]].
      eapply Forall2_node_next; [|exact Hn]. eapply next_trans; [exact Hx1|]. eapply next_trans; eauto.
    + rewrite Es3, En3, Es2, Es1, En2, En1, Hs, app_length. cbn [length]. unfold seqN, len.
      rewrite Nat.add_1_r, seqN_snoc. reflexivity.
    + rewrite El3, El2, El1. exact Hl.
Qed.

Lemma fold_models_ninv ms done s : Forall (fun mo => M (mo_mesh mo)) ms -> ninv done s ->
  ninv (done ++ ms) (fold_left add_model ms s).
Proof.
  revert done s. induction ms as [|mo r IH]; intros done s HM H; cbn [fold_left]; [rewrite app_nil_r; exact H|].
  inversion HM; subst. replace (done ++ mo :: r) with ((done ++ [mo]) ++ r) by (rewrite <- app_assoc; reflexivity).
  apply IH; [assumption|]. apply add_model_ninv; assumption.
Qed.

(* lights: one node per light after the model nodes *)
Definition light_node (j : N) (l : plight) : gnode :=
  {| gn_name := ""%string; gn_mesh := None; gn_t := Some (li_pos l); gn_r := None; gn_s := None;
     gn_inst := None; gn_light := Some j; gn_exts := ["KHR_lights_punctual"%string] |}.
Fixpoint light_nodes (j : N) (ls : list plight) : list gnode :=
  match ls with [] => [] | l :: r => light_node j l :: light_nodes (j + 1) r end.

Definition linv (ms : list pmodel) (nl : nat) (ls : list plight) (s : state) : Prop :=
  tinv M s /\
  (exists mn, st_nodes s = mn ++ light_nodes 0 ls /\ length mn = nl /\ Forall2 (node_for s) (filter live ms) mn) /\
  st_scene s = seqN (length (st_nodes s)) /\ st_lights s = map light_out ls.

Lemma light_nodes_snoc j ls l : light_nodes j (ls ++ [l]) = light_nodes j ls ++ [light_node (j + len ls) l].
Proof.
  revert j. induction ls as [|x ls IH]; intros j; cbn [light_nodes app].
  - unfold len. cbn. rewrite N.add_0_r. reflexivity.
  - rewrite IH. replace (j + 1 + len ls) with (j + len (x :: ls)) by (unfold len; cbn [length]; lia). reflexivity.
Qed.

Lemma add_light_linv ms nl ls s l : linv ms nl ls s -> linv ms nl (ls ++ [l]) (add_light s l).
Proof.
  intros (Ht & (mn & En & Hlen & Hn) & Hs & Hl). split; [apply add_light_tinv, Ht|]. split; [|split].
  - exists mn. split; [|split; [exact Hlen|]].
    + unfold add_light. cbn [st_nodes st_lights]. rewrite En, light_nodes_snoc, <- app_assoc. do 3 f_equal.
      unfold light_node. rewrite Hl. unfold len. rewrite map_length. reflexivity.
    + eapply Forall2_node_next; [|exact Hn]. unfold add_light.
      repeat split; cbn [st_mesh_tab st_mat_tab st_b]; exists []; rewrite app_nil_r; reflexivity.
  - unfold add_light. cbn [st_scene st_nodes]. rewrite Hs, app_length. cbn [length]. unfold seqN, len.
    rewrite Nat.add_1_r, seqN_snoc. reflexivity.
  - unfold add_light. cbn [st_lights]. rewrite Hl, map_app. reflexivity.
Qed.

Lemma fold_lights_linv ms nl ls done s : linv ms nl done s -> linv ms nl (done ++ ls) (fold_left add_light ls s).
Proof.
  revert done s. induction ls as [|l r IH]; intros done s H; cbn [fold_left]; [rewrite app_nil_r; exact H|].
  replace (done ++ l :: r) with ((done ++ [l]) ++ r) by (rewrite <- app_assoc; reflexivity).
  apply IH, add_light_linv, H.
Qed.
End Nodes.

(* ------------------------------------------------------------------ the whole scene *)
Definition scene_mesh (sc : scene) (m : pmesh) : Prop := exists mo, In mo (sc_models sc) /\ m = mo_mesh mo.
(* pointer identity is consistent with values: two models with the same mesh pointer have the same mesh *)
Definition scene_ptr_ok (sc : scene) : Prop :=
  forall m1 m2, scene_mesh sc m1 -> scene_mesh sc m2 -> me_ptr m1 = me_ptr m2 -> m1 = m2.

Lemma Forall2_len {A B} (R : A -> B -> Prop) l l' : Forall2 R l l' -> length l = length l'.
Proof. induction 1; cbn [length]; congruence. Qed.

Lemma tinv_init (M : pmesh -> Prop) : tinv M init.
Proof.
  unfold tinv, init. cbn. split; [apply canon_init|]. repeat split; try constructor.
Qed.

Theorem run_linv sc : scene_ptr_ok sc ->
  linv (scene_mesh sc) (sc_models sc) (length (filter live (sc_models sc))) (sc_lights sc) (run sc).
Proof.
  intros Hp. unfold run, add_scene.
  assert (H0 : ninv (scene_mesh sc) [] init).
  { split; [apply tinv_init|]. cbn. repeat split; constructor. }
  assert (HM : Forall (fun mo => scene_mesh sc (mo_mesh mo)) (sc_models sc)).
  { apply Forall_forall. intros mo Hin. exists mo. auto. }
  pose proof (fold_models_ninv _ Hp (sc_models sc) [] init HM H0) as (Ht & Hn & Hs & Hl). cbn [app] in *.
  apply (fold_lights_linv _ (sc_models sc) _ (sc_lights sc) [] _).
  split; [exact Ht|]. split; [|split; [exact Hs|exact Hl]].
  exists (st_nodes (fold_left add_model (sc_models sc) init)). cbn [light_nodes]. rewrite app_nil_r.
  split; [reflexivity|]. split; [symmetry; eapply Forall2_len; exact Hn|exact Hn].
Qed.

Lemma NoDup_map_inj {A B} (f : A -> B) l a b : NoDup (map f l) -> In a l -> In b l -> f a = f b -> a = b.
Proof.
  induction l as [|x l IH]; cbn [map In]; [tauto|]. intros Hn Ha Hb E. inversion Hn as [|? ? Hx Hn']; subst.
  destruct Ha as [<-|Ha], Hb as [<-|Hb]; auto.
  - exfalso. apply Hx. rewrite E. apply in_map, Hb.
  - exfalso. apply Hx. rewrite <- E. apply in_map, Ha.
Qed.
Lemma seqN_NoDup n : NoDup (seqN n).
Proof.
  unfold seqN. generalize 0%nat. induction n as [|n IH]; intros a; cbn [seq map]; constructor.
  - intros H. apply in_map_iff in H. destruct H as (j & E & Hj). apply in_seq in Hj. lia.
  - apply IH.
Qed.
Lemma seqN_In i n : In i (seqN n) -> (N.to_nat i < n)%nat.
Proof. unfold seqN. intros H. apply in_map_iff in H. destruct H as (j & <- & Hj). apply in_seq in Hj. lia. Qed.

(* everything the document says about the node of one model *)
Record node_doc (st : state) (mo : pmodel) (nd : gnode) (mi : N) (p : gprim) (ii : N) : Prop := {
  nd_name : gn_name nd = mo_name mo;
  nd_trs : gn_t nd = mo_t mo /\ gn_r nd = mo_r mo /\ gn_s nd = mo_s mo;
  nd_kind : gn_light nd = None /\ gn_mesh nd = Some mi;
  nd_mesh : exists gm, nth_error (st_meshes st) (N.to_nat mi) = Some gm /\ gm_prims gm = [p];
  nd_prim : gp_idx p = Some ii /\ gp_mode p = mode_of (mo_mesh mo) /\
            entry (b_chunks (st_b st)) (mo_mesh mo) (gp_attrs p, ii);
  nd_tabs : In ((me_ptr (mo_mesh mo), gp_mat p), mi) (st_mesh_tab st) /\
            lookupN (me_ptr (mo_mesh mo)) (st_wr_tab st) = Some (gp_attrs p, ii);
  nd_mat : mat_for mo (gp_mat p) (st_mat_tab st);
  nd_inst : inst_for mo nd (b_chunks (st_b st)) }.

Lemma node_doc_of (M : pmesh -> Prop) st mo nd :
  (forall m1 m2, M m1 -> M m2 -> me_ptr m1 = me_ptr m2 -> m1 = m2) -> M (mo_mesh mo) ->
  tinv M st -> node_for st mo nd -> exists mi p ii, node_doc st mo nd mi p ii.
Proof.
  intros Hptr HM (_ & _ & Hrows & _) (H1 & H2 & H3 & H4 & H5 & (mi & mati & H6 & H7 & H8) & H9).
  rewrite Forall_forall in Hrows. destruct (Hrows _ H7) as (gm & p & ii & m & R1 & R2 & R3 & R4 & R5 & R6 & R7 & R8 & R9).
  cbn [fst snd] in *. assert (m = mo_mesh mo) by (apply Hptr; assumption). subst m mati.
  exists mi, p, ii. constructor; auto. exists gm. auto.
Qed.

(* node j is the node of the j-th model with a primitive; lights follow *)
Theorem nodes_of_run sc : scene_ptr_ok sc ->
  let st := run sc in
  exists mn, st_nodes st = mn ++ light_nodes 0 (sc_lights sc) /\
    Forall2 (fun mo nd => exists mi p ii, node_doc st mo nd mi p ii) (filter live (sc_models sc)) mn /\
    st_scene st = seqN (length (st_nodes st)) /\ st_lights st = map light_out (sc_lights sc).
Proof.
  intros Hp. cbv zeta. destruct (run_linv sc Hp) as (Ht & (mn & En & _ & Hn) & Hs & Hl).
  exists mn. split; [exact En|]. split; [|split; assumption].
  assert (HM : Forall (fun mo => scene_mesh sc (mo_mesh mo)) (filter live (sc_models sc))).
  { apply Forall_forall. intros mo Hin. apply filter_In in Hin. exists mo. tauto. }
  clear En Hs Hl. revert HM. induction Hn as [|mo nd ms nds H _ IH]; intros HM; constructor.
  - inversion HM; subst. apply (node_doc_of (scene_mesh sc)); [exact Hp|assumption|exact Ht|exact H].
  - inversion HM; subst. auto.
Qed.

(* ------------------------------------------------------------------ de-duplication *)
Theorem dedup_nodes (M : pmesh -> Prop) st mo1 nd1 mi1 p1 ii1 mo2 nd2 mi2 p2 ii2 :
  tinv M st -> node_doc st mo1 nd1 mi1 p1 ii1 -> node_doc st mo2 nd2 mi2 p2 ii2 ->
  (* same mesh pointer: the same accessors *)
  (me_ptr (mo_mesh mo1) = me_ptr (mo_mesh mo2) -> gp_attrs p1 = gp_attrs p2 /\ gp_idx p1 = gp_idx p2) /\
  (* exactly one mesh entry per (mesh pointer, material entry) *)
  (mi1 = mi2 <-> me_ptr (mo_mesh mo1) = me_ptr (mo_mesh mo2) /\ gp_mat p1 = gp_mat p2) /\
  (* exactly one material entry per material value *)
  (forall pm1 pm2, mo_mat mo1 = Some pm1 -> mo_mat mo2 = Some pm2 ->
     (gp_mat p1 = gp_mat p2 <-> mat_equal pm1 pm2 = true)) /\
  (mo_mat mo1 = None -> gp_mat p1 = None).
Proof.
  intros (_ & _ & _ & Hnk & Hnv & (_ & Hmv)) D1 D2.
  destruct D1 as [_ _ _ _ (I1 & _) (T1 & L1) Mt1 _]. destruct D2 as [_ _ _ _ (I2 & _) (T2 & L2) Mt2 _].
  split; [|split; [|split]].
  - intros E. rewrite E in L1. rewrite L1 in L2. apply some_inj in L2. inversion L2. split; congruence.
  - split.
    + intros ->. assert (E : (me_ptr (mo_mesh mo1), gp_mat p1, mi2) = (me_ptr (mo_mesh mo2), gp_mat p2, mi2)).
      { apply (NoDup_map_inj snd (st_mesh_tab st)); auto. rewrite Hnv. apply seqN_NoDup. }
      inversion E. auto.
    + intros (E1 & E2). assert (E : (me_ptr (mo_mesh mo1), gp_mat p1, mi1) = (me_ptr (mo_mesh mo2), gp_mat p2, mi2)).
      { apply (NoDup_map_inj fst (st_mesh_tab st)); auto. cbn [fst]. congruence. }
      inversion E. reflexivity.
  - intros pm1 pm2 E1 E2. unfold mat_for in Mt1, Mt2. rewrite E1 in Mt1. rewrite E2 in Mt2.
    destruct Mt1 as (i1 & G1 & F1). destruct Mt2 as (i2 & G2 & F2). rewrite G1, G2. split.
    + intros E. apply some_inj in E. subst i2.
      apply find_mat_In in F1, F2. destruct F1 as (e1 & In1 & Q1). destruct F2 as (e2 & In2 & Q2).
      assert (E : (e1, i1) = (e2, i1)).
      { apply (NoDup_map_inj snd (st_mat_tab st)); auto. rewrite Hmv. apply seqN_NoDup. }
      inversion E. subst e2. rewrite mat_equal_sym in Q1. eapply mat_equal_trans; eauto.
    + intros E. rewrite (find_mat_equal _ _ _ E) in F1. congruence.
  - intros E. unfold mat_for in Mt1. rewrite E in Mt1. exact Mt1.
Qed.

Lemma Forall2_nth_l {A B} (R : A -> B -> Prop) l l' j a : Forall2 R l l' -> nth_error l j = Some a ->
  exists b, nth_error l' j = Some b /\ R a b.
Proof.
  intros H. revert j. induction H as [|x y l l' Hxy _ IH]; intros [|j]; cbn [nth_error]; try discriminate.
  - intros E. apply some_inj in E. subst. eauto.
  - apply IH.
Qed.
Lemma seqN_nth n j i : nth_error (seqN n) j = Some i -> i = N.of_nat j.
Proof.
  unfold seqN. rewrite nth_error_map. destruct (nth_error (seq 0 n) j) as [k|] eqn:E; [|discriminate].
  cbn. intros H. apply some_inj in H. subst i. f_equal.
  assert (Hj : (j < n)%nat) by (rewrite <- (seq_length n 0); apply nth_error_Some; congruence).
  rewrite (nth_error_nth' _ 0%nat) in E by (rewrite seq_length; exact Hj). rewrite seq_nth in E by exact Hj.
  apply some_inj in E. lia.
Qed.

(* the material entry of a model's primitive was built from a material equal by value to the model's *)
Theorem material_built (M : pmesh -> Prop) st mo nd mi p ii pm : tinv M st -> node_doc st mo nd mi p ii ->
  mo_mat mo = Some pm ->
  exists i e x g, gp_mat p = Some i /\ mat_equal e pm = true /\
                  nth_error (st_mats st) (N.to_nat i) = Some g /\ g = fst (build_material e x).
Proof.
  intros (_ & _ & _ & _ & _ & (Hr & Hv)) D E. destruct D as [_ _ _ _ _ _ Mt _].
  unfold mat_for in Mt. rewrite E in Mt. destruct Mt as (i & G & F).
  apply find_mat_In in F. destruct F as (e & Hin & Q). apply In_nth_error in Hin. destruct Hin as (j & Hj).
  assert (Hi : i = N.of_nat j).
  { apply (seqN_nth (length (st_mats st))). unfold seqN. rewrite <- Hv, nth_error_map, Hj. reflexivity. }
  destruct (Forall2_nth_l _ _ _ _ _ Hr Hj) as (g & Hg & (x & Hx)). cbn [fst] in Hx.
  exists i, e, x, g. subst i. rewrite Nat2N.id. auto.
Qed.

(* ------------------------------------------------------------------ instances *)
Lemma acc_at cks n ck : Forall chunk_ok cks -> nth_error cks n = Some ck ->
  exists a, nth_error (accs_of 0 cks) n = Some a /\ a_comp a = comp_code (ck_comp ck) /\ a_k a = ck_k ck /\
            a_count a = ck_count ck /\
            decode_acc (views_of 0 cks) (flat_map chunk_bytes cks) a = Some (expand (ck_data ck)).
Proof.
  intros Hk Hn. destruct (acc_view_of cks n ck Hn) as (Ha & _). eexists. split; [exact Ha|].
  repeat split. apply decode_canonical; assumption.
Qed.

(* EXT_mesh_gpu_instancing: the three accessors hold exactly the instances' translations, scales and
   rotations (float32 words), one element per instance *)
Theorem instances_decode cks mo nd : Forall chunk_ok cks -> inst_for mo nd cks ->
  match mo_inst mo with
  | [] => gn_inst nd = None
  | ins => exists t s r at_ as_ ar,
      gn_inst nd = Some [("TRANSLATION"%string, t); ("SCALE"%string, s); ("ROTATION"%string, r)] /\
      In "EXT_mesh_gpu_instancing"%string (gn_exts nd) /\
      nth_error (accs_of 0 cks) (N.to_nat t) = Some at_ /\ nth_error (accs_of 0 cks) (N.to_nat s) = Some as_ /\
      nth_error (accs_of 0 cks) (N.to_nat r) = Some ar /\
      (a_comp at_, a_k at_, a_count at_) = (5126, 3, len ins) /\
      (a_comp as_, a_k as_, a_count as_) = (5126, 3, len ins) /\
      (a_comp ar, a_k ar, a_count ar) = (5126, 4, len ins) /\
      decode_acc (views_of 0 cks) (flat_map chunk_bytes cks) at_ = Some (map in_t ins) /\
      decode_acc (views_of 0 cks) (flat_map chunk_bytes cks) as_ = Some (map in_s ins) /\
      decode_acc (views_of 0 cks) (flat_map chunk_bytes cks) ar = Some (map in_r ins)
  end.
Proof.
  intros Hk. unfold inst_for. destruct (mo_inst mo) as [|i0 ins] eqn:Ei; [tauto|].
  intros (pre & post & Ec & Eg & Ee). set (l := i0 :: ins) in *.
  assert (N0 : nth_error cks (N.to_nat (len pre)) = Some (vec_chunk 3 CFloat (plain (map in_t l)))).
  { rewrite Ec. unfold len. rewrite Nat2N.id, nth_error_app2, Nat.sub_diag by lia. reflexivity. }
  assert (N1 : nth_error cks (N.to_nat (len pre + 1)) = Some (vec_chunk 3 CFloat (plain (map in_s l)))).
  { rewrite Ec. unfold len. replace (N.to_nat (N.of_nat (length pre) + 1)) with (length pre + 1)%nat by lia.
    rewrite nth_error_app2 by lia. replace (length pre + 1 - length pre)%nat with 1%nat by lia. reflexivity. }
  assert (N2 : nth_error cks (N.to_nat (len pre + 2)) = Some (vec_chunk 4 CFloat (plain (map in_r l)))).
  { rewrite Ec. unfold len. replace (N.to_nat (N.of_nat (length pre) + 2)) with (length pre + 2)%nat by lia.
    rewrite nth_error_app2 by lia. replace (length pre + 2 - length pre)%nat with 2%nat by lia. reflexivity. }
  destruct (acc_at _ _ _ Hk N0) as (a0 & A0 & C0 & K0 & U0 & D0).
  destruct (acc_at _ _ _ Hk N1) as (a1 & A1 & C1 & K1 & U1 & D1).
  destruct (acc_at _ _ _ Hk N2) as (a2 & A2 & C2 & K2 & U2 & D2).
  exists (len pre), (len pre + 1), (len pre + 2), a0, a1, a2.
  cbn [ck_comp ck_k ck_data vec_chunk comp_code] in *. unfold ck_count in *. cbn [ck_data vec_chunk] in *.
  rewrite vcount_plain, len_map in U0, U1, U2. rewrite expand_plain in D0, D1, D2.
  split; [exact Eg|]. split; [rewrite Ee; left; reflexivity|].
  repeat (split; [assumption|]). repeat split; try assumption; congruence.
Qed.

(* ------------------------------------------------------------------ scene-level corollaries *)
Lemma Forall2_impl {A B} (R R' : A -> B -> Prop) l l' : (forall a b, R a b -> R' a b) -> Forall2 R l l' -> Forall2 R' l l'.
Proof. intros H F. induction F; constructor; auto. Qed.
Lemma Forall2_combine_In {A B} (R : A -> B -> Prop) l l' a b : Forall2 R l l' -> In (a, b) (combine l l') -> R a b.
Proof.
  intros F. induction F as [|x y l l' Hxy _ IH]; cbn [combine In]; [tauto|].
  intros [E|H]; [inversion E; subst; exact Hxy|auto].
Qed.

Definition model_nodes (sc : scene) : list gnode := firstn (length (filter live (sc_models sc))) (st_nodes (run sc)).

Lemma model_nodes_spec sc : scene_ptr_ok sc ->
  st_nodes (run sc) = model_nodes sc ++ light_nodes 0 (sc_lights sc) /\
  Forall2 (fun mo nd => exists mi p ii, node_doc (run sc) mo nd mi p ii) (filter live (sc_models sc)) (model_nodes sc).
Proof.
  intros Hp. destruct (nodes_of_run sc Hp) as (mn & En & Hn & _). unfold model_nodes.
  rewrite (Forall2_len _ _ _ Hn), En, firstn_app, Nat.sub_diag, firstn_all. cbn [firstn]. rewrite app_nil_r. auto.
Qed.

Theorem node_trs_run sc : scene_ptr_ok sc ->
  Forall2 (fun mo nd => gn_name nd = mo_name mo /\ gn_t nd = mo_t mo /\ gn_r nd = mo_r mo /\ gn_s nd = mo_s mo /\
                        gn_light nd = None)
          (filter live (sc_models sc)) (model_nodes sc).
Proof.
  intros Hp. destruct (model_nodes_spec sc Hp) as (_ & H). eapply Forall2_impl; [|exact H].
  intros mo nd (mi & p & ii & D). destruct D as [H1 (H2 & H3 & H4) (H5 & _) _ _ _ _ _]. auto.
Qed.

Theorem instances_run sc : scene_ok sc -> scene_ptr_ok sc ->
  let st := run sc in let s := to_summary st in
  Forall2 (fun mo nd =>
    match mo_inst mo with
    | [] => gn_inst nd = None
    | ins => exists t sc_ r at_ as_ ar,
        gn_inst nd = Some [("TRANSLATION"%string, t); ("SCALE"%string, sc_); ("ROTATION"%string, r)] /\
        In "EXT_mesh_gpu_instancing"%string (gn_exts nd) /\
        nth_error (s_accs s) (N.to_nat t) = Some at_ /\ nth_error (s_accs s) (N.to_nat sc_) = Some as_ /\
        nth_error (s_accs s) (N.to_nat r) = Some ar /\
        (a_comp at_, a_k at_, a_count at_) = (5126, 3, len ins) /\
        (a_comp as_, a_k as_, a_count as_) = (5126, 3, len ins) /\
        (a_comp ar, a_k ar, a_count ar) = (5126, 4, len ins) /\
        decode_acc (s_views s) (buf st) at_ = Some (map in_t ins) /\
        decode_acc (s_views s) (buf st) as_ = Some (map in_s ins) /\
        decode_acc (s_views s) (buf st) ar = Some (map in_r ins)
    end) (filter live (sc_models sc)) (model_nodes sc).
Proof.
  intros Hok Hp. cbv zeta. destruct (model_nodes_spec sc Hp) as (_ & H).
  destruct (run_chunks_ok sc Hok) as (cks & Hk & E).
  eapply Forall2_impl; [|exact H]. intros mo nd (mi & p & ii & D). destruct D as [_ _ _ _ _ _ _ Hi].
  unfold to_summary, buf, buf_b. cbn [s_accs s_views]. rewrite E in *. cbn [b_chunks b_accs b_views of_chunks] in *.
  apply instances_decode; assumption.
Qed.

Theorem dedup_run sc : scene_ptr_ok sc ->
  forall mo1 nd1 mo2 nd2,
  In (mo1, nd1) (combine (filter live (sc_models sc)) (model_nodes sc)) ->
  In (mo2, nd2) (combine (filter live (sc_models sc)) (model_nodes sc)) ->
  exists mi1 p1 ii1 mi2 p2 ii2,
    node_doc (run sc) mo1 nd1 mi1 p1 ii1 /\ node_doc (run sc) mo2 nd2 mi2 p2 ii2 /\
    (me_ptr (mo_mesh mo1) = me_ptr (mo_mesh mo2) -> gp_attrs p1 = gp_attrs p2 /\ gp_idx p1 = gp_idx p2) /\
    (mi1 = mi2 <-> me_ptr (mo_mesh mo1) = me_ptr (mo_mesh mo2) /\ gp_mat p1 = gp_mat p2) /\
    (forall pm1 pm2, mo_mat mo1 = Some pm1 -> mo_mat mo2 = Some pm2 ->
       (gp_mat p1 = gp_mat p2 <-> mat_equal pm1 pm2 = true)) /\
    (mo_mat mo1 = None -> gp_mat p1 = None).
Proof.
  intros Hp mo1 nd1 mo2 nd2 I1 I2. destruct (model_nodes_spec sc Hp) as (_ & H).
  destruct (Forall2_combine_In _ _ _ _ _ H I1) as (mi1 & p1 & ii1 & D1).
  destruct (Forall2_combine_In _ _ _ _ _ H I2) as (mi2 & p2 & ii2 & D2).
  exists mi1, p1, ii1, mi2, p2, ii2. split; [exact D1|]. split; [exact D2|].
  destruct (run_linv sc Hp) as (Ht & _). eapply dedup_nodes; eauto.
Qed.

Theorem material_run sc : scene_ptr_ok sc ->
  forall mo nd pm, In (mo, nd) (combine (filter live (sc_models sc)) (model_nodes sc)) -> mo_mat mo = Some pm ->
  exists mi p ii i e x g, node_doc (run sc) mo nd mi p ii /\ gp_mat p = Some i /\ mat_equal e pm = true /\
    nth_error (s_mats (to_summary (run sc))) (N.to_nat i) = Some g /\ g = fst (build_material e x).
Proof.
  intros Hp mo nd pm I E. destruct (model_nodes_spec sc Hp) as (_ & H).
  destruct (Forall2_combine_In _ _ _ _ _ H I) as (mi & p & ii & D).
  destruct (run_linv sc Hp) as (Ht & _).
  destruct (material_built _ _ _ _ _ _ _ _ Ht D E) as (i & e & x & g & H1 & H2 & H3 & H4).
  exists mi, p, ii, i, e, x, g. auto.
Qed.

(* ------------------------------------------------------------------ the property sentence, packaged *)
From PF Require Import Formats.GltfExtProofs Formats.GltfGlbProofs.

(* One record per scene: every clause of the property that is proved of the model's document
   ([to_summary (run sc)], payload [buf (run sc)]).  Field by field it mirrors the clauses [gltf_check]
   evaluates on the implementation's documents (keys in brackets). *)
Record doc_valid (sc : scene) : Prop := {
  (* [buffer-count, buffer-length, payload-length, view-out-of-buffer, view-overlap] *)
  dv_views :
    let st := run sc in let s := to_summary st in
    tiles 0 (s_views s) (b_written (st_b st)) /\ views_disjoint (s_views s) = true /\
    forallb (view_ok [b_written (st_b st)]) (s_views s) = true /\
    s_buffers s = (if 0 <? b_written (st_b st) then [b_written (st_b st)] else []) /\
    len (buf st) = b_written (st_b st);
  (* [accessor-out-of-view] *)
  dv_accessors :
    let s := to_summary (run sc) in
    forallb (acc_ok (s_views s)) (s_accs s) = true /\
    forall i a, nth_error (s_accs s) i = Some a ->
      exists v, a_view a = Some (N.of_nat i) /\ nth_error (s_views s) i = Some v /\ a_off a = 0 /\
                a_count a * a_k a * code_size (a_comp a) = v_len v;
  (* [minmax-mismatch] *)
  dv_minmax :
    forall i a, nth_error (s_accs (to_summary (run sc))) i = Some a ->
    exists ck, nth_error (b_chunks (st_b (run sc))) i = Some ck /\
      decode_acc (s_views (to_summary (run sc))) (buf (run sc)) a = Some (expand (ck_data ck)) /\
      (is_idx_comp (ck_comp ck) = true /\ a_min a = [] /\ a_max a = [] \/
       is_idx_comp (ck_comp ck) = false /\
       (a_min a, a_max a) = minmax_of (ck_comp ck) (ck_k ck) (run_elems (ck_data ck)));
  (* [primitive-count, attribute-set (one direction), attribute-image, attribute-count-mismatch, index-image,
     index-width, index-out-of-range, dangling-index (accessor references)] *)
  dv_prims :
    let st := run sc in let s := to_summary st in
    forall gm, In gm (s_meshes s) ->
    exists p mo ii, In mo (sc_models sc) /\ gm_prims gm = [p] /\ gp_idx p = Some ii /\
      let m := mo_mesh mo in
      (exists a, nth_error (s_accs s) (N.to_nat ii) = Some a /\
                 a_comp a = (if attr_len m <=? 65535 then 5123 else 5125) /\ a_k a = 1 /\ a_count a = len (me_idx m) /\
                 decode_acc (s_views s) (buf st) a = Some (map (fun i => [i]) (me_idx m))) /\
      forall name ai, In (name, ai) (gp_attrs p) ->
        exists k nv a, attr_of m k nv /\ name = gltf_name (fst nv) /\
          nth_error (s_accs s) (N.to_nat ai) = Some a /\
          a_comp a = comp_code (attr_comp (fst nv)) /\ a_k a = k /\ a_count a = attr_len m /\
          decode_acc (s_views s) (buf st) a = Some (expand (snd nv));
  (* [extension-undeclared] (inclusions; absence of duplicates is evaluator-only) *)
  dv_exts :
    let s := to_summary (run sc) in incl (all_ext_keys s) (s_used s) /\ incl (s_req s) (s_used s);
  (* [node-count, node-name, node-trs, node-kind, primitive-mode, light-node, light-content, scene-roots] *)
  dv_nodes :
    let st := run sc in
    exists mn, st_nodes st = mn ++ light_nodes 0 (sc_lights sc) /\
      Forall2 (fun mo nd => exists mi p ii, node_doc st mo nd mi p ii) (filter live (sc_models sc)) mn /\
      st_scene st = seqN (length (st_nodes st)) /\ st_lights st = map light_out (sc_lights sc);
  (* [instances] *)
  dv_instances :
    let st := run sc in let s := to_summary st in
    Forall2 (fun mo nd =>
      match mo_inst mo with
      | [] => gn_inst nd = None
      | ins => exists t sc_ r at_ as_ ar,
          gn_inst nd = Some [("TRANSLATION"%string, t); ("SCALE"%string, sc_); ("ROTATION"%string, r)] /\
          In "EXT_mesh_gpu_instancing"%string (gn_exts nd) /\
          nth_error (s_accs s) (N.to_nat t) = Some at_ /\ nth_error (s_accs s) (N.to_nat sc_) = Some as_ /\
          nth_error (s_accs s) (N.to_nat r) = Some ar /\
          (a_comp at_, a_k at_, a_count at_) = (5126, 3, len ins) /\
          (a_comp as_, a_k as_, a_count as_) = (5126, 3, len ins) /\
          (a_comp ar, a_k ar, a_count ar) = (5126, 4, len ins) /\
          decode_acc (s_views s) (buf st) at_ = Some (map in_t ins) /\
          decode_acc (s_views s) (buf st) as_ = Some (map in_s ins) /\
          decode_acc (s_views s) (buf st) ar = Some (map in_r ins)
      end) (filter live (sc_models sc)) (model_nodes sc);
  (* [dedup-inconsistent] *)
  dv_dedup :
    forall mo1 nd1 mo2 nd2,
    In (mo1, nd1) (combine (filter live (sc_models sc)) (model_nodes sc)) ->
    In (mo2, nd2) (combine (filter live (sc_models sc)) (model_nodes sc)) ->
    exists mi1 p1 ii1 mi2 p2 ii2,
      node_doc (run sc) mo1 nd1 mi1 p1 ii1 /\ node_doc (run sc) mo2 nd2 mi2 p2 ii2 /\
      (me_ptr (mo_mesh mo1) = me_ptr (mo_mesh mo2) -> gp_attrs p1 = gp_attrs p2 /\ gp_idx p1 = gp_idx p2) /\
      (mi1 = mi2 <-> me_ptr (mo_mesh mo1) = me_ptr (mo_mesh mo2) /\ gp_mat p1 = gp_mat p2) /\
      (forall pm1 pm2, mo_mat mo1 = Some pm1 -> mo_mat mo2 = Some pm2 ->
         (gp_mat p1 = gp_mat p2 <-> mat_equal pm1 pm2 = true)) /\
      (mo_mat mo1 = None -> gp_mat p1 = None);
  (* [material-content]: scalar fields, colours, alpha (the entry is AddMaterial of an equal material);
     the texture slots' content is evaluator-only *)
  dv_materials :
    forall mo nd pm, In (mo, nd) (combine (filter live (sc_models sc)) (model_nodes sc)) -> mo_mat mo = Some pm ->
    exists mi p ii i e x g, node_doc (run sc) mo nd mi p ii /\ gp_mat p = Some i /\ mat_equal e pm = true /\
      nth_error (s_mats (to_summary (run sc))) (N.to_nat i) = Some g /\ g = fst (build_material e x);
  (* [glb-header, glb-total-length, glb-chunk-length, glb-trailing-bytes, glb-chunks, glb-padding] for any JSON text *)
  dv_glb :
    forall json, glb_total (len json) (len (buf (run sc))) < 4294967296 ->
    len (glb_frame json (buf (run sc))) = glb_total (len json) (len (buf (run sc))) /\
    glb_parse (glb_frame json (buf (run sc))) =
      Some (json ++ repeat 32 (N.to_nat (pad4 (len json))),
            if len (buf (run sc)) =? 0 then None
            else Some (buf (run sc) ++ repeat 0 (N.to_nat (pad4 (len (buf (run sc))))))) }.

Theorem model_doc_valid sc : scene_ok sc -> scene_ptr_ok sc -> doc_valid sc.
Proof.
  intros Hok Hp. constructor.
  - pose proof (views_tile sc) as H. cbv zeta in *. intuition.
  - apply accessors_fit, Hok.
  - intros i a Ha. destruct (payload_decodes sc Hok i a Ha) as (ck & E1 & E2 & E3).
    destruct (minmax_declared sc i a Ha) as (ck' & E1' & Hm). rewrite E1 in E1'. apply some_inj in E1'. subst ck'.
    exists ck. auto.
  - apply prims_carry, Hok.
  - apply ext_declared_run.
  - apply nodes_of_run, Hp.
  - apply instances_run; assumption.
  - apply dedup_run, Hp.
  - apply material_run, Hp.
  - intros json H. split; [apply glb_frame_length|apply glb_parse_frame, H].
Qed.
