(* C07: stl.Read on an io.Reader that delivers the data in pieces returns what it returns on the whole byte string,
   for every segmentation of the input (incl. empty pieces) and every chunk size; a failing writer is reported
   exactly when the file does not fit. *)
From PF Require Import Base.Bytes Base.BytesProofs Formats.Stl Formats.StlProofs Formats.StlIo.
From Coq Require Import ZifyN ZifyNat ZifyBool.
Open Scope N_scope.
Ltac Zify.zify_post_hook ::= Z.div_mod_to_equations.

(* ---------- io.ReadFull over pieces = take on the concatenation ---------- *)
Lemma pull_spec ps : forall n a ps', pull ps n = Some (a, ps') -> concat ps = a ++ concat ps' /\ length a = n.
Proof.
  induction ps as [|p ps IH]; intros n a ps'; destruct n as [|n]; cbn [pull].
  - intros H. assert (a = [] /\ ps' = []) as [-> ->] by (split; congruence). split; reflexivity.
  - discriminate.
  - intros H. assert (a = [] /\ ps' = p :: ps) as [-> ->] by (split; congruence). split; reflexivity.
  - destruct (Nat.ltb_spec (length p) (S n)) as [Hlt|Hge].
    + destruct (pull ps (S n - length p)) as [[a0 r]|] eqn:E; cbn [bind]; [|discriminate].
      intros H. assert (a = p ++ a0 /\ ps' = r) as [-> ->] by (split; congruence).
      apply IH in E. destruct E as [E1 E2]. cbn [concat]. rewrite E1, app_assoc, app_length, E2. split; [reflexivity|lia].
    + intros H. assert (a = firstn (S n) p /\ ps' = skipn (S n) p :: ps) as [-> ->] by (split; congruence).
      cbn [concat]. rewrite app_assoc, firstn_skipn. split; [reflexivity|]. rewrite firstn_length. lia.
Qed.

Lemma pull_none ps : forall n, pull ps n = None -> (length (concat ps) < n)%nat.
Proof.
  induction ps as [|p ps IH]; intros n; destruct n as [|n]; cbn [pull]; try discriminate.
  - intros _. simpl. lia.
  - destruct (Nat.ltb_spec (length p) (S n)) as [Hlt|Hge]; [|discriminate].
    destruct (pull ps (S n - length p)) as [[a0 r]|] eqn:E; cbn [bind]; [discriminate|].
    intros _. apply IH in E. cbn [concat]. rewrite app_length. lia.
Qed.

Lemma pull_take ps n :
  match pull ps n with
  | Some (a, ps') => take n (concat ps) = Some (a, concat ps')
  | None => take n (concat ps) = None
  end.
Proof.
  destruct (pull ps n) as [[a ps']|] eqn:E.
  - apply pull_spec in E. destruct E as [-> <-]. apply take_app.
  - apply pull_none in E. apply take_none. assumption.
Qed.

Lemma get32s_get32 ps :
  match get32s ps with
  | Some (w, r) => get32 (concat ps) = Some (w, concat r)
  | None => get32 (concat ps) = None
  end.
Proof.
  unfold get32s, get32. pose proof (pull_take ps 4) as H.
  destruct (pull ps 4) as [[a r]|]; rewrite H; cbn [bind]; [|reflexivity].
  destruct (de_le32 a); reflexivity.
Qed.

(* ---------- the record parser only looks at the bytes it consumes ---------- *)
Lemma take_more {A} n (l a r x : list A) : take n l = Some (a, r) -> take n (l ++ x) = Some (a, r ++ x).
Proof. intros H. apply take_spec in H. destruct H as [-> <-]. rewrite <- app_assoc. apply take_app. Qed.

Lemma get32_more l w r x : get32 l = Some (w, r) -> get32 (l ++ x) = Some (w, r ++ x).
Proof.
  unfold get32. destruct (take 4 l) as [[a r']|] eqn:E; cbn [bind]; [|discriminate].
  rewrite (take_more _ _ _ _ x E). cbn [bind]. destruct (de_le32 a); cbn [bind]; [|discriminate].
  intros H. assert (r' = r) by congruence. subst. congruence.
Qed.

Lemma get16_more l w r x : get16 l = Some (w, r) -> get16 (l ++ x) = Some (w, r ++ x).
Proof.
  unfold get16. destruct (take 2 l) as [[a r']|] eqn:E; cbn [bind]; [|discriminate].
  rewrite (take_more _ _ _ _ x E). cbn [bind]. destruct (de_le16 a); cbn [bind]; [|discriminate].
  intros H. assert (r' = r) by congruence. subst. congruence.
Qed.

Lemma getvec_more l v r x : getvec l = Some (v, r) -> getvec (l ++ x) = Some (v, r ++ x).
Proof.
  unfold getvec.
  destruct (get32 l) as [[a r1]|] eqn:E1; cbn [bind]; [|discriminate].
  destruct (get32 r1) as [[b r2]|] eqn:E2; cbn [bind]; [|discriminate].
  destruct (get32 r2) as [[c r3]|] eqn:E3; cbn [bind]; [|discriminate].
  rewrite (get32_more _ _ _ x E1). cbn [bind]. rewrite (get32_more _ _ _ x E2). cbn [bind].
  rewrite (get32_more _ _ _ x E3). cbn [bind]. intros H. injection H as <- <-. reflexivity.
Qed.

Lemma gettri_more l t r x : gettri l = Some (t, r) -> gettri (l ++ x) = Some (t, r ++ x).
Proof.
  unfold gettri.
  destruct (getvec l) as [[n r1]|] eqn:E1; cbn [bind]; [|discriminate].
  destruct (getvec r1) as [[a r2]|] eqn:E2; cbn [bind]; [|discriminate].
  destruct (getvec r2) as [[b r3]|] eqn:E3; cbn [bind]; [|discriminate].
  destruct (getvec r3) as [[c r4]|] eqn:E4; cbn [bind]; [|discriminate].
  destruct (get16 r4) as [[w r5]|] eqn:E5; cbn [bind]; [|discriminate].
  rewrite (getvec_more _ _ _ x E1). cbn [bind]. rewrite (getvec_more _ _ _ x E2). cbn [bind].
  rewrite (getvec_more _ _ _ x E3). cbn [bind]. rewrite (getvec_more _ _ _ x E4). cbn [bind].
  rewrite (get16_more _ _ _ x E5). cbn [bind]. intros H. injection H as <- <-. reflexivity.
Qed.

Lemma read_tris_rest_more fuel : forall c l ts r x,
  read_tris_rest fuel c l = Some (ts, r) -> read_tris_rest fuel c (l ++ x) = Some (ts, r ++ x).
Proof.
  induction fuel as [|f IH]; intros c l ts r x; cbn [read_tris_rest]; destruct (c =? 0).
  - intros H. assert (ts = [] /\ r = l) as [-> ->] by (split; congruence). reflexivity.
  - discriminate.
  - intros H. assert (ts = [] /\ r = l) as [-> ->] by (split; congruence). reflexivity.
  - destruct (gettri l) as [[t r1]|] eqn:Et; cbn [bind]; [|discriminate].
    destruct (read_tris_rest f (c - 1) r1) as [[ts' r']|] eqn:Er; cbn [bind]; [|discriminate].
    intros H. assert (ts = t :: ts' /\ r = r') as [-> ->] by (split; congruence).
    rewrite (gettri_more _ _ _ x Et). cbn [bind]. rewrite (IH _ _ _ _ x Er). reflexivity.
Qed.

(* ---------- one binary.Read of c records from the stream ---------- *)
Lemma read_recs_s_eq c ps F : (length (concat ps) <= F)%nat ->
  match read_recs_s c ps with
  | Some (ts, ps') => read_tris_rest F c (concat ps) = Some (ts, concat ps')
  | None => read_tris_rest F c (concat ps) = None
  end.
Proof.
  intros HF. unfold read_recs_s.
  destruct (pull ps (50 * N.to_nat c)) as [[b ps']|] eqn:Ep; cbn [bind].
  - apply pull_spec in Ep. destruct Ep as [Ec Hb]. rewrite Ec in *. rewrite app_length in HF.
    destruct (read_tris_rest_some (length b) c b) as (ts & x & E); [lia|lia|]. rewrite E. cbn [bind].
    pose proof (read_tris_rest_length _ _ _ _ _ E) as [Hn Hl].
    assert (x = []) by (destruct x; [reflexivity|simpl in Hl; lia]). subst x.
    rewrite (read_tris_rest_fuel (length b) F c b) in E by lia.
    apply (read_tris_rest_more F c b ts [] (concat ps')) in E. exact E.
  - apply pull_none in Ep.
    destruct (read_tris_rest F c (concat ps)) as [[ts r]|] eqn:E; [|reflexivity].
    apply read_tris_rest_length in E. destruct E as [Hn Hl]. lia.
Qed.

(* ---------- the chunk loop over a stream = one pass over the concatenation ---------- *)
Lemma read_chunks_s_eq fuel : forall k rem ps F, 1 <= k -> (length (concat ps) <= fuel)%nat -> (length (concat ps) <= F)%nat ->
  match read_chunks_s fuel k rem ps with
  | Some (ts, ps') => read_tris_rest F rem (concat ps) = Some (ts, concat ps')
  | None => read_tris_rest F rem (concat ps) = None
  end.
Proof.
  induction fuel as [|f IH]; intros k rem ps F Hk Hf HF;
    (destruct (N.eq_dec rem 0) as [->|Hr]; [rewrite read_tris_rest_0; destruct f || idtac; reflexivity|]).
  - cbn [read_chunks_s]. replace (rem =? 0) with false by lia.
    destruct (concat ps); [|simpl in Hf; lia]. apply read_tris_rest_nil. assumption.
  - cbn [read_chunks_s]. replace (rem =? 0) with false by lia.
    remember (N.min rem k) as c eqn:Ec. assert (Hc : 1 <= c /\ c <= rem) by lia.
    pose proof (read_tris_rest_split F c (rem - c) (concat ps) HF) as Hs.
    replace (c + (rem - c)) with rem in Hs by lia. rewrite Hs.
    pose proof (read_recs_s_eq c ps F HF) as Hrec.
    destruct (read_recs_s c ps) as [[buf ps1]|]; rewrite Hrec; cbn [bind]; [|reflexivity].
    apply read_tris_rest_length in Hrec. destruct Hrec as [Hn Hl].
    pose proof (IH k (rem - c) ps1 F Hk ltac:(lia) ltac:(lia)) as Hi.
    destruct (read_chunks_s f k (rem - c) ps1) as [[ts r']|]; rewrite Hi; reflexivity.
Qed.

(* stl.Read through any reader that eventually delivers the bytes = stl.Read on the bytes, for every chunk size *)
Theorem read_stream_eq_read k ps : 1 <= k -> read_stream k ps = read (concat ps).
Proof.
  intros Hk. unfold read_stream, read.
  pose proof (pull_take ps 80) as H80. destruct (pull ps 80) as [[hdr r]|]; rewrite H80; cbn [bind]; [|reflexivity].
  pose proof (get32s_get32 r) as H32. destruct (get32s r) as [[count r2]|]; rewrite H32; cbn [bind]; [|reflexivity].
  rewrite read_tris_fst.
  pose proof (read_chunks_s_eq (length (concat r2)) k count r2 (length (concat r2)) Hk ltac:(lia) ltac:(lia)) as Hc.
  destruct (read_chunks_s (length (concat r2)) k count r2) as [[ts r']|]; rewrite Hc; reflexivity.
Qed.

(* written file, cut into pieces any way, with anything after it: the records come back *)
Theorem stream_roundtrip hdr ts ps :
  length hdr = 80%nat -> Forall tri_ok ts -> N.of_nat (length ts) < 4294967296 ->
  (exists extra, concat ps = write hdr ts ++ extra) ->
  read_stream stl_chunk ps = Some (hdr, ts).
Proof.
  intros Hh Ht Hn [extra E]. rewrite read_stream_eq_read by (unfold stl_chunk; lia). rewrite E.
  apply read_write_trailing; assumption.
Qed.

(* a reader that fails before the announced records are complete: rejected, wherever it fails *)
Theorem stream_cut_rejected hdr ts ps k :
  length hdr = 80%nat -> bytes_ok hdr -> N.of_nat (length ts) < 4294967296 ->
  (k < length (write hdr ts))%nat -> concat ps = firstn k (write hdr ts) ->
  read_stream stl_chunk ps = None.
Proof.
  intros Hh Hb Hn Hk E. rewrite read_stream_eq_read by (unfold stl_chunk; lia). rewrite E.
  apply read_prefix_rejected; assumption.
Qed.

(* ---------- failing writer ---------- *)
Theorem write_to_reported cap hdr ts : length hdr = 80%nat ->
  snd (write_to cap (write hdr ts)) = true <-> (cap < 84 + 50 * length ts)%nat.
Proof.
  intros Hh. unfold write_to. cbn [snd]. rewrite write_length, Hh. rewrite Nat.ltb_lt. lia.
Qed.

Theorem write_to_accepted cap bytes : fst (write_to cap bytes) = firstn cap bytes.
Proof. reflexivity. Qed.

(* ---------- mesh -> bytes -> pieces -> records ---------- *)
Lemma gather_tris_ok fns : forall idx pos ts, gather_tris idx pos fns = Some ts ->
  Forall vec_ok pos -> Forall vec_ok fns -> Forall tri_ok ts.
Proof.
  induction fns as [|f fns IH]; intros idx pos ts E Hp Hf.
  - destruct idx; cbn [gather_tris] in E; assert (ts = []) by congruence; subst; constructor.
  - destruct idx as [|i [|j [|k idx]]]; cbn [gather_tris] in E; try (assert (ts = []) by congruence; subst; constructor).
    destruct (nth_error pos i) as [a|] eqn:Ea; cbn [bind] in E; [|discriminate].
    destruct (nth_error pos j) as [b|] eqn:Eb; cbn [bind] in E; [|discriminate].
    destruct (nth_error pos k) as [c|] eqn:Ec; cbn [bind] in E; [|discriminate].
    destruct (gather_tris idx pos fns) as [ts'|] eqn:Eg; cbn [bind] in E; [|discriminate].
    assert (ts = {| tn := f; ta := a; tb := b; tc := c; tattr := 0 |} :: ts') by congruence. subst.
    rewrite Forall_cons_iff in Hf. destruct Hf as [Hf0 Hf]. constructor.
    + unfold tri_ok. cbn [tn ta tb tc tattr]. rewrite Forall_forall in Hp.
      split; [assumption|]. split; [apply Hp; eapply nth_error_In; eassumption|].
      split; [apply Hp; eapply nth_error_In; eassumption|]. split; [apply Hp; eapply nth_error_In; eassumption|].
      unfold word16. lia.
    + eapply IH; eassumption.
Qed.

Theorem mesh_stream_roundtrip idx pos fns ps :
  length idx = (3 * length fns)%nat -> Forall (fun i => (i < length pos)%nat) idx ->
  Forall vec_ok pos -> Forall vec_ok fns -> N.of_nat (length fns) < 4294967296 ->
  (exists bytes, write_mesh idx (Some pos) fns = Some bytes /\ concat ps = bytes) ->
  exists hdr ts,
    read_stream stl_chunk ps = Some (hdr, ts) /\ length ts = length fns /\
    rm_pos ts = corner_positions idx pos /\ map tn ts = fns /\ Forall (fun t => tattr t = 0) ts.
Proof.
  intros Hl Hr Hp Hf Hn (bytes & Hw & Hc).
  destruct (gather_tris_spec fns idx pos Hl Hr) as (ts & E & Hlen & Htn & Hpos & Hat).
  unfold write_mesh in Hw. rewrite E in Hw. cbn [bind] in Hw. assert (bytes = write zero_hdr ts) by congruence. subst bytes.
  exists zero_hdr, ts. split; [|repeat split; assumption].
  apply stream_roundtrip; [reflexivity | eapply gather_tris_ok; eassumption | rewrite Hlen; assumption |].
  exists []. rewrite app_nil_r. assumption.
Qed.
